(** Proofs about the lexical forms of TextLex.v: every printer is read back by its parser,
    for all numbers / byte strings / instants, and no parser panics. *)
From Coq Require Import String Ascii ZArith List Bool Lia.
From KV Require Import Base BaseProofs Wire TextLex.
Import ListNotations.
Open Scope Z_scope.

Lemma returns_bind {A B} (r : res A) (f : A -> res B) :
  returns r -> (forall a, r = Ok a -> returns (f a)) -> returns (bind r f).
Proof. destruct r; cbn; intros H Hf; auto. Qed.

(** ---------------------------------------------------------------- strings *)

Lemma seqb_refl s : seqb s s = true.
Proof. induction s as [|c s IH]; cbn [seqb]; [reflexivity|]. rewrite Z.eqb_refl, IH. reflexivity. Qed.

Lemma seqb_eq a b : seqb a b = true <-> a = b.
Proof.
  split; [|intros ->; apply seqb_refl].
  revert b; induction a as [|x a IH]; intros [|y b]; cbn [seqb]; try discriminate; auto.
  intros H. apply andb_true_iff in H as [H1 H2]. apply Z.eqb_eq in H1. f_equal; auto.
Qed.

Lemma seqb_neq a b : a <> b -> seqb a b = false.
Proof. intros H. destruct (seqb a b) eqn:E; [|reflexivity]. apply seqb_eq in E. contradiction. Qed.

Lemma has_prefix_0x s : has_prefix s_0x s = true -> exists r, s = 48 :: 120 :: r.
Proof.
  unfold s_0x. destruct s as [|a [|b r]]; cbn [has_prefix]; try discriminate.
  - rewrite andb_false_r. discriminate.
  - intros H. apply andb_true_iff in H as [H1 H2]. apply andb_true_iff in H2 as [H2 _].
    apply Z.eqb_eq in H1, H2. subst. eauto.
Qed.

Lemma has_prefix_0x_cons r : has_prefix s_0x (s_0x ++ r) = true.
Proof. reflexivity. Qed.

Lemma go_from_0x r : go_from 2 (s_0x ++ r) = Ok r.
Proof.
  unfold go_from, s_0x. cbn [app]. rewrite !len_cons.
  pose proof (len_nonneg r). destruct (1 + (1 + len r) <? 2) eqn:E; [lia|]. reflexivity.
Qed.

Lemma go_from_prefixed s : has_prefix s_0x s = true -> exists r, s = s_0x ++ r /\ go_from 2 s = Ok r.
Proof. intros H. destruct (has_prefix_0x s H) as [r ->]. exists r. split; [reflexivity|apply (go_from_0x r)]. Qed.

Lemma no_x_no_prefix s : Forall (fun c => c <> 120) s -> has_prefix s_0x s = false.
Proof.
  intros H. destruct (has_prefix s_0x s) eqn:E; [|reflexivity].
  destruct (has_prefix_0x s E) as [r ->]. inversion H as [|? ? _ H2]; subst. inversion H2; subst. congruence.
Qed.

(** ---------------------------------------------------------------- digits *)

Lemma digit_val_char u d : 0 <= d < 36 -> digit_val (digit_char u d) = Some d.
Proof.
  intros Hd. unfold digit_char, digit_val.
  destruct (d <? 10) eqn:E.
  - replace ((48 <=? 48 + d) && (48 + d <=? 57)) with true by lia. f_equal. lia.
  - destruct u.
    + replace ((48 <=? 55 + d) && (55 + d <=? 57)) with false by lia.
      replace ((97 <=? 55 + d) && (55 + d <=? 122)) with false by lia.
      replace ((65 <=? 55 + d) && (55 + d <=? 90)) with true by lia. f_equal. lia.
    + replace ((48 <=? 87 + d) && (87 + d <=? 57)) with false by lia.
      replace ((97 <=? 87 + d) && (87 + d <=? 122)) with true by lia. f_equal. lia.
Qed.

Lemma digit_char_ge u d : 0 <= d -> 48 <= digit_char u d.
Proof. intros. unfold digit_char. destruct (d <? 10), u; lia. Qed.

Lemma digit_char_dec d : 0 <= d < 10 -> 48 <= digit_char false d <= 57.
Proof. intros. unfold digit_char. destruct (d <? 10) eqn:E; lia. Qed.

Section Digits.
  Variable base : Z.
  Hypothesis Hbase : 2 <= base <= 36.
  Variable u : bool.

  Lemma parse_digits_step d r acc : 0 <= d < base ->
    parse_digits base (digit_char u d :: r) acc = parse_digits base r (acc * base + d).
  Proof.
    intros Hd. cbn [parse_digits]. rewrite digit_val_char by lia.
    replace (d <? base) with true by lia. reflexivity.
  Qed.

  Lemma digits_aux_parse fuel : forall n acc,
    0 <= n < base ^ Z.of_nat fuel ->
    parse_digits base (digits_aux fuel base u n acc) 0 = parse_digits base acc n.
  Proof.
    induction fuel as [|f IH]; intros n acc Hn.
    - cbn in Hn. replace n with 0 by lia. reflexivity.
    - cbn [digits_aux]. destruct (n <? base) eqn:E.
      + rewrite parse_digits_step by lia. f_equal.
      + rewrite IH.
        * rewrite parse_digits_step by (apply Z.mod_pos_bound; lia).
          f_equal. rewrite Z.mul_comm. symmetry. apply Z.div_mod. lia.
        * rewrite Nat2Z.inj_succ, Z.pow_succ_r in Hn by lia.
          split; [apply Z.div_pos; lia|]. apply Z.div_lt_upper_bound; lia.
  Qed.

  Lemma digits_fuel_ok n : 0 <= n -> n < base ^ Z.of_nat (S (Z.to_nat (Z.log2 n))).
  Proof.
    intros Hn. rewrite Nat2Z.inj_succ, Z2Nat.id by apply Z.log2_nonneg.
    destruct (Z.eq_dec n 0) as [->|Hz].
    - cbn. lia.
    - assert (Hl : n < 2 ^ Z.succ (Z.log2 n)) by (apply Z.log2_spec; lia).
      eapply Z.lt_le_trans; [exact Hl|].
      apply Z.pow_le_mono_l. pose proof (Z.log2_nonneg n). lia.
  Qed.

  Lemma digits_parse n : 0 <= n -> parse_digits base (digits base u n) 0 = Some n.
  Proof.
    intros Hn. unfold digits. rewrite digits_aux_parse; [reflexivity|].
    split; [lia|apply digits_fuel_ok; lia].
  Qed.

  Lemma digits_aux_nonempty fuel : forall n acc, acc <> [] -> digits_aux fuel base u n acc <> [].
  Proof.
    induction fuel as [|f IH]; intros n acc Ha; cbn [digits_aux]; [exact Ha|].
    destruct (n <? base); [discriminate|]. apply IH. discriminate.
  Qed.

  Lemma digits_nonempty n : digits base u n <> [].
  Proof.
    unfold digits. cbn [digits_aux]. destruct (n <? base); [discriminate|].
    apply digits_aux_nonempty. discriminate.
  Qed.

  Lemma digits_aux_chars (P : Z -> Prop) fuel : forall n acc,
    0 <= n -> (forall d, 0 <= d < base -> P (digit_char u d)) -> Forall P acc ->
    Forall P (digits_aux fuel base u n acc).
  Proof.
    induction fuel as [|f IH]; intros n acc Hn HP Ha; cbn [digits_aux]; [exact Ha|].
    destruct (n <? base) eqn:E.
    - constructor; [apply HP; lia|exact Ha].
    - apply IH; [apply Z.div_pos; lia|exact HP|].
      constructor; [apply HP; apply Z.mod_pos_bound; lia|exact Ha].
  Qed.

  Lemma digits_chars (P : Z -> Prop) n :
    0 <= n -> (forall d, 0 <= d < base -> P (digit_char u d)) -> Forall P (digits base u n).
  Proof. intros. apply digits_aux_chars; auto. Qed.

  Lemma digits_aux_length fuel : forall n acc k,
    0 <= n < base ^ Z.of_nat k -> (1 <= k)%nat ->
    (List.length (digits_aux fuel base u n acc) <= k + List.length acc)%nat.
  Proof.
    induction fuel as [|f IH]; intros n acc k Hn Hk; cbn [digits_aux]; [lia|].
    destruct (n <? base) eqn:E.
    - cbn [List.length]. lia.
    - destruct k as [|[|k]]; [lia| |].
      + cbn in Hn. lia.
      + specialize (IH (n / base) (digit_char u (n mod base) :: acc) (S k)).
        cbn [List.length] in IH. etransitivity; [apply IH|lia]; [|lia].
        rewrite (Nat2Z.inj_succ (S k)), Z.pow_succ_r in Hn by lia.
        split; [apply Z.div_pos; lia|]. apply Z.div_lt_upper_bound; lia.
  Qed.

  Lemma digits_length n k : 0 <= n < base ^ Z.of_nat k -> (1 <= k)%nat ->
    (List.length (digits base u n) <= k)%nat.
  Proof. intros Hn Hk. unfold digits. pose proof (digits_aux_length (S (Z.to_nat (Z.log2 n))) n [] k Hn Hk) as H. cbn [List.length] in H. lia. Qed.

  Lemma parse_digits_zeros k s acc : acc = 0 -> parse_digits base (repeat 48 k ++ s) acc = parse_digits base s 0.
  Proof.
    intros ->. induction k as [|k IH]; cbn [repeat app]; [reflexivity|].
    change 48 with (digit_char u 0) at 1. rewrite parse_digits_step by lia. exact IH.
  Qed.

  Lemma pad_left_parse w n : 0 <= n -> parse_digits base (pad_left w (digits base u n)) 0 = Some n.
  Proof. intros Hn. unfold pad_left. rewrite parse_digits_zeros by reflexivity. apply digits_parse; lia. Qed.

  Lemma pad_left_nonempty w s : s <> [] -> pad_left w s <> [].
  Proof. unfold pad_left. destruct (repeat 48 (w - List.length s)); cbn; [auto|discriminate]. Qed.

  Lemma pad_left_length w s : (List.length s <= w)%nat -> List.length (pad_left w s) = w.
  Proof. intros H. unfold pad_left. rewrite app_length, repeat_length. lia. Qed.

  (** ParseUint reads back any padded rendering of a number that fits *)
  Lemma parse_uint_pad bits w n : 0 <= n < 2 ^ bits ->
    parse_uint base bits (pad_left w (digits base u n)) = Ok n.
  Proof.
    intros Hn. unfold parse_uint.
    destruct (pad_left w (digits base u n)) eqn:E.
    - exfalso. eapply pad_left_nonempty; [apply digits_nonempty|exact E].
    - rewrite <- E, pad_left_parse by lia. replace (n <? 2 ^ bits) with true by lia. reflexivity.
  Qed.

  Lemma parse_uint_digits bits n : 0 <= n < 2 ^ bits -> parse_uint base bits (digits base u n) = Ok n.
  Proof.
    intros Hn. pose proof (parse_uint_pad bits 0 n Hn) as H. unfold pad_left in H. cbn [Nat.sub repeat app] in H. exact H.
  Qed.

  Lemma pad_left_chars (P : Z -> Prop) w s : P 48 -> Forall P s -> Forall P (pad_left w s).
  Proof. intros H0 Hs. unfold pad_left. apply Forall_app. split; [|exact Hs]. apply Forall_forall. intros x Hx. apply repeat_spec in Hx. subst. exact H0. Qed.

  (** a padded rendering starts with a digit character, never with a sign *)
  Lemma parse_int_pad bits w n : 1 <= bits -> 0 <= n < 2 ^ (bits - 1) ->
    parse_int base bits (pad_left w (digits base u n)) = Ok n.
  Proof.
    intros Hb Hn. unfold parse_int.
    destruct (pad_left w (digits base u n)) as [|c r] eqn:E.
    - exfalso. eapply pad_left_nonempty; [apply digits_nonempty|exact E].
    - assert (Hc : 48 <= c).
      { assert (HF : Forall (fun c => 48 <= c) (c :: r)).
        { rewrite <- E. apply pad_left_chars; [lia|]. apply digits_chars; [lia|]. intros d Hd. apply digit_char_ge; lia. }
        inversion HF; assumption. }
      replace ((c =? 43) || (c =? 45)) with false by lia.
      rewrite <- E, pad_left_parse by lia.
      replace (c =? 45) with false by lia. replace (n <? 2 ^ (bits - 1)) with true by lia. reflexivity.
  Qed.
End Digits.

Lemma parse_int_neg base bits s :
  parse_int base bits (45 :: s) =
  match s with
  | [] => Err
  | _ => match parse_digits base s 0 with
         | None => Err
         | Some v => if v <=? 2 ^ (bits - 1) then Ok (- v) else Err
         end
  end.
Proof. reflexivity. Qed.

(** strconv.ParseInt(strconv.Itoa(n)) = n for every n of the width *)
Lemma parse_int_fmt_int bits n : 1 <= bits -> - 2 ^ (bits - 1) <= n < 2 ^ (bits - 1) ->
  parse_int 10 bits (fmt_int n) = Ok n.
Proof.
  intros Hb Hn. unfold fmt_int. destruct (n <? 0) eqn:E.
  - rewrite parse_int_neg.
    destruct (digits 10 false (- n)) eqn:D; [exfalso; eapply (digits_nonempty 10 false); eassumption|].
    rewrite <- D, digits_parse by lia.
    replace (- n <=? 2 ^ (bits - 1)) with true by lia. f_equal. lia.
  - pose proof (parse_int_pad 10 ltac:(lia) false bits 0 n Hb ltac:(lia)) as H.
    unfold pad_left in H. cbn [Nat.sub repeat app] in H. exact H.
Qed.

Lemma fmt_int_no_prefix n : has_prefix s_0x (fmt_int n) = false.
Proof.
  apply no_x_no_prefix. unfold fmt_int. destruct (n <? 0) eqn:E.
  - constructor; [lia|]. apply digits_chars; [lia|lia|]. intros d Hd. pose proof (digit_char_dec d Hd). lia.
  - apply digits_chars; [lia|lia|]. intros d Hd. pose proof (digit_char_dec d Hd). lia.
Qed.

(** parseInt(Itoa(n)) of utils.go *)
Lemma go_parse_int_fmt_int bits n : 1 <= bits -> - 2 ^ (bits - 1) <= n < 2 ^ (bits - 1) ->
  go_parse_int bits (fmt_int n) = Ok n.
Proof. intros. unfold go_parse_int. rewrite fmt_int_no_prefix. apply parse_int_fmt_int; assumption. Qed.

Lemma go_parse_uint_fmt_int bits n : 0 <= n < 2 ^ bits -> go_parse_uint bits (fmt_int n) = Ok n.
Proof.
  intros Hn. unfold go_parse_uint. rewrite fmt_int_no_prefix. unfold fmt_int.
  replace (n <? 0) with false by lia. apply parse_uint_digits; lia.
Qed.

(** "0x%0wX" is read back by the hex branch of parseInt / parseUint / Enum / Bitmask *)
Lemma parse_hex_pad bits w up n : 0 <= n < 2 ^ bits -> parse_uint 16 bits (hex_pad w up n) = Ok n.
Proof. intros. unfold hex_pad. apply parse_uint_pad; lia. Qed.

Lemma go_parse_int_hex bits w up n : 0 <= n < 2 ^ bits ->
  go_parse_int bits (s_0x ++ hex_pad w up n) = Ok (to_i64 n).
Proof.
  intros Hn. unfold go_parse_int. rewrite has_prefix_0x_cons, go_from_0x. cbn [bind].
  rewrite parse_hex_pad by lia. reflexivity.
Qed.

(** ---------------------------------------------------------------- hex byte strings *)

Lemma hex_val_char u d : 0 <= d < 16 -> hex_val (digit_char u d) = Some d.
Proof. intros. unfold hex_val. rewrite digit_val_char by lia. replace (d <? 16) with true by lia. reflexivity. Qed.

Lemma hex_decode_encode u bs : bytes_ok bs = true -> hex_decode (hex_encode u bs) = Ok bs.
Proof.
  induction bs as [|b bs IH]; intros Hb; [reflexivity|].
  cbn [bytes_ok forallb] in Hb. apply andb_true_iff in Hb as [Hb1 Hb2]. unfold byte_ok in Hb1.
  cbn [hex_encode flat_map hex_byte app hex_decode].
  rewrite !hex_val_char.
  - fold (hex_encode u bs). rewrite IH by exact Hb2. cbn [bind]. f_equal. f_equal.
    rewrite Z.mul_comm. symmetry. apply Z.div_mod. lia.
  - apply Z.mod_pos_bound. lia.
  - split; [apply Z.div_pos; lia|apply Z.div_lt_upper_bound; lia].
Qed.

Lemma hex_decode_returns s : returns (hex_decode s).
Proof.
  remember (List.length s) as n eqn:Hn. revert s Hn.
  induction n as [n IH] using lt_wf_ind. intros s Hn.
  destruct s as [|a [|b r]]; cbn [hex_decode]; try exact I.
  destruct (hex_val a), (hex_val b); try exact I.
  apply returns_bind; [|intros; exact I].
  eapply IH; [|reflexivity]. subst n. cbn [List.length]. lia.
Qed.

Lemma hex_decode_bytes_ok s bs : hex_decode s = Ok bs -> bytes_ok bs = true.
Proof.
  remember (List.length s) as n eqn:Hn. revert s bs Hn.
  induction n as [n IH] using lt_wf_ind. intros s bs Hn.
  destruct s as [|a [|b r]]; cbn [hex_decode]; try discriminate.
  - intros H; inversion H; reflexivity.
  - unfold hex_val. destruct (digit_val a) as [x|] eqn:Ea; try discriminate.
    destruct (x <? 16) eqn:Ex; try discriminate.
    destruct (digit_val b) as [y|] eqn:Eb; try discriminate.
    destruct (y <? 16) eqn:Ey; try discriminate.
    destruct (hex_decode r) as [t| | |] eqn:Er; cbn [bind]; try discriminate.
    intros H; inversion H; subst bs. cbn [bytes_ok forallb].
    apply andb_true_iff. split.
    + assert (0 <= x /\ 0 <= y).
      { unfold digit_val in Ea, Eb.
        destruct ((48 <=? a) && (a <=? 57)) eqn:A1; [inversion Ea|destruct ((97 <=? a) && (a <=? 122)) eqn:A2; [inversion Ea|destruct ((65 <=? a) && (a <=? 90)) eqn:A3; [inversion Ea|discriminate]]];
        (destruct ((48 <=? b) && (b <=? 57)) eqn:B1; [inversion Eb|destruct ((97 <=? b) && (b <=? 122)) eqn:B2; [inversion Eb|destruct ((65 <=? b) && (b <=? 90)) eqn:B3; [inversion Eb|discriminate]]]); lia. }
      unfold byte_ok. lia.
    + eapply (IH (List.length r)); [subst n; cbn [List.length]; lia|reflexivity|exact Er].
Qed.

(** ---------------------------------------------------------------- big integers *)

Lemma unbe_repeat0 k l : unbe (repeat 0 k ++ l) = unbe l.
Proof.
  induction k as [|k IH]; [reflexivity|]. cbn [repeat app]. rewrite unbe_cons, IH. lia.
Qed.

Lemma unbe_repeat255 k : unbe (repeat 255 k) = 256 ^ Z.of_nat k - 1.
Proof.
  induction k as [|k IH]; [reflexivity|]. cbn [repeat]. rewrite unbe_cons, IH.
  unfold len. rewrite repeat_length, Nat2Z.inj_succ, Z.pow_succ_r by lia. lia.
Qed.

Lemma len_repeat {A} (x : A) k : len (repeat x k) = Z.of_nat k.
Proof. unfold len. rewrite repeat_length. reflexivity. Qed.

Lemma bytes_ok_repeat x k : byte_ok x = true -> bytes_ok (repeat x k) = true.
Proof. intros H. induction k; cbn [repeat bytes_ok forallb]; [reflexivity|]. rewrite H. exact IHk. Qed.

Lemma nbytes_spec m : 0 < m -> 1 <= nbytes m /\ m < 256 ^ nbytes m.
Proof.
  intros Hm. unfold nbytes. replace (m <=? 0) with false by lia.
  pose proof (Z.log2_nonneg m) as Hl.
  assert (H8 : 0 <= Z.log2 m / 8) by (apply Z.div_pos; lia).
  split; [lia|].
  assert (Hs : m < 2 ^ Z.succ (Z.log2 m)) by (apply Z.log2_spec; lia).
  eapply Z.lt_le_trans; [exact Hs|].
  replace 256 with (2 ^ 8) by reflexivity. rewrite <- Z.pow_mul_r by lia.
  apply Z.pow_le_mono_r; [lia|].
  pose proof (Z.div_mod (Z.log2 m) 8 ltac:(lia)). pose proof (Z.mod_pos_bound (Z.log2 m) 8 ltac:(lia)). lia.
Qed.

Lemma be_head k v : exists t, be (S k) v = (v / 256 ^ Z.of_nat k) mod 256 :: t.
Proof. eexists. apply be_S. Qed.

Lemma go_bytes_to_big_cons b0 t :
  go_bytes_to_big (b0 :: t) = Ok (if b0 <? 128 then unbe (b0 :: t) else unbe (b0 :: t) - 256 ^ len (b0 :: t)).
Proof.
  unfold go_bytes_to_big. rewrite len_cons. pose proof (len_nonneg t).
  destruct (1 + len t =? 0) eqn:E; [lia|]. reflexivity.
Qed.

Lemma bit7 h : 0 <= h < 256 -> ((h / 128) mod 2 = 0 <-> h < 128).
Proof.
  intros Hh. pose proof (Z.div_mod h 128 ltac:(lia)). pose proof (Z.mod_pos_bound h 128 ltac:(lia)).
  assert (0 <= h / 128) by (apply Z.div_pos; lia).
  assert (h / 128 < 2) by (apply Z.div_lt_upper_bound; lia).
  destruct (Z.eq_dec (h / 128) 0) as [E|E]; [rewrite E; cbn; lia|].
  replace (h / 128) with 1 by lia. cbn. lia.
Qed.

(** the text writers' two's-complement bytes are read back by bytesToBigInt, for every integer
    and every padding granularity *)
Lemma big_bytes_roundtrip v padding :
  big_bytes v padding <> [] /\ bytes_ok (big_bytes v padding) = true /\
  go_bytes_to_big (big_bytes v padding) = Ok v.
Proof.
  unfold big_bytes, big_to_bytes.
  set (p := if padding <? 1 then 1 else padding). assert (Hp : 1 <= p) by (subst p; destruct (padding <? 1) eqn:E; lia).
  destruct (v =? 0) eqn:Ez.
  - apply Z.eqb_eq in Ez. subst v. rewrite app_nil_r.
    destruct (Z.to_nat p) as [|k] eqn:Ek; [lia|].
    split; [cbn; discriminate|]. split; [apply bytes_ok_repeat; reflexivity|].
    cbn [repeat]. rewrite go_bytes_to_big_cons. change (0 <? 128) with true. cbv iota.
    change (0 :: repeat 0 k) with (repeat 0 (S k)). rewrite <- (app_nil_r (repeat 0 (S k))), unbe_repeat0. reflexivity.
  - apply Z.eqb_neq in Ez.
    destruct (nbytes_spec (Z.abs v) ltac:(lia)) as [Hn1 Hn2].
    set (n := nbytes (Z.abs v)) in *.
    set (padlen0 := pad_for n p).
    set (b := be (Z.to_nat n) v).
    set (padval := if v <? 0 then 255 else 0).
    set (msb := (hd 0 b / 128) mod 2).
    set (padlen := if negb (msb =? padval mod 2) && (padlen0 =? 0) then p else padlen0).
    assert (Hpl0 : 0 <= padlen0).
    { subst padlen0. unfold pad_for. apply Z.mod_pos_bound. lia. }
    assert (Hpl : 0 <= padlen) by (subst padlen; destruct (negb (msb =? padval mod 2) && (padlen0 =? 0)); lia).
    destruct (Z.to_nat n) as [|k] eqn:Ek; [lia|].
    assert (Hk : Z.of_nat (S k) = n) by lia.
    assert (Hb : b = (v / 256 ^ Z.of_nat k) mod 256 :: be k v) by (subst b; apply be_S).
    assert (Hlb : len b = n) by (subst b; rewrite len_be; exact Hk).
    assert (Hbok : bytes_ok b = true) by (subst b; apply be_bytes_ok).
    assert (Hub : unbe b = v mod 256 ^ n) by (subst b; rewrite unbe_be, Hk; reflexivity).
    set (h := (v / 256 ^ Z.of_nat k) mod 256) in *.
    assert (Hhr : 0 <= h < 256) by (subst h; apply Z.mod_pos_bound; lia).
    assert (Hmsb : msb = (h / 128) mod 2) by (subst msb; rewrite Hb; reflexivity).
    assert (H256 : 256 ^ n = 256 * 256 ^ Z.of_nat k) by (rewrite <- Hk, pow256_succ; reflexivity).
    pose proof (pow256_pos k) as Hpk.
    (* the head byte of b tells in which half v mod 256^n lies *)
    assert (Hhalf : h < 128 <-> v mod 256 ^ n < 128 * 256 ^ Z.of_nat k).
    { subst h. rewrite H256.
      rewrite (Z.mul_comm 256), Z.rem_mul_r by lia.
      pose proof (Z.mod_pos_bound v (256 ^ Z.of_nat k) ltac:(lia)).
      pose proof (Z.mod_pos_bound (v / 256 ^ Z.of_nat k) 256 ltac:(lia)). nia. }
    assert (Hneg : v < 0 -> v mod 256 ^ n = v + 256 ^ n).
    { intros Hv. symmetry. apply Z.mod_unique_pos with (q := -1); lia. }
    assert (Hpos : 0 < v -> v mod 256 ^ n = v) by (intros Hv; apply Z.mod_small; lia).
    split; [rewrite Hb; destruct (repeat padval (Z.to_nat padlen)); cbn; discriminate|].
    split.
    { rewrite bytes_ok_app, Hbok, andb_true_r. apply bytes_ok_repeat. subst padval. destruct (v <? 0); reflexivity. }
    destruct (Z.to_nat padlen) as [|j] eqn:Ej.
    + (* no padding: the sign bit of b already is right *)
      assert (Hpz : padlen = 0) by lia.
      assert (Hm : msb = padval mod 2).
      { subst padlen. destruct (msb =? padval mod 2) eqn:Em; [lia|]. cbn [negb andb] in Hpz.
        destruct (padlen0 =? 0) eqn:E0; lia. }
      cbn [repeat app]. rewrite Hb, go_bytes_to_big_cons, <- Hb, Hub, Hlb. f_equal.
      destruct (v <? 0) eqn:Ev; subst padval.
      * change (255 mod 2) with 1 in Hm.
        assert (Hge : ~ h < 128) by (rewrite <- bit7 by exact Hhr; lia).
        replace (h <? 128) with false by lia. rewrite Hneg by lia. lia.
      * change (0 mod 2) with 0 in Hm.
        assert (Hlt : h < 128) by (rewrite <- bit7 by exact Hhr; lia).
        replace (h <? 128) with true by lia. apply Hpos. lia.
    + (* padded: the first byte is the padding value *)
      assert (Hj : padlen = Z.of_nat (S j)) by lia.
      cbn [repeat app]. rewrite go_bytes_to_big_cons. f_equal.
      destruct (v <? 0) eqn:Ev; subst padval.
      * change (255 <? 128) with false. cbv iota.
        change (255 :: repeat 255 j ++ b) with (repeat 255 (S j) ++ b).
        rewrite len_app, len_repeat, unbe_app, unbe_repeat255, Hlb, Hub, Hneg, Z.pow_add_r by lia. nia.
      * change (0 <? 128) with true. cbv iota.
        change (0 :: repeat 0 j ++ b) with (repeat 0 (S j) ++ b).
        rewrite unbe_repeat0, Hub. apply Hpos. lia.
Qed.

Lemma go_bytes_to_big_returns v : returns (go_bytes_to_big v).
Proof.
  unfold go_bytes_to_big. destruct (len v =? 0) eqn:E; [exact I|].
  destruct v; [|exact I]. cbn in E. discriminate.
Qed.

(** ---------------------------------------------------------------- parsers return *)

Lemma parse_uint_returns base bits s : returns (parse_uint base bits s).
Proof. unfold parse_uint. destruct s; [exact I|]. destruct (parse_digits base (z :: s) 0); [|exact I]. destruct (z0 <? 2 ^ bits); exact I. Qed.

Lemma parse_int_returns base bits s : returns (parse_int base bits s).
Proof.
  unfold parse_int. destruct s as [|c r]; [exact I|].
  destruct (if (c =? 43) || (c =? 45) then r else c :: r); [exact I|].
  destruct (parse_digits base (z :: l) 0); [|exact I].
  destruct (c =? 45); [destruct (z0 <=? 2 ^ (bits - 1))|destruct (z0 <? 2 ^ (bits - 1))]; exact I.
Qed.

Lemma go_parse_int_returns bits s : returns (go_parse_int bits s).
Proof.
  unfold go_parse_int. destruct (has_prefix s_0x s) eqn:E; [|apply parse_int_returns].
  destruct (go_from_prefixed s E) as [r [_ ->]]. cbn [bind].
  apply returns_bind; [apply parse_uint_returns|intros; exact I].
Qed.

Lemma go_parse_uint_returns bits s : returns (go_parse_uint bits s).
Proof.
  unfold go_parse_uint. destruct (has_prefix s_0x s) eqn:E; [|apply parse_uint_returns].
  destruct (go_from_prefixed s E) as [r [_ ->]]. cbn [bind]. apply parse_uint_returns.
Qed.

Lemma parse_bool_returns s : returns (parse_bool s).
Proof. unfold parse_bool. repeat match goal with |- returns (if ?c then _ else _) => destruct c end; exact I. Qed.

Lemma parse_rfc3339_returns s : returns (parse_rfc3339 s).
Proof.
  unfold parse_rfc3339.
  repeat (cbv zeta;
          match goal with
          | |- returns (Ok _) => exact I
          | |- returns Err => exact I
          | |- returns (match ?x with _ => _ end) => destruct x
          end).
Qed.

(** ---------------------------------------------------------------- text the formats carry *)

Lemma utf8_decode_width s : 1 <= snd (utf8_decode s) <= 4.
Proof.
  unfold utf8_decode.
  repeat match goal with
         | |- context [match ?l with [] => _ | _ :: _ => _ end] => destruct l
         | |- context [if ?c then _ else _] => destruct c
         end; cbn [snd]; lia.
Qed.

Lemma text_scan_id keep fuel : forall s, (List.length s <= fuel)%nat ->
  snd (text_scan keep fuel s) = true -> fst (text_scan keep fuel s) = s.
Proof.
  induction fuel as [|f IH]; intros s Hl; [destruct s; [reflexivity|cbn in Hl; lia]|].
  cbn [text_scan]. destruct s as [|c r]; [reflexivity|].
  pose proof (utf8_decode_width (c :: r)) as Hw.
  destruct (utf8_decode (c :: r)) as [rn w]. cbn [snd] in Hw.
  destruct (((rn =? 65533) && (w =? 1)) || negb (keep rn)); cbn [fst snd]; [discriminate|].
  intros Hs. rewrite IH; [apply firstn_skipn|unfold drop; rewrite skipn_length; cbn [List.length] in *; lia|exact Hs].
Qed.

(** a text string that the format can carry goes through unchanged *)
Lemma xml_carry_id s : xml_text_ok s = true -> xml_carry s = s.
Proof. apply text_scan_id. lia. Qed.
Lemma json_carry_id s : json_text_ok s = true -> json_carry s = s.
Proof. apply text_scan_id. lia. Qed.

(** ---------------------------------------------------------------- tokens, white space, splitting *)

(** printable ASCII without the space and without the JSON flag separator *)
Definition tok_char (c : Z) : bool := (33 <=? c) && (c <=? 126) && negb (c =? 124).
Definition tok_ok (s : list Z) : bool := match s with [] => false | _ => forallb tok_char s end.

Lemma space_width_tok c r : tok_char c = true -> space_width (c :: r) = 0.
Proof.
  unfold tok_char, space_width. intros H.
  replace ((c =? 32) || ((9 <=? c) && (c <=? 13))) with false by lia.
  replace (c =? 194) with false by lia. replace (c =? 225) with false by lia.
  replace (c =? 226) with false by lia. replace (c =? 227) with false by lia. reflexivity.
Qed.

Lemma space_width_toks s : forallb tok_char s = true -> space_width s = 0.
Proof. destruct s as [|c r]; [reflexivity|]. cbn [forallb]. intros H. apply andb_true_iff in H as [H _]. apply space_width_tok, H. Qed.

Lemma forallb_drop {A} (f : A -> bool) k s : forallb f s = true -> forallb f (drop k s) = true.
Proof.
  unfold drop. generalize (Z.to_nat k). intros n. revert s. induction n as [|n IH]; intros s H; [exact H|].
  destruct s as [|c r]; [reflexivity|]. cbn [skipn]. apply IH. cbn [forallb] in H. apply andb_true_iff in H. tauto.
Qed.

Lemma trim_space_tok s : tok_ok s = true -> trim_space s = s.
Proof.
  unfold tok_ok. destruct s as [|c r]; [discriminate|]. intros H.
  unfold trim_space. cbn [List.length trim_left]. rewrite (space_width_toks _ H). cbn [Z.eqb].
  cbn [List.length trim_right]. unfold space_suffix.
  rewrite !(space_width_toks _ (forallb_drop _ _ _ H)). cbn [Z.eqb]. rewrite !andb_false_r. reflexivity.
Qed.

Lemma fields_aux_flush fuel cur : cur <> [] -> fields_aux fuel [] cur = [rev cur].
Proof. intros H. destruct fuel; cbn [fields_aux]; destruct cur; congruence. Qed.

Lemma fields_aux_tok tok : forall fuel rest cur, forallb tok_char tok = true -> (List.length tok <= fuel)%nat ->
  fields_aux fuel (tok ++ rest) cur = fields_aux (fuel - List.length tok) rest (rev tok ++ cur).
Proof.
  induction tok as [|c t IH]; intros fuel rest cur Ht Hf.
  - cbn. rewrite Nat.sub_0_r. reflexivity.
  - cbn [forallb] in Ht. apply andb_true_iff in Ht as [Hc Ht]. cbn [List.length] in Hf.
    destruct fuel as [|f]; [lia|]. cbn [app fields_aux]. rewrite (space_width_tok c _ Hc). cbn [Z.eqb].
    rewrite IH by (auto; lia). cbn [List.length rev Nat.sub]. rewrite <- app_assoc. reflexivity.
Qed.

Lemma tok_ok_inv s : tok_ok s = true -> s <> [] /\ forallb tok_char s = true.
Proof. unfold tok_ok. destruct s; [discriminate|]. intros H. split; [discriminate|exact H]. Qed.

(** strings.Fields splits a list of tokens joined by single spaces back into the tokens *)
Lemma fields_aux_join parts : Forall (fun p => tok_ok p = true) parts ->
  forall fuel, (List.length (join [32%Z] parts) < fuel)%nat -> fields_aux fuel (join [32] parts) [] = parts.
Proof.
  induction parts as [|p ps IH]; intros Hp fuel Hf.
  - destruct fuel; reflexivity.
  - inversion Hp as [|? ? Hp1 Hp2]; subst. destruct (tok_ok_inv p Hp1) as [Hne Hch].
    destruct ps as [|q r].
    + cbn [join]. rewrite <- (app_nil_r p) at 1. rewrite fields_aux_tok by (auto; cbn [join] in Hf; lia).
      rewrite app_nil_r, fields_aux_flush, rev_involutive; [reflexivity|].
      intros E. apply Hne. rewrite <- (rev_involutive p), E. reflexivity.
    + change (join [32] (p :: q :: r)) with (p ++ 32 :: join [32] (q :: r)) in *.
      rewrite app_length in Hf. cbn [List.length] in Hf.
      rewrite fields_aux_tok by (auto; lia).
      destruct (fuel - List.length p)%nat as [|f] eqn:Ef; [lia|].
      cbn [fields_aux]. change (space_width (32 :: join [32] (q :: r))) with 1. cbn [Z.eqb].
      rewrite app_nil_r, rev_involutive.
      destruct (rev p) eqn:Er; [exfalso; apply Hne; rewrite <- (rev_involutive p), Er; reflexivity|].
      cbn [app]. f_equal. change (drop 1 (32 :: join [32] (q :: r))) with (join [32] (q :: r)).
      apply IH; [exact Hp2|lia].
Qed.

Lemma fields_join parts : Forall (fun p => tok_ok p = true) parts -> fields (join [32] parts) = parts.
Proof. intros H. unfold fields. apply fields_aux_join; [exact H|lia]. Qed.

Lemma split_aux_tok tok : forall rest cur, forallb tok_char tok = true ->
  split_aux 124 (tok ++ rest) cur = split_aux 124 rest (rev tok ++ cur).
Proof.
  induction tok as [|c t IH]; intros rest cur Ht; [reflexivity|].
  cbn [forallb] in Ht. apply andb_true_iff in Ht as [Hc Ht]. cbn [app split_aux].
  unfold tok_char in Hc. replace (c =? 124) with false by lia. rewrite IH by exact Ht.
  cbn [rev]. rewrite <- app_assoc. reflexivity.
Qed.

(** strings.Split(.., "|") splits a non-empty list of tokens joined by "|" back into the tokens *)
Lemma split_join p ps : Forall (fun p => tok_ok p = true) (p :: ps) -> split_on 124 (join [124] (p :: ps)) = p :: ps.
Proof.
  unfold split_on. revert p. induction ps as [|q r IH]; intros p Hp; inversion Hp as [|? ? Hp1 Hp2]; subst;
    destruct (tok_ok_inv p Hp1) as [_ Hch].
  - cbn [join]. rewrite <- (app_nil_r p) at 1. rewrite split_aux_tok by exact Hch. cbn [split_aux]. rewrite app_nil_r, rev_involutive. reflexivity.
  - change (join [124] (p :: q :: r)) with (p ++ 124 :: join [124] (q :: r)).
    rewrite split_aux_tok by exact Hch. cbn [split_aux]. rewrite Z.eqb_refl, app_nil_r, rev_involutive. f_equal. apply IH. exact Hp2.
Qed.

(** ---------------------------------------------------------------- calendar *)

(** the era-independent part of civil_from_days / days_from_civil *)
Definition doe_civil (doe : Z) : Z * Z * Z :=
  let yoe := (doe - doe / 1460 + doe / 36524 - doe / 146096) / 365 in
  let doy := doe - (365 * yoe + yoe / 4 - yoe / 100) in
  let mp := (5 * doy + 2) / 153 in
  let d := doy - (153 * mp + 2) / 5 + 1 in
  let m := if mp <? 10 then mp + 3 else mp - 9 in
  (yoe, m, d).
Definition civil_doe (yoe m d : Z) : Z :=
  let doy := (153 * (if 2 <? m then m - 3 else m + 9) + 2) / 5 + d - 1 in
  yoe * 365 + yoe / 4 - yoe / 100 + doy.

Definition doe_ok (doe : Z) : bool :=
  let '(yoe, m, d) := doe_civil doe in
  let yy := if m <=? 2 then yoe + 1 else yoe in
  (0 <=? yoe) && (yoe <=? 399) && (1 <=? m) && (m <=? 12) && (1 <=? d) &&
  (d <=? days_in_month yy m) && (civil_doe yoe m d =? doe) &&
  (if 306 <=? doe then 1 <=? yy else true) && (if doe <=? 146036 then yy <=? 399 else true).

(** a boolean predicate checked on 0 .. n-1 (binary iteration: shallow recursion) *)
Definition sweep (f : Z -> bool) (n : positive) : bool :=
  snd (Pos.iter (fun st : Z * bool => (fst st + 1, snd st && f (fst st))) (0, true) n).

Lemma sweep_sound f n : sweep f n = true -> forall i, 0 <= i < Zpos n -> f i = true.
Proof.
  unfold sweep. set (step := fun st : Z * bool => (fst st + 1, snd st && f (fst st))).
  assert (H : forall p, fst (Pos.iter step (0, true) p) = Zpos p /\
                        (snd (Pos.iter step (0, true) p) = true -> forall i, 0 <= i < Zpos p -> f i = true)).
  { induction p as [|p IH] using Pos.peano_ind.
    - cbn. split; [reflexivity|]. intros H i Hi. replace i with 0 by lia. exact H.
    - rewrite Pos.iter_succ. destruct IH as [IH1 IH2]. unfold step at 1 3. cbn [fst snd]. split; [lia|].
      intros H i Hi. apply andb_true_iff in H as [H1 H2].
      destruct (Z.eq_dec i (Zpos p)) as [->|Hne]; [rewrite <- IH1; exact H2|apply IH2; [exact H1|lia]]. }
  intros Hs. apply (H n). exact Hs.
Qed.

Lemma doe_sweep : sweep doe_ok 146097 = true.
Proof. vm_compute. reflexivity. Qed.

Lemma civil_from_days_eq z :
  civil_from_days z =
  let era := (z + 719468) / 146097 in
  let '(yoe, m, d) := doe_civil ((z + 719468) mod 146097) in
  (if m <=? 2 then yoe + era * 400 + 1 else yoe + era * 400, m, d).
Proof. reflexivity. Qed.

Lemma is_leap_period y k : is_leap (y + k * 400) = is_leap y.
Proof.
  unfold is_leap.
  replace ((y + k * 400) mod 4) with (y mod 4) by (replace (k * 400) with (k * 100 * 4) by lia; rewrite Z_mod_plus_full; reflexivity).
  replace ((y + k * 400) mod 100) with (y mod 100) by (replace (k * 400) with (k * 4 * 100) by lia; rewrite Z_mod_plus_full; reflexivity).
  rewrite Z_mod_plus_full. reflexivity.
Qed.

(** the calendar conversion is invertible for every day number, and yields a valid date *)
Lemma civil_roundtrip z : forall y m d, civil_from_days z = (y, m, d) ->
  days_from_civil y m d = z /\ 1 <= m <= 12 /\ 1 <= d <= days_in_month y m /\
  (-719162 <= z <= 2932896 -> 1 <= y <= 9999).
Proof.
  intros y m d. rewrite civil_from_days_eq. cbv zeta.
  set (era := (z + 719468) / 146097). set (doe := (z + 719468) mod 146097).
  assert (Hdoe : 0 <= doe < 146097) by (apply Z.mod_pos_bound; lia).
  assert (Hz : z + 719468 = 146097 * era + doe) by (apply Z.div_mod; lia).
  pose proof (sweep_sound _ _ doe_sweep doe Hdoe) as Hok. unfold doe_ok in Hok.
  destruct (doe_civil doe) as [[yoe m'] d'].
  intros E. inversion E as [[Ey Em Ed]]. subst m' d'. clear E. rewrite Ey.
  repeat (apply andb_true_iff in Hok as [Hok ?]).
  assert (Hy : (if m <=? 2 then y - 1 else y) = yoe + era * 400) by (destruct (m <=? 2); lia).
  assert (Hera : (yoe + era * 400) / 400 = era) by (rewrite Z.div_add by lia; rewrite Z.div_small by lia; lia).
  assert (Hyoe : (yoe + era * 400) mod 400 = yoe) by (rewrite Z_mod_plus_full; apply Z.mod_small; lia).
  split.
  { unfold days_from_civil. cbv zeta. rewrite Hy, Hera, Hyoe. unfold civil_doe in *. lia. }
  split; [lia|]. split.
  { replace (days_in_month y m) with (days_in_month (if m <=? 2 then yoe + 1 else yoe) m); [lia|].
    unfold days_in_month. replace y with ((if m <=? 2 then yoe + 1 else yoe) + era * 400) by (destruct (m <=? 2); lia).
    rewrite is_leap_period. reflexivity. }
  intros Hr. assert (0 <= era <= 24) by (split; [apply Z.div_le_lower_bound|apply Z.lt_succ_r, Z.div_lt_upper_bound]; lia).
  destruct (306 <=? doe) eqn:E1, (doe <=? 146036) eqn:E2, (m <=? 2); nia.
Qed.

(** ---------------------------------------------------------------- RFC 3339 *)

Lemma pad_num_spec w n : (1 <= w)%nat -> 0 <= n < 10 ^ Z.of_nat w ->
  len (pad_num w n) = Z.of_nat w /\ parse_digits 10 (pad_num w n) 0 = Some n.
Proof.
  intros Hw Hn. unfold pad_num, len. split.
  - rewrite pad_left_length; [reflexivity|]. apply digits_length; auto; lia.
  - apply pad_left_parse; lia.
Qed.

Lemma num_fixed_pad w n rest : (1 <= w)%nat -> 0 <= n < 10 ^ Z.of_nat w ->
  num_fixed (Z.of_nat w) (pad_num w n ++ rest) = Some (n, rest).
Proof.
  intros Hw Hn. destruct (pad_num_spec w n Hw Hn) as [Hl Hp]. unfold num_fixed.
  rewrite len_app, Hl. pose proof (len_nonneg rest). replace (Z.of_nat w + len rest <? Z.of_nat w) with false by lia.
  rewrite <- Hl, take_app_exact, drop_app_exact, Hp. reflexivity.
Qed.

Lemma num_fixed4 n rest : 0 <= n < 10000 -> num_fixed 4 (pad_num 4 n ++ rest) = Some (n, rest).
Proof. intros. apply (num_fixed_pad 4); [lia|]. cbn. lia. Qed.
Lemma num_fixed2 n rest : 0 <= n < 100 -> num_fixed 2 (pad_num 2 n ++ rest) = Some (n, rest).
Proof. intros. apply (num_fixed_pad 2); [lia|]. cbn. lia. Qed.

Lemma lit_eq c s : lit c (c :: s) = Some s.
Proof. unfold lit. rewrite Z.eqb_refl. reflexivity. Qed.

Lemma days_in_month_le y m : days_in_month y m <= 31.
Proof. unfold days_in_month. destruct (m =? 2); [destruct (is_leap y); lia|]. destruct ((m =? 4) || (m =? 6) || (m =? 9) || (m =? 11)); lia. Qed.

(** time.Parse(RFC3339, t.Format(RFC3339)) = t for every whole second of the years 1..9999 *)
Theorem rfc3339_roundtrip t : date_ok t = true -> parse_rfc3339 (fmt_rfc3339 t) = Ok t.
Proof.
  unfold date_ok, date_min, date_max. intros Ht.
  unfold fmt_rfc3339. set (days := t / 86400). set (sod := t mod 86400).
  assert (Hsod : 0 <= sod < 86400) by (apply Z.mod_pos_bound; lia).
  assert (Htd : t = 86400 * days + sod) by (apply Z.div_mod; lia).
  assert (Hdays : -719162 <= days <= 2932896).
  { subst days. split; [apply Z.div_le_lower_bound|apply Z.lt_succ_r, Z.div_lt_upper_bound]; lia. }
  destruct (civil_from_days days) as [[y m] d] eqn:Ec.
  destruct (civil_roundtrip days y m d Ec) as [Hinv [Hm [Hd Hy]]]. specialize (Hy Hdays).
  pose proof (days_in_month_le y m) as Hdim.
  replace (y <? 0) with false by lia.
  set (hh := sod / 3600). set (mi := sod mod 3600 / 60). set (ss := sod mod 60).
  assert (Hhh : 0 <= hh < 24) by (subst hh; split; [apply Z.div_pos|apply Z.div_lt_upper_bound]; lia).
  assert (Hmi : 0 <= mi < 60).
  { subst mi. pose proof (Z.mod_pos_bound sod 3600 ltac:(lia)). split; [apply Z.div_pos|apply Z.div_lt_upper_bound]; lia. }
  assert (Hss : 0 <= ss < 60) by (subst ss; apply Z.mod_pos_bound; lia).
  assert (Hsum : hh * 3600 + mi * 60 + ss = sod).
  { subst hh mi ss. pose proof (Z.div_mod sod 3600 ltac:(lia)). pose proof (Z.div_mod (sod mod 3600) 60 ltac:(lia)).
    replace (sod mod 60) with ((sod mod 3600) mod 60); [lia|].
    replace 3600 with (60 * 60) by reflexivity. rewrite Z.rem_mul_r by lia. rewrite Z.mul_comm, Z_mod_plus_full. apply Z.mod_mod. lia. }
  unfold parse_rfc3339.
  rewrite num_fixed4 by lia. cbn [app]. rewrite lit_eq. cbv beta iota.
  rewrite num_fixed2 by lia. cbn [app]. rewrite lit_eq. cbv beta iota.
  rewrite num_fixed2 by lia. cbn [app]. rewrite lit_eq. cbv beta iota.
  rewrite num_fixed2 by lia. cbn [app]. rewrite lit_eq. cbv beta iota.
  rewrite num_fixed2 by lia. cbn [app]. rewrite lit_eq. cbv beta iota.
  rewrite num_fixed2 by lia. cbv beta iota zeta.
  replace ((m <? 1) || (12 <? m) || (d <? 1) || (days_in_month y m <? d) || (23 <? hh) || (59 <? mi) || (59 <? ss)) with false by lia.
  change ((90 =? 90) && true) with true. cbv iota. rewrite Hinv. f_equal. lia.
Qed.

(** an RFC 3339 instant of the years 1..9999 starts with digits: never taken for the "0x" form *)
Lemma fmt_rfc3339_no_prefix t : date_ok t = true -> has_prefix s_0x (fmt_rfc3339 t) = false.
Proof.
  unfold date_ok, date_min, date_max. intros Ht. unfold fmt_rfc3339.
  set (days := t / 86400).
  assert (Hdays : -719162 <= days <= 2932896).
  { subst days. split; [apply Z.div_le_lower_bound|apply Z.lt_succ_r, Z.div_lt_upper_bound]; lia. }
  destruct (civil_from_days days) as [[y m] d] eqn:Ec.
  destruct (civil_roundtrip days y m d Ec) as [_ [_ [_ Hy]]]. specialize (Hy Hdays).
  replace (y <? 0) with false by lia.
  destruct (pad_num_spec 4 y ltac:(lia) ltac:(cbn; lia)) as [Hl _].
  assert (Hch : Forall (fun c => c <> 120) (pad_num 4 y)).
  { unfold pad_num. apply pad_left_chars; [lia|]. apply digits_chars; [lia|lia|].
    intros dd Hd. pose proof (digit_char_dec dd Hd). lia. }
  destruct (pad_num 4 y) as [|a [|b r]]; unfold len in Hl; cbn [List.length] in Hl; try lia.
  inversion Hch as [|? ? _ H2]; inversion H2 as [|? ? Hb _]; subst.
  unfold s_0x. cbn [app has_prefix]. replace (120 =? b) with false by lia.
  destruct (48 =? a); reflexivity.
Qed.
