(** Proofs about the lexical forms of TextLex.v. *)
From Coq Require Import String Ascii ZArith List Bool Lia.
From KV Require Import Base BaseProofs Wire TextLex.
Import ListNotations.
Open Scope Z_scope.

Lemma seqb_refl s : seqb s s = true.
Proof. induction s as [|c s IH]; cbn [seqb]; [reflexivity|]. rewrite Z.eqb_refl, IH. reflexivity. Qed.
