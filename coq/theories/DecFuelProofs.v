(** Fuel of the typed decoder: a result other than OutOfFuel is the result at every larger
    fuel (Ok, Err and Panic alike), for the generic-tree decoder of Cursor.v, the typed decoder
    of SchemaSem.v with its mutual companions, and the hand-written decoders (which receive the
    recursive decoders as arguments: they are monotone in them).  Any schema, any reader
    format.  With DecTermProofs (the decoder does not exhaust FUEL on inputs up to 11775
    bytes) this removes every fuel side condition from the executable round trip. *)
From Coq Require Import ZArith List Bool String Lia PeanoNat.
From KV Require Import Base Wire Cursor Schema SchemaSem SchemaSemEq.
Import ListNotations.
Open Scope Z_scope.

(** [x'] is [x] unless [x] ran out of fuel *)
Definition le_res {A} (x x' : res A) : Prop := x <> OutOfFuel -> x' = x.

Lemma le_refl {A} (x : res A) : le_res x x.
Proof. intros _. reflexivity. Qed.

Lemma le_bind {A B} (x x' : res A) (k k' : A -> res B) :
  le_res x x' -> (forall a, x = Ok a -> le_res (k a) (k' a)) -> le_res (bind x k) (bind x' k').
Proof.
  intros Hx Hk H. destruct x as [a| | |]; cbn [bind] in H.
  - rewrite Hx by discriminate. cbn [bind]. apply Hk; [reflexivity | exact H].
  - rewrite Hx by discriminate. reflexivity.
  - rewrite Hx by discriminate. reflexivity.
  - exfalso. apply H. reflexivity.
Qed.

Section Cur.
  Context {R : Type}.
  Variable F : rawfmt R.

  Lemma le_c_struct {A} tag (f f' : cur R -> res (A * cur R)) c :
    (forall sub, le_res (f sub) (f' sub)) -> le_res (c_struct F tag f c) (c_struct F tag f' c).
  Proof.
    intros Hf. unfold c_struct. apply le_bind; [apply le_refl|]. intros e _. destruct e as [t y raw kids kb].
    apply le_bind; [apply le_refl|]. intros sub _. apply le_bind; [apply Hf|]. intros r _. apply le_refl.
  Qed.

  Lemma le_wrap_struct n tag c (body body' : cur R -> res (list value * cur R * vstate)) :
    (forall sub, le_res (body sub) (body' sub)) -> le_res (wrap_struct F n tag c body) (wrap_struct F n tag c body').
  Proof.
    intros Hb. unfold wrap_struct. apply le_bind; [|intros; apply le_refl].
    apply le_c_struct. intros sub. apply le_bind; [apply Hb | intros; apply le_refl].
  Qed.

  (** ---- the generic tree *)
  Lemma dec_value_stable_all f :
    (forall g tag c, (f <= g)%nat -> le_res (dec_value F f tag c) (dec_value F g tag c)) /\
    (forall g c, (f <= g)%nat -> le_res (dec_fields F f c) (dec_fields F g c)).
  Proof.
    induction f as [|f [IHv IHf]].
    - split; intros; intros Hoof; exfalso; apply Hoof; reflexivity.
    - split.
      + intros g tag c Hg. destruct g as [|g]; [lia|]. assert (Hfg : (f <= g)%nat) by lia.
        cbn [dec_value]. cbv zeta.
        repeat match goal with |- le_res (if ?b then _ else _) (if ?b then _ else _) => destruct b; [apply le_refl|] end.
        destruct (c_type c =? T_STRUCT); [|apply le_refl].
        apply le_bind; [|intros; apply le_refl]. apply le_c_struct. intros sub. apply IHf, Hfg.
      + intros g c Hg. destruct g as [|g]; [lia|]. assert (Hfg : (f <= g)%nat) by lia.
        cbn [dec_fields]. destruct (c_tag c =? 0); [apply le_refl|].
        apply le_bind; [apply IHv, Hfg|]. intros r _. apply le_bind; [apply IHf, Hfg | intros; apply le_refl].
  Qed.
End Cur.

Ltac le_step :=
  cbv beta;
  match goal with
  | |- le_res ?x ?x => apply le_refl
  | H : forall st t tag c, le_res (?f st t tag c) (?f' st t tag c) |- le_res (?f _ _ _ _) (?f' _ _ _ _) => apply H
  | H : forall st ot c, le_res (?f st ot c) (?f' st ot c) |- le_res (?f _ _ _) (?f' _ _ _) => apply H
  | |- le_res (bind _ _) (bind _ _) => apply le_bind; [ | intros ? _ ]
  | |- le_res (c_struct _ _ _ _) (c_struct _ _ _ _) => apply le_c_struct; intros ?
  | |- le_res (wrap_struct _ _ _ _ _) (wrap_struct _ _ _ _ _) => apply le_wrap_struct; intros ?
  | |- le_res (if ?b then _ else _) (if ?b then _ else _) => destruct b
  | |- le_res (match ?x with _ => _ end) (match ?x with _ => _ end) => destruct x
  end.

Section Dec.
  Variable S : schema.
  Variables (OPS : op_table) (ATTRS : attr_table) (OBJS : obj_table).
  Context {R : Type}.
  Variable F : rawfmt R.

  (** ---- the hand-written decoders are monotone in the decoders they are given *)
  Section Customs.
    Variables (dty dty' dopt dopt' : vstate -> ty -> Z -> cur R -> @dres R).
    Variables (dobj dobj' : vstate -> Z -> cur R -> @dres R).
    Variables (dtrees dtrees' : cur R -> res (list item * cur R)).
    Hypothesis Hty : forall st t tag c, le_res (dty st t tag c) (dty' st t tag c).
    Hypothesis Hopt : forall st t tag c, le_res (dopt st t tag c) (dopt' st t tag c).
    Hypothesis Hobj : forall st ot c, le_res (dobj st ot c) (dobj' st ot c).
    Hypothesis Htrees : forall c, le_res (dtrees c) (dtrees' c).

    Lemma le_payload st side opv tag c :
      le_res (dec_payload OPS F dty dtrees st side opv tag c) (dec_payload OPS F dty' dtrees' st side opv tag c).
    Proof.
      unfold dec_payload. destruct (lookup_op OPS opv) as [[rq rs]|].
      - repeat le_step.
      - apply le_bind; [apply le_c_struct; intros sub; apply Htrees | intros; apply le_refl].
    Qed.

    Lemma le_key_value st fmtv tag c :
      le_res (dec_key_value S F dty st fmtv tag c) (dec_key_value S F dty' st fmtv tag c).
    Proof. unfold dec_key_value. repeat le_step. Qed.

    Lemma le_custom_of st d tag c :
      le_res (dec_custom_of S OPS ATTRS F dty dopt dobj dtrees st d tag c)
             (dec_custom_of S OPS ATTRS F dty' dopt' dobj' dtrees' st d tag c).
    Proof.
      unfold dec_custom_of. cbv zeta.
      destruct (String.eqb (t_name d) "kmip.RequestBatchItem").
      { unfold dec_request_item. apply le_wrap_struct. intros sub.
        le_step; [le_step|]. le_step; [le_step|]. le_step; [apply le_payload|]. repeat le_step. }
      destruct (String.eqb (t_name d) "kmip.ResponseBatchItem").
      { unfold dec_response_item. apply le_wrap_struct. intros sub. cbv zeta.
        do 6 (le_step; [le_step|]).
        le_step; [le_step; [apply le_payload | le_step]|]. repeat le_step. }
      destruct (String.eqb (t_name d) "kmip.Credential").
      { unfold dec_credential. cbv zeta. repeat le_step. }
      destruct (String.eqb (t_name d) "kmip.KeyBlock").
      { unfold dec_key_block. apply le_wrap_struct. intros sub. cbv zeta.
        do 2 (le_step; [le_step|]).
        le_step; [le_step; [apply le_key_value | le_step]|]. repeat le_step. }
      destruct (String.eqb (t_name d) "kmip.Attribute").
      { unfold dec_attribute. cbv zeta. repeat le_step. }
      destruct (String.eqb (t_name d) "payloads.GetResponsePayload").
      { unfold dec_get_response. repeat le_step. }
      destruct (String.eqb (t_name d) "payloads.RegisterRequestPayload").
      { unfold dec_register_request. repeat le_step. }
      destruct (String.eqb (t_name d) "payloads.ExportResponsePayload").
      { unfold dec_export_response. repeat le_step. }
      destruct (String.eqb (t_name d) "payloads.ImportRequestPayload").
      { unfold dec_import_request. cbv zeta. repeat le_step. }
      apply le_refl.
    Qed.
  End Customs.

  Local Notation dec_ty := (dec_ty S OPS ATTRS OBJS F).
  Local Notation dec_slice := (dec_slice S OPS ATTRS OBJS F).
  Local Notation dec_fields_s := (dec_fields_s S OPS ATTRS OBJS F).
  Local Notation dec_opt := (dec_opt S OPS ATTRS OBJS F).
  Local Notation dec_object := (dec_object S OPS ATTRS OBJS F).

  Definition D_ty (f : nat) : Prop := forall g st t tag c, (f <= g)%nat -> le_res (dec_ty f st t tag c) (dec_ty g st t tag c).
  Definition D_slice (f : nat) : Prop := forall g st t tag c, (f <= g)%nat -> le_res (dec_slice f st t tag c) (dec_slice g st t tag c).
  Definition D_fields (f : nat) : Prop := forall g st fl c, (f <= g)%nat -> le_res (dec_fields_s f st fl c) (dec_fields_s g st fl c).
  Definition D_opt (f : nat) : Prop := forall g st t tag c, (f <= g)%nat -> le_res (dec_opt f st t tag c) (dec_opt g st t tag c).
  Definition D_object (f : nat) : Prop := forall g st ot c, (f <= g)%nat -> le_res (dec_object f st ot c) (dec_object g st ot c).
  Definition D_all (f : nat) : Prop := D_ty f /\ D_slice f /\ D_fields f /\ D_opt f /\ D_object f.

  Theorem dec_stable_all f : D_all f.
  Proof.
    induction f as [|f (IHt & IHs & IHf & IHo & IHb)].
    - repeat split; intros g; intros; intros Hoof; exfalso; apply Hoof; reflexivity.
    - split; [|split; [|split; [|split]]].
      + intros g st t tag c Hg. destruct g as [|g]; [lia|]. assert (Hfg : (f <= g)%nat) by lia.
        rewrite !dec_ty_eq. destruct t as [k|t'|t'|n|nm].
        * apply le_refl.
        * destruct (negb (c_tag c =? tag)); [apply le_refl|].
          apply le_bind; [apply IHt, Hfg | intros; apply le_refl].
        * apply le_bind; [apply IHs, Hfg | intros; apply le_refl].
        * destruct (String.eqb n "ttlv.Value").
          { apply le_bind; [apply (dec_value_stable_all F f), Hfg | intros; apply le_refl]. }
          destruct (String.eqb n "ttlv.Struct").
          { apply le_bind; [|intros; apply le_refl]. apply le_c_struct. intros sub. apply (dec_value_stable_all F f), Hfg. }
          destruct (find_tdef S n) as [d|]; [|apply le_refl].
          destruct (t_custom_dec d).
          { apply le_custom_of.
            - intros; apply IHt, Hfg.
            - intros; apply IHo, Hfg.
            - intros; apply IHb, Hfg.
            - intros; apply (dec_value_stable_all F f), Hfg. }
          apply le_bind; [|intros; apply le_refl]. apply le_c_struct. intros sub.
          apply le_bind; [apply IHf, Hfg | intros; apply le_refl].
        * apply le_refl.
      + intros g st t tag c Hg. destruct g as [|g]; [lia|]. assert (Hfg : (f <= g)%nat) by lia.
        rewrite !dec_slice_eq. destruct (negb (c_tag c =? tag)); [apply le_refl|].
        apply le_bind; [apply IHt, Hfg|]. intros a _. apply le_bind; [apply IHs, Hfg | intros; apply le_refl].
      + intros g st fl c Hg. destruct g as [|g]; [lia|]. assert (Hfg : (f <= g)%nat) by lia.
        rewrite !dec_fields_s_eq. destruct fl as [|fd fl']; [apply le_refl|].
        apply le_bind.
        * destruct (f_tag fd =? 0); [apply le_refl|].
          destruct (negb (version_in st (f_range fd)) && negb (c_tag c =? f_tag fd)); [apply le_refl|].
          destruct (f_omit fd && negb (c_tag c =? f_tag fd)); [apply le_refl|]. apply IHt, Hfg.
        * intros a _. cbv zeta. apply le_bind; [apply IHf, Hfg | intros; apply le_refl].
      + intros g st t tag c Hg. destruct g as [|g]; [lia|]. assert (Hfg : (f <= g)%nat) by lia.
        rewrite !dec_opt_eq. destruct (c_tag c =? tag); [apply IHt, Hfg | apply le_refl].
      + intros g st ot c Hg. destruct g as [|g]; [lia|]. assert (Hfg : (f <= g)%nat) by lia.
        rewrite !dec_object_eq. destruct (lookup_obj OBJS ot) as [n|]; [|apply le_refl].
        apply le_bind; [apply IHt, Hfg | intros; apply le_refl].
  Qed.

  (** A result of the typed decoder other than OutOfFuel is its result at every larger fuel. *)
  Theorem dec_ty_stable f g st t tag c : (f <= g)%nat ->
    dec_ty f st t tag c <> OutOfFuel -> dec_ty g st t tag c = dec_ty f st t tag c.
  Proof. intros Hg. destruct (dec_stable_all f) as (H & _). exact (H g st t tag c Hg). Qed.

  Theorem dec_ty_mono f g st t tag c r : (f <= g)%nat ->
    dec_ty f st t tag c = Ok r -> dec_ty g st t tag c = Ok r.
  Proof. intros Hg H. rewrite (dec_ty_stable f g) by (try rewrite H; try discriminate; assumption). exact H. Qed.
End Dec.
