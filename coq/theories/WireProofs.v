(** Proofs about the binary wire layer (C03 and the binary cursor law used by C01). *)
From Coq Require Import ZArith List Bool Lia.
From KV Require Import Base BaseProofs Wire Cursor.
Import ListNotations.
Open Scope Z_scope.

(** ** Induction principle for writer-call trees (nested through [list]) *)
Section ItemInd.
  Variable P : item -> Prop.
  Hypothesis Hstruct : forall tag kids, Forall P kids -> P (IStruct tag kids).
  Hypothesis Hint : forall tag v, P (IInt tag v).
  Hypothesis Hlong : forall tag v, P (ILong tag v).
  Hypothesis Hbig : forall tag v, P (IBig tag v).
  Hypothesis Henum : forall tag r v, P (IEnum tag r v).
  Hypothesis Hbool : forall tag b, P (IBool tag b).
  Hypothesis Htext : forall tag s, P (IText tag s).
  Hypothesis Hbytes : forall tag s, P (IBytes tag s).
  Hypothesis Hdate : forall tag v, P (IDate tag v).
  Hypothesis Hintv : forall tag v, P (IIntv tag v).
  Hypothesis Hmask : forall tag r v, P (IMask tag r v).
  Fixpoint item_ind' (i : item) : P i :=
    match i with
    | IStruct tag kids =>
        Hstruct tag kids ((fix go (l : list item) : Forall P l :=
           match l with [] => Forall_nil P | x :: xs => Forall_cons x (item_ind' x) (go xs) end) kids)
    | IInt t v => Hint t v | ILong t v => Hlong t v | IBig t v => Hbig t v
    | IEnum t r v => Henum t r v | IBool t b => Hbool t b | IText t s => Htext t s
    | IBytes t s => Hbytes t s | IDate t v => Hdate t v | IIntv t v => Hintv t v
    | IMask t r v => Hmask t r v
    end.
End ItemInd.

(** ** Numbers *)
Lemma sp_num_unbe l : forall acc, sp_num l acc = fold_left (fun a b => a * 256 + b) l acc.
Proof. induction l as [|b l IH]; intros acc; cbn [sp_num fold_left]; [reflexivity | apply IH]. Qed.
Lemma sp_num0 l : sp_num l 0 = unbe l.
Proof. apply sp_num_unbe. Qed.

Lemma pow256_len_be n v : 256 ^ len (be n v) = 256 ^ Z.of_nat n.
Proof. rewrite len_be. reflexivity. Qed.

Lemma sp_signed_be n v : (0 < n)%nat ->
  - 2 ^ (8 * Z.of_nat n - 1) <= v < 2 ^ (8 * Z.of_nat n - 1) -> sp_signed (be n v) = v.
Proof.
  intros Hn Hv. unfold sp_signed. rewrite sp_num0, unbe_be, pow256_len_be.
  assert (E : 256 ^ Z.of_nat n = 2 * 2 ^ (8 * Z.of_nat n - 1)).
  { change 256 with (2 ^ 8). rewrite <- Z.pow_mul_r by lia. rewrite <- Z.pow_succ_r by lia. f_equal. lia. }
  set (h := 2 ^ (8 * Z.of_nat n - 1)) in *. assert (0 < h) by (apply Z.pow_pos_nonneg; lia).
  rewrite E. replace (2 * h / 2) with h by (rewrite Z.mul_comm, Z.div_mul; lia).
  destruct (Z_lt_dec v 0) as [Hneg|Hpos].
  - replace (v mod (2 * h)) with (v + 2 * h).
    2:{ symmetry. rewrite <- (Z.mod_add v 1 (2 * h)) by lia. rewrite Z.mul_1_l. apply Z.mod_small. lia. }
    destruct (Z.ltb_spec (v + 2 * h) h); lia.
  - rewrite Z.mod_small by lia. destruct (Z.ltb_spec v h); lia.
Qed.

Lemma in_i32_range v : in_i32 v = true -> - 2 ^ 31 <= v < 2 ^ 31.
Proof. unfold in_i32. rewrite andb_true_iff, Z.leb_le, Z.ltb_lt. tauto. Qed.
Lemma in_i64_range v : in_i64 v = true -> - 2 ^ 63 <= v < 2 ^ 63.
Proof. unfold in_i64. rewrite andb_true_iff, Z.leb_le, Z.ltb_lt. tauto. Qed.
Lemma in_u32_range v : in_u32 v = true -> 0 <= v < 2 ^ 32.
Proof. unfold in_u32. rewrite andb_true_iff, Z.leb_le, Z.ltb_lt. tauto. Qed.

(** ** One step of the strict parser on a header followed by a padded value *)
Definition sp_value (f : nat) (ty l : Z) (value : list Z) : option wval :=
  if ty =? 1 then
    match spec_parse f value with Some kids => Some (WStruct kids) | None => None end
  else if ty =? 2 then (if l =? 4 then Some (WInt (sp_signed value)) else None)
  else if ty =? 3 then (if l =? 8 then Some (WLong (sp_signed value)) else None)
  else if ty =? 4 then (if (0 <? l) && (l mod 8 =? 0) then Some (WBig (sp_signed value)) else None)
  else if ty =? 5 then (if l =? 4 then Some (WEnum (sp_num value 0)) else None)
  else if ty =? 6 then
    (if l =? 8 then
       (if sp_num value 0 =? 0 then Some (WBool false)
        else if sp_num value 0 =? 1 then Some (WBool true) else None)
     else None)
  else if ty =? 7 then Some (WText value)
  else if ty =? 8 then Some (WBytes value)
  else if ty =? 9 then (if l =? 8 then Some (WDate (sp_signed value)) else None)
  else if ty =? 10 then (if l =? 4 then Some (WIntv (sp_num value 0)) else None)
  else None.

Lemma be3_shape v : be 3 v = [(v / 65536) mod 256; (v / 256) mod 256; v mod 256].
Proof. rewrite !be_S, be_O. change (256 ^ Z.of_nat 2) with 65536. change (256 ^ Z.of_nat 1) with 256.
  change (256 ^ Z.of_nat 0) with 1. rewrite Z.div_1_r. reflexivity. Qed.

Lemma be4_shape v : exists a b c d, be 4 v = [a; b; c; d].
Proof. rewrite !be_S, be_O. eauto. Qed.

Lemma sp_is_byte_ok l : bytes_ok l = true -> forallb sp_is_byte l = true.
Proof.
  unfold bytes_ok. intros H. rewrite forallb_forall in *. intros x Hx. specialize (H x Hx).
  unfold byte_ok in H. unfold sp_is_byte. apply andb_true_iff in H. destruct H as [H0 H1].
  apply Z.leb_le in H0. apply Z.ltb_lt in H1. apply andb_true_iff. split; [apply Z.leb_le | apply Z.leb_le]; lia.
Qed.

Lemma all_zero_zeros n : all_zero (zeros n) = true.
Proof. unfold all_zero, zeros. induction (Z.to_nat n) as [|k IH]; cbn [repeat forallb]; [reflexivity | exact IH]. Qed.

Lemma sp_padded_pad8 l : 0 <= l -> sp_padded l = l + pad8 l.
Proof.
  intros Hl. unfold sp_padded, pad8. pose proof (Z.mod_pos_bound l 8 ltac:(lia)) as Hb.
  destruct (Z.eqb_spec (l mod 8) 0) as [E|E].
  - rewrite E. change ((8 - 0) mod 8) with 0. lia.
  - rewrite (Z.mod_small (8 - l mod 8)) by lia. reflexivity.
Qed.

Lemma bytes_ok_hdr tag ty l : bytes_ok (hdr tag ty l) = true.
Proof.
  unfold hdr. rewrite !bytes_ok_app, !be_bytes_ok. cbn [bytes_ok forallb andb]. unfold byte_ok.
  pose proof (Z.mod_pos_bound ty 256 ltac:(lia)).
  destruct (Z.leb_spec 0 (ty mod 256)), (Z.ltb_spec (ty mod 256) 256); try lia; reflexivity.
Qed.

Lemma firstn_app_exact {A} (a b : list A) n : n = length a -> firstn n (a ++ b) = a.
Proof. intros ->. rewrite firstn_app, Nat.sub_diag, firstn_all. cbn [firstn]. apply app_nil_r. Qed.
Lemma skipn_app_exact {A} (a b : list A) n : n = length a -> skipn n (a ++ b) = b.
Proof. intros ->. rewrite skipn_app, Nat.sub_diag, skipn_all. reflexivity. Qed.

Lemma spec_parse_step f tag ty l value after :
  0 <= tag < 2 ^ 24 -> 0 <= ty < 256 -> len value = l -> l < 2 ^ 32 ->
  bytes_ok value = true -> bytes_ok after = true ->
  spec_parse (S f) (hdr tag ty l ++ value ++ zeros (pad8 l) ++ after) =
    match sp_value f ty l value with
    | None => None
    | Some v => match spec_parse f after with Some more => Some (WT tag v :: more) | None => None end
    end.
Proof.
  intros Htag Hty Hlen Hl Hbv Hba.
  assert (Hl0 : 0 <= l) by (subst l; apply len_nonneg).
  assert (Hall : forallb sp_is_byte (hdr tag ty l ++ value ++ zeros (pad8 l) ++ after) = true).
  { apply sp_is_byte_ok. rewrite !bytes_ok_app, bytes_ok_hdr, Hbv, bytes_ok_zeros, Hba. reflexivity. }
  revert Hall. unfold hdr. rewrite be3_shape. destruct (be4_shape l) as (a & b & c & d & E4).
  pose proof (unbe_be_id 4 l ltac:(change (256 ^ Z.of_nat 4) with (2 ^ 32); lia)) as Hu. rewrite E4 in Hu.
  rewrite E4. rewrite (Z.mod_small ty 256) by lia.
  cbn [app]. intros Hall. cbn [spec_parse]. rewrite Hall. cbn [negb].
  assert (Etag : sp_tag (tag / 65536 mod 256) (tag / 256 mod 256) (tag mod 256) = tag).
  { unfold sp_tag. change (2 ^ 24) with 16777216 in Htag.
    pose proof (Z.div_mod tag 256 ltac:(lia)). pose proof (Z.div_mod (tag / 256) 256 ltac:(lia)).
    pose proof (Z.mod_pos_bound tag 256 ltac:(lia)). pose proof (Z.mod_pos_bound (tag / 256) 256 ltac:(lia)).
    rewrite Z.div_div in H0 by lia. change (256 * 256) with 65536 in H0.
    assert (0 <= tag / 65536 < 256) by (split; [apply Z.div_pos; lia | apply Z.div_lt_upper_bound; lia]).
    rewrite (Z.mod_small (tag / 65536)) by lia. lia. }
  rewrite Etag. rewrite sp_num0, Hu. rewrite sp_padded_pad8 by exact Hl0.
  assert (Hp := pad8_range l).
  assert (Hlr : len (value ++ zeros (pad8 l) ++ after) <? l + pad8 l = false).
  { apply Z.ltb_ge. rewrite !len_app, len_zeros by lia. pose proof (len_nonneg after). lia. }
  rewrite Hlr.
  assert (Ev : firstn (Z.to_nat l) (value ++ zeros (pad8 l) ++ after) = value).
  { apply firstn_app_exact. unfold len in Hlen. lia. }
  assert (Ep : firstn (Z.to_nat (l + pad8 l - l)) (skipn (Z.to_nat l) (value ++ zeros (pad8 l) ++ after)) = zeros (pad8 l)).
  { rewrite skipn_app_exact by (unfold len in Hlen; lia). apply firstn_app_exact.
    unfold zeros. rewrite repeat_length. f_equal. lia. }
  assert (Ea : skipn (Z.to_nat (l + pad8 l)) (value ++ zeros (pad8 l) ++ after) = after).
  { rewrite app_assoc. apply skipn_app_exact. rewrite app_length. unfold zeros. rewrite repeat_length.
    unfold len in Hlen. lia. }
  rewrite Ev, Ep, Ea, all_zero_zeros. cbn [negb]. unfold sp_value. reflexivity.
Qed.

(** ** Big integers: bigIntToBytes yields the two's complement of [v] on a positive
    multiple of 8 bytes in which [v] fits *)
Definition fits (v : Z) (T : Z) : Prop := - 2 ^ (8 * T - 1) <= v < 2 ^ (8 * T - 1).

Lemma pow256_2 k : 0 <= k -> 256 ^ k = 2 ^ (8 * k).
Proof. intros H. change 256 with (2 ^ 8). rewrite <- Z.pow_mul_r by lia. reflexivity. Qed.

Lemma nbytes_spec m : 0 < m -> 1 <= nbytes m /\ 256 ^ (nbytes m - 1) <= m < 256 ^ nbytes m.
Proof.
  intros Hm. unfold nbytes. destruct (Z.leb_spec m 0) as [|_]; [lia|].
  pose proof (Z.log2_spec m Hm) as [Hlo Hhi]. pose proof (Z.log2_nonneg m) as HL.
  set (L := Z.log2 m) in *.
  pose proof (Z.div_mod L 8 ltac:(lia)) as Hd. pose proof (Z.mod_pos_bound L 8 ltac:(lia)) as Hb.
  assert (0 <= L / 8) by (apply Z.div_pos; lia).
  split; [lia|]. replace (L / 8 + 1 - 1) with (L / 8) by lia.
  rewrite !pow256_2 by lia. split.
  - eapply Z.le_trans; [|exact Hlo]. apply Z.pow_le_mono_r; lia.
  - eapply Z.lt_le_trans; [exact Hhi|]. apply Z.pow_le_mono_r; lia.
Qed.

Lemma be_extend_pos m n v : 0 <= v < 256 ^ Z.of_nat n -> be (m + n) v = repeat 0 m ++ be n v.
Proof.
  intros Hv. induction m as [|m IH]; [reflexivity|].
  change (S m + n)%nat with (S (m + n)). rewrite be_S, IH. cbn [repeat app]. f_equal.
  rewrite Z.div_small; [reflexivity|]. split; [lia|]. eapply Z.lt_le_trans; [apply Hv|].
  apply Z.pow_le_mono_r; lia.
Qed.

Lemma be_extend_neg m n v : - 256 ^ Z.of_nat n <= v < 0 -> be (m + n) v = repeat 255 m ++ be n v.
Proof.
  intros Hv. induction m as [|m IH]; [reflexivity|].
  change (S m + n)%nat with (S (m + n)). rewrite be_S, IH. cbn [repeat app]. f_equal.
  assert (Hp : 0 < 256 ^ Z.of_nat (m + n)) by apply pow256_pos.
  assert (Hle : 256 ^ Z.of_nat n <= 256 ^ Z.of_nat (m + n)) by (apply Z.pow_le_mono_r; lia).
  assert (E : v / 256 ^ Z.of_nat (m + n) = -1).
  { symmetry. apply (Z.div_unique v _ (-1) (v + 256 ^ Z.of_nat (m + n))); lia. }
  rewrite E. reflexivity.
Qed.

Lemma hd_be n v : hd 0 (be (S n) v) = (v / 256 ^ Z.of_nat n) mod 256.
Proof. rewrite be_S. reflexivity. Qed.

Lemma enc_big_spec v : exists T : nat,
  (0 < T)%nat /\ Z.of_nat T mod 8 = 0 /\ enc_big v = be T v /\ fits v (Z.of_nat T).
Proof.
  unfold enc_big, big_to_bytes. change (8 <? 1) with false. cbv iota.
  destruct (Z.eqb_spec v 0) as [->|Hnz].
  { exists 8%nat. repeat split; try reflexivity; try lia. }
  set (n := nbytes (Z.abs v)).
  pose proof (nbytes_spec (Z.abs v) ltac:(lia)) as (Hn1 & Hlo & Hhi). fold n in Hn1, Hlo, Hhi.
  set (nn := Z.to_nat n). assert (Enn : Z.of_nat nn = n) by (unfold nn; lia).
  assert (Hnn : nn = S (Nat.pred nn)) by lia.
  set (padlen0 := pad_for n 8).
  assert (Hp0 : 0 <= padlen0 < 8) by (unfold padlen0, pad_for; apply Z.mod_pos_bound; lia).
  assert (Hsum : (n + padlen0) mod 8 = 0) by (apply pad8_sum).
  set (tb := hd 0 (be nn v)).
  assert (Etb : tb = (v / 256 ^ (n - 1)) mod 256).
  { unfold tb. rewrite Hnn, hd_be. f_equal. f_equal. f_equal. lia. }
  assert (Hpm : 0 < 256 ^ (n - 1)) by (apply Z.pow_pos_nonneg; lia).
  assert (Epow : 256 ^ n = 256 * 256 ^ (n - 1)).
  { rewrite <- Z.pow_succ_r by lia. f_equal. lia. }
  assert (H2n : 2 ^ (8 * n - 1) = 128 * 256 ^ (n - 1)).
  { rewrite pow256_2 by lia. change 128 with (2 ^ 7). rewrite <- Z.pow_add_r by lia. f_equal. lia. }
  (* the two candidate total lengths *)
  assert (Hfit_more : forall k : Z, n < k -> fits v k).
  { intros k Hk. unfold fits. assert (2 ^ (8 * n) <= 2 ^ (8 * k - 1)) by (apply Z.pow_le_mono_r; lia).
    rewrite <- pow256_2 in H by lia. lia. }
  destruct (Z.ltb_spec v 0) as [Hneg|Hpos].
  - (* negative *)
    change (255 mod 2) with 1.
    assert (Hr : - 256 ^ Z.of_nat nn <= v < 0) by (rewrite Enn; lia).
    set (padlen := if negb (tb / 128 mod 2 =? 1) && (padlen0 =? 0) then 8 else padlen0).
    assert (Hpl : 0 <= padlen) by (unfold padlen; destruct (negb _ && _); lia).
    exists (Z.to_nat padlen + nn)%nat.
    assert (ET : Z.of_nat (Z.to_nat padlen + nn) = padlen + n) by lia.
    rewrite ET. split; [lia|]. split; [|split].
    + unfold padlen. destruct (negb _ && (padlen0 =? 0)) eqn:Ec.
      * apply andb_true_iff in Ec. destruct Ec as [_ Ez]. apply Z.eqb_eq in Ez. rewrite Ez in Hsum.
        rewrite Z.add_0_r in Hsum. rewrite Z.add_comm. rewrite <- Z.add_mod_idemp_r by lia.
        change (8 mod 8) with 0. rewrite Z.add_0_r. exact Hsum.
      * rewrite Z.add_comm. exact Hsum.
    + rewrite be_extend_neg by exact Hr. reflexivity.
    + destruct (Z.eq_dec padlen 0) as [Ez|Enz]; [|apply Hfit_more; lia].
      rewrite Ez, Z.add_0_l. unfold padlen in Ez.
      destruct (negb (tb / 128 mod 2 =? 1) && (padlen0 =? 0)) eqn:Ec; [lia|].
      rewrite Ez in Ec. rewrite andb_true_r in Ec. apply negb_false_iff in Ec. apply Z.eqb_eq in Ec.
      unfold fits. rewrite H2n. split; [|lia].
      (* q = v / 256^(n-1) in [-256,-1], tb = q mod 256 >= 128 hence q >= -128 *)
      set (q := v / 256 ^ (n - 1)) in *.
      pose proof (Z.div_mod v (256 ^ (n - 1)) ltac:(lia)) as Hdm. fold q in Hdm.
      pose proof (Z.mod_pos_bound v (256 ^ (n - 1)) ltac:(lia)) as Hmb.
      assert (Hq : -256 <= q <= -1) by (split; nia).
      assert (Htb : 0 <= tb < 256) by (rewrite Etb; apply Z.mod_pos_bound; lia).
      assert (Htb128 : 128 <= tb).
      { destruct (Z_lt_dec tb 128) as [Hlt|]; [|lia]. rewrite (Z.div_small tb 128) in Ec by lia. discriminate. }
      assert (Eq : tb = q + 256 \/ (q = -256 /\ tb = 0)).
      { destruct (Z.eq_dec q (-256)) as [->|]; [right; split; [reflexivity|]; rewrite Etb; reflexivity|].
        left. rewrite Etb. symmetry. apply (Z.mod_unique q 256 (-1)); lia. }
      destruct Eq as [Eq|[_ Eq]]; [|lia]. nia.
  - (* positive *)
    change (0 mod 2) with 0.
    assert (Hr : 0 <= v < 256 ^ Z.of_nat nn) by (rewrite Enn; lia).
    set (padlen := if negb (tb / 128 mod 2 =? 0) && (padlen0 =? 0) then 8 else padlen0).
    assert (Hpl : 0 <= padlen) by (unfold padlen; destruct (negb _ && _); lia).
    exists (Z.to_nat padlen + nn)%nat.
    assert (ET : Z.of_nat (Z.to_nat padlen + nn) = padlen + n) by lia.
    rewrite ET. split; [lia|]. split; [|split].
    + unfold padlen. destruct (negb _ && (padlen0 =? 0)) eqn:Ec.
      * apply andb_true_iff in Ec. destruct Ec as [_ Ez]. apply Z.eqb_eq in Ez. rewrite Ez in Hsum.
        rewrite Z.add_0_r in Hsum. rewrite Z.add_comm. rewrite <- Z.add_mod_idemp_r by lia.
        change (8 mod 8) with 0. rewrite Z.add_0_r. exact Hsum.
      * rewrite Z.add_comm. exact Hsum.
    + rewrite be_extend_pos by exact Hr. reflexivity.
    + destruct (Z.eq_dec padlen 0) as [Ez|Enz]; [|apply Hfit_more; lia].
      rewrite Ez, Z.add_0_l. unfold padlen in Ez.
      destruct (negb (tb / 128 mod 2 =? 0) && (padlen0 =? 0)) eqn:Ec; [lia|].
      rewrite Ez in Ec. rewrite andb_true_r in Ec. apply negb_false_iff in Ec. apply Z.eqb_eq in Ec.
      unfold fits. rewrite H2n. split; [lia|].
      set (q := v / 256 ^ (n - 1)) in *.
      pose proof (Z.div_mod v (256 ^ (n - 1)) ltac:(lia)) as Hdm. fold q in Hdm.
      pose proof (Z.mod_pos_bound v (256 ^ (n - 1)) ltac:(lia)) as Hmb.
      assert (Hq : 0 <= q < 256) by (split; nia).
      assert (Eq : tb = q) by (rewrite Etb; apply Z.mod_small; lia).
      assert (Hq128 : q < 128).
      { destruct (Z_lt_dec q 128) as [|Hge]; [assumption|]. exfalso. rewrite Eq in Ec.
        assert (q / 128 = 1) by (symmetry; apply (Z.div_unique q 128 1 (q - 128)); lia).
        rewrite H in Ec. discriminate. }
      nia.
Qed.

Lemma enc_big_decodes v : sp_signed (enc_big v) = v /\ 0 < len (enc_big v) /\ len (enc_big v) mod 8 = 0.
Proof.
  destruct (enc_big_spec v) as (T & HT & Hm & E & Hf). rewrite E, len_be.
  split; [|split; [lia | exact Hm]]. apply sp_signed_be; [exact HT | exact Hf].
Qed.

(** ** The encoder's output is well-formed and reads back exactly what was written *)
Lemma bytes_ok_enc_big v : bytes_ok (enc_big v) = true.
Proof. destruct (enc_big_spec v) as (T & _ & _ & E & _). rewrite E. apply be_bytes_ok. Qed.

Lemma bytes_ok_flat_map (l : list item) :
  Forall (fun i => bytes_ok (wire_enc i) = true) l -> bytes_ok (flat_map wire_enc l) = true.
Proof.
  induction 1 as [|x xs Hx _ IH]; [reflexivity|]. cbn [flat_map]. rewrite bytes_ok_app, Hx, IH. reflexivity.
Qed.

Lemma forallb_Forall_impl {A} (p : A -> bool) (Q : A -> Prop) l :
  Forall (fun x => p x = true -> Q x) l -> forallb p l = true -> Forall Q l.
Proof.
  induction 1 as [|x xs Hx _ IH]; intros Hp; [constructor|]. cbn [forallb] in Hp.
  apply andb_true_iff in Hp. destruct Hp as [H1 H2]. constructor; [apply Hx, H1 | apply IH, H2].
Qed.

Lemma bytes_ok_wire_enc i : item_ok i = true -> bytes_ok (wire_enc i) = true.
Proof.
  induction i as [tag kids IH|tag v|tag v|tag v|tag r v|tag b|tag s|tag s|tag v|tag v|tag r v] using item_ind';
    intros Hok; cbn [wire_enc]; rewrite ?bytes_ok_app, ?bytes_ok_hdr, ?be_bytes_ok, ?bytes_ok_zeros, ?bytes_ok_enc_big;
    try reflexivity.
  - cbn [item_ok] in Hok. apply andb_true_iff in Hok. destruct Hok as [_ Hk].
    cbn [andb]. apply bytes_ok_flat_map. apply (forallb_Forall_impl item_ok); assumption.
  - destruct b; reflexivity.
  - cbn [item_ok] in Hok. apply andb_true_iff in Hok. destruct Hok as [_ Hs]. rewrite Hs. reflexivity.
  - cbn [item_ok] in Hok. apply andb_true_iff in Hok. destruct Hok as [_ Hs]. rewrite Hs. reflexivity.
Qed.

Lemma tag_range b (tag : Z) : (0 <=? tag) && (tag <? 2 ^ 24) && b = true -> 0 <= tag < 2 ^ 24 /\ b = true.
Proof. rewrite !andb_true_iff, Z.leb_le, Z.ltb_lt. tauto. Qed.
Lemma tag_range' (tag : Z) : (0 <=? tag) && (tag <? 2 ^ 24) = true -> 0 <= tag < 2 ^ 24.
Proof. rewrite !andb_true_iff, Z.leb_le, Z.ltb_lt. tauto. Qed.

Lemma wire_enc_length_pos i : (8 <= length (wire_enc i))%nat.
Proof.
  assert (H : forall tag ty l rest, (8 <= length (hdr tag ty l ++ rest))%nat).
  { intros. unfold hdr. rewrite !app_length, !be_length. cbn [length]. lia. }
  destruct i; cbn [wire_enc]; apply H.
Qed.

Definition enc_step_ok (i : item) : Prop :=
  item_ok i = true -> item_small i = true ->
  forall f after, bytes_ok after = true -> (length (wire_enc i ++ after) <= f)%nat ->
  spec_parse (S f) (wire_enc i ++ after) =
    match spec_parse f after with Some more => Some (to_wire i :: more) | None => None end.

Lemma enc_forest_ok kids :
  Forall enc_step_ok kids -> forallb item_ok kids = true -> forallb item_small kids = true ->
  forall f, (length (flat_map wire_enc kids) < f)%nat ->
  spec_parse f (flat_map wire_enc kids) = Some (map to_wire kids).
Proof.
  induction 1 as [|k ks Hk _ IH]; intros Hok Hsm f Hf.
  - destruct f as [|f]; [lia|]. reflexivity.
  - cbn [forallb] in Hok, Hsm. apply andb_true_iff in Hok, Hsm. destruct Hok as [Hok1 Hok2], Hsm as [Hsm1 Hsm2].
    destruct f as [|f]; [lia|]. cbn [flat_map map]. cbn [flat_map] in Hf. 
    assert (Hb : bytes_ok (flat_map wire_enc ks) = true).
    { apply bytes_ok_flat_map. rewrite Forall_forall. intros x Hx. apply bytes_ok_wire_enc.
      rewrite forallb_forall in Hok2. apply Hok2, Hx. }
    rewrite (Hk Hok1 Hsm1 f _ Hb) by lia.
    rewrite IH; [reflexivity | assumption | assumption |].
    rewrite app_length in Hf. pose proof (wire_enc_length_pos k). lia.
Qed.

Lemma len_hdr tag ty l : len (hdr tag ty l) = 8.
Proof. unfold hdr. rewrite !len_app, !len_be, len_cons, len_nil. reflexivity. Qed.

Lemma mod8_add8 x : (8 + x) mod 8 = x mod 8.
Proof. replace (8 + x) with (x + 1 * 8) by lia. apply Z.mod_add. lia. Qed.

Lemma flat_map_len8 (l : list item) :
  Forall (fun i => len (wire_enc i) mod 8 = 0) l -> len (flat_map wire_enc l) mod 8 = 0.
Proof.
  induction 1 as [|x xs Hx _ IHx]; [reflexivity|]. cbn [flat_map]. rewrite len_app.
  rewrite Z.add_mod by lia. rewrite Hx, IHx. reflexivity.
Qed.

Lemma wire_enc_len8 i : len (wire_enc i) mod 8 = 0.
Proof.
  induction i as [tag kids IH|tag v|tag v|tag v|tag r v|tag b|tag s|tag s|tag v|tag v|tag r v] using item_ind';
    cbn [wire_enc]; rewrite len_app, len_hdr, mod8_add8; rewrite ?len_app, ?len_be; try reflexivity.
  - apply flat_map_len8, IH.
  - destruct (enc_big_decodes v) as (_ & _ & Hm8). exact Hm8.
  - rewrite len_zeros by apply pad8_range. apply pad8_sum.
  - rewrite len_zeros by apply pad8_range. apply pad8_sum.
Qed.

Lemma pad8_of_mult l : l mod 8 = 0 -> pad8 l = 0.
Proof. intros H. unfold pad8. rewrite H. reflexivity. Qed.

Lemma scalar_step f tag ty l value after w :
  0 <= tag < 2 ^ 24 -> 0 <= ty < 256 -> len value = l -> l < 2 ^ 32 ->
  bytes_ok value = true -> bytes_ok after = true -> sp_value f ty l value = Some w ->
  spec_parse (S f) ((hdr tag ty l ++ value ++ zeros (pad8 l)) ++ after) =
    match spec_parse f after with Some more => Some (WT tag w :: more) | None => None end.
Proof.
  intros. rewrite <- !app_assoc. rewrite spec_parse_step by assumption. rewrite H5. reflexivity.
Qed.

Lemma enc_step_all i : enc_step_ok i.
Proof.
  induction i as [tag kids IH|tag v|tag v|tag v|tag r v|tag b|tag s|tag s|tag v|tag v|tag r v] using item_ind';
    intros Hok Hsm f after Hba Hf; cbn [item_ok] in Hok; cbn [wire_enc to_wire].
  - (* struct *)
    apply tag_range in Hok. destruct Hok as [Htag Hk]. cbn [item_small] in Hsm.
    apply andb_true_iff in Hsm. destruct Hsm as [Hsk Hlen]. apply Z.ltb_lt in Hlen.
    cbn [wire_enc] in Hf.
    set (body := flat_map wire_enc kids) in *.
    assert (E : pad8 (len body) = 0).
    { apply pad8_of_mult. apply flat_map_len8. rewrite Forall_forall. intros x _. apply wire_enc_len8. }
    replace ((hdr tag T_STRUCT (len body) ++ body) ++ after)
      with (hdr tag T_STRUCT (len body) ++ body ++ zeros (pad8 (len body)) ++ after)
      by (rewrite E, <- !app_assoc; reflexivity).
    assert (Hbb : bytes_ok body = true).
    { apply bytes_ok_flat_map. rewrite Forall_forall. intros x Hx. apply bytes_ok_wire_enc.
      rewrite forallb_forall in Hk. apply Hk, Hx. }
    rewrite spec_parse_step; try assumption; try reflexivity; [|unfold T_STRUCT; lia].
    unfold sp_value. change (T_STRUCT =? 1) with true. cbv iota.
    rewrite (enc_forest_ok kids IH Hk Hsk).
    2:{ rewrite !app_length in Hf. unfold hdr in Hf. rewrite !app_length, !be_length in Hf. cbn [length] in Hf. fold body. lia. }
    reflexivity.
  - (* Integer *)
    apply tag_range in Hok. destruct Hok as [Htag Hv]. apply in_i32_range in Hv.
    change [0; 0; 0; 0] with (zeros (pad8 4)).
    apply scalar_step; try assumption; try reflexivity; try (unfold T_INT; lia); [apply be_bytes_ok|].
    unfold sp_value, T_INT. change (2 =? 1) with false. change (2 =? 2) with true. change (4 =? 4) with true. cbv iota.
    rewrite sp_signed_be; [reflexivity | lia | exact Hv].
  - (* Long *)
    apply tag_range in Hok. destruct Hok as [Htag Hv]. apply in_i64_range in Hv.
    rewrite <- (app_nil_r (be 8 v)). change (@nil Z) with (zeros (pad8 8)) at 1.
    apply scalar_step; try assumption; try reflexivity; try (unfold T_LONG; lia); [apply be_bytes_ok|].
    unfold sp_value, T_LONG. change (3 =? 1) with false. change (3 =? 2) with false. change (3 =? 3) with true. change (8 =? 8) with true. cbv iota.
    rewrite sp_signed_be; [reflexivity | lia | exact Hv].
  - (* Big *)
    apply tag_range' in Hok. cbn [item_small] in Hsm. apply Z.ltb_lt in Hsm.
    destruct (enc_big_decodes v) as (Hdec & Hpos & Hm8).
    rewrite <- (app_nil_r (enc_big v)) at 2. replace (@nil Z) with (zeros (pad8 (len (enc_big v)))) at 1
      by (rewrite pad8_of_mult by exact Hm8; reflexivity).
    apply scalar_step; try assumption; try reflexivity; try (unfold T_BIG; lia); [apply bytes_ok_enc_big|].
    unfold sp_value, T_BIG. change (4 =? 1) with false. change (4 =? 2) with false. change (4 =? 3) with false. change (4 =? 4) with true. cbv iota.
    destruct (Z.ltb_spec 0 (len (enc_big v))) as [_|]; [|lia]. rewrite Hm8. change (0 =? 0) with true. cbn [andb].
    rewrite Hdec. reflexivity.
  - (* Enum *)
    apply tag_range in Hok. destruct Hok as [Htag Hv]. apply in_u32_range in Hv.
    change [0; 0; 0; 0] with (zeros (pad8 4)).
    apply scalar_step; try assumption; try reflexivity; try (unfold T_ENUM; lia); [apply be_bytes_ok|].
    unfold sp_value, T_ENUM. change (5 =? 1) with false. change (5 =? 2) with false. change (5 =? 3) with false.
    change (5 =? 4) with false. change (5 =? 5) with true. change (4 =? 4) with true. cbv iota.
    rewrite sp_num0, unbe_be_id; [reflexivity | change (256 ^ Z.of_nat 4) with (2 ^ 32); exact Hv].
  - (* Bool *)
    apply tag_range' in Hok.
    rewrite <- (app_nil_r [0; 0; 0; 0; 0; 0; 0; if b then 1 else 0]). change (@nil Z) with (zeros (pad8 8)) at 1.
    apply scalar_step; try assumption; try reflexivity; try (unfold T_BOOL; lia); [destruct b; reflexivity|].
    destruct b; reflexivity.
  - (* Text *)
    apply tag_range in Hok. destruct Hok as [Htag Hs]. cbn [item_small] in Hsm. apply Z.ltb_lt in Hsm.
    apply scalar_step; try assumption; try reflexivity; unfold T_TEXT; lia.
  - (* Bytes *)
    apply tag_range in Hok. destruct Hok as [Htag Hs]. cbn [item_small] in Hsm. apply Z.ltb_lt in Hsm.
    apply scalar_step; try assumption; try reflexivity; unfold T_BYTES; lia.
  - (* Date *)
    apply tag_range in Hok. destruct Hok as [Htag Hv]. apply in_i64_range in Hv.
    rewrite <- (app_nil_r (be 8 v)). change (@nil Z) with (zeros (pad8 8)) at 1.
    apply scalar_step; try assumption; try reflexivity; try (unfold T_DATE; lia); [apply be_bytes_ok|].
    unfold sp_value, T_DATE. change (9 =? 1) with false. change (9 =? 2) with false. change (9 =? 3) with false.
    change (9 =? 4) with false. change (9 =? 5) with false. change (9 =? 6) with false. change (9 =? 7) with false.
    change (9 =? 8) with false. change (9 =? 9) with true. change (8 =? 8) with true. cbv iota.
    rewrite sp_signed_be; [reflexivity | lia | exact Hv].
  - (* Interval *)
    apply tag_range in Hok. destruct Hok as [Htag Hv]. apply in_u32_range in Hv.
    change [0; 0; 0; 0] with (zeros (pad8 4)).
    apply scalar_step; try assumption; try reflexivity; try (unfold T_INTV; lia); [apply be_bytes_ok|].
    unfold sp_value, T_INTV. change (10 =? 1) with false. change (10 =? 2) with false. change (10 =? 3) with false.
    change (10 =? 4) with false. change (10 =? 5) with false. change (10 =? 6) with false. change (10 =? 7) with false.
    change (10 =? 8) with false. change (10 =? 9) with false. change (10 =? 10) with true. change (4 =? 4) with true. cbv iota.
    rewrite sp_num0, unbe_be_id; [reflexivity | change (256 ^ Z.of_nat 4) with (2 ^ 32); exact Hv].
  - (* Mask = Integer *)
    apply tag_range in Hok. destruct Hok as [Htag Hv]. apply in_i32_range in Hv.
    change [0; 0; 0; 0] with (zeros (pad8 4)).
    apply scalar_step; try assumption; try reflexivity; try (unfold T_INT; lia); [apply be_bytes_ok|].
    unfold sp_value, T_INT. change (2 =? 1) with false. change (2 =? 2) with true. change (4 =? 4) with true. cbv iota.
    rewrite sp_signed_be; [reflexivity | lia | exact Hv].
Qed.

(** C03, first half: for every writer-call tree of any size and depth, the independent strict
    parser accepts the encoder's bytes and reads back exactly the tags and values written. *)
Theorem enc_conforms i : item_ok i = true -> item_small i = true ->
  spec_parse (S (length (wire_enc i))) (wire_enc i) = Some [to_wire i].
Proof.
  intros Hok Hsm. pose proof (enc_step_all i Hok Hsm (length (wire_enc i)) [] eq_refl) as H.
  rewrite app_nil_r in H. rewrite H by lia.
  destruct (length (wire_enc i)) eqn:E; [pose proof (wire_enc_length_pos i); lia | reflexivity].
Qed.

Theorem enc_conforms_list l : forallb item_ok l = true -> forallb item_small l = true ->
  spec_parse (S (length (wire_enc_list l))) (wire_enc_list l) = Some (map to_wire l).
Proof.
  intros Hok Hsm. apply enc_forest_ok; try assumption; [|unfold wire_enc_list; lia].
  rewrite Forall_forall. intros x _. apply enc_step_all.
Qed.
