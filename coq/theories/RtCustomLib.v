(** Lemmas shared by the round-trip proofs of the hand-written codecs (RtRequestItem.v, ...):
    unfolding of the decoder at a hand-written structure, d.Struct around a body, d.Opt on
    an element that was or was not written, and the operation payload held in an interface. *)
From Coq Require Import ZArith List Bool String Lia PeanoNat.
From KV Require Import Base BaseProofs Wire WireProofs Cursor CursorProofs Schema SchemaSem SchemaSemEq FaithfulProofs
  Roundtrip RoundtripEq RoundtripProofs.
Import ListNotations.
Open Scope Z_scope.

Lemma ver_eqb_eq a b : ver_eqb a b = true -> a = b.
Proof.
  destruct a as [a1 a2], b as [b1 b2]. unfold ver_eqb. cbn [fst snd]. intros H.
  apply andb_true_iff in H. destruct H as [H1 H2]. apply Z.eqb_eq in H1, H2. subst. reflexivity.
Qed.

Lemma vstate_eqb_eq a b : vstate_eqb a b = true -> a = b.
Proof.
  destruct a as [a|], b as [b|]; cbn [vstate_eqb]; intros H; try discriminate; [|reflexivity].
  f_equal. apply ver_eqb_eq, H.
Qed.

Lemma keeps_some cty st t tag v : keeps cty st t tag v = true -> cty st t tag v = Some st.
Proof.
  unfold keeps. destruct (cty st t tag v) as [s|]; [|discriminate]. intros H. apply vstate_eqb_eq in H. subst. reflexivity.
Qed.

Section Lib.
  Variable S : schema.
  Variables (OPS : op_table) (ATTRS : attr_table) (OBJS : obj_table).
  Context {R : Type}.
  Variable F : rawfmt R.

  Local Notation enc_ty := (enc_ty S).
  Local Notation dec_ty := (dec_ty S OPS ATTRS OBJS F).
  Local Notation dec_opt := (dec_opt S OPS ATTRS OBJS F).
  Local Notation dec_object := (dec_object S OPS ATTRS OBJS F).
  Local Notation conf_ty := (conf_ty S OPS ATTRS OBJS).
  Local Notation P_ty := (P_ty S OPS ATTRS OBJS F).
  Local Notation Q := (Q S OPS ATTRS OBJS F).
  Local Notation RT_concl := (RT_concl S OPS ATTRS OBJS F).

  Lemma Q_ty f g : Q f -> (g <= f)%nat -> P_ty g.
  Proof. intros H Hg. exact (proj1 (H g Hg)). Qed.

  (** dec_ty at a structure with a hand-written decoder *)
  Lemma dec_ty_custom fd st d tag (c : cur R) :
    find_tdef S (t_name d) = Some d -> t_custom_dec d = true ->
    String.eqb (t_name d) "ttlv.Value" = false -> String.eqb (t_name d) "ttlv.Struct" = false ->
    dec_ty (Datatypes.S fd) st (TNamed (t_name d)) tag c =
    dec_custom_of S OPS ATTRS F (dec_ty fd) (dec_opt fd) (dec_object fd) (dec_fields F fd) st d tag c.
  Proof. intros Ed Hcd EV ES. rewrite dec_ty_eq, EV, ES, Ed, Hcd. reflexivity. Qed.

  (** d.Struct(tag, body) over the element a structure was laid out as *)
  Lemma wrap_struct_ok n tag raw (eks rest : list (relem R)) body vals l st2 :
    body (eks, false) = Ok (vals, (l, false), st2) ->
    wrap_struct F n tag (RE tag T_STRUCT raw eks false :: rest, false) body = Ok (VStruct n vals, (rest, false), st2).
  Proof.
    intros Hb. unfold wrap_struct, c_struct. rewrite c_expect_hit. cbn [bind]. rewrite c_open_good. cbn [bind].
    rewrite Hb. cbn [bind fst snd]. rewrite andb_false_r. rewrite c_next_cons. reflexivity.
  Qed.

  Lemma dec_opt_absent fd st t tag (c : cur R) : c_tag c <> tag ->
    dec_opt (Datatypes.S fd) st t tag c = Ok (zero_of S 8 t, c, st).
  Proof. intros H. rewrite dec_opt_eq. destruct (Z.eqb_spec (c_tag c) tag); [contradiction | reflexivity]. Qed.

  Lemma dec_opt_present fd st t tag (c : cur R) : c_tag c = tag ->
    dec_opt (Datatypes.S fd) st t tag c = dec_ty fd st t tag c.
  Proof. intros H. rewrite dec_opt_eq, H, Z.eqb_refl. reflexivity. Qed.

  (** d.Opt on a pointer field: present or not, it reads what the encoder wrote *)
  Lemma dopt_ptr fe st t' tag v items st' sc (es rest : list (relem R)) fd :
    RT_concl fe st (TPtr t') tag v items st' sc -> faithful F items es -> c_tag (rest, false) <> tag ->
    (fe + 2 * items_size items + 2 <= fd)%nat ->
    dec_opt (Datatypes.S fd) st (TPtr t') tag (es ++ rest, false) = Ok (v, (rest, false), st').
  Proof.
    intros (_ & _ & _ & _ & Hdec) Hf Hnext Hfd.
    specialize (Hdec es rest fd Hf (fun _ => Hnext) Hfd).
    rewrite dec_opt_eq. destruct (Z.eqb_spec (c_tag (es ++ rest, false)) tag) as [E|E]; [exact Hdec|].
    destruct fd as [|fd']; [lia|]. rewrite dec_ty_eq in Hdec.
    destruct (Z.eqb_spec (c_tag (es ++ rest, false)) tag) as [E'|_]; [contradiction|]. cbn [negb] in Hdec.
    injection Hdec as <- Hc <-. cbn [zero_of]. rewrite Hc. reflexivity.
  Qed.

  (** d.Opt on a scalar the hand-written encoders write only when it is not empty *)
  Lemma dopt_bytes fd st tag id (es rest : list (relem R)) :
    faithful F (match id with [] => [] | _ => [IBytes tag id] end) es -> c_tag (rest, false) <> tag ->
    dec_opt (Datatypes.S (Datatypes.S fd)) st (TScalar KBytes) tag (es ++ rest, false) = Ok (VStr id, (rest, false), st).
  Proof.
    intros Hf Hnext. destruct id as [|x id'].
    - apply faithful_nil_inv in Hf. subst es. cbn [app]. rewrite dec_opt_absent by assumption. reflexivity.
    - apply faithful_one_inv in Hf. destruct Hf as (e & -> & He1). cbn [app].
      rewrite dec_opt_present by (apply (faithful1_tag F _ _ _ _ He1)).
      rewrite dec_ty_eq. inversion He1; subst. cbn [dec_scalar]. unfold c_bytes.
      erewrite c_scalar_hit by eassumption. reflexivity.
  Qed.

  Lemma dopt_text fd st tag s (es rest : list (relem R)) :
    faithful F (match s with [] => [] | _ => [IText tag s] end) es -> c_tag (rest, false) <> tag ->
    dec_opt (Datatypes.S (Datatypes.S fd)) st (TScalar KString) tag (es ++ rest, false) = Ok (VStr s, (rest, false), st).
  Proof.
    intros Hf Hnext. destruct s as [|x s'].
    - apply faithful_nil_inv in Hf. subst es. cbn [app]. rewrite dec_opt_absent by assumption. reflexivity.
    - apply faithful_one_inv in Hf. destruct Hf as (e & -> & He1). cbn [app].
      rewrite dec_opt_present by (apply (faithful1_tag F _ _ _ _ He1)).
      rewrite dec_ty_eq. inversion He1; subst. cbn [dec_scalar]. unfold c_text.
      erewrite c_scalar_hit by eassumption. reflexivity.
  Qed.

  (** an enumeration written under its own tag, read as a required element *)
  Lemma dreq_enum fd st tag v (e : relem R) rest :
    faithful1 F (IEnum tag tag v) e ->
    dec_ty (Datatypes.S fd) st (TScalar (KEnum tag)) tag (e :: rest, false) = Ok (VInt v, (rest, false), st).
  Proof.
    intros He1. rewrite dec_ty_eq. inversion He1; subst. cbn [dec_scalar]. unfold c_enum.
    erewrite c_scalar_hit by eassumption. reflexivity.
  Qed.

  (** ... and as an optional one, written when [w] says so *)
  Lemma dopt_enum fd st tag v (w : bool) (es rest : list (relem R)) :
    faithful F (if w then [IEnum tag tag v] else []) es -> (w = false -> v = 0) -> c_tag (rest, false) <> tag ->
    dec_opt (Datatypes.S (Datatypes.S fd)) st (TScalar (KEnum tag)) tag (es ++ rest, false) = Ok (VInt v, (rest, false), st).
  Proof.
    intros Hf Hw Hnext. destruct w.
    - apply faithful_one_inv in Hf. destruct Hf as (e & -> & He1). cbn [app].
      rewrite dec_opt_present by (apply (faithful1_tag F _ _ _ _ He1)). apply dreq_enum, He1.
    - apply faithful_nil_inv in Hf. subst es. cbn [app]. rewrite dec_opt_absent by assumption.
      rewrite (Hw eq_refl). reflexivity.
  Qed.

  (** the operation payload held in the OperationPayload interface *)
  Lemma payload_rt g nm fc st side op tag payload items st' :
    Q g -> tag <> 0 ->
    enc_ty g st (TIface nm) tag payload = Ok (items, st') ->
    conf_payload S OPS (conf_ty fc) st side op tag payload = true ->
    st' = st /\ exists i, items = [i] /\ itag i = tag /\
      forall (e : relem R) rest fd, faithful1 F i e -> (g + 2 * item_size i + 2 <= fd)%nat ->
        dec_payload OPS F (dec_ty fd) (dec_fields F fd) st side op tag (e :: rest, false) = Ok (payload, (rest, false), st).
  Proof.
    intros HQ Htag0 He Hc. unfold conf_payload in Hc.
    destruct payload as [| | | | | | | |dyn pw|]; try discriminate.
    destruct dyn as [|dyn| | |]; try discriminate. destruct dyn as [| | |n|]; try discriminate.
    destruct pw as [| | | | |w| | | |]; try discriminate.
    destruct g as [|g1]; [discriminate|]. rewrite enc_ty_eq in He.
    destruct g1 as [|g2]; [discriminate|]. rewrite enc_ty_eq in He.
    destruct (lookup_op OPS op) as [[rq rs]|] eqn:Eop.
    - (* a registered payload type *)
      rewrite !andb_true_iff in Hc. destruct Hc as ((Hn & Hme) & Hk).
      apply String.eqb_eq in Hn. apply keeps_some in Hk.
      destruct (Q_ty _ g2 HQ ltac:(lia) _ _ _ _ _ _ _ _ He Hk) as (<- & Hta & Hone & _ & Hdec).
      split; [reflexivity|]. destruct (Hone Hme) as [i ->]. exists i. split; [reflexivity|].
      assert (Hi : itag i = tag) by (inversion Hta; assumption). split; [exact Hi|].
      intros e rest fd He1 Hfd. unfold dec_payload. rewrite Eop.
      assert (Hd : dec_ty fd st (TNamed n) tag ([e] ++ rest, false) = Ok (w, (rest, false), st)).
      { apply Hdec; [constructor; [assumption | constructor] | discriminate |].
        unfold items_size. cbn [fold_right]. lia. }
      cbn [app] in Hd. rewrite <- Hn. rewrite Hd. reflexivity.
    - (* an operation without registered payload: UnknownPayload *)
      apply andb_true_iff in Hc. destruct Hc as [Hn Hc]. apply String.eqb_eq in Hn. subst n.
      destruct (find_tdef S "kmip.UnknownPayload") as [d'|] eqn:Ed; [|discriminate].
      destruct w as [| | | | | | |n' fs| |]; try discriminate.
      destruct fs as [|[op'| | | | | | | | |] [|[| | | | | |l| | |] [|? ?]]]; try discriminate.
      rewrite !andb_true_iff in Hc. destruct Hc as (((Hce & Hn') & Hop) & Hsh).
      apply String.eqb_eq in Hn'. apply Z.eqb_eq in Hop. subst n' op'.
      unfold shaped_trees in Hsh. destruct (trees_of l) as [is|] eqn:Etr; [|discriminate].
      apply andb_true_iff in Hsh. destruct Hsh as [Hsh Htags].
      destruct g2 as [|g3]; [discriminate|]. rewrite enc_ty_eq in He.
      change (String.eqb "kmip.UnknownPayload" "ttlv.Value") with false in He.
      change (String.eqb "kmip.UnknownPayload" "ttlv.Struct") with false in He.
      cbv iota in He. rewrite Ed, Hce in He.
      destruct g3 as [|g4]; [discriminate|]. rewrite enc_custom_eq in He. cbv zeta in He.
      rewrite (find_tdef_name S _ _ Ed) in He.
      change (String.eqb "kmip.UnknownPayload" "kmip.RequestBatchItem") with false in He.
      change (String.eqb "kmip.UnknownPayload" "kmip.ResponseBatchItem") with false in He.
      change (String.eqb "kmip.UnknownPayload" "kmip.UnknownPayload") with true in He.
      cbv iota in He. rewrite Etr in He. injection He as <- <-.
      split; [reflexivity|]. exists (IStruct tag is). split; [reflexivity|]. split; [reflexivity|].
      intros e rest fd He1 Hfd. unfold dec_payload. rewrite Eop.
      inversion He1 as [tag0 kids raw eks Hk| | | | | | | | | |]; subst.
      unfold c_struct. rewrite c_expect_hit. cbn [bind]. rewrite c_open_good. cbn [bind].
      destruct (dec_value_faithful F fd) as [_ Hfs].
      rewrite (Hfs is eks Hsh Htags Hk).
      2:{ rewrite item_size_struct in Hfd. lia. }
      cbn [bind fst snd]. rewrite andb_false_r. rewrite c_next_cons. cbn [bind fst snd].
      rewrite (trees_of_some l is Etr). reflexivity.
  Qed.
End Lib.
