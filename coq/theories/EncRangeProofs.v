(** Ranges from the value (C): when every integer of a value lies in the range of the item its
    kind is written as ([val_ranged]), the writer calls the encoder produces are [item_ok] -
    so [item_ok], a hypothesis on the intermediate items in KmipRoundtrip.v, becomes a
    hypothesis on the MESSAGE; and a total encoding shorter than 2^32 bytes is [item_small]. *)
From Coq Require Import ZArith List Bool String Lia PeanoNat.
From KV Require Import Base BaseProofs Wire WireProofs Schema SchemaSem SchemaSemEq EncFuel.
Import ListNotations.
Open Scope Z_scope.

Lemma find_tdef_In (S : schema) n d : find_tdef S n = Some d -> In d S.
Proof.
  induction S as [|d0 r IH]; cbn [find_tdef]; [discriminate|].
  destruct (String.eqb (t_name d0) n); [intros H; injection H as <-; left; reflexivity | intros H; right; apply IH, H].
Qed.

Lemma item_ok_retag i tag : tag_ok tag = true -> item_ok i = true -> item_ok (retag i tag) = true.
Proof.
  unfold tag_ok. intros Ht Hi.
  destruct i; cbn [retag item_ok] in Hi |- *; rewrite Ht; cbn [andb];
    try reflexivity; rewrite <- andb_assoc in Hi; apply andb_true_iff in Hi; destruct Hi as [_ Hi];
    apply andb_true_iff in Hi; destruct Hi as [_ Hi]; exact Hi.
Qed.

Lemma items_ok_app a b : forallb item_ok (a ++ b) = true <-> forallb item_ok a = true /\ forallb item_ok b = true.
Proof. rewrite forallb_app, andb_true_iff. reflexivity. Qed.

Lemma items_ok_cons i l : item_ok i = true -> forallb item_ok l = true -> forallb item_ok (i :: l) = true.
Proof. intros H1 H2. cbn [forallb]. rewrite H1, H2. reflexivity. Qed.

Lemma item_ok_struct tag kids : tag_ok tag = true -> forallb item_ok kids = true -> forallb item_ok [IStruct tag kids] = true.
Proof. unfold tag_ok. intros Ht Hk. cbn [forallb item_ok]. rewrite Ht, Hk. reflexivity. Qed.

Section ER.
  Variable S : schema.
  Hypothesis HS : schema_rng_ok S = true.

  Local Notation enc_ty := (enc_ty S).
  Local Notation enc_list := (enc_list S).
  Local Notation enc_fields := (enc_fields S).
  Local Notation enc_same_tag := (enc_same_tag S).
  Local Notation enc_custom := (enc_custom S).
  Local Notation val_ranged := (val_ranged S).
  Local Notation fields_ranged := (fields_ranged S).

  Lemma val_ranged_struct n n' fs d : find_tdef S n = Some d ->
    val_ranged (TNamed n) (VStruct n' fs) = struct_ranged S d fs.
  Proof. intros Ed. cbn [EncFuel.val_ranged]. rewrite Ed. reflexivity. Qed.

  Lemma tdef_facts n d : find_tdef S n = Some d -> tdef_rng_ok d = true.
  Proof. intros Ed. unfold schema_rng_ok in HS. rewrite forallb_forall in HS. apply HS. eapply find_tdef_In, Ed. Qed.

  Lemma tdef_tags d : tdef_rng_ok d = true -> forallb (fun fd => tag_ok (f_tag fd)) (t_fields d) = true.
  Proof. unfold tdef_rng_ok. rewrite !andb_true_iff. intros (((_ & H) & _) & _). exact H. Qed.

  Lemma ftag_ok d i : tdef_rng_ok d = true -> tag_ok (ftag d i) = true.
  Proof.
    intros Hd. apply tdef_tags in Hd. unfold ftag, nth_field.
    match goal with |- tag_ok (f_tag (nth i ?l ?dflt)) = true => destruct (nth_in_or_default i l dflt) as [Hin | ->] end.
    - rewrite forallb_forall in Hd. apply Hd, Hin.
    - reflexivity.
  Qed.

  (** the value at position [i] of a structure is in the range of the type of field [i] *)
  Lemma fields_ranged_nth fl : forall vl i, fields_ranged fl vl = true -> (i < List.length fl)%nat -> (i < List.length vl)%nat ->
    forall dflt, val_ranged (f_ty (nth i fl dflt)) (nth i vl VNil) = true.
  Proof.
    induction fl as [|fd fl IH]; intros vl i H Hi Hv dflt; [cbn [List.length] in Hi; lia|].
    destruct vl as [|x vl]; [cbn [List.length] in Hv; lia|].
    cbn [EncFuel.fields_ranged] in H. rewrite !andb_true_iff in H. destruct H as ((_ & Hx) & Hr).
    destruct i as [|i]; cbn [nth]; [exact Hx|]. cbn [List.length] in Hi, Hv. apply IH; [exact Hr | lia | lia].
  Qed.

  Lemma scalar_ranged k tag v l : tag_ok tag = true ->
    enc_scalar k tag v = Ok l -> val_ranged (TScalar k) v = true -> forallb item_ok l = true.
  Proof.
    unfold tag_ok. intros Ht He Hr.
    destruct k, v; cbn [enc_scalar] in He; try discriminate; injection He as <-;
      cbn [EncFuel.val_ranged kind_ranged] in Hr; cbn [forallb item_ok]; rewrite Ht; cbn [andb]; try rewrite Hr; reflexivity.
  Qed.

  Lemma trees_ranged t l : forall is, trees_of l = Some is -> forallb (val_ranged t) l = true -> forallb item_ok is = true.
  Proof.
    induction l as [|x r IH]; intros is H Hr; cbn [trees_of] in H.
    - injection H as <-. reflexivity.
    - destruct x as [| | | | | | | | |i]; cbn [tree_of] in H; try discriminate.
      destruct (trees_of r) as [is'|]; [|discriminate]. injection H as <-.
      cbn [forallb] in Hr |- *. apply andb_true_iff in Hr. destruct Hr as [H1 H2].
      cbn [EncFuel.val_ranged] in H1. rewrite H1. cbn [andb]. apply IH; [reflexivity | exact H2].
  Qed.

  Lemma bytes_of_ranged t x s : bytes_of x = Some s -> val_ranged t x = true -> bytes_ok s = true.
  Proof. destruct x; cbn [bytes_of]; try discriminate; intros H; injection H as <-; [intros Hr; exact Hr | reflexivity]. Qed.

  Definition R_ty (f : nat) : Prop := forall st t tag v items st', tag_ok tag = true ->
    enc_ty f st t tag v = Ok (items, st') -> val_ranged t v = true -> forallb item_ok items = true.
  Definition R_list (f : nat) : Prop := forall st t tag l items st', tag_ok tag = true ->
    enc_list f st t tag l = Ok (items, st') -> forallb (val_ranged t) l = true -> forallb item_ok items = true.
  Definition R_fields (f : nat) : Prop := forall st fl vl items st', forallb (fun fd => tag_ok (f_tag fd)) fl = true ->
    enc_fields f st fl vl = Ok (items, st') -> fields_ranged fl vl = true -> forallb item_ok items = true.
  Definition R_same (f : nat) : Prop := forall st fl tag vl items st', tag_ok tag = true ->
    enc_same_tag f st fl tag vl = Ok (items, st') -> fields_ranged fl vl = true -> forallb item_ok items = true.
  Definition R_custom (f : nat) : Prop := forall st d tag fs items st', tag_ok tag = true -> tdef_rng_ok d = true ->
    enc_custom f st d tag fs = Ok (items, st') -> struct_ranged S d fs = true -> forallb item_ok items = true.
  Definition R_all (f : nat) : Prop := R_ty f /\ R_list f /\ R_fields f /\ R_same f /\ R_custom f.

  Lemma R_step_ty f : R_all f -> R_ty (Datatypes.S f).
  Proof.
    intros (IHt & IHl & IHf & IHs & IHc) st t tag v items st' Ht He Hr. rewrite enc_ty_eq in He.
    destruct t as [k|t'|t'|n|nm].
    - destruct (enc_scalar k tag v) as [l| | |] eqn:Es; cbn [bind] in He; try discriminate. injection He as <- <-.
      eapply scalar_ranged; eassumption.
    - destruct v as [| | | | |w| | | |]; try discriminate.
      + injection He as <- <-. reflexivity.
      + eapply IHt; [exact Ht | exact He | exact Hr].
    - destruct v as [| | | | | |l| | |]; try discriminate. eapply IHl; [exact Ht | exact He | exact Hr].
    - destruct (String.eqb n "ttlv.Value") eqn:EV.
      { destruct v as [| | | | | | | | |i]; try discriminate. injection He as <- <-. cbn [forallb]. rewrite andb_true_r.
        apply item_ok_retag; [exact Ht | exact Hr]. }
      destruct (String.eqb n "ttlv.Struct") eqn:ES.
      { destruct v as [| | | | | |l| | |]; try discriminate. destruct (trees_of l) as [is|] eqn:El; [|discriminate].
        injection He as <- <-. apply item_ok_struct; [exact Ht|]. eapply trees_ranged; [exact El | exact Hr]. }
      destruct (find_tdef S n) as [d|] eqn:Ed; [|discriminate].
      destruct v as [| | | | | | |n' fs| |]; try discriminate.
      rewrite (val_ranged_struct _ _ _ _ Ed) in Hr. pose proof (tdef_facts _ _ Ed) as Hd.
      destruct (t_custom_enc d).
      + eapply IHc; eassumption.
      + destruct (enc_fields f st (t_fields d) fs) as [[kids s2]| | |] eqn:Ef; cbn [bind fst snd] in He; try discriminate.
        injection He as <- <-. apply item_ok_struct; [exact Ht|].
        unfold struct_ranged in Hr. apply andb_true_iff in Hr. destruct Hr as [Hr _].
        eapply IHf; [apply tdef_tags, Hd | exact Ef | exact Hr].
    - destruct v as [| | | | | | | |dyn w|]; try discriminate.
      + injection He as <- <-. reflexivity.
      + eapply IHt; [exact Ht | exact He | exact Hr].
  Qed.

  Lemma R_step_list f : R_all f -> R_list (Datatypes.S f).
  Proof.
    intros (IHt & IHl & IHf & IHs & IHc) st t tag l items st' Ht He Hr. rewrite enc_list_eq in He.
    destruct l as [|x r]; [injection He as <- <-; reflexivity|].
    destruct (enc_ty f st t tag x) as [[a sa]| | |] eqn:Ea; cbn [bind fst snd] in He; try discriminate.
    destruct (enc_list f sa t tag r) as [[b sb]| | |] eqn:Eb; cbn [bind fst snd] in He; try discriminate.
    injection He as <- <-. cbn [forallb] in Hr. apply andb_true_iff in Hr. destruct Hr as [H1 H2].
    apply items_ok_app. split; [eapply IHt | eapply IHl]; eassumption.
  Qed.

  Lemma R_step_same f : R_all f -> R_same (Datatypes.S f).
  Proof.
    intros (IHt & IHl & IHf & IHs & IHc) st fl tag vl items st' Ht He Hr. rewrite enc_same_tag_eq in He.
    destruct fl as [|fd fl']; [destruct vl; [injection He as <- <-; reflexivity | discriminate]|].
    destruct vl as [|x vl']; [discriminate|].
    destruct (enc_ty f st (f_ty fd) tag x) as [[a sa]| | |] eqn:Ea; cbn [bind fst snd] in He; try discriminate.
    destruct (enc_same_tag f sa fl' tag vl') as [[b sb]| | |] eqn:Eb; cbn [bind fst snd] in He; try discriminate.
    injection He as <- <-. cbn [EncFuel.fields_ranged] in Hr. rewrite !andb_true_iff in Hr. destruct Hr as ((_ & H1) & H2).
    apply items_ok_app. split; [eapply IHt | eapply IHs]; eassumption.
  Qed.

  Lemma R_step_fields f : R_all f -> R_fields (Datatypes.S f).
  Proof.
    intros (IHt & IHl & IHf & IHs & IHc) st fl vl items st' Hfl He Hr. rewrite enc_fields_eq in He.
    destruct fl as [|fd fl']; [destruct vl; [injection He as <- <-; reflexivity | discriminate]|].
    destruct vl as [|x vl']; [discriminate|].
    cbn [forallb] in Hfl. apply andb_true_iff in Hfl. destruct Hfl as [Hfd Hfl'].
    cbn [EncFuel.fields_ranged] in Hr. rewrite !andb_true_iff in Hr. destruct Hr as ((H0 & H1) & H2).
    cbv zeta in He.
    match type of He with bind ?X _ = _ => destruct X as [[a sa]| | |] eqn:Ea; cbn [bind fst snd] in He; try discriminate end.
    destruct (enc_fields f sa fl' vl') as [[b sb]| | |] eqn:Eb; cbn [bind fst snd] in He; try discriminate.
    injection He as <- <-. apply items_ok_app. split; [|eapply IHf; eassumption].
    destruct (f_tag fd =? 0).
    - destruct x as [| | | | | | | |dyn w|]; try discriminate.
      + injection Ea as <- <-. reflexivity.
      + eapply IHt; [exact H0 | exact Ea | exact H1].
    - destruct (negb (version_in (if f_setver fd then ver_of_value x else st) (f_range fd))); [injection Ea as <- <-; reflexivity|].
      destruct (f_omit fd && is_zero x); [injection Ea as <- <-; reflexivity|].
      eapply IHt; [exact Hfd | exact Ea | exact H1].
  Qed.

  Lemma enum_ranged t z : is_enum_ty t = true -> val_ranged t (VInt z) = true -> in_u32 z = true.
  Proof. destruct t as [[]| | | |]; try discriminate. intros _ H. exact H. Qed.

  Lemma opt_item_ok (i : item) (s : list Z) : item_ok i = true ->
    forallb item_ok (match s with [] => [] | _ => [i] end) = true.
  Proof. intros H. destruct s; [reflexivity|]. cbn [forallb]. rewrite H. reflexivity. Qed.

  Lemma R_step_custom f : R_all f -> R_custom (Datatypes.S f).
  Proof.
    intros (IHt & IHl & IHf & IHs & IHc) st d tag fs items st' Ht Hd He Hr0.
    unfold struct_ranged in Hr0. apply andb_true_iff in Hr0. destruct Hr0 as [Hr Hunk].
    rewrite enc_custom_eq in He. cbv zeta in He.
    pose proof (fun i => ftag_ok d i Hd) as Hft.
    assert (Htg : forall i, (0 <=? ftag d i) && (ftag d i <? 2 ^ 24) = true) by (intros i; apply Hft).
    unfold tdef_rng_ok in Hd. rewrite !andb_true_iff in Hd. destruct Hd as (((_ & _) & Hrq) & Hrs).
    destruct (String.eqb (t_name d) "kmip.RequestBatchItem") eqn:E1.
    { clear Hrs. apply andb_true_iff in Hrq. destruct Hrq as [Hlen Hen0]. apply Nat.eqb_eq in Hlen.
      destruct fs as [|x0 fs]; [discriminate|]. destruct x0 as [op| | | | | | | | |]; try discriminate.
      destruct fs as [|idv fs]; [discriminate|]. destruct fs as [|payload fs]; [discriminate|]. destruct fs as [|ext fs]; [discriminate|].
      destruct fs as [|? ?]; [|discriminate].
      destruct (bytes_of idv) as [id|] eqn:Eid; [|discriminate].
      destruct (enc_ty f st (fty d 2) (ftag d 2) payload) as [[ip sp]| | |] eqn:Ep; cbn [bind fst snd] in He; try discriminate.
      destruct (enc_ty f sp (fty d 3) (ftag d 3) ext) as [[ie se]| | |] eqn:Ee; cbn [bind fst snd] in He; try discriminate.
      injection He as <- <-.
      assert (Hn : forall i, (i < 4)%nat ->
                 val_ranged (fty d i) (nth i [VInt op; idv; payload; ext] VNil) = true).
      { intros i Hi. unfold fty, nth_field. apply fields_ranged_nth; [exact Hr | lia | cbn [List.length]; lia]. }
      pose proof (Hn 0%nat ltac:(lia)) as H0. pose proof (Hn 1%nat ltac:(lia)) as H1.
      pose proof (Hn 2%nat ltac:(lia)) as H2. pose proof (Hn 3%nat ltac:(lia)) as H3. cbn [nth] in H0, H1, H2, H3.
      apply item_ok_struct; [exact Ht|]. cbn [app].
      apply items_ok_cons.
      { cbn [item_ok]. rewrite Htg, (enum_ranged _ _ Hen0 H0). reflexivity. }
      apply items_ok_app. split.
      { apply opt_item_ok. cbn [item_ok]. rewrite Htg, (bytes_of_ranged _ _ _ Eid H1). reflexivity. }
      apply items_ok_app. split; [eapply IHt; [apply Hft | exact Ep | exact H2] | eapply IHt; [apply Hft | exact Ee | exact H3]]. }
    clear Hrq.
    destruct (String.eqb (t_name d) "kmip.ResponseBatchItem") eqn:E2.
    { rewrite !andb_true_iff in Hrs. destruct Hrs as (((Hlen & Hen0) & Hen2) & Hen3). apply Nat.eqb_eq in Hlen.
      destruct fs as [|x0 fs]; [discriminate|]. destruct x0 as [op| | | | | | | | |]; try discriminate.
      destruct fs as [|idv fs]; [discriminate|]. destruct fs as [|x2 fs]; [discriminate|]. destruct x2 as [status| | | | | | | | |]; try discriminate.
      destruct fs as [|x3 fs]; [discriminate|]. destruct x3 as [reason| | | | | | | | |]; try discriminate.
      destruct fs as [|x4 fs]; [discriminate|]. destruct x4 as [| |msg| | | | | | |]; try discriminate.
      destruct fs as [|acvv fs]; [discriminate|]. destruct fs as [|payload fs]; [discriminate|]. destruct fs as [|ext fs]; [discriminate|].
      destruct fs as [|? ?]; [|discriminate].
      destruct (bytes_of idv) as [id|] eqn:Eid; [|discriminate].
      destruct (bytes_of acvv) as [acv|] eqn:Eacv; [|discriminate].
      destruct (enc_ty f st (fty d 6) (ftag d 6) payload) as [[ip sp]| | |] eqn:Ep; cbn [bind fst snd] in He; try discriminate.
      destruct (enc_ty f sp (fty d 7) (ftag d 7) ext) as [[ie se]| | |] eqn:Ee; cbn [bind fst snd] in He; try discriminate.
      injection He as <- <-.
      assert (Hn : forall i, (i < 8)%nat ->
                 val_ranged (fty d i) (nth i [VInt op; idv; VInt status; VInt reason; VStr msg; acvv; payload; ext] VNil) = true).
      { intros i Hi. unfold fty, nth_field. apply fields_ranged_nth; [exact Hr | lia | cbn [List.length]; lia]. }
      pose proof (Hn 0%nat ltac:(lia)) as H0. pose proof (Hn 1%nat ltac:(lia)) as H1.
      pose proof (Hn 2%nat ltac:(lia)) as H2. pose proof (Hn 3%nat ltac:(lia)) as H3.
      pose proof (Hn 4%nat ltac:(lia)) as H4. pose proof (Hn 5%nat ltac:(lia)) as H5.
      pose proof (Hn 6%nat ltac:(lia)) as H6. pose proof (Hn 7%nat ltac:(lia)) as H7.
      cbn [nth] in H0, H1, H2, H3, H4, H5, H6, H7.
      apply item_ok_struct; [reflexivity|]. cbn [app].
      apply items_ok_app. split.
      { destruct (op =? 0); [reflexivity|]. cbn [forallb item_ok]. rewrite Htg, (enum_ranged _ _ Hen0 H0). reflexivity. }
      apply items_ok_app. split.
      { apply opt_item_ok. cbn [item_ok]. rewrite Htg, (bytes_of_ranged _ _ _ Eid H1). reflexivity. }
      apply items_ok_cons.
      { cbn [item_ok]. rewrite Htg, (enum_ranged _ _ Hen2 H2). reflexivity. }
      apply items_ok_app. split.
      { destruct ((status =? RESULT_STATUS_FAILED) || negb (reason =? 0)); [|reflexivity].
        cbn [forallb item_ok]. rewrite Htg, (enum_ranged _ _ Hen3 H3). reflexivity. }
      apply items_ok_app. split.
      { apply opt_item_ok. cbn [item_ok]. rewrite Htg. cbn [EncFuel.val_ranged] in H4. rewrite H4. reflexivity. }
      apply items_ok_app. split.
      { apply opt_item_ok. cbn [item_ok]. rewrite Htg, (bytes_of_ranged _ _ _ Eacv H5). reflexivity. }
      apply items_ok_app. split; [eapply IHt; [apply Hft | exact Ep | exact H6] | eapply IHt; [apply Hft | exact Ee | exact H7]]. }
    clear Hrs.
    destruct (String.eqb (t_name d) "kmip.UnknownPayload") eqn:E3.
    { destruct fs as [|[?| | | | | | | | |] [|[| | | | | |l| | |] [|? ?]]]; try discriminate.
      destruct (trees_of l) as [is|] eqn:El; [|discriminate]. injection He as <- <-.
      apply item_ok_struct; [exact Ht|].
      cbn [forallb] in Hunk. rewrite !andb_true_iff in Hunk. destruct Hunk as (_ & Hl & _).
      cbn [EncFuel.val_ranged] in Hl. eapply trees_ranged; [exact El | exact Hl]. }
    eapply IHs; eassumption.
  Qed.

  Theorem enc_ranged_all f : R_all f.
  Proof.
    induction f as [|f IH].
    - repeat split; intros; discriminate.
    - split; [apply R_step_ty, IH|]. split; [apply R_step_list, IH|]. split; [apply R_step_fields, IH|].
      split; [apply R_step_same, IH | apply R_step_custom, IH].
  Qed.

  (** a value in range is encoded as writer calls in range ... *)
  Theorem enc_ty_ranged f st t tag v items st' : tag_ok tag = true ->
    enc_ty f st t tag v = Ok (items, st') -> val_ranged t v = true -> forallb item_ok items = true.
  Proof. destruct (enc_ranged_all f) as (H & _). apply H. Qed.

  (** ... under the default tag of a structure of the schema in particular *)
  Lemma deftag_ok n d : find_tdef S n = Some d -> tag_ok (t_deftag d) = true.
  Proof.
    intros Ed. pose proof (tdef_facts _ _ Ed) as Hd. unfold tdef_rng_ok in Hd. rewrite !andb_true_iff in Hd.
    destruct Hd as (((H & _) & _) & _). exact H.
  Qed.
End ER.

(** ---- the writer never panics on calls in range (a negative interval is out of range) *)
Lemma item_ok_quiet i : item_ok i = true -> enc_panics i = false.
Proof.
  induction i as [tag kids IH|tag v|tag v|tag v|tag r v|tag b|tag s|tag s|tag v|tag v|tag r v] using item_ind'; intros Hok; try reflexivity.
  - cbn [enc_panics]. cbn [item_ok] in Hok. apply andb_true_iff in Hok. destruct Hok as [_ Hk].
    induction IH as [|k ks Hk' _ IHks]; [reflexivity|]. cbn [forallb] in Hk. apply andb_true_iff in Hk. destruct Hk as [H1 H2].
    cbn [existsb]. rewrite (Hk' H1), (IHks H2). reflexivity.
  - cbn [enc_panics]. cbn [item_ok] in Hok. apply andb_true_iff in Hok. destruct Hok as [_ Hv]. apply in_u32_range in Hv.
    destruct (Z.ltb_spec v 0); [lia | reflexivity].
Qed.

Lemma items_ok_quiet l : forallb item_ok l = true -> existsb enc_panics l = false.
Proof.
  induction l as [|i l IH]; [reflexivity|]. cbn [forallb existsb]. intros H. apply andb_true_iff in H. destruct H as [H1 H2].
  rewrite (item_ok_quiet i H1), (IH H2). reflexivity.
Qed.

(** ---- an encoding shorter than 2^32 bytes has every length below 2^32 *)
Lemma len_flat_map_le (kids : list item) k : In k kids -> len (wire_enc k) <= len (flat_map wire_enc kids).
Proof.
  induction kids as [|x r IH]; [intros []|]. cbn [flat_map]. rewrite len_app. intros [-> | Hin].
  - pose proof (len_nonneg (flat_map wire_enc r)). lia.
  - specialize (IH Hin). pose proof (len_nonneg (wire_enc x)). lia.
Qed.

Lemma item_small_of_len i : len (wire_enc i) < 2 ^ 32 -> item_small i = true.
Proof.
  induction i as [tag kids IH|tag v|tag v|tag v|tag r v|tag b|tag s|tag s|tag v|tag v|tag r v] using item_ind'; intros H; try reflexivity.
  - cbn [wire_enc] in H. cbv zeta in H. rewrite len_app, len_hdr in H. cbn [item_small].
    apply andb_true_iff. split; [|apply Z.ltb_lt; lia].
    apply forallb_forall. intros k Hin. rewrite Forall_forall in IH. apply IH; [exact Hin|].
    pose proof (len_flat_map_le kids k Hin). lia.
  - cbn [wire_enc] in H. cbv zeta in H. rewrite len_app, len_hdr in H. cbn [item_small]. apply Z.ltb_lt. lia.
  - cbn [wire_enc] in H. rewrite !len_app, len_hdr in H. cbn [item_small]. apply Z.ltb_lt.
    pose proof (len_nonneg (zeros (pad8 (len s)))). lia.
  - cbn [wire_enc] in H. rewrite !len_app, len_hdr in H. cbn [item_small]. apply Z.ltb_lt.
    pose proof (len_nonneg (zeros (pad8 (len s)))). lia.
Qed.

Lemma items_small_of_len l : len (wire_enc_list l) < 2 ^ 32 -> forallb item_small l = true.
Proof.
  intros H. apply forallb_forall. intros k Hin. apply item_small_of_len.
  pose proof (len_flat_map_le l k Hin). unfold wire_enc_list in H. lia.
Qed.
