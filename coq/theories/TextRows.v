(** Row checkers for the generated cases_C04.v (correspondence between the model of TextFmt.v
    and the implementation).  No proofs here. *)
From Coq Require Import String Ascii ZArith List Bool.
From KV Require Import Base Wire Cursor TextLex TextFmt Cases.
Import ListNotations.
Open Scope Z_scope.

Definition attrs_eqb (a b : list (list Z * list Z)) : bool :=
  list_eqb (fun p q => seqb (fst p) (fst q) && seqb (snd p) (snd q)) a b.

Fixpoint xelem_eqb (a b : xelem) : bool :=
  match a, b with
  | XE n1 a1 k1 c1, XE n2 a2 k2 c2 =>
    seqb n1 n2 && attrs_eqb a1 a2 && Bool.eqb c1 c2 &&
    (fix go (x y : list xelem) : bool :=
       match x, y with
       | [], [] => true
       | p :: ps, q :: qs => xelem_eqb p q && go ps qs
       | _, _ => false
       end) k1 k2
  end.

Fixpoint jvalue_eqb (a b : jvalue) : bool :=
  match a, b with
  | JNull, JNull => true
  | JBool x, JBool y => Bool.eqb x y
  | JNum x, JNum y => seqb x y
  | JStr x, JStr y => seqb x y
  | JArr x, JArr y =>
    (fix go (x y : list jvalue) : bool :=
       match x, y with
       | [], [] => true
       | p :: ps, q :: qs => jvalue_eqb p q && go ps qs
       | _, _ => false
       end) x y
  | JObj x, JObj y =>
    (fix go (x y : list (list Z * jvalue)) : bool :=
       match x, y with
       | [], [] => true
       | (k1, p) :: ps, (k2, q) :: qs => seqb k1 k2 && jvalue_eqb p q && go ps qs
       | _, _ => false
       end) x y
  | _, _ => false
  end.

(** observed outcome of a decode on the implementation: value re-encoded to binary TTLV,
    error, panic; [OSkip]: the operation was not run for this row *)
Inductive oc : Type := OOk (b : list Z) | OErr | OPanic | OSkip | OWire.

(** [w]: the binary encoding of the row's own item, for [OWire] = "ok, re-encodes to exactly that" *)
Definition oc_match_w (w : list Z) (r : res item) (o : oc) : bool :=
  match o, r with
  | OSkip, _ => true
  | OOk b, Ok i => zlist_eqb (wire_enc i) b
  | OWire, Ok i => zlist_eqb (wire_enc i) w
  | OErr, Err => true
  | OPanic, Panic => true
  | _, _ => false
  end.
Definition oc_match := oc_match_w [].

(** abbreviations used by the generated rows (fewer nodes to parse) *)
Definition aT := s_type. Definition aV := s_value. Definition aG := s_tag. Definition nT := s_TTLV.
Definition tyn (ty : Z) : list Z := type_name ty.
(** the registered name of a tag *)
Definition tn (G : registry) (t : Z) : list Z := match r_tag_name G t with Some n => n | None => [] end.

(** writer rows: the calls, the tree an independent parser sees in the implementation's output,
    what typed re-reading of that output gave, what UnmarshalXML/JSON into ttlv.Value gave *)
Definition xw_ok (G : registry) (r : item * xelem * oc * oc) : bool :=
  match r with (i, t, o1, o2) =>
    let w := wire_enc i in
    xelem_eqb (xml_write1 G i) t && oc_match_w w (xml_reread G i [t] false) o1 &&
    oc_match_w w (xml_unmarshal G [t] false) o2
  end.
Definition jw_ok (G : registry) (r : item * jvalue * oc * oc) : bool :=
  match r with (i, t, o1, o2) =>
    let w := wire_enc i in
    jvalue_eqb (json_write1 G i) t && oc_match_w w (json_reread G i t) o1 &&
    oc_match_w w (json_unmarshal G t) o2
  end.

(** reader rows: a document as the independent parser sees it, and for each operation run on it
    (a script for typed reads, None = Unmarshal into ttlv.Value) the observed outcome *)
Definition xr_ok (G : registry) (r : list xelem * bool * list (option item * oc)) : bool :=
  match r with (doc, cut, ops) =>
    forallb (fun p => match fst p with
                      | None => oc_match (xml_unmarshal G doc cut) (snd p)
                      | Some s => oc_match (xml_reread G s doc cut) (snd p)
                      end) ops
  end.
Definition jr_ok (G : registry) (r : jvalue * list (option item * oc)) : bool :=
  match r with (doc, ops) =>
    forallb (fun p => match fst p with
                      | None => oc_match (json_unmarshal G doc) (snd p)
                      | Some s => oc_match (json_reread G s doc) (snd p)
                      end) ops
  end.
