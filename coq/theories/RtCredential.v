(** Round trip of kmip.Credential with kmip.CredentialValue (kmip.go): Credential is written
    reflectively, its CredentialValue by CredentialValue.TagEncodeTTLV (the three alternatives
    under the same tag); Credential.TagDecodeTTLV reads the credential type and lets it select
    the alternative to read. *)
From Coq Require Import ZArith List Bool String Lia PeanoNat.
From KV Require Import Base BaseProofs Wire WireProofs Cursor CursorProofs Schema SchemaSem SchemaSemEq FaithfulProofs
  Roundtrip RoundtripEq RoundtripProofs RtCustomLib RtSameTag.
Import ListNotations.
Open Scope Z_scope.

Section Cred.
  Variable S : schema.
  Variables (OPS : op_table) (ATTRS : attr_table) (OBJS : obj_table).
  Context {R : Type}.
  Variable F : rawfmt R.

  Local Notation enc_ty := (enc_ty S).
  Local Notation dec_ty := (dec_ty S OPS ATTRS OBJS F).
  Local Notation dec_opt := (dec_opt S OPS ATTRS OBJS F).
  Local Notation conf_ty := (conf_ty S OPS ATTRS OBJS).
  Local Notation Q := (Q S OPS ATTRS OBJS F).
  Local Notation RT_concl := (RT_concl S OPS ATTRS OBJS F).

  (** the credential type selects alternative [n] (0, 1, 2 for types 1, 2, 3) *)
  Lemma cred_select {A} (ct : Z) (n : nat) (x0 x1 x2 e : A) : (n < 3)%nat -> ct = Z.of_nat n + 1 ->
    (if ct =? 1 then x0 else if ct =? 2 then x1 else if ct =? 3 then x2 else e) = nth n [x0; x1; x2] e.
  Proof. intros Hn ->. destruct n as [|[|[|n]]]; [reflexivity | reflexivity | reflexivity | lia]. Qed.

  Lemma rt_credential f : Q f -> forall fc st d tag fs items st' sc,
    find_tdef S (t_name d) = Some d -> t_custom_dec d = true ->
    t_name d = "kmip.Credential"%string ->
    enc_ty (Datatypes.S f) st (TNamed (t_name d)) tag (VStruct (t_name d) fs) = Ok (items, st') ->
    conf_credential S (conf_ty fc) st d tag fs = Some sc ->
    RT_concl (Datatypes.S f) st (TNamed (t_name d)) tag (VStruct (t_name d) fs) items st' sc.
  Proof.
    intros HQ fc st d tag fs items st' sc Ed Hcd Hname He Hc.
    assert (EV : String.eqb (t_name d) "ttlv.Value" = false) by (rewrite Hname; reflexivity).
    assert (ES : String.eqb (t_name d) "ttlv.Struct" = false) by (rewrite Hname; reflexivity).
    unfold conf_credential in Hc.
    destruct (t_fields d) as [|f0 [|f1 [|? ?]]] eqn:Efl; try discriminate.
    destruct fs as [|[ct| | | | | | | | |] [|[| | | | | | |n' [|a [|b [|c [|? ?]]]]| |] [|? ?]]]; try discriminate.
    destruct (find_tdef S "kmip.CredentialValue") as [cv|] eqn:Ecv; [|discriminate].
    match type of Hc with (if ?c then _ else _) = _ => destruct c eqn:Hcond; [|discriminate] end.
    injection Hc as <-.
    rewrite !andb_true_iff in Hcond.
    destruct Hcond as ((((((((((((Hce & Hp0) & Hp1) & Ho0) & Ho1) & Ht0) & Ht1) & Hn') & Hcve) & Hlen) & Hptr) & Hsel) & Hshape).
    apply negb_true_iff in Hce, Ho0, Ho1. apply ty_eqb_eq in Ht1. apply String.eqb_eq in Hn'. subst n'.
    destruct (f_ty f0) as [k0| | | |] eqn:Et0; try discriminate. destruct k0 as [| | | | | | | | | | | | | |r0|]; try discriminate. clear Ht0.
    destruct (pos_field_facts _ Hp1) as (Htag1 & _ & _).
    destruct (pos_field_facts _ Hp0) as (Htag0 & _ & _).
    pose proof (find_tdef_name S _ _ Ecv) as Hcvn.
    (* which alternative *)
    assert (Hsl : exists n x, (n < 3)%nat /\ ct = Z.of_nat n + 1 /\
                   [a; b; c] = (repeat VNil n ++ x :: repeat VNil (2 - n))%list /\
                   conf_ty fc st (fty cv n) (f_tag f1) x = Some st).
    { destruct (Z.eqb_spec ct 1) as [->|N1].
      { rewrite !andb_true_iff in Hsel. destruct Hsel as ((Ha & Hb) & Hc'). apply keeps_some in Ha.
        destruct a, b, c; try discriminate Hshape; try discriminate Hb; try discriminate Hc';
          (exists 0%nat; eexists; split; [lia|]; split; [reflexivity|]; split; [reflexivity | exact Ha]). }
      destruct (Z.eqb_spec ct 2) as [->|N2].
      { rewrite !andb_true_iff in Hsel. destruct Hsel as ((Ha & Hb) & Hc'). apply keeps_some in Hb.
        destruct a, b, c; try discriminate Hshape; try discriminate Ha; try discriminate Hc';
          (exists 1%nat; eexists; split; [lia|]; split; [reflexivity|]; split; [reflexivity | exact Hb]). }
      destruct (Z.eqb_spec ct 3) as [->|N3]; [|discriminate].
      rewrite !andb_true_iff in Hsel. destruct Hsel as ((Ha & Hb) & Hc'). apply keeps_some in Hc'.
      destruct a, b, c; try discriminate Hshape; try discriminate Ha; try discriminate Hb;
        (exists 2%nat; eexists; split; [lia|]; split; [reflexivity|]; split; [reflexivity | exact Hc']). }
    destruct Hsl as (n & x & Hn3 & Hct & Habc & Hcx). clear Hsel Hshape.
    (* the encoder *)
    rewrite enc_ty_eq, EV, ES, Ed, Hce in He. rewrite Efl in He.
    destruct f as [|g1]; [discriminate|]. rewrite (enc_field_req S) in He by assumption.
    rewrite Et0 in He.
    destruct g1 as [|g2]; [discriminate|]. rewrite enc_ty_eq in He. cbn [enc_scalar bind fst snd] in He.
    rewrite (enc_field_req S) in He by assumption. rewrite Ht1 in He.
    destruct (enc_ty g2 st (TNamed "kmip.CredentialValue") (f_tag f1) (VStruct "kmip.CredentialValue" [a; b; c])) as [[iv sv]| | |] eqn:Ev;
      cbn [bind fst snd] in He; try discriminate.
    apply (enc_ty_same_tag_inv S _ _ _ cv) in Ev; try assumption; try reflexivity.
    destruct Ev as (g4 & -> & Ev). rewrite Habc in Ev.
    rewrite (enc_fields_nil S) in He. cbn [bind fst snd] in He. injection He as <- <-.
    destruct (enc_same_tag_slot S n _ _ _ _ _ _ _ _ Hptr Ev) as (g & Hg & Ex). rewrite <- fty_nth in Ex.
    assert (Hgle : (g <= Datatypes.S (Datatypes.S (Datatypes.S (Datatypes.S g4))))%nat) by lia.
    destruct (Q_ty S OPS ATTRS OBJS F _ g HQ Hgle _ _ _ _ _ _ _ _ Ex Hcx) as (<- & _ & _ & _ & Hdx).
    rewrite app_nil_r.
    split; [reflexivity|]. split; [constructor; [reflexivity | constructor]|]. split; [eauto|]. split; [intros; discriminate|].
    intros es rest fd Hf _ Hfd. apply faithful_one_inv in Hf. destruct Hf as (e & -> & He1).
    inversion He1 as [tag0 kids0 raw eks Hk| | | | | | | | | |]; subst tag0 kids0 e.
    change ([IEnum (f_tag f0) r0 ct] ++ iv)%list with (IEnum (f_tag f0) r0 ct :: iv) in Hk, Hfd.
    apply faithful_cons_inv in Hk. destruct Hk as (e0 & ev & -> & Hf0 & Hfv).
    unfold items_size at 1 in Hfd. cbn [fold_right] in Hfd. rewrite item_size_struct, items_size_cons in Hfd. cbn [item_size] in Hfd.
    destruct fd as [|fd1]; [lia|]. cbn [app].
    rewrite (dec_ty_custom S OPS ATTRS OBJS F fd1 st d tag _ Ed Hcd EV ES).
    unfold dec_custom_of. rewrite Hname.
    change (String.eqb "kmip.Credential" "kmip.RequestBatchItem") with false.
    change (String.eqb "kmip.Credential" "kmip.ResponseBatchItem") with false.
    change (String.eqb "kmip.Credential" "kmip.Credential") with true. cbv iota.
    unfold dec_credential. rewrite Hname.
    apply wrap_struct_ok with (l := []).
    rewrite !fty_nth, !ftag_nth, Efl. cbn [nth]. rewrite Et0.
    destruct fd1 as [|fd2]; [lia|].
    rewrite dec_ty_eq. inversion Hf0; subst. cbn [dec_scalar]. unfold c_enum.
    erewrite c_scalar_hit by eassumption. cbn [bind fst snd int_of]. rewrite Ecv.
    assert (Hdv : dec_ty (Datatypes.S fd2) st (fty cv n) (f_tag f1) (ev, false) = Ok (x, ([], false), st)).
    { rewrite <- (app_nil_r ev). apply Hdx; [assumption | intros _; rewrite c_tag_nil; congruence | lia]. }
    rewrite (cred_select (Z.of_nat n + 1) n _ _ _ _ Hn3 eq_refl).
    destruct n as [|[|[|n]]]; [| | |lia]; cbn [nth]; rewrite !fty_nth in *; rewrite Hdv; cbn [bind fst snd];
      cbn [repeat app Nat.sub] in Habc; injection Habc as -> -> ->; reflexivity.
  Qed.
End Cred.

(** Non-vacuity at the schema regenerated from /repo: real credentials of the three kinds
    (optional parts present) conform, and their binary encoding decodes back to them. *)
From KV Require Import BinCursorProofs KmipCodec.
From KVGen Require Import KmipSchema.

Definition ex_cred_password : value :=
  VStruct "kmip.Credential" [VInt 1; VStruct "kmip.CredentialValue"
    [VPtr (VStruct "kmip.CredentialValueUserPassword" [VStr [97; 100; 109; 105; 110]; VStr [115; 51; 99; 114; 51; 116]]); VNil; VNil]].
Definition ex_cred_device : value :=
  VStruct "kmip.Credential" [VInt 2; VStruct "kmip.CredentialValue"
    [VNil; VPtr (VStruct "kmip.CredentialValueDevice" [VStr [83; 78; 49]; VStr [112; 119]; VStr []; VStr [110; 101; 116]; VStr []; VStr []]); VNil]].
Definition ex_cred_attestation : value :=
  VStruct "kmip.Credential" [VInt 3; VStruct "kmip.CredentialValue"
    [VNil; VNil; VPtr (VStruct "kmip.CredentialValueAttestation"
       [VStruct "kmip.Nonce" [VStr [1; 2]; VStr [3; 4; 5]]; VInt 1; VStr [9; 9; 9]; VStr []])]].

Definition cred_example_ok (v : value) : Prop :=
  (exists sc, conf_ty kmip_schema kmip_ops kmip_attrs kmip_objs 40 (Some (1, 4)) (TNamed "kmip.Credential") 4325411 v = Some sc) /\
  (do r <- enc_ty kmip_schema 20 (Some (1, 4)) (TNamed "kmip.Credential") 4325411 v ;;
   do c <- bin_cursor (wire_enc_list (fst r)) ;;
   do d <- dec_ty kmip_schema kmip_ops kmip_attrs kmip_objs bin_fmt 80 (Some (1, 4)) (TNamed "kmip.Credential") 4325411 c ;;
   Ok (value_eqb (fst (fst d)) v && match fst (snd (fst d)) with [] => true | _ => false end)) = Ok true.

Example rt_credential_example :
  cred_example_ok ex_cred_password /\ cred_example_ok ex_cred_device /\ cred_example_ok ex_cred_attestation.
Proof. repeat split; try (eexists; vm_compute; reflexivity); vm_compute; reflexivity. Qed.
