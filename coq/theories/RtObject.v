(** The managed object held in the kmip.Object interface field of the object-carrying payloads
    (payloads/get.go, register.go, import_export.go): a field without tag (f_tag 0), written
    by the reflective encoder under the default tag of its dynamic type, read back by
    NewObjectForType(objectType) + d.Any(&pl.Object) ([dec_object]).  Also: a run of required
    fields read one after the other by a hand-written decoder ([conf_required]). *)
From Coq Require Import ZArith List Bool String Lia PeanoNat.
From KV Require Import Base BaseProofs Wire WireProofs Cursor CursorProofs Schema SchemaSem SchemaSemEq FaithfulProofs
  Roundtrip RoundtripEq RoundtripProofs RtCustomLib.
Import ListNotations.
Open Scope Z_scope.

Section Obj.
  Variable S : schema.
  Variables (OPS : op_table) (ATTRS : attr_table) (OBJS : obj_table).
  Context {R : Type}.
  Variable F : rawfmt R.

  Local Notation enc_ty := (enc_ty S).
  Local Notation enc_fields := (enc_fields S).
  Local Notation dec_ty := (dec_ty S OPS ATTRS OBJS F).
  Local Notation dec_object := (dec_object S OPS ATTRS OBJS F).
  Local Notation conf_ty := (conf_ty S OPS ATTRS OBJS).
  Local Notation Q := (Q S OPS ATTRS OBJS F).
  Local Notation RT_concl := (RT_concl S OPS ATTRS OBJS F).

  (** a field the hand-written codecs treat positionally *)
  Lemma pos_field_facts fd : pos_field fd = true -> (f_tag fd =? 0) = false /\ f_setver fd = false /\ f_range fd = None.
  Proof.
    unfold pos_field. rewrite !andb_true_iff. intros ((H1 & H2) & H3). apply negb_true_iff in H1, H2.
    destruct (f_range fd); [discriminate|]. auto.
  Qed.

  (** the object: one item under the default tag of its type, read back by [dec_object]
      given the object type it conforms to *)
  Lemma object_rt g fc st ot obj items st' :
    Q g ->
    match obj with
    | VNil => Ok ([], st)
    | VIface dyn w => enc_ty g st dyn (deftag_of S dyn) w
    | _ => Panic
    end = Ok (items, st') ->
    conf_object S OBJS (conf_ty fc) st ot obj = true ->
    st' = st /\ object_tag S obj <> 0 /\ exists i, items = [i] /\ itag i = object_tag S obj /\
      forall (e : relem R) rest fd, faithful1 F i e -> (g + 2 * item_size i + 2 <= fd)%nat ->
        dec_object fd st ot (e :: rest, false) = Ok (obj, (rest, false), st).
  Proof.
    intros HQ He Hc. unfold conf_object in Hc.
    destruct obj as [| | | | | | | |dyn pw|]; try discriminate.
    destruct dyn as [|dyn| | |]; try discriminate. destruct dyn as [| | |n|]; try discriminate.
    destruct pw as [| | | | |w| | | |]; try discriminate.
    destruct (lookup_obj OBJS ot) as [n'|] eqn:Eo; [|discriminate].
    rewrite !andb_true_iff in Hc. destruct Hc as (((Hn & Hme) & Hz) & Hk).
    apply String.eqb_eq in Hn. subst n'. apply negb_true_iff in Hz. apply Z.eqb_neq in Hz. apply keeps_some in Hk.
    unfold object_tag.
    change (deftag_of S (TPtr (TNamed n))) with (deftag_of S (TNamed n)) in *.
    destruct g as [|g1]; [discriminate|]. rewrite enc_ty_eq in He.
    destruct (Q_ty S OPS ATTRS OBJS F _ g1 HQ ltac:(lia) _ _ _ _ _ _ _ _ He Hk) as (<- & Hta & Hone & _ & Hdec).
    split; [reflexivity|]. split; [exact Hz|].
    destruct (Hone Hme) as [i ->]. exists i. split; [reflexivity|].
    assert (Hi : itag i = deftag_of S (TNamed n)) by (inversion Hta; assumption). split; [exact Hi|].
    intros e rest fd He1 Hfd. destruct fd as [|fd1]; [lia|]. rewrite dec_object_eq, Eo.
    assert (Hd : dec_ty fd1 st (TNamed n) (deftag_of S (TNamed n)) ([e] ++ rest, false) = Ok (w, (rest, false), st)).
    { apply Hdec; [constructor; [assumption | constructor] | discriminate |].
      unfold items_size. cbn [fold_right]. lia. }
    cbn [app] in Hd. rewrite Hd. reflexivity.
  Qed.
End Obj.
