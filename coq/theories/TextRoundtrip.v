(** The struct-level round trip composed with the XML and JSON writers/readers (C04, message
    level): a conforming message written in XML or JSON and decoded from the element tree /
    JSON value the reader sees comes back as the same message - hence its binary TTLV encoding
    is byte-identical to that of the original - provided its items are representable in the
    format (characters, date range: [xml_item_ok] / [json_item_ok]). *)
From Coq Require Import ZArith List Bool String Lia.
From KV Require Import Base Wire Cursor Schema SchemaSem FaithfulProofs Roundtrip RoundtripProofs RoundtripCustoms
  TextLex TextFmt TextFmtProofs.
Import ListNotations.
Open Scope Z_scope.

Section TextRT.
  Variable S : schema.
  Variables (OPS : op_table) (ATTRS : attr_table) (OBJS : obj_table).
  Variable G : registry.
  Hypothesis HG : registry_ok G.

  Theorem xml_struct_roundtrip fe fc st t tag v items st' sc :
    enc_ty S fe st t tag v = Ok (items, st') ->
    conf_ty S OPS ATTRS OBJS fc st t tag v = Some sc ->
    forallb xml_item_ok items = true -> lookahead t = false ->
    snd (xml_forest G (xml_write G items) false) = false /\
    forall fd, (fe + 2 * items_size items + 2 <= fd)%nat ->
      dec_ty S OPS ATTRS OBJS (xml_fmt G) fd st t tag (fst (xml_forest G (xml_write G items) false), false)
      = Ok (v, ([], false), st').
  Proof.
    intros He Hc Hok Hla. destruct (xml_faithful G HG items Hok) as [Hf Hcut]. split; [exact Hcut|].
    intros fd Hfd. destruct (rt_all S OPS ATTRS OBJS (xml_fmt G) fe) as (Pt & _ & _).
    destruct (Pt _ _ _ _ _ _ _ _ He Hc) as (_ & _ & _ & _ & Hdec).
    specialize (Hdec _ [] fd Hf). rewrite app_nil_r in Hdec. apply Hdec; [rewrite Hla; discriminate | exact Hfd].
  Qed.

  Theorem json_struct_roundtrip fe fc st t tag v items st' sc :
    enc_ty S fe st t tag v = Ok (items, st') ->
    conf_ty S OPS ATTRS OBJS fc st t tag v = Some sc ->
    forallb json_item_ok items = true -> lookahead t = false ->
    forall fd, (fe + 2 * items_size items + 2 <= fd)%nat ->
      dec_ty S OPS ATTRS OBJS (json_fmt G) fd st t tag (map (json_relem G) (map (json_write1 G) items), false)
      = Ok (v, ([], false), st').
  Proof.
    intros He Hc Hok Hla fd Hfd. pose proof (json_faithful G HG items Hok) as Hf.
    destruct (rt_all S OPS ATTRS OBJS (json_fmt G) fe) as (Pt & _ & _).
    destruct (Pt _ _ _ _ _ _ _ _ He Hc) as (_ & _ & _ & _ & Hdec).
    specialize (Hdec _ [] fd Hf). rewrite app_nil_r in Hdec. apply Hdec; [rewrite Hla; discriminate | exact Hfd].
  Qed.
End TextRT.
