(** C20 - codec results do not depend on concurrency or call history.
    Statements only; proofs are in CodecStateProofs.v, the model in CodecState.v. *)
From Coq Require Import ZArith List Bool Arith.
From KV Require Import Base CodecState CodecStateProofs.
Import ListNotations.

(* ---- Clear ---------------------------------------------------------------------- *)

(* Encoder.Clear, on an encoder of any of the four kinds in ANY state (any version, any
   buffer content, structures left open by an aborted call): no version, and the writer is
   in the state of a newly created writer of that kind (empty buffer, nothing open). *)
Theorem C20_clear_resets : forall e : enc,
  e_ext (enc_clear e) = None /\
  e_w (enc_clear e) = w_new (w_kind (e_w e)) /\
  w_view (e_w (enc_clear e)) = w_view (w_new (w_kind (e_w e))).
Proof. exact clear_resets_all. Qed.
Print Assumptions C20_clear_resets.

Theorem C20_clear_empties_buffer : forall e : enc,
  w_view (e_w (enc_clear e)) =
  match w_kind (e_w e) with KBin => VwBytes [] | KTok _ => VwItems [] end.
Proof. exact clear_view_empty. Qed.
Print Assumptions C20_clear_empties_buffer.

(* The defect that was repaired (fix: xmlWriter.Clear ...): before the repair the XML
   writer's Clear panicked when structures were left open; the other writers never did. *)
Theorem C20_xml_clear_defect_before_fix :
  (exists w, w_kind w = KTok KXml /\ w_clear_before_fix w = None) /\
  (forall w, w_kind w <> KTok KXml -> w_clear_before_fix w = Some (w_clear w)).
Proof. split; [exact xml_clear_before_fix_refuted | exact clear_before_fix_only_xml]. Qed.
Print Assumptions C20_xml_clear_defect_before_fix.

(* ---- history independence -------------------------------------------------------- *)

(* For every writer kind, every history h of calls on a new encoder (direct method calls,
   nested Struct callbacks, calls that panic half way and are recovered, reflective
   encodings of messages of any version, earlier Clears, Bytes) and every continuation cs:
   after Clear the encoder ends in the same state and shows the same observations as a new
   encoder running cs. (lk = the plan of each type, tag_of = default tags: any.) *)
Theorem C20_history_independent : forall (lk : Z -> option plan) (tag_of : Z -> option Z)
    (k : wkind) (h cs : list call),
  run_calls lk tag_of (h ++ CClear :: cs) (enc_new k) =
  (fst (run_calls lk tag_of cs (enc_new k)),
   snd (run_calls lk tag_of h (enc_new k)) ++ OOk :: snd (run_calls lk tag_of cs (enc_new k))).
Proof. exact history_independent. Qed.
Print Assumptions C20_history_independent.

(* The writer kind never changes, whatever is called. *)
Theorem C20_kind_invariant : forall lk tag_of k cs e,
  w_kind (e_w e) = k -> w_kind (e_w (fst (run_calls lk tag_of cs e))) = k.
Proof. exact run_calls_kind. Qed.
Print Assumptions C20_kind_invariant.

(* ---- no cross-message flow of the version ---------------------------------------- *)

(* A message that carries its own version first (KMIP: RequestMessage > RequestHeader >
   ProtocolVersion, set-version) is encoded identically whatever version an earlier
   message left in the encoder - with or without Clear in between. *)
Theorem C20_version_does_not_flow : forall lk tag_of (v : value) (p : plan) (tag : Z) (e : enc)
    (x1 x2 : option ver),
  sets_first p v = true ->
  exec lk tag_of p tag v (set_ext e x1) = exec lk tag_of p tag v (set_ext e x2).
Proof. exact sets_first_ext_irrelevant. Qed.
Print Assumptions C20_version_does_not_flow.

(* Decoder side.  One Decoder (nested decoders share its version) reading successive values
   from a cursor over items: a value whose first field (through leading structures) is the
   set-version field, itself version-free, is decoded identically - value, version left
   behind, position, error or panic - whatever version an earlier value left. *)
Theorem C20_decoder_version_does_not_flow : forall (fuel : nat) (p : dplan) (tag : Z) (c : cursor)
    (x1 x2 : option ver),
  dsets_first p = true -> dec fuel p tag x1 c = dec fuel p tag x2 c.
Proof. exact dsets_first_ext_irrelevant. Qed.
Print Assumptions C20_decoder_version_does_not_flow.

(* A plan without version ranges and set-version fields neither reads nor changes the
   decoder's version. *)
Theorem C20_decoder_version_untouched : forall (fuel : nat) (p : dplan) (tag : Z) (x : option ver) (c : cursor),
  no_query p = true ->
  dec fuel p tag x c = match dec fuel p tag None c with
                       | ROk v _ c' => ROk v x c'
                       | RErr => RErr | RPanic => RPanic | RBad => RBad
                       end.
Proof. intros fuel p tag x c H. exact (no_query_passthrough fuel p tag H x c). Qed.
Print Assumptions C20_decoder_version_untouched.

(* ---- the plan caches under every schedule ----------------------------------------- *)

(* P: plans; deps ty: the nested encodeFuncFor/decodeFuncFor calls of the builder of ty;
   mk: what the builder assembles (None: it panics); pure: the plan of a type computed
   without any cache.  The only assumption: the builder is a function of the type
   (registries constant after init).  Then for ANY number of threads with ANY lists of
   lookups, under ANY schedule of their atomic Load/Store accesses, of ANY length:
   every cached plan is the pure plan of its type, and every plan any thread was handed
   is the pure plan of the type it asked for. *)
Theorem C20_cache_sound_any_schedule :
  forall (P : Type) (deps : Z -> list Z) (mk : Z -> list P -> option P) (pure : Z -> option P),
  (forall ty subs, Forall2 (fun d p => pure d = Some p) (deps ty) subs -> mk ty subs = pure ty) ->
  forall (jobs : list (list (list Z))) (sched : list nat),
  let s := run_sched P deps mk sched (init_sys [] jobs) in
  (forall ty p, clookup (fst s) ty = Some p -> pure ty = Some p) /\
  (forall t, In t (snd s) -> forall ty p, In (ty, p) (t_results t) -> pure ty = Some p).
Proof. exact cache_sound_any_schedule. Qed.
Print Assumptions C20_cache_sound_any_schedule.

(* A thread that has finished has received, for each of its lookups in order, exactly the
   pure plan (no lookup of a buildable type fails or is skipped), whatever the schedule
   and whatever the other threads asked for first. *)
Theorem C20_finished_thread_results :
  forall (P : Type) (deps : Z -> list Z) (mk : Z -> list P -> option P) (pure : Z -> option P),
  (forall ty subs, Forall2 (fun d p => pure d = Some p) (deps ty) subs -> mk ty subs = pure ty) ->
  (forall ty p, pure ty = Some p -> forall d, In d (deps ty) -> exists q, pure d = Some q) ->
  forall (jobs : list (list (list Z))) (sched : list nat) (i : nat) (orig : list (list Z)) (res : list (Z * P)),
  (forall o, In o jobs -> forall ty, In ty (concat o) -> exists p, pure ty = Some p) ->
  nth_error jobs i = Some orig ->
  nth_error (snd (run_sched P deps mk sched (init_sys [] jobs))) i = Some (TDone res) ->
  map (fun r => (fst r, Some (snd r))) res = map (fun ty => (ty, pure ty)) (concat orig).
Proof. exact finished_thread_results. Qed.
Print Assumptions C20_finished_thread_results.

(* Termination.  A cost function satisfying the equation exists exactly when the type
   graph has no cycle (first statement); then thread i has finished in every schedule
   that gives it as many turns as its lookups cost, whatever the other threads do. *)
Theorem C20_no_cost_for_cyclic_types :
  forall (deps : Z -> list Z) (cost : Z -> nat),
  (forall ty, cost ty = (2 + list_sum (map cost (deps ty)))%nat) -> forall ty, ~ In ty (deps ty).
Proof. exact cost_excludes_cycles. Qed.
Print Assumptions C20_no_cost_for_cyclic_types.

Theorem C20_thread_terminates :
  forall (P : Type) (deps : Z -> list Z) (mk : Z -> list P -> option P) (cost : Z -> nat),
  (forall ty, cost ty = (2 + list_sum (map cost (deps ty)))%nat) ->
  forall (jobs : list (list (list Z))) (sched : list nat) (i : nat) (orig : list (list Z)),
  nth_error jobs i = Some orig ->
  (list_sum (map (fun l => list_sum (map cost l)) orig) <= count_occ Nat.eq_dec sched i)%nat ->
  exists res, nth_error (snd (run_sched P deps mk sched (init_sys [] jobs))) i = Some (TDone res).
Proof. exact thread_terminates. Qed.
Print Assumptions C20_thread_terminates.

(* ---- concurrency end to end ------------------------------------------------------- *)

(* Encode plans over a table of types without cycle (rank decreasing along dependencies).
   Any number of threads, each encoding its own list of messages on its own encoders,
   sharing only the plan cache, under any schedule of the cache accesses (followed by
   dfuel turns for everybody, enough to finish): the outcome and bytes of every message of
   every thread are those computed with the pure plans, i.e. the sequential result in a
   fresh process.  (Messages whose lookups hit an unbuildable type are excluded here; they
   panic identically in every context, see C20_finished_thread_results.) *)
Theorem C20_threads_encode_pure :
  forall (tbl : ttable) (rank : Z -> nat) (N : nat),
  (forall ty d, In d (deps_of tbl ty) -> (rank d < rank ty)%nat) ->
  (forall ty, (rank ty < N)%nat) ->
  forall (tag_of : Z -> option Z) (work : list (list msg)) (sched : list nat) (dfuel : nat),
  (forall ms, In ms work -> forall m, In m ms -> forall ty, In ty (msg_log tbl N tag_of m) ->
     exists p, pure_plan tbl N ty = Some p) ->
  (forall ms, In ms work ->
     (list_sum (map (fun l => list_sum (map (costc tbl N) l)) (map (msg_log tbl N tag_of) ms)) <= dfuel)%nat) ->
  run_threads tbl tag_of N dfuel work sched = map (map (marshal (pure_plan tbl N) tag_of)) work.
Proof. exact threads_encode_pure. Qed.
Print Assumptions C20_threads_encode_pure.

(* ---- non-vacuity ------------------------------------------------------------------ *)


(* a small table: 1 = int32, 2 = struct{A int32; B *T3 (version 1.2..)}, 3 = struct{X int32},
   4 = *T3, 5 = header struct{V version(set-version)}, 6 = version struct{int32;int32},
   7 = message struct{H T5; Body T2} *)
Definition ex_tbl : ttable :=
  [(1, TLeaf KInt);
   (3, TStruct [FDef (FOpts 30 false None false) 1]);
   (4, TPtr 3);
   (2, TStruct [FDef (FOpts 20 false None false) 1; FDef (FOpts 21 false (Some (Some (1, 2), None)) false) 4]);
   (6, TStruct [FDef (FOpts 60 false None false) 1; FDef (FOpts 61 false None false) 1]);
   (5, TStruct [FDef (FOpts 50 false None true) 6]);
   (7, TStruct [FDef (FOpts 70 false None false) 5; FDef (FOpts 71 false None false) 2])].
Definition ex_ranks : list (Z * nat) := [(1, 0%nat); (3, 1%nat); (4, 2%nat); (2, 3%nat); (6, 1%nat); (5, 2%nat); (7, 4%nat)].

Example C20_ex_table_acyclic : check_ranks ex_tbl ex_ranks 6 = true.
Proof. vm_compute. reflexivity. Qed.

Definition ex_msg (minor : Z) : msg :=
  (7, 700, VStruct [VStruct [VStruct [VLeaf (LInt 1); VLeaf (LInt minor)]];
                    VStruct [VLeaf (LInt 9); VPtr (VStruct [VLeaf (LInt 8)])]]).
Definition ex_body : msg := (2, 200, VStruct [VLeaf (LInt 9); VPtr (VStruct [VLeaf (LInt 8)])]).

(* the hypotheses of C20_threads_encode_pure are met by three threads with different and
   equal types, and the conclusion is not trivial (the bytes are non-empty and the
   version-gated field is present under 1.4 and absent under 1.0) *)
Example C20_ex_threads :
  let work := [[ex_msg 4; ex_body]; [ex_body]; [ex_msg 0]] in
  run_threads ex_tbl (fun _ => None) 6 200 work [0; 1; 2; 2; 1; 0; 0; 1; 1; 2; 0]%nat
  = map (map (marshal (pure_plan ex_tbl 6) (fun _ => None))) work
  /\ (forall m, In m (concat work) -> fst (marshal (pure_plan ex_tbl 6) (fun _ => None) m) = OOk)
  /\ snd (marshal (pure_plan ex_tbl 6) (fun _ => None) (ex_msg 4)) <>
     snd (marshal (pure_plan ex_tbl 6) (fun _ => None) (ex_msg 0)).
Proof.
  split; [vm_compute; reflexivity|]. split.
  - intros m Hm. cbn in Hm. repeat (destruct Hm as [<-|Hm]; [vm_compute; reflexivity|]). destruct Hm.
  - vm_compute. discriminate.
Qed.

(* the message sets its own version first; the headerless body does not, and its encoding
   really depends on the version the encoder holds *)
Example C20_ex_sets_first :
  (exists p, pure_plan ex_tbl 6 7 = Some p /\ sets_first p (snd (ex_msg 4)) = true) /\
  (exists p, pure_plan ex_tbl 6 2 = Some p /\ sets_first p (snd ex_body) = false /\
     exec (pure_plan ex_tbl 6) (fun _ => None) p 200 (snd ex_body) (set_ext (enc_new KBin) (Some (1, 0)))
     <> exec (pure_plan ex_tbl 6) (fun _ => None) p 200 (snd ex_body) (set_ext (enc_new KBin) None)).
Proof.
  split.
  - eexists. split; [vm_compute; reflexivity|vm_compute; reflexivity].
  - eexists. split; [vm_compute; reflexivity|]. split; [vm_compute; reflexivity|vm_compute; discriminate].
Qed.

(* a history with an aborted message (version 1.0 set, structures left open) on each kind
   of writer: without Clear the next result differs from a fresh encoder's, with Clear it
   does not (instance of C20_history_independent with a non-trivial history) *)
Example C20_ex_history :
  let lk := pure_plan ex_tbl 6 in
  let h := [CEncode 7 700 (snd (ex_msg 0)); CProg (PStruct 1 [PLeaf 2 (LInt 5); PStruct 3 [PAbort]])] in
  let cs := [CEncode 2 200 (snd ex_body); CBytes] in
  forall k, In k [KBin; KTok KXml; KTok KJson; KTok KText] ->
    snd (run_calls lk (fun _ => None) (h ++ cs) (enc_new k)) <>
      snd (run_calls lk (fun _ => None) h (enc_new k)) ++ snd (run_calls lk (fun _ => None) cs (enc_new k))
    /\ snd (run_calls lk (fun _ => None) (h ++ CClear :: cs) (enc_new k)) =
      snd (run_calls lk (fun _ => None) h (enc_new k)) ++ OOk :: snd (run_calls lk (fun _ => None) cs (enc_new k)).
Proof.
  intros lk h cs k Hk. cbn in Hk.
  repeat (destruct Hk as [<-|Hk]; [split; [vm_compute; discriminate|vm_compute; reflexivity]|]). destruct Hk.
Qed.

(* decode side: a header-first message plan satisfies dsets_first; a bare version-gated
   value does not, and decoding its 1.0-shaped wire form really depends on the version the
   decoder holds (error on a new decoder, success after a 1.0 header) *)
Definition ex_dver : dplan := DStruct [DField (FOpts 60 false None false) (DLeaf KInt); DField (FOpts 61 false None false) (DLeaf KInt)].
Definition ex_dbody : dplan :=
  DStruct [DField (FOpts 20 false (Some (Some (1, 2), None)) false) (DLeaf KInt); DField (FOpts 21 false None false) (DLeaf KInt)].
Definition ex_dmsg : dplan :=
  DStruct [DField (FOpts 70 false None false) (DStruct [DField (FOpts 50 false None true) ex_dver]);
           DField (FOpts 71 false None false) ex_dbody].
Definition ex_wire_body_10 : cursor := [IStruct 71 [IPrim 21 (LInt 5)]].
Definition ex_wire_msg_10 : cursor :=
  [IStruct 700 [IStruct 70 [IStruct 50 [IPrim 60 (LInt 1); IPrim 61 (LInt 0)]]; IStruct 71 [IPrim 21 (LInt 5)]]].

Example C20_ex_decoder :
  dsets_first ex_dmsg = true /\ dsets_first ex_dbody = false /\
  dec 20 ex_dbody 71 None ex_wire_body_10 = RErr /\
  (exists v c, dec 20 ex_dbody 71 (Some (1, 0)) ex_wire_body_10 = ROk v (Some (1, 0)) c) /\
  (exists v, dec 20 ex_dmsg 700 (Some (1, 4)) ex_wire_msg_10 = ROk v (Some (1, 0)) [] /\
             dec 20 ex_dmsg 700 None ex_wire_msg_10 = ROk v (Some (1, 0)) []).
Proof.
  split; [reflexivity|]. split; [reflexivity|]. split; [vm_compute; reflexivity|].
  split; [eexists; eexists; vm_compute; reflexivity|].
  eexists. split; vm_compute; reflexivity.
Qed.
