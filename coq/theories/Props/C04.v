(** C04 - XML and JSON encodings are interchangeable with binary TTLV, and the XML/JSON side of
    C02 (text decoders never panic).  Statements only; proofs are in TextLexProofs.v and
    TextFmtProofs.v.  Models: TextLex.v (lexical forms), TextFmt.v (xmlWriter/xmlReader,
    jsonWriter/jsonReader over the generic reader cursor of Cursor.v).

    Vocabulary: [item] = one call on the writer interface (Wire.v); [xml_write]/[json_write1] =
    the element tree / JSON value tree the writers produce; [xml_forest]/[json_relem] = the raw
    forest the readers see in a tree; [faithful F items forest] = the round-trip law of Cursor.v
    (same tag, same type code, the raw value parses back to the value written with the same
    real-tag hint, structures nest, nothing is marked invalid); [returns r] = the call returned
    a value or an error: it did not panic and the model's fuel sufficed; [registry_ok G] = the
    name registry is hygienic (checked on the live registry by every run, [tables_okb]). *)
From Coq Require Import String Ascii ZArith List Bool.
From KV Require Import Base Wire Cursor TextLex TextLexProofs TextFmt TextFmtProofs.
From KV Require Import Schema SchemaSem FaithfulProofs Roundtrip TextRoundtrip.
Import ListNotations.
Open Scope Z_scope.

(** ------------------------------------------------------------------------------------
    C04: what the writers produce is read back call for call, for ALL representable items. *)

Theorem C04_xml_faithful : forall G, registry_ok G -> forall items,
  forallb xml_item_ok items = true ->
  faithful (xml_fmt G) items (fst (xml_forest G (xml_write G items) false)) /\
  snd (xml_forest G (xml_write G items) false) = false.
Proof. exact xml_faithful. Qed.
Print Assumptions C04_xml_faithful.

Theorem C04_json_faithful : forall G, registry_ok G -> forall items,
  forallb json_item_ok items = true ->
  faithful (json_fmt G) items (map (json_relem G) (map (json_write1 G) items)).
Proof. exact json_faithful. Qed.
Print Assumptions C04_json_faithful.

(** a ttlv.Value written in XML / JSON and read back (UnmarshalXML/JSON into ttlv.Value) is the
    same value, hence re-encodes to the identical binary TTLV *)
Theorem C04_xml_value_roundtrip : forall G, registry_ok G -> forall i,
  xml_item_ok i = true -> value_item i = true ->
  exists i', xml_unmarshal G (xml_write G [i]) false = Ok i' /\ wire_enc i' = wire_enc i.
Proof. intros G H i H1 H2. exists i. split; [exact (xml_value_roundtrip G H i H1 H2)|reflexivity]. Qed.
Print Assumptions C04_xml_value_roundtrip.

Theorem C04_json_value_roundtrip : forall G, registry_ok G -> forall i,
  json_item_ok i = true -> value_item i = true ->
  exists i', json_unmarshal G (json_write1 G i) = Ok i' /\ wire_enc i' = wire_enc i.
Proof. intros G H i H1 H2. exists i. split; [exact (json_value_roundtrip G H i H1 H2)|reflexivity]. Qed.
Print Assumptions C04_json_value_roundtrip.

(** typed re-reading (what a schema-driven decoder does: for each writer call the matching typed
    read, bit-masks and enumerations with their real-tag hint) returns exactly the calls written *)
Theorem C04_xml_typed_roundtrip : forall G, registry_ok G -> forall i,
  xml_item_ok i = true -> xml_reread G i (xml_write G [i]) false = Ok i.
Proof. exact xml_reread_roundtrip. Qed.
Print Assumptions C04_xml_typed_roundtrip.

Theorem C04_json_typed_roundtrip : forall G, registry_ok G -> forall i,
  json_item_ok i = true -> json_reread G i (json_write1 G i) = Ok i.
Proof. exact json_reread_roundtrip. Qed.
Print Assumptions C04_json_typed_roundtrip.

(** once proved for every format satisfying the law: a faithful forest is read back *)
Theorem C04_faithful_read_back : forall (R : Type) (F : rawfmt R),
  (forall i e, faithful1 F i e -> forall rest, read_as F i (e :: rest, false) = Ok (i, (rest, false))) /\
  (forall il el, faithful F il el -> read_list F il (el, false) = Ok (il, ([], false))).
Proof. exact @read_faithful. Qed.
Print Assumptions C04_faithful_read_back.

(** Whole typed messages (any schema; the hand-written codecs included): a conforming message
    written in XML / JSON and decoded from what the reader sees in that document is the SAME
    message (so its binary TTLV encoding is byte-identical to the original's), nothing is
    marked invalid, every element is consumed - provided its items are representable in the
    format.  Composition of the writers' faithfulness with the struct-level round trip
    (RoundtripCustoms.rt_all). *)
Theorem C04_xml_message_roundtrip : forall S OPS ATTRS OBJS G, registry_ok G ->
  forall fe fc st t tag v items st' sc,
  enc_ty S fe st t tag v = Ok (items, st') -> conf_ty S OPS ATTRS OBJS fc st t tag v = Some sc ->
  forallb xml_item_ok items = true -> lookahead t = false ->
  snd (xml_forest G (xml_write G items) false) = false /\
  forall fd, (fe + 2 * items_size items + 2 <= fd)%nat ->
    dec_ty S OPS ATTRS OBJS (xml_fmt G) fd st t tag (fst (xml_forest G (xml_write G items) false), false)
    = Ok (v, ([], false), st').
Proof. exact xml_struct_roundtrip. Qed.
Print Assumptions C04_xml_message_roundtrip.

Theorem C04_json_message_roundtrip : forall S OPS ATTRS OBJS G, registry_ok G ->
  forall fe fc st t tag v items st' sc,
  enc_ty S fe st t tag v = Ok (items, st') -> conf_ty S OPS ATTRS OBJS fc st t tag v = Some sc ->
  forallb json_item_ok items = true -> lookahead t = false ->
  forall fd, (fe + 2 * items_size items + 2 <= fd)%nat ->
    dec_ty S OPS ATTRS OBJS (json_fmt G) fd st t tag (map (json_relem G) (map (json_write1 G) items), false)
    = Ok (v, ([], false), st').
Proof. exact json_struct_roundtrip. Qed.
Print Assumptions C04_json_message_roundtrip.

(** ------------------------------------------------------------------------------------
    Scalar lexical round trips, for ALL numbers. *)

(** strconv.ParseInt(strconv.Itoa(n)) = n, any width *)
Theorem C04_decimal_roundtrip : forall bits n, 1 <= bits ->
  - 2 ^ (bits - 1) <= n < 2 ^ (bits - 1) -> parse_int 10 bits (fmt_int n) = Ok n.
Proof. exact parse_int_fmt_int. Qed.
Print Assumptions C04_decimal_roundtrip.

(** parse_hex (hex8 n) = n: "%0wX"/"%0wx" is read back by ParseUint base 16, any padding, either case *)
Theorem C04_hex_roundtrip : forall bits w up n, 0 <= n < 2 ^ bits ->
  parse_uint 16 bits (hex_pad w up n) = Ok n.
Proof. exact parse_hex_pad. Qed.
Print Assumptions C04_hex_roundtrip.

(** JSON LongInteger on both sides of the 2^52 switch: number below, "0x%016x" of uint64 from there on *)
Theorem C04_json_long_switch : forall G v, in_i64 v = true ->
  p_long (json_fmt G)
    (if (2 ^ 52 <=? v) || (v <=? - 2 ^ 52) then JStr (s_0x ++ hex_pad 16 false (to_u64 v)) else JNum (fmt_int v)) = Ok v.
Proof. exact json_long_roundtrip. Qed.
Print Assumptions C04_json_long_switch.

(** big integers, any size and sign: two's-complement hex (XML: minimal, upper case; JSON: padded
    to 8 bytes, lower case, from 2^52 on; decimal below) *)
Theorem C04_xml_bigint : forall G v, p_big (xml_fmt G) (hex_encode true (big_bytes v 1)) = Ok v.
Proof. exact xml_bigint_roundtrip. Qed.
Print Assumptions C04_xml_bigint.

Theorem C04_json_bigint : forall G v,
  p_big (json_fmt G)
    (if (2 ^ 52 <=? v) || (v <=? - 2 ^ 52) then JStr (s_0x ++ hex_encode false (big_bytes v 8)) else JNum (fmt_int v)) = Ok v.
Proof. exact json_bigint_roundtrip. Qed.
Print Assumptions C04_json_bigint.

Theorem C04_twos_complement : forall v padding,
  big_bytes v padding <> [] /\ bytes_ok (big_bytes v padding) = true /\ go_bytes_to_big (big_bytes v padding) = Ok v.
Proof. exact big_bytes_roundtrip. Qed.
Print Assumptions C04_twos_complement.

(** enumerations: every uint32, named (name) or unnamed ("0x%08X") *)
Theorem C04_enum_roundtrip : forall G, registry_ok G -> forall etag v, in_u32 v = true ->
  enum_parse G etag (enum_string G etag v) = Ok v.
Proof. exact enum_roundtrip. Qed.
Print Assumptions C04_enum_roundtrip.

(** bit masks: every int32 - named bits, unnamed bits as "0x%08X", bit 31 (0x80000000), mask 0
    (the empty string) - XML (space separated) and JSON ("|" separated) *)
Theorem C04_xml_mask_roundtrip : forall G, registry_ok G -> forall mtag v, in_i32 v = true ->
  mask_fold G mtag (map trim_space (fields (mask_string G mtag v [32]))) 0 = Ok v.
Proof. exact xml_mask_roundtrip. Qed.
Print Assumptions C04_xml_mask_roundtrip.

Theorem C04_json_mask_roundtrip : forall G, registry_ok G -> forall mtag v, in_i32 v = true ->
  mask_fold G mtag (filter (fun p => match p with [] => false | _ => true end)
                      (map trim_space (split_on 124 (mask_string G mtag v [124])))) 0 = Ok v.
Proof. exact json_mask_roundtrip. Qed.
Print Assumptions C04_json_mask_roundtrip.

(** date-times: every whole second of the years 1..9999 (proved, not assumed: the calendar
    arithmetic is checked on one 400-year era and lifted) *)
Theorem C04_rfc3339_roundtrip : forall t, date_ok t = true -> parse_rfc3339 (fmt_rfc3339 t) = Ok t.
Proof. exact rfc3339_roundtrip. Qed.
Print Assumptions C04_rfc3339_roundtrip.

(** text: exactly the strings that survive - valid UTF-8 (JSON), valid UTF-8 of XML 1.0 Chars (XML);
    anything else is altered (U+FFFD) by the standard library's escaping *)
Theorem C04_text_survives : forall s,
  (xml_text_ok s = true -> xml_carry s = s) /\ (json_text_ok s = true -> json_carry s = s).
Proof. intros s. split; [apply xml_carry_id|apply json_carry_id]. Qed.
Print Assumptions C04_text_survives.

(** ------------------------------------------------------------------------------------
    C02, text part: no operation of the XML and JSON readers panics (or exhausts its fuel), on ANY
    raw input - any element tree with any attributes, cut by a syntax error anywhere; any JSON
    value at any position - and with ANY registry. *)

Theorem C02_xml_unmarshal_returns : forall G doc cut, returns (xml_unmarshal G doc cut).
Proof. exact xml_unmarshal_returns. Qed.
Print Assumptions C02_xml_unmarshal_returns.

Theorem C02_json_unmarshal_returns : forall G doc, returns (json_unmarshal G doc).
Proof. exact json_unmarshal_returns. Qed.
Print Assumptions C02_json_unmarshal_returns.

Theorem C02_xml_typed_read_returns : forall G script doc cut, returns (xml_reread G script doc cut).
Proof. exact xml_reread_returns. Qed.
Print Assumptions C02_xml_typed_read_returns.

Theorem C02_json_typed_read_returns : forall G script doc, returns (json_reread G script doc).
Proof. exact json_reread_returns. Qed.
Print Assumptions C02_json_typed_read_returns.

Theorem C02_xml_ops_return : forall G (c : cur XRaw) tag rtag,
  returns (c_integer (xml_fmt G) tag c) /\ returns (c_long (xml_fmt G) tag c) /\ returns (c_big (xml_fmt G) tag c) /\
  returns (c_enum (xml_fmt G) rtag tag c) /\ returns (c_bool (xml_fmt G) tag c) /\ returns (c_text (xml_fmt G) tag c) /\
  returns (c_bytes (xml_fmt G) tag c) /\ returns (c_date (xml_fmt G) tag c) /\ returns (c_intv (xml_fmt G) tag c) /\
  returns (c_mask (xml_fmt G) rtag tag c) /\ returns (c_next c).
Proof. exact xml_ops_return. Qed.
Print Assumptions C02_xml_ops_return.

Theorem C02_json_ops_return : forall G (c : cur JRaw) tag rtag,
  returns (c_integer (json_fmt G) tag c) /\ returns (c_long (json_fmt G) tag c) /\ returns (c_big (json_fmt G) tag c) /\
  returns (c_enum (json_fmt G) rtag tag c) /\ returns (c_bool (json_fmt G) tag c) /\ returns (c_text (json_fmt G) tag c) /\
  returns (c_bytes (json_fmt G) tag c) /\ returns (c_date (json_fmt G) tag c) /\ returns (c_intv (json_fmt G) tag c) /\
  returns (c_mask (json_fmt G) rtag tag c) /\ returns (c_next c).
Proof. exact json_ops_return. Qed.
Print Assumptions C02_json_ops_return.

Theorem C02_xml_struct_returns : forall G (A : Type) tag (f : cur XRaw -> res (A * cur XRaw)) c,
  (forall sub, returns (f sub)) -> returns (c_struct (xml_fmt G) tag f c).
Proof. exact xml_struct_returns. Qed.
Print Assumptions C02_xml_struct_returns.

Theorem C02_json_struct_returns : forall G (A : Type) tag (f : cur JRaw -> res (A * cur JRaw)) c,
  (forall sub, returns (f sub)) -> returns (c_struct (json_fmt G) tag f c).
Proof. exact json_struct_returns. Qed.
Print Assumptions C02_json_struct_returns.

(** the generic ttlv.Value decoder on any cursor, with fuel linear in the size of the raw forest *)
Theorem C02_xml_dec_value_returns : forall G fuel tag (c : cur XRaw),
  (2 * forest_size (fst c) < fuel)%nat -> returns (dec_value (xml_fmt G) fuel tag c).
Proof. exact xml_dec_value_returns. Qed.
Print Assumptions C02_xml_dec_value_returns.

Theorem C02_json_dec_value_returns : forall G fuel tag (c : cur JRaw),
  (2 * forest_size (fst c) < fuel)%nat -> returns (dec_value (json_fmt G) fuel tag c).
Proof. exact json_dec_value_returns. Qed.
Print Assumptions C02_json_dec_value_returns.

(** ------------------------------------------------------------------------------------
    The registry hypothesis is decidable on dumped tables (each run checks the live registry). *)

Theorem C04_tables_ok_sound : forall T, tables_okb T = true -> registry_ok (reg_of_tables T).
Proof. exact tables_ok_sound. Qed.
Print Assumptions C04_tables_ok_sound.

(** ------------------------------------------------------------------------------------
    Non-vacuity: a hygienic registry exists, and a forest using every kind of call - a named and
    an unnamed tag, a flag set with named bits, unnamed bits and bit 31, the empty flag set, a named
    and an unnamed enumeration value, integers on both sides of 2^52, a negative big integer,
    non-BMP text, the first and last representable instants - meets the hypotheses. *)

Definition ex_tables : regtables := {|
  t_tags := [(4325420, str "CryptographicUsageMask"); (4325416, str "CryptographicAlgorithm"); (4325384, str "Attribute")];
  t_tags_rev := [(str "CryptographicUsageMask", 4325420); (str "CryptographicAlgorithm", 4325416); (str "Attribute", 4325384)];
  t_enums := [(4325416, [(3, str "AES"); (2, str "DES3")])];
  t_enums_rev := [(4325416, [(str "AES", 3); (str "DES3", 2)])];
  t_masks := [(4325420, [str "Sign"; str "Verify"])];
  t_masks_rev := [(4325420, [(str "Sign", 1); (str "Verify", 2)])];
|}.
Definition ex_registry : registry := reg_of_tables ex_tables.

Example C04_ex_registry_ok : registry_ok ex_registry.
Proof. apply tables_ok_sound. vm_compute. reflexivity. Qed.

Definition ex_items : list item :=
  [IStruct 4325384
     [IInt 5505025 (-2147483648); ILong 5505026 (2 ^ 52); ILong 5505027 (2 ^ 52 - 1); ILong 5505028 (- 2 ^ 63);
      IBig 5505029 (- 2 ^ 71 - 1); IBig 5505030 0;
      IEnum 4325416 0 3; IEnum 5505031 0 4294967295;
      IBool 5505032 true; IText 5505033 [240; 159; 152; 128; 60; 38]; IBytes 5505034 [0; 255];
      IDate 5505035 date_min; IDate 5505036 date_max; IIntv 5505037 4294967295;
      IStruct 1 []];
   IEnum 5505039 4325416 2; IEnum 5505039 4325416 7; IMask 4325420 0 (-2147483645); IMask 5505038 4325420 0].

Example C04_ex_hypotheses :
  forallb xml_item_ok ex_items = true /\ forallb json_item_ok ex_items = true /\
  value_item (hd (IBool 0 false) ex_items) = true.
Proof. vm_compute. repeat split. Qed.

Example C04_ex_roundtrip :
  xml_unmarshal ex_registry (xml_write ex_registry [hd (IBool 0 false) ex_items]) false = Ok (hd (IBool 0 false) ex_items) /\
  json_reread ex_registry (IMask 4325420 0 0) (json_write1 ex_registry (IMask 4325420 0 (-2147483645))) = Ok (IMask 4325420 0 (-2147483645)).
Proof. vm_compute. split; reflexivity. Qed.

(** the readers do fail (with an error, not a panic) on malformed input: the totality theorems are not about a reader that accepts everything *)
Example C02_ex_errors :
  json_unmarshal ex_registry (JArr [JNum [49]]) = Err /\
  json_unmarshal ex_registry (JObj [(s_tag, JStr (str "Attribute")); (s_type, JStr (str "Foo")); (s_value, JNull)]) = Err /\
  xml_unmarshal ex_registry [XE (str "Attribute") [(s_type, str "Foo")] [] false] false = Err /\
  xml_unmarshal ex_registry [XE (str "Attribute") [] [] true] false = Err.
Proof. vm_compute. repeat split. Qed.

(** ------------------------------------------------------------------------------------
    Known finding (not repaired: it needs pointer fields, an API change): the converse direction of
    C04 fails for an optional element that holds the zero value of its type.  A producer may write
    <TagLength type="Integer" value="0"/>; the field decodes to 0 and, being `omitempty`, is not
    written again.  Driver signature: C04/oasis/element-tree-differs:zero-valued-optional-element-dropped. *)
Lemma C04_zero_valued_optional_element_refuted :
  exists tag calls c v c',
    xml_cursor ex_registry (xml_write ex_registry calls) false = Ok c /\
    omitempty_int_dec (xml_fmt ex_registry) tag c = Ok (v, c') /\
    omitempty_int_enc tag v <> calls.
Proof.
  exists 4325573, [IInt 4325573 0]. eexists. exists 0. eexists.
  split; [vm_compute; reflexivity|]. split; [vm_compute; reflexivity|]. vm_compute. discriminate.
Qed.
Print Assumptions C04_zero_valued_optional_element_refuted.
