(** C04 - XML and JSON encodings are interchangeable with binary TTLV. Statements only. *)
From Coq Require Import String Ascii ZArith List Bool.
From KV Require Import Base Wire Cursor TextLex TextLexProofs TextFmt TextFmtProofs.
Import ListNotations.
Open Scope Z_scope.

Theorem C04_placeholder : forall s, seqb s s = true.
Proof. exact seqb_refl. Qed.
Print Assumptions C04_placeholder.
