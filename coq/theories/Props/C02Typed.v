(** C02 - Decoders never panic on arbitrary input: the TYPED targets (decoding into Go
    structs: messages, payloads, objects, attributes).  Statements only; definitions in
    DecSafe.v, proofs in DecSafeProofs.v.

    SchemaSem.v models the reflective decoder of ttlv/decoder.go and every hand-written
    TagDecodeTTLV of the library over the generic reader cursor, every place where the Go code
    would panic being an explicit [Panic]: a nil interface handed to the reflective decoder, a
    struct field without tag ("Missing tag for field ..."), an unknown type, an unknown
    hand-written decoder, a missing auxiliary definition.  [dec_safe_schema] is a boolean
    check on the schema (REGENERATED from the Go source on every run) which excludes all of
    them:
      - every definition except the five that are never handed to the decoder
        ([hand_only]: kmip.CredentialValue, kmip.KeyValue, kmip.PlainKeyValue,
        kmip.KeyMaterial - read by un-exported decode methods of Credential / KeyBlock - and
        kmip.UnknownPayload, built by the batch items) is either reflective with a tag on
        every field and a [decodable] type in every field, or declares a hand-written decoder
        that the model knows, whose positional fields and auxiliary definitions (the 3
        alternatives of CredentialValue, the 8 of KeyMaterial, the attribute list of
        PlainKeyValue) exist and have decodable types;
      - every payload type of the operation table, every object type and every attribute
        value type is decodable;
    where a type is [decodable] when it is a scalar, ttlv.Value, ttlv.Struct, a definition of
    the schema other than those five, or a pointer / slice of such (never an interface). *)
From Coq Require Import ZArith List Bool String.
From KV Require Import Base Wire Cursor CursorProofs Schema SchemaSem KmipCodec DecSafe DecSafeProofs.
From KV Require TextFmt.
From KVGen Require Import KmipSchema.
Import ListNotations.
Open Scope Z_scope.

(** The typed decoder never panics: ANY schema passing the check, ANY reader format whose
    scalar parsers are total (binary, XML, JSON), ANY cursor (hence any input, well-formed or
    not), any fuel, any protocol-version state, any decodable target type, any tag. *)
Theorem C02_typed_decoder_never_panics : forall S OPS ATTRS OBJS {R} (F : rawfmt R), fmt_total F ->
  dec_safe_schema S OPS ATTRS OBJS = true ->
  forall fuel st t tag c, decodable S t = true -> dec_ty S OPS ATTRS OBJS F fuel st t tag c <> Panic.
Proof. exact dec_ty_never_panics. Qed.
Print Assumptions C02_typed_decoder_never_panics.

(** ... and so do its mutual companions: slices, struct bodies, d.Opt, d.Any on an object *)
Theorem C02_slice_decoder_never_panics : forall S OPS ATTRS OBJS {R} (F : rawfmt R), fmt_total F ->
  dec_safe_schema S OPS ATTRS OBJS = true ->
  forall fuel st t tag c, decodable S t = true -> dec_slice S OPS ATTRS OBJS F fuel st t tag c <> Panic.
Proof. exact dec_slice_never_panics. Qed.
Print Assumptions C02_slice_decoder_never_panics.

Theorem C02_struct_body_never_panics : forall S OPS ATTRS OBJS {R} (F : rawfmt R), fmt_total F ->
  dec_safe_schema S OPS ATTRS OBJS = true ->
  forall fuel st fl c, fields_ok S fl = true -> dec_fields_s S OPS ATTRS OBJS F fuel st fl c <> Panic.
Proof. exact dec_fields_s_never_panics. Qed.
Print Assumptions C02_struct_body_never_panics.

Theorem C02_opt_never_panics : forall S OPS ATTRS OBJS {R} (F : rawfmt R), fmt_total F ->
  dec_safe_schema S OPS ATTRS OBJS = true ->
  forall fuel st t tag c, decodable S t = true -> dec_opt S OPS ATTRS OBJS F fuel st t tag c <> Panic.
Proof. exact dec_opt_never_panics. Qed.
Print Assumptions C02_opt_never_panics.

Theorem C02_object_never_panics : forall S OPS ATTRS OBJS {R} (F : rawfmt R), fmt_total F ->
  dec_safe_schema S OPS ATTRS OBJS = true ->
  forall fuel st ot c, dec_object S OPS ATTRS OBJS F fuel st ot c <> Panic.
Proof. exact dec_object_never_panics. Qed.
Print Assumptions C02_object_never_panics.

(** every hand-written decoder (RequestBatchItem, ResponseBatchItem, Credential, KeyBlock,
    Attribute, Get/Export response, Register/Import request payloads) *)
Theorem C02_hand_written_decoders_never_panic : forall S OPS ATTRS OBJS {R} (F : rawfmt R), fmt_total F ->
  dec_safe_schema S OPS ATTRS OBJS = true ->
  forall f st d tag c, In d S -> t_custom_dec d = true -> is_hand_only (t_name d) = false ->
  dec_custom_of S OPS ATTRS F (dec_ty S OPS ATTRS OBJS F f) (dec_opt S OPS ATTRS OBJS F f)
    (dec_object S OPS ATTRS OBJS F f) (dec_fields F f) st d tag c <> Panic.
Proof. exact dec_custom_never_panics. Qed.
Print Assumptions C02_hand_written_decoders_never_panic.

(** Termination in the model's terms: a value, an error, or the fuel given was not enough
    (every recursive call of the model consumes fuel; there is no other non-result). *)
Theorem C02_typed_decoder_outcomes : forall S OPS ATTRS OBJS {R} (F : rawfmt R), fmt_total F ->
  dec_safe_schema S OPS ATTRS OBJS = true ->
  forall fuel st t tag c, decodable S t = true ->
  (exists r, dec_ty S OPS ATTRS OBJS F fuel st t tag c = Ok r) \/
  dec_ty S OPS ATTRS OBJS F fuel st t tag c = Err \/
  dec_ty S OPS ATTRS OBJS F fuel st t tag c = OutOfFuel.
Proof. exact dec_ty_outcomes. Qed.
Print Assumptions C02_typed_decoder_outcomes.

(** The schema regenerated from the library passes the check; both message roots are
    decodable; the definitions exempted are exactly the five above and no other fails. *)
Theorem C02_kmip_schema_dec_safe : dec_safe_schema kmip_schema kmip_ops kmip_attrs kmip_objs = true.
Proof. exact kmip_schema_dec_safe. Qed.
Print Assumptions C02_kmip_schema_dec_safe.

Theorem C02_kmip_roots_decodable :
  decodable kmip_schema (TNamed "kmip.RequestMessage") = true /\
  decodable kmip_schema (TNamed "kmip.ResponseMessage") = true.
Proof. exact kmip_roots_decodable. Qed.
Print Assumptions C02_kmip_roots_decodable.

Theorem C02_kmip_schema_exempt :
  map t_name (filter (fun d => is_hand_only (t_name d)) kmip_schema) =
    ["kmip.CredentialValue"; "kmip.KeyMaterial"; "kmip.KeyValue"; "kmip.PlainKeyValue"; "kmip.UnknownPayload"]%string
  /\ unsafe_names kmip_schema = [].
Proof. exact kmip_schema_exempt. Qed.
Print Assumptions C02_kmip_schema_exempt.

(** Decoding into any decodable type of the library's schema, over any total format *)
Theorem C02_kmip_dec_never_panics : forall {R} (F : rawfmt R), fmt_total F ->
  forall root c, decodable kmip_schema (TNamed root) = true ->
  String.eqb root "ttlv.Value" = false -> String.eqb root "ttlv.Struct" = false ->
  kmip_dec F root c <> Panic.
Proof. exact (@kmip_dec_never_panics). Qed.
Print Assumptions C02_kmip_dec_never_panics.

(** ttlv.UnmarshalTTLV(bytes, &kmip.RequestMessage{}) / (bytes, &kmip.ResponseMessage{}):
    no panic on ANY byte string *)
Theorem C02_kmip_unmarshal_never_panics : forall root bs,
  (root = "kmip.RequestMessage" \/ root = "kmip.ResponseMessage")%string ->
  bytes_ok bs = true -> kmip_unmarshal root bs <> Panic.
Proof. exact kmip_unmarshal_never_panics. Qed.
Print Assumptions C02_kmip_unmarshal_never_panics.

Theorem C02_kmip_unmarshal_outcomes : forall root bs,
  (root = "kmip.RequestMessage" \/ root = "kmip.ResponseMessage")%string ->
  bytes_ok bs = true ->
  (exists v, kmip_unmarshal root bs = Ok v) \/ kmip_unmarshal root bs = Err \/ kmip_unmarshal root bs = OutOfFuel.
Proof. exact kmip_unmarshal_outcomes. Qed.
Print Assumptions C02_kmip_unmarshal_outcomes.

(** ttlv.UnmarshalXML / ttlv.UnmarshalJSON into a message: no panic on ANY document, for any
    tag / enumeration registry *)
Theorem C02_kmip_unmarshal_xml_never_panics : forall G root doc cut,
  (root = "kmip.RequestMessage" \/ root = "kmip.ResponseMessage")%string ->
  kmip_unmarshal_xml G root doc cut <> Panic.
Proof. exact kmip_unmarshal_xml_never_panics. Qed.
Print Assumptions C02_kmip_unmarshal_xml_never_panics.

Theorem C02_kmip_unmarshal_json_never_panics : forall G root doc,
  (root = "kmip.RequestMessage" \/ root = "kmip.ResponseMessage")%string ->
  kmip_unmarshal_json G root doc <> Panic.
Proof. exact kmip_unmarshal_json_never_panics. Qed.
Print Assumptions C02_kmip_unmarshal_json_never_panics.

(** Non-vacuity: the hypothesis does work.  [bad_schema] has a reflectively decoded struct
    (x.Inner, reached from x.Outer) with a field without tag: the check REJECTS it, and the
    decoder does panic on it, on a well-formed input; with the tag restored ([good_schema])
    the check passes and the same input decodes. *)
Example C02_typed_check_rejects_tagless_field :
  dec_safe_schema bad_schema [] [] [] = false
  /\ decodable bad_schema (TNamed "x.Outer") = true
  /\ (do c <- bin_cursor bad_input ;; dec_ty bad_schema [] [] [] bin_fmt 10 None (TNamed "x.Outer") 4325496 c) = Panic
  /\ (do c <- bin_cursor bad_input_short ;; dec_ty bad_schema [] [] [] bin_fmt 10 None (TNamed "x.Outer") 4325496 c) = Panic
  /\ dec_safe_schema good_schema [] [] [] = true
  /\ (do c <- bin_cursor bad_input ;; dec_ty good_schema [] [] [] bin_fmt 10 None (TNamed "x.Outer") 4325496 c)
     = Ok (VStruct "x.Outer" [VStruct "x.Inner" [VInt 7; VInt 9]], ([], false), None).
Proof. vm_compute. repeat split; reflexivity. Qed.

(** The exemption of the five definitions does work too, and is not a hole: they are NOT
    decodable (so nothing the theorems cover can reach them - the check would fail), and
    handing one of them to the decoder directly does panic in the model, as
    ttlv.UnmarshalTTLV(bytes, &kmip.KeyValue{}) does in Go ("Missing tag for field Wrapped of
    type KeyValue", raised while the struct decoder is built, whatever the input). *)
Example C02_typed_hand_only_types_are_excluded :
  forallb (fun n => negb (decodable kmip_schema (TNamed n))) (hand_only) = true
  /\ (do c <- bin_cursor keyvalue_input ;;
      dec_ty kmip_schema kmip_ops kmip_attrs kmip_objs bin_fmt 10 None (TNamed "kmip.KeyValue") 4325445 c) = Panic.
Proof. vm_compute. split; reflexivity. Qed.
