(** C18 on the executable functions - one hop of whole KMIP messages through
    [kmip_unmarshal] / [kmip_marshal] (both at the fixed fuel FUEL) with COMPUTABLE
    hypotheses.  Statement only; proof in KmipExecHop.v (from KmipOneHop.kmip_message_one_hop,
    EncFuelProofs.v, DecFuelProofs.v, DecTermProofs.v).

    In C18Typed.C18_kmip_message_one_hop the fuel [fe] the encoder needs is existential and
    the conclusions are guarded by [fe <= FUEL] and [fe + 2 * items_size items + 2 <= FUEL].
    Here: for accepted bytes [bs] with decoded message [v],
      - E1 := marshal v is defined as soon as the call chain of [v] fits: vdepth v <= FUEL
        ([vdepth]: EncFuel.v; computable from the decoded message);
      - unmarshal E1 = v1 (a conforming message) as soon as E1 is at most 11775 bytes - no
        encoder-fuel term: the decoder's result does not depend on the fuel once it suffices;
      - marshal v1 = E1 as soon as vdepth v1 <= FUEL (v1 is what unmarshal E1 returned).
    Every guard is a computation on the input, on E1 = marshal (unmarshal bs) or on
    v1 = unmarshal E1. *)
From Coq Require Import ZArith List Bool String.
From KV Require Import Base Wire Cursor Schema SchemaSem Roundtrip DecConfDefs KmipCodec EncFuel KmipExecHop.
From KVGen Require Import KmipSchema.
Import ListNotations.
Open Scope Z_scope.

Theorem C18_kmip_one_hop_exec : forall root d bs v,
  (root = "kmip.RequestMessage" \/ root = "kmip.ResponseMessage")%string ->
  find_tdef kmip_schema root = Some d -> ty_ok kmip_schema (TNamed root) (t_deftag d) = true ->
  bytes_ok bs = true -> kmip_unmarshal root bs = Ok v ->
  (vdepth v <= FUEL)%nat ->
  exists e1 v1,
    kmip_marshal root v = Ok e1 /\
    (exists fc sc, conf_ty kmip_schema kmip_ops kmip_attrs kmip_objs fc None (TNamed root) (t_deftag d) v1 = Some sc) /\
    (len e1 <= 11775 -> kmip_unmarshal root e1 = Ok v1) /\
    ((vdepth v1 <= FUEL)%nat -> kmip_marshal root v1 = Ok e1).
Proof. exact kmip_one_hop_exec. Qed.
Print Assumptions C18_kmip_one_hop_exec.

(** Non-vacuity: the foreign request of C18Typed.v (explicit zero MaximumResponseSize, a 1.2
    element under version 1.0, an unknown trailing element, an unregistered operation, an
    explicit empty UniqueBatchItemID) satisfies every hypothesis and every guard by computation. *)
Definition C18_exec_request : list item :=
  [IStruct 4325496
     [IStruct 4325495
        [IStruct 4325481 [IInt 4325482 1; IInt 4325483 0];
         IInt 4325456 0;
         IBool 4325587 true;
         IInt 4325389 1;
         IInt 4325000 5];
      IStruct 4325391
        [IEnum 4325468 0 99;
         IBytes 4325523 [];
         IStruct 4325497 [IInt 4325500 7]]]].

Example C18_exec_example :
  let root := "kmip.RequestMessage"%string in
  let bs := wire_enc_list C18_exec_request in
  exists d v e1 v1,
    find_tdef kmip_schema root = Some d /\ ty_ok kmip_schema (TNamed root) (t_deftag d) = true /\
    bytes_ok bs = true /\ kmip_unmarshal root bs = Ok v /\ (vdepth v <=? FUEL)%nat = true /\
    kmip_marshal root v = Ok e1 /\ (len e1 <=? 11775) = true /\
    kmip_unmarshal root e1 = Ok v1 /\ (vdepth v1 <=? FUEL)%nat = true /\ kmip_marshal root v1 = Ok e1.
Proof.
  cbv zeta. do 4 eexists.
  split; [vm_compute; reflexivity|]. split; [vm_compute; reflexivity|]. split; [vm_compute; reflexivity|].
  split; [vm_compute; reflexivity|]. split; [vm_compute; reflexivity|]. split; [vm_compute; reflexivity|].
  split; [vm_compute; reflexivity|]. split; [vm_compute; reflexivity|]. split; vm_compute; reflexivity.
Qed.
