From Coq Require Import ZArith List.
From KV Require Import Base Stream StreamProofs.
Theorem C07_stub : True. Proof. exact stub_true. Qed.
Print Assumptions C07_stub.
