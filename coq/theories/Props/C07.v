(** C07 — stream framing is independent of how the transport chunks bytes.
    Statements only; proofs are in StreamProofs.v, the model in Stream.v.

    Vocabulary (Stream.v): a transport [mkTr rest end sched] holds the bytes [rest] still
    to be delivered, reports the error [end] once drained and answers the successive Read
    calls as [sched] says ([Chunk k attach]: at most k bytes, the end error together with
    the last bytes when [attach]; [Fault k e]: at most k bytes together with error e;
    [Chunk 0 _] is a (0, nil) read); [faithful sched]: every answer delivers at least one
    byte and no error comes before the stream is drained.  [recv M um W max t] is one
    [Stream.Recv] call ([um] = UnmarshalTTLV, [W] = bits of Go's int, [max] = Stream.max);
    [is_frame f]: [f] is exactly one TTLV item on the wire (KMIP 9.1). *)
From Coq Require Import ZArith List Bool.
From KV Require Import Base Stream StreamProofs.
Import ListNotations.
Open Scope Z_scope.

(* [W] is the width of Go's int (64 on amd64/arm64 - the platform of the correspondence check -, 32 on
   386/arm); a message must be addressable: [len f + 8 <= max_int W], which every TTLV item is when
   W = 64 (C07_frames_fit_64). *)

(* Every sequence of messages, every faithful chunking (1-byte reads, coalesced reads, the end
   error together with the last bytes), whatever follows the messages on the stream: exactly
   the sent messages in order, exactly the bytes of each message consumed by its Recv, the
   rest of the stream untouched. *)
Theorem C07_exact_delivery :
  forall (M : Type) (um : list Z -> res M) (W max : Z), 0 < W ->
  forall (frames : list (list Z)) (tail : list Z) (t : tr),
  Forall is_frame frames -> Forall (fun f => len f + 8 <= max_int W) frames ->
  (0 < max -> Forall (fun f => len f <= max) frames) ->
  faithful (t_sched t) -> t_rest t = concat frames ++ tail ->
  let rs := recv_n M um W max (length frames) t in
  map r_out rs = map (fun f => RMsg (um f)) frames /\
  map consumed rs = map len frames /\
  map (fun r => t_rest (r_tr r)) rs = tails frames tail /\
  t_rest (last_tr t rs) = tail /\ faithful (t_sched (last_tr t rs)) /\ t_end (last_tr t rs) = t_end t.
Proof. exact recv_exact. Qed.
Print Assumptions C07_exact_delivery.

Theorem C07_frames_fit_64 : forall f, is_frame f -> len f + 8 <= max_int 64.
Proof. exact frame_fits_64. Qed.
Print Assumptions C07_frames_fit_64.

(* ... and when the stream then ends, cleanly or inside a message, the next Recv returns the
   transport's end error, not a message. *)
Theorem C07_messages_then_end_error :
  forall (M : Type) (um : list Z -> res M) (W max : Z), 0 < W ->
  forall (frames : list (list Z)) (p : list Z) (t : tr),
  Forall is_frame frames -> Forall (fun f => len f + 8 <= max_int W) frames ->
  (0 < max -> Forall (fun f => len f <= max) frames) ->
  (p = [] \/ exists f q, is_frame f /\ f = p ++ q /\ q <> [] /\ len f + 8 <= max_int W /\ (0 < max -> len f <= max)) ->
  faithful (t_sched t) -> t_rest t = concat frames ++ p ->
  map r_out (recv_n M um W max (S (length frames)) t) = map (fun f => RMsg (um f)) frames ++ [RErr (t_end t)].
Proof. exact recv_truncated. Qed.
Print Assumptions C07_messages_then_end_error.

(* A stream that ends inside a message never yields a message, whatever the transport answers
   (arbitrary chunk sizes, (0,nil) reads, errors at any point). *)
Theorem C07_truncated_never_a_message :
  forall (M : Type) (um : list Z -> res M) (W max : Z), 0 < W ->
  forall (p : list Z) (t : tr),
  is_cut_frame p -> t_rest t = p ->
  (forall x, r_out (recv M um W max t) <> RMsg x) /\
  r_out (recv M um W max t) <> RPanic /\ r_out (recv M um W max t) <> RFuel.
Proof. exact recv_cut_any. Qed.
Print Assumptions C07_truncated_never_a_message.

(* ... and with a faithful transport it yields an error: the end error, or "too big" when the
   cut message announces more than the limit (or than an int can hold). *)
Theorem C07_truncated_is_an_error :
  forall (M : Type) (um : list Z -> res M) (W max : Z), 0 < W ->
  forall (p : list Z) (t : tr),
  is_cut_frame p -> (0 < max -> 8 <= max) -> faithful (t_sched t) -> t_rest t = p ->
  r_out (recv M um W max t) = RErr (t_end t) \/ r_out (recv M um W max t) = RTooBig.
Proof. exact recv_cut. Qed.
Print Assumptions C07_truncated_is_an_error.

(* Whatever the transport answers: every Read request asks for exactly what is missing of the
   header, then of the message ([trace_ok]: never nothing, never more); the bytes taken from
   the transport are a prefix of the current message; a returned message is that message and
   leaves exactly the following bytes in the transport. *)
Theorem C07_never_reads_beyond_the_message :
  forall (M : Type) (um : list Z -> res M) (W max : Z), 0 < W ->
  forall (f tail : list Z) (t : tr),
  is_frame f -> len f + 8 <= max_int W -> t_rest t = f ++ tail ->
  let r := recv M um W max t in
  r_out r <> RPanic /\
  trace_ok (len f) 0 (r_trace r) /\
  (exists p, f ++ tail = p ++ t_rest (r_tr r) /\ consumed r = len p /\ len p <= len f) /\
  (forall x, r_out r = RMsg x -> x = um f /\ t_rest (r_tr r) = tail /\ consumed r = len f).
Proof. exact recv_no_overread. Qed.
Print Assumptions C07_never_reads_beyond_the_message.

(* A header announcing more than the configured maximum (or more than an int can hold, limit or not),
   whatever the transport answers: never accepted, the receive buffer keeps its initial 512 bytes,
   at most the 8 header bytes are consumed. *)
Theorem C07_oversize_never_buffered :
  forall (M : Type) (um : list Z -> res M) (W max : Z), 0 < W ->
  forall (h : list Z) (total : Z) (z : list Z) (t : tr),
  is_header h total -> (0 < max < total \/ max_int W < total) -> t_rest t = h ++ z ->
  let r := recv M um W max t in
  (forall x, r_out r <> RMsg x) /\ r_out r <> RPanic /\ r_out r <> RFuel /\
  r_cap r = 512 /\ consumed r <= 8.
Proof. exact recv_oversize_any. Qed.
Print Assumptions C07_oversize_never_buffered.

(* ... and with a faithful transport it is rejected as too big. *)
Theorem C07_oversize_rejected :
  forall (M : Type) (um : list Z -> res M) (W max : Z), 0 < W ->
  forall (h : list Z) (total : Z) (z : list Z) (t : tr),
  is_header h total -> (0 < max < total \/ max_int W < total) -> (0 < max -> 8 <= max) ->
  faithful (t_sched t) -> t_rest t = h ++ z ->
  r_out (recv M um W max t) = RTooBig.
Proof. exact recv_oversize_faithful. Qed.
Print Assumptions C07_oversize_rejected.

(* Arbitrary bytes, arbitrary transport: Recv neither panics nor loops, never asks for a buffer
   larger than max(512, limit), never consumes more than the announced size. *)
Theorem C07_any_bytes_any_transport :
  forall (M : Type) (um : list Z -> res M) (W max : Z), 0 < W ->
  forall (t : tr),
  bytes_ok (t_rest t) = true ->
  let r := recv M um W max t in
  r_out r <> RPanic /\ r_out r <> RFuel /\
  (0 < max -> r_cap r <= Z.max 512 max) /\
  r_cap r <= Z.max 512 (announced W (t_rest t)) /\
  consumed r <= Z.max 8 (announced W (t_rest t)) /\ consumed r <= len (t_rest t).
Proof. exact recv_bytes_any. Qed.
Print Assumptions C07_any_bytes_any_transport.

(* The size computed from a header never wraps around: -1 (unaddressable) or within [8, MaxInt]. *)
Theorem C07_announced_size_in_range :
  forall (W : Z) (D : list Z), 0 < W -> bytes_ok D = true ->
  announced W D = -1 \/ 8 <= announced W D <= Z.max 8 (max_int W).
Proof. exact announced_range. Qed.
Print Assumptions C07_announced_size_in_range.

(* The fuel of the model suffices whatever the stream, the transport and the width of int. *)
Theorem C07_recv_terminates :
  forall (M : Type) (um : list Z -> res M) (W max : Z) (t : tr), r_out (recv M um W max t) <> RFuel.
Proof. exact recv_terminates. Qed.
Print Assumptions C07_recv_terminates.

(* ---- non-vacuity: the hypotheses are met by concrete streams and schedules *)
Example C07_nonvacuous_exact :
  Forall is_frame [ex_f1; ex_f2; ex_f3] /\ faithful ex_sched_bytewise /\ faithful ex_sched_coalesced /\
  map r_out (recv_n (list Z) Ok 64 1048576 4 (mkTr (ex_f1 ++ ex_f2 ++ ex_f3) 0 ex_sched_bytewise))
    = [RMsg (Ok ex_f1); RMsg (Ok ex_f2); RMsg (Ok ex_f3); RErr 0] /\
  map r_out (recv_n (list Z) Ok 64 0 4 (mkTr (ex_f1 ++ ex_f2 ++ ex_f3) 7 ex_sched_coalesced))
    = [RMsg (Ok ex_f1); RMsg (Ok ex_f2); RMsg (Ok ex_f3); RErr 7].
Proof.
  exact (conj (Forall_cons _ ex_f1_frame (Forall_cons _ ex_f2_frame (Forall_cons _ ex_f3_frame (Forall_nil _))))
        (conj ex_faithful_bytewise (conj ex_faithful_coalesced (conj ex_exact_bytewise ex_exact_coalesced)))).
Qed.

Example C07_nonvacuous_truncated :
  is_cut_frame (firstn 13 ex_f3) /\
  map r_out (recv_n (list Z) Ok 64 1048576 3 (mkTr (ex_f1 ++ ex_f2 ++ firstn 13 ex_f3) 0 ex_sched_bytewise))
    = [RMsg (Ok ex_f1); RMsg (Ok ex_f2); RErr 0].
Proof. exact (conj ex_cut ex_truncated). Qed.

Example C07_nonvacuous_oversize :
  is_header hdr_ffffffff (2 ^ 32 + 8) /\
  (let r := recv (list Z) Ok 64 1048576 (mkTr (hdr_ffffffff ++ zeros 64) 0 ex_sched_bytewise) in
   r_out r = RTooBig /\ r_cap r = 512 /\ consumed r = 8) /\
  r_cap (recv (list Z) Ok 64 (-1) (mkTr (hdr_ffffffff ++ zeros 64) 0 [])) = 2 ^ 32 + 8.
Proof. exact (conj hdr_ffffffff_is_header (conj ex_oversize ex_no_limit_grows)). Qed.

(* 32-bit int: the headers that used to wrap around are refused, with or without a limit *)
Example C07_nonvacuous_int32 :
  forall (M : Type) (um : list Z -> res M),
  is_header hdr_ffffffff (2 ^ 32 + 8) /\ is_header hdr_80000000 (2 ^ 31 + 8) /\ max_int 32 < 2 ^ 31 + 8 /\
  r_out (recv M um 32 1048576 (mkTr (hdr_ffffffff ++ zeros 64) 0 [])) = RTooBig /\
  r_out (recv M um 32 1048576 (mkTr (hdr_80000000 ++ zeros 64) 0 [])) = RTooBig /\
  r_out (recv M um 32 (-1) (mkTr (hdr_ffffffff ++ zeros 64) 0 [])) = RTooBig /\
  r_cap (recv M um 32 (-1) (mkTr (hdr_80000000 ++ zeros 64) 0 [])) = 512.
Proof.
  intros M um. exact (conj hdr_ffffffff_is_header (conj hdr_80000000_is_header (conj eq_refl (ex_int32_rejected M um)))).
Qed.
