(** C11 - the client survives connection faults at every point of an exchange.
    Statements only; proofs are in ConnClientProofs.v / ConnClientCert.v.

    Same system as C10 (concrete instance of ConnClient.v).  The environment may, at any step:
    fail the read readloop is blocked in or the write writeloop is performing (kinds: io.EOF /
    io.ErrClosedPipe, an error wrapping net.ErrClosed, anything else), fail or complete a dial,
    cancel the caller's context, have another goroutine call Client.Close(), start the next call.
    Sub-relations: [cstepF] = every step but the start of a new call / a new Close; [cstepQ] = the
    steps goroutines can make by themselves (nothing from the transport, the server, the contexts);
    [cstepG] = steps in a benign environment, cut where doRountrip returns; [costep'] = steps of a
    connection abandoned by reconnect. *)
From Coq Require Import List Arith.
From KV Require Import Lts ConnClient ConnClientProofs.
Import ListNotations.

(* never panics: neither the caller (nil c.conn in doRountrip) nor Client.Close (nil c.conn) *)
Theorem C11_no_panic : forall s,
  reachable cstep' cinit s -> u nat nat s <> UPanic /\ cl nat nat s <> CPanic.
Proof. exact cli_no_panic. Qed.
Print Assumptions C11_no_panic.

(* never hangs, part 1: without new calls and new Close invocations every execution is finite
   (at most 127 steps): no livelock, no unbounded retrying *)
Theorem C11_terminates : forall s p,
  reachable cstep' cinit s -> path cstepF s p -> length p <= 127.
Proof. exact cli_terminates. Qed.
Print Assumptions C11_terminates.

(* never hangs, part 2, and leaves no goroutine behind: whenever no goroutine can move by itself,
   [quiescent_ok]: no Close is in progress; a caller, if any, is in the inner select of send with
   writeloop inside Send, or in the select of recv, on a connection in service with both loops
   parked and its own context not done (it waits for the transport only); the connection is either
   in service with both loops parked or terminated with BOTH LOOPS FINISHED and the stream closed;
   and it is the latter whenever the client has been closed *)
Theorem C11_no_deadlock_no_leak : forall s,
  reachable cstep' cinit s -> cstepQ s = [] -> quiescent_ok nat nat s = true.
Proof. exact cli_no_deadlock. Qed.
Print Assumptions C11_no_deadlock_no_leak.

(* a connection abandoned by reconnect winds up by itself, whatever its transport does *)
Theorem C11_orphan_winds_up : forall s o p,
  reachable cstep' cinit s -> u nat nat s = R3 ->
  reachable costep' (orphan_of nat nat s) o -> path costep' o p ->
  length p <= 40 /\ (costep' o = [] -> orphan_gone nat o = true).
Proof. exact cli_orphan_winds_up. Qed.
Print Assumptions C11_orphan_winds_up.

(* a single call transmits its request at most four times *)
Theorem C11_retry_bound : forall s,
  reachable cstep' cinit s -> ntx nat nat s <= 4.
Proof. exact cli_retry_bound. Qed.
Print Assumptions C11_retry_bound.

(* once Client.Close() has set the closed flag, a call that starts afterwards only ever fails *)
Theorem C11_closed_fails : forall s,
  reachable cstep' cinit s -> after_close nat nat s = true -> u nat nat s = U0 \/ u nat nat s = URetErr.
Proof. exact cli_closed_fails. Qed.
Print Assumptions C11_closed_fails.

(* recovery: whatever happened before, a call that starts on a client at rest (not closed, nobody
   holds the lock, no goroutine able to move by itself) in a benign environment reaches the return
   of doRountrip within 24 steps on every interleaving, and returns the response *)
Theorem C11_recovers : forall s0 p,
  reachable cstep' cinit s0 ->
  u nat nat s0 = UIdle -> ccl nat nat s0 = false -> cstepQ s0 = [] ->
  let s := new_call nat nat (fun t => t) S s0 false in
  path cstepG s p ->
  length p <= 24 /\ (cstepG (last p s) = [] -> u nat nat (last p s) = URetOk).
Proof. exact cli_recovers. Qed.
Print Assumptions C11_recovers.

(* a returned response is the complete response of the server to this call's own request *)
Theorem C11_result_sound : forall s r,
  reachable cstep' cinit s -> got nat nat s = Some r -> r = callno nat nat s.
Proof. exact own_response. Qed.
Print Assumptions C11_result_sound.

(* Non-vacuity.  (1) After a first call failed on a reset connection (failure kind "other": not
   retried), the client is at rest with a terminated connection; the hypotheses of C11_recovers
   hold there.  (2) A state where reconnect abandons a connection (R3).  (3) A call started after
   Close.  (4) A caller waiting for its response with nothing able to move. *)
Definition l_fault (l : label) := match l with LSrv (SFault KOther) => true | _ => false end.
Definition C11_script_rest : list (label -> bool) :=
  [l_rl; l_wl;
   l_new; l_u; l_u; l_u; l_u; l_u; l_wl; l_wl; l_u; l_u; l_u; l_fault;
   l_rl; l_u; l_rl; l_rl; l_wl; l_wl; l_ret].

Example C11_nonvacuous_rest : exists s0,
  reachable cstep' cinit s0 /\ u nat nat s0 = UIdle /\ ccl nat nat s0 = false /\ cstepQ s0 = []
  /\ conn_gone nat (cn nat nat s0) = true.
Proof.
  destruct (follow C11_script_rest cinit) as [s|] eqn:E; [|vm_compute in E; discriminate].
  exists s. split; [eapply follow_reachable; [apply reach_init | exact E]|].
  vm_compute in E. injection E as <-. repeat split.
Qed.

Example C11_nonvacuous_R3 : exists s, reachable cstep' cinit s /\ u nat nat s = R3.
Proof.
  destruct (follow (C11_script_rest ++ [l_new; l_u; l_u; l_u; l_u; l_u]) cinit) as [s|] eqn:E; [|vm_compute in E; discriminate].
  exists s. split; [eapply follow_reachable; [apply reach_init | exact E]|].
  vm_compute in E. injection E as <-. reflexivity.
Qed.

Example C11_nonvacuous_closed : exists s, reachable cstep' cinit s /\ after_close nat nat s = true.
Proof.
  destruct (follow [l_close; l_cl; l_new] cinit) as [s|] eqn:E; [|vm_compute in E; discriminate].
  exists s. split; [eapply follow_reachable; [apply reach_init | exact E]|].
  vm_compute in E. injection E as <-. reflexivity.
Qed.

Example C11_nonvacuous_waiting : exists s,
  reachable cstep' cinit s /\ cstepQ s = [] /\ u nat nat s = V2.
Proof.
  destruct (follow [l_rl; l_wl; l_new; l_u; l_u; l_u; l_u; l_u; l_wl; l_wl; l_wl; l_u; l_u; l_u] cinit) as [s|] eqn:E;
    [|vm_compute in E; discriminate].
  exists s. split; [eapply follow_reachable; [apply reach_init | exact E]|].
  vm_compute in E. injection E as <-. split; reflexivity.
Qed.
