(** C19 — middleware chains run in order and are re-entrant.
    Statements only; the model is Chain.v (+ the stage syntax of ChainSyn.v), the proofs
    are in ChainProofs.v.

    Vocabulary (Chain.v).  A middleware ([stage]) is a function from the context and
    message it receives to a program [prog]: [Ret r] | [Call c m k] (call the continuation
    with context c and message m, go on with [k] applied to what it returned) | [Get k] /
    [Put s k] (mutable state) | [Crash] (panic).  [run_spec stages core] is the property:
    the continuation of the middleware registered at position i runs, on EVERY invocation,
    the middlewares i+1, i+2, ... and then [core].  [run_impl_client], [run_impl_server],
    [run_impl_item] transcribe Client.Roundtrip, BatchExecutor.HandleRequest and
    BatchExecutor.executeItemWithMiddleware (slice indexing = [nth_error] with [Panic],
    recursion on fuel with [OutOfFuel]).  A run yields (outcome, final state, call trace). *)
From Coq Require Import List Bool Arith.
From KV Require Import Base Chain ChainSyn Lts ChainProofs.
Import ListNotations.

(** ** The three chains compute the reference semantics: every chain length, every
    middleware program (any number of continuation calls, any substituted context or
    message, any use of what the calls returned, shared mutable state, panics), every
    innermost handler, every initial state. *)
Theorem C19_client_chain_correct :
  forall (C M R St : Type) (stages : list (stage C M R St)) (core : C -> M -> St -> res R * St)
         (ctx : C) (msg : M) (s : St),
    run_impl_client stages core ctx msg s = run_spec stages core ctx msg s.
Proof. exact client_chain_correct. Qed.
Print Assumptions C19_client_chain_correct.

Theorem C19_server_chain_correct :
  forall (C M St P E : Type) (new_batch_ctx : C -> M -> C) (message_error : C -> M -> E -> P)
         (stages : list (stage C M (gores P E) St)) (core : C -> M -> St -> res (gores P E) * St)
         (ctx : C) (req : M) (s : St),
    run_impl_server new_batch_ctx message_error stages core ctx req s
    = run_spec_server new_batch_ctx message_error stages core ctx req s.
Proof. exact server_chain_correct. Qed.
Print Assumptions C19_server_chain_correct.

Theorem C19_item_chain_correct :
  forall (C M St P E : Type) (item_for : M -> P) (item_error : P -> E -> P) (err_no_response : E)
         (stages : list (stage C M (gores P E) St)) (core : C -> M -> St -> res (gores P E) * St)
         (ctx : C) (bi : M) (s : St),
    run_impl_item item_for item_error err_no_response stages core ctx bi s
    = run_spec_item item_for item_error err_no_response stages core ctx bi s.
Proof. exact item_chain_correct. Qed.
Print Assumptions C19_item_chain_correct.

(** every item of a batch gets the whole chain again *)
Theorem C19_batch_items_correct :
  forall (C M St P E : Type) (item_for : M -> P) (item_error : P -> E -> P) (err_no_response : E)
         (stages : list (stage C M (gores P E) St)) (core : C -> M -> St -> res (gores P E) * St)
         (ctx : C) (items : list M) (s : St),
    run_items (run_impl_item item_for item_error err_no_response stages core) ctx items s
    = run_items (run_spec_item item_for item_error err_no_response stages core) ctx items s.
Proof. exact batch_items_correct. Qed.
Print Assumptions C19_batch_items_correct.

(** ** The chain code itself never fails: the fuel of the model always suffices and the
    slice index is always in range; the only panics are those of a middleware or of the
    innermost handler. *)
Theorem C19_chains_total :
  forall (C M St P E : Type) (nbc : C -> M -> C) (me : C -> M -> E -> P)
         (itf : M -> P) (ie : P -> E -> P) (en : E)
         (stages : list (stage C M (gores P E) St)) (core : C -> M -> St -> res (gores P E) * St)
         (ctx : C) (msg : M) (s : St),
    returns_or_panics core ->
    match fst (fst (run_impl_client stages core ctx msg s)) with Ok _ => True | Panic => True | _ => False end /\
    match fst (fst (run_impl_server nbc me stages core ctx msg s)) with Ok _ => True | Panic => True | _ => False end /\
    match fst (fst (run_impl_item itf ie en stages core ctx msg s)) with Ok _ => True | Panic => True | _ => False end.
Proof. exact chains_total. Qed.
Print Assumptions C19_chains_total.

Theorem C19_chains_never_panic_by_themselves :
  forall (C M St P E : Type) (nbc : C -> M -> C) (me : C -> M -> E -> P)
         (itf : M -> P) (ie : P -> E -> P) (en : E)
         (stages : list (stage C M (gores P E) St)) (core : C -> M -> St -> res (gores P E) * St)
         (ctx : C) (msg : M) (s : St),
    Forall (fun st => forall c m, crash_free (st c m)) stages ->
    (forall c m s, exists r, fst (core c m s) = Ok r) ->
    (exists r, fst (fst (run_impl_client stages core ctx msg s)) = Ok r) /\
    (exists r, fst (fst (run_impl_server nbc me stages core ctx msg s)) = Ok r) /\
    (exists r, fst (fst (run_impl_item itf ie en stages core ctx msg s)) = Ok r).
Proof. exact chains_never_panic_by_themselves. Qed.
Print Assumptions C19_chains_never_panic_by_themselves.

(** whatever pair (response, error) the batch-item chain returns - (nil, err) and
    (nil, nil) included - the tail of executeItemWithMiddleware yields a response item *)
Theorem C19_item_result_never_nil_deref :
  forall (M P E : Type) (item_for : M -> P) (item_error : P -> E -> P) (err_no_response : E)
         (bi : M) (r : gores P E),
    exists p, execute_item_result item_for item_error err_no_response bi (Ok r) = Ok p.
Proof. exact execute_item_result_total. Qed.
Print Assumptions C19_item_result_never_nil_deref.

(** ** Every invocation of the continuation runs the remainder of the chain exactly once.
    In the trace of a request that returned, for a chain of n middlewares
    ([starts n k] = "position k starts": middleware k is entered, or for k = n the
    innermost handler is invoked):
    position 0 starts once; the number of times position j+1 starts equals the number of
    continuation calls completed by middleware j; every middleware entered returned. *)
Theorem C19_each_call_runs_the_rest_once :
  forall (C M R St : Type) (stages : list (stage C M R St)) (core : C -> M -> St -> res R * St)
         (ctx : C) (msg : M) (s : St) (r : R) (s' : St) (t : list (event C M R)),
    run_impl_client stages core ctx msg s = (Ok r, s', t) ->
    let n := length stages in
    count (starts n 0) t = 1 /\
    (forall j, j < n -> count (starts n (S j)) t = count (is_back j) t) /\
    (forall j, count (is_enter j) t = count (is_ret j) t).
Proof. exact each_call_runs_the_rest_once. Qed.
Print Assumptions C19_each_call_runs_the_rest_once.

(** the same for the two server chains (their result is wrapped, the trace is the chain's) *)
Theorem C19_each_call_runs_the_rest_once_server :
  forall (C M St P E : Type) (nbc : C -> M -> C) (me : C -> M -> E -> P)
         (itf : M -> P) (ie : P -> E -> P) (en : E)
         (stages : list (stage C M (gores P E) St)) (core : C -> M -> St -> res (gores P E) * St)
         (ctx : C) (msg : M) (s : St),
    let n := length stages in
    let balanced (t : list (event C M (gores P E))) :=
      count (starts n 0) t = 1 /\
      (forall j, j < n -> count (starts n (S j)) t = count (is_back j) t) /\
      (forall j, count (is_enter j) t = count (is_ret j) t) in
    (forall x, fst (fst (run_impl_server nbc me stages core ctx msg s)) = Ok x ->
       balanced (snd (run_impl_server nbc me stages core ctx msg s))) /\
    (forall x, fst (fst (run_impl_item itf ie en stages core ctx msg s)) = Ok x ->
       balanced (snd (run_impl_item itf ie en stages core ctx msg s))).
Proof. exact each_call_runs_the_rest_once_server. Qed.
Print Assumptions C19_each_call_runs_the_rest_once_server.

(** retry / short-circuit arithmetic: if every invocation of middleware i makes exactly
    n_i continuation calls, position j starts n_0 * ... * n_(j-1) times; in particular the
    innermost handler runs n_0 * ... * n_(n-1) times (0 as soon as one middleware
    short-circuits, 2 * ... when one retries). *)
Theorem C19_executions_are_the_product_of_call_counts :
  forall (C M R St : Type) (stages : list (stage C M R St)) (ns : list nat)
         (core : C -> M -> St -> res R * St),
    Forall2 (fun st k => forall c m, calls_exactly k (st c m)) stages ns ->
    (forall c m s, exists r, fst (core c m s) = Ok r) ->
    forall j, j <= length stages ->
    forall ctx msg s, exists r s' t,
      run_impl_client stages core ctx msg s = (Ok r, s', t) /\
      count (starts (length stages) j) t = product (firstn j ns).
Proof. exact executions_are_the_product_of_call_counts. Qed.
Print Assumptions C19_executions_are_the_product_of_call_counts.

(** ** Concurrent requests sharing the chain.  [step1] is one step of a request in
    flight (its control, its stack of suspended middlewares each remembering its own
    position, its state); [par_steps] lets any one of the requests in flight take a step.
    Whatever the interleaving (any reachable state, any number of steps), a finished
    request delivered what the reference semantics says for that request alone: there is
    no chain state shared between requests or between invocations. *)
Theorem C19_concurrent_requests_independent :
  forall (C M R St : Type) (stages : list (stage C M R St)) (core : C -> M -> St -> res R * St)
         (reqs : list (C * M * St)) (ks : list (cfg C M R St)),
    returns_or_panics core ->
    reachable (par_steps stages core)
              (map (fun q => start stages core (fst (fst q)) (snd (fst q)) (snd q)) reqs) ks ->
    forall j q k out,
      nth_error reqs j = Some q -> nth_error ks j = Some k -> outcome_of k = Some out ->
      out = run_spec stages core (fst (fst q)) (snd (fst q)) (snd q).
Proof. exact concurrent_requests_independent. Qed.
Print Assumptions C19_concurrent_requests_independent.

(** and every request can always go on until it has finished, alone or interleaved *)
Theorem C19_requests_terminate_and_never_block :
  forall (C M R St : Type) (stages : list (stage C M R St)) (core : C -> M -> St -> res R * St),
    returns_or_panics core ->
    (forall ctx msg s, exists n,
        outcome_of (run_steps stages core n (start stages core ctx msg s)) = Some (run_spec stages core ctx msg s)) /\
    (forall (ks : list (cfg C M R St)) j k,
        nth_error ks j = Some k -> outcome_of k = None -> par_steps stages core ks <> []).
Proof. exact requests_terminate_and_never_block. Qed.
Print Assumptions C19_requests_terminate_and_never_block.

(** ** The generated cases of the correspondence check are instances: for every chain of
    the stage syntax, of any length, code model = reference semantics. *)
Theorem C19_generated_cases_agree :
  (forall chain c m, c_run_client true chain c m = c_run_client false chain c m) /\
  (forall chain script c m, c_run_server true chain script c m = c_run_server false chain script c m) /\
  (forall chain script c items, c_run_items true chain script c items = c_run_items false chain script c items) /\
  (forall mchain ichain script c m, c_run_nested true mchain ichain script c m = c_run_nested false mchain ichain script c m).
Proof. exact generated_cases_agree. Qed.
Print Assumptions C19_generated_cases_agree.

(** ** The property is discriminating: the code as it was before the fix: commits
    (one cursor shared by all invocations; the server passing on the outer request;
    the unguarded dereference of the batch-item response) violates it. *)
Theorem C19_shared_cursor_refuted :
  let t_cursor := snd (run_cursor true [w_retry; w_pass] w_core tt 5 tt) in
  let t_spec := snd (run_spec [w_retry; w_pass] w_core tt 5 tt) in
  count (is_back 0) t_cursor = 2 /\ count (is_enter 1) t_cursor = 1 /\
  count (is_back 0) t_spec = 2 /\ count (is_enter 1) t_spec = 2 /\
  run_cursor true [w_retry; w_pass] w_core tt 5 tt <> run_spec [w_retry; w_pass] w_core tt 5 tt.
Proof. exact shared_cursor_refuted. Qed.
Print Assumptions C19_shared_cursor_refuted.

Theorem C19_server_dropped_message_refuted :
  snd (run_cursor false [w_subst] w_core tt 5 tt) = [EvEnter 0 tt 5; EvCore tt 5; EvBack 0 5; EvRet 0 5] /\
  snd (run_spec [w_subst] w_core tt 5 tt) = [EvEnter 0 tt 5; EvCore tt 105; EvBack 0 105; EvRet 0 105].
Proof. exact server_message_refuted. Qed.
Print Assumptions C19_server_dropped_message_refuted.

Theorem C19_unguarded_nil_response_refuted :
  forall (M P E : Type) (item_error : P -> E -> P) (bi : M) (e : E),
    execute_item_result_unguarded item_error bi (Ok (None, Some e)) = Panic.
Proof. exact unguarded_item_result_panics. Qed.
Print Assumptions C19_unguarded_nil_response_refuted.

(** ** Non-vacuity: the retry middleware of the README in front of a pass-through one;
    both continuation calls run the inner middleware and the handler. *)
Example C19_nonvacuous_retry :
  run_impl_client [w_retry; w_pass] w_core tt 5 tt =
  (Ok 5, tt, [EvEnter 0 tt 5; EvEnter 1 tt 5; EvCore tt 5; EvBack 1 5; EvRet 1 5; EvBack 0 5;
              EvEnter 1 tt 5; EvCore tt 5; EvBack 1 5; EvRet 1 5; EvBack 0 5; EvRet 0 5]).
Proof. exact retry_example. Qed.

Example C19_nonvacuous_product :
  Forall2 (fun st k => forall c m, calls_exactly k (st c m)) [w_retry; w_pass] [2; 1] /\
  (forall c m s, exists r, fst (w_core c m s) = Ok r) /\ returns_or_panics w_core /\
  product (firstn 2 [2; 1]) = 2.
Proof. exact product_example. Qed.
