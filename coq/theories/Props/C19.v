From KV Require Import Base Chain ChainProofs.
Example C19_placeholder : True. Proof. exact I. Qed.
