From Coq Require Import ZArith List.
From KV Require Import Negotiate Batch BatchProofs.
Import ListNotations.
Theorem C09_tmp : True. Proof. exact placeholder_true. Qed.
Print Assumptions C09_tmp.
