(** C09 — server batch execution follows KMIP batch semantics.
    Statements only; proofs are in BatchProofs.v.  The model is Batch.v:
    [run (handle_request cfg parent (Some req)) h] is the execution of
    BatchExecutor.HandleRequest on request [req], in a context [parent], on any heap [h] of
    placeholder cells; [cfg] holds the supported versions, the routing table and the handlers
    (arbitrary programs over the context accessors, which may return, fail or panic).
    It yields the response and the ghost log; [calls log] lists the positions of the items whose
    handler was invoked, in invocation order; [rets log] what those handlers did.
    All statements hold for batches of any length and arbitrary handlers. *)
From Coq Require Import ZArith List Sorted.
From KV Require Import Negotiate Batch BatchProofs.
Import ListNotations.
Open Scope Z_scope.

(* a handler's panic never escapes: every request gets a response *)
Theorem C09_total : forall cfg parent req h,
  exists resp h' log, run (handle_request cfg parent (Some req)) h = Done resp h' log.
Proof. exact batch_total. Qed.
Print Assumptions C09_total.

(* one response item per request item, in order, echoing operation and unique batch item ID;
   batch count = number of items; the request's protocol version *)
Theorem C09_shape : forall cfg parent req h resp h' log,
  vmem (h_ver (r_hdr req)) (supported cfg) = true ->
  h_opt (r_hdr req) <> OptUndo ->
  h_count (r_hdr req) = Z.of_nat (length (r_items req)) ->
  run (handle_request cfg parent (Some req)) h = Done resp h' log ->
  rs_ver resp = h_ver (r_hdr req) /\
  rs_count resp = Z.of_nat (length (r_items req)) /\
  length (rs_items resp) = length (r_items req) /\
  Forall2 (fun bi r => o_op r = i_op bi /\ o_id r = i_id bi) (r_items req) (rs_items resp).
Proof. exact batch_shape. Qed.
Print Assumptions C09_shape.

(* handlers run at most once each and in order: the invoked positions are strictly increasing *)
Theorem C09_once_in_order : forall cfg parent req h resp h' log,
  run (handle_request cfg parent (Some req)) h = Done resp h' log ->
  StronglySorted Z.lt (calls log) /\
  forall x, In x (calls log) -> 0 <= x < Z.of_nat (length (r_items req)).
Proof. exact batch_once_in_order. Qed.
Print Assumptions C09_once_in_order.

(* Stop: after an item reported failed, no later item is executed and none is reported successful *)
Theorem C09_stop : forall cfg parent req h resp h' log,
  vmem (h_ver (r_hdr req)) (supported cfg) = true ->
  h_count (r_hdr req) = Z.of_nat (length (r_items req)) ->
  h_opt (r_hdr req) = OptStop ->
  run (handle_request cfg parent (Some req)) h = Done resp h' log ->
  forall a ra, nth_error (rs_items resp) a = Some ra -> o_status ra = StatusFailed ->
  forall b, (a < b)%nat ->
    ~ In (Z.of_nat b) (calls log) /\
    (forall rb, nth_error (rs_items resp) b = Some rb -> o_status rb = StatusFailed).
Proof. exact batch_stop. Qed.
Print Assumptions C09_stop.

(* Stop: up to and including the first failed item, exactly the items that can reach a handler
   (routed operation, no critical extension) are executed *)
Theorem C09_stop_prefix : forall cfg parent req h resp h' log,
  vmem (h_ver (r_hdr req)) (supported cfg) = true ->
  h_count (r_hdr req) = Z.of_nat (length (r_items req)) ->
  h_opt (r_hdr req) = OptStop ->
  run (handle_request cfg parent (Some req)) h = Done resp h' log ->
  forall j bj, nth_error (r_items req) j = Some bj ->
  (forall a ra, (a < j)%nat -> nth_error (rs_items resp) a = Some ra -> o_status ra <> StatusFailed) ->
  (In (Z.of_nat j) (calls log) <-> dispatches cfg bj = true).
Proof. exact batch_stop_prefix. Qed.
Print Assumptions C09_stop_prefix.

(* Continue (and an absent option, which this server treats as Continue): every item that can
   reach a handler is executed, whatever the earlier items did *)
Theorem C09_continue : forall cfg parent req h resp h' log,
  vmem (h_ver (r_hdr req)) (supported cfg) = true ->
  h_count (r_hdr req) = Z.of_nat (length (r_items req)) ->
  h_opt (r_hdr req) <> OptUndo -> h_opt (r_hdr req) <> OptStop ->
  run (handle_request cfg parent (Some req)) h = Done resp h' log ->
  forall j bj, nth_error (r_items req) j = Some bj ->
  (In (Z.of_nat j) (calls log) <-> dispatches cfg bj = true).
Proof. exact batch_continue. Qed.
Print Assumptions C09_continue.

(* Undo, an unsupported version or a batch-count mismatch: a single failed item, batch count 1,
   no handler executed *)
Theorem C09_reject : forall cfg parent req h resp h' log,
  (vmem (h_ver (r_hdr req)) (supported cfg) = false \/
   h_opt (r_hdr req) = OptUndo \/
   h_count (r_hdr req) <> Z.of_nat (length (r_items req))) ->
  run (handle_request cfg parent (Some req)) h = Done resp h' log ->
  (exists r, rs_items resp = [r] /\ o_status r = StatusFailed /\
             (o_reason r = ReasonInvalidMessage \/ o_reason r = ReasonFeatureNotSupported)) /\
  rs_count resp = 1 /\ calls log = [] /\ rets log = [].
Proof. exact batch_reject. Qed.
Print Assumptions C09_reject.

(* error mapping: what an invoked handler did (returned a payload, returned an error, panicked)
   is what its item reports: Success iff it returned without error, the reason of a
   kmipserver.Error found by errors.As, General Failure otherwise *)
Theorem C09_results : forall cfg parent req h resp h' log,
  vmem (h_ver (r_hdr req)) (supported cfg) = true ->
  h_opt (r_hdr req) <> OptUndo ->
  h_count (r_hdr req) = Z.of_nat (length (r_items req)) ->
  run (handle_request cfg parent (Some req)) h = Done resp h' log ->
  forall j o, In (j, o) (rets log) ->
  exists k r, j = Z.of_nat k /\ nth_error (rs_items resp) k = Some r /\
              o_status r = status_of o /\ o_reason r = reason_of o /\ o_pl r = payload_of o.
Proof. exact batch_results. Qed.
Print Assumptions C09_results.

(* an item no handler ran for is reported failed, the built-in version discovery excepted *)
Theorem C09_unexecuted : forall cfg parent req h resp h' log,
  vmem (h_ver (r_hdr req)) (supported cfg) = true ->
  h_opt (r_hdr req) <> OptUndo ->
  h_count (r_hdr req) = Z.of_nat (length (r_items req)) ->
  run (handle_request cfg parent (Some req)) h = Done resp h' log ->
  forall j bj rj, nth_error (r_items req) j = Some bj -> nth_error (rs_items resp) j = Some rj ->
  ~ In (Z.of_nat j) (calls log) ->
  (o_status rj = StatusFailed /\ o_pl rj = RNil) \/
  (exists vs, i_pl bj = PDiscover vs /\ routed cfg (i_op bj) = false /\ o_status rj = StatusSuccess /\
              o_pl rj = RDiscover (handle_discover (supported cfg) vs)).
Proof. exact batch_unexecuted. Qed.
Print Assumptions C09_unexecuted.

(* the hypotheses are satisfiable: a three-item batch under Stop / Continue / Undo *)
Example C09_nonvacuous :
  vmem (h_ver (r_hdr (ex_req OptStop))) (supported ex_cfg) = true /\
  h_count (r_hdr (ex_req OptStop)) = Z.of_nat (length (r_items (ex_req OptStop))) /\
  (exists resp h' log,
     run (handle_request ex_cfg [CConn 7] (Some (ex_req OptStop))) [] = Done resp h' log /\
     calls log = [0; 1] /\ rets log = [(0, HOk (RKey 0)); (1, HErr RNil (EWrap (EKmip 1)))] /\
     map o_status (rs_items resp) = [StatusSuccess; StatusFailed; StatusFailed] /\
     map o_reason (rs_items resp) = [0; 1; ReasonCanceledByRequester]) /\
  (exists resp h' log,
     run (handle_request ex_cfg [CConn 7] (Some (ex_req OptContinue))) [] = Done resp h' log /\
     calls log = [0; 1; 2] /\
     map o_status (rs_items resp) = [StatusSuccess; StatusFailed; StatusSuccess]) /\
  (exists resp h' log,
     run (handle_request ex_cfg [CConn 7] (Some (ex_req OptUndo))) [] = Done resp h' log /\
     calls log = [] /\ map o_status (rs_items resp) = [StatusFailed] /\
     map o_reason (rs_items resp) = [ReasonFeatureNotSupported]).
Proof. exact batch_example. Qed.
