From KV Require Import KeyMat KeyMatProofs.
Theorem C14_stub : True. Proof. exact stub_true. Qed.
Print Assumptions C14_stub.
