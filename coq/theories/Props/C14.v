(** C14 — key material survives registration, transport and extraction.
    Statements only; the model is KeyMat.v, the proofs are in KeyMatProofs.v.
    [C : crypto] stands for Go's crypto packages (x509, elliptic, rsa.Precompute, pem). *)
From Coq Require Import ZArith List Bool.
From KV Require Import Base KeyMat KeyMatProofs.
Import ListNotations.
Open Scope Z_scope.

(* Slot agreement: whatever the KeyFormat selector bits (any integer), the negotiated version
   (any pair) and the key, a request the builders produce carries a plain key value whose
   material has exactly one populated slot, and that slot is the one KeyMaterial.decode stores
   into for the block's KeyFormatType and the one the typed accessor reads. *)
Theorem C14_slot_agreement : forall (C : crypto) (kf : Z) (ver : Z * Z) (usage : Z) (i : reg_input) (r : reg_req),
  build C kf ver usage i = Ok r ->
  exists kb m s,
    object_key_block (rq_obj r) = Some kb /\
    kb_value kb = Some (mk_kv None (Some (mk_pkv m []))) /\
    populated_slots m = [s] /\
    decode_slot (kb_format kb) = Some s /\
    accessor_slot (input_accessor i) (kb_format kb) = Some s.
Proof. exact slot_agreement. Qed.
Print Assumptions C14_slot_agreement.

(* hence every built object has the shape the wire reproduces *)
Theorem C14_built_wire_stable : forall C kf ver usage i r,
  build C kf ver usage i = Ok r -> wire_stable (rq_obj r) = true.
Proof. exact built_wire_stable. Qed.
Print Assumptions C14_built_wire_stable.

(* the accessor-slot table describes the accessor functions: with the designated slot empty
   (or a KeyFormatType the accessor does not handle) the accessor reports an error; it never
   answers from another slot *)
Theorem C14_accessor_needs_its_slot : forall (C : crypto) (a : obj_acc) (o : object) (kb : key_block) (m : key_material),
  object_key_block o = Some kb ->
  get_material kb = Ok m ->
  match accessor_slot a (kb_format kb) with
  | Some s => slot_filled m s = false
  | None => True
  end ->
  run_obj_acc C a o = Err.
Proof. exact accessor_needs_its_slot. Qed.
Print Assumptions C14_accessor_needs_its_slot.

(* Round trip.  For every well-formed key of the six kinds (unbounded integers; RSA with two
   primes, ECDSA on a supported curve), every selector, every version and every encoding:
   the builder succeeds, the object crosses the wire, and the typed payloads/get.go accessor
   returns the registered key (an RSA private key after rsa.Precompute).
   Assumptions, as Section hypotheses turned into premises: the inverse laws of Go's crypto
   ([crypto_laws]) and the wire returning [wire_stable] objects unchanged (C01/C04). *)
Theorem C14_key_roundtrip :
  forall (C : crypto) (vrsa : rsa_priv -> Prop) (vrsapub : rsa_pub -> Prop) (vec : ec_priv -> Prop) (vecpub : ec_pub -> Prop),
  crypto_laws C vrsa vrsapub vec vecpub ->
  forall transport : Z * Z -> encoding -> object -> res object,
  (forall ver enc o, wire_stable o = true -> transport ver enc o = Ok o) ->
  forall (kf : Z) (ver : Z * Z) (enc : encoding) (usage : Z) (i : reg_input),
  match i with
  | RegRsaPriv k => vrsa k /\ (exists p q, rk_primes k = [Some p; Some q]) /\ in_i64 (rk_e k) = true /\ bitlen (rk_n k) <= max_i32
  | RegRsaPub k => vrsapub k /\ in_i64 (rp_e k) = true /\ bitlen (rp_n k) <= max_i32
  | RegEcPriv k => vec k /\ ek_curve k <> OtherCurve
  | RegEcPub k => vecpub k /\ ep_curve k <> OtherCurve
  | RegSym _ v => len v * 8 <= max_i32
  | RegSecret _ _ => True
  end ->
  exists r o',
    build C kf ver usage i = Ok r
    /\ transport ver enc (rq_obj r) = Ok o'
    /\ extract C i (mk_get (object_type o') (Some o'))
       = Ok match i with RegRsaPriv k => RegRsaPriv (precompute C k) | _ => i end.
Proof. exact key_roundtrip. Qed.
Print Assumptions C14_key_roundtrip.

(* the same through the generic accessors PrivateKey() / PublicKey() *)
Theorem C14_key_roundtrip_generic :
  forall C vrsa vrsapub vec vecpub,
  crypto_laws C vrsa vrsapub vec vecpub ->
  forall transport : Z * Z -> encoding -> object -> res object,
  (forall ver enc o, wire_stable o = true -> transport ver enc o = Ok o) ->
  forall kf ver enc usage i,
  input_ok vrsa vrsapub vec vecpub i ->
  exists r o',
    build C kf ver usage i = Ok r
    /\ transport ver enc (rq_obj r) = Ok o'
    /\ match i with
       | RegRsaPriv k => pl_private_key C (get_of o') = Ok (PrivRsa (precompute C k))
       | RegEcPriv k => pl_private_key C (get_of o') = Ok (PrivEc k)
       | RegRsaPub k => pl_public_key C (get_of o') = Ok (PubRsa k)
       | RegEcPub k => pl_public_key C (get_of o') = Ok (PubEc k)
       | _ => True
       end.
Proof. exact key_roundtrip_generic. Qed.
Print Assumptions C14_key_roundtrip_generic.

(* "mathematically equal" for RSA private keys: Precompute keeps N, E, D and the primes, and
   returns a key that already carries its CRT values unchanged *)
Theorem C14_rsa_private_equal :
  forall C vrsa vrsapub vec vecpub, crypto_laws C vrsa vrsapub vec vecpub ->
  forall k : rsa_priv,
    (rk_n (precompute C k), rk_e (precompute C k), rk_d (precompute C k), rk_primes (precompute C k))
      = (rk_n k, rk_e k, rk_d k, rk_primes k)
    /\ (rk_dp k <> None -> rk_dq k <> None -> rk_qinv k <> None -> precompute C k = k).
Proof.
  intros C vrsa vrsapub vec vecpub L k. split.
  - exact (rsa_private_core C vrsa vrsapub vec vecpub L k).
  - exact (law_pre_keep C vrsa vrsapub vec vecpub L k).
Qed.
Print Assumptions C14_rsa_private_equal.

(* the PEM accessors are the generic accessor, then the marshaller, then pem.Encode *)
Theorem C14_pem_accessors : forall (C : crypto) (g : get_resp),
  (forall k b, pl_private_key C g = Ok k -> marshal_pkcs8 C k = Ok b ->
     pl_pem_private_key C g = Ok (pem_encode C str_PRIVATE_KEY b))
  /\ (forall k b, pl_public_key C g = Ok k -> marshal_pkix C k = Some b ->
     pl_pem_public_key C g = Ok (pem_encode C str_PUBLIC_KEY b)).
Proof. intros C g. split; intros k b; [apply pem_private_factors | apply pem_public_factors]. Qed.
Print Assumptions C14_pem_accessors.

(* the curve mapping of the builders is inverted by the accessors *)
Theorem C14_curve_mapping : forall c bl crv,
  curve_to_kmip c = Some (bl, crv) -> curve_of_kmip crv = Some c /\ bl = rc_bitlen crv.
Proof.
  intros c bl crv H. split; [exact (curve_roundtrip c bl crv H)|].
  destruct c; cbn in H; try discriminate; injection H as <- <-; reflexivity.
Qed.
Print Assumptions C14_curve_mapping.

(* Accessor totality: no accessor of objects.go / payloads/get.go panics, on ANY object of the
   model - every combination of nil KeyValue / Wrapped / Plain, of the eight material slots, of the
   seven optional big integers, any KeyFormatType, compression type, curve code and integer value;
   this includes every object the decoder can produce ([decodable]).
   Assumption on Go's crypto ([crypto_safe]): x509.MarshalPKCS8PrivateKey does not panic on RSA keys,
   foreign keys, and EC keys whose scalar is in [1, N-1], and the parsers only return such EC keys. *)
Theorem C14_accessor_total : forall C : crypto,
  ((forall k, marshal_pkcs8 C (PrivRsa k) <> Panic)
   /\ marshal_pkcs8 C PrivOther <> Panic
   /\ (forall k, 0 < ek_d k < curve_order C (ek_curve k) -> marshal_pkcs8 C (PrivEc k) <> Panic)
   /\ (forall b k, parse_pkcs8 C b = Some (PrivEc k) -> 0 < ek_d k < curve_order C (ek_curve k))
   /\ (forall b k, parse_sec1 C b = Some k -> 0 < ek_d k < curve_order C (ek_curve k))) ->
  (forall (a : kb_acc) (kb : key_block), run_kb_acc a kb <> Panic)
  /\ (forall (a : obj_acc) (o : object), run_obj_acc C a o <> Panic)
  /\ (forall (a : pl_acc) (g : get_resp), run_pl_acc C a g <> Panic).
Proof.
  intros C [H1 [H2 [H3 [H4 H5]]]].
  assert (S : crypto_safe C) by (constructor; assumption).
  split; [exact run_kb_acc_total|]. split; [exact (run_obj_acc_total C S) | exact (run_pl_acc_total C S)].
Qed.
Print Assumptions C14_accessor_total.

(* in the property's own words: on a decodable object no accessor panics *)
Theorem C14_accessor_total_decodable : forall C : crypto, crypto_safe C ->
  forall o : object, decodable o = true ->
  (forall a kb, object_key_block o = Some kb -> run_kb_acc a kb <> Panic)
  /\ (forall a, run_obj_acc C a o <> Panic)
  /\ (forall a, run_pl_acc C a (get_of o) <> Panic).
Proof.
  intros C S o _. split; [intros a kb _; apply run_kb_acc_total|].
  split; [intros a; apply (run_obj_acc_total C S) | intros a; apply (run_pl_acc_total C S)].
Qed.
Print Assumptions C14_accessor_total_decodable.

(* Where a builder can panic, for ANY selector, version and key: only on an RSA private key with
   fewer than two primes (key.Primes[1]) or inside Go's crypto; the panic("Unexpected key format")
   defaults are unreachable. *)
Theorem C14_build_panic_only_if : forall (C : crypto) (kf : Z) (ver : Z * Z) (usage : Z) (i : reg_input),
  build C kf ver usage i = Panic ->
  match i with
  | RegRsaPriv k => (length (rk_primes k) < 2)%nat \/ marshal_pkcs8 C (PrivRsa k) = Panic
  | RegEcPriv k => marshal_pkcs8 C (PrivEc k) = Panic
  | RegEcPub k => ec_marshal C (ep_curve k) (ep_x k) (ep_y k) = None
  | _ => False
  end.
Proof. exact build_panic_only_if. Qed.
Print Assumptions C14_build_panic_only_if.

(* the DER entry points (Pkcs1PrivateKey, Pkcs1PublicKey, Sec1PrivateKey) register the key they parse *)
Theorem C14_der_entry_points : forall C vrsa vrsapub vec vecpub, crypto_laws C vrsa vrsapub vec vecpub ->
  (forall kf usage k, vrsa k ->
     reg_pkcs1_priv_der C kf usage (marshal_pkcs1_priv C k) = reg_rsa_priv C kf usage (precompute C k))
  /\ (forall kf usage k, vrsapub k ->
     reg_pkcs1_pub_der C kf usage (marshal_pkcs1_pub C k) = reg_rsa_pub C kf usage k)
  /\ (forall kf ver usage k b, vec k -> marshal_sec1 C k = Some b -> parse_sec1 C b = Some k ->
     reg_sec1_der C kf ver usage b = reg_ec_priv C kf ver usage k).
Proof. exact der_entry_points. Qed.
Print Assumptions C14_der_entry_points.

(* the panic point of the model is real: *)
Example C14_builder_panic_points : forall C : crypto,
  reg_rsa_priv C KF_Transparent 0 (mk_rsa_priv 15 3 3 [Some 3] None None None) = Panic.
Proof. intros C. reflexivity. Qed.

(* Non-vacuity: the laws are jointly satisfiable (a toy codec), there are keys of every kind
   satisfying the premises, and on them build-then-extract computes to the key. *)
Example C14_nonvacuous :
  crypto_laws toy toy_vrsa (fun _ => True) toy_vec toy_vecpub
  /\ crypto_safe toy
  /\ input_ok toy_vrsa (fun _ => True) toy_vec toy_vecpub (RegRsaPriv toy_rsa_key)
  /\ input_ok toy_vrsa (fun _ => True) toy_vec toy_vecpub (RegEcPriv toy_ec_key)
  /\ (do r <- build toy KF_Transparent (1, 4) 12 (RegRsaPriv toy_rsa_key) ;;
      extract toy (RegRsaPriv toy_rsa_key) (get_of (rq_obj r))) = Ok (RegRsaPriv toy_rsa_key)
  /\ (do r <- build toy KF_Transparent (1, 2) 1 (RegEcPriv toy_ec_key) ;;
      extract toy (RegEcPriv toy_ec_key) (get_of (rq_obj r))) = Ok (RegEcPriv toy_ec_key).
Proof.
  split; [exact toy_laws|]. split; [exact toy_safe|].
  destruct toy_inputs_ok as [I1 [_ [I3 _]]]. destruct toy_roundtrip_computes as [R1 [R2 _]].
  exact (conj I1 (conj I3 (conj R1 R2))).
Qed.
Print Assumptions C14_nonvacuous.

(* For the record: the accessors as they stood on the pinned tree panic on decodable objects
   (metadata-only key block; transparent EC key block without material). *)
Example C14_pinned_tree_refuted :
  (decodable_kb (mk_kb KFT_Raw 0 None 0 0 false) = true
   /\ get_material_pinned (mk_kb KFT_Raw 0 None 0 0 false) = Panic)
  /\ (decodable_kb (mk_kb KFT_TECPublicKey 0 (Some (mk_kv None (Some (mk_pkv km_empty [])))) 0 0 false) = true
   /\ pub_ecdsa_transparent_pinned (km_ec_pub km_empty) = Panic).
Proof. split; [exact pinned_get_material_refuted | exact pinned_pub_ecdsa_refuted]. Qed.
