(** C01 - Binary TTLV round trip preserves every KMIP message.
    Statements only; proofs in BinCursorProofs.v, RoundtripProofs.v, KmipRoundtrip.v.

    [enc_ty] / [dec_ty] are the struct-level codec (SchemaSem.v: the reflective interpreter of
    ttlv/encoder.go, ttlv/decoder.go driven by a schema, plus the hand-written codecs),
    [wire_enc_list] the binary writer, [bin_cursor] what ttlvReader sees in bytes,
    [conf_ty] (Roundtrip.v) the decidable well-formedness of a value: right shape, elements the
    encoder omits hold the zero value, generic trees carry the tag of their position.

    STATUS: the theorems below are the property for ANY schema, any reader format and every
    conforming value, including the ten types with hand-written codecs (batch items with the
    operation payload picked by operation and direction or kept opaque, Credential, KeyBlock /
    KeyValue / PlainKeyValue / KeyMaterial, Attribute, Get / Register / Export / Import payloads
    with their managed object): [conf_ty] dispatches to [conf_custom_of] for them
    (RtRequestItem.v ... RtImportRequest.v, assembled in RoundtripCustoms.v).  "Well-formed
    message" of the property is [conf_ty]; it is decidable, and every run checks that the
    messages of the coverage plan satisfy it (row_conf), so the hypothesis is not vacuous. *)
From Coq Require Import ZArith List Bool String.
From KV Require Import Base Wire Cursor BinCursorProofs Schema SchemaSem FaithfulProofs Roundtrip RoundtripProofs RoundtripCustoms KmipCodec KmipRoundtrip RtExamples.
From KVGen Require Import KmipSchema.
Import ListNotations.
Open Scope Z_scope.

(** The binary cursor law: for EVERY list of writer calls (any depth, sizes, big integers) the
    reader's view of the encoder's bytes mirrors the calls one for one, nothing invalid. *)
Theorem C01_binary_cursor_law : forall l : list item,
  forallb item_ok l = true -> forallb item_small l = true ->
  exists forest, bin_cursor (wire_enc_list l) = Ok (forest, false) /\ faithful bin_fmt l forest.
Proof. exact bin_faithful. Qed.
Print Assumptions C01_binary_cursor_law.

(** The struct-level round trip, for ANY schema, ANY reader format, any encoder fuel: decoding
    a forest faithful to what the encoder wrote returns the value, consumes exactly its items
    ([rest] is left), ends in the encoder's version state; each item carries the tag asked for. *)
Theorem C01_struct_roundtrip :
  forall (S : schema) OPS ATTRS OBJS (R : Type) (F : rawfmt R) fe fc st t tag v items st' sc,
  enc_ty S fe st t tag v = Ok (items, st') -> conf_ty S OPS ATTRS OBJS fc st t tag v = Some sc ->
  sc = st' /\ Forall (fun i => itag i = tag) items /\
  forall (es rest : list (relem R)) fd, faithful F items es ->
    (lookahead t = true -> c_tag (rest, false) <> tag) ->
    (fe + 2 * items_size items + 2 <= fd)%nat ->
    dec_ty S OPS ATTRS OBJS F fd st t tag ((es ++ rest)%list, false) = Ok (v, (rest, false), st').
Proof.
  intros S OPS ATTRS OBJS R F fe fc st t tag v items st' sc He Hc.
  destruct (rt_all S OPS ATTRS OBJS F fe) as (Pt & _ & _).
  destruct (Pt _ _ _ _ _ _ _ _ He Hc) as (H1 & H2 & _ & _ & H3). split; [exact H1 | split; [exact H2 | exact H3]].
Qed.
Print Assumptions C01_struct_roundtrip.

(** Composed with the binary layer: bytes -> value, nothing dropped, added or altered, every
    byte consumed.  (Re-encoding the decoded value gives the identical bytes because it IS
    the original value and the encoder is a function.) *)
Theorem C01_roundtrip :
  forall (S : schema) OPS ATTRS OBJS fe fc st t tag v items st' sc,
  enc_ty S fe st t tag v = Ok (items, st') -> conf_ty S OPS ATTRS OBJS fc st t tag v = Some sc ->
  forallb item_ok items = true -> forallb item_small items = true -> lookahead t = false ->
  exists c, bin_cursor (wire_enc_list items) = Ok c /\
    forall fd, (fe + 2 * items_size items + 2 <= fd)%nat ->
      dec_ty S OPS ATTRS OBJS bin_fmt fd st t tag c = Ok (v, ([], false), st').
Proof. exact bin_roundtrip. Qed.
Print Assumptions C01_roundtrip.

(** On the schema regenerated from /repo: every structure decoded reflectively is
    unambiguous (an element that may be absent never shares its tag with a later one). *)
Theorem C01_kmip_schema_unambiguous : reflective_unambiguous kmip_schema = true.
Proof. exact kmip_reflective_unambiguous. Qed.
Print Assumptions C01_kmip_schema_unambiguous.

(** Whole messages at the schema regenerated from /repo: encoding a conforming request or
    response message and handing the bytes to the executable unmarshal (the one the
    correspondence compares with ttlv.UnmarshalTTLV) returns the message. *)
Theorem C01_kmip_message_roundtrip : forall root d v fe fc items st' sc,
  find_tdef kmip_schema root = Some d ->
  enc_ty kmip_schema fe None (TNamed root) (t_deftag d) v = Ok (items, st') ->
  conf_ty kmip_schema kmip_ops kmip_attrs kmip_objs fc None (TNamed root) (t_deftag d) v = Some sc ->
  forallb item_ok items = true -> forallb item_small items = true ->
  (fe + 2 * items_size items + 2 <= FUEL)%nat ->
  kmip_unmarshal root (wire_enc_list items) = Ok v.
Proof. exact kmip_message_roundtrip. Qed.
Print Assumptions C01_kmip_message_roundtrip.

(** Non-vacuity: a real request header (version 1.4, gated correlation value, optional
    pointers) conforms, and its encoding decodes back to it. *)
Definition ex_header : value :=
  VStruct "kmip.RequestHeader" [VStruct "kmip.ProtocolVersion" [VInt 1; VInt 4]; VInt 1024; VStr [99; 118]; VStr [];
    VPtr (VBool true); VNil; VList [VInt 1; VInt 2]; VNil; VInt 2; VNil; VPtr (VInt 1700000000); VInt 3].
Example C01_example :
  (exists sc, conf_ty kmip_schema kmip_ops kmip_attrs kmip_objs 20 None (TNamed "kmip.RequestHeader") 4325495 ex_header = Some sc) /\
  (do r <- enc_ty kmip_schema 20 None (TNamed "kmip.RequestHeader") 4325495 ex_header ;;
   do c <- bin_cursor (wire_enc_list (fst r)) ;;
   do d <- dec_ty kmip_schema kmip_ops kmip_attrs kmip_objs bin_fmt 60 None (TNamed "kmip.RequestHeader") 4325495 c ;;
   Ok (value_eqb (fst (fst d)) ex_header)) = Ok true.
Proof. split; [eexists; vm_compute; reflexivity | vm_compute; reflexivity]. Qed.

(** ... and a whole request message (credential in the header, an Import batch item carrying a
    symmetric key with attributes, a message extension) conforms and round-trips through the
    executable marshal / unmarshal. *)
Example C01_message_example :
  (exists sc, conf_ty kmip_schema kmip_ops kmip_attrs kmip_objs 60 None (TNamed "kmip.RequestMessage") 4325496 ex_message = Some sc) /\
  (do b <- kmip_marshal "kmip.RequestMessage" ex_message ;; do v <- kmip_unmarshal "kmip.RequestMessage" b ;; Ok (value_eqb v ex_message)) = Ok true.
Proof. exact ex_message_roundtrip. Qed.
