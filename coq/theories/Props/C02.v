(** C02 - Decoders never panic, hang, over-read or mutate on arbitrary input.
    Statements only; proofs in ReaderProofs.v, CursorProofs.v, BinCursorProofs.v.

    Reader.v transcribes ttlvReader byte for byte, every Go slice expression and index being an
    explicit panic point checked against the LENGTH of the slice (stricter than Go's capacity
    rule, so "no RPanic" also means no read beyond the declared extent of the enclosing
    structure: the nested reader is literally the value slice).  Cursor.v is the generic
    reader cursor on which the typed decoders run.  The models are pure functions of the
    input bytes: determinism and "input left unmodified" hold by construction of the model
    and are checked on the implementation by the driver (hash before/after, double decode,
    junk beyond the slice). *)
From Coq Require Import ZArith List Bool.
From KV Require Import Base BaseProofs Wire Cursor Reader ReaderProofs CursorProofs BinCursorProofs.
Import ListNotations.
Open Scope Z_scope.

(** For EVERY byte string and EVERY error-respecting sequence of reader operations issued
    through the Decoder API (any nesting, any tags, any length), no operation panics:
    construction validates or fails, and every later slice bound is established by validate(). *)
Theorem C02_binary_reader_never_panics : forall (fuel : Z) (ops : list rop) (bs : list Z),
  bytes_ok bs = true -> ~ In RPanic (run_script fuel ops bs).
Proof. exact reader_never_panics. Qed.
Print Assumptions C02_binary_reader_never_panics.

(** Each reader operation keeps the reader validated (the invariant behind the theorem above). *)
Theorem C02_next_keeps_validated : forall buf, wfbuf buf -> safe_res wfbuf (r_next buf).
Proof. exact r_next_safe. Qed.
Print Assumptions C02_next_keeps_validated.

Theorem C02_nested_reader_validated : forall buf, wfbuf buf -> len buf <> 0 ->
  safe_res wfbuf (do v <- r_value buf ;; r_new v).
Proof. exact r_struct_enter_safe. Qed.
Print Assumptions C02_nested_reader_validated.

(** validate itself never panics, on any bytes. *)
Theorem C02_validate_total : forall buf, r_validate buf = Ok true \/ r_validate buf = Ok false.
Proof. exact validate_total. Qed.
Print Assumptions C02_validate_total.

(** The generic-tree decoder (ttlv.Value / ttlv.Struct) over ANY format whose scalar parsers
    are total returns a value or an error on EVERY raw forest, with fuel twice the number of
    raw elements: no panic, no non-termination (the loop `for d.Tag() != 0` always advances). *)
Theorem C02_generic_decoder_total : forall (R : Type) (F : rawfmt R), fmt_total F ->
  forall fuel tag (c : cur R), (1 <= fuel)%nat -> (2 * csize c <= fuel)%nat ->
  safe_res (fun p => (csize (snd p) < csize c)%nat) (dec_value F fuel tag c).
Proof. intros R F HF fuel. exact (proj1 (dec_value_total F HF fuel)). Qed.
Print Assumptions C02_generic_decoder_total.

(** ttlv.UnmarshalTTLV into the generic tree: a value or an error for EVERY byte string. *)
Theorem C02_unmarshal_binary_total : forall bs, bytes_ok bs = true ->
  match unmarshal_value bs with Ok _ | Err => True | Panic | OutOfFuel => False end.
Proof. exact unmarshal_value_total. Qed.
Print Assumptions C02_unmarshal_binary_total.

(** Non-vacuity: a malformed input of the kind that used to panic (Integer with declared
    length 2 nested in a structure) is rejected; a valid nested message is read. *)
Example C02_example :
  run_script 20 [OStruct 0x420001 [OInt 0x420002]] [66;0;1;1; 0;0;0;16; 66;0;2;2; 0;0;0;2; 1;2;0;0; 0;0;0;0] = [RErr]
  /\ run_script 20 [OStruct 0x420001 [OInt 0x420002]] [66;0;1;1; 0;0;0;16; 66;0;2;2; 0;0;0;4; 0;0;0;7; 0;0;0;0] = [ROpen; RNum 7; RClose]
  /\ unmarshal_value [66;0;1;4; 0;0;0;0] = Err.
Proof. vm_compute. repeat split; reflexivity. Qed.
