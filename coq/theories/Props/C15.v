(** C15 — the ID placeholder is scoped to a single request.
    Statements only; proofs are in BatchProofs.v.  The model is Batch.v: [handle_request]
    allocates the request's [batchData] cell ([Alloc], newBatchContext) and binds it in the
    request's context; handlers are arbitrary programs over IdPlaceholder / GetIdOrPlaceholder /
    SetIdPlaceholder / ClearIdPlaceholder; a failing item clears (handleBatchItemError).
    [run p h] executes one request alone on a heap [h] of cells; [run_pool sched (h0, threads)]
    executes any number of requests on one shared heap, one memory operation of the scheduled
    thread at a time, for an arbitrary schedule.  [flow v log] replays a request's own log
    (its Set / Clear / failure-clear events) from placeholder value [v] and checks that every
    value it read is the value so obtained. *)
From Coq Require Import ZArith List.
From KV Require Import Negotiate Batch BatchProofs.
Import ListNotations.
Open Scope Z_scope.

(* one request alone: whatever the heap already holds (values left by other requests) and
   whatever context it arrives in (even one that carries another request's batch entry), every
   read returns the value left by the last Set / Clear / failing item of the SAME request, the
   empty string if there is none *)
Theorem C15_flow : forall cfg parent req h,
  exists v, flow [] (out_log (run (handle_request cfg parent req) h)) = Some v.
Proof. exact placeholder_flow. Qed.
Print Assumptions C15_flow.

(* the placeholder is empty at the start of every request: a read that no SetIdPlaceholder of
   the same request precedes returns "" *)
Theorem C15_fresh : forall cfg parent req h pre i hc v post,
  out_log (run (handle_request cfg parent req) h) = pre ++ EvRead i hc v :: post ->
  forallb (fun e => negb (match e with EvSet _ HOwn _ => true | _ => false end)) pre = true ->
  v = [].
Proof. exact placeholder_fresh. Qed.
Print Assumptions C15_fresh.

(* isolation: for any set of requests (on any connections: any parent contexts), any schedule of
   their memory operations and any initial heap, what request [i] has observed so far is a
   prefix of what it observes when run alone (on any heap [h1]); once finished it has exactly
   the response and the log of its solo run *)
Theorem C15_isolated : forall (reqs : list (config * ctx * option request)) sched h0 h1 i t cfg parent req,
  nth_error (snd (run_pool sched (h0, map spawn (map request_prog reqs)))) i = Some t ->
  nth_error reqs i = Some (cfg, parent, req) ->
  (exists rest, out_log (run (handle_request cfg parent req) h1) = t_log t ++ rest) /\
  (forall resp, t_prog t = Ret resp ->
     exists h', run (handle_request cfg parent req) h1 = Done resp h' (t_log t)) /\
  (forall pv, t_prog t = Throw pv ->
     exists h', run (handle_request cfg parent req) h1 = Panicked pv h' (t_log t)).
Proof. exact placeholder_isolated. Qed.
Print Assumptions C15_isolated.

(* hence, under any interleaving, every value a request reads is explained by its own actions *)
Theorem C15_concurrent_flow : forall (reqs : list (config * ctx * option request)) sched h0 i t,
  nth_error (snd (run_pool sched (h0, map spawn (map request_prog reqs)))) i = Some t ->
  exists v, flow [] (t_log t) = Some v.
Proof. exact placeholder_concurrent_flow. Qed.
Print Assumptions C15_concurrent_flow.

(* the generic form: any pool of programs that each allocate one cell and then only use it *)
Theorem C15_pool_isolated : forall (R : Type) (ps : list (prog R)),
  (forall p, In p ps -> scoped p) ->
  forall h1 sched h0 i t p0,
  nth_error (snd (run_pool sched (h0, map spawn ps))) i = Some t ->
  nth_error ps i = Some p0 ->
  (exists rest, out_log (run p0 h1) = t_log t ++ rest) /\
  (forall r, t_prog t = Ret r -> exists h', run p0 h1 = Done r h' (t_log t)) /\
  (forall pv, t_prog t = Throw pv -> exists h', run p0 h1 = Panicked pv h' (t_log t)).
Proof. exact @pool_isolated. Qed.
Print Assumptions C15_pool_isolated.

(* data-race freedom of the pool: the next memory operation of every thread is on the cell it
   allocated itself and cells are never shared, in every reachable state of every schedule -
   which is what justifies modelling the accesses to batchData.idPlaceholder as atomic steps *)
Theorem C15_race_free : forall (R : Type) (ps : list (prog R)),
  (forall p, In p ps -> scoped p) ->
  forall sched h0,
  (forall i t, nth_error (snd (run_pool sched (h0, map spawn ps))) i = Some t ->
     match t_prog t with
     | Load l _ => t_loc t = Some l
     | Store l _ _ => t_loc t = Some l
     | _ => True
     end) /\
  (forall i j ti tj l,
     nth_error (snd (run_pool sched (h0, map spawn ps))) i = Some ti ->
     nth_error (snd (run_pool sched (h0, map spawn ps))) j = Some tj ->
     t_loc ti = Some l -> t_loc tj = Some l -> i = j).
Proof. exact @pool_race_free. Qed.
Print Assumptions C15_race_free.

Theorem C15_request_scoped : forall cfg parent req, scoped (handle_request cfg parent req).
Proof. exact handle_request_scoped. Qed.
Print Assumptions C15_request_scoped.

(* non-vacuity: two two-item requests interleaved step by step on a heap holding a foreign
   value, the second arriving in a context that carries the first one's batch entry; each
   reads "" first, then its own "a" / "b", then its own "a!" / "b!" *)
Example C15_nonvacuous :
  map (fun t => (enc_log (req_items ex15_req) (t_log t), match t_prog t with Ret _ => true | _ => false end))
      (snd (run_pool ex15_sched ([[120]], map spawn (map request_prog ex15_pool)))) =
  [ ([1;0; 2;0;0;0; 4;0;0;1;97; 2;0;0;1;97; 6;0;1;0; 1;1; 2;1;0;1;97; 4;1;0;2;97;33; 2;1;0;2;97;33; 6;1;1;0], true);
    ([1;0; 2;0;0;0; 4;0;0;1;98; 2;0;0;1;98; 6;0;1;0; 1;1; 2;1;0;1;98; 4;1;0;2;98;33; 2;1;0;2;98;33; 6;1;1;0], true) ].
Proof. exact placeholder_example. Qed.
