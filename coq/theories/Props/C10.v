(** C10 - a client call only ever receives the response to its own request.
    Statements only; proofs are in ConnClientProofs.v (simulation) and ConnClientCert.v
    (reflective certificates on the finite abstraction).

    The system is the concrete instance of the model ConnClient.v: [cstep'] is its step
    relation (any interleaving of the caller that holds Client.lock, readloop, writeloop, a
    goroutine calling Client.Close, the transport and the scripted server; callers arrive,
    contexts are cancelled, the network fails at any step), [cinit] the client right after
    DialContext created it.  [callno s] is the number of the call that holds the lock in [s];
    every request that call sends carries that number, and the server's response carries the
    number of the request it answers.  [reachable] = reachable in any number of steps. *)
From Coq Require Import List Arith.
From KV Require Import Lts ConnClient ConnClientProofs.
Import ListNotations.

(* whatever response recv hands to the caller (and doRountrip then returns) is the response to
   a request sent by this very call *)
Theorem C10_own_response : forall s r,
  reachable cstep' cinit s -> got nat nat s = Some r -> r = callno nat nat s.
Proof. exact own_response. Qed.
Print Assumptions C10_own_response.

(* the response to an earlier call k (abandoned or not) is never delivered to a later call *)
Theorem C10_no_late_delivery : forall s k,
  reachable cstep' cinit s -> k < callno nat nat s -> got nat nat s <> Some k.
Proof. exact no_late_delivery. Qed.
Print Assumptions C10_no_late_delivery.

(* the mechanism: a connection never carries two outstanding requests ... *)
Theorem C10_one_outstanding : forall s,
  reachable cstep' cinit s -> ovf nat (cn nat nat s) = false.
Proof. exact one_outstanding. Qed.
Print Assumptions C10_one_outstanding.

(* ... and a connection that is in service while nobody holds the lock has nothing in flight:
   no request at the server, no response on the wire, none in readloop's or writeloop's hands *)
Theorem C10_idle_conn_clean : forall s,
  reachable cstep' cinit s ->
  u nat nat s = UIdle -> hasconn nat nat s = true -> conn_alive nat (cn nat nat s) = true ->
  srv_req nat (cn nat nat s) = None /\ cwire nat (cn nat nat s) = None /\
  rl_msg nat (cn nat nat s) = None /\ wl_msg nat (cn nat nat s) = None.
Proof. exact idle_conn_clean. Qed.
Print Assumptions C10_idle_conn_clean.

(* Non-vacuity: an execution in which call 1 is cancelled between send and recv (its request has
   reached the server), and call 2 then runs on a new connection and returns response 2. *)
Definition C10_script : list (label -> bool) :=
  [l_rl; l_wl;
   l_new; l_u; l_u; l_u; l_u; l_u; l_wl; l_wl; l_u; l_cancel; l_u; l_u; l_u; l_u; l_ret;
   l_new; l_u; l_u; l_u; l_u; l_u; l_u; l_u; l_u; l_u; l_u; l_rl; l_wl; l_u; l_u; l_u; l_wl; l_wl; l_u; l_u; l_u;
   l_reply; l_rl; l_u].

Example C10_nonvacuous : exists s,
  reachable cstep' cinit s /\ u nat nat s = URetOk /\ callno nat nat s = 2 /\ got nat nat s = Some 2.
Proof.
  destruct (follow C10_script cinit) as [s|] eqn:E; [|vm_compute in E; discriminate].
  exists s. split; [eapply follow_reachable; [apply reach_init | exact E]|].
  vm_compute in E. injection E as <-. repeat split.
Qed.
