(** C02 - Decoders never hang on arbitrary input: the TYPED targets (decoding into Go
    structs: messages, payloads, objects, attributes).  Statements only; definitions in
    DecTerm.v, proofs in DecTermProofs.v.

    Every recursive call of the model (SchemaSem.v: dec_ty and its mutual companions, the
    hand-written decoders) consumes one unit of fuel and a call that has none left returns
    [OutOfFuel]; "the decoder terminates" is therefore "the decoder does not return OutOfFuel
    once the fuel exceeds an explicit bound in the size of the input".  The bound is

        static depth of the target type  +  2 * (number of raw elements under the cursor)

    where
      - the static depth ([ty_depth]) is: 1 for a scalar, 1 + depth for a pointer, 2 + depth
        for a slice, 2 for ttlv.Value / ttlv.Struct, (number of fields + 2) + the largest depth
        of a field type for a reflectively decoded struct, 2 + the largest depth of a type the
        decoder may be started on for a hand-written decoder - its positional fields, the
        auxiliary definitions (alternatives of CredentialValue / KeyMaterial, attribute list of
        PlainKeyValue) and, through the tables, EVERY payload type for the two batch items,
        EVERY attribute value type (and the generic tree) for Attribute, EVERY object type for
        the Get / Export responses and the Register / Import requests.  It is computed with a
        recursion budget and is defined iff no cycle among the definitions is reachable
        ([acyclic_schema]: a decidable check, true of the schema REGENERATED from the Go source,
        by vm_compute);
      - [csize c] counts the raw elements (at any nesting level) the reader sees from the
        cursor on; for the binary reader it is at most (length of the input) / 8.
    The factor 2 pays for the sibling elements walked by a slice loop (1 per element) and for
    the generic-tree decoder (Cursor.dec_value: 2 per element).

    WHY IT TERMINATES: the induction carries, for every decoder of the model, "on Ok the
    remaining cursor is not larger, and it is strictly smaller when the cursor stood on an
    element with the tag asked for" ([C02_typed_decoder_consumes]).  The slice loop
    `for d.Tag() == tag { decode one element }` stops BECAUSE each accepted element is
    consumed; no decoder of the model (reflective or hand-written) returns Ok under a matching
    tag without advancing, so no loop iteration of the model consumes nothing. *)
From Coq Require Import ZArith List Bool String.
From KV Require Import Base Wire Cursor CursorProofs Schema SchemaSem KmipCodec DecSafe DecSafeProofs DecTerm DecTermProofs.
From KV Require TextFmt.
From KVGen Require Import KmipSchema.
Import ListNotations.
Open Scope Z_scope.

(** ANY schema and tables, ANY reader format whose scalar parsers are total (binary, XML,
    JSON), ANY cursor (hence any input, well-formed or not), any protocol-version state, any
    tag, any type whose static depth is defined (with whatever budget [N]): fuel above
    depth + 2 * csize is never exhausted. *)
Theorem C02_typed_decoder_terminates_depth : forall S OPS ATTRS OBJS {R} (F : rawfmt R), fmt_total F ->
  forall N d fuel st t tag c, ty_depth S OPS ATTRS OBJS N t = Some d ->
    (d + K_ELEM * csize c <= fuel)%nat ->
    dec_ty S OPS ATTRS OBJS F fuel st t tag c <> OutOfFuel.
Proof. exact dec_ty_terminates_depth. Qed.
Print Assumptions C02_typed_decoder_terminates_depth.

(** the invariant that makes the loops stop *)
Theorem C02_typed_decoder_consumes : forall S OPS ATTRS OBJS {R} (F : rawfmt R), fmt_total F ->
  forall N d fuel st t tag c v c' st', ty_depth S OPS ATTRS OBJS N t = Some d ->
    (d + K_ELEM * csize c <= fuel)%nat ->
    dec_ty S OPS ATTRS OBJS F fuel st t tag c = Ok (v, c', st') ->
    (csize c' <= csize c)%nat /\ (c_tag c = tag -> (csize c' < csize c)%nat).
Proof. exact dec_ty_consumes. Qed.
Print Assumptions C02_typed_decoder_consumes.

(** the mutual companions: slice loop, struct body, d.Opt, d.Any on an object, and every
    hand-written decoder started on the typed decoder one fuel unit down *)
Theorem C02_slice_decoder_terminates_depth : forall S OPS ATTRS OBJS {R} (F : rawfmt R), fmt_total F ->
  forall N d fuel st t tag c, ty_depth S OPS ATTRS OBJS N t = Some d ->
    (d + 1 + K_ELEM * csize c <= fuel)%nat ->
    dec_slice S OPS ATTRS OBJS F fuel st t tag c <> OutOfFuel.
Proof. exact dec_slice_terminates_depth. Qed.
Print Assumptions C02_slice_decoder_terminates_depth.

Theorem C02_struct_body_terminates_depth : forall S OPS ATTRS OBJS {R} (F : rawfmt R), fmt_total F ->
  forall N m fuel st fl c, dmax (ty_depth S OPS ATTRS OBJS N) (map f_ty fl) = Some m ->
    (m + List.length fl + 1 + K_ELEM * csize c <= fuel)%nat ->
    dec_fields_s S OPS ATTRS OBJS F fuel st fl c <> OutOfFuel.
Proof. exact dec_fields_s_terminates_depth. Qed.
Print Assumptions C02_struct_body_terminates_depth.

Theorem C02_opt_terminates_depth : forall S OPS ATTRS OBJS {R} (F : rawfmt R), fmt_total F ->
  forall N d fuel st t tag c, ty_depth S OPS ATTRS OBJS N t = Some d ->
    (d + 1 + K_ELEM * csize c <= fuel)%nat ->
    dec_opt S OPS ATTRS OBJS F fuel st t tag c <> OutOfFuel.
Proof. exact dec_opt_terminates_depth. Qed.
Print Assumptions C02_opt_terminates_depth.

Theorem C02_object_terminates_depth : forall S OPS ATTRS OBJS {R} (F : rawfmt R), fmt_total F ->
  forall N m fuel st ot c, dmax (ty_depth S OPS ATTRS OBJS N) (obj_types OBJS) = Some m ->
    (m + 1 + K_ELEM * csize c <= fuel)%nat ->
    dec_object S OPS ATTRS OBJS F fuel st ot c <> OutOfFuel.
Proof. exact dec_object_terminates_depth. Qed.
Print Assumptions C02_object_terminates_depth.

Theorem C02_hand_written_decoders_terminate : forall S OPS ATTRS OBJS {R} (F : rawfmt R), fmt_total F ->
  forall N m l f st d tag c, t_custom_dec d = true ->
    callees S OPS ATTRS OBJS d = Some l -> dmax (ty_depth S OPS ATTRS OBJS N) l = Some m ->
    (m + 1 + K_ELEM * csize c <= f)%nat ->
    dec_custom_of S OPS ATTRS F (dec_ty S OPS ATTRS OBJS F f) (dec_opt S OPS ATTRS OBJS F f)
      (dec_object S OPS ATTRS OBJS F f) (dec_fields F f) st d tag c <> OutOfFuel.
Proof. exact dec_custom_terminates_depth. Qed.
Print Assumptions C02_hand_written_decoders_terminate.

(** The same with a decidable ACYCLICITY check on the schema and [bound] for the static part
    (pointers and slices peeled off, names looked up with the budget 4 * |S| + 4).  The safety
    check dec_safe_schema is not needed for this half: the panic points are results. *)
Theorem C02_typed_decoder_terminates : forall S OPS ATTRS OBJS {R} (F : rawfmt R), fmt_total F ->
  acyclic_schema S OPS ATTRS OBJS = true ->
  forall fuel st t tag c, decodable S t = true ->
    (bound S OPS ATTRS OBJS t + K_ELEM * csize c <= fuel)%nat ->
    dec_ty S OPS ATTRS OBJS F fuel st t tag c <> OutOfFuel.
Proof. exact dec_ty_terminates. Qed.
Print Assumptions C02_typed_decoder_terminates.

(** With C02_typed_decoder_never_panics: under both checks the typed decoder RETURNS. *)
Theorem C02_typed_decoder_returns : forall S OPS ATTRS OBJS {R} (F : rawfmt R), fmt_total F ->
  dec_safe_schema S OPS ATTRS OBJS = true -> acyclic_schema S OPS ATTRS OBJS = true ->
  forall fuel st t tag c, decodable S t = true ->
    (bound S OPS ATTRS OBJS t + K_ELEM * csize c <= fuel)%nat ->
    (exists r, dec_ty S OPS ATTRS OBJS F fuel st t tag c = Ok r) \/
    dec_ty S OPS ATTRS OBJS F fuel st t tag c = Err.
Proof. exact dec_ty_returns. Qed.
Print Assumptions C02_typed_decoder_returns.

(** The schema regenerated from the library is acyclic (every definition that can be handed
    to the decoder has a depth), and the static depth of both message roots is 57. *)
Theorem C02_kmip_schema_acyclic :
  acyclic_schema kmip_schema kmip_ops kmip_attrs kmip_objs = true /\
  cyclic_names kmip_schema kmip_ops kmip_attrs kmip_objs = [].
Proof. exact (conj kmip_schema_acyclic kmip_cyclic_names). Qed.
Print Assumptions C02_kmip_schema_acyclic.

Theorem C02_kmip_roots_bound :
  bound kmip_schema kmip_ops kmip_attrs kmip_objs (TNamed "kmip.RequestMessage") = 57%nat /\
  bound kmip_schema kmip_ops kmip_attrs kmip_objs (TNamed "kmip.ResponseMessage") = 57%nat.
Proof. exact kmip_roots_bound. Qed.
Print Assumptions C02_kmip_roots_bound.

(** Decoding a message over ANY total reader format (this is what UnmarshalTTLV / XML / JSON
    run once their reader is built): B_kmip = 57, K_ELEM = 2, FUEL = 3000. *)
Theorem C02_kmip_dec_terminates : forall {R} (F : rawfmt R), fmt_total F ->
  forall root c, (root = "kmip.RequestMessage" \/ root = "kmip.ResponseMessage")%string ->
  (B_kmip + K_ELEM * csize c <= FUEL)%nat ->
  kmip_dec F root c <> OutOfFuel.
Proof. exact (@kmip_dec_terminates). Qed.
Print Assumptions C02_kmip_dec_terminates.

(** ttlv.UnmarshalTTLV(bytes, &kmip.RequestMessage{}) / (bytes, &kmip.ResponseMessage{}): the
    executable model, with its fixed fuel, terminates on EVERY byte string of up to 11 775
    bytes (each raw element takes at least 8 bytes: 57 + 2 * (11775 / 8) = 2999) *)
Theorem C02_kmip_unmarshal_terminates : forall root bs,
  (root = "kmip.RequestMessage" \/ root = "kmip.ResponseMessage")%string ->
  bytes_ok bs = true ->
  (B_kmip + K_ELEM * (List.length bs / 8) <= FUEL)%nat ->
  kmip_unmarshal root bs <> OutOfFuel.
Proof. exact kmip_unmarshal_terminates. Qed.
Print Assumptions C02_kmip_unmarshal_terminates.

Theorem C02_kmip_unmarshal_terminates_11k : forall root bs,
  (root = "kmip.RequestMessage" \/ root = "kmip.ResponseMessage")%string ->
  bytes_ok bs = true -> len bs <= 11775 ->
  kmip_unmarshal root bs <> OutOfFuel.
Proof. exact kmip_unmarshal_terminates_11k. Qed.
Print Assumptions C02_kmip_unmarshal_terminates_11k.

(** ... and, with C02_kmip_unmarshal_never_panics, returns a value or an error *)
Theorem C02_kmip_unmarshal_returns : forall root bs,
  (root = "kmip.RequestMessage" \/ root = "kmip.ResponseMessage")%string ->
  bytes_ok bs = true ->
  (B_kmip + K_ELEM * (List.length bs / 8) <= FUEL)%nat ->
  (exists v, kmip_unmarshal root bs = Ok v) \/ kmip_unmarshal root bs = Err.
Proof. exact kmip_unmarshal_returns. Qed.
Print Assumptions C02_kmip_unmarshal_returns.

(** ttlv.UnmarshalXML / ttlv.UnmarshalJSON into a message, for any tag / enumeration registry:
    in terms of the number of raw elements of the cursor the reader builds from the document *)
Theorem C02_kmip_unmarshal_xml_terminates : forall G root doc cut,
  (root = "kmip.RequestMessage" \/ root = "kmip.ResponseMessage")%string ->
  (forall c, TextFmt.xml_cursor G doc cut = Ok c -> (B_kmip + K_ELEM * csize c <= FUEL)%nat) ->
  kmip_unmarshal_xml G root doc cut <> OutOfFuel.
Proof. exact kmip_unmarshal_xml_terminates. Qed.
Print Assumptions C02_kmip_unmarshal_xml_terminates.

Theorem C02_kmip_unmarshal_json_terminates : forall G root doc,
  (root = "kmip.RequestMessage" \/ root = "kmip.ResponseMessage")%string ->
  (forall c, TextFmt.json_cursor G doc = Ok c -> (B_kmip + K_ELEM * csize c <= FUEL)%nat) ->
  kmip_unmarshal_json G root doc <> OutOfFuel.
Proof. exact kmip_unmarshal_json_terminates. Qed.
Print Assumptions C02_kmip_unmarshal_json_terminates.

(** Non-vacuity.  A real request (protocol 1.4, one Get batch item, 120 bytes, 10 raw
    elements) decodes - back to the message that was encoded - with fuel EQUAL to the bound
    57 + 2 * 10; the fuel is really consumed: with 15 units the model reports exhaustion, 16
    are enough for this message. *)
Definition ex_get_message : value :=
  VStruct "kmip.RequestMessage"
    [VStruct "kmip.RequestHeader" [VStruct "kmip.ProtocolVersion" [VInt 1; VInt 4]; VInt 0; VStr []; VStr [];
       VNil; VNil; VList []; VNil; VInt 0; VNil; VNil; VInt 1];
     VList [VStruct "kmip.RequestBatchItem"
       [VInt 10; VStr []; VIface (TPtr (TNamed "payloads.GetRequestPayload"))
          (VPtr (VStruct "payloads.GetRequestPayload" [VStr [105; 100; 45; 49]; VInt 0; VInt 0; VInt 0; VNil])); VNil]]].

Definition ex_get_bytes : list Z :=
  [66; 0; 120; 1; 0; 0; 0; 112; 66; 0; 119; 1; 0; 0; 0; 56; 66; 0; 105; 1; 0; 0; 0; 32;
   66; 0; 106; 2; 0; 0; 0; 4; 0; 0; 0; 1; 0; 0; 0; 0; 66; 0; 107; 2; 0; 0; 0; 4; 0; 0; 0; 4; 0; 0; 0; 0;
   66; 0; 13; 2; 0; 0; 0; 4; 0; 0; 0; 1; 0; 0; 0; 0; 66; 0; 15; 1; 0; 0; 0; 40;
   66; 0; 92; 5; 0; 0; 0; 4; 0; 0; 0; 10; 0; 0; 0; 0; 66; 0; 121; 1; 0; 0; 0; 16;
   66; 0; 148; 7; 0; 0; 0; 4; 105; 100; 45; 49; 0; 0; 0; 0].

Definition ex_dec_with (fuel : nat) : res bool :=
  do c <- bin_cursor ex_get_bytes ;;
  do r <- dec_ty kmip_schema kmip_ops kmip_attrs kmip_objs bin_fmt fuel None (TNamed "kmip.RequestMessage") 4325496 c ;;
  Ok (value_eqb (fst (fst r)) ex_get_message).

Example C02_term_bound_not_vacuous :
  kmip_marshal "kmip.RequestMessage" ex_get_message = Ok ex_get_bytes
  /\ (do c <- bin_cursor ex_get_bytes ;; Ok (csize c)) = Ok 10%nat
  /\ ex_dec_with (B_kmip + K_ELEM * 10) = Ok true
  /\ ex_dec_with 15 = OutOfFuel
  /\ ex_dec_with 16 = Ok true.
Proof. vm_compute. repeat split; reflexivity. Qed.

(** The acyclicity hypothesis does work: a definition that contains itself has no depth, the
    check rejects the schema, and on a nest of N such structures the model needs fuel that
    grows with N whatever the static part (here: 7 levels exhaust 12 units of fuel). *)
Open Scope string_scope.
Definition rec_node : tdef := {| t_name := "x.Node"; t_fields := [
    {| f_name := "Next"; f_tag := 4325384; f_ty := TPtr (TNamed "x.Node"); f_omit := false; f_range := None; f_setver := false |}];
  t_custom_enc := false; t_custom_dec := false; t_deftag := 4325384 |}.
Definition rec_schema : schema := [rec_node].
Fixpoint rec_input (n : nat) : list Z :=
  match n with
  | O => [66; 0; 8; 1; 0; 0; 0; 0]
  | Datatypes.S k => [66; 0; 8; 1; 0; 0; 0; 8 * (Z.of_nat k + 1)] ++ rec_input k
  end%list.

Example C02_term_check_rejects_cycle :
  acyclic_schema rec_schema [] [] [] = false
  /\ cyclic_names rec_schema [] [] [] = ["x.Node"]
  /\ dec_safe_schema rec_schema [] [] [] = true
  /\ decodable rec_schema (TNamed "x.Node") = true
  /\ (do c <- bin_cursor (rec_input 6) ;; dec_ty rec_schema [] [] [] bin_fmt 12 None (TNamed "x.Node") 4325384 c) = OutOfFuel
  /\ is_ok (do c <- bin_cursor (rec_input 6) ;; dec_ty rec_schema [] [] [] bin_fmt 30 None (TNamed "x.Node") 4325384 c) = true.
Proof. vm_compute. repeat split; reflexivity. Qed.
