(** C17 - tag, enumeration and bit-mask names form a stable bijection. Statements only. *)
From Coq Require Import ZArith List Bool String.
From KV Require Import Base RegModel RegModelProofs RegKmip.
Import ListNotations.
Open Scope Z_scope.

Theorem C17_registry_ok : registry_ok kmip_registry = true.
Proof. exact kmip_registry_ok. Qed.
Print Assumptions C17_registry_ok.
