(** C17 - tag, enumeration and bit-mask names form a stable bijection.
    Statements only; proofs are in RegModelProofs.v (generic in the registry) and RegKmip.v
    (the registry regenerated from the library under check, [kmip_registry]).
    Names are byte strings ([str] = list Z); [s2b] converts a Coq string literal. *)
From Coq Require Import ZArith List Bool String.
From KV Require Import Base RegModel RegModelProofs PinnedRegistry RegKmip.
From KVGen Require Registry.
Import ListNotations.
Open Scope Z_scope.

(* ---------------------------------------------------------------- the registry of the library *)

(* the decidable well-formedness check computes to true on the regenerated registry *)
Theorem C17_kmip_registry_ok : registry_ok kmip_registry = true.
Proof. exact kmip_registry_ok. Qed.
Print Assumptions C17_kmip_registry_ok.

(* tags: the forward map tagNames and the reverse map tagByName are mutually inverse *)
Theorem C17_tags_bij : forall n s,
  zfind n (tagNames kmip_registry) = Some s <-> sfind s (tagByName kmip_registry) = Some n.
Proof. exact (tags_bij kmip_registry kmip_registry_ok). Qed.
Print Assumptions C17_tags_bij.

(* the same through the Go functions getTagName / getTagByName *)
Theorem C17_tags_bij_go : forall n s, s <> [] ->
  (getTagName kmip_registry n = s <-> getTagByName kmip_registry s = Some n).
Proof. exact (tags_bij_go kmip_registry kmip_registry_ok). Qed.
Print Assumptions C17_tags_bij_go.

(* enumerations: within each enumeration, EnumName and EnumByName are mutually inverse *)
Theorem C17_enums_bij : forall t v s, s <> [] ->
  (EnumName kmip_registry t v = s <-> EnumByName kmip_registry t s = Some v).
Proof. exact (enums_bij_go kmip_registry kmip_registry_ok). Qed.
Print Assumptions C17_enums_bij.

(* bit masks: flag i of mask t is named s  <->  s denotes 1 << i (as int32: bit 31 is -2^31) *)
Theorem C17_masks_bij : forall t i s, (i < 32)%nat -> s <> [] ->
  (mask_flag_name kmip_registry t i = s <-> BitmaskByStr kmip_registry t s = Some (shl32 i)).
Proof. exact (masks_bij_go kmip_registry kmip_registry_ok). Qed.
Print Assumptions C17_masks_bij.

(* TTLV type names *)
Theorem C17_types_bij : forall n s,
  type_string kmip_registry n = Some s <-> type_from_name kmip_registry s = Some n.
Proof. exact (types_bij kmip_registry kmip_registry_ok). Qed.
Print Assumptions C17_types_bij.

(* every registered name - tag, enumeration value, mask flag, type - is non-empty, is not taken
   for a number by any reader (no 0x / 0X prefix, not a decimal), and consists of [A-Za-z0-9_]
   only (so: no blank, no '|', nothing XML or JSON would escape) *)
Theorem C17_names_hygiene : forall s, In s (all_names kmip_registry) ->
  s <> [] /\ has_prefix s_0x s = false /\ has_prefix s_0X s = false /\
  parse_uint 10 32 s = None /\ parse_int 10 32 s = None /\
  (forall c, In c s -> (65 <= c <= 90) \/ (97 <= c <= 122) \/ (48 <= c <= 57) \/ c = 95).
Proof. exact (names_hygiene kmip_registry kmip_registry_ok). Qed.
Print Assumptions C17_names_hygiene.

(* registered tags are non-zero three-byte numbers; no tag is named TTLV *)
Theorem C17_tag_numbers : forall n s, zfind n (tagNames kmip_registry) = Some s ->
  0 < n < 2 ^ 24 /\ s <> s_TTLV.
Proof.
  intros n s H. split.
  - exact (tag_numbers kmip_registry kmip_registry_ok n s H).
  - exact (proj1 (proj2 (tag_registered kmip_registry kmip_registry_ok n s H))).
Qed.
Print Assumptions C17_tag_numbers.

(* the quantifier of the property: 292 tags, 48 enumerations (601 values), 2 bit masks (22 flags) *)
Theorem C17_registry_size :
  List.length (tagNames kmip_registry) = 292%nat /\ List.length (enumNames kmip_registry) = 48%nat /\
  List.length (bitmaskNames kmip_registry) = 2%nat /\
  List.length (flat_map (fun p => snd p) (enumNames kmip_registry)) = 601%nat /\
  List.length (flat_map (fun p => snd p) (bitmaskNames kmip_registry)) = 22%nat.
Proof. exact kmip_registry_size. Qed.
Print Assumptions C17_registry_size.

(* numbers and names are exactly those of the pinned KMIP 1.0 - 1.4 snapshot *)
Theorem C17_registry_pinned :
  Registry.tag_names = pinned_tag_names /\ Registry.tag_by_name = pinned_tag_by_name /\
  Registry.enum_names = pinned_enum_names /\ Registry.enums_by_name = pinned_enums_by_name /\
  Registry.bitmask_names = pinned_bitmask_names /\ Registry.bitmask_by_name = pinned_bitmask_by_name /\
  Registry.type_names = pinned_type_names /\ Registry.name_types = pinned_name_types.
Proof. exact kmip_tables_pinned. Qed.
Print Assumptions C17_registry_pinned.

(* ---------------------------------------------------------------- text round trips, any registry *)

(* tags, all numbers below 2^31 whether registered or not: what xmlWriter.startElement writes
   (element name, or TTLV + tag="0x.." attribute) and what TagString writes (JSON, text) is read
   back by xmlReader.Tag / jsonReader.Tag as the same number *)
Theorem C17_tag_text_rt : forall R, registry_ok R = true -> forall n, 0 <= n < 2 ^ 31 ->
  read_tag R (xml_raw_tag (xml_start R n)) = n /\ read_tag R (TagString R n) = n.
Proof. exact tag_text_rt. Qed.
Print Assumptions C17_tag_text_rt.

(* enumerations, every uint32 value named or not (hex fall-back), every enumeration tag registered
   or not, with or without a separate real tag: XML attribute / text form *)
Theorem C17_enum_text_rt : forall R, registry_ok R = true -> forall enumtag tag v, 0 <= v < 2 ^ 32 ->
  read_enum R enumtag tag (write_enum R enumtag tag v) = Ok v.
Proof. exact enum_text_rt. Qed.
Print Assumptions C17_enum_text_rt.

(* JSON string form, and the plain JSON number form *)
Theorem C17_enum_json_rt : forall R, registry_ok R = true -> forall enumtag tag v, 0 <= v < 2 ^ 32 ->
  read_enum_json R enumtag tag (JStr (write_enum R enumtag tag v)) = Ok v /\
  read_enum_json R enumtag tag (JNum v) = Ok v.
Proof.
  intros R H enumtag tag v Hv. split; [apply enum_json_rt | apply enum_json_num]; assumption.
Qed.
Print Assumptions C17_enum_json_rt.

(* MarshalText / UnmarshalText of an enumeration type registered under tag t (t = 0: not registered) *)
Theorem C17_enum_marshal_rt : forall R, registry_ok R = true -> forall t v, 0 <= v < 2 ^ 32 ->
  unmarshal_text R t (marshal_text R t v) = Ok v.
Proof. exact enum_marshal_rt. Qed.
Print Assumptions C17_enum_marshal_rt.

(* bit masks, every int32 value: named flags, unnamed bits in hex, bit 31, the empty mask *)
Theorem C17_mask_xml_rt : forall R, registry_ok R = true -> forall masktag tag v, - 2 ^ 31 <= v < 2 ^ 31 ->
  read_mask_xml R masktag tag (write_mask_xml R masktag tag v) = Ok v.
Proof. exact mask_xml_rt. Qed.
Print Assumptions C17_mask_xml_rt.

Theorem C17_mask_json_rt : forall R, registry_ok R = true -> forall masktag tag v, - 2 ^ 31 <= v < 2 ^ 31 ->
  read_mask_json R masktag tag (JStr (write_mask_json R masktag tag v)) = Ok v /\
  read_mask_json R masktag tag (JNum v) = Ok v.
Proof.
  intros R H masktag tag v Hv. split; [apply mask_json_rt | apply mask_json_num]; assumption.
Qed.
Print Assumptions C17_mask_json_rt.

(* MarshalText (" | " separated) / UnmarshalText of a bit-mask type registered under tag t *)
Theorem C17_mask_text_rt : forall R, registry_ok R = true -> forall t v, - 2 ^ 31 <= v < 2 ^ 31 ->
  mask_unmarshal_text R t (write_mask_text R t v) = Ok v.
Proof. exact mask_text_rt. Qed.
Print Assumptions C17_mask_text_rt.

(* all of the above at the registry of the library under check *)
Theorem C17_kmip_text_rt :
  (forall n, 0 <= n < 2 ^ 31 ->
     read_tag kmip_registry (xml_raw_tag (xml_start kmip_registry n)) = n /\
     read_tag kmip_registry (TagString kmip_registry n) = n) /\
  (forall et t v, 0 <= v < 2 ^ 32 ->
     read_enum kmip_registry et t (write_enum kmip_registry et t v) = Ok v /\
     read_enum_json kmip_registry et t (JStr (write_enum kmip_registry et t v)) = Ok v /\
     unmarshal_text kmip_registry t (marshal_text kmip_registry t v) = Ok v) /\
  (forall bt t v, - 2 ^ 31 <= v < 2 ^ 31 ->
     read_mask_xml kmip_registry bt t (write_mask_xml kmip_registry bt t v) = Ok v /\
     read_mask_json kmip_registry bt t (JStr (write_mask_json kmip_registry bt t v)) = Ok v /\
     mask_unmarshal_text kmip_registry t (write_mask_text kmip_registry t v) = Ok v).
Proof. exact kmip_text_rt. Qed.
Print Assumptions C17_kmip_text_rt.

(* ---------------------------------------------------------------- non-vacuity *)

Local Open Scope string_scope.

(* concrete instances: a named value, the hex fall-back, a named and an unnamed tag, a mask with
   named flags and bit 31, the empty mask in JSON, the " | " form *)
Example C17_nonvacuous :
  write_enum kmip_registry 0 4325416 3 = s2b "AES" /\
  read_enum kmip_registry 0 4325416 (s2b "AES") = Ok 3 /\
  write_enum kmip_registry 0 4325416 4096 = s2b "0x00001000" /\
  read_enum kmip_registry 0 4325416 (s2b "0x00001000") = Ok 4096 /\
  xml_start kmip_registry 4325377 = (s2b "ActivationDate", None) /\
  xml_start kmip_registry 5505025 = (s2b "TTLV", Some (s2b "0x540001")) /\
  write_mask_xml kmip_registry 0 4325420 (-2147483643) = s2b "Sign Encrypt 0x80000000" /\
  read_mask_xml kmip_registry 0 4325420 (s2b "Sign Encrypt 0x80000000") = Ok (-2147483643) /\
  write_mask_json kmip_registry 0 4325420 0 = [] /\
  read_mask_json kmip_registry 0 4325420 (JStr []) = Ok 0 /\
  write_mask_text kmip_registry 4325420 12 = s2b "Encrypt | Decrypt" /\
  mask_unmarshal_text kmip_registry 4325420 (s2b "Encrypt | Decrypt") = Ok 12.
Proof. exact kmip_examples. Qed.
Print Assumptions C17_nonvacuous.

(* the defect repaired in the three mask readers: bit 31 is written 0x80000000, which
   ParseInt(.., 16, 32) rejects and ParseUint(.., 16, 32) accepts *)
Example C17_bit31_needs_unsigned :
  parse_int 16 32 (s2b "80000000") = None /\ parse_uint 16 32 (s2b "80000000") = Some (2 ^ 31) /\
  to_i32 (2 ^ 31) = shl32 31.
Proof. exact bit31_needs_unsigned. Qed.
Print Assumptions C17_bit31_needs_unsigned.

(* the hygiene part of [registry_ok] is necessary: with a numeric-looking name the maps are still
   mutually inverse, the checker says no, and the text round trip indeed returns another number *)
Example C17_hygiene_is_needed :
  registry_ok numeric_name_registry = false /\
  bij_check [(7, s2b "12")] [(s2b "12", 7)] = true /\
  read_enum numeric_name_registry 0 1 (write_enum numeric_name_registry 0 1 7) = Ok 12.
Proof. exact hygiene_is_needed. Qed.
Print Assumptions C17_hygiene_is_needed.
