(** C01 on the executable functions - Binary TTLV round trip of whole KMIP messages, stated on
    [kmip_marshal] / [kmip_unmarshal] (KmipCodec.v: the functions the correspondence check
    compares with ttlv.MarshalTTLV / ttlv.UnmarshalTTLV, both run at the fixed fuel FUEL),
    with hypotheses on the MESSAGE only.  Statements only; proofs in EncFuelProofs.v (fuel),
    EncRangeProofs.v (ranges), DecFuelProofs.v (decoder fuel), KmipExec.v (assembly on the schema regenerated from /repo).

    Hypotheses of the round trip, all decidable on the message:
      - [conf_ty] (Roundtrip.v): the message is what a decoder reconstructs (right shape,
        omitted elements hold the zero value, trees carry the tag of their position);
      - [val_ranged] (EncFuel.v): every integer lies in the range of the TTLV item its kind is
        written as (Integer / Bit mask int32, Long Integer / Date-Time int64, Enumeration /
        Interval uint32 - so never a negative interval), strings hold bytes, generic trees
        are in range, dynamic tags fit 24 bits;
      - size, in either of two forms:
        (D') on the BYTES alone: length bytes <= 11775 for a request / response message
        (static depth 57 of the message type + 2 units per 8 bytes within FUEL = 3000; for
        another root structure its own static depth DecTerm.bound) - [kmip_marshal = Ok]
        already says that the encoder had enough fuel, and the decoder's result does not
        depend on the fuel once it is enough (DecFuelProofs.v);
        (D) on the value and the bytes: 4 * vdepth v + length bytes + 8 <= 4 * FUEL, i.e.
        vdepth v + 2 * (length bytes / 8) + 2 <= 3000, where [vdepth v] (EncFuel.v) is the
        longest chain of encoder calls for [v] (nesting + position in slices / field lists);
        this form does not go through the decoder's termination bound.
        Both imply length bytes < 12008 < 2^32, so no separate length hypothesis is needed. *)
From Coq Require Import ZArith List Bool String.
From KV Require Import Base Wire Cursor Schema SchemaSem Roundtrip KmipCodec RtExamples DecSafe DecTerm
  EncFuel EncFuelProofs EncRangeProofs DecFuelProofs KmipExec.
From KVGen Require Import KmipSchema.
Import ListNotations.
Open Scope Z_scope.

(** A. Fuel monotonicity of the typed encoder, for ANY schema: a result other than OutOfFuel
    (Ok, Err or Panic) is the result at every larger fuel. *)
Theorem C01_enc_fuel_stable : forall (S : schema) f g st t tag v, (f <= g)%nat ->
  enc_ty S f st t tag v <> OutOfFuel -> enc_ty S g st t tag v = enc_ty S f st t tag v.
Proof. exact enc_ty_stable. Qed.
Print Assumptions C01_enc_fuel_stable.

Theorem C01_enc_fuel_mono : forall (S : schema) f g st t tag v r, (f <= g)%nat ->
  enc_ty S f st t tag v = Ok r -> enc_ty S g st t tag v = Ok r.
Proof. exact enc_ty_mono. Qed.
Print Assumptions C01_enc_fuel_mono.

(** B. Sufficient fuel, for ANY schema, type and tag: [vdepth v] units are enough, hence every
    run with at least that much is the run with exactly [vdepth v]. *)
Theorem C01_enc_fuel_enough : forall (S : schema) f st t tag v, (vdepth v <= f)%nat ->
  enc_ty S f st t tag v <> OutOfFuel /\ enc_ty S f st t tag v = enc_ty S (vdepth v) st t tag v.
Proof. intros S f st t tag v H. split; [apply enc_ty_fueled, H | apply enc_ty_at_depth, H]. Qed.
Print Assumptions C01_enc_fuel_enough.

(** C. Ranges from the value, for ANY schema satisfying the static condition [schema_rng_ok]:
    the items written for a value in range are in range, and the writer does not panic on them;
    a total encoding below 2^32 bytes has every length below 2^32. *)
Theorem C01_enc_ranged : forall (S : schema), schema_rng_ok S = true ->
  forall f st t tag v items st', tag_ok tag = true ->
  enc_ty S f st t tag v = Ok (items, st') -> val_ranged S t v = true ->
  forallb item_ok items = true /\ existsb enc_panics items = false.
Proof. intros S HS f st t tag v items st' Ht He Hr. pose proof (enc_ty_ranged S HS f st t tag v items st' Ht He Hr) as H. split; [exact H | apply items_ok_quiet, H]. Qed.
Print Assumptions C01_enc_ranged.

Theorem C01_small_of_length : forall l : list item, len (wire_enc_list l) < 2 ^ 32 -> forallb item_small l = true.
Proof. exact items_small_of_len. Qed.
Print Assumptions C01_small_of_length.

Theorem C01_kmip_schema_ranges : schema_rng_ok kmip_schema = true.
Proof. exact kmip_schema_rng_ok. Qed.
Print Assumptions C01_kmip_schema_ranges.

(** D. The whole-message round trip on the executable functions. *)
Theorem C01_kmip_marshal_unmarshal : forall root d v bytes sc fc,
  find_tdef kmip_schema root = Some d ->
  kmip_marshal root v = Ok bytes ->
  conf_ty kmip_schema kmip_ops kmip_attrs kmip_objs fc None (TNamed root) (t_deftag d) v = Some sc ->
  val_ranged kmip_schema (TNamed root) v = true ->
  (4 * vdepth v + List.length bytes + 8 <= 4 * FUEL)%nat ->
  kmip_unmarshal root bytes = Ok v.
Proof. exact kmip_marshal_unmarshal. Qed.
Print Assumptions C01_kmip_marshal_unmarshal.

(** ... and marshal is defined (no panic of the writer) for every ranged message the encoder
    accepts at some fuel, when its call chain fits FUEL. *)
Theorem C01_kmip_marshal_defined : forall root d v items st' f,
  find_tdef kmip_schema root = Some d ->
  enc_ty kmip_schema f None (TNamed root) (t_deftag d) v = Ok (items, st') ->
  val_ranged kmip_schema (TNamed root) v = true ->
  (vdepth v <= FUEL)%nat ->
  kmip_marshal root v = Ok (wire_enc_list items).
Proof. exact kmip_marshal_defined. Qed.
Print Assumptions C01_kmip_marshal_defined.

(** A'. Fuel monotonicity of the typed DECODER, for ANY schema and reader format: a result
    other than OutOfFuel is the result at every larger fuel. *)
Theorem C01_dec_fuel_stable : forall (S : schema) OPS ATTRS OBJS (R : Type) (F : rawfmt R) f g st t tag c, (f <= g)%nat ->
  dec_ty S OPS ATTRS OBJS F f st t tag c <> OutOfFuel ->
  dec_ty S OPS ATTRS OBJS F g st t tag c = dec_ty S OPS ATTRS OBJS F f st t tag c.
Proof. intros S OPS ATTRS OBJS R F. exact (dec_ty_stable S OPS ATTRS OBJS F). Qed.
Print Assumptions C01_dec_fuel_stable.

(** D'. The same round trip with the size hypothesis on the BYTES alone (decoder stability +
    the termination bound of C02Term): request / response messages up to 11775 bytes ... *)
Theorem C01_kmip_message_marshal_unmarshal : forall root d v bytes sc fc,
  (root = "kmip.RequestMessage" \/ root = "kmip.ResponseMessage")%string ->
  find_tdef kmip_schema root = Some d ->
  kmip_marshal root v = Ok bytes ->
  conf_ty kmip_schema kmip_ops kmip_attrs kmip_objs fc None (TNamed root) (t_deftag d) v = Some sc ->
  val_ranged kmip_schema (TNamed root) v = true ->
  len bytes <= 11775 ->
  kmip_unmarshal root bytes = Ok v.
Proof. exact kmip_message_marshal_unmarshal. Qed.
Print Assumptions C01_kmip_message_marshal_unmarshal.

(** ... and any decodable root structure of the schema, with the static depth of its type. *)
Theorem C01_kmip_marshal_unmarshal_bytes : forall root d v bytes sc fc,
  find_tdef kmip_schema root = Some d ->
  kmip_marshal root v = Ok bytes ->
  conf_ty kmip_schema kmip_ops kmip_attrs kmip_objs fc None (TNamed root) (t_deftag d) v = Some sc ->
  val_ranged kmip_schema (TNamed root) v = true ->
  decodable kmip_schema (TNamed root) = true ->
  (bound kmip_schema kmip_ops kmip_attrs kmip_objs (TNamed root) + 2 * (List.length bytes / 8) <= FUEL)%nat ->
  kmip_unmarshal root bytes = Ok v.
Proof. exact kmip_marshal_unmarshal_bytes. Qed.
Print Assumptions C01_kmip_marshal_unmarshal_bytes.

(** Non-vacuity: the request message of RtExamples.v (credential in the header, an Import batch
    item carrying a symmetric key with attributes, a message extension: call chain 50, 768
    bytes) satisfies every hypothesis by computation, so the theorem applies to it. *)
Example C01_exec_example :
  exists d bytes sc,
    find_tdef kmip_schema "kmip.RequestMessage" = Some d /\
    kmip_marshal "kmip.RequestMessage" ex_message = Ok bytes /\
    conf_ty kmip_schema kmip_ops kmip_attrs kmip_objs 60 None (TNamed "kmip.RequestMessage") (t_deftag d) ex_message = Some sc /\
    val_ranged kmip_schema (TNamed "kmip.RequestMessage") ex_message = true /\
    fits FUEL ex_message (List.length bytes) = true /\
    vdepth ex_message = 50%nat /\ List.length bytes = 768%nat.
Proof.
  do 3 eexists.
  split; [vm_compute; reflexivity|]. split; [vm_compute; reflexivity|]. split; [vm_compute; reflexivity|].
  split; [vm_compute; reflexivity|]. split; [vm_compute; reflexivity|]. split; vm_compute; reflexivity.
Qed.

Example C01_exec_example_bytes :
  exists bytes, kmip_marshal "kmip.RequestMessage" ex_message = Ok bytes /\ len bytes <= 11775.
Proof. eexists. split; [vm_compute; reflexivity | vm_compute; discriminate]. Qed.

Example C01_exec_example_roundtrip :
  exists bytes, kmip_marshal "kmip.RequestMessage" ex_message = Ok bytes /\
                kmip_unmarshal "kmip.RequestMessage" bytes = Ok ex_message.
Proof.
  destruct C01_exec_example as (d & bytes & sc & Ed & Hm & Hc & Hr & Hf & _).
  exists bytes. split; [exact Hm|]. exact (kmip_marshal_unmarshal_fits _ _ _ _ _ _ Ed Hm Hc Hr Hf).
Qed.
