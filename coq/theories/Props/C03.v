(** C03 - Binary encoder output conforms to the KMIP TTLV wire format.
    Statements only; proofs are in WireProofs.v.  [wire_enc] transcribes ttlvWriter
    (ttlv/encoding_ttlv.go), [spec_parse] is the independent strict parser written from
    KMIP 1.4 section 9.1, [item_ok] says the values fit their Go types, [item_small] that
    encoded sizes stay below 2^32. *)
From Coq Require Import ZArith List Bool.
From KV Require Import Base Wire Cursor WireProofs.
Import ListNotations.
Open Scope Z_scope.

(** Every encoding of every writer-call tree (any depth, any number of children, any
    string lengths, any big integer) is accepted by the independent parser - so each item
    is tag(3) type(1..10) length(4, big-endian) value zero-padded to a multiple of 8, fixed
    widths exact, structure length = total size of its padded children - and the parser
    reads back exactly the tags and scalar values handed to the encoder. *)
Theorem C03_encoding_conforms : forall i : item,
  item_ok i = true -> item_small i = true ->
  spec_parse (S (length (wire_enc i))) (wire_enc i) = Some [to_wire i].
Proof. exact enc_conforms. Qed.
Print Assumptions C03_encoding_conforms.

Theorem C03_encoding_conforms_seq : forall l : list item,
  forallb item_ok l = true -> forallb item_small l = true ->
  spec_parse (S (length (wire_enc_list l))) (wire_enc_list l) = Some (map to_wire l).
Proof. exact enc_conforms_list. Qed.
Print Assumptions C03_encoding_conforms_seq.

(** Big integers: two's complement, sign-extended to a positive multiple of 8 bytes. *)
Theorem C03_big_integer_twos_complement : forall v : Z,
  sp_signed (enc_big v) = v /\ 0 < len (enc_big v) /\ len (enc_big v) mod 8 = 0.
Proof. exact enc_big_decodes. Qed.
Print Assumptions C03_big_integer_twos_complement.

(** Every item occupies a multiple of 8 bytes. *)
Theorem C03_items_padded : forall i : item, len (wire_enc i) mod 8 = 0.
Proof. exact wire_enc_len8. Qed.
Print Assumptions C03_items_padded.

(** Non-vacuity: a nested message-like tree meets the hypotheses and its encoding parses. *)
Example C03_example :
  let t := IStruct 0x420078 [IStruct 0x420077 [IStruct 0x420069 [IInt 0x42006a 1; IInt 0x42006b 4]; IInt 0x42000d 1];
                             IStruct 0x42000f [IEnum 0x42005c 0 10; IBytes 0x420093 [1; 2; 3];
                                               IBig 0x420052 (-129); IText 0x420055 [104; 105]; IIntv 0x42004a 3600]] in
  item_ok t = true /\ item_small t = true /\
  spec_parse (S (length (wire_enc t))) (wire_enc t) = Some [to_wire t].
Proof. vm_compute. repeat split; reflexivity. Qed.
