From Coq Require Import List Bool PArith ZArith.
From KV Require Import Lts ConnServer ConnServerProofs.
Import ListNotations.
Example C08_placeholder : True. Proof. exact I. Qed.
