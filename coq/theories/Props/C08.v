(** C08 — the server stays available whatever clients and handlers do.
    Statements only; the model is ConnServer.v, the proofs are in ConnServerProofs.v.

    [cstep cfg_repo] is the labelled small-step relation of one connection of the repository's
    current kmipserver code (readloop, writeloop, handleConn with recv/send/terminate inlined);
    the peer, the operation handlers, the connect hook, the TLS handshake, Shutdown's
    recvCancel and the cancellation of the root context are the environment and may act in any
    order, any number of times.  [gstep cfg_repo A] adds the data held by the goroutines and
    the read/write histories, for a peer sending messages from an arbitrary alphabet [A].
    All statements quantify over executions of ANY length. *)
From Coq Require Import List Bool PArith ZArith.
From KV Require Import Lts ConnServer ConnServerProofs Server ServerProofs HttpHandler HttpHandlerProofs.
Import ListNotations.

(* no send on a closed channel, no close of a closed channel: the connection goroutines never panic *)
Theorem C08_conn_no_panic : forall tls s,
  reachable (cstep cfg_repo) (cinit tls) s -> panicked s = false.
Proof. exact conn_no_panic. Qed.
Print Assumptions C08_conn_no_panic.

(* no deadlock: a state in which nothing can happen any more (not even a move of the peer, of
   Shutdown or of the root context) has readloop, writeloop and handleConn all returned *)
Theorem C08_conn_no_deadlock : forall tls s,
  reachable (cstep cfg_repo) (cinit tls) s -> cstep cfg_repo s = [] -> all_done s = true.
Proof. exact conn_no_deadlock. Qed.
Print Assumptions C08_conn_no_deadlock.

(* internal steps (goroutine steps, handler/hook completion, I/O failures on a finished socket)
   cannot go on forever without a new message or a move of the peer: bounded under every schedule *)
Theorem C08_conn_internal_terminates : forall tls s,
  reachable (cstep cfg_repo) (cinit tls) s ->
  exists n, forall p, path (istep cfg_repo) s p -> length p <= n.
Proof. intros tls s H. exists (irank s). exact (conn_internal_terminates tls s H). Qed.
Print Assumptions C08_conn_internal_terminates.

(* ... and they can only stop with everything returned, or idle (all three goroutines waiting for
   the peer's next message on a live connection), or with writeloop inside a write the peer does not read *)
Theorem C08_conn_internal_quiescent : forall tls s,
  reachable (cstep cfg_repo) (cinit tls) s -> istep cfg_repo s = [] ->
  all_done s = true \/ idle s = true \/ write_blocked s = true.
Proof. exact conn_internal_quiescent. Qed.
Print Assumptions C08_conn_internal_quiescent.

(* no goroutine is kept for a connection that has ended: once the peer is gone or half-closed, or
   the server closed the socket, every run of internal steps (finite by the theorem above) ends
   with readloop, writeloop and handleConn all returned - at any moment of the exchange,
   including while a handler runs or a response is being written *)
Theorem C08_conn_no_leak : forall tls s,
  reachable (cstep cfg_repo) (cinit tls) s -> conn_over s = true ->
  forall t, reachable (istep cfg_repo) s t -> istep cfg_repo t = [] -> all_done t = true.
Proof. exact conn_no_leak. Qed.
Print Assumptions C08_conn_no_leak.

(* responses are written in request order, each once, each being the response the code computes
   for its request: what has been written is the image of a prefix of what has been read *)
Theorem C08_responses_in_order : forall A tls x,
  reachable (gstep cfg_repo A) (ginit_state tls) x ->
  writes (snd x) = map resp_entry (firstn (length (writes (snd x))) (reads (snd x))).
Proof. exact conn_responses_in_order. Qed.
Print Assumptions C08_responses_in_order.

Theorem C08_reads_numbered : forall A tls x i e,
  reachable (gstep cfg_repo A) (ginit_state tls) x ->
  nth_error (reads (snd x)) i = Some e -> fst e = Z.of_nat i.
Proof. exact conn_reads_numbered. Qed.
Print Assumptions C08_reads_numbered.

(* every request on a live connection is answered: whenever the connection is idle, all messages
   read so far (well-formed or undecodable) have been answered, in order *)
Theorem C08_idle_all_answered : forall A tls x,
  reachable (gstep cfg_repo A) (ginit_state tls) x -> idle (fst x) = true ->
  writes (snd x) = map resp_entry (reads (snd x)).
Proof. exact conn_idle_all_answered. Qed.
Print Assumptions C08_idle_all_answered.

(* a correctly framed message that cannot be decoded - with an encoding error or with any other
   decode error - is answered by the invalid-message response, and by nothing after it *)
Theorem C08_invalid_reply : forall m, is_bad m = true -> resp_of m = RInvalid.
Proof. exact resp_of_bad. Qed.
Print Assumptions C08_invalid_reply.

Theorem C08_invalid_reply_is_last : forall A tls x i e,
  reachable (gstep cfg_repo A) (ginit_state tls) x ->
  nth_error (reads (snd x)) i = Some e -> is_bad (snd e) = true ->
  length (writes (snd x)) <= S i.
Proof. exact conn_invalid_reply_is_last. Qed.
Print Assumptions C08_invalid_reply_is_last.

(* no outcome of an operation handler escapes the batch executor: for every batch, every item gets
   its result (success / the typed reason / general failure for other errors and for panics with
   any value), never a panic *)
Theorem C08_handler_outcomes : forall items,
  execute_items true items = GRet (map item_result items) /\
  resp_of (MReq items) = RItems (map item_result items).
Proof. intros items. split; [apply execute_items_total | apply resp_of_request]. Qed.
Print Assumptions C08_handler_outcomes.

(* any number of concurrent connections: in the server model (Server.v: accept loop, Shutdown, wait
   group, contexts, a list of connections of any length) every connection is at every moment in a
   state of the single-connection model, so the theorems above hold for each of them; neither a
   connection nor the wait group ever panics *)
Theorem C08_server_conns_are_connections : forall s c,
  reachable (sstep scfg_repo) sinit s -> In c (conns s) ->
  exists tls, reachable (cstep cfg_repo) (cinit tls) c.
Proof. exact server_conns_are_connections. Qed.
Print Assumptions C08_server_conns_are_connections.

Theorem C08_server_no_panic : forall s,
  reachable (sstep scfg_repo) sinit s ->
  s_panic s = false /\ forall c, In c (conns s) -> panicked c = false.
Proof. exact server_no_panic. Qed.
Print Assumptions C08_server_no_panic.

(* a step of connection i changes no other connection, nor the accept loop, Shutdown, the timer,
   the listener or the contexts: one connection cannot make the server stop serving the others *)
Theorem C08_product_frame : forall s i lb s',
  In (SL_Conn i lb, s') (sstep_lbl scfg_repo s) ->
  (forall j, j <> i -> nth_error (conns s') j = nth_error (conns s) j) /\
  sv s' = sv s /\ sd s' = sd s /\ tm s' = tm s /\ lis s' = lis s /\ shut s' = shut s /\
  g_rctx s' = g_rctx s /\ g_root s' = g_root s.
Proof. exact product_frame. Qed.
Print Assumptions C08_product_frame.

(* the accept loop never waits for a connection: until it returns it always has a step of its own *)
Theorem C08_serve_live : forall s, serve_ended s = false -> serve_steps scfg_repo s <> [].
Proof. exact serve_live. Qed.
Print Assumptions C08_serve_live.

(* the code of the pinned tree (before the fix: commits) had the defects: the same model with the
   three repairs switched off panics (send on closed tx) and leaks writeloop (unbuffered errCh) *)
Theorem C08_pinned_tree_can_panic :
  exists s, reachable (cstep cfg_pinned) (cinit false) s /\ panicked s = true.
Proof. exact pinned_conn_can_panic. Qed.
Print Assumptions C08_pinned_tree_can_panic.

Theorem C08_pinned_tree_can_leak :
  exists s, reachable (cstep cfg_pinned) (cinit false) s /\ panicked s = false /\ conn_over s = true
            /\ cstep cfg_pinned s = [] /\ all_done s = false /\ wp s = W_SendErr.
Proof. exact pinned_conn_can_leak. Qed.
Print Assumptions C08_pinned_tree_can_leak.

(* non-vacuity *)
Example C08_idle_reachable : exists s, reachable (cstep cfg_repo) (cinit false) s /\ idle s = true.
Proof. exact idle_reachable. Qed.

Example C08_gone_during_handler_reachable :
  exists s, reachable (cstep cfg_repo) (cinit false) s /\ in_handler s = true /\ conn_over s = true.
Proof. exact handler_and_gone_reachable. Qed.

Example C08_handler_outcomes_example :
  resp_of (MReq [BOk; BPanicStr; BTyped 1; BPlain; BPanicTyped 7]) =
  RItems [ISuccess; IFailed 256; IFailed 1; IFailed 256; IFailed 7].
Proof. reflexivity. Qed.

Local Open Scope Z_scope.

(** The HTTP entry point (kmipserver/http.go; model HttpHandler.v: one exchange is a straight-line
    function of the request's method, content type, Content-Length, delivered body length and of
    whether the body decodes - the decoder, the request handler and the marshaller are the
    environment).  For EVERY request: *)

(* the body of the answer holds exactly one KMIP response message when the request reaches the
   decoding step (POST, supported content type, 0 < Content-Length <= 1 MiB, body complete), none otherwise - never two *)
Theorem C08_http_one_response : forall q,
  messages (fst (serve q)) = if admitted q then 1 else 0.
Proof. exact one_response. Qed.
Print Assumptions C08_http_one_response.

(* the request handler runs exactly once for an admitted request that decodes, never otherwise *)
Theorem C08_http_handler_calls : forall q,
  snd (serve q) = if admitted q && h_decodable q then 1 else 0.
Proof. exact handler_calls. Qed.
Print Assumptions C08_http_handler_calls.

(* a correctly framed request that cannot be decoded gets the single invalid-message response *)
Theorem C08_http_undecodable_answered : forall q,
  admitted q = true -> h_decodable q = false -> serve q = (HResp RInvalidMessage, 0).
Proof. exact undecodable_answered. Qed.
Print Assumptions C08_http_undecodable_answered.

(* any sequence of exchanges (no state is kept between them): one outcome per request in order,
   one handler run per admitted decodable request, whatever was sent before *)
Theorem C08_http_sequences : forall l,
  length (fst (serve_all l)) = length l /\
  snd (serve_all l) = Z.of_nat (length (filter (fun q => admitted q && h_decodable q) l)).
Proof. exact serve_all_shape. Qed.
Print Assumptions C08_http_sequences.

Example C08_http_example :
  serve (mkHreq true CtXml (Some 64) 64 false) = (HResp RInvalidMessage, 0) /\
  serve (mkHreq true CtTtlv (Some 64) 64 true) = (HResp RHandler, 1) /\
  serve (mkHreq true CtJson (Some 64) 10 true) = (HStatus 400, 0).
Proof. repeat split; reflexivity. Qed.
