(** C12 - the client turns every protocol-violating server response into an error.
    Statements only; the model is ClientResp.v (a transcription of kmipclient/client.go BatchOpt,
    Request, Executor.ExecContext, BatchExec.ExecContext, BatchResult.Unwrap, negotiateVersion and
    responses.go ResponseBatchItem.Err), the proofs are in ClientRespProofs.v.
    All statements quantify over arbitrary responses: any header count, any number of items, any
    operation / status / reason codes (registered or not), any message, any payload type. *)
From Coq Require Import ZArith List.
From KV Require Import Base Negotiate NegotiateProofs ClientResp ClientRespProofs.
Import ListNotations.
Open Scope Z_scope.

(** ** No client call panics, whatever the server answers *)

Theorem C12_never_panics : forall (c : call) (t : transport), run c t <> OPanic.
Proof. exact run_never_panics. Qed.
Print Assumptions C12_never_panics.

Theorem C12_request_total : forall op t, request op t <> RPanic.
Proof. exact request_total. Qed.
Print Assumptions C12_request_total.

Theorem C12_exec_total : forall build_ok op rty t, exec_context build_ok op rty t <> RPanic.
Proof. exact exec_total. Qed.
Print Assumptions C12_exec_total.

Theorem C12_batch_total : forall reqs t, batch_opt reqs t <> RPanic.
Proof. exact batch_opt_total. Qed.
Print Assumptions C12_batch_total.

Theorem C12_dial_total : forall enforced client t, negotiate_version enforced client t <> RPanic.
Proof. exact negotiate_version_total. Qed.
Print Assumptions C12_dial_total.

(** ** Success means: the one payload of the one successful item, of the requested operation and
    of the executor's response type - and nothing else is a success *)

Theorem C12_exec_typed : forall op rty t v,
  exec_context true op rty t = ROk v <->
  (exists it, t = TMsg {| r_count := 1; r_items := [it] |} /\ i_status it = success /\
              i_payload it = Some v /\ pval_operation v = op) /\ p_type v = rty.
Proof. exact exec_ok_iff. Qed.
Print Assumptions C12_exec_typed.

(* every fluent builder instantiates Resp with the response type registered for its operation *)
Theorem C12_exec_fluent : forall op t v,
  exec_context true op (TResp op) t = ROk v -> p_type v = TResp op /\ pval_operation v = op.
Proof.
  intros op t v H. apply exec_ok_iff in H. destruct H as [[it [_ [_ [_ Ho]]]] Ht]. split; assumption.
Qed.
Print Assumptions C12_exec_fluent.

Theorem C12_request_typed : forall op t p,
  request op t = ROk p <->
  exists v, p = Some v /\
    exists it, t = TMsg {| r_count := 1; r_items := [it] |} /\ i_status it = success /\
               i_payload it = Some v /\ pval_operation v = op.
Proof. exact request_ok_iff. Qed.
Print Assumptions C12_request_typed.

(* Batch (any number of requests): accepted exactly when header count = number of items = number
   of requests and every successful item carries a payload of the operation requested at its position *)
Theorem C12_batch_accepts_iff : forall reqs t items,
  batch_opt reqs t = ROk items <->
  exists r, t = TMsg r /\ items = r_items r /\
    r_count r = len (r_items r) /\ len (r_items r) = len reqs /\
    Forall2 (fun op it => i_status it = success -> exists v, i_payload it = Some v /\ pval_operation v = op)
            reqs (r_items r).
Proof. exact batch_opt_ok_iff. Qed.
Print Assumptions C12_batch_accepts_iff.

(** ** Each violation the property lists is an error *)

(* wrong header count, wrong item count, successful item without payload or with the payload of
   another operation: Batch (hence Request and ExecContext, which go through it) returns an error *)
Theorem C12_batch_violations_are_errors : forall reqs r,
  (r_count r <> len (r_items r) \/ len (r_items r) <> len reqs \/
   exists i op it, nth_error reqs i = Some op /\ nth_error (r_items r) i = Some it /\ i_status it = success /\
     (i_payload it = None \/ exists v, i_payload it = Some v /\ pval_operation v <> op)) ->
  exists e, batch_opt reqs (TMsg r) = RErr e.
Proof. exact batch_violation_is_error. Qed.
Print Assumptions C12_batch_violations_are_errors.

(* anything but the single successful item with a payload of the requested operation and of the
   executor's response type is an error of ExecContext *)
Theorem C12_exec_violations_are_errors : forall op rty t,
  ~ (exists v, (exists it, t = TMsg {| r_count := 1; r_items := [it] |} /\ i_status it = success /\
                           i_payload it = Some v /\ pval_operation v = op) /\ p_type v = rty) ->
  exists e, exec_context true op rty t = RErr e.
Proof. exact exec_violation_is_error. Qed.
Print Assumptions C12_exec_violations_are_errors.

(** ** A failed item is always surfaced as an error carrying the server's status, reason, message *)

Theorem C12_request_failure_surfaces : forall op r it,
  In it (r_items r) -> i_status it <> success ->
  exists e, request op (TMsg r) = RErr e /\ carries e it = true.
Proof. exact request_fail_surfaces. Qed.
Print Assumptions C12_request_failure_surfaces.

Theorem C12_exec_failure_surfaces : forall op rty r it,
  In it (r_items r) -> i_status it <> success ->
  exists e, exec_context true op rty (TMsg r) = RErr e /\ carries e it = true.
Proof. exact exec_fail_surfaces. Qed.
Print Assumptions C12_exec_failure_surfaces.

(* Batch then Unwrap: the failure is reported by Batch's error or, when the batch is accepted,
   by Unwrap's *)
Theorem C12_batch_failure_surfaces : forall reqs r it,
  In it (r_items r) -> i_status it <> success ->
  match batch_exec true reqs (TMsg r) with
  | ROk items => exists e, snd (unwrap items) = Some e /\ carries e it = true
  | RErr e => carries e it = true
  | RPanic => False
  end.
Proof.
  intros reqs r it Hin Hs. pose proof (batch_unwrap_surfaces true reqs r it Hin Hs) as H.
  destruct (batch_exec true reqs (TMsg r)); try exact H. destruct H as [H|H]; [discriminate | exact H].
Qed.
Print Assumptions C12_batch_failure_surfaces.

(* [carries e it] means what it says: the error holds the item's operation, status, reason and message *)
Theorem C12_carries_meaning : forall e it,
  carries e it = true <-> In (i_op it, i_status it, i_reason it, i_msg it) (e_failures e).
Proof. exact carries_In. Qed.
Print Assumptions C12_carries_meaning.

(* and errors never report a failure the server did not send *)
Theorem C12_request_errors_sound : forall op t e f,
  request op t = RErr e -> In f (e_failures e) ->
  exists it, In it (items_of t) /\ i_status it <> success /\ f = (i_op it, i_status it, i_reason it, i_msg it).
Proof.
  intros op t e f E Hf. pose proof (request_spec op t) as H. rewrite E in H. destruct H as (_ & _ & H). exact (H f Hf).
Qed.
Print Assumptions C12_request_errors_sound.

(** ** BatchResult.Unwrap on batches of any length *)

Theorem C12_unwrap : forall br,
  fst (unwrap br) = map i_payload br /\
  (snd (unwrap br) = None <-> Forall (fun it => i_status it = success) br) /\
  (forall e, snd (unwrap br) = Some e ->
     (forall it, In it br -> i_status it <> success -> carries e it = true) /\
     (forall f, In f (e_failures e) -> exists it, In it br /\ i_status it <> success /\
                                        f = (i_op it, i_status it, i_reason it, i_msg it))).
Proof.
  intros br. split; [apply unwrap_payloads|]. split; [apply unwrap_nil_iff|].
  intros e He. split; [intros it; apply unwrap_carries; exact He | intros f; apply unwrap_sound; exact He].
Qed.
Print Assumptions C12_unwrap.

(** ** The version-discovery exchange of Dial *)

(* negotiateVersion is the negotiation function of C13 applied to the classified reply *)
Theorem C12_dial_refines_negotiate : forall enforced client t,
  match negotiate_version enforced client t with
  | ROk v => negotiate enforced client (classify t) = Adopt v
  | RErr _ => negotiate enforced client (classify t) = Fail
  | RPanic => False
  end.
Proof. exact negotiate_version_refines. Qed.
Print Assumptions C12_dial_refines_negotiate.

(* a version is adopted only from a single successful item with a DiscoverVersions response
   payload (then it is the highest common version), or from the "not supported" fallback *)
Theorem C12_dial_sound : forall client t v,
  negotiate_version None client t = ROk v ->
  exists it, t = TMsg {| r_count := 1; r_items := [it] |} /\
    ((i_status it = status_failed /\ i_reason it = reason_not_supported /\ v = v1_0 /\ In v1_0 client) \/
     (i_status it = success /\ exists p, i_payload it = Some p /\ p_type p = TResp op_discover /\
        In v client /\ In v (p_versions p) /\
        forall w, In w client -> In w (p_versions p) -> ver_le w v)).
Proof. exact negotiate_version_sound. Qed.
Print Assumptions C12_dial_sound.

Theorem C12_dial_failure_surfaces : forall client r e it,
  negotiate_version None client (TMsg r) = RErr e ->
  In it (r_items r) -> i_status it <> success ->
  ~ (r = {| r_count := 1; r_items := [it] |} /\ i_status it = status_failed /\ i_reason it = reason_not_supported) ->
  carries e it = true.
Proof. exact negotiate_version_surfaces. Qed.
Print Assumptions C12_dial_failure_surfaces.

(** ** A connection / decoding failure is an error for every call *)
Theorem C12_transport_failure : forall c,
  (forall e v, c <> CDial (Some e) v) -> exists l, run c TFail = OErr l.
Proof. exact transport_failure_is_error. Qed.
Print Assumptions C12_transport_failure.

(** ** Non-vacuity: a conformant Get answer succeeds; a missing payload, another operation's
    payload and a request-type payload are errors; a batch of two answered with one failed item
    is an error carrying that failure; a mixed batch is returned and Unwrap reports its failure *)
Example C12_nonvacuous :
  exec_context true 10 (TResp 10) (TMsg {| r_count := 1; r_items := [ex_item 10 0 0 [] (Some (ex_payload (TResp 10)))] |})
    = ROk (ex_payload (TResp 10))
  /\ (exists e, exec_context true 10 (TResp 10) (TMsg {| r_count := 1; r_items := [ex_item 10 0 0 [] None] |}) = RErr e)
  /\ (exists e, exec_context true 10 (TResp 10) (TMsg {| r_count := 1; r_items := [ex_item 18 0 0 [] (Some (ex_payload (TResp 18)))] |}) = RErr e)
  /\ (exists e, exec_context true 10 (TResp 10) (TMsg {| r_count := 1; r_items := [ex_item 10 0 0 [] (Some (ex_payload (TReq 10)))] |}) = RErr e)
  /\ (exists e, batch_opt [10; 18] (TMsg {| r_count := 1; r_items := [ex_item 0 1 4 [66] None] |}) = RErr e
               /\ carries e (ex_item 0 1 4 [66] None) = true)
  /\ (exists e, batch_opt [10; 18] (TMsg {| r_count := 2; r_items := [ex_item 10 1 1 [66] None; ex_item 18 0 0 [] (Some (ex_payload (TResp 18)))] |})
                 = ROk [ex_item 10 1 1 [66] None; ex_item 18 0 0 [] (Some (ex_payload (TResp 18)))]
               /\ snd (unwrap [ex_item 10 1 1 [66] None; ex_item 18 0 0 [] (Some (ex_payload (TResp 18)))]) = Some e
               /\ carries e (ex_item 10 1 1 [66] None) = true).
Proof. exact examples. Qed.
