(** C12 — the client turns every protocol-violating response into an error. *)
From Coq Require Import ZArith List.
From KV Require Import Negotiate ClientResp ClientRespProofs.
Import ListNotations.

Theorem C12_item_err_none : forall it, item_err it = None <-> i_status it = success.
Proof. exact item_err_none. Qed.
Print Assumptions C12_item_err_none.
