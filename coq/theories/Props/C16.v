From Coq Require Import List Bool PArith ZArith.
From KV Require Import Lts ConnServer ConnServerProofs Server ServerProofs.
Import ListNotations.
Example C16_placeholder : True. Proof. exact I. Qed.
