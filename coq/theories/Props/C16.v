(** C16 — shutdown drains cleanly, connection hooks are paired.
    Statements only; models: Server.v (Serve, Shutdown, timer, wait group, contexts, any number of
    connections) over ConnServer.v (one connection); proofs: ServerProofs.v, ConnServerProofs.v.
    [sstep scfg_repo] is the step relation of the whole server for the repository's current code;
    clients, handlers, hooks, the moment Shutdown is called and the 3 s timer are the environment.
    All statements hold for executions of any length and any number of connections. *)
From Coq Require Import List Bool PArith ZArith.
From KV Require Import Lts ConnServer ConnServerProofs Server ServerProofs.
Import ListNotations.

(* when Shutdown has returned: the listener is closed, the server is marked as shutting down, the
   receive context is cancelled, the wait group is at zero, every connection goroutine has
   returned and no handler is in progress *)
Theorem C16_state_at_return : forall s,
  reachable (sstep scfg_repo) sinit s -> sd_returned s = true ->
  lis s = true /\ shut s = true /\ g_rctx s = true /\ wg s = 0 /\
  forall c, In c (conns s) -> h_done c = true /\ in_handler c = false.
Proof. exact sd_state_at_return. Qed.
Print Assumptions C16_state_at_return.

(* ... and from then on nothing starts: no Accept succeeds, no connection goroutine is spawned, no
   connect hook and no handler is invoked, and the accept loop cannot end with another error than
   ErrShutdown *)
Theorem C16_nothing_starts_after_return : forall s l s',
  reachable (sstep scfg_repo) sinit s -> sd_returned s = true ->
  In (l, s') (sstep_lbl scfg_repo s) ->
  l <> SL_Spawn /\ l <> SL_AcceptErr /\ (forall t, l <> SL_Accept t) /\ l <> SL_ServeRet false /\
  (forall i, l <> SL_Conn i LHStart) /\ (forall i, l <> SL_Conn i LHookOk).
Proof. exact sd_nothing_starts_after_return. Qed.
Print Assumptions C16_nothing_starts_after_return.

(* the accept loop leaves only through a failing Accept: closed listener (ErrShutdown), another
   Accept error, or a connection accepted while Shutdown had started (refused, ErrShutdown) *)
Theorem C16_serve_ends_with_shutdown_error : forall s l s',
  In (l, s') (sstep_lbl scfg_repo s) -> serve_ended s = false -> serve_ended s' = true ->
  (l = SL_ServeRet true /\ lis s = true) \/ (l = SL_AcceptErr /\ lis s = false) \/ (l = SL_Dropped /\ shut s = true).
Proof. exact serve_leaves_only_by_accept_error. Qed.
Print Assumptions C16_serve_ends_with_shutdown_error.

(* requests in flight: handler contexts derive from the root context, which is cancelled only by the
   3 s timer or at the very end of Shutdown, when every connection has ended ... *)
Theorem C16_cancel_only_by_timer_or_at_end : forall s,
  reachable (sstep scfg_repo) sinit s -> g_root s = true ->
  tm s = TFired \/ (sd_returned s = true /\ forall c, In c (conns s) -> h_done c = true).
Proof. exact sd_cancel_only_by_timer_or_at_end. Qed.
Print Assumptions C16_cancel_only_by_timer_or_at_end.

(* ... and Shutdown's recvCancel makes handleConn tear a live connection down only in recv's select,
   between requests: a request being handled or answered is completed (its response is handed to
   writeloop by C08_idle_all_answered / C08_responses_in_order) unless the peer or the timer ends it *)
Theorem C16_interrupt_only_between_requests : forall tls c l c',
  reachable (cstep cfg_repo) (cinit tls) c -> In (l, c') (cstep_lbl cfg_repo c) ->
  ctxdone c = false -> hp c' = H_TermSwap HC_Break -> hp c <> H_TermSwap HC_Break ->
  hp c = H_RecvSel /\ rctx c = true /\ a_hst (abs c) = HNone.
Proof. exact shutdown_interrupts_only_between_requests. Qed.
Print Assumptions C16_interrupt_only_between_requests.

(* all per-connection goroutines end: after Shutdown returned, for every connection, every run of
   internal steps (no further external event) is finite and ends with readloop, writeloop and
   handleConn all returned *)
Theorem C16_goroutines_end : forall s c,
  reachable (sstep scfg_repo) sinit s -> sd_returned s = true -> In c (conns s) ->
  (exists n, forall p, path (istep cfg_repo) c p -> length p <= n) /\
  (forall t, reachable (istep cfg_repo) c t -> istep cfg_repo t = [] -> all_done t = true).
Proof. exact sd_goroutines_end. Qed.
Print Assumptions C16_goroutines_end.

(* hook pairing, per connection: the sequence of connect-hook, handler, terminate-hook and wg.Done
   events of any execution is accepted by the monitor [trace_ok] (ConnServer.v): one connect-hook
   outcome; handlers only after a successful connect hook, never overlapping, never after the
   terminate hook; the terminate hook at most once and only after a successful connect hook; at
   wg.Done no handler runs and the terminate hook has run iff the connect hook succeeded *)
Theorem C16_hook_pairing : forall A tls x,
  reachable (gstep cfg_repo A) (ginit_state tls) x -> trace_ok (rev (events (snd x))) = true.
Proof. exact hook_pairing. Qed.
Print Assumptions C16_hook_pairing.

Theorem C16_terminate_hook_at_most_once : forall A tls x,
  reachable (gstep cfg_repo A) (ginit_state tls) x ->
  count_occ label_eq_dec (events (snd x)) LTermHook <= 1.
Proof.
  intros A tls x H. apply mon_term_once. pose proof (hook_pairing A tls x H) as T.
  unfold trace_ok in T. rewrite rev_involutive in T. apply negb_true_iff in T. exact T.
Qed.
Print Assumptions C16_terminate_hook_at_most_once.

(* every connection of the server is an instance of the connection model *)
Theorem C16_conns_are_connections : forall s c,
  reachable (sstep scfg_repo) sinit s -> In c (conns s) ->
  exists tls, reachable (cstep cfg_repo) (cinit tls) c.
Proof. exact server_conns_are_connections. Qed.
Print Assumptions C16_conns_are_connections.

(* without the registration guard added by the fix: commit, a connection accepted just before
   Shutdown is started after Shutdown has returned (with its context already cancelled) *)
Theorem C16_unguarded_serve_refuted :
  exists s, reachable (sstep scfg_unguarded) sinit s /\ sd_returned s = true /\
            exists c, In c (conns s) /\ h_done c = false /\ root c = true.
Proof. exact unguarded_serve_starts_connection_after_shutdown_returned. Qed.
Print Assumptions C16_unguarded_serve_refuted.

(* what the monitor accepts and rejects *)
Example C16_monitor_examples :
  trace_ok [LHookOk; LHStart; LHEnd; LHStart; LHEnd; LTermHook; LWgDone] = true /\
  trace_ok [LHookFail; LWgDone] = true /\ trace_ok [LTlsFail; LWgDone] = true /\
  trace_ok [LHookOk; LTermHook; LTermHook] = false /\ trace_ok [LHookFail; LTermHook] = false /\
  trace_ok [LHookOk; LWgDone] = false /\ trace_ok [LHookOk; LTermHook; LHStart] = false /\
  trace_ok [LHookOk; LHStart; LTermHook] = false /\ trace_ok [LHStart] = false.
Proof. repeat split. Qed.

(* non-vacuity: Shutdown can return with a connection that was served *)
Example C16_shutdown_returns :
  exists s, reachable (sstep scfg_repo) sinit s /\ sd_returned s = true.
Proof.
  destruct (run_sd 8 sinit) as [s|] eqn:E; [|vm_compute in E; discriminate E].
  exists s. split; [apply (run_sd_reachable 8); exact E|].
  vm_compute in E. injection E as <-. reflexivity.
Qed.
