(** C06 - Payloads, objects and attributes decode to their registered types.
    Statements only; proofs in DispatchProofs.v.  The hand-written decoders of the library
    (RequestBatchItem, ResponseBatchItem, Attribute, Get/Register/Import/Export payloads) are
    transcribed in SchemaSem.v with open recursion: the lemmas hold for ANY inner decoders and
    ANY tables, over any reader format; [kmip_ops], [kmip_objs], [kmip_attrs],
    [kmip_payload_ops], [kmip_obj_types] are REGENERATED from the library's registries on
    every check. *)
From Coq Require Import ZArith List Bool String.
From KV Require Import Base Wire Cursor Schema SchemaSem Dispatch PinnedDispatch DispatchProofs.
From KVGen Require Import KmipSchema.
Import ListNotations.
Open Scope Z_scope.

(** Every registered payload type reports the operation it is registered under, every object
    struct its own object type code; codes are pairwise distinct; the tables are the pinned ones. *)
Theorem C06_registered_payloads_report_their_operation :
  forall op rq rs, In (op, (rq, rs)) kmip_ops ->
    assoc_s kmip_payload_ops rq = Some op /\ assoc_s kmip_payload_ops rs = Some op.
Proof. exact (ops_consistent_sound _ _ kmip_ops_consistent). Qed.
Print Assumptions C06_registered_payloads_report_their_operation.

Theorem C06_registered_objects_report_their_type :
  forall ot n, In (ot, n) kmip_objs -> assoc_s kmip_obj_types n = Some ot.
Proof. exact (objs_consistent_sound _ _ kmip_objs_consistent). Qed.
Print Assumptions C06_registered_objects_report_their_type.

Theorem C06_tables_pinned : kmip_ops = pinned_ops /\ kmip_objs = pinned_objs /\ kmip_attrs = pinned_attrs.
Proof. exact kmip_tables_pinned. Qed.
Print Assumptions C06_tables_pinned.

Theorem C06_codes_distinct : nodup_z (map fst kmip_ops) = true /\ nodup_z (map fst kmip_objs) = true.
Proof. exact kmip_codes_distinct. Qed.
Print Assumptions C06_codes_distinct.

(** For EVERY operation code (the table lookup partitions Z into registered / not registered)
    and both directions: a request batch item that decodes carries a payload of the request
    type registered for its operation, or - unregistered code - the opaque payload holding that
    very code and the generic trees read. *)
Theorem C06_request_payload_dispatch :
  forall OPS (R : Type) (F : rawfmt R) dty dopt dtrees st d tag (c : cur R) v c' st',
  dec_request_item OPS F dty dopt dtrees st d tag c = Ok (v, c', st') ->
  exists op id pl ext, v = VStruct (t_name d) [op; id; pl; ext] /\ payload_ok OPS false (int_of op) pl.
Proof. intros. eapply request_item_dispatch; eassumption. Qed.
Print Assumptions C06_request_payload_dispatch.

Theorem C06_response_payload_dispatch :
  forall OPS (R : Type) (F : rawfmt R) dty dopt dtrees st d tag (c : cur R) v c' st',
  dec_response_item OPS F dty dopt dtrees st d tag c = Ok (v, c', st') ->
  exists op id status reason msg acv pl ext,
    v = VStruct (t_name d) [op; id; status; reason; msg; acv; pl; ext] /\
    (pl = VNil \/ payload_ok OPS true (int_of op) pl).
Proof. intros. eapply response_item_dispatch; eassumption. Qed.
Print Assumptions C06_response_payload_dispatch.

(** Opaque content re-encodes as exactly what was read (with C03: byte-identically). *)
Theorem C06_unknown_payload_reencodes : forall S f st d tag op trees,
  t_name d = "kmip.UnknownPayload"%string ->
  enc_custom S (Datatypes.S f) st d tag [VInt op; VList (map VTree trees)] = Ok ([IStruct tag trees], st).
Proof. exact unknown_payload_reencodes. Qed.
Print Assumptions C06_unknown_payload_reencodes.

Theorem C06_generic_attribute_value_reencodes : forall S f st tag i,
  enc_ty S (Datatypes.S f) st (TNamed "ttlv.Value") tag (VTree i) = Ok ([retag i tag], st).
Proof. exact tree_value_reencodes. Qed.
Print Assumptions C06_generic_attribute_value_reencodes.

(** Objects: decoded at the struct registered for the accompanying object type; an unknown
    object type is an error, never a value. *)
Theorem C06_object_typed : forall S OPS ATTRS OBJS (R : Type) (F : rawfmt R) f st ot (c : cur R) v c' st',
  dec_object S OPS ATTRS OBJS F (Datatypes.S f) st ot c = Ok (v, c', st') ->
  exists n w, lookup_obj OBJS ot = Some n /\ v = VIface (TPtr (TNamed n)) (VPtr w).
Proof. intros. eapply dec_object_typed; eassumption. Qed.
Print Assumptions C06_object_typed.

Theorem C06_unknown_object_type_is_error : forall S OPS ATTRS OBJS (R : Type) (F : rawfmt R) f st ot (c : cur R),
  lookup_obj OBJS ot = None -> dec_object S OPS ATTRS OBJS F (Datatypes.S f) st ot c = Err.
Proof. intros. apply dec_object_unknown; assumption. Qed.
Print Assumptions C06_unknown_object_type_is_error.

Theorem C06_get_response_object_by_type : forall (R : Type) (F : rawfmt R) dty dobj st d tag (c : cur R) v c' st',
  dec_get_response F dty dobj st d tag c = Ok (v, c', st') ->
  exists ot uid ob co c1 s1, v = VStruct (t_name d) [ot; uid; ob] /\ dobj st (int_of ot) co = Ok (ob, c1, s1).
Proof. intros. eapply get_response_object; eassumption. Qed.
Print Assumptions C06_get_response_object_by_type.

(** Attributes: the value is decoded at the type the table gives for the attribute's name;
    custom (x-/y-) and unknown names are kept as generic trees. *)
Theorem C06_attribute_dispatch : forall ATTRS (R : Type) (F : rawfmt R) dty st d tag (c : cur R) v c' st',
  dec_attribute ATTRS F dty st d tag c = Ok (v, c', st') ->
  exists name idx w, v = VStruct (t_name d) [VStr name; idx; VIface (attr_ty ATTRS name) w].
Proof. intros. eapply attribute_dispatch; eassumption. Qed.
Print Assumptions C06_attribute_dispatch.

Theorem C06_attribute_types : forall ATTRS name,
  (attr_is_custom name = true -> attr_ty ATTRS name = TNamed "ttlv.Value") /\
  (forall t, attr_is_custom name = false -> lookup_attr ATTRS name = Some t -> attr_ty ATTRS name = t) /\
  (attr_is_custom name = false -> lookup_attr ATTRS name = None -> attr_ty ATTRS name = TNamed "ttlv.Value").
Proof.
  intros. split; [apply attr_ty_custom | split; [intros; apply attr_ty_standard; assumption | apply attr_ty_unknown]].
Qed.
Print Assumptions C06_attribute_types.

(** Non-vacuity on the live tables: 27 operations, 9 object types, 50 attributes; Get is
    registered, 0x2C is not; "x-foo" is custom. *)
Example C06_example :
  List.length kmip_ops = 27%nat /\ List.length kmip_objs = 9%nat /\ List.length kmip_attrs = 50%nat /\
  lookup_op kmip_ops 10 = Some ("payloads.GetRequestPayload", "payloads.GetResponsePayload")%string /\
  lookup_op kmip_ops 44 = None /\ lookup_obj kmip_objs 2 = Some "kmip.SymmetricKey"%string /\
  lookup_obj kmip_objs 127 = None /\ attr_is_custom [120; 45; 102; 111; 111] = true.
Proof. vm_compute. repeat split; reflexivity. Qed.
