(** C18 - Re-encoding an accepted input reaches a fixed point.
    Statements only; proofs in FixpointProofs.v, RoundtripProofs.v, TextFmtProofs.v.

    STATUS.  Proved in full for the generic tree (ttlv.Value / ttlv.Struct - the container the
    library uses for everything it does not model: unknown payloads, custom attributes, vendor
    extensions) in binary, for EVERY byte string the decoder accepts; for typed values the
    fixed point is proved for every value satisfying the decidable conformance predicate
    [conf_ty] (what a canonical decoder output looks like), in any reader format; forwarding
    through XML / JSON is proved at the generic-tree level (C04's faithfulness theorems).
    The typed decoder's output on an ARBITRARY accepted input (it normalises on the first hop:
    explicit zero-valued optional elements, later-version elements, empty byte strings,
    unknown trailing elements disappear at the first re-encoding) is the subject of
    Props/C18Typed.v (decoded_one_hop and its binary / whole-message instances). *)
From Coq Require Import ZArith List Bool String.
From KV Require Import Base Wire Cursor BinCursorProofs Schema SchemaSem FaithfulProofs Roundtrip RoundtripProofs RoundtripCustoms FixpointProofs
  TextLex TextFmt TextFmtProofs.
Import ListNotations.
Open Scope Z_scope.

(** Binary, generic trees: for EVERY accepted byte string the decoded tree is accepted by the
    encoder (in range, never a negative interval: no panic), its encoding decodes to the SAME
    tree - so the first re-encoding is already the fixed point and a second one is identical. *)
Theorem C18_binary_tree_fixed_point : forall (bs : list Z) (i : item),
  bytes_ok bs = true -> unmarshal_value bs = Ok i -> item_small i = true ->
  item_ok i = true /\ enc_panics i = false /\ unmarshal_value (wire_enc i) = Ok i.
Proof. exact value_fixed_point. Qed.
Print Assumptions C18_binary_tree_fixed_point.

(** ... and what the generic-tree decoder returns is tree-shaped, whatever the input. *)
Theorem C18_decoded_tree_encodable : forall fuel tag (c : cur (list Z)) i c',
  forallb relem_wf (fst c) = true -> 0 <= tag < 2 ^ 24 ->
  dec_value bin_fmt fuel tag c = Ok (i, c') -> item_ok i = true /\ tree_shaped i = true.
Proof. intros fuel tag c i c' Hw Ht H. destruct (dec_value_out fuel) as [Hv _]. destruct (Hv _ _ _ _ Hw Ht H) as (Ho & _). exact Ho. Qed.
Print Assumptions C18_decoded_tree_encodable.

(** Typed values, ANY reader format: a conforming value is the fixed point - decoding its
    encoding returns it (hence every further re-encoding is byte-identical). *)
Theorem C18_typed_fixed_point :
  forall (S : schema) OPS ATTRS OBJS (R : Type) (F : rawfmt R) fe fc st t tag v items st' sc,
  enc_ty S fe st t tag v = Ok (items, st') -> conf_ty S OPS ATTRS OBJS fc st t tag v = Some sc ->
  forall (es : list (relem R)) fd, faithful F items es -> lookahead t = false ->
    (fe + 2 * items_size items + 2 <= fd)%nat ->
    exists v2, dec_ty S OPS ATTRS OBJS F fd st t tag (es, false) = Ok (v2, ([], false), st') /\
               enc_ty S fe st t tag v2 = Ok (items, st').
Proof.
  intros S OPS ATTRS OBJS R F fe fc st t tag v items st' sc He Hc es fd Hf Hla Hfd.
  destruct (rt_all S OPS ATTRS OBJS F fe) as (Pt & _ & _).
  destruct (Pt _ _ _ _ _ _ _ _ He Hc) as (_ & _ & _ & _ & Hdec).
  exists v. split; [|exact He]. specialize (Hdec es [] fd Hf). rewrite app_nil_r in Hdec.
  apply Hdec; [rewrite Hla; discriminate | exact Hfd].
Qed.
Print Assumptions C18_typed_fixed_point.

(** Forwarding through the other encodings (generic trees, representable content): written in
    XML or JSON and read back, the tree re-encodes to the identical binary. *)
Theorem C18_forward_through_xml : forall G, registry_ok G -> forall i,
  xml_item_ok i = true -> value_item i = true -> xml_unmarshal G (xml_write G [i]) false = Ok i.
Proof. exact xml_value_roundtrip. Qed.
Print Assumptions C18_forward_through_xml.

Theorem C18_forward_through_json : forall G, registry_ok G -> forall i,
  json_item_ok i = true -> value_item i = true -> json_unmarshal G (json_write1 G i) = Ok i.
Proof. exact json_value_roundtrip. Qed.
Print Assumptions C18_forward_through_json.

(** Non-vacuity: a non-canonical input (big integer -5 sign-extended on 16 bytes instead of 8,
    inside a structure) is accepted; its re-encoding is shorter and is the fixed point. *)
Example C18_example :
  let bs := [66;0;1;1; 0;0;0;24; 66;0;2;4; 0;0;0;16; 255;255;255;255;255;255;255;255; 255;255;255;255;255;255;255;251] in
  exists i, unmarshal_value bs = Ok i /\ wire_enc i <> bs /\ unmarshal_value (wire_enc i) = Ok i.
Proof. eexists. split; [vm_compute; reflexivity|]. split; [vm_compute; discriminate | vm_compute; reflexivity]. Qed.
