(** C18 - Re-encoding an accepted input reaches a fixed point: TYPED inputs.
    Statements only; proofs in Normalize.v (definition of the normal form), NormProofs.v,
    DecConf*.v, OneHop.v, KmipOneHop.v.

    For EVERY input the typed decoder accepts - not only what this library's encoder wrote -
    the decoded value [v] is encodable (no panic, no error); its normal form [v1 = norm v]
    (what the ENCODER makes of [v], read back as a value: elements outside the version range of
    their field, zero-valued omitempty elements, empty byte strings of the hand-written batch
    item encoders are dropped) is encoded as exactly the same items and conforms
    ([Roundtrip.conf_ty]), so by the struct-level round trip it is what decoding the first
    re-encoding returns, and a second re-encoding is identical to the first.

    Hypotheses: on the schema, the decidable conditions [schema_ok] / [enc_schema_ok]
    (DecConfDefs.v), which hold of the schema regenerated from /repo BY COMPUTATION
    ([kmip_schema_ok], [kmip_enc_schema_ok]); on the type asked for, [ty_ok] (true of every
    message type, [kmip_roots_ok]); on the format, nothing for the value-level statement, and
    for the range of the written items [fmt_ranged], PROVED for the binary reader
    ([bin_ranged], from the well-formedness validate() establishes).  The size bound
    [item_small] (every length below 2^32) remains a hypothesis of the byte-level corollary. *)
From Coq Require Import ZArith List Bool String.
From KV Require Import Base Wire Cursor Schema SchemaSem FaithfulProofs Roundtrip FixpointProofs Normalize DecConfDefs DecConfLib NormProofs OneHop
  KmipCodec KmipOneHop.
From KVGen Require Import KmipSchema.
Import ListNotations.
Open Scope Z_scope.

(** normalisation never changes the encoding (every encodable value, any schema satisfying
    the encoder-side condition) *)
Theorem C18_norm_same_encoding : forall (S : schema), enc_schema_ok S = true ->
  forall f st t tag v items st',
    enc_ty S f st t tag v = Ok (items, st') ->
    snd (norm_ty S f st t v) = st' /\ enc_ty S f st t tag (fst (norm_ty S f st t v)) = Ok (items, st').
Proof. exact enc_norm. Qed.
Print Assumptions C18_norm_same_encoding.

(** ANY reader format, any schema satisfying the decidable conditions: for every accepted
    input there is a conforming value with the same encoding as the decoded one *)
Theorem C18_decoded_one_hop : forall (S : schema) OPS ATTRS OBJS,
  schema_ok S OPS ATTRS OBJS = true -> enc_schema_ok S = true ->
  forall (R : Type) (F : rawfmt R) fd st t tag (c : cur R) v c' st',
    ty_ok S t tag = true ->
    dec_ty S OPS ATTRS OBJS F fd st t tag c = Ok (v, c', st') ->
    exists fe items st1 v1 fc sc,
      enc_ty S fe st t tag v  = Ok (items, st1) /\
      enc_ty S fe st t tag v1 = Ok (items, st1) /\
      conf_ty S OPS ATTRS OBJS fc st t tag v1 = Some sc.
Proof. intros S OPS ATTRS OBJS HS HE R F. exact (decoded_one_hop S OPS ATTRS OBJS HS HE F). Qed.
Print Assumptions C18_decoded_one_hop.

(** the same with the witness made explicit - the normal form - for every sufficiently large
    fuel, the version state the decoder ended in, and the range of what is written *)
Theorem C18_decoded_one_hop_explicit : forall (S : schema) OPS ATTRS OBJS,
  schema_ok S OPS ATTRS OBJS = true -> enc_schema_ok S = true ->
  forall (R : Type) (F : rawfmt R) (eok : relem R -> bool), fmt_ranged F eok ->
  forall fd st t tag (c : cur R) v c' st',
    ty_ok S t tag = true ->
    dec_ty S OPS ATTRS OBJS F fd st t tag c = Ok (v, c', st') ->
    exists items v1 fe,
      (forall g, (fe <= g)%nat ->
         enc_ty S g st t tag v = Ok (items, st') /\ norm_ty S g st t v = (v1, st') /\
         enc_ty S g st t tag v1 = Ok (items, st') /\ conf_ty S OPS ATTRS OBJS g st t tag v1 = Some st')
      /\ (c_ok eok c -> c_ok eok c' /\ forallb item_ok items = true).
Proof. intros S OPS ATTRS OBJS HS HE R F eok. exact (decoded_one_hop_ranged S OPS ATTRS OBJS HS HE F eok). Qed.
Print Assumptions C18_decoded_one_hop_explicit.

(** the fixed point: the first re-encoding, laid out in ANY faithful format and decoded again,
    gives the normal form back (all of it consumed), which re-encodes to the same items *)
Theorem C18_decoded_fixed_point : forall (S : schema) OPS ATTRS OBJS,
  schema_ok S OPS ATTRS OBJS = true -> enc_schema_ok S = true ->
  forall (R : Type) (F : rawfmt R) (R2 : Type) (F2 : rawfmt R2) fd st t tag (c : cur R) v c' st',
    ty_ok S t tag = true -> lookahead t = false ->
    dec_ty S OPS ATTRS OBJS F fd st t tag c = Ok (v, c', st') ->
    exists fe items v1,
      enc_ty S fe st t tag v = Ok (items, st') /\ enc_ty S fe st t tag v1 = Ok (items, st') /\
      forall (es : list (relem R2)) fd2, faithful F2 items es -> (fe + 2 * items_size items + 2 <= fd2)%nat ->
        dec_ty S OPS ATTRS OBJS F2 fd2 st t tag (es, false) = Ok (v1, ([], false), st').
Proof. intros S OPS ATTRS OBJS HS HE R F R2 F2. exact (decoded_fixed_point S OPS ATTRS OBJS HS HE F F2). Qed.
Print Assumptions C18_decoded_fixed_point.

(** the binary reader satisfies the format hypothesis *)
Theorem C18_binary_format_ranged : fmt_ranged bin_fmt relem_wf.
Proof. exact bin_ranged. Qed.
Print Assumptions C18_binary_format_ranged.

(** the schema regenerated from /repo satisfies the schema hypotheses, its message types the
    type hypothesis *)
Theorem C18_kmip_schema_conditions :
  schema_ok kmip_schema kmip_ops kmip_attrs kmip_objs = true /\ enc_schema_ok kmip_schema = true /\
  forallb root_ok ["kmip.RequestMessage"; "kmip.ResponseMessage"]%string = true.
Proof. exact (conj kmip_schema_ok (conj kmip_enc_schema_ok kmip_roots_ok)). Qed.
Print Assumptions C18_kmip_schema_conditions.

(** Binary TTLV, any schema satisfying the conditions: item_ok of the re-encoding is DERIVED
    from the well-formedness of the accepted bytes; the writer never panics *)
Theorem C18_binary_one_hop : forall (S : schema) OPS ATTRS OBJS,
  schema_ok S OPS ATTRS OBJS = true -> enc_schema_ok S = true ->
  forall fd st t tag bs c v c' st',
    bytes_ok bs = true -> bin_cursor bs = Ok c ->
    ty_ok S t tag = true -> lookahead t = false ->
    dec_ty S OPS ATTRS OBJS bin_fmt fd st t tag c = Ok (v, c', st') ->
    exists items v1 fe,
      (forall g, (fe <= g)%nat ->
         enc_ty S g st t tag v = Ok (items, st') /\ enc_ty S g st t tag v1 = Ok (items, st') /\
         conf_ty S OPS ATTRS OBJS g st t tag v1 = Some st') /\
      forallb item_ok items = true /\ existsb enc_panics items = false /\
      (forallb item_small items = true ->
       exists c2, bin_cursor (wire_enc_list items) = Ok c2 /\
         forall fd2, (fe + 2 * items_size items + 2 <= fd2)%nat ->
           dec_ty S OPS ATTRS OBJS bin_fmt fd2 st t tag c2 = Ok (v1, ([], false), st')).
Proof. exact bin_one_hop. Qed.
Print Assumptions C18_binary_one_hop.

(** whole KMIP messages with the executable marshal / unmarshal of the correspondence (fuel
    [FUEL] on both sides): for accepted bytes [bs], E1 := marshal (unmarshal bs) is defined,
    unmarshal E1 = v1 and marshal v1 = E1 *)
Theorem C18_kmip_message_one_hop : forall root d bs v,
  find_tdef kmip_schema root = Some d -> ty_ok kmip_schema (TNamed root) (t_deftag d) = true ->
  bytes_ok bs = true -> kmip_unmarshal root bs = Ok v ->
  exists items v1 fe st',
    (forall g, (fe <= g)%nat ->
       enc_ty kmip_schema g None (TNamed root) (t_deftag d) v = Ok (items, st') /\
       enc_ty kmip_schema g None (TNamed root) (t_deftag d) v1 = Ok (items, st') /\
       conf_ty kmip_schema kmip_ops kmip_attrs kmip_objs g None (TNamed root) (t_deftag d) v1 = Some st') /\
    forallb item_ok items = true /\ existsb enc_panics items = false /\
    ((fe <= FUEL)%nat ->
       kmip_marshal root v = Ok (wire_enc_list items) /\ kmip_marshal root v1 = Ok (wire_enc_list items)) /\
    (forallb item_small items = true -> (fe + 2 * items_size items + 2 <= FUEL)%nat ->
       kmip_unmarshal root (wire_enc_list items) = Ok v1).
Proof. exact kmip_message_one_hop. Qed.
Print Assumptions C18_kmip_message_one_hop.

(** Non-vacuity: a request no encoder of this library writes - an explicit zero
    MaximumResponseSize (omitempty), an AttestationCapableIndicator (KMIP 1.2) under protocol
    version 1.0, an element with an unknown tag at the end of the header, an operation without
    registered payload, an explicit empty UniqueBatchItemID - is accepted; the decoded message
    is NOT a fixed point (its normal form differs: pointer dropped, empty slice becomes nil),
    the first re-encoding is shorter than the input, decodes to the normal form, which
    conforms and re-encodes to the same bytes. *)
Definition C18_foreign_request : list item :=
  [IStruct 4325496
     [IStruct 4325495
        [IStruct 4325481 [IInt 4325482 1; IInt 4325483 0];
         IInt 4325456 0;
         IBool 4325587 true;
         IInt 4325389 1;
         IInt 4325000 5];
      IStruct 4325391
        [IEnum 4325468 0 99;
         IBytes 4325523 [];
         IStruct 4325497 [IInt 4325500 7]]]].

Example C18_typed_example :
  let root := "kmip.RequestMessage"%string in
  let bs := wire_enc_list C18_foreign_request in
  exists v v1 e1 sc,
    kmip_unmarshal root bs = Ok v /\
    v1 = fst (norm_ty kmip_schema FUEL None (TNamed root) v) /\ v1 <> v /\
    kmip_marshal root v = Ok e1 /\ e1 <> bs /\
    kmip_unmarshal root e1 = Ok v1 /\ kmip_marshal root v1 = Ok e1 /\
    conf_ty kmip_schema kmip_ops kmip_attrs kmip_objs FUEL None (TNamed root) 4325496 v1 = Some sc /\
    conf_ty kmip_schema kmip_ops kmip_attrs kmip_objs FUEL None (TNamed root) 4325496 v = None.
Proof.
  cbv zeta. eexists. eexists. eexists. eexists.
  split; [vm_compute; reflexivity|]. split; [reflexivity|].
  split; [vm_compute; discriminate|]. split; [vm_compute; reflexivity|].
  split; [vm_compute; discriminate|]. split; [vm_compute; reflexivity|].
  split; [vm_compute; reflexivity|]. split; vm_compute; reflexivity.
Qed.
