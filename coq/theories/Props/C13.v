(** C13 — version negotiation adopts the highest common protocol version.
    Statements only; proofs are in NegotiateProofs.v. *)
From Coq Require Import ZArith List.
From KV Require Import Negotiate NegotiateProofs.
Import ListNotations.

(* adopted version = highest version that is in the configured set and advertised *)
Theorem C13_adopt_highest : forall client l v,
  negotiate None client (RVersions l) = Adopt v <->
  (In v client /\ In v l /\ forall w, In w client -> In w l -> ver_le w v).
Proof. exact adopt_highest. Qed.
Print Assumptions C13_adopt_highest.

(* connecting fails exactly when there is no common version *)
Theorem C13_adopt_none : forall client l,
  negotiate None client (RVersions l) = Fail <-> (forall w, In w client -> ~ In w l).
Proof. exact adopt_none. Qed.
Print Assumptions C13_adopt_none.

(* discovery unsupported: 1.0, only when 1.0 is configured *)
Theorem C13_adopt_fallback : forall client v,
  negotiate None client RNotSupported = Adopt v <-> (v = v1_0 /\ In v1_0 client).
Proof. exact adopt_fallback. Qed.
Print Assumptions C13_adopt_fallback.

Theorem C13_adopt_fallback_fail : forall client,
  negotiate None client RNotSupported = Fail <-> ~ In v1_0 client.
Proof. exact adopt_fallback_fail. Qed.
Print Assumptions C13_adopt_fallback_fail.

(* always a member of the configured set, or the enforced version *)
Theorem C13_adopt_member : forall enforced client r v,
  negotiate enforced client r = Adopt v -> In v client \/ enforced = Some v.
Proof. exact adopt_member. Qed.
Print Assumptions C13_adopt_member.

Theorem C13_adopt_enforced : forall e client r, negotiate (Some e) client r = Adopt e.
Proof. exact adopt_enforced. Qed.
Print Assumptions C13_adopt_enforced.

Theorem C13_other_replies_fail : forall client r,
  (r = RTransportErr \/ r = RBadCount \/ r = RFailed \/ r = RNoPayload \/ r = RForeignPayload) ->
  negotiate None client r = Fail.
Proof. exact adopt_other_replies_fail. Qed.
Print Assumptions C13_other_replies_fail.

(* every subsequent request (and clone) carries the adopted version *)
Theorem C13_stamped : forall enforced client r v n,
  negotiate enforced client r = Adopt v ->
  let c := {| c_version := v; c_supported := client |} in
  request_version c n = v /\ request_version (clone c) n = v.
Proof. exact stamped. Qed.
Print Assumptions C13_stamped.

(* the result does not depend on how either side orders its list *)
Theorem C13_order_independent : forall client client' l l',
  (forall v, In v client <-> In v client') -> (forall v, In v l <-> In v l') ->
  negotiate None client (RVersions l) = negotiate None client' (RVersions l').
Proof. exact adopt_order_independent. Qed.
Print Assumptions C13_order_independent.

(* the library's own server lists the common versions, highest first *)
Theorem C13_server_list : forall server offered v,
  offered <> [] ->
  (In v (handle_discover (set_supported server) offered) <-> In v (set_supported server) /\ In v offered)
  /\ desc_sorted (handle_discover (set_supported server) offered).
Proof.
  intros server offered v H. split; [apply handle_discover_spec; exact H | apply server_list_desc; apply set_supported_sorted].
Qed.
Print Assumptions C13_server_list.

Theorem C13_lib_client_lib_server : forall client server v,
  client <> [] -> server <> [] ->
  (negotiate None client (RVersions (handle_discover (set_supported server) client)) = Adopt v
   <-> highest_common client server v).
Proof. exact lib_client_lib_server. Qed.
Print Assumptions C13_lib_client_lib_server.

Example C13_nonvacuous :
  negotiate None [(1,2); (1,1); (1,0)]%Z (RVersions [(1,0); (1,1); (1,4)]%Z) = Adopt (1,1)%Z
  /\ highest_common [(1,2); (1,1); (1,0)]%Z [(1,0); (1,1); (1,4)]%Z (1,1)%Z.
Proof. exact negotiate_example. Qed.
