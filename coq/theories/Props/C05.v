(** C05 - Message elements are gated by the protocol version in the header.
    Statements only; proofs in VersionsProofs.v.  [enc_fields] / [dec_fields_s] are the
    per-field loops of the reflective codec (SchemaSem.v); the lemmas hold for ANY schema;
    [kmip_schema] is the schema REGENERATED from /repo on every check and
    [pinned_versions] the committed table of the version that introduced each element. *)
From Coq Require Import ZArith List Bool String.
From KV Require Import Base Wire Cursor Schema SchemaSem Versions PinnedVersions VersionsProofs.
From KVGen Require Import KmipSchema.
Import ListNotations.
Open Scope Z_scope.

(** Sound: at a version outside a field's range the field contributes NO element, whatever it holds. *)
Theorem C05_gate_sound : forall (S : schema) f st fd fl x vl items st2,
  f_tag fd <> 0 ->
  version_in (field_state st fd x) (f_range fd) = false ->
  enc_fields S f (field_state st fd x) fl vl = Ok (items, st2) ->
  enc_fields S (Datatypes.S f) st (fd :: fl) (x :: vl) = Ok (items, st2).
Proof. exact gate_sound. Qed.
Print Assumptions C05_gate_sound.

(** Complete: a populated field valid at the version contributes exactly its encoding. *)
Theorem C05_gate_complete : forall (S : schema) f st fd fl x vl a sa b sb,
  f_tag fd <> 0 ->
  version_in (field_state st fd x) (f_range fd) = true ->
  f_omit fd && is_zero x = false ->
  enc_ty S f (field_state st fd x) (f_ty fd) (f_tag fd) x = Ok (a, sa) ->
  enc_fields S f sa fl vl = Ok (b, sb) ->
  enc_fields S (Datatypes.S f) st (fd :: fl) (x :: vl) = Ok ((a ++ b)%list, sb).
Proof. exact gate_complete. Qed.
Print Assumptions C05_gate_complete.

(** Decoding accepts an element present on the wire at any version. *)
Theorem C05_decode_accepts_present : forall (S : schema) (R : Type) OPS ATTRS OBJS (F : rawfmt R) f st fd fl (c : cur R),
  f_tag fd <> 0 -> c_tag c = f_tag fd ->
  dec_fields_s S OPS ATTRS OBJS F (Datatypes.S f) st (fd :: fl) c =
    (do a <- dec_ty S OPS ATTRS OBJS F f st (f_ty fd) (f_tag fd) c ;;
     let st1 := if f_setver fd then ver_of_value (fst (fst a)) else snd a in
     do b <- dec_fields_s S OPS ATTRS OBJS F f st1 fl (snd (fst a)) ;;
     Ok (fst (fst a) :: fst (fst b), snd (fst b), snd b)).
Proof. intros. apply dec_accepts_present; assumption. Qed.
Print Assumptions C05_decode_accepts_present.

(** ... and an absent gated element outside its range is skipped, not an error. *)
Theorem C05_decode_skips_absent : forall (S : schema) (R : Type) OPS ATTRS OBJS (F : rawfmt R) f st fd fl (c : cur R),
  f_tag fd <> 0 -> c_tag c <> f_tag fd -> version_in st (f_range fd) = false ->
  dec_fields_s S OPS ATTRS OBJS F (Datatypes.S f) st (fd :: fl) c =
    (let st1 := if f_setver fd then ver_of_value (zero_of S 8 (f_ty fd)) else st in
     do b <- dec_fields_s S OPS ATTRS OBJS F f st1 fl c ;;
     Ok (zero_of S 8 (f_ty fd) :: fst (fst b), snd (fst b), snd b)).
Proof. intros. apply dec_skips_absent_gated; assumption. Qed.
Print Assumptions C05_decode_skips_absent.

(** The annotations of the current tree are exactly the pinned ones (61 elements, 20 structures). *)
Theorem C05_annotations_pinned : version_view kmip_schema = pinned_versions.
Proof. exact kmip_versions_pinned. Qed.
Print Assumptions C05_annotations_pinned.

Theorem C05_set_version_pinned : setver_view kmip_schema = pinned_setver.
Proof. exact kmip_setver_pinned. Qed.
Print Assumptions C05_set_version_pinned.

(** The version is known before any gate is consulted: in both message types the header is
    the first field and the protocol version (set-version, ungated, not omitempty) its first field. *)
Theorem C05_header_first :
  header_first kmip_schema "kmip.RequestMessage" = true /\ header_first kmip_schema "kmip.ResponseMessage" = true.
Proof. exact kmip_header_first. Qed.
Print Assumptions C05_header_first.

(** Non-vacuity: 61 gated elements; the range v1.2.. excludes 1.1 and contains 1.3. *)
Example C05_example :
  List.length pinned_versions = 61%nat /\
  version_in (Some (1, 1)) (Some (Some (1, 2), None)) = false /\
  version_in (Some (1, 3)) (Some (Some (1, 2), None)) = true /\
  version_in None (Some (Some (1, 2), None)) = true.
Proof. vm_compute. repeat split; reflexivity. Qed.
