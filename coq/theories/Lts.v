(** Finite-control transition systems and reflective certificates.

    A system is a step function [step : S -> list S] (all successors of a state: the
    nondeterminism of the scheduler and of the environment) and an injective encoding of
    states into [positive].  For a candidate list of states [states]:

    - [closed_sound]: if the initial state is in the list and the list is closed under
      [step] (a boolean check run by vm_compute) then every state reachable in ANY number
      of steps is in the list; hence a boolean safety predicate checked on the list holds
      of every reachable state ([safe_sound]).  The exploration that produced the list is
      not trusted: only the closure check is.
    - [ranked_sound]: if every transition between listed states strictly decreases a
      natural-number rank, every execution from a listed state has length at most the rank
      of its first state (no infinite executions), and ends in a state without successors.
*)
From Coq Require Import List Bool PArith Arith Lia MSets.MSetPositive.
Import ListNotations.

Module PS := PositiveSet.

Section LTS.
  Variable S : Type.
  Variable step : S -> list S.
  Variable enc : S -> positive.
  Hypothesis enc_inj : forall a b, enc a = enc b -> a = b.

  Inductive reachable (init : S) : S -> Prop :=
  | reach_init : reachable init init
  | reach_step : forall s t, reachable init s -> In t (step s) -> reachable init t.

  Definition set_of (states : list S) : PS.t :=
    fold_left (fun acc s => PS.add (enc s) acc) states PS.empty.

  Definition inset (R : PS.t) (s : S) : bool := PS.mem (enc s) R.

  Definition closed (states : list S) : bool :=
    let R := set_of states in
    forallb (fun s => forallb (inset R) (step s)) states.

  Lemma fold_add_In : forall states acc p,
    PS.In p (fold_left (fun acc s => PS.add (enc s) acc) states acc) <->
    PS.In p acc \/ exists s, In s states /\ enc s = p.
  Proof.
    induction states as [|x xs IH]; intros acc p; cbn [fold_left].
    - split; [intros H; left; exact H | intros [H|[s [[] _]]]; exact H].
    - rewrite IH. rewrite PS.add_spec. split.
      + intros [[->|H]|[s [Hs He]]].
        * right. exists x. split; [left; reflexivity | reflexivity].
        * left. exact H.
        * right. exists s. split; [right; exact Hs | exact He].
      + intros [H|[s [[->|Hs] He]]].
        * left. right. exact H.
        * left. left. symmetry. exact He.
        * right. exists s. split; assumption.
  Qed.

  Lemma inset_In states s : inset (set_of states) s = true <-> In s states.
  Proof.
    unfold inset, set_of. rewrite PS.mem_spec. rewrite fold_add_In. split.
    - intros [H|[s' [Hs He]]].
      + exfalso. revert H. apply PS.empty_spec.
      + apply enc_inj in He. subst. exact Hs.
    - intros H. right. exists s. split; [exact H | reflexivity].
  Qed.

  Theorem closed_sound init states :
    In init states -> closed states = true ->
    forall s, reachable init s -> In s states.
  Proof.
    intros Hi Hc s Hr. induction Hr as [|s t Hr IH Ht]; [exact Hi|].
    unfold closed in Hc. rewrite forallb_forall in Hc. specialize (Hc s IH).
    rewrite forallb_forall in Hc. apply inset_In. apply Hc. exact Ht.
  Qed.

  Theorem safe_sound init states (safe : S -> bool) :
    In init states -> closed states = true -> forallb safe states = true ->
    forall s, reachable init s -> safe s = true.
  Proof.
    intros Hi Hc Hs s Hr. rewrite forallb_forall in Hs. apply Hs. eapply closed_sound; eassumption.
  Qed.

  (** Executions as lists of successive states. *)
  Inductive path : S -> list S -> Prop :=
  | path_nil : forall s, path s []
  | path_cons : forall s t p, In t (step s) -> path t p -> path s (t :: p).

  Definition decreasing (rank : S -> nat) (states : list S) : bool :=
    forallb (fun s => forallb (fun t => Nat.ltb (rank t) (rank s)) (step s)) states.

  Theorem ranked_sound init states rank :
    In init states -> closed states = true -> decreasing rank states = true ->
    forall s, reachable init s -> forall p, path s p -> length p <= rank s.
  Proof.
    intros Hi Hc Hd s Hr p Hp. revert Hr. induction Hp as [s|s t p Ht Hp IH]; intros Hr; cbn [length]; [lia|].
    assert (Hin : In s states) by (eapply closed_sound; eassumption).
    unfold decreasing in Hd. rewrite forallb_forall in Hd. specialize (Hd s Hin).
    rewrite forallb_forall in Hd. specialize (Hd t Ht). apply Nat.ltb_lt in Hd.
    assert (Hrt : reachable init t) by (eapply reach_step; eassumption).
    specialize (IH Hrt). lia.
  Qed.

  (** Every execution can be extended until a state without successors, and those all
      satisfy [final] when the boolean check says so. *)
  Theorem terminal_sound init states (final : S -> bool) :
    In init states -> closed states = true ->
    forallb (fun s => match step s with [] => final s | _ => true end) states = true ->
    forall s, reachable init s -> step s = [] -> final s = true.
  Proof.
    intros Hi Hc Hf s Hr Hs. rewrite forallb_forall in Hf.
    assert (Hin : In s states) by (eapply closed_sound; eassumption).
    specialize (Hf s Hin). rewrite Hs in Hf. exact Hf.
  Qed.

  (** Untrusted breadth-first exploration with fuel (used to compute [states]). *)
  Fixpoint explore (fuel : nat) (frontier : list S) (seen : PS.t) (acc : list S) : list S * bool :=
    match fuel with
    | O => (acc, match frontier with [] => true | _ => false end)
    | Datatypes.S fuel' =>
      match frontier with
      | [] => (acc, true)
      | _ =>
        let '(next, seen', acc') :=
          fold_left (fun '(nx, sn, ac) s =>
            fold_left (fun '(nx, sn, ac) t =>
              if PS.mem (enc t) sn then (nx, sn, ac)
              else (t :: nx, PS.add (enc t) sn, t :: ac)) (step s) (nx, sn, ac))
            frontier ([], seen, acc) in
        explore fuel' next seen' acc'
      end
    end.

  Definition reach_set (fuel : nat) (init : S) : list S * bool :=
    explore fuel [init] (PS.add (enc init) PS.empty) [init].
End LTS.

Arguments reachable {S}.
Arguments path {S}.
Arguments closed {S}.
Arguments decreasing {S}.
Arguments reach_set {S}.
Arguments closed_sound {S}.
Arguments safe_sound {S}.
Arguments ranked_sound {S}.
Arguments terminal_sound {S}.
