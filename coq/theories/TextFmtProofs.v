(** Proofs about the XML and JSON models of TextFmt.v: generic facts about the reader cursor
    (typed operations and the ttlv.Value decoder return; a faithful forest is read back), then
    the two instances. *)
From Coq Require Import String Ascii ZArith List Bool Lia.
From KV Require Import Base BaseProofs Wire Cursor TextLex TextLexProofs TextFmt.
Import ListNotations.
Open Scope Z_scope.

(** induction over items with the hypothesis available for all children *)
Lemma item_ind' (P : item -> Prop) :
  (forall tag kids, Forall P kids -> P (IStruct tag kids)) ->
  (forall tag v, P (IInt tag v)) -> (forall tag v, P (ILong tag v)) -> (forall tag v, P (IBig tag v)) ->
  (forall tag rtag v, P (IEnum tag rtag v)) -> (forall tag b, P (IBool tag b)) ->
  (forall tag s, P (IText tag s)) -> (forall tag s, P (IBytes tag s)) ->
  (forall tag v, P (IDate tag v)) -> (forall tag v, P (IIntv tag v)) ->
  (forall tag rtag v, P (IMask tag rtag v)) ->
  forall i, P i.
Proof.
  intros Hs Hi Hl Hb He Hbo Ht Hby Hd Hiv Hm.
  fix IH 1. intros [tag kids|tag v|tag v|tag v|tag rtag v|tag b|tag s|tag s|tag v|tag v|tag rtag v];
    [|apply Hi|apply Hl|apply Hb|apply He|apply Hbo|apply Ht|apply Hby|apply Hd|apply Hiv|apply Hm].
  apply Hs. induction kids as [|k ks IHk]; constructor; [apply IH|exact IHk].
Qed.

Section GenericCursor.
  Context {R : Type}.
  Variable F : rawfmt R.

  (** every scalar parser of the format returns (a value or an error) *)
  Record fmt_total : Prop := {
    ft_int : forall raw, returns (p_int F raw);
    ft_long : forall raw, returns (p_long F raw);
    ft_big : forall raw, returns (p_big F raw);
    ft_enum : forall rtag tag raw, returns (p_enum F rtag tag raw);
    ft_bool : forall raw, returns (p_bool F raw);
    ft_text : forall raw, returns (p_text F raw);
    ft_bytes : forall raw, returns (p_bytes F raw);
    ft_date : forall raw, returns (p_date F raw);
    ft_intv : forall raw, returns (p_intv F raw);
    ft_mask : forall rtag tag raw, returns (p_mask F rtag tag raw);
  }.

  Lemma c_open_returns (l : list (relem R)) b : returns (c_open l b).
  Proof. unfold c_open. destruct l; [destruct b|]; exact I. Qed.

  Lemma c_open_fst (l : list (relem R)) b c : c_open l b = Ok c -> fst c = l.
  Proof. unfold c_open. destruct l; [destruct b|]; intros H; inversion H; reflexivity. Qed.

  Lemma c_next_returns (c : cur R) : returns (c_next c).
  Proof. unfold c_next. destruct (fst c); [exact I|apply c_open_returns]. Qed.

  Lemma c_next_fst (c c' : cur R) : c_next c = Ok c' -> fst c' = tl (fst c).
  Proof. unfold c_next. destruct (fst c) as [|e r]; [discriminate|]. apply c_open_fst. Qed.

  Lemma c_expect_returns ty tag (c : cur R) : returns (c_expect ty tag c).
  Proof.
    unfold c_expect. destruct (fst c) as [|[t y raw kids kb] r]; [exact I|].
    destruct (negb (t =? tag)); [exact I|]. destruct (negb (y =? ty)); exact I.
  Qed.

  Lemma c_scalar_returns {A} ty (parse : R -> res A) tag (c : cur R) :
    (forall raw, returns (parse raw)) -> returns (c_scalar ty parse tag c).
  Proof.
    intros Hp. unfold c_scalar. apply returns_bind; [apply c_expect_returns|].
    intros [t y raw kids kb] _. apply returns_bind; [apply Hp|]. intros v _.
    apply returns_bind; [apply c_next_returns|]. intros; exact I.
  Qed.

  Lemma c_scalar_fst {A} ty (parse : R -> res A) tag (c : cur R) v c' :
    c_scalar ty parse tag c = Ok (v, c') -> fst c' = tl (fst c).
  Proof.
    unfold c_scalar. destruct (c_expect ty tag c) as [[t y raw kids kb]| | |]; cbn [bind]; try discriminate.
    destruct (parse raw); cbn [bind]; try discriminate.
    destruct (c_next c) eqn:E; cbn [bind]; try discriminate.
    intros H; inversion H; subst. eapply c_next_fst; eassumption.
  Qed.

  Lemma c_struct_returns {A} tag (f : cur R -> res (A * cur R)) (c : cur R) :
    (forall t y raw kids kb r sub, fst c = RE t y raw kids kb :: r -> fst sub = kids -> returns (f sub)) ->
    returns (c_struct F tag f c).
  Proof.
    intros Hf. unfold c_struct. unfold c_expect.
    destruct (fst c) as [|[t y raw kids kb] r] eqn:Ec; [exact I|].
    destruct (negb (t =? tag)); [exact I|]. destruct (negb (y =? T_STRUCT)); [exact I|]. cbn [bind].
    apply returns_bind; [apply c_open_returns|]. intros sub Hsub.
    apply returns_bind; [eapply Hf; [reflexivity|eapply c_open_fst; eassumption]|]. intros r0 _.
    destruct (strict_close F && snd (snd r0)); [exact I|].
    apply returns_bind; [|intros; exact I].
    unfold c_next. rewrite Ec. apply c_open_returns.
  Qed.

  Lemma c_struct_fst {A} tag (f : cur R -> res (A * cur R)) (c : cur R) v c' :
    c_struct F tag f c = Ok (v, c') -> fst c' = tl (fst c).
  Proof.
    unfold c_struct. destruct (c_expect T_STRUCT tag c) as [[t y raw kids kb]| | |]; cbn [bind]; try discriminate.
    destruct (c_open kids kb); cbn [bind]; try discriminate.
    destruct (f a); cbn [bind]; try discriminate.
    destruct (strict_close F && snd (snd a0)); try discriminate.
    destruct (c_next c) eqn:E; cbn [bind]; try discriminate.
    intros H; inversion H; subst. eapply c_next_fst; eassumption.
  Qed.

  Lemma forest_size_cons (e : relem R) l : forest_size (e :: l) = (relem_size e + forest_size l)%nat.
  Proof. reflexivity. Qed.
  Lemma relem_size_RE t y (raw : R) kids kb : relem_size (RE t y raw kids kb) = S (forest_size kids).
  Proof. reflexivity. Qed.
  Lemma forest_size_tl (l : list (relem R)) : (forest_size (tl l) <= forest_size l)%nat.
  Proof. destruct l; [cbn; lia|]. rewrite forest_size_cons. cbn [tl]. lia. Qed.

  Lemma dec_value_S f tag (c : cur R) :
    dec_value F (S f) tag c =
      let ty := c_type c in
      if ty =? T_INT then do r <- c_integer F tag c ;; Ok (IInt tag (fst r), snd r)
      else if ty =? T_LONG then do r <- c_long F tag c ;; Ok (ILong tag (fst r), snd r)
      else if ty =? T_BIG then do r <- c_big F tag c ;; Ok (IBig tag (fst r), snd r)
      else if ty =? T_BOOL then do r <- c_bool F tag c ;; Ok (IBool tag (fst r), snd r)
      else if ty =? T_BYTES then do r <- c_bytes F tag c ;; Ok (IBytes tag (fst r), snd r)
      else if ty =? T_DATE then do r <- c_date F tag c ;; Ok (IDate tag (fst r), snd r)
      else if ty =? T_ENUM then do r <- c_enum F 0 tag c ;; Ok (IEnum tag 0 (fst r), snd r)
      else if ty =? T_INTV then do r <- c_intv F tag c ;; Ok (IIntv tag (fst r), snd r)
      else if ty =? T_TEXT then do r <- c_text F tag c ;; Ok (IText tag (fst r), snd r)
      else if ty =? T_STRUCT then
        do r <- c_struct F tag (dec_fields F f) c ;; Ok (IStruct tag (fst r), snd r)
      else Err.
  Proof. reflexivity. Qed.

  Lemma dec_fields_S f (c : cur R) :
    dec_fields F (S f) c =
      if c_tag c =? 0 then Ok ([], c) else
      do r <- dec_value F f (c_tag c) c ;;
      do rs <- dec_fields F f (snd r) ;;
      Ok (fst r :: fst rs, snd rs).
  Proof. reflexivity. Qed.

  Lemma dec_value_int f tag (c : cur R) : c_type c = T_INT ->
    dec_value F (S f) tag c = do r <- c_integer F tag c ;; Ok (IInt tag (fst r), snd r).
  Proof. intros H. rewrite dec_value_S. cbv zeta. rewrite H. reflexivity. Qed.
  Lemma dec_value_long f tag (c : cur R) : c_type c = T_LONG ->
    dec_value F (S f) tag c = do r <- c_long F tag c ;; Ok (ILong tag (fst r), snd r).
  Proof. intros H. rewrite dec_value_S. cbv zeta. rewrite H. reflexivity. Qed.
  Lemma dec_value_big f tag (c : cur R) : c_type c = T_BIG ->
    dec_value F (S f) tag c = do r <- c_big F tag c ;; Ok (IBig tag (fst r), snd r).
  Proof. intros H. rewrite dec_value_S. cbv zeta. rewrite H. reflexivity. Qed.
  Lemma dec_value_bool f tag (c : cur R) : c_type c = T_BOOL ->
    dec_value F (S f) tag c = do r <- c_bool F tag c ;; Ok (IBool tag (fst r), snd r).
  Proof. intros H. rewrite dec_value_S. cbv zeta. rewrite H. reflexivity. Qed.
  Lemma dec_value_bytes f tag (c : cur R) : c_type c = T_BYTES ->
    dec_value F (S f) tag c = do r <- c_bytes F tag c ;; Ok (IBytes tag (fst r), snd r).
  Proof. intros H. rewrite dec_value_S. cbv zeta. rewrite H. reflexivity. Qed.
  Lemma dec_value_date f tag (c : cur R) : c_type c = T_DATE ->
    dec_value F (S f) tag c = do r <- c_date F tag c ;; Ok (IDate tag (fst r), snd r).
  Proof. intros H. rewrite dec_value_S. cbv zeta. rewrite H. reflexivity. Qed.
  Lemma dec_value_enum f tag (c : cur R) : c_type c = T_ENUM ->
    dec_value F (S f) tag c = do r <- c_enum F 0 tag c ;; Ok (IEnum tag 0 (fst r), snd r).
  Proof. intros H. rewrite dec_value_S. cbv zeta. rewrite H. reflexivity. Qed.
  Lemma dec_value_intv f tag (c : cur R) : c_type c = T_INTV ->
    dec_value F (S f) tag c = do r <- c_intv F tag c ;; Ok (IIntv tag (fst r), snd r).
  Proof. intros H. rewrite dec_value_S. cbv zeta. rewrite H. reflexivity. Qed.
  Lemma dec_value_text f tag (c : cur R) : c_type c = T_TEXT ->
    dec_value F (S f) tag c = do r <- c_text F tag c ;; Ok (IText tag (fst r), snd r).
  Proof. intros H. rewrite dec_value_S. cbv zeta. rewrite H. reflexivity. Qed.
  Lemma dec_value_struct f tag (c : cur R) : c_type c = T_STRUCT ->
    dec_value F (S f) tag c = do r <- c_struct F tag (dec_fields F f) c ;; Ok (IStruct tag (fst r), snd r).
  Proof. intros H. rewrite dec_value_S. cbv zeta. rewrite H. reflexivity. Qed.

  Ltac scalar_branch H :=
    match type of H with
    | bind ?x _ = Ok _ => destruct x as [[? ?]| | |] eqn:?; cbn [bind] in H; try discriminate;
                          inversion H; subst; cbn [snd]; eapply c_scalar_fst; eassumption
    end.

  Lemma dec_value_fst fuel tag (c : cur R) i c' :
    dec_value F fuel tag c = Ok (i, c') -> fst c' = tl (fst c).
  Proof.
    destruct fuel as [|f]; [discriminate|]. rewrite dec_value_S. cbv zeta.
    repeat match goal with |- (if ?b then _ else _) = _ -> _ => destruct b end; intros H;
      try (unfold c_integer, c_long, c_big, c_bool, c_bytes, c_date, c_enum, c_intv, c_text in H; scalar_branch H); try discriminate.
    destruct (c_struct F tag (dec_fields F f) c) as [[? ?]| | |] eqn:E; cbn [bind] in H; try discriminate.
    inversion H; subst; cbn [snd]. eapply c_struct_fst; eassumption.
  Qed.

  Hypothesis Htot : fmt_total.

  (** the generic ttlv.Value decoder returns on every raw forest, with fuel linear in its size *)
  Lemma dec_returns fuel :
    (forall tag (c : cur R), (2 * forest_size (fst c) < fuel)%nat -> returns (dec_value F fuel tag c)) /\
    (forall (c : cur R), (2 * forest_size (fst c) + 1 < fuel)%nat -> returns (dec_fields F fuel c)).
  Proof.
    induction fuel as [|f [IHv IHf]]; [split; intros; lia|]. split.
    - intros tag c Hc. rewrite dec_value_S. cbv zeta.
      repeat match goal with |- returns (if ?b then _ else _) => destruct b end;
        try (apply returns_bind; [|intros; exact I]);
        try (unfold c_integer, c_long, c_big, c_bool, c_bytes, c_date, c_enum, c_intv, c_text; apply c_scalar_returns; intros; apply Htot);
        try exact I.
      apply c_struct_returns. intros t y raw kids kb r sub Ec Hsub. apply IHf. rewrite Hsub.
      rewrite Ec, forest_size_cons, relem_size_RE in Hc. lia.
    - intros c Hc. rewrite dec_fields_S. destruct (c_tag c =? 0) eqn:Etag; [exact I|].
      apply returns_bind; [apply IHv; lia|]. intros [i c'] Hi.
      apply returns_bind; [|intros; exact I]. cbn [snd]. apply IHf.
      rewrite (dec_value_fst _ _ _ _ _ Hi).
      unfold c_tag in Etag.
      destruct (fst c) as [|e r]; [discriminate|]. cbn [tl]. rewrite forest_size_cons in Hc.
      destruct e as [t y raw kids kb]. rewrite relem_size_RE in Hc. lia.
  Qed.

  Lemma dec_value_returns fuel tag (c : cur R) :
    (2 * forest_size (fst c) < fuel)%nat -> returns (dec_value F fuel tag c).
  Proof. apply dec_returns. Qed.

  (** typed re-reading along any script returns on every raw forest *)
  Lemma read_as_returns : forall script (c : cur R), returns (read_as F script c).
  Proof.
    induction script as [tag kids IH| | | | | | | | | |] using item_ind'; intros c; cbn [read_as];
      try (apply returns_bind; [|intros; exact I];
           unfold c_integer, c_long, c_big, c_bool, c_bytes, c_date, c_enum, c_intv, c_text, c_mask; apply c_scalar_returns; intros; apply Htot).
    apply returns_bind; [|intros; exact I]. apply c_struct_returns. intros t y raw kids' kb rr sub _ _. clear c.
    revert sub. induction IH as [|k ks Hk _ IHks]; intros sub; [exact I|].
    apply returns_bind; [apply Hk|]. intros r _. apply returns_bind; [apply IHks|]. intros; exact I.
  Qed.
End GenericCursor.

(** ------------------------------------------------------------ a faithful forest is read back *)

Scheme faithful1_mind := Minimality for faithful1 Sort Prop
  with faithful_mind := Minimality for faithful Sort Prop.
Combined Scheme faithful_mutind from faithful1_mind, faithful_mind.

Section Faithful.
  Context {R : Type}.
  Variable F : rawfmt R.

  Lemma c_next_cons (e : relem R) rest : c_next (e :: rest, false) = Ok (rest, false).
  Proof. unfold c_next, c_open. cbn [fst snd]. destruct rest; reflexivity. Qed.

  Lemma c_scalar_hit {A} ty (parse : R -> res A) tag raw kids kb rest v :
    parse raw = Ok v ->
    c_scalar ty parse tag (RE tag ty raw kids kb :: rest, false) = Ok (v, (rest, false)).
  Proof.
    intros Hp. unfold c_scalar, c_expect. cbn [fst]. rewrite !Z.eqb_refl. cbn [negb bind].
    rewrite Hp. cbn [bind]. rewrite c_next_cons. reflexivity.
  Qed.

  Lemma c_struct_hit {A} tag raw kids rest (f : cur R -> res (A * cur R)) v :
    f (kids, false) = Ok (v, ([], false)) ->
    c_struct F tag f (RE tag T_STRUCT raw kids false :: rest, false) = Ok (v, (rest, false)).
  Proof.
    intros Hf. unfold c_struct, c_expect. cbn [fst]. rewrite !Z.eqb_refl. cbn [negb bind].
    assert (Ho : c_open kids false = Ok (kids, false)) by (destruct kids; reflexivity).
    rewrite Ho. cbn [bind]. rewrite Hf. cbn [bind fst snd]. rewrite andb_false_r, c_next_cons. reflexivity.
  Qed.

  (** typed reading of what was written returns exactly the items written *)
  Lemma read_faithful :
    (forall i e, faithful1 F i e -> forall rest, read_as F i (e :: rest, false) = Ok (i, (rest, false))) /\
    (forall il el, faithful F il el -> read_list F il (el, false) = Ok (il, ([], false))).
  Proof.
    apply faithful_mutind.
    - intros tag kids raw es _ IH rest. cbn [read_as].
      rewrite (c_struct_hit tag raw es rest _ kids); [reflexivity|]. exact IH.
    - intros; cbn [read_as]; unfold c_integer; erewrite c_scalar_hit by eassumption; reflexivity.
    - intros; cbn [read_as]; unfold c_long; erewrite c_scalar_hit by eassumption; reflexivity.
    - intros; cbn [read_as]; unfold c_big; erewrite c_scalar_hit by eassumption; reflexivity.
    - intros; cbn [read_as]; unfold c_enum; erewrite c_scalar_hit by eassumption; reflexivity.
    - intros; cbn [read_as]; unfold c_bool; erewrite c_scalar_hit by eassumption; reflexivity.
    - intros; cbn [read_as]; unfold c_text; erewrite c_scalar_hit by eassumption; reflexivity.
    - intros; cbn [read_as]; unfold c_bytes; erewrite c_scalar_hit by eassumption; reflexivity.
    - intros; cbn [read_as]; unfold c_date; erewrite c_scalar_hit by eassumption; reflexivity.
    - intros; cbn [read_as]; unfold c_intv; erewrite c_scalar_hit by eassumption; reflexivity.
    - intros; cbn [read_as]; unfold c_mask; erewrite c_scalar_hit by eassumption; reflexivity.
    - reflexivity.
    - intros i e il el _ IH1 _ IH2. cbn [read_list]. rewrite IH1. cbn [bind snd]. rewrite IH2. reflexivity.
  Qed.

  Lemma faithful_sizes :
    (forall i e, faithful1 F i e -> relem_size e = item_size i) /\
    (forall il el, faithful F il el -> forest_size el = fold_right (fun k n => item_size k + n)%nat O il).
  Proof.
    apply faithful_mutind; intros; try reflexivity.
    - cbn [relem_size item_size]. f_equal. assumption.
    - cbn [fold_right]. rewrite forest_size_cons. congruence.
  Qed.

  Lemma faithful1_tag i e : faithful1 F i e -> match e with RE t _ _ _ _ => t = itag i end.
  Proof. destruct 1; reflexivity. Qed.

  (** the generic ttlv.Value decoder returns exactly the value tree that was written *)
  Lemma dec_faithful :
    (forall i e, faithful1 F i e -> value_item i = true ->
       forall fuel rest, (2 * relem_size e < fuel)%nat ->
       dec_value F fuel (itag i) (e :: rest, false) = Ok (i, (rest, false))) /\
    (forall il el, faithful F il el -> forallb (fun k => negb (itag k =? 0) && value_item k) il = true ->
       forall fuel, (2 * forest_size el + 1 < fuel)%nat ->
       dec_fields F fuel (el, false) = Ok (il, ([], false))).
  Proof.
    apply faithful_mutind.
    - intros tag kids raw es _ IH Hv fuel rest Hf. cbn [value_item] in Hv. rewrite relem_size_RE in Hf.
      destruct fuel as [|f]; [lia|]. cbn [itag]. rewrite dec_value_struct by reflexivity.
      rewrite (c_struct_hit tag raw es rest _ kids); [reflexivity|]. apply IH; [exact Hv|lia].
    - intros tag v raw kb Hp _ fuel rest Hf. destruct fuel as [|f]; [lia|]. cbn [itag]. rewrite dec_value_int by reflexivity.
      unfold c_integer. erewrite c_scalar_hit by eassumption. reflexivity.
    - intros tag v raw kb Hp _ fuel rest Hf. destruct fuel as [|f]; [lia|]. cbn [itag]. rewrite dec_value_long by reflexivity.
      unfold c_long. erewrite c_scalar_hit by eassumption. reflexivity.
    - intros tag v raw kb Hp _ fuel rest Hf. destruct fuel as [|f]; [lia|]. cbn [itag]. rewrite dec_value_big by reflexivity.
      unfold c_big. erewrite c_scalar_hit by eassumption. reflexivity.
    - intros tag rtag v raw kb Hp Hv fuel rest Hf. cbn [value_item] in Hv. apply Z.eqb_eq in Hv. subst rtag.
      destruct fuel as [|f]; [lia|]. cbn [itag]. rewrite dec_value_enum by reflexivity.
      unfold c_enum. erewrite c_scalar_hit by eassumption. reflexivity.
    - intros tag v raw kb Hp _ fuel rest Hf. destruct fuel as [|f]; [lia|]. cbn [itag]. rewrite dec_value_bool by reflexivity.
      unfold c_bool. erewrite c_scalar_hit by eassumption. reflexivity.
    - intros tag v raw kb Hp _ fuel rest Hf. destruct fuel as [|f]; [lia|]. cbn [itag]. rewrite dec_value_text by reflexivity.
      unfold c_text. erewrite c_scalar_hit by eassumption. reflexivity.
    - intros tag v raw kb Hp _ fuel rest Hf. destruct fuel as [|f]; [lia|]. cbn [itag]. rewrite dec_value_bytes by reflexivity.
      unfold c_bytes. erewrite c_scalar_hit by eassumption. reflexivity.
    - intros tag v raw kb Hp _ fuel rest Hf. destruct fuel as [|f]; [lia|]. cbn [itag]. rewrite dec_value_date by reflexivity.
      unfold c_date. erewrite c_scalar_hit by eassumption. reflexivity.
    - intros tag v raw kb Hp _ fuel rest Hf. destruct fuel as [|f]; [lia|]. cbn [itag]. rewrite dec_value_intv by reflexivity.
      unfold c_intv. erewrite c_scalar_hit by eassumption. reflexivity.
    - intros tag rtag v raw kb Hp Hv. discriminate.
    - intros _ fuel Hf. destruct fuel as [|f]; [lia|]. reflexivity.
    - intros i e il el Hfa IH1 _ IH2 Hv fuel Hf. cbn [forallb] in Hv.
      apply andb_true_iff in Hv as [Hv1 Hv2]. apply andb_true_iff in Hv1 as [Ht Hv1].
      rewrite forest_size_cons in Hf. destruct fuel as [|f]; [lia|].
      pose proof (faithful1_tag i e Hfa) as Htag. destruct e as [t y raw kids kb]. subst t.
      rewrite dec_fields_S. unfold c_tag. cbn [fst]. rewrite (negb_true_iff _) in Ht. rewrite Ht.
      rewrite IH1 by (auto; lia). cbn [bind snd fst]. rewrite relem_size_RE in Hf.
      rewrite IH2 by (auto; lia). reflexivity.
  Qed.
End Faithful.

(** ------------------------------------------------------------ identifiers *)

Lemma ident_inv n : ident_ok n = true -> exists c r, n = c :: r /\ is_alpha c = true /\ forallb is_ident_char r = true.
Proof. destruct n as [|c r]; [discriminate|]. cbn [ident_ok]. intros H. apply andb_true_iff in H as [H1 H2]. eauto. Qed.

Lemma alpha_digit c : is_alpha c = true -> exists d, digit_val c = Some d /\ 10 <= d.
Proof.
  unfold is_alpha, digit_val. intros H.
  replace ((48 <=? c) && (c <=? 57)) with false by lia.
  destruct ((97 <=? c) && (c <=? 122)) eqn:E; [eexists; split; [reflexivity|lia]|].
  replace ((65 <=? c) && (c <=? 90)) with true by lia. eexists; split; [reflexivity|lia].
Qed.

Lemma ident_no_prefix n : ident_ok n = true -> has_prefix s_0x n = false.
Proof.
  intros H. destruct (ident_inv n H) as [c [r [-> [Hc _]]]]. unfold s_0x. cbn [has_prefix].
  unfold is_alpha in Hc. replace (48 =? c) with false by lia. reflexivity.
Qed.

Lemma ident_not_digits n acc : ident_ok n = true -> parse_digits 10 n acc = None.
Proof.
  intros H. destruct (ident_inv n H) as [c [r [-> [Hc _]]]]. cbn [parse_digits].
  destruct (alpha_digit c Hc) as [d [-> Hd]]. replace (d <? 10) with false by lia. reflexivity.
Qed.

Lemma ident_not_uint n bits : ident_ok n = true -> parse_uint 10 bits n = Err.
Proof. intros H. unfold parse_uint. rewrite ident_not_digits by exact H. destruct n; reflexivity. Qed.

Lemma ident_not_int n bits : ident_ok n = true -> parse_int 10 bits n = Err.
Proof.
  intros H. destruct (ident_inv n H) as [c [r [E [Hc _]]]]. unfold parse_int. subst n.
  unfold is_alpha in Hc. replace ((c =? 43) || (c =? 45)) with false by lia.
  rewrite ident_not_digits by exact H. reflexivity.
Qed.

Lemma ident_char_tok c : is_ident_char c = true -> tok_char c = true.
Proof. unfold is_ident_char, is_alpha, tok_char. lia. Qed.

Lemma ident_tok n : ident_ok n = true -> tok_ok n = true.
Proof.
  intros H. destruct (ident_inv n H) as [c [r [-> [Hc Hr]]]]. cbn [tok_ok forallb].
  rewrite ident_char_tok by (unfold is_ident_char; rewrite Hc; reflexivity). cbn [andb].
  rewrite forallb_forall in *. intros x Hx. apply ident_char_tok, Hr, Hx.
Qed.

(** ------------------------------------------------------------ 32-bit flag sets *)

Lemma bit_indices_spec i : In i bit_indices <-> 0 <= i < 32.
Proof.
  change bit_indices with (map Z.of_nat (seq 0 32)). rewrite in_map_iff. split.
  - intros [k [<- Hk]]. apply in_seq in Hk. lia.
  - intros H. exists (Z.to_nat i). split; [lia|]. apply in_seq. lia.
Qed.

Lemma testbit_high v n : - 2 ^ 31 <= v < 2 ^ 31 -> 31 <= n -> Z.testbit v n = (v <? 0).
Proof.
  intros Hv Hn. assert (Hp : 2 ^ 31 <= 2 ^ n) by (apply Z.pow_le_mono_r; lia).
  destruct (v <? 0) eqn:E.
  - apply Z.testbit_true; [lia|].
    replace (v / 2 ^ n) with (-1); [reflexivity|]. apply Z.div_unique with (r := v + 2 ^ n); lia.
  - apply Z.testbit_false; [lia|]. rewrite Z.div_small by lia. reflexivity.
Qed.

Lemma bit32_small i : 0 <= i < 31 -> bit32 i = 2 ^ i.
Proof.
  intros Hi. unfold bit32, to_i32.
  assert (0 < 2 ^ i < 2 ^ 31) by (split; [apply Z.pow_pos_nonneg; lia|apply Z.pow_lt_mono_r; lia]).
  rewrite Z.mod_small by lia. replace (2 ^ i <? 2 ^ 31) with true by lia. reflexivity.
Qed.

Lemma bit32_spec i n : 0 <= i < 32 -> 0 <= n ->
  Z.testbit (bit32 i) n = if i <? 31 then n =? i else 31 <=? n.
Proof.
  intros Hi Hn. destruct (i <? 31) eqn:E.
  - rewrite bit32_small by lia. rewrite Z.pow2_bits_eqb by lia. rewrite Z.eqb_sym. reflexivity.
  - replace i with 31 by lia. change (bit32 31) with (- 2 ^ 31).
    destruct (31 <=? n) eqn:En.
    + rewrite testbit_high by lia. reflexivity.
    + rewrite Z.bits_opp by lia. change (Z.pred (2 ^ 31)) with (Z.ones 31).
      rewrite Z.ones_spec_low by lia. reflexivity.
Qed.

Definition lor_step (v : Z) (a i : Z) : Z := if Z.testbit v i then Z.lor a (bit32 i) else a.

Lemma fold_lor_bits v l : forall acc n, 0 <= n ->
  Z.testbit (fold_left (lor_step v) l acc) n =
  Z.testbit acc n || existsb (fun i => Z.testbit v i && Z.testbit (bit32 i) n) l.
Proof.
  induction l as [|i l IH]; intros acc n Hn; cbn [fold_left existsb]; [rewrite orb_false_r; reflexivity|].
  rewrite IH by exact Hn. unfold lor_step. destruct (Z.testbit v i); cbn [andb orb].
  - rewrite Z.lor_spec, orb_assoc. reflexivity.
  - reflexivity.
Qed.

(** or-ing the int32 values of the set bits of an int32 gives it back (bit 31 included) *)
Lemma fold_lor_all v : in_i32 v = true -> fold_left (lor_step v) bit_indices 0 = v.
Proof.
  unfold in_i32. intros Hv. assert (Hr : - 2 ^ 31 <= v < 2 ^ 31) by lia.
  apply Z.bits_inj'. intros n Hn. rewrite fold_lor_bits by exact Hn. rewrite Z.bits_0. cbn [orb].
  destruct (Z.testbit v n) eqn:Et.
  - apply existsb_exists. destruct (n <? 31) eqn:En.
    + exists n. split; [apply bit_indices_spec; lia|]. rewrite Et, bit32_spec by lia.
      replace (n <? 31) with true by lia. rewrite Z.eqb_refl. reflexivity.
    + exists 31. split; [apply bit_indices_spec; lia|].
      rewrite testbit_high in Et by lia. rewrite (testbit_high v 31) by lia. rewrite Et, bit32_spec by lia.
      cbn [Z.ltb Z.compare Pos.compare Pos.compare_cont andb]. lia.
  - destruct (existsb (fun i => Z.testbit v i && Z.testbit (bit32 i) n) bit_indices) eqn:Ex; [|reflexivity].
    apply existsb_exists in Ex as [i [Hi Hb]]. apply bit_indices_spec in Hi.
    apply andb_true_iff in Hb as [Hb1 Hb2]. rewrite bit32_spec in Hb2 by lia.
    destruct (i <? 31) eqn:Ei.
    + apply Z.eqb_eq in Hb2. subst i. congruence.
    + assert (i = 31) by lia. subst i. rewrite testbit_high in Et by lia. rewrite testbit_high in Hb1 by lia. congruence.
Qed.

(** ------------------------------------------------------------ the two instances *)

Lemma to_i32_id v : in_i32 v = true -> to_i32 v = v.
Proof.
  unfold in_i32, to_i32. intros H.
  destruct (v <? 0) eqn:E.
  - replace (v mod 2 ^ 32) with (v + 2 ^ 32) by (apply Z.mod_unique_pos with (q := -1); lia).
    replace (v + 2 ^ 32 <? 2 ^ 31) with false by lia. lia.
  - rewrite Z.mod_small by lia. replace (v <? 2 ^ 31) with true by lia. reflexivity.
Qed.

Lemma to_i64_id v : in_i64 v = true -> to_i64 v = v.
Proof.
  unfold in_i64, to_i64. intros H.
  destruct (v <? 0) eqn:E.
  - replace (v mod 2 ^ 64) with (v + 2 ^ 64) by (apply Z.mod_unique_pos with (q := -1); lia).
    replace (v + 2 ^ 64 <? 2 ^ 63) with false by lia. lia.
  - rewrite Z.mod_small by lia. replace (v <? 2 ^ 63) with true by lia. reflexivity.
Qed.

(** uint64(v) written in hex and converted back with int64(..) is v: both sides of the 2^52 switch *)
Lemma to_i64_to_u64 v : in_i64 v = true -> to_i64 (to_u64 v) = v.
Proof.
  intros H. unfold to_u64. rewrite <- (to_i64_id v H) at 2. unfold to_i64. rewrite Z.mod_mod by lia. reflexivity.
Qed.

Lemma type_roundtrip ty : 1 <= ty <= 10 -> resolve_type (type_name ty) = ty /\ type_name ty <> [].
Proof.
  intros H.
  assert (ty = 1 \/ ty = 2 \/ ty = 3 \/ ty = 4 \/ ty = 5 \/ ty = 6 \/ ty = 7 \/ ty = 8 \/ ty = 9 \/ ty = 10) as Hc by lia.
  repeat (destruct Hc as [->|Hc]; [split; [reflexivity|discriminate]|]). subst. split; [reflexivity|discriminate].
Qed.

Lemma flat_map_all_nil {A B} (f : A -> list B) l : (forall x, In x l -> f x = []) -> flat_map f l = [].
Proof. induction l as [|a l IH]; intros H; [reflexivity|]. cbn [flat_map]. rewrite (H a (or_introl eq_refl)), IH; [reflexivity|]. intros x Hx. apply H. right. exact Hx. Qed.

Lemma filter_all {A} (f : A -> bool) l : (forall x, In x l -> f x = true) -> filter f l = l.
Proof. induction l as [|a l IH]; intros H; [reflexivity|]. cbn [filter]. rewrite (H a (or_introl eq_refl)), IH; [reflexivity|]. intros x Hx. apply H. right. exact Hx. Qed.

Section Instances.
  Variable G : registry.

  (** --- no operation of the text readers panics, whatever the registry and the input *)

  Lemma enum_parse_returns rtag s : returns (enum_parse G rtag s).
  Proof.
    unfold enum_parse. destruct (has_prefix s_0x s) eqn:E.
    - destruct (go_from_prefixed s E) as [r [_ ->]]. cbn [bind]. apply parse_uint_returns.
    - pose proof (parse_uint_returns 10 32 s) as H. destruct (parse_uint 10 32 s); try exact I; try contradiction.
      destruct (r_enum_by_name G rtag s); exact I.
  Qed.

  Lemma mask_part_returns rtag s : returns (mask_part G rtag s).
  Proof.
    unfold mask_part. destruct (has_prefix s_0x s) eqn:E.
    - destruct (go_from_prefixed s E) as [r [_ ->]]. cbn [bind]. apply parse_uint_returns.
    - pose proof (parse_int_returns 10 32 s) as H. destruct (parse_int 10 32 s); try exact I; try contradiction.
      destruct (r_mask_by_name G rtag s); exact I.
  Qed.

  Lemma mask_fold_returns rtag parts : forall acc, returns (mask_fold G rtag parts acc).
  Proof.
    induction parts as [|p ps IH]; intros acc; cbn [mask_fold]; [exact I|].
    apply returns_bind; [apply mask_part_returns|]. intros; apply IH.
  Qed.

  Lemma in_range_returns lo hi n : returns (in_range lo hi n).
  Proof. unfold in_range. destruct ((n <? lo) || (hi <? n)); exact I. Qed.

  Lemma xml_fmt_total : fmt_total (xml_fmt G).
  Proof.
    constructor; cbn [xml_fmt p_int p_long p_big p_enum p_bool p_text p_bytes p_date p_intv p_mask]; intros.
    - apply returns_bind; [apply go_parse_int_returns|intros; exact I].
    - apply go_parse_int_returns.
    - apply returns_bind; [apply hex_decode_returns|intros; apply go_bytes_to_big_returns].
    - apply enum_parse_returns.
    - apply parse_bool_returns.
    - exact I.
    - apply hex_decode_returns.
    - apply parse_rfc3339_returns.
    - apply go_parse_uint_returns.
    - apply mask_fold_returns.
  Qed.

  Lemma json_fmt_total : fmt_total (json_fmt G).
  Proof.
    constructor; cbn [json_fmt p_int p_long p_big p_enum p_bool p_text p_bytes p_date p_intv p_mask]; intros;
      destruct raw; try exact I; unfold json_int64.
    - apply returns_bind; [apply parse_int_returns|intros; apply in_range_returns].
    - apply returns_bind; [apply go_parse_int_returns|intros; apply in_range_returns].
    - apply parse_int_returns.
    - apply go_parse_int_returns.
    - apply parse_int_returns.
    - destruct (has_prefix s_0x s) eqn:E; cbn [negb]; [|exact I].
      destruct (go_from_prefixed s E) as [r [_ ->]]. cbn [bind].
      apply returns_bind; [apply hex_decode_returns|intros; apply go_bytes_to_big_returns].
    - apply returns_bind; [apply parse_int_returns|intros; apply in_range_returns].
    - apply enum_parse_returns.
    - apply returns_bind; [apply go_parse_int_returns|intros; exact I].
    - apply hex_decode_returns.
    - destruct (has_prefix s_0x s) eqn:E; [|apply parse_rfc3339_returns].
      destruct (go_from_prefixed s E) as [r [_ ->]]. cbn [bind].
      apply returns_bind; [apply parse_uint_returns|]. intros u _.
      destruct (to_i64 u <? 0); [exact I|]. destruct (date_max <? to_i64 u); exact I.
    - apply returns_bind; [apply parse_int_returns|intros; apply in_range_returns].
    - apply go_parse_uint_returns.
    - apply returns_bind; [apply parse_int_returns|intros; apply in_range_returns].
    - apply mask_fold_returns.
  Qed.

  (** C02, text part: Unmarshal into ttlv.Value and every typed re-read return on ANY document *)
  Theorem xml_unmarshal_returns doc cut : returns (xml_unmarshal G doc cut).
  Proof.
    unfold xml_unmarshal. apply returns_bind.
    - unfold xml_cursor. destruct doc; [exact I|apply c_open_returns].
    - intros c _. apply returns_bind; [|intros; exact I]. apply dec_value_returns; [apply xml_fmt_total|lia].
  Qed.

  Theorem xml_reread_returns script doc cut : returns (xml_reread G script doc cut).
  Proof.
    unfold xml_reread. apply returns_bind.
    - unfold xml_cursor. destruct doc; [exact I|apply c_open_returns].
    - intros c _. apply returns_bind; [|intros; exact I]. apply read_as_returns, xml_fmt_total.
  Qed.

  Theorem json_unmarshal_returns doc : returns (json_unmarshal G doc).
  Proof.
    unfold json_unmarshal. apply returns_bind; [apply c_open_returns|].
    intros c _. apply returns_bind; [|intros; exact I]. apply dec_value_returns; [apply json_fmt_total|lia].
  Qed.

  Theorem json_reread_returns script doc : returns (json_reread G script doc).
  Proof.
    unfold json_reread. apply returns_bind; [apply c_open_returns|].
    intros c _. apply returns_bind; [|intros; exact I]. apply read_as_returns, json_fmt_total.
  Qed.

  (** --- round trips, for a hygienic registry *)
  Hypothesis Hok : registry_ok G.

  Lemma resolve_tag_named t n : r_tag_name G t = Some n -> resolve_tag G n = t.
  Proof.
    intros Hn. destruct (rk_tag G Hok t n Hn) as [Hid [_ Hrev]].
    destruct (ident_inv n Hid) as [c [r [E _]]]. unfold resolve_tag.
    rewrite ident_no_prefix by exact Hid. rewrite Hrev. subst n. reflexivity.
  Qed.

  Lemma resolve_tag_hex t : tag_ok t = true -> resolve_tag G (tag_hex t) = t.
  Proof.
    unfold tag_ok. intros Ht. unfold resolve_tag, tag_hex. change (s_0x ++ hex_pad 6 true t) with (48 :: 120 :: hex_pad 6 true t).
    change (has_prefix s_0x (48 :: 120 :: hex_pad 6 true t)) with true. cbv iota.
    change (drop 2 (48 :: 120 :: hex_pad 6 true t)) with (hex_pad 6 true t).
    unfold hex_pad. rewrite parse_int_pad by lia. reflexivity.
  Qed.

  Lemma resolve_tag_string t : tag_ok t = true -> resolve_tag G (tag_string G t) = t.
  Proof.
    intros Ht. unfold tag_string. destruct (r_tag_name G t) as [n|] eqn:E; [apply resolve_tag_named, E|apply resolve_tag_hex, Ht].
  Qed.

  (** an enumeration value, named or not, is read back (xmlReader.Enum, jsonReader.Enum string form) *)
  Lemma enum_roundtrip etag v : in_u32 v = true -> enum_parse G etag (enum_string G etag v) = Ok v.
  Proof.
    unfold in_u32. intros Hv. unfold enum_string.
    assert (Hhex : enum_parse G etag (s_0x ++ hex_pad 8 true v) = Ok v).
    { unfold enum_parse. rewrite has_prefix_0x_cons, go_from_0x. cbn [bind]. apply parse_hex_pad. lia. }
    destruct (r_enum_name G etag v) as [[|c n]|] eqn:E; try exact Hhex.
    destruct (rk_enum G Hok etag v (c :: n) E) as [Hid Hrev].
    unfold enum_parse. rewrite ident_no_prefix, ident_not_uint by exact Hid. rewrite Hrev. reflexivity.
  Qed.

  Definition mask_part_of (names : list (list Z)) (i : Z) : list (list Z) :=
    match nth_error names (Z.to_nat i) with
    | Some [] => []
    | Some n => [n]
    | None => [s_0x ++ hex_pad 8 true (2 ^ i)]
    end.

  Lemma hex_tok w n : 0 <= n -> tok_ok (s_0x ++ hex_pad w true n) = true.
  Proof.
    intros Hn. unfold s_0x. cbn [app tok_ok forallb]. change (tok_char 48) with true. change (tok_char 120) with true. cbn [andb].
    apply forallb_forall. apply Forall_forall. unfold hex_pad. apply pad_left_chars; [reflexivity|].
    apply digits_chars; [lia|lia|]. intros d Hd. unfold digit_char, tok_char. destruct (d <? 10) eqn:E; lia.
  Qed.

  (** each flag the writers emit for bit i is a token that the readers turn back into bit i *)
  Lemma mask_part_of_spec mtag i : 0 <= i < 32 ->
    exists p, mask_part_of (r_mask_names G mtag) i = [p] /\ tok_ok p = true /\
              exists x, mask_part G mtag p = Ok x /\ to_i32 x = bit32 i.
  Proof.
    intros Hi. unfold mask_part_of. destruct (nth_error (r_mask_names G mtag) (Z.to_nat i)) as [n|] eqn:E.
    - destruct (rk_mask G Hok mtag _ n E) as [_ [Hid Hrev]]. rewrite Z2Nat.id in Hrev by lia.
      destruct (ident_inv n Hid) as [c [r [En _]]]. subst n. exists (c :: r). split; [reflexivity|]. split; [apply ident_tok, Hid|].
      exists (bit32 i). split.
      + unfold mask_part. rewrite ident_no_prefix, ident_not_int by exact Hid. rewrite Hrev. reflexivity.
      + destruct (Z.eq_dec i 31) as [->|Hne]; [reflexivity|]. rewrite bit32_small by lia. fold (bit32 i). rewrite bit32_small by lia. reflexivity.
    - assert (0 < 2 ^ i < 2 ^ 32) by (split; [apply Z.pow_pos_nonneg; lia|apply Z.pow_lt_mono_r; lia]).
      eexists. split; [reflexivity|]. split; [apply hex_tok; lia|].
      exists (2 ^ i). split; [|reflexivity].
      unfold mask_part. rewrite has_prefix_0x_cons, go_from_0x. cbn [bind]. apply parse_hex_pad. lia.
  Qed.

  Lemma mask_parts_eq names v :
    mask_parts names v = flat_map (fun i => if Z.testbit v i then mask_part_of names i else []) bit_indices.
  Proof. reflexivity. Qed.

  Lemma mask_fold_app rtag a : forall b acc,
    mask_fold G rtag (a ++ b) acc = do x <- mask_fold G rtag a acc ;; mask_fold G rtag b x.
  Proof.
    induction a as [|p a IH]; intros b acc; [reflexivity|]. cbn [app mask_fold].
    destruct (mask_part G rtag p); cbn [bind]; try reflexivity. apply IH.
  Qed.

  Lemma mask_parts_fold mtag v l : (forall i, In i l -> 0 <= i < 32) -> forall acc,
    let parts := flat_map (fun i => if Z.testbit v i then mask_part_of (r_mask_names G mtag) i else []) l in
    Forall (fun p => tok_ok p = true) parts /\
    mask_fold G mtag parts acc = Ok (fold_left (lor_step v) l acc).
  Proof.
    induction l as [|i l IH]; intros Hl acc; cbn [flat_map fold_left]; [split; [constructor|reflexivity]|].
    destruct (IH (fun j Hj => Hl j (or_intror Hj)) (lor_step v acc i)) as [IH1 IH2].
    assert (Es : lor_step v acc i = (if Z.testbit v i then Z.lor acc (bit32 i) else acc)) by reflexivity.
    destruct (Z.testbit v i) eqn:Et; rewrite Es in IH2; rewrite Es.
    - destruct (mask_part_of_spec mtag i (Hl i (or_introl eq_refl))) as [p [-> [Htok [x [Hx Hxi]]]]].
      cbn [app]. split; [constructor; assumption|]. cbn [mask_fold]. rewrite Hx. cbn [bind]. rewrite Hxi. exact IH2.
    - cbn [app]. split; [exact IH1|exact IH2].
  Qed.

  Lemma mask_string_join mtag v sep : mask_string G mtag v sep = join sep (mask_parts (r_mask_names G mtag) v).
  Proof.
    unfold mask_string. destruct (v =? 0) eqn:E; [|reflexivity]. apply Z.eqb_eq in E. subst v.
    rewrite mask_parts_eq. replace (flat_map _ bit_indices) with (@nil (list Z)); [reflexivity|].
    symmetry. apply flat_map_all_nil. intros i _. rewrite Z.bits_0. reflexivity.
  Qed.

  (** a flag set is read back by xmlReader.Bitmask: every int32, named and unnamed bits, bit 31, 0 *)
  Lemma xml_mask_roundtrip mtag v : in_i32 v = true ->
    mask_fold G mtag (map trim_space (fields (mask_string G mtag v [32]))) 0 = Ok v.
  Proof.
    intros Hv. rewrite mask_string_join, mask_parts_eq.
    destruct (mask_parts_fold mtag v bit_indices (fun i Hi => proj1 (bit_indices_spec i) Hi) 0) as [Htok Hfold].
    cbv zeta in Htok, Hfold. rewrite fields_join by exact Htok.
    rewrite (map_ext_in trim_space (fun p => p)), map_id.
    - rewrite Hfold, fold_lor_all by exact Hv. reflexivity.
    - intros p Hp. apply trim_space_tok. rewrite Forall_forall in Htok. apply Htok, Hp.
  Qed.

  (** ... and by jsonReader.Bitmask (as repaired: the empty string is the empty set) *)
  Lemma json_mask_roundtrip mtag v : in_i32 v = true ->
    mask_fold G mtag (filter (fun p => match p with [] => false | _ => true end)
                        (map trim_space (split_on 124 (mask_string G mtag v [124])))) 0 = Ok v.
  Proof.
    intros Hv. rewrite mask_string_join, mask_parts_eq.
    destruct (mask_parts_fold mtag v bit_indices (fun i Hi => proj1 (bit_indices_spec i) Hi) 0) as [Htok Hfold].
    cbv zeta in Htok, Hfold. rewrite fold_lor_all in Hfold by exact Hv.
    destruct (flat_map (fun i => if Z.testbit v i then mask_part_of (r_mask_names G mtag) i else []) bit_indices) as [|p ps] eqn:Ep.
    - cbn. cbn in Hfold. exact Hfold.
    - rewrite split_join by exact Htok.
      rewrite (map_ext_in trim_space (fun p => p)), map_id.
      + rewrite filter_all; [exact Hfold|].
        intros q Hq. rewrite Forall_forall in Htok. specialize (Htok q Hq). destruct q; [discriminate|reflexivity].
      + intros q Hq. apply trim_space_tok. rewrite Forall_forall in Htok. apply Htok, Hq.
  Qed.
End Instances.

(** ------------------------------------------------------------ what the readers see in the writers' output *)

Lemma attr_get_here k v r : attr_get k ((k, v) :: r) = Some v.
Proof. cbn [attr_get]. rewrite seqb_refl. reflexivity. Qed.

Lemma cut_forest_map {E R} (conv : E -> relem R * bool) l :
  Forall (fun e => snd (conv e) = false) l ->
  cut_forest conv l false = (map (fun e => fst (conv e)) l, false).
Proof.
  induction 1 as [|e l He _ IH]; [reflexivity|]. cbn [cut_forest map]. rewrite He, IH. reflexivity.
Qed.

Lemma jfind_map_id {A} (f : jvalue -> A) k m : jfind_map f k m = option_map f (jget k m).
Proof.
  unfold jget. induction m as [|[k' v] r IH]; [reflexivity|]. cbn [jfind_map]. rewrite IH.
  destruct (jfind_map (fun x => x) k r); [reflexivity|]. destruct (seqb k' k); reflexivity.
Qed.

Lemma faithful_map {R} (F : rawfmt R) (f : item -> relem R) kids :
  Forall (fun k => faithful1 F k (f k)) kids -> faithful F kids (map f kids).
Proof. induction 1; cbn [map]; constructor; assumption. Qed.

Section Faithfulness.
  Variable G : registry.
  Hypothesis Hok : registry_ok G.

  Lemma xml_start_leaf ty tag value : 2 <= ty <= 10 -> tag_ok tag = true ->
    let na := xml_start G ty tag in
    let attrs := snd na ++ [(s_value, value)] in
    resolve_tag G (xml_raw_tag (fst na) attrs) = tag /\ xml_type attrs = ty /\ xml_value attrs = value.
  Proof.
    intros Hty Htag. destruct (type_roundtrip ty ltac:(lia)) as [Hrt _].
    unfold xml_start. replace (ty =? T_STRUCT) with false by (unfold T_STRUCT; lia).
    destruct (r_tag_name G tag) as [[|c n]|] eqn:E; cbn [fst snd app]; cbv zeta.
    2: { destruct (rk_tag G Hok tag (c :: n) E) as [_ [Hne _]].
         unfold xml_raw_tag, xml_type, xml_value. rewrite (seqb_neq _ _ Hne).
         rewrite attr_get_here. cbn [attr_get]. change (seqb s_type s_value) with false. cbv iota. rewrite seqb_refl.
         split; [apply (resolve_tag_named G Hok), E|]. split; [exact Hrt|reflexivity]. }
    all: unfold xml_raw_tag, xml_type, xml_value; change (seqb s_TTLV s_TTLV) with true; cbv iota;
      rewrite attr_get_here; cbn [attr_get]; change (seqb s_tag s_type) with false; change (seqb s_tag s_value) with false;
      change (seqb s_type s_value) with false; cbv iota; rewrite !seqb_refl;
      (split; [apply (resolve_tag_hex G), Htag|]); (split; [exact Hrt|reflexivity]).
  Qed.

  Lemma xml_start_struct tag : tag_ok tag = true ->
    let na := xml_start G T_STRUCT tag in
    resolve_tag G (xml_raw_tag (fst na) (snd na)) = tag /\ xml_type (snd na) = T_STRUCT.
  Proof.
    intros Htag. unfold xml_start. change (T_STRUCT =? T_STRUCT) with true. cbv iota.
    destruct (r_tag_name G tag) as [[|c n]|] eqn:E; cbn [fst snd app]; cbv zeta.
    2: { destruct (rk_tag G Hok tag (c :: n) E) as [_ [Hne _]].
         unfold xml_raw_tag, xml_type. rewrite (seqb_neq _ _ Hne). cbn [attr_get].
         split; [apply (resolve_tag_named G Hok), E|reflexivity]. }
    all: unfold xml_raw_tag, xml_type; change (seqb s_TTLV s_TTLV) with true; cbv iota;
      rewrite attr_get_here; cbn [attr_get]; change (seqb s_tag s_type) with false; cbv iota;
      (split; [apply (resolve_tag_hex G), Htag|reflexivity]).
  Qed.

  Lemma xml_relem_leaf ty tag value : 2 <= ty <= 10 -> tag_ok tag = true ->
    xml_relem G (xml_leaf G ty tag value) = (RE tag ty value [] false, false).
  Proof.
    intros Hty Htag. destruct (xml_start_leaf ty tag value Hty Htag) as [H1 [H2 H3]]. cbv zeta in H1, H2, H3.
    unfold xml_leaf. cbn [xml_relem cut_forest fst snd]. rewrite H1, H2, H3.
    replace (ty =? T_STRUCT) with false by (unfold T_STRUCT; lia). reflexivity.
  Qed.

  (** the XML writer's output is read back call for call *)
  Lemma xml_item_faithful : forall i, xml_item_ok i = true ->
    snd (xml_relem G (xml_write1 G i)) = false /\
    faithful1 (xml_fmt G) i (fst (xml_relem G (xml_write1 G i))).
  Proof.
    unfold xml_item_ok.
    induction i as [tag kids IH|tag v|tag v|tag v|tag rtag v|tag b|tag s|tag s|tag v|tag v|tag rtag v] using item_ind';
      cbn [text_item_ok xml_write1]; intros Hi;
      (match type of Hi with (tag_ok _ && _) = true => apply andb_true_iff in Hi as [Htag Hv] | tag_ok _ = true => rename Hi into Htag end);
      try (rewrite xml_relem_leaf by (unfold T_INT, T_LONG, T_BIG, T_ENUM, T_BOOL, T_TEXT, T_BYTES, T_DATE, T_INTV; auto; lia));
      try (split; [reflexivity|cbn [fst]; constructor; cbn [xml_fmt p_int p_long p_big p_enum p_bool p_text p_bytes p_date p_intv p_mask]]).
    - (* structure *)
      destruct (xml_start_struct tag Htag) as [H1 H2]. cbv zeta in H1, H2.
      assert (Hk : Forall (fun k => snd (xml_relem G (xml_write1 G k)) = false /\
                                    faithful1 (xml_fmt G) k (fst (xml_relem G (xml_write1 G k)))) kids).
      { rewrite Forall_forall in *. intros k Hin. apply IH; [exact Hin|]. rewrite forallb_forall in Hv. apply Hv, Hin. }
      cbn [xml_relem]. rewrite H1, H2. change (T_STRUCT =? T_STRUCT) with true. cbv iota.
      rewrite cut_forest_map.
      + cbn [fst snd]. split; [reflexivity|]. rewrite map_map. constructor.
        apply (faithful_map (xml_fmt G) (fun k => fst (xml_relem G (xml_write1 G k)))).
        eapply Forall_impl; [|exact Hk]. intros k [_ Hf]. exact Hf.
      + rewrite Forall_map. eapply Forall_impl; [|exact Hk]. intros k [Hc _]. exact Hc.
    - rewrite go_parse_int_fmt_int by (unfold in_i32 in Hv; lia). cbn [bind]. rewrite to_i32_id by exact Hv. reflexivity.
    - apply go_parse_int_fmt_int; unfold in_i64 in Hv; lia.
    - destruct (big_bytes_roundtrip v 1) as [_ [Hb Hr]]. rewrite hex_decode_encode by exact Hb. cbn [bind]. exact Hr.
    - apply (enum_roundtrip G Hok). exact Hv.
    - destruct b; reflexivity.
    - rewrite xml_carry_id by exact Hv. reflexivity.
    - apply hex_decode_encode. exact Hv.
    - apply rfc3339_roundtrip. exact Hv.
    - apply go_parse_uint_fmt_int. unfold in_u32 in Hv. lia.
    - apply (xml_mask_roundtrip G Hok). exact Hv.
  Qed.

  (** C04, XML: for all representable call sequences the reader's view of the written document
      mirrors the calls (the law of Cursor.v), and nothing is flagged invalid *)
  Theorem xml_faithful items : forallb xml_item_ok items = true ->
    faithful (xml_fmt G) items (fst (xml_forest G (xml_write G items) false)) /\
    snd (xml_forest G (xml_write G items) false) = false.
  Proof.
    intros Hi. unfold xml_forest, xml_write.
    assert (Hk : Forall (fun k => snd (xml_relem G (xml_write1 G k)) = false /\
                                  faithful1 (xml_fmt G) k (fst (xml_relem G (xml_write1 G k)))) items).
    { rewrite Forall_forall. intros k Hin. apply xml_item_faithful. rewrite forallb_forall in Hi. apply Hi, Hin. }
    rewrite cut_forest_map.
    - cbn [fst snd]. split; [|reflexivity]. rewrite map_map.
      apply (faithful_map (xml_fmt G) (fun k => fst (xml_relem G (xml_write1 G k)))).
      eapply Forall_impl; [|exact Hk]. intros k [_ Hf]. exact Hf.
    - rewrite Forall_map. eapply Forall_impl; [|exact Hk]. intros k [Hc _]. exact Hc.
  Qed.

  Lemma xml_cursor_write i : xml_item_ok i = true ->
    exists e, xml_cursor G (xml_write G [i]) false = Ok ([e], false) /\ faithful1 (xml_fmt G) i e.
  Proof.
    intros Hi. destruct (xml_item_faithful i Hi) as [Hc Hf].
    exists (fst (xml_relem G (xml_write1 G i))). split; [|exact Hf].
    unfold xml_cursor, xml_write, xml_forest. cbn [map cut_forest]. rewrite Hc. reflexivity.
  Qed.

  (** typed re-reading of an XML document returns the calls that wrote it *)
  Theorem xml_reread_roundtrip i : xml_item_ok i = true -> xml_reread G i (xml_write G [i]) false = Ok i.
  Proof.
    intros Hi. destruct (xml_cursor_write i Hi) as [e [Hc Hf]]. unfold xml_reread. rewrite Hc. cbn [bind].
    rewrite (proj1 (read_faithful (xml_fmt G)) i e Hf []). reflexivity.
  Qed.

  (** a ttlv.Value written in XML and read back is the same value (hence the same binary) *)
  Theorem xml_value_roundtrip i : xml_item_ok i = true -> value_item i = true ->
    xml_unmarshal G (xml_write G [i]) false = Ok i.
  Proof.
    intros Hi Hv. destruct (xml_cursor_write i Hi) as [e [Hc Hf]]. unfold xml_unmarshal. rewrite Hc. cbn [bind].
    pose proof (faithful1_tag (xml_fmt G) i e Hf) as Ht. unfold c_tag. cbn [fst]. destruct e as [t y raw kids kb]. subst t.
    rewrite (proj1 (dec_faithful (xml_fmt G)) i _ Hf Hv); [reflexivity|]. cbn [forest_size fold_right]. lia.
  Qed.

  (** ---- JSON *)

  Lemma json_relem_obj m :
    json_relem G (JObj m) =
    let tag := resolve_tag G (jget_str s_tag m) in
    let ty := json_type m in
    let kids := jfind_map (fun x => match x with JArr l => (map (json_relem G) l, false) | _ => ([], true) end) s_value m in
    let raw := match jget s_value m with Some x => x | None => JNull end in
    if ty =? T_STRUCT then
      match kids with
      | Some kb => RE tag ty raw (fst kb) (snd kb)
      | None => RE tag ty raw [] true
      end
    else RE tag ty raw [] false.
  Proof. reflexivity. Qed.

  Lemma json_relem_leaf ty tag v : 2 <= ty <= 10 -> tag_ok tag = true ->
    json_relem G (json_elem G ty tag v) = RE tag ty v [] false.
  Proof.
    intros Hty Htag. destruct (type_roundtrip ty ltac:(lia)) as [Hrt Hne].
    unfold json_elem. replace (ty =? T_STRUCT) with false by (unfold T_STRUCT; lia). cbn [app].
    rewrite json_relem_obj. cbv zeta.
    assert (Ht : jget_str s_tag [(s_tag, JStr (tag_string G tag)); (s_type, JStr (type_name ty)); (s_value, v)] = tag_string G tag) by reflexivity.
    assert (Hy : json_type [(s_tag, JStr (tag_string G tag)); (s_type, JStr (type_name ty)); (s_value, v)] = ty).
    { unfold json_type. change (jget_str s_type _) with (type_name ty). destruct (type_name ty) eqn:E; [congruence|exact Hrt]. }
    assert (Hv : jget s_value [(s_tag, JStr (tag_string G tag)); (s_type, JStr (type_name ty)); (s_value, v)] = Some v) by reflexivity.
    rewrite Ht, Hy, Hv, (resolve_tag_string G Hok) by exact Htag.
    replace (ty =? T_STRUCT) with false by (unfold T_STRUCT; lia). reflexivity.
  Qed.

  Lemma json_relem_struct tag l : tag_ok tag = true ->
    json_relem G (json_elem G T_STRUCT tag (JArr l)) = RE tag T_STRUCT (JArr l) (map (json_relem G) l) false.
  Proof.
    intros Htag. unfold json_elem. change (T_STRUCT =? T_STRUCT) with true. cbn [app].
    rewrite json_relem_obj. cbv zeta.
    assert (Ht : jget_str s_tag [(s_tag, JStr (tag_string G tag)); (s_value, JArr l)] = tag_string G tag) by reflexivity.
    assert (Hy : json_type [(s_tag, JStr (tag_string G tag)); (s_value, JArr l)] = T_STRUCT) by reflexivity.
    assert (Hv : jget s_value [(s_tag, JStr (tag_string G tag)); (s_value, JArr l)] = Some (JArr l)) by reflexivity.
    rewrite Ht, Hy, jfind_map_id, Hv, (resolve_tag_string G Hok) by exact Htag. reflexivity.
  Qed.

  Lemma json_big_false v : json_big v = false -> - 2 ^ 63 <= v < 2 ^ 63.
  Proof. unfold json_big. lia. Qed.

  (** the JSON writer's output is read back call for call *)
  Lemma json_item_faithful : forall i, json_item_ok i = true ->
    faithful1 (json_fmt G) i (json_relem G (json_write1 G i)).
  Proof.
    unfold json_item_ok.
    induction i as [tag kids IH|tag v|tag v|tag v|tag rtag v|tag b|tag s|tag s|tag v|tag v|tag rtag v] using item_ind';
      cbn [text_item_ok json_write1]; intros Hi;
      (match type of Hi with (tag_ok _ && _) = true => apply andb_true_iff in Hi as [Htag Hv] | tag_ok _ = true => rename Hi into Htag end);
      try (rewrite json_relem_leaf by (unfold T_INT, T_LONG, T_BIG, T_ENUM, T_BOOL, T_TEXT, T_BYTES, T_DATE, T_INTV; auto; lia));
      try (constructor; cbn [json_fmt p_int p_long p_big p_enum p_bool p_text p_bytes p_date p_intv p_mask]).
    - rewrite json_relem_struct by exact Htag. constructor. rewrite map_map.
      apply (faithful_map (json_fmt G) (fun k => json_relem G (json_write1 G k))).
      rewrite Forall_forall in *. intros k Hin. apply IH; [exact Hin|]. rewrite forallb_forall in Hv. apply Hv, Hin.
    - unfold json_int64. rewrite parse_int_fmt_int by (unfold in_i32 in Hv; lia). cbn [bind]. unfold in_range.
      replace ((v <? - 2 ^ 31) || (2 ^ 31 - 1 <? v)) with false by (unfold in_i32 in Hv; lia). reflexivity.
    - (* long integer: number below 2^52 in magnitude, 0x%016x string from there on *)
      destruct (json_big v) eqn:Eb.
      + rewrite go_parse_int_hex by (unfold to_u64; apply Z.mod_pos_bound; lia). rewrite to_i64_to_u64 by exact Hv. reflexivity.
      + unfold json_int64. apply parse_int_fmt_int; [lia|]. unfold in_i64 in Hv. lia.
    - (* big integer: decimal number below 2^52 in magnitude, two's-complement hex string from there on *)
      destruct (json_big v) eqn:Eb.
      + rewrite has_prefix_0x_cons, go_from_0x. cbn [negb bind].
        destruct (big_bytes_roundtrip v 8) as [_ [Hb Hr]]. rewrite hex_decode_encode by exact Hb. cbn [bind]. exact Hr.
      + unfold json_int64. apply parse_int_fmt_int; [lia|]. unfold json_big in Eb. lia.
    - (* enumeration *)
      pose proof (enum_roundtrip G Hok (real_tag rtag tag) v Hv) as He. unfold enum_string in He.
      destruct (r_enum_name G (real_tag rtag tag) v) as [[|c n]|] eqn:E; try exact He.
      destruct (rk_enum G Hok _ _ _ E) as [Hid _].
      rewrite json_carry_id; [exact He|].
      assert (Hch : forallb (fun c => (33 <=? c) && (c <=? 126)) (c :: n) = true).
      { pose proof (ident_tok _ Hid) as Ht. apply tok_ok_inv in Ht as [_ Ht]. rewrite forallb_forall in *. intros x Hx. specialize (Ht x Hx). unfold tok_char in Ht. lia. }
      clear - Hch. unfold json_text_ok. generalize (c :: n) Hch. clear. intros s.
      assert (H : forall fuel s, forallb (fun c => (33 <=? c) && (c <=? 126)) s = true -> snd (text_scan (fun _ => true) fuel s) = true).
      { induction fuel as [|f IH]; intros [|c r] Hs; try reflexivity. cbn [forallb] in Hs. apply andb_true_iff in Hs as [Hc Hr].
        cbn [text_scan utf8_decode]. replace (c <? 128) with true by lia. cbn [drop Z.to_nat Pos.to_nat Pos.iter_op Nat.add skipn].
        replace ((c =? 65533) && (1 =? 1)) with false by lia. cbn [orb negb snd]. apply IH. exact Hr. }
      apply H.
    - reflexivity.
    - rewrite json_carry_id by exact Hv. reflexivity.
    - apply hex_decode_encode. exact Hv.
    - rewrite fmt_rfc3339_no_prefix by exact Hv. apply rfc3339_roundtrip. exact Hv.
    - unfold json_int64. rewrite parse_int_fmt_int by (unfold in_u32 in Hv; lia). cbn [bind]. unfold in_range.
      replace ((v <? 0) || (2 ^ 32 - 1 <? v)) with false by (unfold in_u32 in Hv; lia). reflexivity.
    - apply (json_mask_roundtrip G Hok). exact Hv.
  Qed.

  (** C04, JSON: for all representable call sequences the reader's view of the written values
      mirrors the calls (the JSON reader never flags anything invalid lazily) *)
  Theorem json_faithful items : forallb json_item_ok items = true ->
    faithful (json_fmt G) items (map (json_relem G) (map (json_write1 G) items)).
  Proof.
    intros Hi. rewrite map_map. apply (faithful_map (json_fmt G) (fun k => json_relem G (json_write1 G k))).
    rewrite Forall_forall. intros k Hin. apply json_item_faithful. rewrite forallb_forall in Hi. apply Hi, Hin.
  Qed.

  Theorem json_reread_roundtrip i : json_item_ok i = true -> json_reread G i (json_write1 G i) = Ok i.
  Proof.
    intros Hi. pose proof (json_item_faithful i Hi) as Hf. unfold json_reread, json_cursor. cbn [c_open bind].
    rewrite (proj1 (read_faithful (json_fmt G)) i _ Hf []). reflexivity.
  Qed.

  Theorem json_value_roundtrip i : json_item_ok i = true -> value_item i = true ->
    json_unmarshal G (json_write1 G i) = Ok i.
  Proof.
    intros Hi Hv. pose proof (json_item_faithful i Hi) as Hf. unfold json_unmarshal, json_cursor. cbn [c_open bind].
    pose proof (faithful1_tag (json_fmt G) i _ Hf) as Ht. unfold c_tag. cbn [fst].
    destruct (json_relem G (json_write1 G i)) as [t y raw kids kb]. subst t.
    rewrite (proj1 (dec_faithful (json_fmt G)) i _ Hf Hv); [reflexivity|]. cbn [forest_size fold_right]. lia.
  Qed.
End Faithfulness.

(** ------------------------------------------------------------ the checker over dumped tables is sound *)

Lemma assoc_z_in {A} k (l : list (Z * A)) v : assoc_z k l = Some v -> In (k, v) l.
Proof.
  induction l as [|[k' v'] l IH]; [discriminate|]. cbn [assoc_z]. destruct (k' =? k) eqn:E.
  - intros H; inversion H; subst. apply Z.eqb_eq in E. subst. left. reflexivity.
  - intros H. right. apply IH, H.
Qed.

Lemma nth_error_combine {A B} (a : list A) (b : list B) i x y :
  nth_error a i = Some x -> nth_error b i = Some y -> In (x, y) (combine a b).
Proof.
  revert b i. induction a as [|a0 a IH]; intros [|b0 b] [|i]; cbn [nth_error combine]; try discriminate.
  - intros H1 H2; inversion H1; inversion H2; subst. left. reflexivity.
  - intros H1 H2. right. eapply IH; eassumption.
Qed.

Lemma nth_error_bit_indices i : (i < 32)%nat -> nth_error bit_indices i = Some (Z.of_nat i).
Proof.
  intros Hi. change bit_indices with (map Z.of_nat (seq 0 32)).
  rewrite nth_error_map, (nth_error_nth' _ 0%nat) by (rewrite seq_length; exact Hi). rewrite seq_nth by exact Hi. reflexivity.
Qed.

Theorem tables_ok_sound T : tables_okb T = true -> registry_ok (reg_of_tables T).
Proof.
  unfold tables_okb. intros H. apply andb_true_iff in H as [H Hm]. apply andb_true_iff in H as [Ht He].
  rewrite forallb_forall in Ht, He, Hm. constructor; cbn [reg_of_tables r_tag_name r_tag_by_name r_enum_name r_enum_by_name r_mask_names r_mask_by_name].
  - intros t n Hn. apply assoc_z_in in Hn. specialize (Ht _ Hn). cbn [fst snd] in Ht.
    apply andb_true_iff in Ht as [Ht H3]. apply andb_true_iff in Ht as [H1 H2].
    split; [exact H1|]. split.
    + intros ->. rewrite seqb_refl in H2. discriminate.
    + destruct (assoc_s n (t_tags_rev T)) as [t'|]; [|discriminate]. apply Z.eqb_eq in H3. congruence.
  - intros t v n Hn. destruct (assoc_z t (t_enums T)) as [m|] eqn:Em; [|discriminate].
    apply assoc_z_in in Em. apply assoc_z_in in Hn. specialize (He _ Em). cbn [fst snd] in He.
    rewrite forallb_forall in He. specialize (He _ Hn). cbn [fst snd] in He. apply andb_true_iff in He as [H1 H2].
    split; [exact H1|]. destruct (assoc_z t (t_enums_rev T)) as [m'|]; [|discriminate].
    destruct (assoc_s n m') as [v'|]; [|discriminate]. apply Z.eqb_eq in H2. congruence.
  - intros t i n Hn. destruct (assoc_z t (t_masks T)) as [l|] eqn:El; [|destruct i; discriminate].
    apply assoc_z_in in El. specialize (Hm _ El). cbn [fst snd] in Hm. apply andb_true_iff in Hm as [Hl Hm].
    assert (Hi : (i < List.length l)%nat) by (apply nth_error_Some; congruence).
    assert (Hi32 : (i < 32)%nat) by (unfold len in Hl; lia).
    split; [exact Hi32|]. rewrite forallb_forall in Hm.
    specialize (Hm _ (nth_error_combine _ _ _ _ _ (nth_error_bit_indices i Hi32) Hn)). cbn [fst snd] in Hm.
    apply andb_true_iff in Hm as [H1 H2]. split; [exact H1|].
    destruct (assoc_z t (t_masks_rev T)) as [m'|]; [|discriminate].
    destruct (assoc_s n m') as [v'|]; [|discriminate]. apply Z.eqb_eq in H2. congruence.
Qed.

(** ------------------------------------------------------------ statements used by Props/C04.v *)

(** every typed operation of a reader whose scalar parsers return, returns on every cursor *)
Lemma typed_ops_return {R} (F : rawfmt R) : fmt_total F -> forall (c : cur R) tag rtag,
  returns (c_integer F tag c) /\ returns (c_long F tag c) /\ returns (c_big F tag c) /\
  returns (c_enum F rtag tag c) /\ returns (c_bool F tag c) /\ returns (c_text F tag c) /\
  returns (c_bytes F tag c) /\ returns (c_date F tag c) /\ returns (c_intv F tag c) /\
  returns (c_mask F rtag tag c) /\ returns (c_next c).
Proof.
  intros H c tag rtag. unfold c_integer, c_long, c_big, c_enum, c_bool, c_text, c_bytes, c_date, c_intv, c_mask.
  repeat split; try (apply c_scalar_returns; intros; apply H). apply c_next_returns.
Qed.

Lemma xml_ops_return G (c : cur XRaw) tag rtag :
  returns (c_integer (xml_fmt G) tag c) /\ returns (c_long (xml_fmt G) tag c) /\ returns (c_big (xml_fmt G) tag c) /\
  returns (c_enum (xml_fmt G) rtag tag c) /\ returns (c_bool (xml_fmt G) tag c) /\ returns (c_text (xml_fmt G) tag c) /\
  returns (c_bytes (xml_fmt G) tag c) /\ returns (c_date (xml_fmt G) tag c) /\ returns (c_intv (xml_fmt G) tag c) /\
  returns (c_mask (xml_fmt G) rtag tag c) /\ returns (c_next c).
Proof. apply typed_ops_return, xml_fmt_total. Qed.

Lemma json_ops_return G (c : cur JRaw) tag rtag :
  returns (c_integer (json_fmt G) tag c) /\ returns (c_long (json_fmt G) tag c) /\ returns (c_big (json_fmt G) tag c) /\
  returns (c_enum (json_fmt G) rtag tag c) /\ returns (c_bool (json_fmt G) tag c) /\ returns (c_text (json_fmt G) tag c) /\
  returns (c_bytes (json_fmt G) tag c) /\ returns (c_date (json_fmt G) tag c) /\ returns (c_intv (json_fmt G) tag c) /\
  returns (c_mask (json_fmt G) rtag tag c) /\ returns (c_next c).
Proof. apply typed_ops_return, json_fmt_total. Qed.

Lemma xml_dec_value_returns G fuel tag (c : cur XRaw) :
  (2 * forest_size (fst c) < fuel)%nat -> returns (dec_value (xml_fmt G) fuel tag c).
Proof. apply dec_value_returns, xml_fmt_total. Qed.
Lemma json_dec_value_returns G fuel tag (c : cur JRaw) :
  (2 * forest_size (fst c) < fuel)%nat -> returns (dec_value (json_fmt G) fuel tag c).
Proof. apply dec_value_returns, json_fmt_total. Qed.

(** Struct with any callback that returns, returns *)
Lemma xml_struct_returns G {A} tag (f : cur XRaw -> res (A * cur XRaw)) c :
  (forall sub, returns (f sub)) -> returns (c_struct (xml_fmt G) tag f c).
Proof. intros H. apply c_struct_returns. intros; apply H. Qed.
Lemma json_struct_returns G {A} tag (f : cur JRaw -> res (A * cur JRaw)) c :
  (forall sub, returns (f sub)) -> returns (c_struct (json_fmt G) tag f c).
Proof. intros H. apply c_struct_returns. intros; apply H. Qed.

(** scalar lexical round trips, for all numbers *)
Lemma json_long_roundtrip G v : in_i64 v = true ->
  p_long (json_fmt G) (if json_big v then JStr (s_0x ++ hex_pad 16 false (to_u64 v)) else JNum (fmt_int v)) = Ok v.
Proof.
  intros Hv. cbn [json_fmt p_long]. destruct (json_big v) eqn:Eb.
  - rewrite go_parse_int_hex by (unfold to_u64; apply Z.mod_pos_bound; lia). rewrite to_i64_to_u64 by exact Hv. reflexivity.
  - unfold json_int64. apply parse_int_fmt_int; [lia|]. unfold in_i64 in Hv. lia.
Qed.

Lemma json_bigint_roundtrip G v :
  p_big (json_fmt G) (if json_big v then JStr (s_0x ++ hex_encode false (big_bytes v 8)) else JNum (fmt_int v)) = Ok v.
Proof.
  cbn [json_fmt p_big]. destruct (json_big v) eqn:Eb.
  - rewrite has_prefix_0x_cons, go_from_0x. cbn [negb bind].
    destruct (big_bytes_roundtrip v 8) as [_ [Hb Hr]]. rewrite hex_decode_encode by exact Hb. cbn [bind]. exact Hr.
  - unfold json_int64. apply parse_int_fmt_int; [lia|]. unfold json_big in Eb. lia.
Qed.

Lemma xml_bigint_roundtrip G v : p_big (xml_fmt G) (hex_encode true (big_bytes v 1)) = Ok v.
Proof.
  cbn [xml_fmt p_big]. destruct (big_bytes_roundtrip v 1) as [_ [Hb Hr]]. rewrite hex_decode_encode by exact Hb. cbn [bind]. exact Hr.
Qed.
