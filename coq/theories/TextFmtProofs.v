(** Proofs about the XML and JSON models of TextFmt.v. *)
From Coq Require Import String Ascii ZArith List Bool Lia.
From KV Require Import Base BaseProofs Wire Cursor TextLex TextLexProofs TextFmt.
Import ListNotations.
Open Scope Z_scope.
