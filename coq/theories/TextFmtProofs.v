(** Proofs about the XML and JSON models of TextFmt.v: generic facts about the reader cursor
    (typed operations and the ttlv.Value decoder return; a faithful forest is read back), then
    the two instances. *)
From Coq Require Import String Ascii ZArith List Bool Lia.
From KV Require Import Base BaseProofs Wire Cursor TextLex TextLexProofs TextFmt.
Import ListNotations.
Open Scope Z_scope.

(** induction over items with the hypothesis available for all children *)
Lemma item_ind' (P : item -> Prop) :
  (forall tag kids, Forall P kids -> P (IStruct tag kids)) ->
  (forall tag v, P (IInt tag v)) -> (forall tag v, P (ILong tag v)) -> (forall tag v, P (IBig tag v)) ->
  (forall tag rtag v, P (IEnum tag rtag v)) -> (forall tag b, P (IBool tag b)) ->
  (forall tag s, P (IText tag s)) -> (forall tag s, P (IBytes tag s)) ->
  (forall tag v, P (IDate tag v)) -> (forall tag v, P (IIntv tag v)) ->
  (forall tag rtag v, P (IMask tag rtag v)) ->
  forall i, P i.
Proof.
  intros Hs Hi Hl Hb He Hbo Ht Hby Hd Hiv Hm.
  fix IH 1. intros [tag kids|tag v|tag v|tag v|tag rtag v|tag b|tag s|tag s|tag v|tag v|tag rtag v];
    [|apply Hi|apply Hl|apply Hb|apply He|apply Hbo|apply Ht|apply Hby|apply Hd|apply Hiv|apply Hm].
  apply Hs. induction kids as [|k ks IHk]; constructor; [apply IH|exact IHk].
Qed.

Section GenericCursor.
  Context {R : Type}.
  Variable F : rawfmt R.

  (** every scalar parser of the format returns (a value or an error) *)
  Record fmt_total : Prop := {
    ft_int : forall raw, returns (p_int F raw);
    ft_long : forall raw, returns (p_long F raw);
    ft_big : forall raw, returns (p_big F raw);
    ft_enum : forall rtag tag raw, returns (p_enum F rtag tag raw);
    ft_bool : forall raw, returns (p_bool F raw);
    ft_text : forall raw, returns (p_text F raw);
    ft_bytes : forall raw, returns (p_bytes F raw);
    ft_date : forall raw, returns (p_date F raw);
    ft_intv : forall raw, returns (p_intv F raw);
    ft_mask : forall rtag tag raw, returns (p_mask F rtag tag raw);
  }.

  Lemma c_open_returns (l : list (relem R)) b : returns (c_open l b).
  Proof. unfold c_open. destruct l; [destruct b|]; exact I. Qed.

  Lemma c_open_fst (l : list (relem R)) b c : c_open l b = Ok c -> fst c = l.
  Proof. unfold c_open. destruct l; [destruct b|]; intros H; inversion H; reflexivity. Qed.

  Lemma c_next_returns (c : cur R) : returns (c_next c).
  Proof. unfold c_next. destruct (fst c); [exact I|apply c_open_returns]. Qed.

  Lemma c_next_fst (c c' : cur R) : c_next c = Ok c' -> fst c' = tl (fst c).
  Proof. unfold c_next. destruct (fst c) as [|e r]; [discriminate|]. apply c_open_fst. Qed.

  Lemma c_expect_returns ty tag (c : cur R) : returns (c_expect ty tag c).
  Proof.
    unfold c_expect. destruct (fst c) as [|[t y raw kids kb] r]; [exact I|].
    destruct (negb (t =? tag)); [exact I|]. destruct (negb (y =? ty)); exact I.
  Qed.

  Lemma c_scalar_returns {A} ty (parse : R -> res A) tag (c : cur R) :
    (forall raw, returns (parse raw)) -> returns (c_scalar ty parse tag c).
  Proof.
    intros Hp. unfold c_scalar. apply returns_bind; [apply c_expect_returns|].
    intros [t y raw kids kb] _. apply returns_bind; [apply Hp|]. intros v _.
    apply returns_bind; [apply c_next_returns|]. intros; exact I.
  Qed.

  Lemma c_scalar_fst {A} ty (parse : R -> res A) tag (c : cur R) v c' :
    c_scalar ty parse tag c = Ok (v, c') -> fst c' = tl (fst c).
  Proof.
    unfold c_scalar. destruct (c_expect ty tag c) as [[t y raw kids kb]| | |]; cbn [bind]; try discriminate.
    destruct (parse raw); cbn [bind]; try discriminate.
    destruct (c_next c) eqn:E; cbn [bind]; try discriminate.
    intros H; inversion H; subst. eapply c_next_fst; eassumption.
  Qed.

  Lemma c_struct_returns {A} tag (f : cur R -> res (A * cur R)) (c : cur R) :
    (forall t y raw kids kb r sub, fst c = RE t y raw kids kb :: r -> fst sub = kids -> returns (f sub)) ->
    returns (c_struct F tag f c).
  Proof.
    intros Hf. unfold c_struct. unfold c_expect.
    destruct (fst c) as [|[t y raw kids kb] r] eqn:Ec; [exact I|].
    destruct (negb (t =? tag)); [exact I|]. destruct (negb (y =? T_STRUCT)); [exact I|]. cbn [bind].
    apply returns_bind; [apply c_open_returns|]. intros sub Hsub.
    apply returns_bind; [eapply Hf; [reflexivity|eapply c_open_fst; eassumption]|]. intros r0 _.
    destruct (strict_close F && snd (snd r0)); [exact I|].
    apply returns_bind; [|intros; exact I].
    unfold c_next. rewrite Ec. apply c_open_returns.
  Qed.

  Lemma c_struct_fst {A} tag (f : cur R -> res (A * cur R)) (c : cur R) v c' :
    c_struct F tag f c = Ok (v, c') -> fst c' = tl (fst c).
  Proof.
    unfold c_struct. destruct (c_expect T_STRUCT tag c) as [[t y raw kids kb]| | |]; cbn [bind]; try discriminate.
    destruct (c_open kids kb); cbn [bind]; try discriminate.
    destruct (f a); cbn [bind]; try discriminate.
    destruct (strict_close F && snd (snd a0)); try discriminate.
    destruct (c_next c) eqn:E; cbn [bind]; try discriminate.
    intros H; inversion H; subst. eapply c_next_fst; eassumption.
  Qed.

  Lemma forest_size_cons (e : relem R) l : forest_size (e :: l) = (relem_size e + forest_size l)%nat.
  Proof. reflexivity. Qed.
  Lemma relem_size_RE t y (raw : R) kids kb : relem_size (RE t y raw kids kb) = S (forest_size kids).
  Proof. reflexivity. Qed.
  Lemma forest_size_tl (l : list (relem R)) : (forest_size (tl l) <= forest_size l)%nat.
  Proof. destruct l; [cbn; lia|]. rewrite forest_size_cons. cbn [tl]. lia. Qed.

  Lemma dec_value_S f tag (c : cur R) :
    dec_value F (S f) tag c =
      let ty := c_type c in
      if ty =? T_INT then do r <- c_integer F tag c ;; Ok (IInt tag (fst r), snd r)
      else if ty =? T_LONG then do r <- c_long F tag c ;; Ok (ILong tag (fst r), snd r)
      else if ty =? T_BIG then do r <- c_big F tag c ;; Ok (IBig tag (fst r), snd r)
      else if ty =? T_BOOL then do r <- c_bool F tag c ;; Ok (IBool tag (fst r), snd r)
      else if ty =? T_BYTES then do r <- c_bytes F tag c ;; Ok (IBytes tag (fst r), snd r)
      else if ty =? T_DATE then do r <- c_date F tag c ;; Ok (IDate tag (fst r), snd r)
      else if ty =? T_ENUM then do r <- c_enum F 0 tag c ;; Ok (IEnum tag 0 (fst r), snd r)
      else if ty =? T_INTV then do r <- c_intv F tag c ;; Ok (IIntv tag (fst r), snd r)
      else if ty =? T_TEXT then do r <- c_text F tag c ;; Ok (IText tag (fst r), snd r)
      else if ty =? T_STRUCT then
        do r <- c_struct F tag (dec_fields F f) c ;; Ok (IStruct tag (fst r), snd r)
      else Err.
  Proof. reflexivity. Qed.

  Lemma dec_fields_S f (c : cur R) :
    dec_fields F (S f) c =
      if c_tag c =? 0 then Ok ([], c) else
      do r <- dec_value F f (c_tag c) c ;;
      do rs <- dec_fields F f (snd r) ;;
      Ok (fst r :: fst rs, snd rs).
  Proof. reflexivity. Qed.

  Lemma dec_value_int f tag (c : cur R) : c_type c = T_INT ->
    dec_value F (S f) tag c = do r <- c_integer F tag c ;; Ok (IInt tag (fst r), snd r).
  Proof. intros H. rewrite dec_value_S. cbv zeta. rewrite H. reflexivity. Qed.
  Lemma dec_value_long f tag (c : cur R) : c_type c = T_LONG ->
    dec_value F (S f) tag c = do r <- c_long F tag c ;; Ok (ILong tag (fst r), snd r).
  Proof. intros H. rewrite dec_value_S. cbv zeta. rewrite H. reflexivity. Qed.
  Lemma dec_value_big f tag (c : cur R) : c_type c = T_BIG ->
    dec_value F (S f) tag c = do r <- c_big F tag c ;; Ok (IBig tag (fst r), snd r).
  Proof. intros H. rewrite dec_value_S. cbv zeta. rewrite H. reflexivity. Qed.
  Lemma dec_value_bool f tag (c : cur R) : c_type c = T_BOOL ->
    dec_value F (S f) tag c = do r <- c_bool F tag c ;; Ok (IBool tag (fst r), snd r).
  Proof. intros H. rewrite dec_value_S. cbv zeta. rewrite H. reflexivity. Qed.
  Lemma dec_value_bytes f tag (c : cur R) : c_type c = T_BYTES ->
    dec_value F (S f) tag c = do r <- c_bytes F tag c ;; Ok (IBytes tag (fst r), snd r).
  Proof. intros H. rewrite dec_value_S. cbv zeta. rewrite H. reflexivity. Qed.
  Lemma dec_value_date f tag (c : cur R) : c_type c = T_DATE ->
    dec_value F (S f) tag c = do r <- c_date F tag c ;; Ok (IDate tag (fst r), snd r).
  Proof. intros H. rewrite dec_value_S. cbv zeta. rewrite H. reflexivity. Qed.
  Lemma dec_value_enum f tag (c : cur R) : c_type c = T_ENUM ->
    dec_value F (S f) tag c = do r <- c_enum F 0 tag c ;; Ok (IEnum tag 0 (fst r), snd r).
  Proof. intros H. rewrite dec_value_S. cbv zeta. rewrite H. reflexivity. Qed.
  Lemma dec_value_intv f tag (c : cur R) : c_type c = T_INTV ->
    dec_value F (S f) tag c = do r <- c_intv F tag c ;; Ok (IIntv tag (fst r), snd r).
  Proof. intros H. rewrite dec_value_S. cbv zeta. rewrite H. reflexivity. Qed.
  Lemma dec_value_text f tag (c : cur R) : c_type c = T_TEXT ->
    dec_value F (S f) tag c = do r <- c_text F tag c ;; Ok (IText tag (fst r), snd r).
  Proof. intros H. rewrite dec_value_S. cbv zeta. rewrite H. reflexivity. Qed.
  Lemma dec_value_struct f tag (c : cur R) : c_type c = T_STRUCT ->
    dec_value F (S f) tag c = do r <- c_struct F tag (dec_fields F f) c ;; Ok (IStruct tag (fst r), snd r).
  Proof. intros H. rewrite dec_value_S. cbv zeta. rewrite H. reflexivity. Qed.

  Ltac scalar_branch H :=
    match type of H with
    | bind ?x _ = Ok _ => destruct x as [[? ?]| | |] eqn:?; cbn [bind] in H; try discriminate;
                          inversion H; subst; cbn [snd]; eapply c_scalar_fst; eassumption
    end.

  Lemma dec_value_fst fuel tag (c : cur R) i c' :
    dec_value F fuel tag c = Ok (i, c') -> fst c' = tl (fst c).
  Proof.
    destruct fuel as [|f]; [discriminate|]. rewrite dec_value_S. cbv zeta.
    repeat match goal with |- (if ?b then _ else _) = _ -> _ => destruct b end; intros H;
      try (unfold c_integer, c_long, c_big, c_bool, c_bytes, c_date, c_enum, c_intv, c_text in H; scalar_branch H); try discriminate.
    destruct (c_struct F tag (dec_fields F f) c) as [[? ?]| | |] eqn:E; cbn [bind] in H; try discriminate.
    inversion H; subst; cbn [snd]. eapply c_struct_fst; eassumption.
  Qed.

  Hypothesis Htot : fmt_total.

  (** the generic ttlv.Value decoder returns on every raw forest, with fuel linear in its size *)
  Lemma dec_returns fuel :
    (forall tag (c : cur R), (2 * forest_size (fst c) < fuel)%nat -> returns (dec_value F fuel tag c)) /\
    (forall (c : cur R), (2 * forest_size (fst c) + 1 < fuel)%nat -> returns (dec_fields F fuel c)).
  Proof.
    induction fuel as [|f [IHv IHf]]; [split; intros; lia|]. split.
    - intros tag c Hc. rewrite dec_value_S. cbv zeta.
      repeat match goal with |- returns (if ?b then _ else _) => destruct b end;
        try (apply returns_bind; [|intros; exact I]);
        try (unfold c_integer, c_long, c_big, c_bool, c_bytes, c_date, c_enum, c_intv, c_text; apply c_scalar_returns; intros; apply Htot);
        try exact I.
      apply c_struct_returns. intros t y raw kids kb r sub Ec Hsub. apply IHf. rewrite Hsub.
      rewrite Ec, forest_size_cons, relem_size_RE in Hc. lia.
    - intros c Hc. rewrite dec_fields_S. destruct (c_tag c =? 0) eqn:Etag; [exact I|].
      apply returns_bind; [apply IHv; lia|]. intros [i c'] Hi.
      apply returns_bind; [|intros; exact I]. cbn [snd]. apply IHf.
      rewrite (dec_value_fst _ _ _ _ _ Hi).
      unfold c_tag in Etag.
      destruct (fst c) as [|e r]; [discriminate|]. cbn [tl]. rewrite forest_size_cons in Hc.
      destruct e as [t y raw kids kb]. rewrite relem_size_RE in Hc. lia.
  Qed.

  Lemma dec_value_returns fuel tag (c : cur R) :
    (2 * forest_size (fst c) < fuel)%nat -> returns (dec_value F fuel tag c).
  Proof. apply dec_returns. Qed.

  (** typed re-reading along any script returns on every raw forest *)
  Lemma read_as_returns : forall script (c : cur R), returns (read_as F script c).
  Proof.
    induction script as [tag kids IH| | | | | | | | | |] using item_ind'; intros c; cbn [read_as];
      try (apply returns_bind; [|intros; exact I];
           unfold c_integer, c_long, c_big, c_bool, c_bytes, c_date, c_enum, c_intv, c_text, c_mask; apply c_scalar_returns; intros; apply Htot).
    apply returns_bind; [|intros; exact I]. apply c_struct_returns. intros t y raw kids' kb rr sub _ _. clear c.
    revert sub. induction IH as [|k ks Hk _ IHks]; intros sub; [exact I|].
    apply returns_bind; [apply Hk|]. intros r _. apply returns_bind; [apply IHks|]. intros; exact I.
  Qed.
End GenericCursor.

(** ------------------------------------------------------------ a faithful forest is read back *)

Scheme faithful1_mind := Minimality for faithful1 Sort Prop
  with faithful_mind := Minimality for faithful Sort Prop.
Combined Scheme faithful_mutind from faithful1_mind, faithful_mind.

Section Faithful.
  Context {R : Type}.
  Variable F : rawfmt R.

  Lemma c_next_cons (e : relem R) rest : c_next (e :: rest, false) = Ok (rest, false).
  Proof. unfold c_next, c_open. cbn [fst snd]. destruct rest; reflexivity. Qed.

  Lemma c_scalar_hit {A} ty (parse : R -> res A) tag raw kids kb rest v :
    parse raw = Ok v ->
    c_scalar ty parse tag (RE tag ty raw kids kb :: rest, false) = Ok (v, (rest, false)).
  Proof.
    intros Hp. unfold c_scalar, c_expect. cbn [fst]. rewrite !Z.eqb_refl. cbn [negb bind].
    rewrite Hp. cbn [bind]. rewrite c_next_cons. reflexivity.
  Qed.

  Lemma c_struct_hit {A} tag raw kids rest (f : cur R -> res (A * cur R)) v :
    f (kids, false) = Ok (v, ([], false)) ->
    c_struct F tag f (RE tag T_STRUCT raw kids false :: rest, false) = Ok (v, (rest, false)).
  Proof.
    intros Hf. unfold c_struct, c_expect. cbn [fst]. rewrite !Z.eqb_refl. cbn [negb bind].
    assert (Ho : c_open kids false = Ok (kids, false)) by (destruct kids; reflexivity).
    rewrite Ho. cbn [bind]. rewrite Hf. cbn [bind fst snd]. rewrite andb_false_r, c_next_cons. reflexivity.
  Qed.

  (** typed reading of what was written returns exactly the items written *)
  Lemma read_faithful :
    (forall i e, faithful1 F i e -> forall rest, read_as F i (e :: rest, false) = Ok (i, (rest, false))) /\
    (forall il el, faithful F il el -> read_list F il (el, false) = Ok (il, ([], false))).
  Proof.
    apply faithful_mutind.
    - intros tag kids raw es _ IH rest. cbn [read_as].
      rewrite (c_struct_hit tag raw es rest _ kids); [reflexivity|]. exact IH.
    - intros; cbn [read_as]; unfold c_integer; erewrite c_scalar_hit by eassumption; reflexivity.
    - intros; cbn [read_as]; unfold c_long; erewrite c_scalar_hit by eassumption; reflexivity.
    - intros; cbn [read_as]; unfold c_big; erewrite c_scalar_hit by eassumption; reflexivity.
    - intros; cbn [read_as]; unfold c_enum; erewrite c_scalar_hit by eassumption; reflexivity.
    - intros; cbn [read_as]; unfold c_bool; erewrite c_scalar_hit by eassumption; reflexivity.
    - intros; cbn [read_as]; unfold c_text; erewrite c_scalar_hit by eassumption; reflexivity.
    - intros; cbn [read_as]; unfold c_bytes; erewrite c_scalar_hit by eassumption; reflexivity.
    - intros; cbn [read_as]; unfold c_date; erewrite c_scalar_hit by eassumption; reflexivity.
    - intros; cbn [read_as]; unfold c_intv; erewrite c_scalar_hit by eassumption; reflexivity.
    - intros; cbn [read_as]; unfold c_mask; erewrite c_scalar_hit by eassumption; reflexivity.
    - reflexivity.
    - intros i e il el _ IH1 _ IH2. cbn [read_list]. rewrite IH1. cbn [bind snd]. rewrite IH2. reflexivity.
  Qed.

  Lemma faithful_sizes :
    (forall i e, faithful1 F i e -> relem_size e = item_size i) /\
    (forall il el, faithful F il el -> forest_size el = fold_right (fun k n => item_size k + n)%nat O il).
  Proof.
    apply faithful_mutind; intros; try reflexivity.
    - cbn [relem_size item_size]. f_equal. assumption.
    - cbn [fold_right]. rewrite forest_size_cons. congruence.
  Qed.

  Lemma faithful1_tag i e : faithful1 F i e -> match e with RE t _ _ _ _ => t = itag i end.
  Proof. destruct 1; reflexivity. Qed.

  (** the generic ttlv.Value decoder returns exactly the value tree that was written *)
  Lemma dec_faithful :
    (forall i e, faithful1 F i e -> value_item i = true ->
       forall fuel rest, (2 * relem_size e < fuel)%nat ->
       dec_value F fuel (itag i) (e :: rest, false) = Ok (i, (rest, false))) /\
    (forall il el, faithful F il el -> forallb (fun k => negb (itag k =? 0) && value_item k) il = true ->
       forall fuel, (2 * forest_size el + 1 < fuel)%nat ->
       dec_fields F fuel (el, false) = Ok (il, ([], false))).
  Proof.
    apply faithful_mutind.
    - intros tag kids raw es _ IH Hv fuel rest Hf. cbn [value_item] in Hv. rewrite relem_size_RE in Hf.
      destruct fuel as [|f]; [lia|]. cbn [itag]. rewrite dec_value_struct by reflexivity.
      rewrite (c_struct_hit tag raw es rest _ kids); [reflexivity|]. apply IH; [exact Hv|lia].
    - intros tag v raw kb Hp _ fuel rest Hf. destruct fuel as [|f]; [lia|]. cbn [itag]. rewrite dec_value_int by reflexivity.
      unfold c_integer. erewrite c_scalar_hit by eassumption. reflexivity.
    - intros tag v raw kb Hp _ fuel rest Hf. destruct fuel as [|f]; [lia|]. cbn [itag]. rewrite dec_value_long by reflexivity.
      unfold c_long. erewrite c_scalar_hit by eassumption. reflexivity.
    - intros tag v raw kb Hp _ fuel rest Hf. destruct fuel as [|f]; [lia|]. cbn [itag]. rewrite dec_value_big by reflexivity.
      unfold c_big. erewrite c_scalar_hit by eassumption. reflexivity.
    - intros tag rtag v raw kb Hp Hv fuel rest Hf. cbn [value_item] in Hv. apply Z.eqb_eq in Hv. subst rtag.
      destruct fuel as [|f]; [lia|]. cbn [itag]. rewrite dec_value_enum by reflexivity.
      unfold c_enum. erewrite c_scalar_hit by eassumption. reflexivity.
    - intros tag v raw kb Hp _ fuel rest Hf. destruct fuel as [|f]; [lia|]. cbn [itag]. rewrite dec_value_bool by reflexivity.
      unfold c_bool. erewrite c_scalar_hit by eassumption. reflexivity.
    - intros tag v raw kb Hp _ fuel rest Hf. destruct fuel as [|f]; [lia|]. cbn [itag]. rewrite dec_value_text by reflexivity.
      unfold c_text. erewrite c_scalar_hit by eassumption. reflexivity.
    - intros tag v raw kb Hp _ fuel rest Hf. destruct fuel as [|f]; [lia|]. cbn [itag]. rewrite dec_value_bytes by reflexivity.
      unfold c_bytes. erewrite c_scalar_hit by eassumption. reflexivity.
    - intros tag v raw kb Hp _ fuel rest Hf. destruct fuel as [|f]; [lia|]. cbn [itag]. rewrite dec_value_date by reflexivity.
      unfold c_date. erewrite c_scalar_hit by eassumption. reflexivity.
    - intros tag v raw kb Hp _ fuel rest Hf. destruct fuel as [|f]; [lia|]. cbn [itag]. rewrite dec_value_intv by reflexivity.
      unfold c_intv. erewrite c_scalar_hit by eassumption. reflexivity.
    - intros tag rtag v raw kb Hp Hv. discriminate.
    - intros _ fuel Hf. destruct fuel as [|f]; [lia|]. reflexivity.
    - intros i e il el Hfa IH1 _ IH2 Hv fuel Hf. cbn [forallb] in Hv.
      apply andb_true_iff in Hv as [Hv1 Hv2]. apply andb_true_iff in Hv1 as [Ht Hv1].
      rewrite forest_size_cons in Hf. destruct fuel as [|f]; [lia|].
      pose proof (faithful1_tag i e Hfa) as Htag. destruct e as [t y raw kids kb]. subst t.
      rewrite dec_fields_S. unfold c_tag. cbn [fst]. rewrite (negb_true_iff _) in Ht. rewrite Ht.
      rewrite IH1 by (auto; lia). cbn [bind snd fst]. rewrite relem_size_RE in Hf.
      rewrite IH2 by (auto; lia). reflexivity.
  Qed.
End Faithful.
