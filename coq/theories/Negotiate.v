(** Model of protocol-version negotiation.
    Transcribes kmipclient/client.go [negotiateVersion] (+ the version stamping of
    [BatchOpt]/[CloneCtx]) and kmipserver/router.go [SetSupportedProtocolVersions] /
    [handleDiscover].  No proofs in this file (NegotiateProofs.v). *)
From Coq Require Import ZArith List Bool.
Import ListNotations.
Open Scope Z_scope.

(** A protocol version is (major, minor); [ttlv.CompareVersions] is lexicographic. *)
Definition ver := (Z * Z)%type.

Definition ver_cmp (a b : ver) : comparison :=
  match fst a ?= fst b with
  | Eq => snd a ?= snd b
  | c => c
  end.
Definition ver_eqb (a b : ver) : bool := (fst a =? fst b) && (snd a =? snd b).
Definition ver_ltb (a b : ver) : bool := match ver_cmp a b with Lt => true | _ => false end.
Definition ver_leb (a b : ver) : bool := match ver_cmp a b with Gt => false | _ => true end.
Definition vmem (v : ver) (l : list ver) : bool := existsb (ver_eqb v) l.

(** What [negotiateVersion] sees after the discovery round trip. *)
Inductive reply :=
| RTransportErr                    (* Roundtrip returned an error *)
| RBadCount                        (* header batch count <> 1 or item count <> 1 *)
| RNotSupported                    (* OperationFailed / OperationNotSupported *)
| RFailed                          (* any other failure status *)
| RNoPayload                       (* success, no payload *)
| RForeignPayload                  (* success, payload of another type *)
| RVersions (l : list ver).        (* success, DiscoverVersions response payload *)

Inductive outcome := Adopt (v : ver) | Fail.

(** The loop of the (repaired) client: highest version of the configured set that the
    server also lists; independent of the order of either list. *)
Definition pick (acc : option ver) (server : list ver) (v : ver) : option ver :=
  if vmem v server then
    match acc with
    | None => Some v
    | Some b => if ver_ltb b v then Some v else Some b
    end
  else acc.

Definition best (client server : list ver) : option ver :=
  fold_left (fun acc v => pick acc server v) client None.

Definition v1_0 : ver := (1, 0).

Definition negotiate (enforced : option ver) (client : list ver) (r : reply) : outcome :=
  match enforced with
  | Some e => Adopt e                       (* version already set: no exchange at all *)
  | None =>
    match r with
    | RTransportErr => Fail
    | RBadCount => Fail
    | RNotSupported => if vmem v1_0 client then Adopt v1_0 else Fail
    | RFailed => Fail
    | RNoPayload => Fail
    | RForeignPayload => Fail
    | RVersions l => match best client l with Some v => Adopt v | None => Fail end
    end
  end.

(** Client state after Dial and the header version of every later request
    ([BatchOpt]: [kmip.NewRequestMessage( *c.version, ...)]; [CloneCtx] copies it). *)
Record client := { c_version : ver; c_supported : list ver }.
Definition request_version (c : client) (npayloads : nat) : ver := c_version c.
Definition clone (c : client) : client := {| c_version := c_version c; c_supported := c_supported c |}.

(** Server side. [SetSupportedProtocolVersions]: sort descending + compact adjacent
    duplicates; insertion sort is observationally the same as slices.SortFunc on keys
    without ties (equal versions are indistinguishable). *)
Fixpoint insert_desc (v : ver) (l : list ver) : list ver :=
  match l with
  | [] => [v]
  | x :: xs => if ver_ltb v x then x :: insert_desc v xs else v :: l
  end.
Definition sort_desc (l : list ver) : list ver := fold_right insert_desc [] l.
Fixpoint compact (l : list ver) : list ver :=
  match l with
  | [] => []
  | x :: xs =>
    match xs with
    | [] => [x]
    | y :: _ => if ver_eqb x y then compact xs else x :: compact xs
    end
  end.
Definition default_versions : list ver := [(1,4); (1,3); (1,2); (1,1); (1,0)].
Definition set_supported (l : list ver) : list ver :=
  match l with
  | [] => default_versions
  | _ => compact (sort_desc l)
  end.

(** [handleDiscover]: an empty offer gets the whole list, otherwise the server's
    versions that the client offered, in the server's order. *)
Definition handle_discover (server offered : list ver) : list ver :=
  match offered with
  | [] => server
  | _ => filter (fun v => vmem v offered) server
  end.
