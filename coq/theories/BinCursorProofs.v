(** The binary cursor (what ttlvReader sees in a byte string): size bound, totality of the
    generic-tree decoder on every byte string. *)
From Coq Require Import ZArith List Bool Lia.
From KV Require Import Base BaseProofs Wire WireProofs Cursor CursorProofs ReaderProofs.
Import ListNotations.
Open Scope Z_scope.

Lemma bin_fmt_total : fmt_total bin_fmt.
Proof. constructor; intros; exact I. Qed.

Lemma bin_head_ok_facts bs : bin_head_ok bs = true ->
  8 <= len bs /\ unbe (take 4 (drop 4 bs)) + pad8 (unbe (take 4 (drop 4 bs))) <= len bs - 8.
Proof.
  unfold bin_head_ok. destruct (Z.ltb_spec (len bs) 8); [discriminate|].
  destruct (Z.ltb_spec (len bs - 8) (unbe (take 4 (drop 4 bs)) + pad8 (unbe (take 4 (drop 4 bs))))); [discriminate|].
  intros _. lia.
Qed.

Lemma length_take_le {A} n (l : list A) : (length (take n l) <= length l)%nat.
Proof. unfold take. rewrite firstn_length. lia. Qed.
Lemma length_take_le_n {A} n (l : list A) : 0 <= n -> (Z.of_nat (length (take n l)) <= n).
Proof. intros H. unfold take. rewrite firstn_length. lia. Qed.
Lemma length_drop {A} n (l : list A) : length (drop n l) = (length l - Z.to_nat n)%nat.
Proof. unfold drop. apply skipn_length. Qed.

(** every raw element stands for at least 8 bytes of input *)
Lemma bin_forest_size fuel : forall bs, bytes_ok bs = true ->
  (8 * forest_size (fst (bin_forest fuel bs)) <= length bs)%nat.
Proof.
  induction fuel as [|f IH]; intros bs Hb; cbn [bin_forest]; [cbn; lia|].
  destruct bs as [|b0 bs'] eqn:E; [cbn; lia|]. rewrite <- E in *.
  destruct (bin_head_ok bs) eqn:Hh; cbn [negb]; [|cbn; lia].
  apply bin_head_ok_facts in Hh. destruct Hh as [H8 Hpl].
  set (l := unbe (take 4 (drop 4 bs))) in *.
  assert (Hl0 : 0 <= l) by (apply unbe_nonneg, bytes_ok_take, bytes_ok_drop, Hb).
  pose proof (pad8_range l) as Hp.
  cbn [fst]. rewrite forest_size_cons, relem_size_kids.
  set (v := take l (drop 8 bs)).
  assert (Hv : (Z.of_nat (length v) <= l)) by (apply length_take_le_n, Hl0).
  assert (Hkids : (8 * forest_size (fst (if (nth 3 bs 0%Z =? T_STRUCT)%Z then bin_forest f v else ([], false))) <= length v)%nat).
  { destruct (_ =? _); [apply IH; apply bytes_ok_take, bytes_ok_drop, Hb | cbn; lia]. }
  pose proof (IH (drop (8 + l + pad8 l) bs) (bytes_ok_drop _ _ Hb)) as Hrest.
  rewrite length_drop in Hrest. unfold len in *. lia.
Qed.

(** C02: ttlv.UnmarshalTTLV into the generic tree returns a value or an error for EVERY
    byte string: no panic, and the fuel given in the model always suffices (termination). *)
Theorem unmarshal_value_total bs : bytes_ok bs = true ->
  match unmarshal_value bs with Ok _ | Err => True | Panic | OutOfFuel => False end.
Proof.
  intros Hb. unfold unmarshal_value, bin_cursor.
  pose proof (bin_forest_size (S (length bs)) bs Hb) as Hsz.
  pose proof (c_open_safe (fst (bin_forest (S (length bs)) bs)) (snd (bin_forest (S (length bs)) bs))) as Ho.
  destruct (c_open _ _) as [c| | |]; cbn [safe_res bind] in *; try contradiction; [|exact I].
  destruct (dec_value_total bin_fmt bin_fmt_total (S (S (length bs)))) as [Hv _].
  specialize (Hv (c_tag c) c ltac:(lia)).
  assert (H2 : (2 * csize c <= S (S (length bs)))%nat) by (rewrite Ho; lia).
  specialize (Hv H2). destruct (dec_value _ _ _ _); cbn [safe_res bind] in *; auto.
Qed.

(** ** The binary cursor law: what ttlvReader sees in the encoder's output mirrors the writer
    calls one for one ([faithful], Cursor.v) and nothing is marked invalid. *)
Lemma bin_forest_step f tag ty l value after :
  0 <= tag < 2 ^ 24 -> 1 <= ty <= 10 -> len value = l -> l < 2 ^ 32 ->
  bin_width_ok ty l = true ->
  bytes_ok value = true ->
  bin_forest (Datatypes.S f) (hdr tag ty l ++ value ++ zeros (pad8 l) ++ after) =
    let kids := if ty =? T_STRUCT then bin_forest f value else ([], false) in
    let rest := bin_forest f after in
    (RE tag ty value (fst kids) (snd kids) :: fst rest, snd rest).
Proof.
  intros Htag Hty Hlen Hl Hw Hbv.
  assert (Hl0 : 0 <= l) by (subst l; apply len_nonneg).
  pose proof (pad8_range l) as Hp.
  set (bs := hdr tag ty l ++ value ++ zeros (pad8 l) ++ after).
  assert (Hlenbs : len bs = 8 + l + pad8 l + len after).
  { unfold bs. rewrite !len_app, len_hdr. rewrite len_zeros by lia. lia. }
  assert (Htake4 : take 4 (drop 4 bs) = be 4 l).
  { unfold bs, hdr. rewrite <- !app_assoc.
    replace 4 with (len (be 3 tag ++ [ty mod 256])) at 2 by (rewrite len_app, len_be, len_cons, len_nil; reflexivity).
    rewrite app_assoc. rewrite drop_app_exact.
    replace 4 with (len (be 4 l)) at 1 by (rewrite len_be; reflexivity). apply take_app_exact. }
  assert (Hlval : unbe (take 4 (drop 4 bs)) = l).
  { rewrite Htake4. apply unbe_be_id. change (256 ^ Z.of_nat 4) with (2 ^ 32). lia. }
  assert (Hty3 : nth 3 bs 0 = ty).
  { unfold bs, hdr. rewrite be3_shape. cbn [app nth]. apply Z.mod_small. lia. }
  assert (Htag3 : unbe (take 3 bs) = tag).
  { unfold bs, hdr. rewrite <- app_assoc.
    replace 3 with (len (be 3 tag)) by (rewrite len_be; reflexivity). rewrite take_app_exact.
    apply unbe_be_id. change (256 ^ Z.of_nat 3) with (2 ^ 24). lia. }
  assert (Hval : take l (drop 8 bs) = value).
  { unfold bs. replace 8 with (len (hdr tag ty l)) by apply len_hdr. rewrite drop_app_exact.
    rewrite <- Hlen. apply take_app_exact. }
  assert (Hrest : drop (8 + l + pad8 l) bs = after).
  { unfold bs. rewrite !app_assoc.
    replace (8 + l + pad8 l) with (len ((hdr tag ty l ++ value) ++ zeros (pad8 l)))
      by (rewrite !len_app, len_hdr; rewrite len_zeros by lia; lia).
    apply drop_app_exact. }
  assert (Hhead : bin_head_ok bs = true).
  { unfold bin_head_ok. rewrite Hlval, Hty3, Hlenbs.
    destruct (Z.ltb_spec (8 + l + pad8 l + len after) 8); [pose proof (len_nonneg after); lia|].
    destruct (Z.ltb_spec (8 + l + pad8 l + len after - 8) (l + pad8 l)); [pose proof (len_nonneg after); lia|].
    destruct (Z.ltb_spec 10 ty); [lia|]. destruct (Z.eqb_spec ty 0); [lia|]. cbn [orb]. exact Hw. }
  cbn [bin_forest]. fold bs.
  destruct bs as [|b0 bs'] eqn:Ebs.
  { exfalso. change (len (@nil Z)) with 0 in Hlenbs. pose proof (len_nonneg after). lia. }
  rewrite <- Ebs in *. rewrite Hhead. cbn [negb]. rewrite Htag3, Hty3, Hlval, Hval, Hrest. reflexivity.
Qed.

Lemma to_i32_be4 v : in_i32 v = true -> to_i32 (unbe (be 4 v)) = v.
Proof.
  intros H. apply in_i32_range in H. rewrite unbe_be. change (256 ^ Z.of_nat 4) with (2 ^ 32).
  unfold to_i32. rewrite Z.mod_mod by lia. change (2 ^ 32) with 4294967296 in *. change (2 ^ 31) with 2147483648 in *.
  destruct (Z_lt_dec v 0).
  - replace (v mod 4294967296) with (v + 4294967296) by (apply (Z.mod_unique v 4294967296 (-1)); lia).
    destruct (Z.ltb_spec (v + 4294967296) 2147483648); lia.
  - rewrite Z.mod_small by lia. destruct (Z.ltb_spec v 2147483648); lia.
Qed.

Lemma to_i64_be8 v : in_i64 v = true -> to_i64 (unbe (be 8 v)) = v.
Proof.
  intros H. apply in_i64_range in H. rewrite unbe_be. change (256 ^ Z.of_nat 8) with (2 ^ 64).
  unfold to_i64. rewrite Z.mod_mod by lia. change (2 ^ 64) with 18446744073709551616 in *. change (2 ^ 63) with 9223372036854775808 in *.
  destruct (Z_lt_dec v 0).
  - replace (v mod 18446744073709551616) with (v + 18446744073709551616) by (apply (Z.mod_unique v 18446744073709551616 (-1)); lia).
    destruct (Z.ltb_spec (v + 18446744073709551616) 9223372036854775808); lia.
  - rewrite Z.mod_small by lia. destruct (Z.ltb_spec v 9223372036854775808); lia.
Qed.

Lemma u32_be4 v : in_u32 v = true -> unbe (be 4 v) = v.
Proof. intros H. apply in_u32_range in H. apply unbe_be_id. change (256 ^ Z.of_nat 4) with (2 ^ 32). exact H. Qed.

(** bytesToBigInt is the two's complement reading (the independent [sp_signed]) on non-empty byte strings *)
Lemma bytes_to_big_signed b : bytes_ok b = true -> b <> [] -> bytes_to_big b = sp_signed b.
Proof.
  intros Hb Hne. destruct b as [|b0 r]; [contradiction|]. unfold bytes_to_big, sp_signed. rewrite sp_num0.
  cbn [bytes_ok forallb] in Hb. apply andb_true_iff in Hb. destruct Hb as [H0 Hr]. fold (bytes_ok r) in Hr.
  unfold byte_ok in H0. apply andb_true_iff in H0. destruct H0 as [Hlo Hhi]. apply Z.leb_le in Hlo. apply Z.ltb_lt in Hhi.
  pose proof (unbe_bound r Hr) as Hbd. rewrite unbe_cons, len_cons.
  assert (Hp : 0 < 256 ^ len r) by (apply Z.pow_pos_nonneg; [lia | apply len_nonneg]).
  replace (256 ^ (1 + len r)) with (256 * 256 ^ len r) by (rewrite Z.pow_add_r by (pose proof (len_nonneg r); lia); reflexivity).
  replace (256 * 256 ^ len r / 2) with (128 * 256 ^ len r).
  2:{ replace (256 * 256 ^ len r) with ((128 * 256 ^ len r) * 2) by lia. rewrite Z.div_mul by lia. reflexivity. }
  destruct (Z.ltb_spec b0 128); destruct (Z.ltb_spec (b0 * 256 ^ len r + unbe r) (128 * 256 ^ len r)); try reflexivity; nia.
Qed.

Lemma enc_big_nonempty v : enc_big v <> [].
Proof. destruct (enc_big_decodes v) as (_ & Hpos & _). intros E. rewrite E in Hpos. cbn in Hpos. lia. Qed.

Definition bin_step_ok (i : item) : Prop :=
  item_ok i = true -> item_small i = true ->
  forall f after, bytes_ok after = true -> (length (wire_enc i ++ after) <= f)%nat ->
  exists e, bin_forest (Datatypes.S f) (wire_enc i ++ after) = (e :: fst (bin_forest f after), snd (bin_forest f after))
            /\ faithful1 bin_fmt i e.

Lemma bin_forest_ok kids :
  Forall bin_step_ok kids -> forallb item_ok kids = true -> forallb item_small kids = true ->
  forall f, (length (flat_map wire_enc kids) < f)%nat ->
  exists es, bin_forest f (flat_map wire_enc kids) = (es, false) /\ faithful bin_fmt kids es.
Proof.
  induction 1 as [|k ks Hk _ IH]; intros Hok Hsm f Hf.
  - destruct f as [|f]; [lia|]. exists []. split; [reflexivity | constructor].
  - cbn [forallb] in Hok, Hsm. apply andb_true_iff in Hok, Hsm. destruct Hok as [Hok1 Hok2], Hsm as [Hsm1 Hsm2].
    destruct f as [|f]; [lia|]. cbn [flat_map] in *.
    assert (Hb : bytes_ok (flat_map wire_enc ks) = true).
    { apply bytes_ok_flat_map. rewrite Forall_forall. intros x Hx. apply bytes_ok_wire_enc.
      rewrite forallb_forall in Hok2. apply Hok2, Hx. }
    destruct (Hk Hok1 Hsm1 f _ Hb ltac:(lia)) as (e & He & Hfe).
    destruct (IH Hok2 Hsm2 f) as (es & Hes & Hfes).
    { rewrite app_length in Hf. pose proof (wire_enc_length_pos k). lia. }
    rewrite He, Hes. cbn [fst snd]. exists (e :: es). split; [reflexivity | constructor; assumption].
Qed.

Lemma bin_step_all i : bin_step_ok i.
Proof.
  induction i as [tag kids IH|tag v|tag v|tag v|tag r v|tag b|tag s|tag s|tag v|tag v|tag r v] using item_ind';
    intros Hok Hsm f after Hba Hf; cbn [item_ok] in Hok; cbn [wire_enc]; cbv zeta.
  - (* struct *)
    apply tag_range in Hok. destruct Hok as [Htag Hk]. cbn [item_small] in Hsm.
    apply andb_true_iff in Hsm. destruct Hsm as [Hsk Hlen]. apply Z.ltb_lt in Hlen. cbn [wire_enc] in Hf.
    set (body := flat_map wire_enc kids) in *.
    assert (E : pad8 (len body) = 0).
    { apply pad8_of_mult. apply flat_map_len8. rewrite Forall_forall. intros x _. apply wire_enc_len8. }
    replace ((hdr tag T_STRUCT (len body) ++ body) ++ after)
      with (hdr tag T_STRUCT (len body) ++ body ++ zeros (pad8 (len body)) ++ after)
      by (rewrite E, <- !app_assoc; reflexivity).
    assert (Hbb : bytes_ok body = true).
    { apply bytes_ok_flat_map. rewrite Forall_forall. intros x Hx. apply bytes_ok_wire_enc.
      rewrite forallb_forall in Hk. apply Hk, Hx. }
    rewrite bin_forest_step; try assumption; try reflexivity; [|unfold T_STRUCT; lia].
    change (T_STRUCT =? T_STRUCT) with true. cbv iota zeta.
    destruct (bin_forest_ok kids IH Hk Hsk f) as (es & Hes & Hfes).
    { fold body. rewrite !app_length in Hf. unfold hdr in Hf. rewrite !app_length, !be_length in Hf. cbn [length] in Hf. lia. }
    fold body in Hes. rewrite Hes. cbn [fst snd]. eexists. split; [reflexivity|]. constructor. exact Hfes.
  - (* Integer *)
    apply tag_range in Hok. destruct Hok as [Htag Hv]. change [0; 0; 0; 0] with (zeros (pad8 4)). rewrite <- !app_assoc.
    rewrite bin_forest_step; try assumption; try reflexivity; try (unfold T_INT; lia); [|apply be_bytes_ok].
    change (T_INT =? T_STRUCT) with false. cbv iota zeta. cbn [fst snd]. eexists. split; [reflexivity|].
    constructor. cbn [p_int bin_fmt]. rewrite to_i32_be4 by exact Hv. reflexivity.
  - (* Long *)
    apply tag_range in Hok. destruct Hok as [Htag Hv].
    rewrite <- (app_nil_r (be 8 v)). change (@nil Z) with (zeros (pad8 8)) at 1. rewrite <- !app_assoc.
    rewrite bin_forest_step; try assumption; try reflexivity; try (unfold T_LONG; lia); [|apply be_bytes_ok].
    change (T_LONG =? T_STRUCT) with false. cbv iota zeta. cbn [fst snd]. eexists. split; [reflexivity|].
    constructor. cbn [p_long bin_fmt]. rewrite to_i64_be8 by exact Hv. reflexivity.
  - (* Big *)
    apply tag_range' in Hok. cbn [item_small] in Hsm. apply Z.ltb_lt in Hsm.
    destruct (enc_big_decodes v) as (Hdec & Hpos & Hm8).
    replace ((hdr tag T_BIG (len (enc_big v)) ++ enc_big v) ++ after)
      with (hdr tag T_BIG (len (enc_big v)) ++ enc_big v ++ zeros (pad8 (len (enc_big v))) ++ after)
      by (rewrite pad8_of_mult by exact Hm8; rewrite <- app_assoc; reflexivity).
    rewrite bin_forest_step; try assumption; try reflexivity; try (unfold T_BIG; lia); [| |apply bytes_ok_enc_big].
    2:{ unfold bin_width_ok, T_BIG, T_INT, T_ENUM, T_INTV, T_LONG, T_BOOL, T_DATE. cbn [Z.eqb orb]. 
        destruct (Z.eqb_spec (len (enc_big v)) 0); [lia | reflexivity]. }
    change (T_BIG =? T_STRUCT) with false. cbv iota zeta. cbn [fst snd]. eexists. split; [reflexivity|].
    constructor. cbn [p_big bin_fmt]. rewrite bytes_to_big_signed by (try apply bytes_ok_enc_big; apply enc_big_nonempty).
    rewrite Hdec. reflexivity.
  - (* Enum *)
    apply tag_range in Hok. destruct Hok as [Htag Hv]. change [0; 0; 0; 0] with (zeros (pad8 4)). rewrite <- !app_assoc.
    rewrite bin_forest_step; try assumption; try reflexivity; try (unfold T_ENUM; lia); [|apply be_bytes_ok].
    change (T_ENUM =? T_STRUCT) with false. cbv iota zeta. cbn [fst snd]. eexists. split; [reflexivity|].
    constructor. cbn [p_enum bin_fmt]. rewrite u32_be4 by exact Hv. reflexivity.
  - (* Bool *)
    apply tag_range' in Hok.
    rewrite <- (app_nil_r [0; 0; 0; 0; 0; 0; 0; if b then 1 else 0]). change (@nil Z) with (zeros (pad8 8)) at 1. rewrite <- !app_assoc.
    rewrite bin_forest_step; try assumption; try reflexivity; try (unfold T_BOOL; lia); [|destruct b; reflexivity].
    change (T_BOOL =? T_STRUCT) with false. cbv iota zeta. cbn [fst snd]. eexists. split; [reflexivity|].
    constructor. destruct b; reflexivity.
  - (* Text *)
    apply tag_range in Hok. destruct Hok as [Htag Hs]. cbn [item_small] in Hsm. apply Z.ltb_lt in Hsm. rewrite <- !app_assoc.
    rewrite bin_forest_step; try assumption; try reflexivity; try (unfold T_TEXT; lia).
    change (T_TEXT =? T_STRUCT) with false. cbv iota zeta. cbn [fst snd]. eexists. split; [reflexivity|]. constructor. reflexivity.
  - (* Bytes *)
    apply tag_range in Hok. destruct Hok as [Htag Hs]. cbn [item_small] in Hsm. apply Z.ltb_lt in Hsm. rewrite <- !app_assoc.
    rewrite bin_forest_step; try assumption; try reflexivity; try (unfold T_BYTES; lia).
    change (T_BYTES =? T_STRUCT) with false. cbv iota zeta. cbn [fst snd]. eexists. split; [reflexivity|]. constructor. reflexivity.
  - (* Date *)
    apply tag_range in Hok. destruct Hok as [Htag Hv].
    rewrite <- (app_nil_r (be 8 v)). change (@nil Z) with (zeros (pad8 8)) at 1. rewrite <- !app_assoc.
    rewrite bin_forest_step; try assumption; try reflexivity; try (unfold T_DATE; lia); [|apply be_bytes_ok].
    change (T_DATE =? T_STRUCT) with false. cbv iota zeta. cbn [fst snd]. eexists. split; [reflexivity|].
    constructor. cbn [p_date bin_fmt]. rewrite to_i64_be8 by exact Hv. reflexivity.
  - (* Interval *)
    apply tag_range in Hok. destruct Hok as [Htag Hv]. change [0; 0; 0; 0] with (zeros (pad8 4)). rewrite <- !app_assoc.
    rewrite bin_forest_step; try assumption; try reflexivity; try (unfold T_INTV; lia); [|apply be_bytes_ok].
    change (T_INTV =? T_STRUCT) with false. cbv iota zeta. cbn [fst snd]. eexists. split; [reflexivity|].
    constructor. cbn [p_intv bin_fmt]. rewrite u32_be4 by exact Hv. reflexivity.
  - (* Mask *)
    apply tag_range in Hok. destruct Hok as [Htag Hv]. change [0; 0; 0; 0] with (zeros (pad8 4)). rewrite <- !app_assoc.
    rewrite bin_forest_step; try assumption; try reflexivity; try (unfold T_INT; lia); [|apply be_bytes_ok].
    change (T_INT =? T_STRUCT) with false. cbv iota zeta. cbn [fst snd]. eexists. split; [reflexivity|].
    constructor. cbn [p_mask bin_fmt]. rewrite to_i32_be4 by exact Hv. reflexivity.
Qed.

(** The cursor law for binary TTLV: for every list of writer calls (any sizes and depths), the
    reader's view of the encoder's bytes is faithful to the calls and no item is invalid. *)
Theorem bin_faithful l : forallb item_ok l = true -> forallb item_small l = true ->
  exists forest, bin_cursor (wire_enc_list l) = Ok (forest, false) /\ faithful bin_fmt l forest.
Proof.
  intros Hok Hsm. unfold bin_cursor.
  destruct (bin_forest_ok l) with (f := Datatypes.S (length (wire_enc_list l))) as (es & Hes & Hf); try assumption.
  - rewrite Forall_forall. intros x _. apply bin_step_all.
  - unfold wire_enc_list. lia.
  - unfold wire_enc_list in *. rewrite Hes. cbn [fst snd]. exists es. split; [|exact Hf]. destruct es; reflexivity.
Qed.
