(** The binary cursor (what ttlvReader sees in a byte string): size bound, totality of the
    generic-tree decoder on every byte string. *)
From Coq Require Import ZArith List Bool Lia.
From KV Require Import Base BaseProofs Wire Cursor CursorProofs ReaderProofs.
Import ListNotations.
Open Scope Z_scope.

Lemma bin_fmt_total : fmt_total bin_fmt.
Proof. constructor; intros; exact I. Qed.

Lemma bin_head_ok_facts bs : bin_head_ok bs = true ->
  8 <= len bs /\ unbe (take 4 (drop 4 bs)) + pad8 (unbe (take 4 (drop 4 bs))) <= len bs - 8.
Proof.
  unfold bin_head_ok. destruct (Z.ltb_spec (len bs) 8); [discriminate|].
  destruct (Z.ltb_spec (len bs - 8) (unbe (take 4 (drop 4 bs)) + pad8 (unbe (take 4 (drop 4 bs))))); [discriminate|].
  intros _. lia.
Qed.

Lemma length_take_le {A} n (l : list A) : (length (take n l) <= length l)%nat.
Proof. unfold take. rewrite firstn_length. lia. Qed.
Lemma length_take_le_n {A} n (l : list A) : 0 <= n -> (Z.of_nat (length (take n l)) <= n).
Proof. intros H. unfold take. rewrite firstn_length. lia. Qed.
Lemma length_drop {A} n (l : list A) : length (drop n l) = (length l - Z.to_nat n)%nat.
Proof. unfold drop. apply skipn_length. Qed.

(** every raw element stands for at least 8 bytes of input *)
Lemma bin_forest_size fuel : forall bs, bytes_ok bs = true ->
  (8 * forest_size (fst (bin_forest fuel bs)) <= length bs)%nat.
Proof.
  induction fuel as [|f IH]; intros bs Hb; cbn [bin_forest]; [cbn; lia|].
  destruct bs as [|b0 bs'] eqn:E; [cbn; lia|]. rewrite <- E in *.
  destruct (bin_head_ok bs) eqn:Hh; cbn [negb]; [|cbn; lia].
  apply bin_head_ok_facts in Hh. destruct Hh as [H8 Hpl].
  set (l := unbe (take 4 (drop 4 bs))) in *.
  assert (Hl0 : 0 <= l) by (apply unbe_nonneg, bytes_ok_take, bytes_ok_drop, Hb).
  pose proof (pad8_range l) as Hp.
  cbn [fst]. rewrite forest_size_cons, relem_size_kids.
  set (v := take l (drop 8 bs)).
  assert (Hv : (Z.of_nat (length v) <= l)) by (apply length_take_le_n, Hl0).
  assert (Hkids : (8 * forest_size (fst (if (nth 3 bs 0%Z =? T_STRUCT)%Z then bin_forest f v else ([], false))) <= length v)%nat).
  { destruct (_ =? _); [apply IH; apply bytes_ok_take, bytes_ok_drop, Hb | cbn; lia]. }
  pose proof (IH (drop (8 + l + pad8 l) bs) (bytes_ok_drop _ _ Hb)) as Hrest.
  rewrite length_drop in Hrest. unfold len in *. lia.
Qed.

(** C02: ttlv.UnmarshalTTLV into the generic tree returns a value or an error for EVERY
    byte string: no panic, and the fuel given in the model always suffices (termination). *)
Theorem unmarshal_value_total bs : bytes_ok bs = true ->
  match unmarshal_value bs with Ok _ | Err => True | Panic | OutOfFuel => False end.
Proof.
  intros Hb. unfold unmarshal_value, bin_cursor.
  pose proof (bin_forest_size (S (length bs)) bs Hb) as Hsz.
  pose proof (c_open_safe (fst (bin_forest (S (length bs)) bs)) (snd (bin_forest (S (length bs)) bs))) as Ho.
  destruct (c_open _ _) as [c| | |]; cbn [safe_res bind] in *; try contradiction; [|exact I].
  destruct (dec_value_total bin_fmt bin_fmt_total (S (S (length bs)))) as [Hv _].
  specialize (Hv (c_tag c) c ltac:(lia)).
  assert (H2 : (2 * csize c <= S (S (length bs)))%nat) by (rewrite Ho; lia).
  specialize (Hv H2). destruct (dec_value _ _ _ _); cbn [safe_res bind] in *; auto.
Qed.
