(** The struct-level codec instantiated at the schema REGENERATED from /repo
    (KVGen.KmipSchema): marshal / unmarshal of whole KMIP messages in binary TTLV, and the
    row checkers of the message-level correspondence (C01, C05, C06, C18). *)
From Coq Require Import ZArith List Bool String.
From KV Require Import Base Wire Cursor Schema SchemaSem Cases CodecRows.
From KVGen Require Import KmipSchema.
Import ListNotations.
Open Scope Z_scope.

Definition FUEL : nat := Z.to_nat 3000.

Definition kmip_items (root : string) (v : value) : res (list item) :=
  match find_tdef kmip_schema root with
  | Some d => do r <- enc_ty kmip_schema FUEL None (TNamed root) (t_deftag d) v ;; Ok (fst r)
  | None => Panic
  end.

(** ttlv.MarshalTTLV(&msg) *)
Definition kmip_marshal (root : string) (v : value) : res (list Z) :=
  do items <- kmip_items root v ;;
  if existsb enc_panics items then Panic else Ok (wire_enc_list items).

Definition kmip_dec {R} (F : rawfmt R) (root : string) (c : cur R) : res value :=
  match find_tdef kmip_schema root with
  | Some d =>
    do r <- dec_ty kmip_schema kmip_ops kmip_attrs kmip_objs F FUEL None (TNamed root) (t_deftag d) c ;;
    Ok (fst (fst r))
  | None => Panic
  end.

(** ttlv.UnmarshalTTLV(bytes, &msg) *)
Definition kmip_unmarshal (root : string) (bs : list Z) : res value :=
  do c <- bin_cursor bs ;; kmip_dec bin_fmt root c.

(** C01 row: message [v] of type [root] was encoded as [bytes]; decoding [bytes] gave [o] *)
Definition row_msg (r : string * value * list Z * obs value) : bool :=
  let '(root, v, bytes, o) := r in
  res_obs_eqb zlist_eqb (kmip_marshal root v) (OOk bytes) &&
  res_obs_eqb value_eqb (kmip_unmarshal root bytes) o.

(** decode-only row (mutated / foreign inputs): outcome and re-encoding *)
Definition row_msg_dec (r : string * list Z * obs (list Z)) : bool :=
  let '(root, bytes, o) := r in
  res_obs_eqb zlist_eqb (do v <- kmip_unmarshal root bytes ;; kmip_marshal root v) o.

(** same as [row_msg] when the decoded message prints exactly as the original *)
Definition row_msg_same (r : string * value * list Z) : bool :=
  let '(root, v, bytes) := r in row_msg (root, v, bytes, OOk v).

(** the hypotheses of the round-trip theorem hold of generated messages: conformance of the
    header structure (first field of a message) under the reflective fragment *)
From KV Require Import Roundtrip.
Definition row_conf_header (r : string * value * list Z) : bool :=
  let '(root, v, _) := r in
  match find_tdef kmip_schema root, v with
  | Some d, VStruct _ (hdr :: _) =>
    match t_fields d with
    | fd :: _ =>
      match conf_ty kmip_schema kmip_ops kmip_attrs kmip_objs FUEL None (f_ty fd) (f_tag fd) hdr with
      | Some _ => true
      | None =>
        (* a request header carrying an Authentication holds a Credential (hand-written
           decoder): outside the fragment the theorem covers so far *)
        match hdr with VStruct "kmip.RequestHeader" fs => match nth 7 fs VNil with VNil => false | _ => true end | _ => false end
      end
    | [] => false
    end
  | _, _ => false
  end.

(** conformance of the whole message: the hypothesis of the message-level round trip *)
Definition row_conf (r : string * value * list Z) : bool :=
  let '(root, v, _) := r in
  match find_tdef kmip_schema root with
  | Some d =>
    match conf_ty kmip_schema kmip_ops kmip_attrs kmip_objs FUEL None (TNamed root) (t_deftag d) v with
    | Some _ => true
    | None => false
    end
  | None => false
  end.
