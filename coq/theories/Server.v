(** Model of kmipserver.Server (server.go): the accept loop [Serve], [Shutdown] with its 3 s
    timer, the wait group, the two server contexts, composed with any number of connections,
    each a copy of the connection model of ConnServer.v ([handleConn] is part of that model:
    TLS handshake, newConn, connect hook, the request loop, the deferred terminate hook,
    stream.Close and wg.Done).

    The connections share only the wait group, the two contexts and the handler; a step of
    connection [i] changes nothing else.  Definitions only; proofs are in ServerProofs.v. *)
From Coq Require Import List Bool PArith ZArith Arith.
From KV Require Import Lts ConnServer.
Import ListNotations.

(** [guard_add]: Serve registers an accepted connection in the wait group under the same mutex
    under which Shutdown marks the server as shutting down (fix); without it (pinned tree) the
    wg.Add(1) of a connection accepted just before Shutdown can come after wg.Wait returned. *)
Record scfg := { guard_add : bool; conn_cfg : cfg }.
Definition scfg_repo := {| guard_add := true; conn_cfg := cfg_repo |}.
Definition scfg_pinned := {| guard_add := false; conn_cfg := cfg_pinned |}.
Definition scfg_unguarded := {| guard_add := false; conn_cfg := cfg_repo |}.

Inductive spc :=
| S_Accept              (* conn, err := srv.listener.Accept() *)
| S_Add (tls : bool)    (* accepted: [lock; if shutting down {close; return}] srv.wg.Add(1) *)
| S_Go (tls : bool)     (* go srv.handleConn(conn) *)
| S_RetShutdown         (* returned ErrShutdown *)
| S_RetErr.             (* returned another Accept error *)

Inductive sdpc :=
| SD_Idle               (* Shutdown not called *)
| SD_Mark               (* lock; srv.shuttingDown = true; unlock (fix) *)
| SD_Close              (* srv.listener.Close() *)
| SD_RecvCancel         (* srv.recvCancel() *)
| SD_Timer              (* tm := time.AfterFunc(3s, srv.cancel) *)
| SD_Wait               (* srv.wg.Wait() *)
| SD_Stop               (* tm.Stop() *)
| SD_Cancel             (* srv.cancel() *)
| SD_Returned.

Inductive tmst := TNone | TArmed | TFired | TStopped.

Record sstate := {
  sv : spc; sd : sdpc; tm : tmst;
  wg : nat;
  lis : bool;             (* listener closed *)
  shut : bool;            (* srv.shuttingDown *)
  g_rctx : bool;          (* srv.recvCtx cancelled *)
  g_root : bool;          (* srv.ctx cancelled *)
  conns : list cstate;
  s_panic : bool          (* sync: negative WaitGroup counter *)
}.

Definition sinit : sstate :=
  {| sv := S_Accept; sd := SD_Idle; tm := TNone; wg := 0; lis := false; shut := false;
     g_rctx := false; g_root := false; conns := []; s_panic := false |}.

Inductive slabel :=
| SL_Tau
| SL_Accept (tls : bool) | SL_AcceptErr | SL_Spawn | SL_Dropped
| SL_ServeRet (shutdown : bool)
| SL_SdCall | SL_SdRet | SL_Timer
| SL_Conn (i : nat) (l : label).

Definition with_sv v s := {| sv := v; sd := sd s; tm := tm s; wg := wg s; lis := lis s; shut := shut s; g_rctx := g_rctx s; g_root := g_root s; conns := conns s; s_panic := s_panic s |}.
Definition with_sd v s := {| sv := sv s; sd := v; tm := tm s; wg := wg s; lis := lis s; shut := shut s; g_rctx := g_rctx s; g_root := g_root s; conns := conns s; s_panic := s_panic s |}.
Definition with_tm v s := {| sv := sv s; sd := sd s; tm := v; wg := wg s; lis := lis s; shut := shut s; g_rctx := g_rctx s; g_root := g_root s; conns := conns s; s_panic := s_panic s |}.
Definition with_wg v s := {| sv := sv s; sd := sd s; tm := tm s; wg := v; lis := lis s; shut := shut s; g_rctx := g_rctx s; g_root := g_root s; conns := conns s; s_panic := s_panic s |}.
Definition with_lis v s := {| sv := sv s; sd := sd s; tm := tm s; wg := wg s; lis := v; shut := shut s; g_rctx := g_rctx s; g_root := g_root s; conns := conns s; s_panic := s_panic s |}.
Definition with_shut v s := {| sv := sv s; sd := sd s; tm := tm s; wg := wg s; lis := lis s; shut := v; g_rctx := g_rctx s; g_root := g_root s; conns := conns s; s_panic := s_panic s |}.
Definition with_conns v s := {| sv := sv s; sd := sd s; tm := tm s; wg := wg s; lis := lis s; shut := shut s; g_rctx := g_rctx s; g_root := g_root s; conns := v; s_panic := s_panic s |}.
Definition with_spanic v s := {| sv := sv s; sd := sd s; tm := tm s; wg := wg s; lis := lis s; shut := shut s; g_rctx := g_rctx s; g_root := g_root s; conns := conns s; s_panic := v |}.
(** srv.recvCancel(): every connection sees it *)
Definition cancel_recv s := {| sv := sv s; sd := sd s; tm := tm s; wg := wg s; lis := lis s; shut := shut s; g_rctx := true; g_root := g_root s; conns := map (set_rctx true) (conns s); s_panic := s_panic s |}.
(** srv.cancel(): the root context, parent of every connection context *)
Definition cancel_root s := {| sv := sv s; sd := sd s; tm := tm s; wg := wg s; lis := lis s; shut := shut s; g_rctx := g_rctx s; g_root := true; conns := map (set_root true) (conns s); s_panic := s_panic s |}.

(** a connection created now: its contexts derive from the server's *)
Definition cnew (tls : bool) (s : sstate) : cstate := set_root (g_root s) (set_rctx (g_rctx s) (cinit tls)).

Fixpoint upd_nth {A} (i : nat) (x : A) (l : list A) : list A :=
  match l, i with
  | [], _ => []
  | _ :: t, O => x :: t
  | a :: t, S k => a :: upd_nth k x t
  end.

Section SStep.
  Variable C : scfg.

  (** Serve *)
  Definition serve_steps (s : sstate) : list (slabel * sstate) :=
    match sv s with
    | S_Accept =>
      if lis s then [(SL_ServeRet true, with_sv S_RetShutdown s)]
      else [(SL_Accept true, with_sv (S_Add true) s); (SL_Accept false, with_sv (S_Add false) s);
            (SL_AcceptErr, with_sv S_RetErr s)]
    | S_Add tls =>
      if guard_add C && shut s then [(SL_Dropped, with_sv S_RetShutdown s)]
      else [(SL_Tau, with_sv (S_Go tls) (with_wg (S (wg s)) s))]
    | S_Go tls => [(SL_Spawn, with_sv S_Accept (with_conns (conns s ++ [cnew tls s]) s))]
    | S_RetShutdown | S_RetErr => []
    end.

  (** Shutdown *)
  Definition shutdown_steps (s : sstate) : list (slabel * sstate) :=
    match sd s with
    | SD_Idle => [(SL_SdCall, with_sd (if guard_add C then SD_Mark else SD_Close) s)]
    | SD_Mark => [(SL_Tau, with_sd SD_Close (with_shut true s))]
    | SD_Close => [(SL_Tau, with_sd SD_RecvCancel (with_lis true s))]
    | SD_RecvCancel => [(SL_Tau, with_sd SD_Timer (cancel_recv s))]
    | SD_Timer => [(SL_Tau, with_sd SD_Wait (with_tm TArmed s))]
    | SD_Wait => match wg s with O => [(SL_Tau, with_sd SD_Stop s)] | _ => [] end
    | SD_Stop => [(SL_Tau, with_sd SD_Cancel (match tm s with TArmed => with_tm TStopped s | _ => s end))]
    | SD_Cancel => [(SL_SdRet, with_sd SD_Returned (cancel_root s))]
    | SD_Returned => []
    end.

  (** the 3 s timer *)
  Definition timer_steps (s : sstate) : list (slabel * sstate) :=
    match tm s with TArmed => [(SL_Timer, with_tm TFired (cancel_root s))] | _ => [] end.

  (** a step of connection [i]: any step of the connection model except the two context events,
      which only Shutdown and the timer produce *)
  Definition conn_label_ok (l : label) : bool :=
    match l with LShutdown | LRootCancel => false | _ => true end.
  Definition conn_steps_at (s : sstate) (i : nat) (c : cstate) : list (slabel * sstate) :=
    map (fun lc : label * cstate =>
           let (l, c') := lc in
           let s' := with_conns (upd_nth i c' (conns s)) s in
           (SL_Conn i l,
            match l with
            | LWgDone => match wg s with O => with_spanic true s' | S n => with_wg n s' end
            | _ => s'
            end))
        (filter (fun lc => conn_label_ok (fst lc)) (cstep_lbl (conn_cfg C) c)).
  Fixpoint conn_steps_from (s : sstate) (i : nat) (l : list cstate) : list (slabel * sstate) :=
    match l with
    | [] => []
    | c :: t => conn_steps_at s i c ++ conn_steps_from s (S i) t
    end.

  Definition sstep_lbl (s : sstate) : list (slabel * sstate) :=
    if s_panic s then []
    else serve_steps s ++ shutdown_steps s ++ timer_steps s ++ conn_steps_from s 0 (conns s).
  Definition sstep (s : sstate) : list sstate := map snd (sstep_lbl s).
End SStep.

Definition sd_returned (s : sstate) : bool := match sd s with SD_Returned => true | _ => false end.
Definition serve_ended (s : sstate) : bool := match sv s with S_RetShutdown | S_RetErr => true | _ => false end.
Definition live_conns (l : list cstate) : nat := length (filter (fun c => negb (h_done c)) l).
