(** Proofs about KeyMat.v (C14). *)
From Coq Require Import ZArith List Bool Lia.
From KV Require Import Base Cases KeyMat.
Import ListNotations.
Open Scope Z_scope.

(** * Small tools *)

Lemma bind_not_panic : forall {A B} (r : res A) (f : A -> res B),
  r <> Panic -> (forall a, r = Ok a -> f a <> Panic) -> bind r f <> Panic.
Proof.
  intros A B r f Hr Hf. destruct r as [a| | |]; cbn; try discriminate.
  - apply Hf; reflexivity.
  - congruence.
Qed.

Lemma bind_ok : forall {A B} (r : res A) (f : A -> res B) b,
  bind r f = Ok b -> exists a, r = Ok a /\ f a = Ok b.
Proof. intros A B r f b H. destruct r as [a| | |]; cbn in H; try discriminate. eauto. Qed.

Lemma rmap_not_panic : forall {A B} (f : A -> B) (r : res A), r <> Panic -> rmap f r <> Panic.
Proof. intros A B f r H. unfold rmap. apply bind_not_panic; [exact H | intros; discriminate]. Qed.

Lemma slot_eqb_refl : forall s, slot_eqb s s = true.
Proof. destruct s; reflexivity. Qed.

Lemma slot_eqb_eq : forall a b, slot_eqb a b = true -> a = b.
Proof. destruct a, b; cbn; intros H; try discriminate; reflexivity. Qed.

Lemma bitlen_nonneg : forall n, 0 <= bitlen n.
Proof.
  intros n. unfold bitlen. destruct (n =? 0); [lia|].
  pose proof (Z.log2_nonneg (Z.abs n)). lia.
Qed.

(** * The KeyFormat selectors only ever return one of the values the builders handle *)

Lemma rsa_priv_format_cases : forall kf,
  rsa_priv_format kf = KF_PKCS1 \/ rsa_priv_format kf = KF_PKCS8 \/ rsa_priv_format kf = KF_Transparent.
Proof. intros kf. unfold rsa_priv_format. repeat match goal with |- context[if ?b then _ else _] => destruct b end; auto. Qed.

Lemma rsa_pub_format_cases : forall kf,
  rsa_pub_format kf = KF_PKCS1 \/ rsa_pub_format kf = KF_X509 \/ rsa_pub_format kf = KF_Transparent.
Proof. intros kf. unfold rsa_pub_format. repeat match goal with |- context[if ?b then _ else _] => destruct b end; auto. Qed.

Lemma ecdsa_priv_format_cases : forall kf,
  ecdsa_priv_format kf = KF_SEC1 \/ ecdsa_priv_format kf = KF_PKCS8 \/ ecdsa_priv_format kf = KF_Transparent.
Proof. intros kf. unfold ecdsa_priv_format. repeat match goal with |- context[if ?b then _ else _] => destruct b end; auto. Qed.

Lemma ecdsa_pub_format_cases : forall kf,
  ecdsa_pub_format kf = KF_X509 \/ ecdsa_pub_format kf = KF_Transparent.
Proof. intros kf. unfold ecdsa_pub_format. repeat match goal with |- context[if ?b then _ else _] => destruct b end; auto. Qed.

Lemma symmetric_format_cases : forall kf,
  symmetric_format kf = KF_RAW \/ symmetric_format kf = KF_Transparent.
Proof. intros kf. unfold symmetric_format. repeat match goal with |- context[if ?b then _ else _] => destruct b end; auto. Qed.

(** * Accessor totality: no accessor panics, on any object *)

Lemma get_material_not_panic : forall kb, get_material kb <> Panic.
Proof. intros kb. unfold get_material. destruct (kb_value kb) as [kv|]; [destruct (kv_plain kv)|]; discriminate. Qed.

Lemma get_bytes_not_panic : forall kb, get_bytes kb <> Panic.
Proof.
  intros kb. unfold get_bytes. apply bind_not_panic; [apply get_material_not_panic|].
  intros m _. destruct (km_bytes m); discriminate.
Qed.

Lemma get_attributes_not_panic : forall kb, get_attributes kb <> Panic.
Proof. intros kb. unfold get_attributes. destruct (kb_value kb) as [kv|]; [destruct (kv_plain kv)|]; discriminate. Qed.

Lemma run_kb_acc_total : forall a kb, run_kb_acc a kb <> Panic.
Proof.
  intros a kb. destruct a; cbn [run_kb_acc]; apply rmap_not_panic.
  - apply get_material_not_panic.
  - apply get_bytes_not_panic.
  - apply get_attributes_not_panic.
Qed.

Lemma secret_data_not_panic : forall kb, secret_data kb <> Panic.
Proof. intros kb. unfold secret_data. destruct (_ || _); [apply get_bytes_not_panic | discriminate]. Qed.

Lemma symmetric_key_material_not_panic : forall kb, symmetric_key_material kb <> Panic.
Proof.
  intros kb. unfold symmetric_key_material.
  destruct (kb_format kb =? KFT_Raw); [apply get_bytes_not_panic|].
  destruct (kb_format kb =? KFT_TSymmetricKey); [|discriminate].
  apply bind_not_panic; [apply get_material_not_panic|]. intros m _. destruct (km_sym m); discriminate.
Qed.

Section Totality.
Variable C : crypto.

Lemma cert_x509_not_panic : forall ct v, cert_x509 C ct v <> Panic.
Proof. intros ct v. unfold cert_x509. destruct (negb _); [discriminate|]. destruct (parse_cert C v); discriminate. Qed.

Lemma cert_pem_not_panic : forall ct v, cert_pem C ct v <> Panic.
Proof.
  intros ct v. unfold cert_pem. apply bind_not_panic; [apply cert_x509_not_panic | intros; discriminate].
Qed.

Lemma pub_rsa_not_panic : forall kb, pub_rsa C kb <> Panic.
Proof.
  intros kb. unfold pub_rsa.
  destruct (kb_format kb =? KFT_PKCS1).
  { apply bind_not_panic; [apply get_bytes_not_panic|]. intros raw _. destruct (parse_pkcs1_pub C raw); discriminate. }
  destruct (kb_format kb =? KFT_X509).
  { apply bind_not_panic; [apply get_bytes_not_panic|]. intros raw _.
    destruct (parse_pkix C raw) as [[k|k|]|]; discriminate. }
  destruct (kb_format kb =? KFT_TRSAPublicKey); [|discriminate].
  apply bind_not_panic; [apply get_material_not_panic|]. intros m _.
  destruct (km_rsa_pub m) as [[n e]|]; [destruct (in_i64 e)|]; discriminate.
Qed.

Lemma pub_ecdsa_transparent_not_panic : forall kb t, pub_ecdsa_transparent C kb t <> Panic.
Proof.
  intros kb t. unfold pub_ecdsa_transparent. destruct t as [[crv q]|]; [|discriminate].
  destruct (curve_of_kmip crv) as [c|]; [|discriminate].
  destruct (_ =? KCT_Uncompressed).
  { destruct (ec_unmarshal C c q) as [[x y]|]; discriminate. }
  destruct (_ =? KCT_CompressedPrime); [|discriminate].
  destruct (ec_unmarshal_compressed C c q) as [[x y]|]; discriminate.
Qed.

Lemma pub_ecdsa_not_panic : forall kb, pub_ecdsa C kb <> Panic.
Proof.
  intros kb. unfold pub_ecdsa.
  destruct (kb_format kb =? KFT_X509).
  { apply bind_not_panic; [apply get_bytes_not_panic|]. intros raw _.
    destruct (parse_pkix C raw) as [[k|k|]|]; discriminate. }
  destruct (_ || _); [|discriminate].
  apply bind_not_panic; [apply get_material_not_panic|]. intros m _. apply pub_ecdsa_transparent_not_panic.
Qed.

Lemma pub_crypto_not_panic : forall kb, pub_crypto C kb <> Panic.
Proof.
  intros kb. unfold pub_crypto.
  destruct (_ || _). { apply bind_not_panic; [apply pub_ecdsa_not_panic | intros; discriminate]. }
  destruct (_ || _). { apply bind_not_panic; [apply pub_rsa_not_panic | intros; discriminate]. }
  destruct (kb_format kb =? KFT_X509); [|discriminate].
  apply bind_not_panic; [apply get_bytes_not_panic|]. intros raw _. destruct (parse_pkix C raw); discriminate.
Qed.

Lemma pub_pem_not_panic : forall kb, pub_pem C kb <> Panic.
Proof.
  intros kb. unfold pub_pem. apply bind_not_panic; [apply pub_crypto_not_panic|].
  intros k _. destruct (marshal_pkix C k); discriminate.
Qed.

Lemma priv_rsa_not_panic : forall kb, priv_rsa C kb <> Panic.
Proof.
  intros kb. unfold priv_rsa.
  destruct (kb_format kb =? KFT_PKCS1).
  { apply bind_not_panic; [apply get_bytes_not_panic|]. intros raw _. destruct (parse_pkcs1_priv C raw); discriminate. }
  destruct (kb_format kb =? KFT_PKCS8).
  { apply bind_not_panic; [apply get_bytes_not_panic|]. intros raw _.
    destruct (parse_pkcs8 C raw) as [[k|k|]|]; discriminate. }
  destruct (kb_format kb =? KFT_TRSAPrivateKey); [|discriminate].
  apply bind_not_panic; [apply get_material_not_panic|]. intros m _.
  destruct (km_rsa_priv m) as [t|]; [|discriminate].
  destruct (tr_e t) as [e|]; [|discriminate]. destruct (tr_d t) as [d|]; [|discriminate].
  destruct (negb (in_i64 e)); discriminate.
Qed.

Lemma priv_ecdsa_not_panic : forall kb, priv_ecdsa C kb <> Panic.
Proof.
  intros kb. unfold priv_ecdsa.
  destruct (kb_format kb =? KFT_ECPrivateKey).
  { apply bind_not_panic; [apply get_bytes_not_panic|]. intros raw _. destruct (parse_sec1 C raw); discriminate. }
  destruct (kb_format kb =? KFT_PKCS8).
  { apply bind_not_panic; [apply get_bytes_not_panic|]. intros raw _.
    destruct (parse_pkcs8 C raw) as [[k|k|]|]; discriminate. }
  destruct (_ || _); [|discriminate].
  apply bind_not_panic; [apply get_material_not_panic|]. intros m _.
  destruct (if kb_format kb =? KFT_TECPrivateKey then km_ec_priv m else km_ecdsa_priv m) as [[crv d]|]; [|discriminate].
  destruct (curve_of_kmip crv) as [c|]; [|discriminate].
  destruct (_ || _); [discriminate|]. destruct (scalar_base_mult C c (Z.abs d)); discriminate.
Qed.

(** What the library needs from x509.MarshalPKCS8PrivateKey / the parsers for the PEM
    accessor not to panic: the marshaller is total on RSA keys, on keys of other algorithms,
    and on EC keys whose scalar is in [1, N-1]; the parsers only return such EC keys. *)
Record crypto_safe : Prop := {
  safe_pkcs8_rsa : forall k, marshal_pkcs8 C (PrivRsa k) <> Panic;
  safe_pkcs8_other : marshal_pkcs8 C PrivOther <> Panic;
  safe_pkcs8_ec : forall k, 0 < ek_d k < curve_order C (ek_curve k) -> marshal_pkcs8 C (PrivEc k) <> Panic;
  safe_parse_pkcs8 : forall b k, parse_pkcs8 C b = Some (PrivEc k) -> 0 < ek_d k < curve_order C (ek_curve k);
  safe_parse_sec1 : forall b k, parse_sec1 C b = Some k -> 0 < ek_d k < curve_order C (ek_curve k)
}.

Definition scalar_in_range (k : ec_priv) : Prop := 0 < ek_d k < curve_order C (ek_curve k).

Lemma priv_ecdsa_in_range : crypto_safe -> forall kb k, priv_ecdsa C kb = Ok k -> scalar_in_range k.
Proof.
  intros S kb k. unfold priv_ecdsa.
  destruct (kb_format kb =? KFT_ECPrivateKey).
  { intros H. apply bind_ok in H. destruct H as [raw [_ H]].
    destruct (parse_sec1 C raw) as [k'|] eqn:E; [|discriminate]. injection H as <-. eapply safe_parse_sec1; eauto. }
  destruct (kb_format kb =? KFT_PKCS8).
  { intros H. apply bind_ok in H. destruct H as [raw [_ H]].
    destruct (parse_pkcs8 C raw) as [[k'|k'|]|] eqn:E; try discriminate. injection H as <-. eapply safe_parse_pkcs8; eauto. }
  destruct (_ || _); [|discriminate].
  intros H. apply bind_ok in H. destruct H as [m [_ H]].
  destruct (if kb_format kb =? KFT_TECPrivateKey then km_ec_priv m else km_ecdsa_priv m) as [[crv d]|]; [|discriminate].
  destruct (curve_of_kmip crv) as [c|]; [|discriminate].
  destruct ((d <=? 0) || (curve_order C c <=? d)) eqn:G; [discriminate|].
  destruct (scalar_base_mult C c (Z.abs d)) as [x y]. injection H as <-.
  apply orb_false_iff in G. destruct G as [G1 G2]. unfold scalar_in_range; cbn. lia.
Qed.

Lemma priv_crypto_not_panic : forall kb, priv_crypto C kb <> Panic.
Proof.
  intros kb. unfold priv_crypto.
  destruct (_ || _). { apply bind_not_panic; [apply priv_ecdsa_not_panic | intros; discriminate]. }
  destruct (_ || _). { apply bind_not_panic; [apply priv_rsa_not_panic | intros; discriminate]. }
  destruct (kb_format kb =? KFT_PKCS8); [|discriminate].
  apply bind_not_panic; [apply get_bytes_not_panic|]. intros raw _. destruct (parse_pkcs8 C raw); discriminate.
Qed.

Lemma priv_crypto_in_range : crypto_safe -> forall kb k, priv_crypto C kb = Ok (PrivEc k) -> scalar_in_range k.
Proof.
  intros S kb k. unfold priv_crypto.
  destruct (_ || _).
  { intros H. apply bind_ok in H. destruct H as [k' [H1 H2]]. injection H2 as <-. eapply priv_ecdsa_in_range; eauto. }
  destruct (_ || _).
  { intros H. apply bind_ok in H. destruct H as [k' [_ H2]]. discriminate. }
  destruct (kb_format kb =? KFT_PKCS8); [|discriminate].
  intros H. apply bind_ok in H. destruct H as [raw [_ H]].
  destruct (parse_pkcs8 C raw) as [k'|] eqn:E; [|discriminate]. injection H as ->. eapply safe_parse_pkcs8; eauto.
Qed.

Lemma priv_pem_not_panic : crypto_safe -> forall kb, priv_pem C kb <> Panic.
Proof.
  intros S kb. unfold priv_pem. apply bind_not_panic; [apply priv_crypto_not_panic|].
  intros k Hk. apply bind_not_panic; [|intros; discriminate].
  destruct k as [r|e|].
  - apply safe_pkcs8_rsa; exact S.
  - apply safe_pkcs8_ec; [exact S|]. eapply priv_crypto_in_range; eauto.
  - apply safe_pkcs8_other; exact S.
Qed.

Theorem run_obj_acc_total : crypto_safe -> forall a o, run_obj_acc C a o <> Panic.
Proof.
  intros S a o.
  destruct a, o; cbn [run_obj_acc]; try discriminate; apply rmap_not_panic;
    first [ apply secret_data_not_panic | apply symmetric_key_material_not_panic
          | apply cert_x509_not_panic | apply cert_pem_not_panic
          | apply pub_rsa_not_panic | apply pub_ecdsa_not_panic | apply pub_crypto_not_panic | apply pub_pem_not_panic
          | apply priv_rsa_not_panic | apply priv_ecdsa_not_panic | apply priv_crypto_not_panic
          | apply priv_pem_not_panic; exact S ].
Qed.

Ltac pl_np lem :=
  let g := fresh "g" in
  intros g; match goal with |- ?f _ _ <> Panic => unfold f end;
  destruct (negb _); [discriminate|];
  destruct (gr_obj g) as [[]|]; try discriminate; apply lem.

Lemma pl_secret_not_panic : forall g, pl_secret g <> Panic.
Proof.
  intros g. unfold pl_secret. destruct (negb _); [discriminate|].
  destruct (gr_obj g) as [[]|]; try discriminate. apply secret_data_not_panic.
Qed.
Lemma pl_symmetric_key_not_panic : forall g, pl_symmetric_key g <> Panic.
Proof.
  intros g. unfold pl_symmetric_key. destruct (negb _); [discriminate|].
  destruct (gr_obj g) as [[]|]; try discriminate. apply symmetric_key_material_not_panic.
Qed.
Lemma pl_x509_certificate_not_panic : forall g, pl_x509_certificate C g <> Panic.
Proof. pl_np cert_x509_not_panic. Qed.
Lemma pl_pem_certificate_not_panic : forall g, pl_pem_certificate C g <> Panic.
Proof. pl_np cert_pem_not_panic. Qed.
Lemma pl_rsa_private_key_not_panic : forall g, pl_rsa_private_key C g <> Panic.
Proof. pl_np priv_rsa_not_panic. Qed.
Lemma pl_ecdsa_private_key_not_panic : forall g, pl_ecdsa_private_key C g <> Panic.
Proof. pl_np priv_ecdsa_not_panic. Qed.
Lemma pl_private_key_not_panic : forall g, pl_private_key C g <> Panic.
Proof. pl_np priv_crypto_not_panic. Qed.
Lemma pl_pem_private_key_not_panic : crypto_safe -> forall g, pl_pem_private_key C g <> Panic.
Proof. intros S. pl_np priv_pem_not_panic. exact S. Qed.
Lemma pl_rsa_public_key_not_panic : forall g, pl_rsa_public_key C g <> Panic.
Proof. pl_np pub_rsa_not_panic. Qed.
Lemma pl_ecdsa_public_key_not_panic : forall g, pl_ecdsa_public_key C g <> Panic.
Proof. pl_np pub_ecdsa_not_panic. Qed.
Lemma pl_public_key_not_panic : forall g, pl_public_key C g <> Panic.
Proof. pl_np pub_crypto_not_panic. Qed.
Lemma pl_pem_public_key_not_panic : forall g, pl_pem_public_key C g <> Panic.
Proof. pl_np pub_pem_not_panic. Qed.

Theorem run_pl_acc_total : crypto_safe -> forall a g, run_pl_acc C a g <> Panic.
Proof.
  intros S a g. destruct a; cbn [run_pl_acc]; apply rmap_not_panic;
    first [ apply pl_secret_not_panic | apply pl_symmetric_key_not_panic
          | apply pl_x509_certificate_not_panic | apply pl_pem_certificate_not_panic
          | apply pl_rsa_private_key_not_panic | apply pl_ecdsa_private_key_not_panic
          | apply pl_private_key_not_panic | apply pl_pem_private_key_not_panic; exact S
          | apply pl_rsa_public_key_not_panic | apply pl_ecdsa_public_key_not_panic
          | apply pl_public_key_not_panic | apply pl_pem_public_key_not_panic ].
Qed.

End Totality.

(** * Slot agreement: the builders' KeyFormatType designates the slot they populate *)

(** What every successfully built request looks like: a key block with a plain key value whose
    material has exactly one slot [s] populated, [s] being both the slot KeyMaterial.decode
    stores into for the block's KeyFormatType and the slot the typed accessor reads. *)
Definition built_shape (i : reg_input) (r : reg_req) : Prop :=
  exists kb m s,
    object_key_block (rq_obj r) = Some kb /\
    kb_value kb = Some (mk_kv None (Some (mk_pkv m []))) /\
    populated_slots m = [s] /\
    decode_slot (kb_format kb) = Some s /\
    accessor_slot (input_accessor i) (kb_format kb) = Some s.

Ltac crunch H :=
  repeat match type of H with
  | context[if ?b then _ else _] => destruct b eqn:?
  | context[bind ?r _] => destruct r eqn:?; cbn [bind] in H
  | context[match ?x with _ => _ end] => destruct x eqn:?
  end; try discriminate H.

Ltac shape_done := do 3 eexists; repeat split; reflexivity.

Theorem slot_agreement : forall C kf ver usage i r,
  build C kf ver usage i = Ok r -> built_shape i r.
Proof.
  intros C kf ver usage i r H. destruct i as [k|k|k|k|alg v|kind v]; cbn [build] in H.
  - unfold reg_rsa_priv in H. crunch H; injection H as <-; shape_done.
  - unfold reg_rsa_pub in H. crunch H; injection H as <-; shape_done.
  - unfold reg_ec_priv in H. crunch H; injection H as <-; shape_done.
  - unfold reg_ec_pub in H. crunch H; injection H as <-; shape_done.
  - unfold reg_symmetric in H. crunch H; injection H as <-; shape_done.
  - unfold reg_secret in H. injection H as <-; shape_done.
Qed.

Lemma built_shape_wire_stable : forall i r, built_shape i r -> wire_stable (rq_obj r) = true.
Proof.
  intros i r [kb [m [s [Hkb [Hv [Hp [Hd _]]]]]]].
  unfold wire_stable. rewrite Hkb. unfold wire_stable_kb. rewrite Hv. cbn. rewrite Hp, Hd. apply slot_eqb_refl.
Qed.

Corollary built_wire_stable : forall C kf ver usage i r,
  build C kf ver usage i = Ok r -> wire_stable (rq_obj r) = true.
Proof. intros. eapply built_shape_wire_stable, slot_agreement; eauto. Qed.

(** The accessor table is about the accessor functions: when the slot an accessor reads for
    the block's KeyFormatType is empty, or the format is not one it handles, it answers with an
    error (never with a value taken from some other slot). *)
Definition slot_missing (a : obj_acc) (kb : key_block) (m : key_material) : Prop :=
  match accessor_slot a (kb_format kb) with
  | Some s => slot_filled m s = false
  | None => True
  end.

Section NeedsSlot.
Variable C : crypto.
Variable kb : key_block.
Variable m : key_material.
Hypothesis Hm : get_material kb = Ok m.

Lemma get_bytes_missing : slot_filled m SBytes = false -> get_bytes kb = Err.
Proof.
  intros E. unfold get_bytes. rewrite Hm. cbn. cbn in E. destruct (km_bytes m); [discriminate|reflexivity].
Qed.

Ltac fmt_is E := apply Z.eqb_eq in E; unfold slot_missing in *; rewrite E in *.

Lemma secret_data_needs_slot : slot_missing ASecretData kb m -> secret_data kb = Err.
Proof.
  unfold slot_missing, accessor_slot, secret_data. intros Hs.
  destruct (_ || _); [|reflexivity]. apply get_bytes_missing. exact Hs.
Qed.

Lemma symmetric_needs_slot : slot_missing ASymKeyMaterial kb m -> symmetric_key_material kb = Err.
Proof.
  unfold slot_missing, accessor_slot, symmetric_key_material. intros Hs.
  destruct (kb_format kb =? KFT_Raw). { apply get_bytes_missing. exact Hs. }
  destruct (kb_format kb =? KFT_TSymmetricKey); [|reflexivity].
  rewrite Hm. cbn. cbn in Hs. destruct (km_sym m); [discriminate|reflexivity].
Qed.

Lemma pub_rsa_needs_slot : slot_missing APubRSA kb m -> pub_rsa C kb = Err.
Proof.
  unfold slot_missing, accessor_slot, pub_rsa. intros Hs.
  destruct (kb_format kb =? KFT_PKCS1). { cbn in Hs. rewrite get_bytes_missing; [reflexivity|exact Hs]. }
  destruct (kb_format kb =? KFT_X509). { cbn in Hs. rewrite get_bytes_missing; [reflexivity|exact Hs]. }
  destruct (kb_format kb =? KFT_TRSAPublicKey); [|reflexivity].
  rewrite Hm. cbn. cbn in Hs. destruct (km_rsa_pub m); [discriminate|reflexivity].
Qed.

Lemma pub_ecdsa_needs_slot : slot_missing APubECDSA kb m -> pub_ecdsa C kb = Err.
Proof.
  unfold slot_missing, accessor_slot, pub_ecdsa. intros Hs.
  destruct (kb_format kb =? KFT_X509). { rewrite get_bytes_missing; [reflexivity|exact Hs]. }
  destruct (kb_format kb =? KFT_TECDSAPublicKey) eqn:E1.
  { cbn [orb]. rewrite Hm. cbn [bind].
    destruct (kb_format kb =? KFT_TECPublicKey) eqn:E2.
    { apply Z.eqb_eq in E1, E2. rewrite E1 in E2. discriminate. }
    cbn in Hs. unfold pub_ecdsa_transparent. destruct (km_ecdsa_pub m); [discriminate|reflexivity]. }
  cbn [orb]. destruct (kb_format kb =? KFT_TECPublicKey); [|reflexivity].
  rewrite Hm. cbn [bind]. cbn in Hs. unfold pub_ecdsa_transparent. destruct (km_ec_pub m); [discriminate|reflexivity].
Qed.

Lemma pub_crypto_needs_slot : slot_missing APubCrypto kb m -> pub_crypto C kb = Err.
Proof.
  intros Hs. unfold pub_crypto.
  destruct (kb_format kb =? KFT_TECPublicKey) eqn:E1.
  { cbn [orb]. rewrite pub_ecdsa_needs_slot; [reflexivity|]. fmt_is E1. exact Hs. }
  destruct (kb_format kb =? KFT_TECDSAPublicKey) eqn:E2.
  { cbn [orb]. rewrite pub_ecdsa_needs_slot; [reflexivity|]. fmt_is E2. exact Hs. }
  cbn [orb].
  destruct (kb_format kb =? KFT_PKCS1) eqn:E3.
  { cbn [orb]. rewrite pub_rsa_needs_slot; [reflexivity|]. fmt_is E3. exact Hs. }
  destruct (kb_format kb =? KFT_TRSAPublicKey) eqn:E4.
  { cbn [orb]. rewrite pub_rsa_needs_slot; [reflexivity|]. fmt_is E4. exact Hs. }
  cbn [orb].
  destruct (kb_format kb =? KFT_X509) eqn:E5; [|reflexivity].
  rewrite get_bytes_missing; [reflexivity|]. fmt_is E5. exact Hs.
Qed.

Lemma priv_rsa_needs_slot : slot_missing APrivRSA kb m -> priv_rsa C kb = Err.
Proof.
  unfold slot_missing, accessor_slot, priv_rsa. intros Hs.
  destruct (kb_format kb =? KFT_PKCS1). { cbn in Hs. rewrite get_bytes_missing; [reflexivity|exact Hs]. }
  destruct (kb_format kb =? KFT_PKCS8). { cbn in Hs. rewrite get_bytes_missing; [reflexivity|exact Hs]. }
  destruct (kb_format kb =? KFT_TRSAPrivateKey); [|reflexivity].
  rewrite Hm. cbn. cbn in Hs. destruct (km_rsa_priv m); [discriminate|reflexivity].
Qed.

Lemma priv_ecdsa_needs_slot : slot_missing APrivECDSA kb m -> priv_ecdsa C kb = Err.
Proof.
  unfold slot_missing, accessor_slot, priv_ecdsa. intros Hs.
  destruct (kb_format kb =? KFT_ECPrivateKey). { cbn in Hs. rewrite get_bytes_missing; [reflexivity|exact Hs]. }
  destruct (kb_format kb =? KFT_PKCS8). { cbn in Hs. rewrite get_bytes_missing; [reflexivity|exact Hs]. }
  destruct (kb_format kb =? KFT_TECDSAPrivateKey) eqn:E1.
  { cbn [orb]. rewrite Hm. cbn [bind].
    destruct (kb_format kb =? KFT_TECPrivateKey) eqn:E2.
    { apply Z.eqb_eq in E1, E2. rewrite E1 in E2. discriminate. }
    cbn in Hs. destruct (km_ecdsa_priv m); [discriminate|reflexivity]. }
  cbn [orb]. destruct (kb_format kb =? KFT_TECPrivateKey); [|reflexivity].
  rewrite Hm. cbn [bind]. cbn in Hs. destruct (km_ec_priv m); [discriminate|reflexivity].
Qed.

Lemma priv_crypto_needs_slot : slot_missing APrivCrypto kb m -> priv_crypto C kb = Err.
Proof.
  intros Hs. unfold priv_crypto.
  destruct (kb_format kb =? KFT_ECPrivateKey) eqn:E0.
  { cbn [orb]. rewrite priv_ecdsa_needs_slot; [reflexivity|]. fmt_is E0. exact Hs. }
  destruct (kb_format kb =? KFT_TECPrivateKey) eqn:E1.
  { cbn [orb]. rewrite priv_ecdsa_needs_slot; [reflexivity|]. fmt_is E1. exact Hs. }
  destruct (kb_format kb =? KFT_TECDSAPrivateKey) eqn:E2.
  { cbn [orb]. rewrite priv_ecdsa_needs_slot; [reflexivity|]. fmt_is E2. exact Hs. }
  cbn [orb].
  destruct (kb_format kb =? KFT_PKCS1) eqn:E3.
  { cbn [orb]. rewrite priv_rsa_needs_slot; [reflexivity|]. fmt_is E3. exact Hs. }
  destruct (kb_format kb =? KFT_TRSAPrivateKey) eqn:E4.
  { cbn [orb]. rewrite priv_rsa_needs_slot; [reflexivity|]. fmt_is E4. exact Hs. }
  cbn [orb].
  destruct (kb_format kb =? KFT_PKCS8) eqn:E5; [|reflexivity].
  rewrite get_bytes_missing; [reflexivity|]. fmt_is E5. exact Hs.
Qed.

End NeedsSlot.

Theorem accessor_needs_its_slot : forall C a o kb m,
  object_key_block o = Some kb ->
  get_material kb = Ok m ->
  slot_missing a kb m ->
  run_obj_acc C a o = Err.
Proof.
  intros C a o kb m Hkb Hm Hs.
  destruct a, o; cbn [run_obj_acc]; try reflexivity; cbn in Hkb; try discriminate; injection Hkb as ->.
  - rewrite (secret_data_needs_slot _ _ Hm Hs); reflexivity.
  - rewrite (symmetric_needs_slot _ _ Hm Hs); reflexivity.
  - rewrite (pub_rsa_needs_slot C _ _ Hm Hs); reflexivity.
  - rewrite (pub_ecdsa_needs_slot C _ _ Hm Hs); reflexivity.
  - rewrite (pub_crypto_needs_slot C _ _ Hm Hs); reflexivity.
  - unfold pub_pem. rewrite (pub_crypto_needs_slot C _ _ Hm Hs); reflexivity.
  - rewrite (priv_rsa_needs_slot C _ _ Hm Hs); reflexivity.
  - rewrite (priv_ecdsa_needs_slot C _ _ Hm Hs); reflexivity.
  - rewrite (priv_crypto_needs_slot C _ _ Hm Hs); reflexivity.
  - unfold priv_pem. rewrite (priv_crypto_needs_slot C _ _ Hm Hs); reflexivity.
Qed.
