(** Proofs about KeyMat.v (C14). *)
From Coq Require Import ZArith List Bool Lia.
From KV Require Import Base Cases KeyMat.
Import ListNotations.
Open Scope Z_scope.

(** * Small tools *)

Lemma bind_not_panic : forall {A B} (r : res A) (f : A -> res B),
  r <> Panic -> (forall a, r = Ok a -> f a <> Panic) -> bind r f <> Panic.
Proof.
  intros A B r f Hr Hf. destruct r as [a| | |]; cbn; try discriminate.
  - apply Hf; reflexivity.
  - congruence.
Qed.

Lemma bind_ok : forall {A B} (r : res A) (f : A -> res B) b,
  bind r f = Ok b -> exists a, r = Ok a /\ f a = Ok b.
Proof. intros A B r f b H. destruct r as [a| | |]; cbn in H; try discriminate. eauto. Qed.

Lemma rmap_not_panic : forall {A B} (f : A -> B) (r : res A), r <> Panic -> rmap f r <> Panic.
Proof. intros A B f r H. unfold rmap. apply bind_not_panic; [exact H | intros; discriminate]. Qed.

Lemma slot_eqb_refl : forall s, slot_eqb s s = true.
Proof. destruct s; reflexivity. Qed.

Lemma slot_eqb_eq : forall a b, slot_eqb a b = true -> a = b.
Proof. destruct a, b; cbn; intros H; try discriminate; reflexivity. Qed.

Lemma bitlen_nonneg : forall n, 0 <= bitlen n.
Proof.
  intros n. unfold bitlen. destruct (n =? 0); [lia|].
  pose proof (Z.log2_nonneg (Z.abs n)). lia.
Qed.

(** * The KeyFormat selectors only ever return one of the values the builders handle *)

Lemma rsa_priv_format_cases : forall kf,
  rsa_priv_format kf = KF_PKCS1 \/ rsa_priv_format kf = KF_PKCS8 \/ rsa_priv_format kf = KF_Transparent.
Proof. intros kf. unfold rsa_priv_format. repeat match goal with |- context[if ?b then _ else _] => destruct b end; auto. Qed.

Lemma rsa_pub_format_cases : forall kf,
  rsa_pub_format kf = KF_PKCS1 \/ rsa_pub_format kf = KF_X509 \/ rsa_pub_format kf = KF_Transparent.
Proof. intros kf. unfold rsa_pub_format. repeat match goal with |- context[if ?b then _ else _] => destruct b end; auto. Qed.

Lemma ecdsa_priv_format_cases : forall kf,
  ecdsa_priv_format kf = KF_SEC1 \/ ecdsa_priv_format kf = KF_PKCS8 \/ ecdsa_priv_format kf = KF_Transparent.
Proof. intros kf. unfold ecdsa_priv_format. repeat match goal with |- context[if ?b then _ else _] => destruct b end; auto. Qed.

Lemma ecdsa_pub_format_cases : forall kf,
  ecdsa_pub_format kf = KF_X509 \/ ecdsa_pub_format kf = KF_Transparent.
Proof. intros kf. unfold ecdsa_pub_format. repeat match goal with |- context[if ?b then _ else _] => destruct b end; auto. Qed.

Lemma symmetric_format_cases : forall kf,
  symmetric_format kf = KF_RAW \/ symmetric_format kf = KF_Transparent.
Proof. intros kf. unfold symmetric_format. repeat match goal with |- context[if ?b then _ else _] => destruct b end; auto. Qed.

(** * Accessor totality: no accessor panics, on any object *)

Lemma get_material_not_panic : forall kb, get_material kb <> Panic.
Proof. intros kb. unfold get_material. destruct (kb_value kb) as [kv|]; [destruct (kv_plain kv)|]; discriminate. Qed.

Lemma get_bytes_not_panic : forall kb, get_bytes kb <> Panic.
Proof.
  intros kb. unfold get_bytes. apply bind_not_panic; [apply get_material_not_panic|].
  intros m _. destruct (km_bytes m); discriminate.
Qed.

Lemma get_attributes_not_panic : forall kb, get_attributes kb <> Panic.
Proof. intros kb. unfold get_attributes. destruct (kb_value kb) as [kv|]; [destruct (kv_plain kv)|]; discriminate. Qed.

Lemma run_kb_acc_total : forall a kb, run_kb_acc a kb <> Panic.
Proof.
  intros a kb. destruct a; cbn [run_kb_acc]; apply rmap_not_panic.
  - apply get_material_not_panic.
  - apply get_bytes_not_panic.
  - apply get_attributes_not_panic.
Qed.

Lemma secret_data_not_panic : forall kb, secret_data kb <> Panic.
Proof. intros kb. unfold secret_data. destruct (_ || _); [apply get_bytes_not_panic | discriminate]. Qed.

Lemma symmetric_key_material_not_panic : forall kb, symmetric_key_material kb <> Panic.
Proof.
  intros kb. unfold symmetric_key_material.
  destruct (kb_format kb =? KFT_Raw); [apply get_bytes_not_panic|].
  destruct (kb_format kb =? KFT_TSymmetricKey); [|discriminate].
  apply bind_not_panic; [apply get_material_not_panic|]. intros m _. destruct (km_sym m); discriminate.
Qed.

Section Totality.
Variable C : crypto.

Lemma cert_x509_not_panic : forall ct v, cert_x509 C ct v <> Panic.
Proof. intros ct v. unfold cert_x509. destruct (negb _); [discriminate|]. destruct (parse_cert C v); discriminate. Qed.

Lemma cert_pem_not_panic : forall ct v, cert_pem C ct v <> Panic.
Proof.
  intros ct v. unfold cert_pem. apply bind_not_panic; [apply cert_x509_not_panic | intros; discriminate].
Qed.

Lemma pub_rsa_not_panic : forall kb, pub_rsa C kb <> Panic.
Proof.
  intros kb. unfold pub_rsa.
  destruct (kb_format kb =? KFT_PKCS1).
  { apply bind_not_panic; [apply get_bytes_not_panic|]. intros raw _. destruct (parse_pkcs1_pub C raw); discriminate. }
  destruct (kb_format kb =? KFT_X509).
  { apply bind_not_panic; [apply get_bytes_not_panic|]. intros raw _.
    destruct (parse_pkix C raw) as [[k|k|]|]; discriminate. }
  destruct (kb_format kb =? KFT_TRSAPublicKey); [|discriminate].
  apply bind_not_panic; [apply get_material_not_panic|]. intros m _.
  destruct (km_rsa_pub m) as [[n e]|]; [destruct (in_i64 e)|]; discriminate.
Qed.

Lemma pub_ecdsa_transparent_not_panic : forall kb t, pub_ecdsa_transparent C kb t <> Panic.
Proof.
  intros kb t. unfold pub_ecdsa_transparent. destruct t as [[crv q]|]; [|discriminate].
  destruct (curve_of_kmip crv) as [c|]; [|discriminate].
  destruct (_ =? KCT_Uncompressed).
  { destruct (ec_unmarshal C c q) as [[x y]|]; discriminate. }
  destruct (_ =? KCT_CompressedPrime); [|discriminate].
  destruct (ec_unmarshal_compressed C c q) as [[x y]|]; discriminate.
Qed.

Lemma pub_ecdsa_not_panic : forall kb, pub_ecdsa C kb <> Panic.
Proof.
  intros kb. unfold pub_ecdsa.
  destruct (kb_format kb =? KFT_X509).
  { apply bind_not_panic; [apply get_bytes_not_panic|]. intros raw _.
    destruct (parse_pkix C raw) as [[k|k|]|]; discriminate. }
  destruct (_ || _); [|discriminate].
  apply bind_not_panic; [apply get_material_not_panic|]. intros m _. apply pub_ecdsa_transparent_not_panic.
Qed.

Lemma pub_crypto_not_panic : forall kb, pub_crypto C kb <> Panic.
Proof.
  intros kb. unfold pub_crypto.
  destruct (_ || _). { apply bind_not_panic; [apply pub_ecdsa_not_panic | intros; discriminate]. }
  destruct (_ || _). { apply bind_not_panic; [apply pub_rsa_not_panic | intros; discriminate]. }
  destruct (kb_format kb =? KFT_X509); [|discriminate].
  apply bind_not_panic; [apply get_bytes_not_panic|]. intros raw _. destruct (parse_pkix C raw); discriminate.
Qed.

Lemma pub_pem_not_panic : forall kb, pub_pem C kb <> Panic.
Proof.
  intros kb. unfold pub_pem. apply bind_not_panic; [apply pub_crypto_not_panic|].
  intros k _. destruct (marshal_pkix C k); discriminate.
Qed.

Lemma priv_rsa_not_panic : forall kb, priv_rsa C kb <> Panic.
Proof.
  intros kb. unfold priv_rsa.
  destruct (kb_format kb =? KFT_PKCS1).
  { apply bind_not_panic; [apply get_bytes_not_panic|]. intros raw _. destruct (parse_pkcs1_priv C raw); discriminate. }
  destruct (kb_format kb =? KFT_PKCS8).
  { apply bind_not_panic; [apply get_bytes_not_panic|]. intros raw _.
    destruct (parse_pkcs8 C raw) as [[k|k|]|]; discriminate. }
  destruct (kb_format kb =? KFT_TRSAPrivateKey); [|discriminate].
  apply bind_not_panic; [apply get_material_not_panic|]. intros m _.
  destruct (km_rsa_priv m) as [t|]; [|discriminate].
  destruct (tr_e t) as [e|]; [|discriminate]. destruct (tr_d t) as [d|]; [|discriminate].
  destruct (negb (in_i64 e)); discriminate.
Qed.

Lemma priv_ecdsa_not_panic : forall kb, priv_ecdsa C kb <> Panic.
Proof.
  intros kb. unfold priv_ecdsa.
  destruct (kb_format kb =? KFT_ECPrivateKey).
  { apply bind_not_panic; [apply get_bytes_not_panic|]. intros raw _. destruct (parse_sec1 C raw); discriminate. }
  destruct (kb_format kb =? KFT_PKCS8).
  { apply bind_not_panic; [apply get_bytes_not_panic|]. intros raw _.
    destruct (parse_pkcs8 C raw) as [[k|k|]|]; discriminate. }
  destruct (_ || _); [|discriminate].
  apply bind_not_panic; [apply get_material_not_panic|]. intros m _.
  destruct (if kb_format kb =? KFT_TECPrivateKey then km_ec_priv m else km_ecdsa_priv m) as [[crv d]|]; [|discriminate].
  destruct (curve_of_kmip crv) as [c|]; [|discriminate].
  destruct (_ || _); [discriminate|]. destruct (scalar_base_mult C c (Z.abs d)); discriminate.
Qed.

(** What the library needs from x509.MarshalPKCS8PrivateKey / the parsers for the PEM
    accessor not to panic: the marshaller is total on RSA keys, on keys of other algorithms,
    and on EC keys whose scalar is in [1, N-1]; the parsers only return such EC keys. *)
Record crypto_safe : Prop := {
  safe_pkcs8_rsa : forall k, marshal_pkcs8 C (PrivRsa k) <> Panic;
  safe_pkcs8_other : marshal_pkcs8 C PrivOther <> Panic;
  safe_pkcs8_ec : forall k, 0 < ek_d k < curve_order C (ek_curve k) -> marshal_pkcs8 C (PrivEc k) <> Panic;
  safe_parse_pkcs8 : forall b k, parse_pkcs8 C b = Some (PrivEc k) -> 0 < ek_d k < curve_order C (ek_curve k);
  safe_parse_sec1 : forall b k, parse_sec1 C b = Some k -> 0 < ek_d k < curve_order C (ek_curve k)
}.

Definition scalar_in_range (k : ec_priv) : Prop := 0 < ek_d k < curve_order C (ek_curve k).

Lemma priv_ecdsa_in_range : crypto_safe -> forall kb k, priv_ecdsa C kb = Ok k -> scalar_in_range k.
Proof.
  intros S kb k. unfold priv_ecdsa.
  destruct (kb_format kb =? KFT_ECPrivateKey).
  { intros H. apply bind_ok in H. destruct H as [raw [_ H]].
    destruct (parse_sec1 C raw) as [k'|] eqn:E; [|discriminate]. injection H as <-. eapply safe_parse_sec1; eauto. }
  destruct (kb_format kb =? KFT_PKCS8).
  { intros H. apply bind_ok in H. destruct H as [raw [_ H]].
    destruct (parse_pkcs8 C raw) as [[k'|k'|]|] eqn:E; try discriminate. injection H as <-. eapply safe_parse_pkcs8; eauto. }
  destruct (_ || _); [|discriminate].
  intros H. apply bind_ok in H. destruct H as [m [_ H]].
  destruct (if kb_format kb =? KFT_TECPrivateKey then km_ec_priv m else km_ecdsa_priv m) as [[crv d]|]; [|discriminate].
  destruct (curve_of_kmip crv) as [c|]; [|discriminate].
  destruct ((d <=? 0) || (curve_order C c <=? d)) eqn:G; [discriminate|].
  destruct (scalar_base_mult C c (Z.abs d)) as [x y]. injection H as <-.
  apply orb_false_iff in G. destruct G as [G1 G2]. unfold scalar_in_range; cbn. lia.
Qed.

Lemma priv_crypto_not_panic : forall kb, priv_crypto C kb <> Panic.
Proof.
  intros kb. unfold priv_crypto.
  destruct (_ || _). { apply bind_not_panic; [apply priv_ecdsa_not_panic | intros; discriminate]. }
  destruct (_ || _). { apply bind_not_panic; [apply priv_rsa_not_panic | intros; discriminate]. }
  destruct (kb_format kb =? KFT_PKCS8); [|discriminate].
  apply bind_not_panic; [apply get_bytes_not_panic|]. intros raw _. destruct (parse_pkcs8 C raw); discriminate.
Qed.

Lemma priv_crypto_in_range : crypto_safe -> forall kb k, priv_crypto C kb = Ok (PrivEc k) -> scalar_in_range k.
Proof.
  intros S kb k. unfold priv_crypto.
  destruct (_ || _).
  { intros H. apply bind_ok in H. destruct H as [k' [H1 H2]]. injection H2 as <-. eapply priv_ecdsa_in_range; eauto. }
  destruct (_ || _).
  { intros H. apply bind_ok in H. destruct H as [k' [_ H2]]. discriminate. }
  destruct (kb_format kb =? KFT_PKCS8); [|discriminate].
  intros H. apply bind_ok in H. destruct H as [raw [_ H]].
  destruct (parse_pkcs8 C raw) as [k'|] eqn:E; [|discriminate]. injection H as ->. eapply safe_parse_pkcs8; eauto.
Qed.

Lemma priv_pem_not_panic : crypto_safe -> forall kb, priv_pem C kb <> Panic.
Proof.
  intros S kb. unfold priv_pem. apply bind_not_panic; [apply priv_crypto_not_panic|].
  intros k Hk. apply bind_not_panic; [|intros; discriminate].
  destruct k as [r|e|].
  - apply safe_pkcs8_rsa; exact S.
  - apply safe_pkcs8_ec; [exact S|]. eapply priv_crypto_in_range; eauto.
  - apply safe_pkcs8_other; exact S.
Qed.

Theorem run_obj_acc_total : crypto_safe -> forall a o, run_obj_acc C a o <> Panic.
Proof.
  intros S a o.
  destruct a, o; cbn [run_obj_acc]; try discriminate; apply rmap_not_panic;
    first [ apply secret_data_not_panic | apply symmetric_key_material_not_panic
          | apply cert_x509_not_panic | apply cert_pem_not_panic
          | apply pub_rsa_not_panic | apply pub_ecdsa_not_panic | apply pub_crypto_not_panic | apply pub_pem_not_panic
          | apply priv_rsa_not_panic | apply priv_ecdsa_not_panic | apply priv_crypto_not_panic
          | apply priv_pem_not_panic; exact S ].
Qed.

Ltac pl_np lem :=
  let g := fresh "g" in
  intros g; match goal with |- ?f _ _ <> Panic => unfold f end;
  destruct (negb _); [discriminate|];
  destruct (gr_obj g) as [[]|]; try discriminate; apply lem.

Lemma pl_secret_not_panic : forall g, pl_secret g <> Panic.
Proof.
  intros g. unfold pl_secret. destruct (negb _); [discriminate|].
  destruct (gr_obj g) as [[]|]; try discriminate. apply secret_data_not_panic.
Qed.
Lemma pl_symmetric_key_not_panic : forall g, pl_symmetric_key g <> Panic.
Proof.
  intros g. unfold pl_symmetric_key. destruct (negb _); [discriminate|].
  destruct (gr_obj g) as [[]|]; try discriminate. apply symmetric_key_material_not_panic.
Qed.
Lemma pl_x509_certificate_not_panic : forall g, pl_x509_certificate C g <> Panic.
Proof. pl_np cert_x509_not_panic. Qed.
Lemma pl_pem_certificate_not_panic : forall g, pl_pem_certificate C g <> Panic.
Proof. pl_np cert_pem_not_panic. Qed.
Lemma pl_rsa_private_key_not_panic : forall g, pl_rsa_private_key C g <> Panic.
Proof. pl_np priv_rsa_not_panic. Qed.
Lemma pl_ecdsa_private_key_not_panic : forall g, pl_ecdsa_private_key C g <> Panic.
Proof. pl_np priv_ecdsa_not_panic. Qed.
Lemma pl_private_key_not_panic : forall g, pl_private_key C g <> Panic.
Proof. pl_np priv_crypto_not_panic. Qed.
Lemma pl_pem_private_key_not_panic : crypto_safe -> forall g, pl_pem_private_key C g <> Panic.
Proof. intros S. pl_np priv_pem_not_panic. exact S. Qed.
Lemma pl_rsa_public_key_not_panic : forall g, pl_rsa_public_key C g <> Panic.
Proof. pl_np pub_rsa_not_panic. Qed.
Lemma pl_ecdsa_public_key_not_panic : forall g, pl_ecdsa_public_key C g <> Panic.
Proof. pl_np pub_ecdsa_not_panic. Qed.
Lemma pl_public_key_not_panic : forall g, pl_public_key C g <> Panic.
Proof. pl_np pub_crypto_not_panic. Qed.
Lemma pl_pem_public_key_not_panic : forall g, pl_pem_public_key C g <> Panic.
Proof. pl_np pub_pem_not_panic. Qed.

Theorem run_pl_acc_total : crypto_safe -> forall a g, run_pl_acc C a g <> Panic.
Proof.
  intros S a g. destruct a; cbn [run_pl_acc]; apply rmap_not_panic;
    first [ apply pl_secret_not_panic | apply pl_symmetric_key_not_panic
          | apply pl_x509_certificate_not_panic | apply pl_pem_certificate_not_panic
          | apply pl_rsa_private_key_not_panic | apply pl_ecdsa_private_key_not_panic
          | apply pl_private_key_not_panic | apply pl_pem_private_key_not_panic; exact S
          | apply pl_rsa_public_key_not_panic | apply pl_ecdsa_public_key_not_panic
          | apply pl_public_key_not_panic | apply pl_pem_public_key_not_panic ].
Qed.

End Totality.

(** * Slot agreement: the builders' KeyFormatType designates the slot they populate *)

(** What every successfully built request looks like: a key block with a plain key value whose
    material has exactly one slot [s] populated, [s] being both the slot KeyMaterial.decode
    stores into for the block's KeyFormatType and the slot the typed accessor reads. *)
Definition built_shape (i : reg_input) (r : reg_req) : Prop :=
  exists kb m s,
    object_key_block (rq_obj r) = Some kb /\
    kb_value kb = Some (mk_kv None (Some (mk_pkv m []))) /\
    populated_slots m = [s] /\
    decode_slot (kb_format kb) = Some s /\
    accessor_slot (input_accessor i) (kb_format kb) = Some s.

Ltac crunch H :=
  repeat match type of H with
  | context[if ?b then _ else _] => destruct b eqn:?
  | context[bind ?r _] => destruct r eqn:?; cbn [bind] in H
  | context[match ?x with _ => _ end] => destruct x eqn:?
  end; try discriminate H.

Ltac shape_done := do 3 eexists; repeat split; reflexivity.

Theorem slot_agreement : forall C kf ver usage i r,
  build C kf ver usage i = Ok r -> built_shape i r.
Proof.
  intros C kf ver usage i r H. destruct i as [k|k|k|k|alg v|kind v]; cbn [build] in H.
  - unfold reg_rsa_priv in H. crunch H; injection H as <-; shape_done.
  - unfold reg_rsa_pub in H. crunch H; injection H as <-; shape_done.
  - unfold reg_ec_priv in H. crunch H; injection H as <-; shape_done.
  - unfold reg_ec_pub in H. crunch H; injection H as <-; shape_done.
  - unfold reg_symmetric in H. crunch H; injection H as <-; shape_done.
  - unfold reg_secret in H. injection H as <-; shape_done.
Qed.

Lemma built_shape_wire_stable : forall i r, built_shape i r -> wire_stable (rq_obj r) = true.
Proof.
  intros i r [kb [m [s [Hkb [Hv [Hp [Hd _]]]]]]].
  unfold wire_stable. rewrite Hkb. unfold wire_stable_kb. rewrite Hv. cbn. rewrite Hp, Hd. apply slot_eqb_refl.
Qed.

Corollary built_wire_stable : forall C kf ver usage i r,
  build C kf ver usage i = Ok r -> wire_stable (rq_obj r) = true.
Proof. intros. eapply built_shape_wire_stable, slot_agreement; eauto. Qed.

(** The accessor table is about the accessor functions: when the slot an accessor reads for
    the block's KeyFormatType is empty, or the format is not one it handles, it answers with an
    error (never with a value taken from some other slot). *)
Definition slot_missing (a : obj_acc) (kb : key_block) (m : key_material) : Prop :=
  match accessor_slot a (kb_format kb) with
  | Some s => slot_filled m s = false
  | None => True
  end.

Section NeedsSlot.
Variable C : crypto.
Variable kb : key_block.
Variable m : key_material.
Hypothesis Hm : get_material kb = Ok m.

Lemma get_bytes_missing : slot_filled m SBytes = false -> get_bytes kb = Err.
Proof.
  intros E. unfold get_bytes. rewrite Hm. cbn. cbn in E. destruct (km_bytes m); [discriminate|reflexivity].
Qed.

Ltac fmt_is E := apply Z.eqb_eq in E; unfold slot_missing in *; rewrite E in *.

Lemma secret_data_needs_slot : slot_missing ASecretData kb m -> secret_data kb = Err.
Proof.
  unfold slot_missing, accessor_slot, secret_data. intros Hs.
  destruct (_ || _); [|reflexivity]. apply get_bytes_missing. exact Hs.
Qed.

Lemma symmetric_needs_slot : slot_missing ASymKeyMaterial kb m -> symmetric_key_material kb = Err.
Proof.
  unfold slot_missing, accessor_slot, symmetric_key_material. intros Hs.
  destruct (kb_format kb =? KFT_Raw). { apply get_bytes_missing. exact Hs. }
  destruct (kb_format kb =? KFT_TSymmetricKey); [|reflexivity].
  rewrite Hm. cbn. cbn in Hs. destruct (km_sym m); [discriminate|reflexivity].
Qed.

Lemma pub_rsa_needs_slot : slot_missing APubRSA kb m -> pub_rsa C kb = Err.
Proof.
  unfold slot_missing, accessor_slot, pub_rsa. intros Hs.
  destruct (kb_format kb =? KFT_PKCS1). { cbn in Hs. rewrite get_bytes_missing; [reflexivity|exact Hs]. }
  destruct (kb_format kb =? KFT_X509). { cbn in Hs. rewrite get_bytes_missing; [reflexivity|exact Hs]. }
  destruct (kb_format kb =? KFT_TRSAPublicKey); [|reflexivity].
  rewrite Hm. cbn. cbn in Hs. destruct (km_rsa_pub m); [discriminate|reflexivity].
Qed.

Lemma pub_ecdsa_needs_slot : slot_missing APubECDSA kb m -> pub_ecdsa C kb = Err.
Proof.
  unfold slot_missing, accessor_slot, pub_ecdsa. intros Hs.
  destruct (kb_format kb =? KFT_X509). { rewrite get_bytes_missing; [reflexivity|exact Hs]. }
  destruct (kb_format kb =? KFT_TECDSAPublicKey) eqn:E1.
  { cbn [orb]. rewrite Hm. cbn [bind].
    destruct (kb_format kb =? KFT_TECPublicKey) eqn:E2.
    { apply Z.eqb_eq in E1, E2. rewrite E1 in E2. discriminate. }
    cbn in Hs. unfold pub_ecdsa_transparent. destruct (km_ecdsa_pub m); [discriminate|reflexivity]. }
  cbn [orb]. destruct (kb_format kb =? KFT_TECPublicKey); [|reflexivity].
  rewrite Hm. cbn [bind]. cbn in Hs. unfold pub_ecdsa_transparent. destruct (km_ec_pub m); [discriminate|reflexivity].
Qed.

Lemma pub_crypto_needs_slot : slot_missing APubCrypto kb m -> pub_crypto C kb = Err.
Proof.
  intros Hs. unfold pub_crypto.
  destruct (kb_format kb =? KFT_TECPublicKey) eqn:E1.
  { cbn [orb]. rewrite pub_ecdsa_needs_slot; [reflexivity|]. fmt_is E1. exact Hs. }
  destruct (kb_format kb =? KFT_TECDSAPublicKey) eqn:E2.
  { cbn [orb]. rewrite pub_ecdsa_needs_slot; [reflexivity|]. fmt_is E2. exact Hs. }
  cbn [orb].
  destruct (kb_format kb =? KFT_PKCS1) eqn:E3.
  { cbn [orb]. rewrite pub_rsa_needs_slot; [reflexivity|]. fmt_is E3. exact Hs. }
  destruct (kb_format kb =? KFT_TRSAPublicKey) eqn:E4.
  { cbn [orb]. rewrite pub_rsa_needs_slot; [reflexivity|]. fmt_is E4. exact Hs. }
  cbn [orb].
  destruct (kb_format kb =? KFT_X509) eqn:E5; [|reflexivity].
  rewrite get_bytes_missing; [reflexivity|]. fmt_is E5. exact Hs.
Qed.

Lemma priv_rsa_needs_slot : slot_missing APrivRSA kb m -> priv_rsa C kb = Err.
Proof.
  unfold slot_missing, accessor_slot, priv_rsa. intros Hs.
  destruct (kb_format kb =? KFT_PKCS1). { cbn in Hs. rewrite get_bytes_missing; [reflexivity|exact Hs]. }
  destruct (kb_format kb =? KFT_PKCS8). { cbn in Hs. rewrite get_bytes_missing; [reflexivity|exact Hs]. }
  destruct (kb_format kb =? KFT_TRSAPrivateKey); [|reflexivity].
  rewrite Hm. cbn. cbn in Hs. destruct (km_rsa_priv m); [discriminate|reflexivity].
Qed.

Lemma priv_ecdsa_needs_slot : slot_missing APrivECDSA kb m -> priv_ecdsa C kb = Err.
Proof.
  unfold slot_missing, accessor_slot, priv_ecdsa. intros Hs.
  destruct (kb_format kb =? KFT_ECPrivateKey). { cbn in Hs. rewrite get_bytes_missing; [reflexivity|exact Hs]. }
  destruct (kb_format kb =? KFT_PKCS8). { cbn in Hs. rewrite get_bytes_missing; [reflexivity|exact Hs]. }
  destruct (kb_format kb =? KFT_TECDSAPrivateKey) eqn:E1.
  { cbn [orb]. rewrite Hm. cbn [bind].
    destruct (kb_format kb =? KFT_TECPrivateKey) eqn:E2.
    { apply Z.eqb_eq in E1, E2. rewrite E1 in E2. discriminate. }
    cbn in Hs. destruct (km_ecdsa_priv m); [discriminate|reflexivity]. }
  cbn [orb]. destruct (kb_format kb =? KFT_TECPrivateKey); [|reflexivity].
  rewrite Hm. cbn [bind]. cbn in Hs. destruct (km_ec_priv m); [discriminate|reflexivity].
Qed.

Lemma priv_crypto_needs_slot : slot_missing APrivCrypto kb m -> priv_crypto C kb = Err.
Proof.
  intros Hs. unfold priv_crypto.
  destruct (kb_format kb =? KFT_ECPrivateKey) eqn:E0.
  { cbn [orb]. rewrite priv_ecdsa_needs_slot; [reflexivity|]. fmt_is E0. exact Hs. }
  destruct (kb_format kb =? KFT_TECPrivateKey) eqn:E1.
  { cbn [orb]. rewrite priv_ecdsa_needs_slot; [reflexivity|]. fmt_is E1. exact Hs. }
  destruct (kb_format kb =? KFT_TECDSAPrivateKey) eqn:E2.
  { cbn [orb]. rewrite priv_ecdsa_needs_slot; [reflexivity|]. fmt_is E2. exact Hs. }
  cbn [orb].
  destruct (kb_format kb =? KFT_PKCS1) eqn:E3.
  { cbn [orb]. rewrite priv_rsa_needs_slot; [reflexivity|]. fmt_is E3. exact Hs. }
  destruct (kb_format kb =? KFT_TRSAPrivateKey) eqn:E4.
  { cbn [orb]. rewrite priv_rsa_needs_slot; [reflexivity|]. fmt_is E4. exact Hs. }
  cbn [orb].
  destruct (kb_format kb =? KFT_PKCS8) eqn:E5; [|reflexivity].
  rewrite get_bytes_missing; [reflexivity|]. fmt_is E5. exact Hs.
Qed.

End NeedsSlot.

Theorem accessor_needs_its_slot : forall C a o kb m,
  object_key_block o = Some kb ->
  get_material kb = Ok m ->
  slot_missing a kb m ->
  run_obj_acc C a o = Err.
Proof.
  intros C a o kb m Hkb Hm Hs.
  destruct a, o; cbn [run_obj_acc]; try reflexivity; cbn in Hkb; try discriminate; injection Hkb as ->.
  - rewrite (secret_data_needs_slot _ _ Hm Hs); reflexivity.
  - rewrite (symmetric_needs_slot _ _ Hm Hs); reflexivity.
  - rewrite (pub_rsa_needs_slot C _ _ Hm Hs); reflexivity.
  - rewrite (pub_ecdsa_needs_slot C _ _ Hm Hs); reflexivity.
  - rewrite (pub_crypto_needs_slot C _ _ Hm Hs); reflexivity.
  - unfold pub_pem. rewrite (pub_crypto_needs_slot C _ _ Hm Hs); reflexivity.
  - rewrite (priv_rsa_needs_slot C _ _ Hm Hs); reflexivity.
  - rewrite (priv_ecdsa_needs_slot C _ _ Hm Hs); reflexivity.
  - rewrite (priv_crypto_needs_slot C _ _ Hm Hs); reflexivity.
  - unfold priv_pem. rewrite (priv_crypto_needs_slot C _ _ Hm Hs); reflexivity.
Qed.

(** * Round trip *)

Inductive encoding := EncTTLV | EncXML | EncJSON.

(** What is assumed of Go's crypto packages on well-formed keys (the validity predicates are
    abstract: "a key x509 accepts"). *)
Record crypto_laws (C : crypto) (vrsa : rsa_priv -> Prop) (vrsapub : rsa_pub -> Prop)
                   (vec : ec_priv -> Prop) (vecpub : ec_pub -> Prop) : Prop := {
  law_pkcs1_priv : forall k, vrsa k ->
    parse_pkcs1_priv C (marshal_pkcs1_priv C k) = Some (precompute C k);
  law_pkcs8_rsa : forall k, vrsa k ->
    exists b, marshal_pkcs8 C (PrivRsa k) = Ok b /\ parse_pkcs8 C b = Some (PrivRsa (precompute C k));
  law_pkcs1_pub : forall k, vrsapub k ->
    parse_pkcs1_pub C (marshal_pkcs1_pub C k) = Some k;
  law_pkix_rsa : forall k, vrsapub k ->
    exists b, marshal_pkix C (PubRsa k) = Some b /\ parse_pkix C b = Some (PubRsa k);
  law_sec1 : forall k, vec k ->
    exists b, marshal_sec1 C k = Some b /\ parse_sec1 C b = Some k;
  law_pkcs8_ec : forall k, vec k ->
    exists b, marshal_pkcs8 C (PrivEc k) = Ok b /\ parse_pkcs8 C b = Some (PrivEc k);
  law_pkix_ec : forall k, vecpub k ->
    exists b, marshal_pkix C (PubEc k) = Some b /\ parse_pkix C b = Some (PubEc k);
  law_point : forall k, vecpub k ->
    exists q, ec_marshal C (ep_curve k) (ep_x k) (ep_y k) = Some q
              /\ ec_unmarshal C (ep_curve k) q = Some (ep_x k, ep_y k);
  law_scalar : forall k, vec k ->
    0 < ek_d k < curve_order C (ek_curve k)
    /\ scalar_base_mult C (ek_curve k) (ek_d k) = (ek_x k, ek_y k);
  law_pre_keep : forall k, rk_dp k <> None -> rk_dq k <> None -> rk_qinv k <> None -> precompute C k = k;
  law_pre_core : forall k, rsa_core (precompute C k) = rsa_core k
}.

Section Roundtrip.
Variable C : crypto.
Variables (vrsa : rsa_priv -> Prop) (vrsapub : rsa_pub -> Prop) (vec : ec_priv -> Prop) (vecpub : ec_pub -> Prop).
Hypothesis L : crypto_laws C vrsa vrsapub vec vecpub.

(** The keys the property quantifies over. *)
Definition input_ok (i : reg_input) : Prop :=
  match i with
  | RegRsaPriv k =>
      vrsa k /\ (exists p q, rk_primes k = [Some p; Some q]) /\ in_i64 (rk_e k) = true /\ bitlen (rk_n k) <= max_i32
  | RegRsaPub k => vrsapub k /\ in_i64 (rp_e k) = true /\ bitlen (rp_n k) <= max_i32
  | RegEcPriv k => vec k /\ ek_curve k <> OtherCurve
  | RegEcPub k => vecpub k /\ ep_curve k <> OtherCurve
  | RegSym _ v => len v * 8 <= max_i32
  | RegSecret _ _ => True
  end.

(** What extraction returns: the key itself; for an RSA private key, after rsa.Precompute
    (which leaves N, E, D and the primes alone, and a key that already carries its CRT values
    entirely unchanged). *)
Definition normalize (i : reg_input) : reg_input :=
  match i with
  | RegRsaPriv k => RegRsaPriv (precompute C k)
  | _ => i
  end.

Lemma bitlen_check : forall n, bitlen n <= max_i32 -> (bitlen n <? 0) || (bitlen n >? max_i32) = false.
Proof.
  intros n H. pose proof (bitlen_nonneg n). apply orb_false_iff. split; [apply Z.ltb_ge; lia|].
  rewrite Z.gtb_ltb. apply Z.ltb_ge. lia.
Qed.

Lemma curve_roundtrip : forall c bl crv,
  curve_to_kmip c = Some (bl, crv) -> curve_of_kmip crv = Some c.
Proof. intros c bl crv H. destruct c; cbn in H; try discriminate; injection H as <- <-; reflexivity. Qed.

Lemma curve_supported : forall c, c <> OtherCurve -> exists bl crv, curve_to_kmip c = Some (bl, crv).
Proof. intros c H. destruct c; try congruence; cbn; eauto. Qed.

Lemma rsa_priv_rebuild : forall k p q,
  rk_primes k = [Some p; Some q] ->
  mk_rsa_priv (rk_n k) (rk_e k) (rk_d k) [Some p; Some q] (rk_dp k) (rk_dq k) (rk_qinv k) = k.
Proof. intros k p q H. destruct k; cbn in *. subst. reflexivity. Qed.

(** Each builder followed by the typed accessor, on the built object itself. *)

Lemma rt_rsa_priv : forall kf usage k,
  input_ok (RegRsaPriv k) ->
  exists r, reg_rsa_priv C kf usage k = Ok r
    /\ pl_rsa_private_key C (get_of (rq_obj r)) = Ok (precompute C k)
    /\ pl_private_key C (get_of (rq_obj r)) = Ok (PrivRsa (precompute C k)).
Proof.
  intros kf usage k [Hv [[p [q Hp]] [He Hb]]].
  unfold reg_rsa_priv. rewrite (bitlen_check _ Hb).
  destruct (rsa_priv_format_cases kf) as [F|[F|F]]; rewrite F.
  - change (KF_PKCS1 =? KF_PKCS1) with true. cbv iota. eexists. split; [reflexivity|].
    unfold pl_rsa_private_key, pl_private_key, priv_crypto, priv_rsa, get_bytes; cbn.
    rewrite (law_pkcs1_priv _ _ _ _ _ L _ Hv). split; reflexivity.
  - change (KF_PKCS8 =? KF_PKCS1) with false. change (KF_PKCS8 =? KF_PKCS8) with true. cbv iota.
    destruct (law_pkcs8_rsa _ _ _ _ _ L _ Hv) as [b [M P]]. rewrite M. cbn [bind]. eexists. split; [reflexivity|].
    unfold pl_rsa_private_key, pl_private_key, priv_crypto, priv_rsa, get_bytes; cbn.
    rewrite P. split; reflexivity.
  - change (KF_Transparent =? KF_PKCS1) with false. change (KF_Transparent =? KF_PKCS8) with false.
    change (KF_Transparent =? KF_Transparent) with true. cbv iota.
    rewrite Hp. cbn [index nth_error bind]. eexists. split; [reflexivity|].
    unfold pl_rsa_private_key, pl_private_key, priv_crypto, priv_rsa; cbn.
    rewrite He. cbn. rewrite (rsa_priv_rebuild _ _ _ Hp). split; reflexivity.
Qed.

Lemma rt_rsa_pub : forall kf usage k,
  input_ok (RegRsaPub k) ->
  exists r, reg_rsa_pub C kf usage k = Ok r
    /\ pl_rsa_public_key C (get_of (rq_obj r)) = Ok k
    /\ pl_public_key C (get_of (rq_obj r)) = Ok (PubRsa k).
Proof.
  intros kf usage k [Hv [He Hb]].
  unfold reg_rsa_pub. rewrite (bitlen_check _ Hb).
  destruct (rsa_pub_format_cases kf) as [F|[F|F]]; rewrite F.
  - change (KF_PKCS1 =? KF_PKCS1) with true. cbv iota. eexists. split; [reflexivity|].
    unfold pl_rsa_public_key, pl_public_key, pub_crypto, pub_rsa, get_bytes; cbn.
    rewrite (law_pkcs1_pub _ _ _ _ _ L _ Hv). split; reflexivity.
  - change (KF_X509 =? KF_PKCS1) with false. change (KF_X509 =? KF_X509) with true. cbv iota.
    destruct (law_pkix_rsa _ _ _ _ _ L _ Hv) as [b [M P]]. rewrite M. eexists. split; [reflexivity|].
    unfold pl_rsa_public_key, pl_public_key, pub_crypto, pub_rsa, get_bytes; cbn.
    rewrite P. split; reflexivity.
  - change (KF_Transparent =? KF_PKCS1) with false. change (KF_Transparent =? KF_X509) with false.
    change (KF_Transparent =? KF_Transparent) with true. cbv iota. eexists. split; [reflexivity|].
    unfold pl_rsa_public_key, pl_public_key, pub_crypto, pub_rsa; cbn.
    rewrite He. destruct k; split; reflexivity.
Qed.

Lemma rt_ec_priv : forall kf ver usage k,
  input_ok (RegEcPriv k) ->
  exists r, reg_ec_priv C kf ver usage k = Ok r
    /\ pl_ecdsa_private_key C (get_of (rq_obj r)) = Ok k
    /\ pl_private_key C (get_of (rq_obj r)) = Ok (PrivEc k).
Proof.
  intros kf ver usage k [Hv Hc].
  destruct (curve_supported _ Hc) as [bl [crv Hk]].
  pose proof (curve_roundtrip _ _ _ Hk) as Hback.
  unfold reg_ec_priv. rewrite Hk.
  destruct (ecdsa_priv_format_cases kf) as [F|[F|F]]; rewrite F.
  - change (KF_SEC1 =? KF_SEC1) with true. cbv iota.
    destruct (law_sec1 _ _ _ _ _ L _ Hv) as [b [M P]]. rewrite M. eexists. split; [reflexivity|].
    unfold pl_ecdsa_private_key, pl_private_key, priv_crypto, priv_ecdsa, get_bytes; cbn.
    rewrite P. split; reflexivity.
  - change (KF_PKCS8 =? KF_SEC1) with false. change (KF_PKCS8 =? KF_PKCS8) with true. cbv iota.
    destruct (law_pkcs8_ec _ _ _ _ _ L _ Hv) as [b [M P]]. rewrite M. cbn [bind]. eexists. split; [reflexivity|].
    unfold pl_ecdsa_private_key, pl_private_key, priv_crypto, priv_ecdsa, get_bytes; cbn.
    rewrite P. split; reflexivity.
  - change (KF_Transparent =? KF_SEC1) with false. change (KF_Transparent =? KF_PKCS8) with false.
    change (KF_Transparent =? KF_Transparent) with true. cbv iota.
    destruct (law_scalar _ _ _ _ _ L _ Hv) as [[D1 D2] S].
    assert (G : (ek_d k <=? 0) || (curve_order C (ek_curve k) <=? ek_d k) = false).
    { apply orb_false_iff. split; apply Z.leb_gt; lia. }
    assert (A : Z.abs (ek_d k) = ek_d k) by lia.
    destruct (ver_ge ver V1_3); (eexists; split; [reflexivity|]);
      unfold pl_ecdsa_private_key, pl_private_key, priv_crypto, priv_ecdsa; cbn;
      rewrite Hback, G, A, S; destruct k; split; reflexivity.
Qed.

Lemma rt_ec_pub : forall kf ver usage k,
  input_ok (RegEcPub k) ->
  exists r, reg_ec_pub C kf ver usage k = Ok r
    /\ pl_ecdsa_public_key C (get_of (rq_obj r)) = Ok k
    /\ pl_public_key C (get_of (rq_obj r)) = Ok (PubEc k).
Proof.
  intros kf ver usage k [Hv Hc].
  destruct (curve_supported _ Hc) as [bl [crv Hk]].
  pose proof (curve_roundtrip _ _ _ Hk) as Hback.
  unfold reg_ec_pub. rewrite Hk.
  destruct (ecdsa_pub_format_cases kf) as [F|F]; rewrite F.
  - change (KF_X509 =? KF_X509) with true. cbv iota.
    destruct (law_pkix_ec _ _ _ _ _ L _ Hv) as [b [M P]]. rewrite M. eexists. split; [reflexivity|].
    unfold pl_ecdsa_public_key, pl_public_key, pub_crypto, pub_ecdsa, get_bytes; cbn.
    rewrite P. split; reflexivity.
  - change (KF_Transparent =? KF_X509) with false. change (KF_Transparent =? KF_Transparent) with true. cbv iota.
    destruct (law_point _ _ _ _ _ L _ Hv) as [q [M U]]. rewrite M.
    destruct (ver_ge ver V1_3); (eexists; split; [reflexivity|]);
      unfold pl_ecdsa_public_key, pl_public_key, pub_crypto, pub_ecdsa, pub_ecdsa_transparent; cbn;
      rewrite Hback; cbn; rewrite U; destruct k; split; reflexivity.
Qed.

Lemma rt_symmetric : forall kf alg usage v,
  input_ok (RegSym alg v) ->
  exists r, reg_symmetric kf alg usage v = Ok r /\ pl_symmetric_key (get_of (rq_obj r)) = Ok v.
Proof.
  intros kf alg usage v Hb. unfold input_ok in Hb. unfold reg_symmetric.
  assert (G : (len v * 8 >? max_i32) = false) by (rewrite Z.gtb_ltb; apply Z.ltb_ge; lia).
  rewrite G. destruct (symmetric_format_cases kf) as [F|F]; rewrite F.
  - change (KF_RAW =? KF_RAW) with true. cbv iota. eexists. split; reflexivity.
  - change (KF_Transparent =? KF_RAW) with false. change (KF_Transparent =? KF_Transparent) with true. cbv iota.
    eexists. split; reflexivity.
Qed.

Lemma rt_secret : forall kind v,
  exists r, reg_secret kind v = Ok r /\ pl_secret (get_of (rq_obj r)) = Ok v.
Proof. intros. eexists. split; reflexivity. Qed.

(** ** The wire, as a hypothesis (C01 / C04): an object whose KeyFormatType designates the
    populated slot comes back unchanged, in every encoding and at every version. *)
Variable transport : Z * Z -> encoding -> object -> res object.
Hypothesis transport_stable : forall ver enc o, wire_stable o = true -> transport ver enc o = Ok o.

Theorem key_roundtrip : forall kf ver enc usage i,
  input_ok i ->
  exists r o',
    build C kf ver usage i = Ok r
    /\ transport ver enc (rq_obj r) = Ok o'
    /\ extract C i (get_of o') = Ok (normalize i).
Proof.
  intros kf ver enc usage i Hi.
  assert (Hex : exists r, build C kf ver usage i = Ok r /\ extract C i (get_of (rq_obj r)) = Ok (normalize i)).
  { destruct i as [k|k|k|k|alg v|kind v]; cbn [build extract normalize].
    - destruct (rt_rsa_priv kf usage k Hi) as [r [B [E _]]]. exists r. rewrite B, E. split; reflexivity.
    - destruct (rt_rsa_pub kf usage k Hi) as [r [B [E _]]]. exists r. rewrite B, E. split; reflexivity.
    - destruct (rt_ec_priv kf ver usage k Hi) as [r [B [E _]]]. exists r. rewrite B, E. split; reflexivity.
    - destruct (rt_ec_pub kf ver usage k Hi) as [r [B [E _]]]. exists r. rewrite B, E. split; reflexivity.
    - destruct (rt_symmetric kf alg usage v Hi) as [r [B E]]. exists r. rewrite B, E. split; reflexivity.
    - destruct (rt_secret kind v) as [r [B E]]. exists r. rewrite B, E. split; reflexivity. }
  destruct Hex as [r [B E]]. exists r, (rq_obj r). split; [exact B|]. split; [|exact E].
  apply transport_stable. eapply built_wire_stable; eauto.
Qed.

(** The generic accessors (PrivateKey(), PublicKey()) return the same key. *)
Theorem key_roundtrip_generic : forall kf ver enc usage i,
  input_ok i ->
  exists r o',
    build C kf ver usage i = Ok r
    /\ transport ver enc (rq_obj r) = Ok o'
    /\ match i with
       | RegRsaPriv k => pl_private_key C (get_of o') = Ok (PrivRsa (precompute C k))
       | RegEcPriv k => pl_private_key C (get_of o') = Ok (PrivEc k)
       | RegRsaPub k => pl_public_key C (get_of o') = Ok (PubRsa k)
       | RegEcPub k => pl_public_key C (get_of o') = Ok (PubEc k)
       | _ => True
       end.
Proof.
  intros kf ver enc usage i Hi.
  assert (Hex : exists r, build C kf ver usage i = Ok r /\
     match i with
     | RegRsaPriv k => pl_private_key C (get_of (rq_obj r)) = Ok (PrivRsa (precompute C k))
     | RegEcPriv k => pl_private_key C (get_of (rq_obj r)) = Ok (PrivEc k)
     | RegRsaPub k => pl_public_key C (get_of (rq_obj r)) = Ok (PubRsa k)
     | RegEcPub k => pl_public_key C (get_of (rq_obj r)) = Ok (PubEc k)
     | _ => True
     end).
  { destruct i as [k|k|k|k|alg v|kind v]; cbn [build].
    - destruct (rt_rsa_priv kf usage k Hi) as [r [B [_ E]]]. exists r. split; assumption.
    - destruct (rt_rsa_pub kf usage k Hi) as [r [B [_ E]]]. exists r. split; assumption.
    - destruct (rt_ec_priv kf ver usage k Hi) as [r [B [_ E]]]. exists r. split; assumption.
    - destruct (rt_ec_pub kf ver usage k Hi) as [r [B [_ E]]]. exists r. split; assumption.
    - destruct (rt_symmetric kf alg usage v Hi) as [r [B _]]. exists r. split; [assumption|exact I].
    - destruct (rt_secret kind v) as [r [B _]]. exists r. split; [assumption|exact I]. }
  destruct Hex as [r [B E]]. exists r, (rq_obj r). split; [exact B|]. split; [|exact E].
  apply transport_stable. eapply built_wire_stable; eauto.
Qed.

(** "Mathematically equal": N, E, D and the primes of the extracted RSA private key are those of
    the registered one; a registered key that carries its CRT values is returned exactly. *)
Corollary rsa_private_core : forall k, rsa_core (precompute C k) = rsa_core k.
Proof. exact (law_pre_core _ _ _ _ _ L). Qed.

Corollary rsa_private_exact : forall k,
  rk_dp k <> None -> rk_dq k <> None -> rk_qinv k <> None -> normalize (RegRsaPriv k) = RegRsaPriv k.
Proof. intros k H1 H2 H3. cbn. rewrite (law_pre_keep _ _ _ _ _ L k H1 H2 H3). reflexivity. Qed.

End Roundtrip.

(** The PEM accessors are the generic accessor followed by the marshaller and pem.Encode. *)
Lemma pem_private_factors : forall C g k b,
  pl_private_key C g = Ok k -> marshal_pkcs8 C k = Ok b ->
  pl_pem_private_key C g = Ok (pem_encode C str_PRIVATE_KEY b).
Proof.
  intros C g k b. unfold pl_private_key, pl_pem_private_key.
  destruct (negb _); [discriminate|]. destruct (gr_obj g) as [[]|]; try discriminate.
  intros H M. unfold priv_pem. rewrite H. cbn. rewrite M. reflexivity.
Qed.

Lemma pem_public_factors : forall C g k b,
  pl_public_key C g = Ok k -> marshal_pkix C k = Some b ->
  pl_pem_public_key C g = Ok (pem_encode C str_PUBLIC_KEY b).
Proof.
  intros C g k b. unfold pl_public_key, pl_pem_public_key.
  destruct (negb _); [discriminate|]. destruct (gr_obj g) as [[]|]; try discriminate.
  intros H M. unfold pub_pem. rewrite H. cbn. rewrite M. reflexivity.
Qed.

(** * Non-vacuity: a toy instance of [crypto] that satisfies every law *)

Definition toy_oz (o : option Z) : list Z := match o with Some z => [1; z] | None => [0; 0] end.
Definition toy_un (f z : Z) : option Z := if f =? 1 then Some z else None.

Definition toy_rsa_enc (k : rsa_priv) : bytes :=
  match rk_primes k with
  | [Some p; Some q] => [rk_n k; rk_e k; rk_d k; p; q] ++ toy_oz (rk_dp k) ++ toy_oz (rk_dq k) ++ toy_oz (rk_qinv k)
  | _ => []
  end.
Definition toy_rsa_dec (b : bytes) : option rsa_priv :=
  match b with
  | [n; e; d; p; q; f1; dp; f2; dq; f3; qi] =>
      if ((f1 =? 0) || (f1 =? 1)) && ((f2 =? 0) || (f2 =? 1)) && ((f3 =? 0) || (f3 =? 1))
      then Some (mk_rsa_priv n e d [Some p; Some q] (toy_un f1 dp) (toy_un f2 dq) (toy_un f3 qi))
      else None
  | _ => None
  end.
Definition toy_curve_code (c : gocurve) : Z :=
  match c with P224 => 0 | P256 => 1 | P384 => 2 | P521 => 3 | OtherCurve => 4 end.
Definition toy_curve_of (z : Z) : gocurve :=
  if z =? 0 then P224 else if z =? 1 then P256 else if z =? 2 then P384 else if z =? 3 then P521 else OtherCurve.
Definition toy_order : Z := 1000.
Definition toy_ec_enc (k : ec_priv) : bytes := [toy_curve_code (ek_curve k); ek_d k; ek_x k; ek_y k].
Definition toy_ec_dec (b : bytes) : option ec_priv :=
  match b with
  | [c; d; x; y] => if (0 <? d) && (d <? toy_order) then Some (mk_ec_priv (toy_curve_of c) d x y) else None
  | _ => None
  end.

Definition toy : crypto :=
  mk_crypto
    toy_rsa_enc toy_rsa_dec
    (fun k => [rp_n k; rp_e k])
    (fun b => match b with [n; e] => Some (mk_rsa_pub n e) | _ => None end)
    (fun k => match k with
              | PrivRsa r => Ok (100 :: toy_rsa_enc r)
              | PrivEc e => if (0 <? ek_d e) && (ek_d e <? toy_order) then Ok (101 :: toy_ec_enc e) else Panic
              | PrivOther => Err
              end)
    (fun b => match b with
              | t :: r => if t =? 100 then option_map PrivRsa (toy_rsa_dec r)
                          else if t =? 101 then option_map PrivEc (toy_ec_dec r) else None
              | [] => None
              end)
    (fun k => match k with
              | PubRsa r => Some [200; rp_n r; rp_e r]
              | PubEc e => Some [201; toy_curve_code (ep_curve e); ep_x e; ep_y e]
              | PubOther => None
              end)
    (fun b => match b with
              | [t; n; e] => if t =? 200 then Some (PubRsa (mk_rsa_pub n e)) else None
              | [t; c; x; y] => if t =? 201 then Some (PubEc (mk_ec_pub (toy_curve_of c) x y)) else None
              | _ => None
              end)
    (fun k => Some (toy_ec_enc k))
    toy_ec_dec
    (fun c x y => Some [4; x; y])
    (fun c b => match b with [t; x; y] => if t =? 4 then Some (x, y) else None | _ => None end)
    (fun c b => None)
    (fun c d => (d, d + 1))
    (fun c => toy_order)
    (fun k => k)
    (fun ty b => ty ++ 0 :: b)
    (fun b => Some b).

Definition toy_vrsa (k : rsa_priv) : Prop := exists p q, rk_primes k = [Some p; Some q].
Definition toy_vec (k : ec_priv) : Prop :=
  0 < ek_d k < toy_order /\ ek_x k = ek_d k /\ ek_y k = ek_d k + 1 /\ ek_curve k <> OtherCurve.
Definition toy_vecpub (k : ec_pub) : Prop := ep_curve k <> OtherCurve.

Lemma toy_un_oz : forall o, match toy_oz o with [f; z] => toy_un f z = o /\ ((f =? 0) || (f =? 1)) = true | _ => False end.
Proof. destruct o; cbn; auto. Qed.

Lemma toy_rsa_roundtrip : forall k, toy_vrsa k -> toy_rsa_dec (toy_rsa_enc k) = Some k.
Proof.
  intros k [p [q H]]. unfold toy_rsa_enc. rewrite H. destruct k as [n e d pr dp dq qi]. cbn in *. subst pr.
  destruct dp, dq, qi; reflexivity.
Qed.

Lemma toy_curve_roundtrip : forall c, toy_curve_of (toy_curve_code c) = c.
Proof. destruct c; reflexivity. Qed.

Lemma toy_ec_roundtrip : forall k, 0 < ek_d k < toy_order -> toy_ec_dec (toy_ec_enc k) = Some k.
Proof.
  intros k H. unfold toy_ec_enc, toy_ec_dec.
  assert (G : (0 <? ek_d k) && (ek_d k <? toy_order) = true) by (apply andb_true_iff; split; apply Z.ltb_lt; lia).
  rewrite G, toy_curve_roundtrip. destruct k; reflexivity.
Qed.

Lemma toy_laws : crypto_laws toy toy_vrsa (fun _ => True) toy_vec toy_vecpub.
Proof.
  constructor.
  - intros k H. exact (toy_rsa_roundtrip k H).
  - intros k H. eexists. split; [reflexivity|]. cbn. rewrite (toy_rsa_roundtrip k H). reflexivity.
  - intros k _. destruct k; reflexivity.
  - intros k _. eexists. split; [reflexivity|]. destruct k; reflexivity.
  - intros k [H _]. eexists. split; [reflexivity|]. exact (toy_ec_roundtrip k H).
  - intros k [H _].
    change (marshal_pkcs8 toy (PrivEc k)) with
      (if (0 <? ek_d k) && (ek_d k <? toy_order) then Ok (101 :: toy_ec_enc k) else @Panic bytes).
    assert (G : (0 <? ek_d k) && (ek_d k <? toy_order) = true) by (apply andb_true_iff; split; apply Z.ltb_lt; lia).
    rewrite G. eexists. split; [reflexivity|].
    change (parse_pkcs8 toy (101 :: toy_ec_enc k)) with (option_map PrivEc (toy_ec_dec (toy_ec_enc k))).
    rewrite (toy_ec_roundtrip k H). reflexivity.
  - intros k _. eexists. split; [reflexivity|]. cbn. rewrite toy_curve_roundtrip. destruct k; reflexivity.
  - intros k _. eexists. split; reflexivity.
  - intros k [H [Hx [Hy _]]]. split; [exact H|]. cbn. rewrite Hx, Hy. reflexivity.
  - intros; reflexivity.
  - intros; reflexivity.
Qed.

Lemma toy_ec_dec_in_range : forall b k, toy_ec_dec b = Some k -> 0 < ek_d k < toy_order.
Proof.
  intros b k. unfold toy_ec_dec. destruct b as [|c [|d [|x [|y [|? ?]]]]]; try discriminate.
  destruct ((0 <? d) && (d <? toy_order)) eqn:G; [|discriminate]. intros H. injection H as <-. cbn.
  apply andb_true_iff in G. destruct G as [G1 G2]. apply Z.ltb_lt in G1, G2. lia.
Qed.

Lemma toy_safe : crypto_safe toy.
Proof.
  constructor.
  - intros; discriminate.
  - discriminate.
  - intros k H. cbn in *.
    assert (G : (0 <? ek_d k) && (ek_d k <? toy_order) = true) by (apply andb_true_iff; split; apply Z.ltb_lt; lia).
    rewrite G. discriminate.
  - intros b k. cbn. destruct b as [|t r]; [discriminate|].
    destruct (t =? 100). { destruct (toy_rsa_dec r); discriminate. }
    destruct (t =? 101); [|discriminate].
    destruct (toy_ec_dec r) as [k'|] eqn:E; [|discriminate]. intros H. injection H as <-.
    exact (toy_ec_dec_in_range _ _ E).
  - intros b k H. exact (toy_ec_dec_in_range _ _ H).
Qed.

Definition toy_rsa_key : rsa_priv := mk_rsa_priv 3233 17 2753 [Some 61; Some 53] (Some 53) (Some 49) (Some 38).
Definition toy_ec_key : ec_priv := mk_ec_priv P384 123 123 124.

Lemma toy_inputs_ok :
  input_ok toy_vrsa (fun _ => True) toy_vec toy_vecpub (RegRsaPriv toy_rsa_key)
  /\ input_ok toy_vrsa (fun _ => True) toy_vec toy_vecpub (RegRsaPub (mk_rsa_pub 3233 17))
  /\ input_ok toy_vrsa (fun _ => True) toy_vec toy_vecpub (RegEcPriv toy_ec_key)
  /\ input_ok toy_vrsa (fun _ => True) toy_vec toy_vecpub (RegEcPub (mk_ec_pub P521 5 6))
  /\ input_ok toy_vrsa (fun _ => True) toy_vec toy_vecpub (RegSym 3 [1; 2; 3])
  /\ input_ok toy_vrsa (fun _ => True) toy_vec toy_vecpub (RegSecret 1 [4; 5]).
Proof.
  repeat split; try (cbn; discriminate); try reflexivity; try (cbn; lia).
  - exists 61, 53. reflexivity.
  - exists 61, 53. reflexivity.
Qed.

Lemma toy_roundtrip_computes :
  (do r <- build toy KF_Transparent (1, 4) 12 (RegRsaPriv toy_rsa_key) ;; extract toy (RegRsaPriv toy_rsa_key) (get_of (rq_obj r)))
    = Ok (RegRsaPriv toy_rsa_key)
  /\ (do r <- build toy KF_Transparent (1, 2) 1 (RegEcPriv toy_ec_key) ;; extract toy (RegEcPriv toy_ec_key) (get_of (rq_obj r)))
    = Ok (RegEcPriv toy_ec_key)
  /\ (do r <- build toy KF_PKCS8 (1, 2) 1 (RegEcPriv toy_ec_key) ;; extract toy (RegEcPriv toy_ec_key) (get_of (rq_obj r)))
    = Ok (RegEcPriv toy_ec_key).
Proof. repeat split; vm_compute; reflexivity. Qed.

(** * The defects of the pinned tree, for the record: the accessors as they were before the
    [fix:] commits panic on decodable objects. *)

(** KeyBlock.GetMaterial as of the pinned tree: [kb.KeyValue.Plain] without a nil check *)
Definition get_material_pinned (kb : key_block) : res key_material :=
  match kb_value kb with
  | None => Panic
  | Some kv => match kv_plain kv with None => Err | Some p => Ok (pk_material p) end
  end.
(** the transparent branch of PublicKey.ECDSA as of the pinned tree: [tkey.RecommendedCurve]
    without a nil check *)
Definition pub_ecdsa_transparent_pinned (tkey : option (Z * bytes)) : res unit :=
  match tkey with None => Panic | Some _ => Ok tt end.

Lemma pinned_get_material_refuted :
  decodable_kb (mk_kb KFT_Raw 0 None 0 0 false) = true
  /\ get_material_pinned (mk_kb KFT_Raw 0 None 0 0 false) = Panic.
Proof. split; reflexivity. Qed.

Lemma pinned_pub_ecdsa_refuted :
  let kb := mk_kb KFT_TECPublicKey 0 (Some (mk_kv None (Some (mk_pkv km_empty [])))) 0 0 false in
  decodable_kb kb = true /\ pub_ecdsa_transparent_pinned (km_ec_pub km_empty) = Panic.
Proof. split; reflexivity. Qed.

(** * Where the builders can panic: only on an RSA private key with fewer than two primes in the
    transparent format, or inside Go's crypto (elliptic.Marshal on a point off the curve,
    MarshalPKCS8PrivateKey on an oversized scalar).  In particular the
    [panic("Unexpected key format")] defaults are unreachable for every selector value. *)
Theorem build_panic_only_if : forall C kf ver usage i,
  build C kf ver usage i = Panic ->
  match i with
  | RegRsaPriv k => (length (rk_primes k) < 2)%nat \/ marshal_pkcs8 C (PrivRsa k) = Panic
  | RegEcPriv k => marshal_pkcs8 C (PrivEc k) = Panic
  | RegEcPub k => ec_marshal C (ep_curve k) (ep_x k) (ep_y k) = None
  | _ => False
  end.
Proof.
  intros C kf ver usage i H. destruct i as [k|k|k|k|alg v|kind v]; cbn [build] in H.
  - unfold reg_rsa_priv in H. destruct (_ || _); [discriminate|].
    destruct (rsa_priv_format_cases kf) as [F|[F|F]]; rewrite F in H.
    + discriminate.
    + change (KF_PKCS8 =? KF_PKCS1) with false in H. change (KF_PKCS8 =? KF_PKCS8) with true in H. cbv iota in H.
      destruct (marshal_pkcs8 C (PrivRsa k)); cbn in H; try discriminate. right; reflexivity.
    + change (KF_Transparent =? KF_PKCS1) with false in H. change (KF_Transparent =? KF_PKCS8) with false in H.
      change (KF_Transparent =? KF_Transparent) with true in H. cbv iota in H.
      left. destruct (rk_primes k) as [|p [|q rest]]; cbn; try lia. cbn in H. discriminate.
  - unfold reg_rsa_pub in H. destruct (_ || _); [discriminate|].
    destruct (rsa_pub_format_cases kf) as [F|[F|F]]; rewrite F in H.
    + discriminate.
    + change (KF_X509 =? KF_PKCS1) with false in H. change (KF_X509 =? KF_X509) with true in H. cbv iota in H.
      destruct (marshal_pkix C (PubRsa k)); discriminate.
    + discriminate.
  - unfold reg_ec_priv in H. destruct (curve_to_kmip (ek_curve k)) as [[bl crv]|]; [|discriminate].
    destruct (ecdsa_priv_format_cases kf) as [F|[F|F]]; rewrite F in H.
    + change (KF_SEC1 =? KF_SEC1) with true in H. cbv iota in H. destruct (marshal_sec1 C k); discriminate.
    + change (KF_PKCS8 =? KF_SEC1) with false in H. change (KF_PKCS8 =? KF_PKCS8) with true in H. cbv iota in H.
      destruct (marshal_pkcs8 C (PrivEc k)); cbn in H; try discriminate. reflexivity.
    + change (KF_Transparent =? KF_SEC1) with false in H. change (KF_Transparent =? KF_PKCS8) with false in H.
      change (KF_Transparent =? KF_Transparent) with true in H. cbv iota in H.
      destruct (ver_ge ver V1_3); discriminate.
  - unfold reg_ec_pub in H. destruct (curve_to_kmip (ep_curve k)) as [[bl crv]|]; [|discriminate].
    destruct (ecdsa_pub_format_cases kf) as [F|F]; rewrite F in H.
    + change (KF_X509 =? KF_X509) with true in H. cbv iota in H. destruct (marshal_pkix C (PubEc k)); discriminate.
    + change (KF_Transparent =? KF_X509) with false in H. change (KF_Transparent =? KF_Transparent) with true in H.
      cbv iota in H. destruct (ec_marshal C (ep_curve k) (ep_x k) (ep_y k)); [|reflexivity].
      destruct (ver_ge ver V1_3); discriminate.
  - unfold reg_symmetric in H. destruct (_ >? _); [discriminate|].
    destruct (symmetric_format_cases kf) as [F|F]; rewrite F in H; discriminate.
  - discriminate.
Qed.

(** The DER entry points are the parser followed by the typed builder: registering the PKCS#1
    encoding of a key is registering the key (after Precompute). *)
Lemma der_entry_points : forall C vrsa vrsapub vec vecpub, crypto_laws C vrsa vrsapub vec vecpub ->
  (forall kf usage k, vrsa k ->
     reg_pkcs1_priv_der C kf usage (marshal_pkcs1_priv C k) = reg_rsa_priv C kf usage (precompute C k))
  /\ (forall kf usage k, vrsapub k ->
     reg_pkcs1_pub_der C kf usage (marshal_pkcs1_pub C k) = reg_rsa_pub C kf usage k)
  /\ (forall kf ver usage k b, vec k -> marshal_sec1 C k = Some b -> parse_sec1 C b = Some k ->
     reg_sec1_der C kf ver usage b = reg_ec_priv C kf ver usage k).
Proof.
  intros C vrsa vrsapub vec vecpub L. repeat split.
  - intros kf usage k H. unfold reg_pkcs1_priv_der. rewrite (law_pkcs1_priv _ _ _ _ _ L k H). reflexivity.
  - intros kf usage k H. unfold reg_pkcs1_pub_der. rewrite (law_pkcs1_pub _ _ _ _ _ L k H). reflexivity.
  - intros kf ver usage k b _ _ P. unfold reg_sec1_der. rewrite P. reflexivity.
Qed.
