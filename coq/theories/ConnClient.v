(** Model of the KMIP client connection machinery (properties C10, C11).

    Transcribes, as a labelled transition system, kmipclient/conn.go
    ([newConn], [conn.Close], [terminate], [checkAvailable], [readloop], [writeloop],
    [send], [recv], [roundtrip]) and, from kmipclient/client.go, [Client.doRountrip],
    [Client.reconnect] and [Client.Close], AFTER the repairs made on branch ag_F.

    Granularity: one transition per channel operation, atomic operation, context call,
    I/O call and [select] choice.  A [select] with several ready cases offers each of them.
    The environment (callers arriving, contexts being cancelled, Client.Close being called
    by another goroutine, the dialer, the transport and the scripted server) is
    nondeterministic.  Go panics are explicit program points ([UPanic], [CPanic]).

    The model is generic in the type [T] of the ghost identifiers carried by requests and
    responses and in the type [K] of the call counter:
      - concrete instance:  T = K = nat, a request carries the number of its call;
      - abstract instance:  T = bool ("belongs to the call that holds the lock"), K = unit,
        which has finitely many states and is explored by the certificates of Lts.v.
    No proofs in this file (ConnClientProofs.v). *)
From Coq Require Import List Bool PArith Arith ZArith.
Import ListNotations.

(** * Errors *)

(** Error values, as far as any code of the client distinguishes them. *)
Inductive err :=
| ErRetry      (* io.EOF or io.ErrClosedPipe: the two errors doRountrip retries on *)
| ErFatal.     (* anything else, never retried: ctx.Err() of the caller's context, net.ErrClosed,
                  a dialer error, ECONNRESET, EPIPE, io.ErrShortWrite, io.ErrUnexpectedEOF, timeouts ... *)

(** Failure kinds of the transport. *)
Inductive kind :=
| KRetry       (* io.EOF (end of stream, also after a partial message) or io.ErrClosedPipe *)
| KNetClosed   (* an error wrapping net.ErrClosed *)
| KOther.      (* connection reset, broken pipe, short write, unexpected EOF, timeout, ... *)

(** doRountrip: [errors.Is(err, io.EOF) || errors.Is(err, io.ErrClosedPipe)] *)
Definition retryable (e : err) : bool :=
  match e with ErRetry => true | ErFatal => false end.

(** readloop / writeloop, on a transport error:
    [if errors.Is(err, net.ErrClosed) { err = io.ErrClosedPipe }] *)
Definition loop_err (k : kind) : err :=
  match k with KRetry => ErRetry | KNetClosed => ErRetry | KOther => ErFatal end.

(** * Program counters *)

(** conn.readloop *)
Inductive rlpc :=
| RlTop      (* for !c.closed.Load() *)
| RlRecv     (* inside c.stream.Recv(&msg) *)
| RlTerm1    (* terminate(err): c.cancel(err) *)
| RlTerm2    (* terminate(err): c.stream.Close() *)
| RlOffer    (* select { case c.rx <- resp: case <-c.ctx.Done(): } *)
| RlCloseRx  (* deferred close(c.rx) *)
| RlDone.

(** conn.writeloop *)
Inductive wlpc :=
| WlTop      (* for !c.closed.Load() *)
| WlSelect   (* select { case req := <-tx: case <-c.ctx.Done(): } *)
| WlSend     (* inside c.stream.Send(req.msg) *)
| WlTerm1    (* terminate(err): c.cancel(err) *)
| WlTerm2    (* terminate(err): c.stream.Close() *)
| WlReport   (* req.err <- err; close(req.err) *)
| WlAck      (* close(req.err) after a successful write *)
| WlDone.

(** Client.Close called by some other goroutine *)
Inductive clpc :=
| CIdle
| C0         (* c.closed.Store(true) *)
| C1         (* conn := c.conn; if conn != nil *)
| C2         (* conn.Close(): c.closed.Swap(true) *)
| C3         (* terminate(net.ErrClosed): c.cancel *)
| C4         (* terminate: c.stream.Close(); Close returns *)
| CPanic.    (* nil dereference *)

(** The caller that holds Client.lock: doRountrip with reconnect, conn.roundtrip,
    send, recv, conn.Close and terminate inlined. *)
Inductive upc :=
| UIdle      (* nobody holds the lock *)
| U0         (* doRountrip: if c.closed.Load() *)
| U1         (* doRountrip: if c.conn == nil || c.conn.ctx.Err() != nil *)
| R1         (* reconnect: c.conn.Close(): closed.Swap(true) *)
| R2a        (* reconnect: c.conn.Close(): terminate: cancel *)
| R2b        (* reconnect: c.conn.Close(): terminate: stream.Close *)
| R3         (* reconnect: c.conn = nil *)
| R4         (* reconnect: if c.closed.Load() *)
| R5         (* reconnect: c.dialer(ctx) *)
| R6         (* reconnect: c.conn = newConn(stream) *)
| R7         (* reconnect: if c.closed.Load() (after dialing) *)
| R8a        (* reconnect: c.conn.Close() of the new connection: Swap *)
| R8b        (*   cancel *)
| R8c        (*   stream.Close *)
| S0         (* send: checkAvailable: c.closed.Load() *)
| S1         (* send: checkAvailable: select with default; then tx := c.tx.Load(); verifYield("cli.send.loaded") *)
| S3         (* send: outer select *)
| S4         (* send: inner select; on success roundtrip goes on with verifYield("cli.roundtrip.sent") *)
| S5a        (* send: inner select, <-ctx.Done(): terminate: cancel *)
| S5b        (*   terminate: stream.Close *)
| V0         (* recv: checkAvailable: c.closed.Load() *)
| V1         (* recv: checkAvailable: select with default *)
| VTa        (* recv: availability check failed: terminate: cancel *)
| VTb        (*   terminate: stream.Close *)
| V2         (* recv: select *)
| V3a        (* recv: <-ctx.Done(): terminate: cancel *)
| V3b        (*   terminate: stream.Close *)
| URetOk     (* doRountrip returns the response *)
| URetErr    (* doRountrip returns an error *)
| UPanic.    (* nil dereference of c.conn *)

(** The per-request error channel [errCh] (buffer of one). *)
Inductive ech := ENone | EVal (e : err) | ENil.

(** * Labels *)

Inductive comp := CU | CRl | CWl | CCl.

Inductive sact :=
| SReply                    (* the server replies to the pending request *)
| SFault (k : kind)         (* no reply (or part of one): the client's pending read fails with k *)
| SIdleFault (k : kind).    (* the client's pending read fails with k while no request is outstanding
                               (also: right after a reply, "server closes after replying") *)

Inductive wact :=
| WrOk                      (* the whole request reaches the server *)
| WrFail (k : kind)         (* the write fails (nothing / part of the request written) *)
| WrClosed.                 (* the stream has been closed locally: net.ErrClosed *)

Inductive label :=
| LTau (who : comp)         (* internal step of a goroutine *)
| LNewCall (pre : bool)     (* the next caller obtains the lock; [pre]: its context is already done *)
| LCancel                   (* the caller's context is cancelled / times out *)
| LCloseStart               (* some goroutine calls Client.Close() *)
| LHookLoaded               (* the caller passes verifYield("cli.send.loaded") *)
| LHookSent                 (* the caller passes verifYield("cli.roundtrip.sent") *)
| LDial (ok : bool)         (* the dialer returns *)
| LDrop                     (* c.conn = nil: the old connection is abandoned *)
| LWrite (w : wact)         (* stream.Send returns in writeloop *)
| LSrv (a : sact)           (* the scripted server / the network acts *)
| LRead                     (* stream.Recv returns in readloop *)
| LRet (ok : bool).         (* doRountrip returns *)

(** * States *)

Section Model.
  Variable T : Type.          (* ghost identifiers *)
  Variable K : Type.          (* call counter *)
  Variable tag_of : K -> T.   (* identifier carried by the requests of call k *)
  Variable is_cur : K -> T -> bool.  (* does this identifier belong to call k *)
  Variable retag : T -> T.    (* what happens to identifiers in flight when a new call starts *)
  Variable next : K -> K.

  (** One [conn] object with its two goroutines and its transport. *)
  Record conn := {
    rl : rlpc; rl_err : err; rl_msg : option T;
    wl : wlpc; wl_err : err; wl_msg : option T;
    cctx : option err;       (* c.ctx: None = live, Some e = cancelled with cause e *)
    cclosed : bool;          (* c.closed *)
    sclosed : bool;          (* c.stream closed locally *)
    rxclosed : bool;         (* close(c.rx) done *)
    errch : ech;             (* errCh of the request handed to writeloop *)
    srv_req : option T;      (* request received by the server, not yet answered *)
    cwire : option T;        (* a complete response written by the server, not yet read by readloop *)
    ovf : bool               (* ghost: a second request was written while one was outstanding *)
  }.

  Record client := {
    u : upc;
    uctx : bool;             (* the caller's ctx is done *)
    retry : nat;
    rphase : bool;           (* reconnect called from the retry loop (true) or before it (false) *)
    uerr : err;
    got : option T;          (* response received by recv *)
    ntx : nat;               (* ghost: requests of the current call received by the server (saturates at 5) *)
    ccl : bool;              (* Client.closed *)
    hasconn : bool;          (* c.conn != nil *)
    cn : conn;
    cl : clpc;
    after_close : bool;      (* ghost: Client.Close() had already set c.closed when the current call started *)
    callno : K
  }.

  (** newConn *)
  Definition fresh_conn : conn :=
    {| rl := RlTop; rl_err := ErFatal; rl_msg := None; wl := WlTop; wl_err := ErFatal; wl_msg := None;
       cctx := None; cclosed := false; sclosed := false; rxclosed := false; errch := ENone;
       srv_req := None; cwire := None; ovf := false |}.

  Definition upd_rl (c : conn) pc e m : conn :=
    {| rl := pc; rl_err := e; rl_msg := m; wl := wl c; wl_err := wl_err c; wl_msg := wl_msg c;
       cctx := cctx c; cclosed := cclosed c; sclosed := sclosed c; rxclosed := rxclosed c; errch := errch c;
       srv_req := srv_req c; cwire := cwire c; ovf := ovf c |}.
  Definition upd_wl (c : conn) pc e m : conn :=
    {| rl := rl c; rl_err := rl_err c; rl_msg := rl_msg c; wl := pc; wl_err := e; wl_msg := m;
       cctx := cctx c; cclosed := cclosed c; sclosed := sclosed c; rxclosed := rxclosed c; errch := errch c;
       srv_req := srv_req c; cwire := cwire c; ovf := ovf c |}.
  Definition set_cctx (c : conn) x : conn :=
    {| rl := rl c; rl_err := rl_err c; rl_msg := rl_msg c; wl := wl c; wl_err := wl_err c; wl_msg := wl_msg c;
       cctx := x; cclosed := cclosed c; sclosed := sclosed c; rxclosed := rxclosed c; errch := errch c;
       srv_req := srv_req c; cwire := cwire c; ovf := ovf c |}.
  Definition set_cclosed (c : conn) x : conn :=
    {| rl := rl c; rl_err := rl_err c; rl_msg := rl_msg c; wl := wl c; wl_err := wl_err c; wl_msg := wl_msg c;
       cctx := cctx c; cclosed := x; sclosed := sclosed c; rxclosed := rxclosed c; errch := errch c;
       srv_req := srv_req c; cwire := cwire c; ovf := ovf c |}.
  (** c.stream.Close(): from then on reads and writes fail locally, whatever the peer holds or does
      is out of reach (the server side of a locally closed stream is forgotten). *)
  Definition close_stream (c : conn) : conn :=
    {| rl := rl c; rl_err := rl_err c; rl_msg := rl_msg c; wl := wl c; wl_err := wl_err c; wl_msg := wl_msg c;
       cctx := cctx c; cclosed := cclosed c; sclosed := true; rxclosed := rxclosed c; errch := errch c;
       srv_req := None; cwire := None; ovf := ovf c |}.
  Definition set_rxclosed (c : conn) x : conn :=
    {| rl := rl c; rl_err := rl_err c; rl_msg := rl_msg c; wl := wl c; wl_err := wl_err c; wl_msg := wl_msg c;
       cctx := cctx c; cclosed := cclosed c; sclosed := sclosed c; rxclosed := x; errch := errch c;
       srv_req := srv_req c; cwire := cwire c; ovf := ovf c |}.
  Definition set_errch (c : conn) x : conn :=
    {| rl := rl c; rl_err := rl_err c; rl_msg := rl_msg c; wl := wl c; wl_err := wl_err c; wl_msg := wl_msg c;
       cctx := cctx c; cclosed := cclosed c; sclosed := sclosed c; rxclosed := rxclosed c; errch := x;
       srv_req := srv_req c; cwire := cwire c; ovf := ovf c |}.
  Definition set_srv (c : conn) r w o : conn :=
    {| rl := rl c; rl_err := rl_err c; rl_msg := rl_msg c; wl := wl c; wl_err := wl_err c; wl_msg := wl_msg c;
       cctx := cctx c; cclosed := cclosed c; sclosed := sclosed c; rxclosed := rxclosed c; errch := errch c;
       srv_req := r; cwire := w; ovf := o |}.

  (** context.WithCancelCause: the first cancellation fixes the cause. *)
  Definition cancel (e : err) (c : conn) : conn :=
    match cctx c with None => set_cctx c (Some e) | Some _ => c end.

  Definition is_some {A} (o : option A) : bool := match o with Some _ => true | None => false end.

  (** ** conn.readloop *)
  Definition rl_step (c : conn) : list (label * conn) :=
    match rl c with
    | RlTop => [(LTau CRl, if cclosed c then upd_rl c RlCloseRx ErFatal None else upd_rl c RlRecv ErFatal None)]
    | RlRecv =>
      (* c.stream.Recv(&msg): a locally closed stream fails with net.ErrClosed; otherwise a complete
         response if the transport holds one; blocks while it holds nothing (failures injected by
         the environment: see [srv_step]) *)
      if sclosed c then [(LRead, upd_rl c RlTerm1 (loop_err KNetClosed) None)]
      else match cwire c with
           | None => []
           | Some t => [(LRead, set_srv (upd_rl c RlOffer ErFatal (Some t)) (srv_req c) None (ovf c))]
           end
    | RlTerm1 => [(LTau CRl, upd_rl (cancel (rl_err c) c) RlTerm2 ErFatal None)]
    | RlTerm2 => [(LTau CRl, upd_rl (close_stream c) RlCloseRx ErFatal None)]
    | RlOffer =>
      (* the [c.rx <- resp] case is taken jointly with the caller's recv (see [ustep] V2) *)
      match cctx c with Some _ => [(LTau CRl, upd_rl c RlCloseRx ErFatal None)] | None => [] end
    | RlCloseRx => [(LTau CRl, upd_rl (set_rxclosed c true) RlDone ErFatal None)]
    | RlDone => []
    end.

  Definition kinds := [KRetry; KNetClosed; KOther].

  (** ** conn.writeloop.  The boolean says that a request of the current call reached the server. *)
  Definition srv_receive (c : conn) (m : option T) : conn :=
    match m with
    | None => c
    | Some t =>
      match srv_req c, cwire c with
      | None, None => set_srv c (Some t) None (ovf c)
      | _, _ => set_srv c (srv_req c) (cwire c) true
      end
    end.

  Definition wl_step (cur : T -> bool) (waiting : bool) (c : conn) : list (label * conn * bool) :=
    match wl c with
    | WlTop => [(LTau CWl, if cclosed c then upd_wl c WlDone ErFatal None else upd_wl c WlSelect ErFatal None, false)]
    | WlSelect =>
      (* the [req := <-tx] case is taken jointly with the caller's send (see [ustep] S3) *)
      match cctx c with Some _ => [(LTau CWl, upd_wl c WlDone ErFatal None, false)] | None => [] end
    | WlSend =>
      if sclosed c then [(LWrite WrClosed, upd_wl c WlTerm1 (loop_err KNetClosed) None, false)]
      else
        (LWrite WrOk, upd_wl (srv_receive c (wl_msg c)) WlAck ErFatal None,
         match wl_msg c with Some t => cur t | None => false end)
        :: map (fun k => (LWrite (WrFail k), upd_wl c WlTerm1 (loop_err k) None, false)) kinds
    | WlTerm1 => [(LTau CWl, upd_wl (cancel (wl_err c) c) WlTerm2 (wl_err c) None, false)]
    | WlTerm2 => [(LTau CWl, upd_wl (close_stream c) WlReport (wl_err c) None, false)]
    | WlReport =>
      (* req.err <- err (buffer of one, fresh channel: never blocks); close(req.err).
         [waiting]: the sender is still in the inner select of send; otherwise nobody will ever
         look at that channel again and its content is forgotten. *)
      [(LTau CWl, upd_wl (if waiting then set_errch c (EVal (wl_err c)) else c) WlDone ErFatal None, false)]
    | WlAck => [(LTau CWl, upd_wl (if waiting then set_errch c ENil else c) WlTop ErFatal None, false)]
    | WlDone => []
    end.

  (** ** The scripted server and the network *)
  Definition srv_step (c : conn) : list (label * conn) :=
    (* the server answers the outstanding request *)
    match srv_req c, cwire c with
    | Some t, None => [(LSrv SReply, set_srv c None (Some t) (ovf c))]
    | _, _ => []
    end
    (* the read in which readloop is blocked fails (a failure that occurs earlier is noticed there) *)
    ++ match rl c, cwire c with
       | RlRecv, None =>
         if sclosed c then []
         else map (fun k => (LSrv (match srv_req c with Some _ => SFault k | None => SIdleFault k end),
                             set_srv (upd_rl c RlTerm1 (loop_err k) None) None None (ovf c))) kinds
       | _, _ => []
       end.

  (** ** conn.Close() as executed by Client.Close (pcs C2..C4) *)
  Definition cl_conn_step (pc : clpc) (c : conn) : list (clpc * conn) :=
    match pc with
    | C2 => [if cclosed c then (CIdle, c) else (C3, set_cclosed c true)]
    | C3 => [(C4, cancel ErFatal c)]
    | C4 => [(CIdle, close_stream c)]
    | _ => []
    end.

  Definition cl_on_conn (pc : clpc) : bool :=
    match pc with C2 | C3 | C4 => true | _ => false end.

  (** ** Client-level record updates *)
  Definition mk (s : client) pc (c : conn) : client :=
    {| u := pc; uctx := uctx s; retry := retry s; rphase := rphase s; uerr := uerr s; got := got s; ntx := ntx s;
       ccl := ccl s; hasconn := hasconn s; cn := c; cl := cl s; after_close := after_close s;
       callno := callno s |}.
  Definition goto (s : client) pc : client := mk s pc (cn s).
  Definition set_loop (s : client) pc r ph : client :=
    {| u := pc; uctx := uctx s; retry := r; rphase := ph; uerr := ErFatal; got := got s; ntx := ntx s;
       ccl := ccl s; hasconn := hasconn s; cn := cn s; cl := cl s; after_close := after_close s;
       callno := callno s |}.
  Definition set_uerr (s : client) e : client :=
    {| u := u s; uctx := uctx s; retry := retry s; rphase := rphase s; uerr := e; got := got s; ntx := ntx s;
       ccl := ccl s; hasconn := hasconn s; cn := cn s; cl := cl s; after_close := after_close s;
       callno := callno s |}.
  Definition set_got (s : client) g : client :=
    {| u := u s; uctx := uctx s; retry := retry s; rphase := rphase s; uerr := uerr s; got := g; ntx := ntx s;
       ccl := ccl s; hasconn := hasconn s; cn := cn s; cl := cl s; after_close := after_close s;
       callno := callno s |}.
  Definition set_uctx (s : client) b : client :=
    {| u := u s; uctx := b; retry := retry s; rphase := rphase s; uerr := uerr s; got := got s; ntx := ntx s;
       ccl := ccl s; hasconn := hasconn s; cn := cn s; cl := cl s; after_close := after_close s;
       callno := callno s |}.
  Definition set_conn (s : client) h (c : conn) : client :=
    {| u := u s; uctx := uctx s; retry := retry s; rphase := rphase s; uerr := uerr s; got := got s; ntx := ntx s;
       ccl := ccl s; hasconn := h; cn := c; cl := cl s; after_close := after_close s;
       callno := callno s |}.
  Definition set_closer (s : client) pc b : client :=
    {| u := u s; uctx := uctx s; retry := retry s; rphase := rphase s; uerr := uerr s; got := got s; ntx := ntx s;
       ccl := b; hasconn := hasconn s; cn := cn s; cl := pc; after_close := after_close s;
       callno := callno s |}.
  Definition set_ntx (s : client) n : client :=
    {| u := u s; uctx := uctx s; retry := retry s; rphase := rphase s; uerr := uerr s; got := got s; ntx := n;
       ccl := ccl s; hasconn := hasconn s; cn := cn s; cl := cl s; after_close := after_close s;
       callno := callno s |}.

  (** error returned directly by doRountrip *)
  Definition fail_call (s : client) (c : conn) : client := set_loop (mk s URetErr c) URetErr 0 false.
  (** reconnect is entered: [if c.conn != nil { c.conn.Close(); c.conn = nil }] (c.conn is only
      written by the goroutine that holds the lock: a local test) *)
  Definition enter_reconnect (s : client) (ph : bool) (c : conn) : client :=
    let pc := if hasconn s then R1 else R4 in set_loop (mk s pc c) pc (retry s) ph.
  (** error returned by conn.roundtrip; doRountrip:
      [if retry <= 0 || (!errors.Is(err, io.EOF) && !errors.Is(err, io.ErrClosedPipe)) { return nil, err }]
      then reconnect (local computation) *)
  Definition fail_rt (s : client) (e : err) (c : conn) : client :=
    if (retry s =? 0) || negb (retryable e) then fail_call s c else enter_reconnect s true c.

  Definition bump (n : nat) : nat := if 5 <=? n then 5 else S n.

  (** ** The caller: doRountrip *)
  Definition ustep (s : client) : list (label * client) :=
    let c := cn s in
    match u s with
    | UIdle => []
    | U0 => [(LTau CU, if ccl s then fail_call s c else goto s U1)]
    | U1 => [(LTau CU, if negb (hasconn s) || is_some (cctx c) then enter_reconnect s false c
                       else set_loop s S0 3 false)]
    | R1 => [(LTau CU, if cclosed c then goto s R3 else mk s R2a (set_cclosed c true))]
    | R2a => [(LTau CU, mk s R2b (cancel ErFatal c))]
    | R2b => [(LTau CU, mk s R3 (close_stream c))]
    | R3 => [(LDrop, set_closer (set_conn (goto s R4) false fresh_conn)
                       (if cl_on_conn (cl s) then CIdle else cl s) (ccl s))]
    | R4 => [(LTau CU, if ccl s then fail_call s c else goto s R5)]
    | R5 => [(LDial true, goto s R6); (LDial false, fail_call s c)]
    | R6 => [(LTau CU, set_conn (goto s R7) true fresh_conn)]
    | R7 => [(LTau CU, if ccl s then goto s R8a
                       else if rphase s then set_loop s S0 (pred (retry s)) false else set_loop s S0 3 false)]
    | R8a => [(LTau CU, if cclosed c then fail_call s c else mk s R8b (set_cclosed c true))]
    | R8b => [(LTau CU, mk s R8c (cancel ErFatal c))]
    | R8c => [(LTau CU, fail_call s (close_stream c))]
    | S0 => [(LTau CU, if negb (hasconn s) then goto s UPanic
                       else if cclosed c then fail_rt s ErFatal c else goto s S1)]
    | S1 =>
      (if uctx s then [(LTau CU, fail_rt s ErFatal c)] else [])
      ++ match cctx c with Some e => [(LTau CU, fail_rt s e c)] | None => [] end
      ++ (if negb (uctx s) && negb (is_some (cctx c)) then [(LHookLoaded, goto s S3)] else [])
    | S3 =>
      (* case tx <- txMsg{msg, errCh}: rendezvous with writeloop's select *)
      match wl c with
      | WlSelect => [(LTau CU, mk s S4 (set_errch (upd_wl c WlSend ErFatal (Some (tag_of (callno s)))) ENone))]
      | _ => []
      end
      ++ match cctx c with Some e => [(LTau CU, fail_rt s e c)] | None => [] end
      ++ (if uctx s then [(LTau CU, fail_rt s ErFatal c)] else [])
    | S4 =>
      match errch c with
      | EVal e => [(LTau CU, fail_rt s e (set_errch c ENone))]
      | ENil => [(LHookSent, mk s V0 (set_errch c ENone))]
      | ENone => []
      end
      ++ match cctx c with Some e => [(LTau CU, fail_rt s e c)] | None => [] end
      ++ (if uctx s then [(LTau CU, goto s S5a)] else [])
    | S5a => [(LTau CU, mk s S5b (cancel ErRetry c))]
    | S5b => [(LTau CU, fail_rt s ErFatal (close_stream c))]
    | V0 => [(LTau CU, if cclosed c then set_uerr (goto s VTa) ErFatal else goto s V1)]
    | V1 =>
      (if uctx s then [(LTau CU, set_uerr (goto s VTa) ErFatal)] else [])
      ++ match cctx c with Some e => [(LTau CU, set_uerr (goto s VTa) e)] | None => [] end
      ++ (if negb (uctx s) && negb (is_some (cctx c)) then [(LTau CU, goto s V2)] else [])
    | VTa => [(LTau CU, mk s VTb (cancel ErRetry c))]
    | VTb => [(LTau CU, fail_rt s (uerr s) (close_stream c))]
    | V2 =>
      (* case resp, ok := <-c.rx *)
      match rl c with
      | RlOffer => [(LTau CU, set_got (mk s URetOk (upd_rl c RlTop ErFatal None)) (rl_msg c))]
      | _ => []
      end
      ++ (if rxclosed c then [(LTau CU, fail_rt s ErRetry c)] else [])
      ++ match cctx c with Some e => [(LTau CU, fail_rt s e c)] | None => [] end
      ++ (if uctx s then [(LTau CU, goto s V3a)] else [])
    | V3a => [(LTau CU, mk s V3b (cancel ErRetry c))]
    | V3b => [(LTau CU, fail_rt s ErFatal (close_stream c))]
    | URetOk | URetErr =>
      [(LRet (match u s with URetOk => true | _ => false end),
        {| u := UIdle; uctx := false; retry := 0; rphase := false; uerr := ErFatal; got := None; ntx := 0;
           ccl := ccl s; hasconn := hasconn s; cn := cn s; cl := cl s; after_close := false;
           callno := callno s |})]
    | UPanic => []
    end.

  (** ** Client.Close called by another goroutine *)
  Definition clstep (s : client) : list (label * client) :=
    match cl s with
    | CIdle => []
    | C0 => [(LTau CCl, set_closer s C1 true)]
    | C1 => [(LTau CCl, set_closer s (if hasconn s then C2 else CIdle) (ccl s))]
    | C2 | C3 | C4 =>
      if hasconn s then
        map (fun x : clpc * conn => (LTau CCl, set_closer (mk s (u s) (snd x)) (fst x) (ccl s))) (cl_conn_step (cl s) (cn s))
      else [(LTau CCl, set_closer s CPanic (ccl s))]
    | CPanic => []
    end.

  (** ** The goroutines and the transport of the current connection *)
  Definition connstep (s : client) : list (label * client) :=
    if hasconn s then
      map (fun x : label * conn => (fst x, mk s (u s) (snd x))) (rl_step (cn s))
      ++ map (fun x : label * conn * bool =>
                (fst (fst x), set_ntx (mk s (u s) (snd (fst x))) (if snd x then bump (ntx s) else ntx s)))
             (wl_step (is_cur (callno s)) (match u s with S4 => true | _ => false end) (cn s))
      ++ map (fun x : label * conn => (fst x, mk s (u s) (snd x))) (srv_step (cn s))
    else [].

  (** ** Identifiers in flight, when a new call starts *)
  Definition retag_opt (o : option T) : option T := option_map retag o.
  Definition retag_conn (c : conn) : conn :=
    {| rl := rl c; rl_err := rl_err c; rl_msg := retag_opt (rl_msg c); wl := wl c; wl_err := wl_err c;
       wl_msg := retag_opt (wl_msg c); cctx := cctx c; cclosed := cclosed c; sclosed := sclosed c;
       rxclosed := rxclosed c; errch := errch c; srv_req := retag_opt (srv_req c); cwire := retag_opt (cwire c);
       ovf := ovf c |}.

  (** ** The environment of the client *)
  Definition new_call (s : client) (pre : bool) : client :=
    {| u := U0; uctx := pre; retry := 0; rphase := false; uerr := ErFatal; got := None; ntx := 0;
       ccl := ccl s; hasconn := hasconn s; cn := retag_conn (cn s); cl := cl s; after_close := ccl s;
       callno := next (callno s) |}.

  Definition in_call (pc : upc) : bool :=
    match pc with UIdle | URetOk | URetErr | UPanic => false | _ => true end.

  Definition envstep (s : client) : list (label * client) :=
    (match u s with UIdle => [(LNewCall false, new_call s false); (LNewCall true, new_call s true)] | _ => [] end)
    ++ (if in_call (u s) && negb (uctx s) then [(LCancel, set_uctx s true)] else [])
    ++ (match cl s with CIdle => [(LCloseStart, set_closer s C0 (ccl s))] | _ => [] end).

  Definition lstep (s : client) : list (label * client) :=
    ustep s ++ clstep s ++ connstep s ++ envstep s.

  (** State right after DialContext created the client (negotiation is the first call). *)
  Definition init_client (k0 : K) : client :=
    {| u := UIdle; uctx := false; retry := 0; rphase := false; uerr := ErFatal; got := None; ntx := 0;
       ccl := false; hasconn := true; cn := fresh_conn; cl := CIdle; after_close := false; callno := k0 |}.

  (** ** A connection abandoned by reconnect: its two goroutines, its transport, and possibly a
      Client.Close() that had read the pointer before it was replaced. *)
  Definition orphan := (conn * clpc)%type.

  Definition orphan_of (s : client) : orphan :=
    (cn s, if cl_on_conn (cl s) then cl s else CIdle).

  Definition ostep (o : orphan) : list (label * orphan) :=
    let c := fst o in let pc := snd o in
    map (fun x : label * conn => (fst x, (snd x, pc))) (rl_step c)
    ++ map (fun x : label * conn * bool => (fst (fst x), (snd (fst x), pc))) (wl_step (fun _ => false) false c)
    ++ map (fun x : label * conn => (fst x, (snd x, pc))) (srv_step c)
    ++ map (fun x : clpc * conn => (LTau CCl, (snd x, fst x))) (cl_conn_step pc c).
End Model.

(** * The two instances *)

(** Concrete: a request carries the number of the call that sent it. *)
Definition cstate := client nat nat.
Definition cstep : cstate -> list (label * cstate) :=
  lstep nat nat (fun k => k) (fun k t => Nat.eqb t k) (fun t => t) S.
Definition cinit : cstate := init_client nat nat 0.

(** Abstract: [true] = "belongs to the call that holds the lock". *)
Definition astate := client bool unit.
Definition astep : astate -> list (label * astate) :=
  lstep bool unit (fun _ => true) (fun _ t => t) (fun _ => false) (fun k => k).
Definition ainit : astate := init_client bool unit tt.
Definition aostep : orphan bool -> list (label * orphan bool) := ostep bool.

(** The abstraction: identifiers are compared with the number of the current call. *)
Definition abs_opt (n : nat) (o : option nat) : option bool := option_map (fun i => Nat.eqb i n) o.
Definition abs_conn (n : nat) (c : conn nat) : conn bool :=
  {| rl := rl _ c; rl_err := rl_err _ c; rl_msg := abs_opt n (rl_msg _ c); wl := wl _ c; wl_err := wl_err _ c;
     wl_msg := abs_opt n (wl_msg _ c); cctx := cctx _ c; cclosed := cclosed _ c; sclosed := sclosed _ c;
     rxclosed := rxclosed _ c; errch := errch _ c; srv_req := abs_opt n (srv_req _ c); cwire := abs_opt n (cwire _ c);
     ovf := ovf _ c |}.
Definition abs (s : cstate) : astate :=
  let n := callno _ _ s in
  {| u := u _ _ s; uctx := uctx _ _ s; retry := retry _ _ s; rphase := rphase _ _ s; uerr := uerr _ _ s;
     got := abs_opt n (got _ _ s); ntx := ntx _ _ s; ccl := ccl _ _ s; hasconn := hasconn _ _ s;
     cn := abs_conn n (cn _ _ s); cl := cl _ _ s; after_close := after_close _ _ s; callno := tt |}.

(** * Vocabulary of the theorems (definitions only) *)

(** Sub-relations of the step relation, by label. *)
(** the environment starts something new: a new call, a new Client.Close() *)
Definition is_start (l : label) : bool := match l with LNewCall _ | LCloseStart => true | _ => false end.
(** steps that need nothing from the outside: goroutine-internal steps, the hooks, the dialer
    returning, reads of data already received, and the failures forced by a locally closed stream.
    Excluded: the transport completing a write, the server replying, the network failing, the
    caller's context being cancelled, new calls, new Close invocations. *)
Definition is_own (l : label) : bool :=
  match l with
  | LTau _ | LHookLoaded | LHookSent | LDial _ | LDrop | LRead | LRet _ | LWrite WrClosed => true
  | _ => false
  end.
(** benign environment: the dialer succeeds, writes complete, the server replies, nothing fails,
    the context is not cancelled, nobody calls Close *)
Definition is_benign (l : label) : bool :=
  match l with
  | LTau _ | LHookLoaded | LHookSent | LDial true | LDrop | LRead | LWrite WrOk | LWrite WrClosed | LSrv SReply => true
  | _ => false
  end.
Definition returned (p : upc) : bool := match p with URetOk | URetErr => true | _ => false end.

Definition by_label {S : Type} (keep : label -> bool) (l : list (label * S)) : list S :=
  map snd (filter (fun x => keep (fst x)) l).

Definition cstep' (s : cstate) : list cstate := map snd (cstep s).
Definition cstepF (s : cstate) : list cstate := by_label (fun l => negb (is_start l)) (cstep s).
Definition cstepQ (s : cstate) : list cstate := by_label is_own (cstep s).
Definition cstepG (s : cstate) : list cstate := if returned (u _ _ s) then [] else by_label is_benign (cstep s).
Definition costep' (o : orphan nat) : list (orphan nat) := map snd (ostep nat o).

Definition astep' (s : astate) : list astate := map snd (astep s).
Definition astepF (s : astate) : list astate := by_label (fun l => negb (is_start l)) (astep s).
Definition astepQ (s : astate) : list astate := by_label is_own (astep s).
Definition astepG (s : astate) : list astate := if returned (u _ _ s) then [] else by_label is_benign (astep s).
Definition aostep' (o : orphan bool) : list (orphan bool) := map snd (aostep o).

Section Spec.
  Variables T K : Type.
  Definition is_none {A} (o : option A) := match o with None => true | Some _ => false end.

  (** a connection in service *)
  Definition conn_alive (c : conn T) : bool := is_none (cctx _ c) && negb (cclosed _ c) && negb (sclosed _ c).
  (** a live connection at rest: readloop parked in Recv with nothing to read, writeloop parked in
      its select or inside Send *)
  Definition conn_parked (c : conn T) : bool :=
    conn_alive c && match rl _ c with RlRecv => true | _ => false end && is_none (cwire _ c)
    && match wl _ c with WlSelect | WlSend => true | _ => false end.
  (** a terminated connection whose two goroutines have finished and whose stream is closed *)
  Definition conn_gone (c : conn T) : bool :=
    negb (is_none (cctx _ c)) && sclosed _ c && rxclosed _ c
    && match rl _ c with RlDone => true | _ => false end && match wl _ c with WlDone => true | _ => false end.

  (** where everything is when no goroutine can move by itself *)
  Definition quiescent_ok (s : client T K) : bool :=
    let c := cn _ _ s in
    match cl _ _ s with CIdle => true | _ => false end
    && (if hasconn _ _ s then conn_parked c || conn_gone c else true)
    && (if ccl _ _ s && hasconn _ _ s then conn_gone c else true)
    && match u _ _ s with
       | UIdle => true
       | S4 => hasconn _ _ s && conn_parked c && match wl _ c with WlSend => true | _ => false end && negb (uctx _ _ s)
       | V2 => hasconn _ _ s && conn_parked c && negb (uctx _ _ s)
       | _ => false
       end.

  (** an abandoned connection that has wound up *)
  Definition orphan_gone (o : orphan T) : bool :=
    match snd o with CIdle => true | _ => false end && sclosed _ (fst o)
    && match rl _ (fst o) with RlDone => true | _ => false end && match wl _ (fst o) with WlDone => true | _ => false end.
End Spec.
Arguments is_none {A}.

(** * Encoding of abstract states into [positive] (for the state sets of Lts.v) *)

Fixpoint enc_l (l : list nat) : positive :=
  match l with
  | [] => xH
  | n :: r => Nat.iter n xO (xI (enc_l r))
  end.

Definition n_err e := match e with ErRetry => 0 | ErFatal => 1 end.
Definition n_kind k := match k with KRetry => 0 | KNetClosed => 1 | KOther => 2 end.
Definition n_bool (b : bool) := if b then 1 else 0.
Definition n_ob (o : option bool) := match o with None => 0 | Some false => 1 | Some true => 2 end.
Definition n_oerr (o : option err) := match o with None => 0 | Some e => S (n_err e) end.
Definition n_rl p := match p with RlTop => 0 | RlRecv => 1 | RlTerm1 => 2 | RlTerm2 => 3 | RlOffer => 4 | RlCloseRx => 5 | RlDone => 6 end.
Definition n_wl p := match p with WlTop => 0 | WlSelect => 1 | WlSend => 2 | WlTerm1 => 3 | WlTerm2 => 4 | WlReport => 5 | WlAck => 6 | WlDone => 7 end.
Definition n_cl p := match p with CIdle => 0 | C0 => 1 | C1 => 2 | C2 => 3 | C3 => 4 | C4 => 5 | CPanic => 6 end.
Definition n_u p :=
  match p with
  | UIdle => 0 | U0 => 1 | U1 => 2 | R1 => 3 | R2a => 4 | R2b => 5 | R3 => 6 | R4 => 7 | R5 => 8 | R6 => 9 | R7 => 10
  | R8a => 11 | R8b => 12 | R8c => 13 | S0 => 14 | S1 => 15 | S3 => 16 | S4 => 17 | S5a => 18 | S5b => 19
  | V0 => 20 | V1 => 21 | VTa => 22 | VTb => 23 | V2 => 24 | V3a => 25 | V3b => 26 | URetOk => 27 | URetErr => 28 | UPanic => 29
  end.
Definition n_ech e := match e with ENone => 0 | EVal e => S (n_err e) | ENil => 3 end.

Definition conn_nats (c : conn bool) : list nat :=
  [n_rl (rl _ c); n_err (rl_err _ c); n_ob (rl_msg _ c); n_wl (wl _ c); n_err (wl_err _ c); n_ob (wl_msg _ c);
   n_oerr (cctx _ c); n_bool (cclosed _ c); n_bool (sclosed _ c); n_bool (rxclosed _ c); n_ech (errch _ c);
   n_ob (srv_req _ c); n_ob (cwire _ c); n_bool (ovf _ c)].
Definition to_nats (s : astate) : list nat :=
  [n_u (u _ _ s); n_bool (uctx _ _ s); retry _ _ s; n_bool (rphase _ _ s); n_err (uerr _ _ s); n_ob (got _ _ s); ntx _ _ s;
   n_bool (ccl _ _ s); n_bool (hasconn _ _ s); n_cl (cl _ _ s); n_bool (after_close _ _ s)] ++ conn_nats (cn _ _ s).
Definition enc (s : astate) : positive := enc_l (to_nats s).
Definition orphan_nats (o : orphan bool) : list nat := n_cl (snd o) :: conn_nats (fst o).
Definition oenc (o : orphan bool) : positive := enc_l (orphan_nats o).
