(** Decoder side of kmip.ResponseBatchItem (responses.go): whatever the hand-written decoder
    accepts is encodable, and its normal form conforms. *)
From Coq Require Import ZArith List Bool String Lia PeanoNat.
From KV Require Import Base BaseProofs Wire WireProofs Cursor CursorProofs Schema SchemaSem SchemaSemEq FaithfulProofs
  Roundtrip RoundtripEq RoundtripProofs RtCustomLib Normalize NormalizeEq DecConfDefs NormProofs DecConfLib DecConfProofs DecConfCustomLib.
Import ListNotations.
Open Scope Z_scope.

Section RS.
  Variable S : schema.
  Variables (OPS : op_table) (ATTRS : attr_table) (OBJS : obj_table).
  Context {R : Type}.
  Variable F : rawfmt R.
  Variable eok : relem R -> bool.
  Hypothesis HR : fmt_ranged F eok.
  Hypothesis HS : schema_ok S OPS ATTRS OBJS = true.

  Local Notation enc_ty := (enc_ty S).
  Local Notation norm_ty := (norm_ty S).
  Local Notation dec_ty := (dec_ty S OPS ATTRS OBJS F).
  Local Notation dec_opt := (dec_opt S OPS ATTRS OBJS F).
  Local Notation conf_ty := (conf_ty S OPS ATTRS OBJS).
  Local Notation c_ok := (c_ok eok).
  Local Notation Good := (Good S OPS ATTRS OBJS).
  Local Notation Rng := (Rng eok).
  Local Notation DQ := (DQ S OPS ATTRS OBJS F eok).
  Local Notation lib x := (x S OPS ATTRS OBJS _ F eok HR HS) (only parsing).

  Lemma dc_response_item f : DQ f -> forall st d tag (c : cur R) v c' st',
    find_tdef S (t_name d) = Some d -> t_custom_dec d = true ->
    t_name d = "kmip.ResponseBatchItem"%string -> response_item_ok S d = true -> (tag =? TAG_BATCH_ITEM) = true ->
    dec_response_item OPS F (dec_ty f) (dec_opt f) (dec_fields F f) st d tag c = Ok (v, c', st') ->
    exists items, Good st (TNamed (t_name d)) tag v st' items /\ Rng c c' items.
  Proof.
    intros HQ st d tag c v c' st' Ed Hcd Hname Hok Htag H.
    assert (EV : String.eqb (t_name d) "ttlv.Value" = false) by (rewrite Hname; reflexivity).
    assert (ES : String.eqb (t_name d) "ttlv.Struct" = false) by (rewrite Hname; reflexivity).
    unfold response_item_ok in Hok. rewrite !andb_true_iff in Hok.
    destruct Hok as (((((((((((Hce & Hm6) & Ht0) & Ht1) & Ht2) & Ht3) & Ht4) & Ht5) & Hext) & Hr0) & Hr3) & Htd).
    assert (Hr0' : tag_rng (ftag d 0) = true) by (unfold tag_rng; apply andb_true_iff; exact Hr0).
    assert (Hr3' : tag_rng (ftag d 3) = true) by (unfold tag_rng; apply andb_true_iff; exact Hr3).
    pose proof (ty_eqb_eq _ _ Ht0) as Et0. pose proof (ty_eqb_eq _ _ Ht1) as Et1. pose proof (ty_eqb_eq _ _ Ht2) as Et2.
    pose proof (ty_eqb_eq _ _ Ht3) as Et3. pose proof (ty_eqb_eq _ _ Ht4) as Et4. pose proof (ty_eqb_eq _ _ Ht5) as Et5.
    assert (Et6 : exists nm, fty d 6 = TIface nm) by (destruct (fty d 6); try discriminate; eauto). destruct Et6 as [nm Et6].
    unfold dec_response_item in H.
    destruct (lib wrap_struct_inv _ _ _ _ _ _ _ H) as (sub & vals & c2 & Hb & -> & Hw). clear H.
    rewrite Et0, Et1, Et2, Et3, Et4, Et5 in Hb.
    destruct (SchemaSem.dec_opt S OPS ATTRS OBJS F f st (TScalar (KEnum (ftag d 0))) (ftag d 0) sub) as [[[opv c_1] s_1]| | |] eqn:Eop; cbn [bind fst snd] in Hb; try discriminate.
    destruct (lib dopt_enum_inv _ _ _ _ _ _ _ _ Eop) as (-> & op & -> & Rop). cbn [int_of] in Hb.
    destruct (SchemaSem.dec_opt S OPS ATTRS OBJS F f st (TScalar KBytes) (ftag d 1) c_1) as [[[idv c_2] s_2]| | |] eqn:Eid; cbn [bind fst snd] in Hb; try discriminate.
    destruct (lib dopt_bytes_inv _ _ _ _ _ _ _ Eid) as (-> & id & Hid & Rid).
    destruct (SchemaSem.dec_ty S OPS ATTRS OBJS F f st (TScalar (KEnum (ftag d 2))) (ftag d 2) c_2) as [[[stv c_3] s_3]| | |] eqn:Est; cbn [bind fst snd] in Hb; try discriminate.
    destruct (lib dreq_enum_inv _ _ _ _ _ _ _ _ Est) as (-> & status & -> & Rst).
    destruct (SchemaSem.dec_opt S OPS ATTRS OBJS F f st (TScalar (KEnum (ftag d 3))) (ftag d 3) c_3) as [[[rsv c_4] s_4]| | |] eqn:Ers; cbn [bind fst snd] in Hb; try discriminate.
    destruct (lib dopt_enum_inv _ _ _ _ _ _ _ _ Ers) as (-> & reason & -> & Rrs).
    destruct (SchemaSem.dec_opt S OPS ATTRS OBJS F f st (TScalar KString) (ftag d 4) c_4) as [[[msgv c_5] s_5]| | |] eqn:Emsg; cbn [bind fst snd] in Hb; try discriminate.
    destruct (lib dopt_text_inv _ _ _ _ _ _ _ Emsg) as (-> & msg & -> & Rmsg).
    destruct (SchemaSem.dec_opt S OPS ATTRS OBJS F f st (TScalar KBytes) (ftag d 5) c_5) as [[[acvv c_6] s_6]| | |] eqn:Eacv; cbn [bind fst snd] in Hb; try discriminate.
    destruct (lib dopt_bytes_inv _ _ _ _ _ _ _ Eacv) as (-> & acv & Hacv & Racv).
    match type of Hb with bind ?m _ = _ => destruct m as [[[pl c_7] s_7]| | |] eqn:Epl; cbn [bind fst snd] in Hb; try discriminate end.
    (* the payload: read only under a positive operation code *)
    assert (Hpl : exists ip pl' fp, (forall g, (fp <= g)%nat ->
                   enc_ty g st (TIface nm) (ftag d 6) pl = Ok (ip, st) /\ norm_ty g st (TIface nm) pl = (pl', st) /\
                   (match pl' with VNil => true | _ => (0 <? op) && conf_payload S OPS (conf_ty g) st true op (ftag d 6) pl' end) = true) /\
                 Rng c_6 c_7 ip).
    { destruct ((0 <? op) && (c_tag c_6 =? ftag d 6)) eqn:Econd.
      - apply andb_true_iff in Econd. destruct Econd as [Hop _].
        destruct (lib payload_good _ _ _ _ _ _ _ _ _ nm HQ Epl) as (ip & (pl' & fp & Hp) & Rpl).
        exists ip, pl', fp. split; [|exact Rpl]. intros g Hg. destruct (Hp g Hg) as (P1 & P2 & P3).
        split; [exact P1|]. split; [exact P2|]. destruct pl'; try reflexivity; rewrite Hop, P3; reflexivity.
      - injection Epl as <- <- <-. exists [], VNil, 1%nat. split; [|intros Hc; split; [exact Hc | reflexivity]].
        intros g Hg. destruct g as [|g]; [lia|]. rewrite enc_ty_eq, norm_ty_eq. repeat split. }
    destruct Hpl as (ip & pl' & fp & Hp & Rpl).
    destruct (SchemaSem.dec_opt S OPS ATTRS OBJS F f st (fty d 7) (ftag d 7) c_7) as [[[ext c_8] s_8]| | |] eqn:Eext; cbn [bind fst snd] in Hb; try discriminate.
    destruct (lib dopt_ptr_good _ _ _ _ _ _ _ _ HQ Hext Eext) as (-> & t7 & Et7 & Hone7 & ie & (ext' & fe & He) & Rext).
    injection Hb as <- <- <-.
    exists [IStruct TAG_BATCH_ITEM
              ((if op =? 0 then [] else [IEnum (ftag d 0) (ftag d 0) op]) ++
               (match id with [] => [] | _ => [IBytes (ftag d 1) id] end) ++
               [IEnum (ftag d 2) (ftag d 2) status] ++
               (if (status =? RESULT_STATUS_FAILED) || negb (reason =? 0) then [IEnum (ftag d 3) (ftag d 3) reason] else []) ++
               (match msg with [] => [] | _ => [IText (ftag d 4) msg] end) ++
               (match acv with [] => [] | _ => [IBytes (ftag d 5) acv] end) ++
               ip ++ ie)].
    split.
    - exists (VStruct (t_name d) [VInt op; VStr id; VInt status; VInt reason; VStr msg; VStr acv; pl'; ext']), (Datatypes.S (Datatypes.S (Nat.max fp fe))).
      intros g Hge. destruct g as [|[|g]]; try lia.
      destruct (Hp g ltac:(lia)) as (P1 & P2 & _). destruct (Hp (Datatypes.S g) ltac:(lia)) as (_ & _ & P3).
      destruct (He g ltac:(lia)) as (E1 & E2 & _). destruct (He (Datatypes.S g) ltac:(lia)) as (_ & _ & E3).
      split.
      { rewrite enc_ty_eq, EV, ES, Ed, Hce, enc_custom_eq. cbv zeta. rewrite Hname.
        change (String.eqb "kmip.ResponseBatchItem" "kmip.RequestBatchItem") with false.
        change (String.eqb "kmip.ResponseBatchItem" "kmip.ResponseBatchItem") with true. cbv iota.
        rewrite Hid, Hacv, Et6, P1. cbn [bind fst snd]. rewrite E1. reflexivity. }
      split.
      { rewrite norm_ty_eq, EV, ES, Ed, Hce, norm_custom_eq. cbv zeta. rewrite Hname.
        change (String.eqb "kmip.ResponseBatchItem" "kmip.RequestBatchItem") with false.
        change (String.eqb "kmip.ResponseBatchItem" "kmip.ResponseBatchItem") with true. cbv iota.
        rewrite Hid, Hacv, Et6, P2. cbn [fst snd]. rewrite E2. reflexivity. }
      rewrite conf_ty_eq, EV, ES, Ed, String.eqb_refl, Hce, Hcd. cbn [negb andb].
      unfold conf_custom_of. cbv zeta. rewrite Hname.
      change (String.eqb "kmip.ResponseBatchItem" "kmip.RequestBatchItem") with false.
      change (String.eqb "kmip.ResponseBatchItem" "kmip.ResponseBatchItem") with true. cbv iota.
      unfold conf_response_item. rewrite Htag, Hce, Hm6, Ht0, Ht1, Ht2, Ht3, Ht4, Ht5, Htd, P3, (keeps_of_conf _ _ _ _ _ E3), Et7. reflexivity.
    - intros Hc. destruct (Hw Hc) as (Hsub & Hc' & Ht). split; [exact Hc'|].
      destruct (Rop Hsub) as [Hc1 Iop]. destruct (Rid Hc1) as [Hc2 Iid]. destruct (Rst Hc2) as [Hc3 Ist].
      destruct (Rrs Hc3) as [Hc4 Irs]. destruct (Rmsg Hc4) as [Hc5 Imsg]. destruct (Racv Hc5) as [Hc6 Iacv].
      destruct (Rpl Hc6) as [Hc7 Ipl]. destruct (Rext Hc7) as [_ Iext].
      cbn [forallb item_ok]. change ((0 <=? TAG_BATCH_ITEM) && (TAG_BATCH_ITEM <? 2 ^ 24)) with true. cbn [andb]. rewrite andb_true_r.
      rewrite !forallb_app, Iid, Imsg, Iacv, Ipl, Iext. cbn [forallb]. rewrite Ist. cbn [andb]. rewrite !andb_true_r.
      apply andb_true_iff. split.
      + destruct (op =? 0); [reflexivity|]. cbn [forallb]. rewrite (Iop Hr0'). reflexivity.
      + destruct ((status =? RESULT_STATUS_FAILED) || negb (reason =? 0)); [|reflexivity]. cbn [forallb]. rewrite (Irs Hr3'). reflexivity.
  Qed.
End RS.
