(** Round trip of kmip.ResponseBatchItem (hand-written encoder and decoder, responses.go). *)
From Coq Require Import ZArith List Bool String Lia PeanoNat.
From KV Require Import Base BaseProofs Wire WireProofs Cursor CursorProofs Schema SchemaSem SchemaSemEq FaithfulProofs
  Roundtrip RoundtripEq RoundtripProofs RtCustomLib.
Import ListNotations.
Open Scope Z_scope.

(** the first tag of a concatenation of segments, each written under its own tag *)
Lemma hd_tag_app_ne (a b : list item) ta t :
  Forall (fun i => itag i = ta) a -> ta <> t -> hd_tag b <> t -> hd_tag (a ++ b)%list <> t.
Proof.
  intros Ha Hne Hb. destruct a as [|i a']; [exact Hb|]. cbn [app hd_tag].
  inversion Ha as [|? ? Hi _]. congruence.
Qed.

Lemma hd_tag_seg_ne (a : list item) ta t :
  Forall (fun i => itag i = ta) a -> ta <> t -> 0 <> t -> hd_tag a <> t.
Proof.
  intros Ha Hne H0. destruct a as [|i a']; [exact H0|]. cbn [hd_tag]. inversion Ha as [|? ? Hi _]. congruence.
Qed.

(** the first tag of a list of items is not [t] (kept folded: the arithmetic tactics need not look at it) *)
Definition tag_ne (l : list item) (t : Z) : Prop := hd_tag l <> t.

Section RI.
  Variable S : schema.
  Variables (OPS : op_table) (ATTRS : attr_table) (OBJS : obj_table).
  Context {R : Type}.
  Variable F : rawfmt R.

  Local Notation enc_ty := (enc_ty S).
  Local Notation dec_ty := (dec_ty S OPS ATTRS OBJS F).
  Local Notation dec_opt := (dec_opt S OPS ATTRS OBJS F).
  Local Notation conf_ty := (conf_ty S OPS ATTRS OBJS).
  Local Notation Q := (Q S OPS ATTRS OBJS F).
  Local Notation RT_concl := (RT_concl S OPS ATTRS OBJS F).

  Lemma rt_response_item f : Q f -> forall fc st d tag fs items st' sc,
    find_tdef S (t_name d) = Some d -> t_custom_dec d = true ->
    t_name d = "kmip.ResponseBatchItem"%string ->
    enc_ty (Datatypes.S f) st (TNamed (t_name d)) tag (VStruct (t_name d) fs) = Ok (items, st') ->
    conf_response_item S OPS (conf_ty fc) st d tag fs = Some sc ->
    RT_concl (Datatypes.S f) st (TNamed (t_name d)) tag (VStruct (t_name d) fs) items st' sc.
  Proof.
    intros HQ fc st d tag fs items st' sc Ed Hcd Hname He Hc.
    assert (EV : String.eqb (t_name d) "ttlv.Value" = false) by (rewrite Hname; reflexivity).
    assert (ES : String.eqb (t_name d) "ttlv.Struct" = false) by (rewrite Hname; reflexivity).
    unfold conf_response_item in Hc.
    destruct fs as [|v0 fs]; [discriminate|]. destruct v0 as [op| | | | | | | | |]; try discriminate.
    destruct fs as [|v1 fs]; [discriminate|]. destruct v1 as [| |id| | | | | | |]; try discriminate.
    destruct fs as [|v2 fs]; [discriminate|]. destruct v2 as [status| | | | | | | | |]; try discriminate.
    destruct fs as [|v3 fs]; [discriminate|]. destruct v3 as [reason| | | | | | | | |]; try discriminate.
    destruct fs as [|v4 fs]; [discriminate|]. destruct v4 as [| |msg| | | | | | |]; try discriminate.
    destruct fs as [|v5 fs]; [discriminate|]. destruct v5 as [| |acv| | | | | | |]; try discriminate.
    destruct fs as [|payload fs]; [discriminate|]. destruct fs as [|ext fs]; [discriminate|].
    destruct fs as [|? ?]; [|discriminate].
    match type of Hc with (if ?c then _ else _) = _ => destruct c eqn:Hcond; [|discriminate] end.
    injection Hc as <-.
    rewrite !andb_true_iff in Hcond.
    destruct Hcond as ((((((((((((Htag & Hce) & Ht6) & Ht0) & Ht1) & Ht2) & Ht3) & Ht4) & Ht5) & Ht7) & Hdist) & Hpl) & Hext).
    apply Z.eqb_eq in Htag. subst tag.
    apply ty_eqb_eq in Ht0, Ht1, Ht2, Ht3, Ht4, Ht5.
    destruct (fty d 6) as [| | | |nm] eqn:Et6; try discriminate. clear Ht6.
    destruct (fty d 7) as [|t7| | |] eqn:Et7; try discriminate. clear Ht7.
    apply keeps_some in Hext.
    (* the encoder *)
    rewrite enc_ty_eq, EV, ES, Ed, Hce in He.
    destruct f as [|f1]; [discriminate|]. rewrite enc_custom_eq in He. cbv zeta in He. rewrite Hname in He.
    change (String.eqb "kmip.ResponseBatchItem" "kmip.RequestBatchItem") with false in He.
    change (String.eqb "kmip.ResponseBatchItem" "kmip.ResponseBatchItem") with true in He. cbv iota in He.
    cbn [bytes_of] in He. rewrite Et6, Et7 in He.
    destruct (enc_ty f1 st (TIface nm) (ftag d 6) payload) as [[ip sp]| | |] eqn:Ep; cbn [bind fst snd] in He; try discriminate.
    destruct (enc_ty f1 sp (TPtr t7) (ftag d 7) ext) as [[ie se]| | |] eqn:Ee; cbn [bind fst snd] in He; try discriminate.
    injection He as <- <-.
    assert (HQ1 : Q f1) by (intros g Hg; apply HQ; lia).
    assert (Hz6 : ftag d 6 <> 0).
    { cbn [tags_distinct forallb] in Hdist.
      repeat match goal with H : _ && _ = true |- _ => apply andb_true_iff in H; destruct H end.
      repeat match goal with H : negb (_ =? _) = true |- _ => apply negb_true_iff in H; apply Z.eqb_neq in H end. assumption. }
    (* the payload: absent, or one item under its tag *)
    assert (Hpay : sp = st /\ tags_all (ftag d 6) ip /\
      forall (esp rest : list (relem R)) fd1, faithful F ip esp -> c_tag (rest, false) <> ftag d 6 ->
        (f1 + 2 * items_size ip + 2 <= fd1)%nat ->
        (if (0 <? op) && (c_tag ((esp ++ rest)%list, false) =? ftag d 6)
         then dec_payload OPS F (dec_ty fd1) (dec_fields F fd1) st true op (ftag d 6) ((esp ++ rest)%list, false)
         else Ok (VNil, ((esp ++ rest)%list, false), st)) = Ok (payload, (rest, false), st)).
    { assert (Hp : payload = VNil \/ ((0 <? op) = true /\ conf_payload S OPS (conf_ty fc) st true op (ftag d 6) payload = true)).
      { destruct payload; auto; right; apply andb_true_iff in Hpl; exact Hpl. }
      clear Hpl. destruct Hp as [->|[Hop Hpl]].
      - destruct f1 as [|f2]; [discriminate|]. rewrite enc_ty_eq in Ep. injection Ep as <- <-.
        split; [reflexivity|]. split; [constructor|].
        intros esp rest fd1 Hf Hnext _. apply faithful_nil_inv in Hf. subst esp. cbn [app].
        destruct (Z.eqb_spec (c_tag (rest, false)) (ftag d 6)); [contradiction|]. rewrite andb_false_r. reflexivity.
      - destruct (payload_rt S OPS ATTRS OBJS F f1 nm fc st true op (ftag d 6) payload ip sp HQ1 Hz6 Ep Hpl) as (-> & i & -> & Hi & Hdp).
        split; [reflexivity|]. split; [constructor; [exact Hi | constructor]|].
        intros esp rest fd1 Hf _ Hfd1. apply faithful_one_inv in Hf. destruct Hf as (e & -> & He1). cbn [app].
        rewrite (faithful1_tag F _ _ _ _ He1), Hi, Z.eqb_refl, Hop. cbn [andb].
        apply Hdp; [exact He1|]. unfold items_size in Hfd1. cbn [fold_right] in Hfd1. lia. }
    destruct Hpay as (-> & Htp & Hdp).
    pose proof (Q_ty S OPS ATTRS OBJS F _ f1 HQ1 (Nat.le_refl _) _ _ _ _ _ _ _ _ Ee Hext) as Hce_ext.
    pose proof Hce_ext as (<- & Hte & _).
    set (s0 := if op =? 0 then [] else [IEnum (ftag d 0) (ftag d 0) op]).
    set (s1 := match id with [] => [] | _ => [IBytes (ftag d 1) id] end).
    set (s3 := if (status =? RESULT_STATUS_FAILED) || negb (reason =? 0) then [IEnum (ftag d 3) (ftag d 3) reason] else []).
    set (s4 := match msg with [] => [] | _ => [IText (ftag d 4) msg] end).
    set (s5 := match acv with [] => [] | _ => [IBytes (ftag d 5) acv] end).
    set (i2 := IEnum (ftag d 2) (ftag d 2) status).
    (* the tag the reader sees after each optional element is not the tag of that element *)
    assert (Hn : tag_ne (s1 ++ i2 :: s3 ++ s4 ++ s5 ++ ip ++ ie) (ftag d 0) /\
                 tag_ne (i2 :: s3 ++ s4 ++ s5 ++ ip ++ ie) (ftag d 1) /\
                 tag_ne (s4 ++ s5 ++ ip ++ ie) (ftag d 3) /\
                 tag_ne (s5 ++ ip ++ ie) (ftag d 4) /\
                 tag_ne (ip ++ ie) (ftag d 5) /\
                 tag_ne ie (ftag d 6) /\ tag_ne [] (ftag d 7)).
    { assert (T1 : tags_all (ftag d 1) s1) by (unfold s1; destruct id; repeat constructor).
      assert (T4 : tags_all (ftag d 4) s4) by (unfold s4; destruct msg; repeat constructor).
      assert (T5 : tags_all (ftag d 5) s5) by (unfold s5; destruct acv; repeat constructor).
      cbn [tags_distinct forallb] in Hdist.
      repeat match goal with H : _ && _ = true |- _ => apply andb_true_iff in H; destruct H end.
      repeat match goal with H : negb (_ =? _) = true |- _ => apply negb_true_iff in H; apply Z.eqb_neq in H end.
      unfold tag_ne.
      repeat split;
        repeat (eapply hd_tag_app_ne; [eassumption | congruence |]);
        try (eapply hd_tag_seg_ne; [eassumption | congruence | congruence]);
        cbn [hd_tag itag i2]; congruence. }
    destruct Hn as (N0 & N1 & N3 & N4 & N5 & N6 & N7).
    split; [reflexivity|]. split; [constructor; [reflexivity | constructor]|]. split; [eauto|]. split; [intros; discriminate|].
    intros es rest fd Hf _ Hfd. apply faithful_one_inv in Hf. destruct Hf as (e & -> & He1).
    inversion He1 as [tag0 kids0 raw eks Hk| | | | | | | | | |]; subst.
    apply faithful_app_inv in Hk. destruct Hk as (e0 & ke0 & -> & Hf0 & Hk). pose proof Hk as Hs0.
    apply faithful_app_inv in Hk. destruct Hk as (e1 & ke1 & -> & Hf1 & Hk). pose proof Hk as Hs1.
    apply faithful_cons_inv in Hk. destruct Hk as (e2 & ke2 & -> & Hf2 & Hk).
    apply faithful_app_inv in Hk. destruct Hk as (e3 & ke3 & -> & Hf3 & Hk). pose proof Hk as Hs3.
    apply faithful_app_inv in Hk. destruct Hk as (e4 & ke4 & -> & Hf4 & Hk). pose proof Hk as Hs4.
    apply faithful_app_inv in Hk. destruct Hk as (e5 & ke5 & -> & Hf5 & Hk). pose proof Hk as Hs5.
    apply faithful_app_inv in Hk. destruct Hk as (ep & eext & -> & Hfp & Hfext).
    unfold items_size at 1 in Hfd. cbn [fold_right] in Hfd. rewrite item_size_struct in Hfd.
    repeat (rewrite items_size_app in Hfd || rewrite items_size_cons in Hfd).
    cbn [item_size i2] in Hfd.
    destruct fd as [|fd1]; [lia|]. cbn [app].
    rewrite (dec_ty_custom S OPS ATTRS OBJS F fd1 st d TAG_BATCH_ITEM _ Ed Hcd EV ES).
    unfold dec_custom_of. rewrite Hname.
    change (String.eqb "kmip.ResponseBatchItem" "kmip.RequestBatchItem") with false.
    change (String.eqb "kmip.ResponseBatchItem" "kmip.ResponseBatchItem") with true. cbv iota.
    unfold dec_response_item. rewrite Hname.
    apply wrap_struct_ok with (l := []).
    rewrite Ht0, Ht1, Ht2, Ht3, Ht4, Ht5, Et7.
    destruct fd1 as [|fd2]; [lia|]. destruct fd2 as [|fd3]; [lia|].
    (* operation *)
    assert (Hf0' : faithful F (if negb (op =? 0) then [IEnum (ftag d 0) (ftag d 0) op] else []) e0)
      by (unfold s0 in Hf0; destruct (op =? 0); exact Hf0).
    assert (Hw0 : negb (op =? 0) = false -> op = 0) by (intros H; apply negb_false_iff, Z.eqb_eq in H; exact H).
    assert (Hx0 : c_tag ((e1 ++ e2 :: e3 ++ e4 ++ e5 ++ ep ++ eext)%list, false) <> ftag d 0)
      by (rewrite (faithful_hd_tag F _ _ Hs0); exact N0).
    rewrite (dopt_enum S OPS ATTRS OBJS F fd3 st (ftag d 0) op _ e0 _ Hf0' Hw0 Hx0). cbn [bind fst snd].
    (* unique batch item id *)
    assert (Hx1 : c_tag ((e2 :: e3 ++ e4 ++ e5 ++ ep ++ eext)%list, false) <> ftag d 1)
      by (rewrite (faithful_hd_tag F _ _ Hs1); exact N1).
    rewrite (dopt_bytes S OPS ATTRS OBJS F fd3 st (ftag d 1) id e1 _ Hf1 Hx1). cbn [bind fst snd].
    (* result status *)
    rewrite (dreq_enum S OPS ATTRS OBJS F _ st (ftag d 2) status e2 _ Hf2). cbn [bind fst snd].
    (* result reason *)
    assert (Hw3 : (status =? RESULT_STATUS_FAILED) || negb (reason =? 0) = false -> reason = 0).
    { intros H. apply orb_false_iff in H. destruct H as [_ H]. apply negb_false_iff, Z.eqb_eq in H. exact H. }
    assert (Hx3 : c_tag ((e4 ++ e5 ++ ep ++ eext)%list, false) <> ftag d 3)
      by (rewrite (faithful_hd_tag F _ _ Hs3); exact N3).
    rewrite (dopt_enum S OPS ATTRS OBJS F fd3 st (ftag d 3) reason _ e3 _ Hf3 Hw3 Hx3). cbn [bind fst snd].
    (* result message, asynchronous correlation value *)
    assert (Hx4 : c_tag ((e5 ++ ep ++ eext)%list, false) <> ftag d 4)
      by (rewrite (faithful_hd_tag F _ _ Hs4); exact N4).
    rewrite (dopt_text S OPS ATTRS OBJS F fd3 st (ftag d 4) msg e4 _ Hf4 Hx4). cbn [bind fst snd].
    assert (Hx5 : c_tag ((ep ++ eext)%list, false) <> ftag d 5)
      by (rewrite (faithful_hd_tag F _ _ Hs5); exact N5).
    rewrite (dopt_bytes S OPS ATTRS OBJS F fd3 st (ftag d 5) acv e5 _ Hf5 Hx5). cbn [bind fst snd int_of]. cbv zeta.
    (* payload *)
    assert (Hx6 : c_tag (eext, false) <> ftag d 6)
      by (rewrite (faithful_hd_tag F _ _ Hfext); exact N6).
    rewrite (Hdp ep eext _ Hfp Hx6) by lia. cbn [bind fst snd].
    (* message extension *)
    assert (Hx7 : c_tag (@nil (relem R), false) <> ftag d 7) by (rewrite c_tag_nil; exact N7).
    pose proof (dopt_ptr S OPS ATTRS OBJS F f1 st t7 (ftag d 7) ext ie st st eext [] (Datatypes.S fd3) Hce_ext Hfext Hx7) as Hde.
    rewrite app_nil_r in Hde. rewrite Hde by lia. reflexivity.
  Qed.
End RI.

(** Non-vacuity at the schema regenerated from /repo: a failed Create response item with every
    optional element present (operation, batch item id, reason, message, asynchronous
    correlation value, a Create response payload holding a template attribute, a message
    extension) and a bare successful one (status only) conform, and their binary encoding
    decodes back to them. *)
From KVGen Require Import KmipSchema.
From KV Require Import KmipCodec.
Local Open Scope string_scope.
Local Open Scope Z_scope.

Definition ex_response_item : value :=
  VStruct "kmip.ResponseBatchItem"
    [VInt 1; VStr [1; 2; 3]; VInt 1; VInt 4; VStr [110; 111]; VStr [9; 9];
     VIface (TPtr (TNamed "payloads.CreateResponsePayload"))
       (VPtr (VStruct "payloads.CreateResponsePayload"
          [VInt 2; VStr [105; 100; 45; 49];
           VPtr (VStruct "kmip.TemplateAttribute"
             [VList [];
              VList [VStruct "kmip.Attribute"
                       [VStr [67; 114; 121; 112; 116; 111; 103; 114; 97; 112; 104; 105; 99; 32; 76; 101; 110; 103; 116; 104];
                        VPtr (VInt 0); VIface (TScalar KInt32) (VInt 256)]]])]));
     VPtr (VStruct "kmip.MessageExtension" [VStr [118]; VBool true; VList [VTree (IInt 4325384 5)]])].
Definition ex_response_item_bare : value :=
  VStruct "kmip.ResponseBatchItem" [VInt 0; VStr []; VInt 0; VInt 0; VStr []; VStr []; VNil; VNil].

Definition response_item_example_ok (v : value) : Prop :=
  (exists sc, conf_ty kmip_schema kmip_ops kmip_attrs kmip_objs 40 (Some (1, 4)) (TNamed "kmip.ResponseBatchItem") TAG_BATCH_ITEM v = Some sc) /\
  (do r <- enc_ty kmip_schema 40 (Some (1, 4)) (TNamed "kmip.ResponseBatchItem") TAG_BATCH_ITEM v ;;
   do c <- bin_cursor (wire_enc_list (fst r)) ;;
   do d <- dec_ty kmip_schema kmip_ops kmip_attrs kmip_objs bin_fmt 100 (Some (1, 4)) (TNamed "kmip.ResponseBatchItem") TAG_BATCH_ITEM c ;;
   Ok (value_eqb (fst (fst d)) v && negb (match fst r with [] => true | _ => false end))) = Ok true.

Example rt_response_item_example : response_item_example_ok ex_response_item /\ response_item_example_ok ex_response_item_bare.
Proof. repeat split; try (eexists; vm_compute; reflexivity); vm_compute; reflexivity. Qed.
