(** The [reader] interface of ttlv/decoder.go as one generic cursor over "raw elements".

    Every concrete reader (binary ttlvReader, xmlReader, jsonReader) is: (1) a way to view its
    input as a forest of raw elements [relem R] - tag and type already resolved as the reader's
    Tag()/Type() would, the value still in its raw form [R], children for structures, and a
    flag telling that the sibling list ends in something the reader rejects when it gets
    there (readers validate lazily: an invalid item is reported by the operation that
    ADVANCES onto it) - and (2) a record [rawfmt R] of scalar parsers applied to the raw
    value by the typed read operations.  The typed operations themselves (tag/type
    assertion, parse, advance) are the same for all formats and are defined here once.
    The binary instance ([bin_cursor], [bin_fmt]) transcribes ttlvReader of
    ttlv/encoding_ttlv.go after the fix: commits e1c3f87, c54cbb0, 4fc19c4; Reader.v holds
    the byte-level transcription with its slice-bound panic points and ReaderProofs.v the
    refinement between the two.  No proofs here. *)
From Coq Require Import ZArith List Bool.
From KV Require Import Base Wire.
Import ListNotations.
Open Scope Z_scope.

Section Generic.
  Context {R : Type}.

  Inductive relem : Type :=
  | RE (tag ty : Z) (raw : R) (kids : list relem) (kbad : bool).

  (** remaining siblings, and whether the list ends in an invalid item *)
  Definition cur : Type := (list relem * bool)%type.

  Record rawfmt : Type := {
    p_int : R -> res Z;
    p_long : R -> res Z;
    p_big : R -> res Z;
    p_enum : Z -> Z -> R -> res Z;       (* realtag, tag *)
    p_bool : R -> res bool;
    p_text : R -> res (list Z);
    p_bytes : R -> res (list Z);
    p_date : R -> res Z;
    p_intv : R -> res Z;
    p_mask : Z -> Z -> R -> res Z;       (* realtag, tag *)
    (* the reader walks over the unread children when a structure is closed (XML) *)
    strict_close : bool;
  }.

  Variable F : rawfmt.

  (** constructing a reader over a sibling list validates its first item *)
  Definition c_open (items : list relem) (bad : bool) : res cur :=
    match items with
    | [] => if bad then Err else Ok ([], false)
    | _ => Ok (items, bad)
    end.

  (** reader.Tag(): 0 at the end *)
  Definition c_tag (c : cur) : Z :=
    match fst c with [] => 0 | RE tag _ _ _ _ :: _ => tag end.
  (** reader.Type(): 0 at the end *)
  Definition c_type (c : cur) : Z :=
    match fst c with [] => 0 | RE _ ty _ _ _ :: _ => ty end.

  (** reader.Next() *)
  Definition c_next (c : cur) : res cur :=
    match fst c with
    | [] => Err
    | _ :: rest => c_open rest (snd c)
    end.

  (** assertType(ty, tag) then the raw element *)
  Definition c_expect (ty tag : Z) (c : cur) : res relem :=
    match fst c with
    | [] => Err
    | (RE t y _ _ _) as e :: _ => if negb (t =? tag) then Err else if negb (y =? ty) then Err else Ok e
    end.

  Definition c_scalar {A} (ty : Z) (parse : R -> res A) (tag : Z) (c : cur) : res (A * cur) :=
    do e <- c_expect ty tag c ;;
    match e with RE _ _ raw _ _ =>
      do v <- parse raw ;;
      do c' <- c_next c ;;
      Ok (v, c')
    end.

  Definition c_integer := c_scalar T_INT (p_int F).
  Definition c_long := c_scalar T_LONG (p_long F).
  Definition c_big := c_scalar T_BIG (p_big F).
  Definition c_enum (rtag tag : Z) := c_scalar T_ENUM (p_enum F rtag tag) tag.
  Definition c_bool := c_scalar T_BOOL (p_bool F).
  Definition c_text := c_scalar T_TEXT (p_text F).
  Definition c_bytes := c_scalar T_BYTES (p_bytes F).
  Definition c_date := c_scalar T_DATE (p_date F).
  Definition c_intv := c_scalar T_INTV (p_intv F).
  Definition c_mask (rtag tag : Z) := c_scalar T_INT (p_mask F rtag tag) tag.

  (** reader.Struct(tag, f): f runs on a reader over the children; what f leaves unread is
      skipped; then the parent advances. *)
  Definition c_struct {A} (tag : Z) (f : cur -> res (A * cur)) (c : cur) : res (A * cur) :=
    do e <- c_expect T_STRUCT tag c ;;
    match e with RE _ _ _ kids kbad =>
      do sub <- c_open kids kbad ;;
      do r <- f sub ;;
      if strict_close F && snd (snd r) then Err else
      do c' <- c_next c ;;
      Ok (fst r, c')
    end.

  (** ttlv.Value.TagDecodeTTLV / ttlv.Struct.TagDecodeTTLV (ttlv/value.go): the generic tree.
      [fuel] bounds the nesting depth plus the number of siblings walked. *)
  Fixpoint dec_value (fuel : nat) (tag : Z) (c : cur) : res (item * cur) :=
    match fuel with
    | O => OutOfFuel
    | S f =>
      let ty := c_type c in
      if ty =? T_INT then do r <- c_integer tag c ;; Ok (IInt tag (fst r), snd r)
      else if ty =? T_LONG then do r <- c_long tag c ;; Ok (ILong tag (fst r), snd r)
      else if ty =? T_BIG then do r <- c_big tag c ;; Ok (IBig tag (fst r), snd r)
      else if ty =? T_BOOL then do r <- c_bool tag c ;; Ok (IBool tag (fst r), snd r)
      else if ty =? T_BYTES then do r <- c_bytes tag c ;; Ok (IBytes tag (fst r), snd r)
      else if ty =? T_DATE then do r <- c_date tag c ;; Ok (IDate tag (fst r), snd r)
      else if ty =? T_ENUM then do r <- c_enum 0 tag c ;; Ok (IEnum tag 0 (fst r), snd r)
      else if ty =? T_INTV then do r <- c_intv tag c ;; Ok (IIntv tag (fst r), snd r)
      else if ty =? T_TEXT then do r <- c_text tag c ;; Ok (IText tag (fst r), snd r)
      else if ty =? T_STRUCT then
        do r <- c_struct tag (dec_fields f) c ;; Ok (IStruct tag (fst r), snd r)
      else Err
    end
  (** the loop of Struct.TagDecodeTTLV: for d.Tag() != 0 { field.DecodeTTLV(d) } *)
  with dec_fields (fuel : nat) (c : cur) : res (list item * cur) :=
    match fuel with
    | O => OutOfFuel
    | S f =>
      if c_tag c =? 0 then Ok ([], c) else
      do r <- dec_value f (c_tag c) c ;;
      do rs <- dec_fields f (snd r) ;;
      Ok (fst r :: fst rs, snd rs)
    end.

  (** The law a format must satisfy for round trips ("reads_back"): the raw forest the
      reader sees in the writer's output mirrors the writer calls one for one - same tag,
      same type code, the raw value parses back to the value written (with the same
      real-tag hint), structures nest, nothing is marked invalid. *)
  Inductive faithful1 : item -> relem -> Prop :=
  | fa_struct tag kids raw es : faithful kids es -> faithful1 (IStruct tag kids) (RE tag T_STRUCT raw es false)
  | fa_int tag v raw kb : p_int F raw = Ok v -> faithful1 (IInt tag v) (RE tag T_INT raw [] kb)
  | fa_long tag v raw kb : p_long F raw = Ok v -> faithful1 (ILong tag v) (RE tag T_LONG raw [] kb)
  | fa_big tag v raw kb : p_big F raw = Ok v -> faithful1 (IBig tag v) (RE tag T_BIG raw [] kb)
  | fa_enum tag rtag v raw kb : p_enum F rtag tag raw = Ok v -> faithful1 (IEnum tag rtag v) (RE tag T_ENUM raw [] kb)
  | fa_bool tag b raw kb : p_bool F raw = Ok b -> faithful1 (IBool tag b) (RE tag T_BOOL raw [] kb)
  | fa_text tag s raw kb : p_text F raw = Ok s -> faithful1 (IText tag s) (RE tag T_TEXT raw [] kb)
  | fa_bytes tag s raw kb : p_bytes F raw = Ok s -> faithful1 (IBytes tag s) (RE tag T_BYTES raw [] kb)
  | fa_date tag v raw kb : p_date F raw = Ok v -> faithful1 (IDate tag v) (RE tag T_DATE raw [] kb)
  | fa_intv tag v raw kb : p_intv F raw = Ok v -> faithful1 (IIntv tag v) (RE tag T_INTV raw [] kb)
  | fa_mask tag rtag v raw kb : p_mask F rtag tag raw = Ok v -> faithful1 (IMask tag rtag v) (RE tag T_INT raw [] kb)
  with faithful : list item -> list relem -> Prop :=
  | fa_nil : faithful [] []
  | fa_cons i e il el : faithful1 i e -> faithful il el -> faithful (i :: il) (e :: el).

  (** number of raw elements in a forest (fuel measure) *)
  Fixpoint relem_size (e : relem) : nat :=
    match e with RE _ _ _ kids _ => S (fold_right (fun k n => relem_size k + n)%nat O kids) end.
  Definition forest_size (l : list relem) : nat := fold_right (fun k n => relem_size k + n)%nat O l.

End Generic.
Arguments relem R : clear implicits.
Arguments cur R : clear implicits.
Arguments rawfmt R : clear implicits.

(** ------------------------------------------------------------------------------------
    Binary instance: what ttlvReader sees in a byte string. *)

(** ttlvReader.validate on the item at the head of [bs] (non-empty): header present, padded
    value present, type in 1..10, fixed widths exact, big integer non-empty. *)
Definition bin_width_ok (ty l : Z) : bool :=
  if (ty =? T_INT) || (ty =? T_ENUM) || (ty =? T_INTV) then l =? 4
  else if (ty =? T_LONG) || (ty =? T_BOOL) || (ty =? T_DATE) then l =? 8
  else if ty =? T_BIG then negb (l =? 0)
  else true.

Definition bin_head_ok (bs : list Z) : bool :=
  if len bs <? 8 then false else
  let l := unbe (take 4 (drop 4 bs)) in
  let pl := l + pad8 l in
  if len bs - 8 <? pl then false else
  let ty := nth 3 bs 0 in
  if (10 <? ty) || (ty =? 0) then false else
  bin_width_ok ty l.

Fixpoint bin_forest (fuel : nat) (bs : list Z) : list (relem (list Z)) * bool :=
  match fuel with
  | O => ([], true)
  | S f =>
    match bs with
    | [] => ([], false)
    | _ =>
      if negb (bin_head_ok bs) then ([], true) else
      let tag := unbe (take 3 bs) in
      let ty := nth 3 bs 0 in
      let l := unbe (take 4 (drop 4 bs)) in
      let v := take l (drop 8 bs) in
      let kids := if ty =? T_STRUCT then bin_forest f v else ([], false) in
      let rest := bin_forest f (drop (8 + l + pad8 l) bs) in
      (RE tag ty v (fst kids) (snd kids) :: fst rest, snd rest)
    end
  end.

(** newTTLVReader(bs) *)
Definition bin_cursor (bs : list Z) : res (cur (list Z)) :=
  let fr := bin_forest (S (length bs)) bs in c_open (fst fr) (snd fr).

(** bytesToBigInt after fix 4fc19c4: empty = 0; two's complement otherwise (no mutation) *)
Definition bytes_to_big (v : list Z) : Z :=
  match v with
  | [] => 0
  | b0 :: _ => if b0 <? 128 then unbe v else unbe v - 256 ^ len v
  end.

Definition bin_fmt : rawfmt (list Z) := {|
  p_int := fun raw => Ok (to_i32 (unbe raw));
  p_long := fun raw => Ok (to_i64 (unbe raw));
  p_big := fun raw => Ok (bytes_to_big raw);
  p_enum := fun _ _ raw => Ok (unbe raw);
  p_bool := fun raw => Ok (negb (nth 7 raw 0 =? 0));
  p_text := fun raw => Ok raw;
  p_bytes := fun raw => Ok raw;
  p_date := fun raw => Ok (to_i64 (unbe raw));
  p_intv := fun raw => Ok (unbe raw);
  p_mask := fun _ _ raw => Ok (to_i32 (unbe raw));
  strict_close := false;
|}.

(** ttlv.UnmarshalTTLV(bs, &ttlv.Value{}) : Value.DecodeTTLV = TagDecodeTTLV(d, d.Tag()) *)
Definition unmarshal_value (bs : list Z) : res item :=
  do c <- bin_cursor bs ;;
  do r <- dec_value bin_fmt (S (S (length bs))) (c_tag c) c ;;
  Ok (fst r).
