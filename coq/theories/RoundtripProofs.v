(** The struct-level round trip (C01, and through it C04, C18): decoding what the encoder
    wrote, through ANY reader format whose raw forest is faithful to the writer calls,
    returns the value that was encoded and consumes exactly its items. *)
From Coq Require Import ZArith List Bool String Lia PeanoNat.
From KV Require Import Base BaseProofs Wire WireProofs Cursor CursorProofs Schema SchemaSem SchemaSemEq FaithfulProofs Roundtrip RoundtripEq.
Import ListNotations.
Open Scope Z_scope.

(** ** soundness of the boolean equalities *)
Lemma zlist_eqb_s_eq a : forall b, zlist_eqb_s a b = true -> a = b.
Proof.
  induction a as [|x xs IH]; intros [|y ys] H; cbn [zlist_eqb_s] in H; try discriminate; [reflexivity|].
  apply andb_true_iff in H. destruct H as [H1 H2]. apply Z.eqb_eq in H1. subst. f_equal. apply IH, H2.
Qed.

Lemma item_eqb_eq a : forall b, item_eqb a b = true -> a = b.
Proof.
  induction a as [tag kids IH|tag v|tag v|tag v|tag r v|tag b0|tag s|tag s|tag v|tag v|tag r v] using item_ind';
    intros b H; destruct b; cbn [item_eqb] in H; try discriminate;
    repeat match goal with H : _ && _ = true |- _ => apply andb_true_iff in H; destruct H end;
    repeat match goal with H : (_ =? _) = true |- _ => apply Z.eqb_eq in H; subst end;
    try reflexivity.
  - f_equal. revert kids0 H0. induction IH as [|k ks Hk _ IHks]; intros [|q qs] H; try discriminate; [reflexivity|].
    apply andb_true_iff in H. destruct H as [H1 H2]. f_equal; [apply Hk, H1 | apply IHks, H2].
  - f_equal. apply Bool.eqb_prop. assumption.
  - f_equal. match goal with H : _ = true |- _ => revert H end. generalize s0. induction s as [|x xs IHs]; intros [|y ys] H; try discriminate; [reflexivity|].
    apply andb_true_iff in H. destruct H as [H1 H2]. apply Z.eqb_eq in H1. subst. f_equal. apply IHs, H2.
  - f_equal. match goal with H : _ = true |- _ => revert H end. generalize s0. induction s as [|x xs IHs]; intros [|y ys] H; try discriminate; [reflexivity|].
    apply andb_true_iff in H. destruct H as [H1 H2]. apply Z.eqb_eq in H1. subst. f_equal. apply IHs, H2.
Qed.

Lemma kind_eqb_eq a b : kind_eqb a b = true -> a = b.
Proof. destruct a, b; cbn; intros H; try discriminate; try reflexivity; apply Z.eqb_eq in H; subst; reflexivity. Qed.

Lemma ty_eqb_eq a : forall b, ty_eqb a b = true -> a = b.
Proof.
  induction a as [k|t IH|t IH|n|n]; intros b H; destruct b; cbn [ty_eqb] in H; try discriminate.
  - f_equal. apply kind_eqb_eq, H.
  - f_equal. apply IH, H.
  - f_equal. apply IH, H.
  - f_equal. apply String.eqb_eq, H.
  - f_equal. apply String.eqb_eq, H.
Qed.

Section ValueInd.
  Variable P : value -> Prop.
  Hypothesis Hint : forall z, P (VInt z).
  Hypothesis Hbool : forall b, P (VBool b).
  Hypothesis Hstr : forall s, P (VStr s).
  Hypothesis Hemp : P VEmptyBytes.
  Hypothesis Hnil : P VNil.
  Hypothesis Hptr : forall v, P v -> P (VPtr v).
  Hypothesis Hlist : forall l, Forall P l -> P (VList l).
  Hypothesis Hstruct : forall n fs, Forall P fs -> P (VStruct n fs).
  Hypothesis Hiface : forall t v, P v -> P (VIface t v).
  Hypothesis Htree : forall i, P (VTree i).
  Fixpoint value_ind' (v : value) : P v :=
    let go := (fix go (l : list value) : Forall P l :=
                 match l with [] => Forall_nil P | x :: xs => Forall_cons x (value_ind' x) (go xs) end) in
    match v with
    | VInt z => Hint z | VBool b => Hbool b | VStr s => Hstr s | VEmptyBytes => Hemp | VNil => Hnil
    | VPtr w => Hptr w (value_ind' w)
    | VList l => Hlist l (go l)
    | VStruct n fs => Hstruct n fs (go fs)
    | VIface t w => Hiface t w (value_ind' w)
    | VTree i => Htree i
    end.
End ValueInd.

Lemma value_eqb_eq a : forall b, value_eqb a b = true -> a = b.
Proof.
  induction a as [z|b0|s| | |w IH|l IH|n fs IH|t w IH|i] using value_ind'; intros b H; destruct b; cbn [value_eqb] in H; try discriminate.
  - apply Z.eqb_eq in H. subst. reflexivity.
  - f_equal. apply Bool.eqb_prop, H.
  - f_equal. apply zlist_eqb_s_eq, H.
  - reflexivity.
  - reflexivity.
  - f_equal. apply IH, H.
  - f_equal. revert l0 H. induction IH as [|k ks Hk _ IHks]; intros [|q qs] H; try discriminate; [reflexivity|].
    apply andb_true_iff in H. destruct H as [H1 H2]. f_equal; [apply Hk, H1 | apply IHks, H2].
  - apply andb_true_iff in H. destruct H as [Hn H]. apply String.eqb_eq in Hn. subst. f_equal.
    revert fs0 H. induction IH as [|k ks Hk _ IHks]; intros [|q qs] H; try discriminate; [reflexivity|].
    apply andb_true_iff in H. destruct H as [H1 H2]. f_equal; [apply Hk, H1 | apply IHks, H2].
  - apply andb_true_iff in H. destruct H as [Ht H]. apply ty_eqb_eq in Ht. subst. f_equal. apply IH, H.
  - f_equal. apply item_eqb_eq, H.
Qed.

(** ** scalars *)
Section RT.
  Variable S : schema.
  Variables (OPS : op_table) (ATTRS : attr_table) (OBJS : obj_table).
  Context {R : Type}.
  Variable F : rawfmt R.

  Local Notation enc_ty := (enc_ty S).
  Local Notation enc_list := (enc_list S).
  Local Notation enc_fields := (enc_fields S).
  Local Notation dec_ty := (dec_ty S OPS ATTRS OBJS F).
  Local Notation dec_slice := (dec_slice S OPS ATTRS OBJS F).
  Local Notation dec_fields_s := (dec_fields_s S OPS ATTRS OBJS F).
  Local Notation conf_ty := (conf_ty S OPS ATTRS OBJS).
  Local Notation conf_list := (conf_list S OPS ATTRS OBJS).
  Local Notation conf_fields := (conf_fields S OPS ATTRS OBJS).

  (** a scalar is written as one item under its tag, and read back from a faithful element *)
  Lemma scalar_rt k tag v l :
    enc_scalar k tag v = Ok l -> scalar_ok k v = true ->
    exists i, l = [i] /\ itag i = tag /\ item_size i = 1%nat /\
      forall (e : relem R) rest, faithful1 F i e -> dec_scalar F k tag (e :: rest, false) = Ok (v, (rest, false)).
  Proof.
    intros He Hk.
    destruct k; destruct v; cbn [enc_scalar] in He; try discriminate; cbn [scalar_ok] in Hk; try discriminate;
      injection He as <-; eexists; (split; [reflexivity|]); (split; [reflexivity|]); (split; [reflexivity|]);
      intros e rest Hf; inversion Hf; subst; cbn [dec_scalar];
      unfold c_integer, c_long, c_big, c_enum, c_bool, c_text, c_bytes, c_date, c_intv, c_mask;
      erewrite c_scalar_hit by eassumption; cbn [bind fst snd]; try reflexivity;
      first [ match goal with H : (0 <=? ?z) = true |- _ => apply Z.leb_le in H; destruct (Z.ltb_spec z 0); [lia | reflexivity] end
            | match goal with |- Ok (vbytes ?s, _) = _ => destruct s; [discriminate Hk | reflexivity] end ].
  Qed.

  (** ** structures that do not look at the version *)
  Lemma version_in_none st : version_in st None = true.
  Proof. destruct st; reflexivity. Qed.

  Lemma plain_field_facts fd : plain_field fd = true ->
    f_tag fd <> 0 /\ f_omit fd = false /\ f_setver fd = false /\ f_range fd = None /\ exists k, f_ty fd = TScalar k.
  Proof.
    unfold plain_field. rewrite !andb_true_iff. intros ((((H1 & H2) & H3) & H4) & H5).
    apply negb_true_iff in H1, H2, H3. apply Z.eqb_neq in H1.
    destruct (f_range fd); [discriminate|]. destruct (f_ty fd); try discriminate. eauto 10.
  Qed.

  Lemma enc_plain_fields fl : forallb plain_field fl = true ->
    forall f st vl items s', enc_fields f st fl vl = Ok (items, s') ->
      s' = st /\ forall st2, enc_fields f st2 fl vl = Ok (items, st2).
  Proof.
    induction fl as [|fd fl IH]; intros Hp f st vl items s' He; destruct f as [|f]; try discriminate.
    - rewrite enc_fields_eq in He. destruct vl; [|discriminate]. injection He as <- <-. split; [reflexivity|].
      intros st2. rewrite enc_fields_eq. reflexivity.
    - cbn [forallb] in Hp. apply andb_true_iff in Hp. destruct Hp as [Hp1 Hp2].
      destruct (plain_field_facts fd Hp1) as (Ht & Ho & Hs & Hr & k & Hk).
      rewrite enc_fields_eq in He. destruct vl as [|x vl]; [discriminate|].
      apply Z.eqb_neq in Ht. cbv zeta in He. rewrite Ht, Hs, Hr, Ho, Hk in He. rewrite version_in_none in He. cbn [negb andb] in He.
      destruct f as [|f']; [discriminate|]. rewrite enc_ty_eq in He.
      destruct (enc_scalar k (f_tag fd) x) as [l| | |] eqn:El; cbn [bind fst snd] in He; try discriminate.
      destruct (enc_fields (Datatypes.S f') st fl vl) as [[b sb]| | |] eqn:Eb; cbn [bind fst snd] in He; try discriminate.
      injection He as <- <-. destruct (IH Hp2 _ _ _ _ _ Eb) as [-> Hall]. split; [reflexivity|].
      intros st2. rewrite enc_fields_eq. cbv zeta. rewrite Ht, Hs, Hr, Ho, Hk. rewrite version_in_none. cbn [negb andb].
      rewrite enc_ty_eq, El. cbn [bind fst snd]. rewrite Hall. reflexivity.
  Qed.

  Lemma conf_plain_fields fl : forallb plain_field fl = true ->
    forall f st vl s', conf_fields f st fl vl = Some s' ->
      s' = st /\ forall st2, conf_fields f st2 fl vl = Some st2.
  Proof.
    induction fl as [|fd fl IH]; intros Hp f st vl s' He; destruct f as [|f]; try discriminate.
    - rewrite conf_fields_eq in He. destruct vl; [|discriminate]. injection He as <-. split; [reflexivity|].
      intros st2. rewrite conf_fields_eq. reflexivity.
    - cbn [forallb] in Hp. apply andb_true_iff in Hp. destruct Hp as [Hp1 Hp2].
      destruct (plain_field_facts fd Hp1) as (Ht & Ho & Hs & Hr & k & Hk).
      rewrite conf_fields_eq in He. destruct vl as [|x vl]; [discriminate|].
      cbv zeta in He. rewrite Hs, Hr, Ho, Hk in He. rewrite version_in_none in He. cbn [negb andb] in He.
      destruct f as [|f']; [discriminate|]. rewrite conf_ty_eq in He.
      destruct (scalar_ok k x) eqn:Ek; [|discriminate].
      destruct (IH Hp2 _ _ _ _ He) as [-> Hall]. split; [reflexivity|].
      intros st2. rewrite conf_fields_eq. cbv zeta. rewrite Hs, Hr, Ho, Hk. rewrite version_in_none. cbn [negb andb].
      rewrite conf_ty_eq, Ek. apply Hall.
  Qed.

  (** ** helpers *)
  Lemma retag_same i tag : itag i = tag -> retag i tag = i.
  Proof. intros <-. destruct i; reflexivity. Qed.

  Lemma trees_of_some l : forall is, trees_of l = Some is -> l = map VTree is.
  Proof.
    induction l as [|x l IH]; intros is H; cbn [trees_of] in H.
    - injection H as <-. reflexivity.
    - destruct x; cbn [tree_of] in H; try discriminate. destruct (trees_of l) as [is'|]; [|discriminate].
      injection H as <-. cbn [map]. f_equal. apply IH. reflexivity.
  Qed.

  Lemma items_size_app a b : items_size (a ++ b) = (items_size a + items_size b)%nat.
  Proof. unfold items_size. induction a as [|x a IH]; cbn [app fold_right]; [reflexivity | rewrite IH; lia]. Qed.
  Lemma items_size_cons x a : items_size (x :: a) = (item_size x + items_size a)%nat.
  Proof. reflexivity. Qed.
  Lemma item_size_struct tag kids : item_size (IStruct tag kids) = Datatypes.S (items_size kids).
  Proof. reflexivity. Qed.

  Lemma faithful_one_inv i (es : list (relem R)) : faithful F [i] es -> exists e, es = [e] /\ faithful1 F i e.
  Proof. intros H. inversion H as [|i' e il el H1 H2]; subst. inversion H2; subst. eauto. Qed.

  Lemma faithful_nil_inv (es : list (relem R)) : faithful F [] es -> es = [].
  Proof. intros H. inversion H. reflexivity. Qed.

  Lemma faithful_cons_inv i il (es : list (relem R)) : faithful F (i :: il) es ->
    exists e el, es = e :: el /\ faithful1 F i e /\ faithful F il el.
  Proof. intros H. inversion H; subst. eauto. Qed.

  Lemma faithful1_tag i (e : relem R) rest b : faithful1 F i e -> c_tag (e :: rest, b) = itag i.
  Proof. intros H. destruct H; reflexivity. Qed.

  Definition tags_all (tag : Z) (items : list item) : Prop := Forall (fun i => itag i = tag) items.

  Lemma tags_all_hd tag items : tags_all tag items -> items <> [] -> hd_tag items = tag.
  Proof. intros H Hne. destruct items as [|i r]; [contradiction|]. inversion H; subst. reflexivity. Qed.

  Lemma hd_tag_app a b : hd_tag (a ++ b) = match a with [] => hd_tag b | i :: _ => itag i end.
  Proof. destruct a; reflexivity. Qed.

  (** ** the three mutually dependent statements, indexed by the encoder's fuel *)
  (** what the round trip says of one encoded value: the conformance function tracks the
      version state as the encoder does, every item carries the tag asked for, a one-item type
      is one item, a non-zero value of a well-formed type writes something, and the decoder
      reads the value back from any faithful forest, consuming exactly these items *)
  Definition RT_concl (fe : nat) (st : vstate) (t : ty) (tag : Z) (v : value) (items : list item) (st' sc : vstate) : Prop :=
      sc = st' /\ tags_all tag items /\ (one_item t = true -> exists i, items = [i]) /\
      (wf_ty t = true -> is_zero v = false -> items <> []) /\
      forall (es rest : list (relem R)) fd, faithful F items es ->
        (lookahead t = true -> c_tag (rest, false) <> tag) ->
        (fe + 2 * items_size items + 2 <= fd)%nat ->
        dec_ty fd st t tag (es ++ rest, false) = Ok (v, (rest, false), st').

  Definition P_ty (fe : nat) : Prop :=
    forall fc st t tag v items st' sc,
      enc_ty fe st t tag v = Ok (items, st') -> conf_ty fc st t tag v = Some sc ->
      RT_concl fe st t tag v items st' sc.

  Definition P_list (fe : nat) : Prop :=
    forall fc st t tag l items st' sc,
      enc_list fe st t tag l = Ok (items, st') -> conf_list fc st t tag l = Some sc -> one_item t = true ->
      sc = st' /\ tags_all tag items /\ (l <> [] -> items <> []) /\
      forall (es rest : list (relem R)) fd, faithful F items es ->
        c_tag (rest, false) <> tag ->
        (fe + 2 * items_size items + 2 <= fd)%nat ->
        dec_slice fd st t tag (es ++ rest, false) = Ok (l, (rest, false), st').

  Definition P_fields (fe : nat) : Prop :=
    forall fc st fl vl items st' sc,
      enc_fields fe st fl vl = Ok (items, st') -> wf_fields fl = true -> conf_fields fc st fl vl = Some sc ->
      sc = st' /\ (hd_tag items = 0 \/ exists g, In g fl /\ hd_tag items = f_tag g) /\
      forall (es : list (relem R)) fd, faithful F items es ->
        (fe + 2 * items_size items + 2 <= fd)%nat ->
        dec_fields_s fd st fl (es, false) = Ok (vl, ([], false), st').

  (** the hand-written codecs: the same conclusion for a structure whose decoder is hand-written *)
  Definition P_custom (fe : nat) : Prop :=
    forall fc st d tag fs items st' sc,
      find_tdef S (t_name d) = Some d -> t_custom_dec d = true ->
      String.eqb (t_name d) "ttlv.Value" = false -> String.eqb (t_name d) "ttlv.Struct" = false ->
      enc_ty fe st (TNamed (t_name d)) tag (VStruct (t_name d) fs) = Ok (items, st') ->
      conf_custom_of S OPS ATTRS OBJS (conf_ty fc) st d tag fs = Some sc ->
      RT_concl fe st (TNamed (t_name d)) tag (VStruct (t_name d) fs) items st' sc.

  Lemma one_item_no_lookahead t : one_item t = true -> lookahead t = false.
  Proof. destruct t; cbn; intros H; try discriminate; reflexivity. Qed.
  Lemma one_item_wf t : one_item t = true -> wf_ty t = true.
  Proof. destruct t; cbn; intros H; try discriminate; reflexivity. Qed.

  Lemma step_list f : P_ty f -> P_list f -> P_list (Datatypes.S f).
  Proof.
    intros IHt IHl fc st t tag l items st' sc He Hc Hone. destruct fc as [|fc]; [discriminate|].
    rewrite enc_list_eq in He. rewrite conf_list_eq in Hc.
    destruct l as [|x r].
    - injection He as <- <-. injection Hc as <-. split; [reflexivity|]. split; [constructor|]. split; [intros H; contradiction|].
      intros es rest fd Hf Hnext Hfd. apply faithful_nil_inv in Hf. subst es. cbn [app].
      destruct fd as [|fd]; [lia|]. rewrite dec_slice_eq.
      destruct (Z.eqb_spec (c_tag (rest, false)) tag); [contradiction|]. reflexivity.
    - destruct (enc_ty f st t tag x) as [[a sa]| | |] eqn:Ea; cbn [bind fst snd] in He; try discriminate.
      destruct (enc_list f sa t tag r) as [[b sb]| | |] eqn:Eb; cbn [bind fst snd] in He; try discriminate.
      injection He as <- <-.
      destruct (conf_ty fc st t tag x) as [s1|] eqn:Ec; [|discriminate].
      destruct (IHt _ _ _ _ _ _ _ _ Ea Ec) as (-> & Hta & Hone_a & _ & Hdec_a).
      destruct (IHl _ _ _ _ _ _ _ _ Eb Hc Hone) as (-> & Htb & _ & Hdec_b).
      destruct (Hone_a Hone) as [i ->].
      split; [reflexivity|]. split; [apply Forall_app; split; assumption|]. split; [intros _; discriminate|].
      intros es rest fd Hf Hnext Hfd.
      cbn [app] in Hf. apply faithful_cons_inv in Hf. destruct Hf as (e & eb & -> & He1 & Heb).
      destruct fd as [|fd]; [lia|]. rewrite dec_slice_eq. cbn [app].
      rewrite (faithful1_tag _ _ _ _ He1). inversion Hta as [|? ? Hi _]; subst.
      rewrite Z.eqb_refl. cbn [negb].
      cbn [app] in Hfd. rewrite items_size_cons in Hfd.
      assert (Hd1 : dec_ty fd st t (itag i) ((e :: eb) ++ rest, false) = Ok (x, (eb ++ rest, false), sa)).
      { change ((e :: eb) ++ rest) with ([e] ++ (eb ++ rest)). apply Hdec_a.
        - constructor; [assumption | constructor].
        - rewrite (one_item_no_lookahead _ Hone). discriminate.
        - unfold items_size at 1. cbn [fold_right]. lia. }
      cbn [app] in Hd1. rewrite Hd1. cbn [bind fst snd].
      rewrite (Hdec_b eb rest fd Heb Hnext) by lia. reflexivity.
  Qed.


  Lemma find_tdef_name (n : string) d : find_tdef S n = Some d -> t_name d = n.
  Proof.
    induction S as [|d0 r IH]; cbn [find_tdef]; [discriminate|].
    destruct (String.eqb (t_name d0) n) eqn:E; [intros H; injection H as <-; apply String.eqb_eq, E | exact IH].
  Qed.

  Lemma step_ty f : P_ty f -> P_list f -> P_fields f -> P_custom (Datatypes.S f) -> P_ty (Datatypes.S f).
  Proof.
    intros IHt IHl IHf IHc fc st t tag v items st' sc He Hc. destruct fc as [|fc]; [discriminate|]. pose proof He as He0.
    rewrite enc_ty_eq in He. rewrite conf_ty_eq in Hc.
    destruct t as [k|t'|t'|n|n].
    - (* scalar *)
      destruct (enc_scalar k tag v) as [l| | |] eqn:El; cbn [bind] in He; try discriminate. injection He as <- <-.
      destruct (scalar_ok k v) eqn:Ek; [|discriminate]. injection Hc as <-.
      destruct (scalar_rt k tag v l El Ek) as (i & -> & Hi & Hsz & Hrd).
      split; [reflexivity|]. split; [constructor; [exact Hi | constructor]|]. split; [eauto|]. split; [intros; discriminate|].
      intros es rest fd Hf _ Hfd. apply faithful_one_inv in Hf. destruct Hf as (e & -> & He1).
      destruct fd as [|fd]; [lia|]. rewrite dec_ty_eq. cbn [app]. rewrite (Hrd e rest He1). reflexivity.
    - (* pointer *)
      destruct v as [| | | | |w| | | |]; try discriminate.
      + injection He as <- <-. injection Hc as <-.
        split; [reflexivity|]. split; [constructor|]. split; [discriminate|]. split; [intros _ H; discriminate H|].
        intros es rest fd Hf Hnext Hfd. apply faithful_nil_inv in Hf. subst es. cbn [app].
        destruct fd as [|fd]; [lia|]. rewrite dec_ty_eq.
        destruct (Z.eqb_spec (c_tag (rest, false)) tag) as [E|_]; [exfalso; apply (Hnext eq_refl E) | reflexivity].
      + destruct (one_item t') eqn:Hone; [|discriminate].
        destruct (IHt _ _ _ _ _ _ _ _ He Hc) as (-> & Hta & Hone_a & _ & Hdec).
        destruct (Hone_a Hone) as [i ->].
        split; [reflexivity|]. split; [exact Hta|]. split; [discriminate|]. split; [intros; discriminate|].
        intros es rest fd Hf _ Hfd. apply faithful_one_inv in Hf. destruct Hf as (e & -> & He1).
        destruct fd as [|fd]; [lia|]. rewrite dec_ty_eq. cbn [app].
        rewrite (faithful1_tag _ _ _ _ He1). inversion Hta as [|? ? Hi _]; subst. rewrite Z.eqb_refl. cbn [negb].
        assert (Hd : dec_ty fd st t' (itag i) ([e] ++ rest, false) = Ok (w, (rest, false), st')).
        { apply Hdec; [constructor; [assumption | constructor] | rewrite (one_item_no_lookahead _ Hone); discriminate | lia]. }
        cbn [app] in Hd. rewrite Hd. reflexivity.
    - (* slice *)
      destruct v as [| | | | | |l| | |]; try discriminate.
      destruct (one_item t') eqn:Hone; [|discriminate].
      destruct (IHl _ _ _ _ _ _ _ _ He Hc Hone) as (-> & Hta & Hne & Hdec).
      split; [reflexivity|]. split; [exact Hta|]. split; [discriminate|].
      split; [intros _ Hz; apply Hne; destruct l; [discriminate Hz | discriminate]|].
      intros es rest fd Hf Hnext Hfd. destruct fd as [|fd]; [lia|]. rewrite dec_ty_eq.
      rewrite (Hdec es rest fd Hf (Hnext eq_refl)) by lia. reflexivity.
    - (* named *)
      destruct (String.eqb n "ttlv.Value") eqn:EV.
      { destruct v as [| | | | | | | | |i]; try discriminate. injection He as <- <-.
        destruct (tree_shaped i && (itag i =? tag)) eqn:Hts; [|discriminate]. injection Hc as <-.
        apply andb_true_iff in Hts. destruct Hts as [Hsh Htag]. apply Z.eqb_eq in Htag.
        rewrite (retag_same i tag Htag).
        split; [reflexivity|]. split; [constructor; [exact Htag | constructor]|]. split; [eauto|]. split; [intros; discriminate|].
        intros es rest fd Hf _ Hfd. apply faithful_one_inv in Hf. destruct Hf as (e & -> & He1).
        destruct fd as [|fd]; [lia|]. rewrite dec_ty_eq, EV. cbn [app].
        destruct (dec_value_faithful F fd) as [Hv _]. rewrite <- Htag.
        rewrite (Hv i e rest Hsh He1). { reflexivity. }
        unfold items_size in Hfd. cbn [fold_right] in Hfd. lia. }
      destruct (String.eqb n "ttlv.Struct") eqn:ES.
      { destruct v as [| | | | | |l| | |]; try discriminate.
        destruct (trees_of l) as [is|] eqn:Etr; [|discriminate]. injection He as <- <-.
        destruct (forallb tree_shaped is && forallb (fun k => negb (itag k =? 0)) is) eqn:Hts; [|discriminate]. injection Hc as <-.
        apply andb_true_iff in Hts. destruct Hts as [Hsh Htags].
        split; [reflexivity|]. split; [constructor; [reflexivity | constructor]|]. split; [eauto|]. split; [intros; discriminate|].
        intros es rest fd Hf _ Hfd. apply faithful_one_inv in Hf. destruct Hf as (e & -> & He1).
        inversion He1 as [tag0 kids raw eks Hk| | | | | | | | | |]; subst.
        destruct fd as [|fd]; [lia|]. rewrite dec_ty_eq, EV, ES. cbn [app].
        unfold c_struct. rewrite c_expect_hit. cbn [bind]. rewrite c_open_good. cbn [bind].
        destruct (dec_value_faithful F fd) as [_ Hfs].
        rewrite (Hfs is eks Hsh Htags Hk).
        2:{ unfold items_size at 1 in Hfd. cbn [fold_right] in Hfd. rewrite item_size_struct in Hfd. lia. }
        cbn [bind fst snd]. rewrite andb_false_r. rewrite c_next_cons. cbn [bind fst snd].
        rewrite (trees_of_some l is Etr). reflexivity. }
      destruct (find_tdef S n) as [d|] eqn:Ed; [|discriminate].
      destruct v as [| | | | | | |n' fs| |]; try discriminate.
      destruct (String.eqb n n' && negb (t_custom_enc d) && negb (t_custom_dec d) && wf_fields (t_fields d)) eqn:Hcond.
      2:{ (* a structure with a hand-written decoder *)
        destruct (String.eqb n n' && t_custom_dec d) eqn:Hc2; [|discriminate].
        apply andb_true_iff in Hc2. destruct Hc2 as [Hn Hcd]. apply String.eqb_eq in Hn. subst n'.
        pose proof (find_tdef_name n d Ed) as Hnm. subst n.
        exact (IHc _ _ _ _ _ _ _ _ Ed Hcd EV ES He0 Hc). }
      apply andb_true_iff in Hcond. destruct Hcond as [Hcond Hwf]. apply andb_true_iff in Hcond. destruct Hcond as [Hcond Hcd].
      apply andb_true_iff in Hcond. destruct Hcond as [Hn Hce]. apply String.eqb_eq in Hn. subst n'.
      apply negb_true_iff in Hce, Hcd. rewrite Hce in He.
      destruct (enc_fields f st (t_fields d) fs) as [[kids s2]| | |] eqn:Ef; cbn [bind fst snd] in He; try discriminate.
      injection He as <- <-.
      destruct (IHf _ _ _ _ _ _ _ Ef Hwf Hc) as (-> & _ & Hdec).
      split; [reflexivity|]. split; [constructor; [reflexivity | constructor]|]. split; [eauto|]. split; [intros; discriminate|].
      intros es rest fd Hf _ Hfd. apply faithful_one_inv in Hf. destruct Hf as (e & -> & He1).
      inversion He1 as [tag0 kids0 raw eks Hk| | | | | | | | | |]; subst.
      destruct fd as [|fd]; [lia|]. rewrite dec_ty_eq, EV, ES, Ed, Hcd. cbn [app].
      unfold c_struct. rewrite c_expect_hit. cbn [bind]. rewrite c_open_good. cbn [bind].
      rewrite (Hdec eks fd Hk).
      2:{ unfold items_size at 1 in Hfd. cbn [fold_right] in Hfd. rewrite item_size_struct in Hfd. lia. }
      cbn [bind fst snd]. rewrite andb_false_r. rewrite c_next_cons. reflexivity.
    - (* interface: not in the reflective fragment *) discriminate.
  Qed.

  Lemma forallb_neq_tag (fl : list field) tag : forallb (fun g => negb (f_tag g =? tag)) fl = true ->
    forall g, In g fl -> f_tag g <> tag.
  Proof. rewrite forallb_forall. intros H g Hg E. specialize (H g Hg). rewrite E, Z.eqb_refl in H. discriminate. Qed.

  (** state-independence of a plain structure, lifted to [enc_ty] / [conf_ty] *)
  Lemma plain_enc_ty t : plain_struct S t = true ->
    forall f st tag x items s', enc_ty f st t tag x = Ok (items, s') ->
      s' = st /\ forall st2, enc_ty f st2 t tag x = Ok (items, st2).
  Proof.
    intros Hp f st tag x items s' He. unfold plain_struct in Hp. destruct t as [| | |n|]; try discriminate.
    destruct (find_tdef S n) as [d|] eqn:Ed; [|discriminate].
    rewrite !andb_true_iff in Hp. destruct Hp as ((((Hce & Hcd) & Hpl) & HV) & HS).
    apply negb_true_iff in Hce, Hcd, HV, HS.
    destruct f as [|f]; [discriminate|]. rewrite enc_ty_eq, HV, HS, Ed in He.
    destruct x as [| | | | | | |n' fs| |]; try discriminate. rewrite Hce in He.
    destruct (enc_fields f st (t_fields d) fs) as [[kids s2]| | |] eqn:Ef; cbn [bind fst snd] in He; try discriminate.
    injection He as <- <-. destruct (enc_plain_fields _ Hpl _ _ _ _ _ Ef) as [-> Hall].
    split; [reflexivity|]. intros st2. rewrite enc_ty_eq, HV, HS, Ed, Hce, Hall. reflexivity.
  Qed.

  Lemma plain_conf_ty t : plain_struct S t = true ->
    forall f st tag x s', conf_ty f st t tag x = Some s' ->
      s' = st /\ forall st2, conf_ty f st2 t tag x = Some st2.
  Proof.
    intros Hp f st tag x s' He. unfold plain_struct in Hp. destruct t as [| | |n|]; try discriminate.
    destruct (find_tdef S n) as [d|] eqn:Ed; [|discriminate].
    rewrite !andb_true_iff in Hp. destruct Hp as ((((Hce & Hcd) & Hpl) & HV) & HS).
    apply negb_true_iff in HV, HS.
    destruct f as [|f]; [discriminate|]. rewrite conf_ty_eq, HV, HS, Ed in He.
    destruct x as [| | | | | | |n' fs| |]; try discriminate.
    destruct (String.eqb n n' && negb (t_custom_enc d) && negb (t_custom_dec d) && wf_fields (t_fields d)) eqn:Hcond.
    2:{ apply negb_true_iff in Hcd. rewrite Hcd, andb_false_r in He. discriminate. }
    destruct (conf_plain_fields _ Hpl _ _ _ _ He) as [-> Hall].
    split; [reflexivity|]. intros st2. rewrite conf_ty_eq, HV, HS, Ed, Hcond. apply Hall.
  Qed.

  Lemma step_fields f : P_ty f -> P_fields f -> P_fields (Datatypes.S f).
  Proof.
    intros IHt IHf fc st fl vl items st' sc He Hwf Hc. destruct fc as [|fc]; [discriminate|].
    rewrite enc_fields_eq in He. rewrite conf_fields_eq in Hc.
    destruct fl as [|fd fl'].
    { destruct vl; [|discriminate]. injection He as <- <-. injection Hc as <-.
      split; [reflexivity|]. split; [left; reflexivity|].
      intros es fd Hf Hfd. apply faithful_nil_inv in Hf. subst es. destruct fd as [|fd]; [lia|]. rewrite dec_fields_s_eq. reflexivity. }
    destruct vl as [|x vl']; [discriminate|].
    cbn [wf_fields] in Hwf. rewrite !andb_true_iff in Hwf. destruct Hwf as ((((Htag0 & Hwty) & Hdist) & Hsv) & Hwfr).
    apply negb_true_iff in Htag0. rewrite Htag0 in He. cbv zeta in He, Hc.
    set (st1 := if f_setver fd then ver_of_value x else st) in *.
    destruct (f_setver fd && negb (plain_struct S (f_ty fd))) eqn:Hsvp; [discriminate|].
    (* facts about set-version fields *)
    assert (Hsv' : f_setver fd = true -> f_omit fd = false /\ f_range fd = None /\ plain_struct S (f_ty fd) = true).
    { intros E. rewrite E in Hsv, Hsvp. cbn [andb] in Hsvp. apply negb_false_iff in Hsvp.
      apply andb_true_iff in Hsv. destruct Hsv as [Ho Hr]. apply negb_true_iff in Ho.
      destruct (f_range fd); [discriminate|]. auto. }
    assert (Hst1 : f_setver fd = false -> st1 = st) by (intros E; unfold st1; rewrite E; reflexivity).
    (* what follows an optional field has another tag *)
    assert (Hlater : opt_field fd = true -> forall b sb, enc_fields f st1 fl' vl' = Ok (b, sb) ->
              forall sc', conf_fields fc st1 fl' vl' = Some sc' -> hd_tag b <> f_tag fd).
    { intros Hopt b sb Eb sc' Ec'. rewrite Hopt in Hdist.
      destruct (IHf _ _ _ _ _ _ _ Eb Hwfr Ec') as (_ & [H0|(g & Hg & Hgt)] & _).
      - rewrite H0. apply Z.eqb_neq in Htag0. congruence.
      - rewrite Hgt. apply (forallb_neq_tag fl' (f_tag fd) Hdist g Hg). }
    destruct (negb (version_in st1 (f_range fd))) eqn:Hver.
    - (* outside the version range: nothing written, zero value read *)
      cbn [bind fst snd app] in He.
      destruct (enc_fields f st1 fl' vl') as [[b sb]| | |] eqn:Eb; cbn [bind fst snd] in He; try discriminate. injection He as <- <-.
      destruct (value_eqb x (zero_of S 8 (f_ty fd))) eqn:Hz; [|discriminate]. apply value_eqb_eq in Hz.
      assert (Hr : exists r, f_range fd = Some r) by (destruct (f_range fd); [eauto | rewrite version_in_none in Hver; discriminate]).
      destruct Hr as [r Hr].
      assert (Hns : f_setver fd = false).
      { destruct (f_setver fd) eqn:E; [|reflexivity]. destruct (Hsv' eq_refl) as (_ & Hrn & _). congruence. }
      rewrite (Hst1 Hns) in *.
      assert (Hopt : opt_field fd = true) by (unfold opt_field; rewrite Hr; apply orb_true_iff; left; apply orb_true_r).
      destruct (IHf _ _ _ _ _ _ _ Eb Hwfr Hc) as (-> & Hhd & Hdec).
      split; [reflexivity|]. split; [destruct Hhd as [H0|(g & Hg & Hgt)]; [left; exact H0 | right; exists g; split; [right; exact Hg | exact Hgt]]|].
      intros es fd0 Hf Hfd. destruct fd0 as [|fd0]; [lia|]. rewrite dec_fields_s_eq, Htag0, Hver.
      rewrite (faithful_hd_tag F _ _ Hf).
      destruct (Z.eqb_spec (hd_tag b) (f_tag fd)) as [E|_]; [exfalso; exact (Hlater Hopt _ _ eq_refl _ Hc E)|].
      cbn [negb andb bind fst snd]. rewrite Hns. rewrite (Hdec es fd0 Hf) by lia. rewrite <- Hz. reflexivity.
    - destruct (f_omit fd && is_zero x) eqn:Hom.
      + (* empty omitempty field *)
        cbn [bind fst snd app] in He.
        destruct (enc_fields f st1 fl' vl') as [[b sb]| | |] eqn:Eb; cbn [bind fst snd] in He; try discriminate. injection He as <- <-.
        destruct (value_eqb x (zero_of S 8 (f_ty fd))) eqn:Hz; [|discriminate]. apply value_eqb_eq in Hz.
        apply andb_true_iff in Hom. destruct Hom as [Ho _].
        assert (Hns : f_setver fd = false).
        { destruct (f_setver fd) eqn:E; [|reflexivity]. destruct (Hsv' eq_refl) as (Hof & _). congruence. }
        rewrite (Hst1 Hns) in *.
        assert (Hopt : opt_field fd = true) by (unfold opt_field; rewrite Ho; reflexivity).
        destruct (IHf _ _ _ _ _ _ _ Eb Hwfr Hc) as (-> & Hhd & Hdec).
        split; [reflexivity|]. split; [destruct Hhd as [H0|(g & Hg & Hgt)]; [left; exact H0 | right; exists g; split; [right; exact Hg | exact Hgt]]|].
        intros es fd0 Hf Hfd. destruct fd0 as [|fd0]; [lia|]. rewrite dec_fields_s_eq, Htag0, Hver.
        rewrite (faithful_hd_tag F _ _ Hf).
        destruct (Z.eqb_spec (hd_tag b) (f_tag fd)) as [E|_]; [exfalso; exact (Hlater Hopt _ _ eq_refl _ Hc E)|].
        cbn [negb andb]. rewrite Ho. cbn [andb bind fst snd]. rewrite Hns. rewrite (Hdec es fd0 Hf) by lia. rewrite <- Hz. reflexivity.
      + (* the field is written *)
        destruct (enc_ty f st1 (f_ty fd) (f_tag fd) x) as [[a sa]| | |] eqn:Ea; cbn [bind fst snd] in He; try discriminate.
        destruct (enc_fields f sa fl' vl') as [[b sb]| | |] eqn:Eb; cbn [bind fst snd] in He; try discriminate. injection He as <- <-.
        destruct (conf_ty fc st1 (f_ty fd) (f_tag fd) x) as [sca|] eqn:Eca; [|discriminate].
        destruct (IHt _ _ _ _ _ _ _ _ Ea Eca) as (-> & Hta & _ & Hne & Hdec_a).
        destruct (IHf _ _ _ _ _ _ _ Eb Hwfr Hc) as (-> & Hhd & Hdec_b).
        split; [reflexivity|].
        split.
        { rewrite hd_tag_app. destruct a as [|i a'].
          - destruct Hhd as [H0|(g & Hg & Hgt)]; [left; exact H0 | right; exists g; split; [right; exact Hg | exact Hgt]].
          - right. exists fd. split; [left; reflexivity|]. inversion Hta; assumption. }
        intros es fd0 Hf Hfd. apply faithful_app_inv in Hf. destruct Hf as (ea & eb & -> & Hfa & Hfb).
        rewrite items_size_app in Hfd.
        destruct fd0 as [|fd0]; [lia|]. rewrite dec_fields_s_eq, Htag0.
        (* the two wrapper tests are false *)
        assert (Hv_st : version_in st (f_range fd) = true).
        { destruct (f_setver fd) eqn:E.
          - destruct (Hsv' eq_refl) as (_ & -> & _). apply version_in_none.
          - rewrite <- (Hst1 eq_refl). apply negb_false_iff, Hver. }
        rewrite Hv_st. cbn [negb andb].
        assert (Htest2 : f_omit fd && negb (c_tag (ea ++ eb, false) =? f_tag fd) = false).
        { destruct (f_omit fd) eqn:Ho; [|reflexivity]. cbn [andb] in Hom |- *.
          assert (Hane : a <> []) by (apply Hne; assumption).
          destruct a as [|i a']; [contradiction|]. apply faithful_cons_inv in Hfa. destruct Hfa as (e & el & -> & He1 & _).
          cbn [app]. rewrite (faithful1_tag _ _ _ _ He1). inversion Hta as [|? ? Hi _]. rewrite Hi, Z.eqb_refl. reflexivity. }
        rewrite Htest2.
        (* lookahead condition for this field *)
        assert (Hnext : lookahead (f_ty fd) = true -> c_tag (eb, false) <> f_tag fd).
        { intros Hl. rewrite (faithful_hd_tag F _ _ Hfb).
          assert (Hopt : opt_field fd = true) by (unfold opt_field; rewrite Hl; apply orb_true_r).
          intros E. destruct (f_setver fd) eqn:Esv.
          - destruct (Hsv' eq_refl) as (_ & _ & Hpl). destruct (f_ty fd); discriminate.
          - destruct (IHf _ _ _ _ _ _ _ Eb Hwfr Hc) as (_ & [H0|(g & Hg & Hgt)] & _).
            + apply Z.eqb_neq in Htag0. congruence.
            + rewrite Hopt in Hdist. apply (forallb_neq_tag fl' (f_tag fd) Hdist g Hg). congruence. }
        destruct (f_setver fd) eqn:Esv.
        * (* set-version field: a plain structure, coded the same under any version state *)
          destruct (Hsv' eq_refl) as (_ & _ & Hpl).
          destruct (plain_enc_ty _ Hpl _ _ _ _ _ _ Ea) as [-> Hany].
          destruct (plain_conf_ty _ Hpl _ _ _ _ _ Eca) as [_ Hcany].
          destruct (IHt _ _ _ _ _ _ _ _ (Hany st) (Hcany st)) as (_ & _ & _ & _ & Hdec_st).
          rewrite (Hdec_st ea eb fd0 Hfa Hnext) by lia. cbn [bind fst snd].
          fold st1. rewrite (Hdec_b eb fd0 Hfb) by lia. reflexivity.
        * rewrite (Hst1 eq_refl) in *.
          rewrite (Hdec_a ea eb fd0 Hfa Hnext) by lia. cbn [bind fst snd].
          rewrite (Hdec_b eb fd0 Hfb) by lia. reflexivity.
  Qed.

  (** everything below a fuel level (the hand-written codecs reach several levels down) *)
  Definition Q (f : nat) : Prop := forall g, (g <= f)%nat -> P_ty g /\ P_list g /\ P_fields g.

  (** the struct-level round trip, for every encoder fuel, given the hand-written codecs
      (discharged in RoundtripCustoms.v) *)
  Theorem rt_all_with : (forall f, Q f -> P_custom (Datatypes.S f)) ->
    forall fe, P_ty fe /\ P_list fe /\ P_fields fe.
  Proof.
    intros Hcust.
    assert (HQ : forall fe, Q fe).
    { induction fe as [|f IH]; intros g Hg.
      - assert (g = O) by lia. subst g.
        split; [intros fc st t tag v items st' sc H; discriminate H|].
        split; [intros fc st t tag l items st' sc H; discriminate H | intros fc st fl vl items st' sc H; discriminate H].
      - destruct (Nat.eq_dec g (Datatypes.S f)) as [->|Hne]; [|apply IH; lia].
        destruct (IH f (Nat.le_refl f)) as (IHt & IHl & IHf).
        split; [apply step_ty; try assumption; apply Hcust, IH | split; [apply step_list; assumption | apply step_fields; assumption]]. }
    intros fe. exact (HQ fe fe (Nat.le_refl fe)).
  Qed.
End RT.
