(** Decoder side of payloads.GetResponsePayload, RegisterRequestPayload (two required fields)
    and ExportResponsePayload (three), then the managed object selected by the object type read
    first: reflective encoder, hand-written decoder. *)
From Coq Require Import ZArith List Bool String Lia PeanoNat.
From KV Require Import Base BaseProofs Wire WireProofs Cursor CursorProofs Schema SchemaSem SchemaSemEq FaithfulProofs
  Roundtrip RoundtripEq RoundtripProofs RtCustomLib Normalize NormalizeEq DecConfDefs NormProofs DecConfLib DecConfProofs DecConfCustomLib.
Import ListNotations.
Open Scope Z_scope.

Section TO.
  Variable S : schema.
  Variables (OPS : op_table) (ATTRS : attr_table) (OBJS : obj_table).
  Context {R : Type}.
  Variable F : rawfmt R.
  Variable eok : relem R -> bool.
  Hypothesis HR : fmt_ranged F eok.
  Hypothesis HS : schema_ok S OPS ATTRS OBJS = true.

  Local Notation enc_ty := (enc_ty S).
  Local Notation norm_ty := (norm_ty S).
  Local Notation dec_ty := (dec_ty S OPS ATTRS OBJS F).
  Local Notation dec_object := (dec_object S OPS ATTRS OBJS F).
  Local Notation conf_ty := (conf_ty S OPS ATTRS OBJS).
  Local Notation c_ok := (c_ok eok).
  Local Notation Good := (Good S OPS ATTRS OBJS).
  Local Notation Rng := (Rng eok).
  Local Notation DQ := (DQ S OPS ATTRS OBJS F eok).
  Local Notation lib x := (x S OPS ATTRS OBJS _ F eok HR HS) (only parsing).

  (** a required field read with [dty]: encoding, normal form, conformance *)
  Lemma req_field f st fl' fd (c : cur R) x c1 s1 :
    DQ f -> req_field_ok S fl' fd = true -> dec_ty f st (f_ty fd) (f_tag fd) c = Ok (x, c1, s1) ->
    s1 = st /\ exists ix x', HeadEN S st fd x ix x' /\
      (exists fc, forall g, (fc <= g)%nat -> keeps (conf_ty g) st (f_ty fd) (f_tag fd) x' = true) /\
      (forall k z, f_ty fd = TScalar k -> x = VInt z -> x' = VInt z) /\ Rng c c1 ix.
  Proof.
    intros HQ Hok H. unfold req_field_ok in Hok. rewrite !andb_true_iff in Hok. destruct Hok as ((((Hp & Ho) & Hel) & _) & _).
    apply negb_true_iff in Ho.
    destruct (lib elem_good _ _ _ _ _ _ _ _ HQ Hel H) as (-> & ix & Hg & Rx). split; [reflexivity|].
    destruct (lib head_of_good _ _ _ _ Ho Hg) as (x' & Hhd & (fc & Hcf)).
    exists ix, x'. split; [exact Hhd|]. split; [exists fc; intros g Hge; apply keeps_of_conf, Hcf, Hge|]. split; [|exact Rx].
    intros k z Ek ->. destruct Hhd as (f0 & Hh). destruct (Hh (Datatypes.S f0) ltac:(lia)) as [_ Hn].
    rewrite Ho, Ek in Hn. cbn [andb] in Hn. rewrite norm_ty_eq in Hn. injection Hn as <-. reflexivity.
  Qed.

  Lemma req_field_conf fl' fd : req_field_ok S fl' fd = true ->
    pos_field fd = true /\ negb (f_omit fd) = true /\
    (if lookahead (f_ty fd) then forallb (fun g => negb (f_tag g =? f_tag fd)) fl' else true) = true.
  Proof. unfold req_field_ok. rewrite !andb_true_iff. intros ((((Hp & Ho) & _) & _) & Hl). auto. Qed.

  Lemma obj_distinct fl ot n :
    forallb (fun e => forallb (fun g => negb (f_tag g =? deftag_of S (TNamed (snd e)))) fl) OBJS = true ->
    lookup_obj OBJS ot = Some n -> forallb (fun g => negb (f_tag g =? deftag_of S (TNamed n))) fl = true.
  Proof.
    intros Hall Hl. destruct (lib lookup_obj_in _ _ Hl) as [k Hin]. rewrite forallb_forall in Hall. exact (Hall _ Hin).
  Qed.

  (** two required fields, then the object (Get response, Register request) *)
  Lemma dc_typed2 f : DQ f -> forall st d tag (c : cur R) v c' st',
    find_tdef S (t_name d) = Some d -> t_custom_dec d = true ->
    String.eqb (t_name d) "ttlv.Value" = false -> String.eqb (t_name d) "ttlv.Struct" = false ->
    typed_object_ok S OBJS 2 d = true ->
    dec_get_response F (dec_ty f) (dec_object f) st d tag c = Ok (v, c', st') ->
    exists items, (exists v' f0, forall g, (f0 <= g)%nat ->
        enc_ty g st (TNamed (t_name d)) tag v = Ok (items, st') /\ norm_ty g st (TNamed (t_name d)) v = (v', st') /\
        exists fs', v' = VStruct (t_name d) fs' /\ conf_typed_object S OBJS (conf_ty g) 2 st d tag fs' = Some st') /\ Rng c c' items.
  Proof.
    intros HQ st d tag c v c' st' Ed Hcd EV ES Hok H.
    unfold typed_object_ok in Hok. cbv zeta in Hok. rewrite !andb_true_iff in Hok.
    destruct Hok as ((((((Hce & Hlen) & Hot0) & Hoty) & Hf0) & Hreq) & Hdist).
    destruct (t_fields d) as [|f0 [|f1 [|fo [|? ?]]]] eqn:Hfl; try discriminate.
    cbn [firstn] in Hf0, Hreq, Hdist. unfold nth_field in Hot0, Hoty. rewrite Hfl in Hot0, Hoty. cbn [nth] in Hot0, Hoty.
    pose proof Hce as Hce'. apply negb_true_iff in Hce'.
    cbn [req_fields_ok] in Hreq. rewrite !andb_true_iff in Hreq. destruct Hreq as (Hr0 & Hr1 & _).
    assert (Et0 : exists r0, f_ty f0 = TScalar (KEnum r0)) by (destruct (f_ty f0) as [[]| | | |]; try discriminate; eauto). destruct Et0 as [r0 Et0].
    assert (Hg0 : ftag d 0 = f_tag f0) by (unfold ftag, nth_field; rewrite Hfl; reflexivity).
    assert (Hg1 : ftag d 1 = f_tag f1) by (unfold ftag, nth_field; rewrite Hfl; reflexivity).
    assert (Hy0 : fty d 0 = f_ty f0) by (unfold fty, nth_field; rewrite Hfl; reflexivity).
    assert (Hy1 : fty d 1 = f_ty f1) by (unfold fty, nth_field; rewrite Hfl; reflexivity).
    unfold dec_get_response in H. rewrite Hg0, Hg1, Hy0, Hy1 in H.
    destruct (lib wrap_struct_inv _ _ _ _ _ _ _ H) as (sub & vals & c2 & Hb & -> & Hw). clear H.
    destruct (SchemaSem.dec_ty S OPS ATTRS OBJS F f st (f_ty f0) (f_tag f0) sub) as [[[x0 c_1] s_1]| | |] eqn:E0; cbn [bind fst snd] in Hb; try discriminate.
    destruct (req_field _ _ _ _ _ _ _ _ HQ Hr0 E0) as (-> & i0 & x0' & Hd0 & (fc0 & Hk0) & Hsc0 & R0).
    pose proof E0 as E0'. rewrite Et0 in E0'. destruct (lib dreq_enum_inv _ _ _ _ _ _ _ _ E0') as (_ & ot & -> & _).
    pose proof (Hsc0 _ _ Et0 eq_refl) as ->. cbn [int_of] in Hb.
    destruct (SchemaSem.dec_ty S OPS ATTRS OBJS F f st (f_ty f1) (f_tag f1) c_1) as [[[x1 c_2] s_2]| | |] eqn:E1; cbn [bind fst snd] in Hb; try discriminate.
    destruct (req_field _ _ _ _ _ _ _ _ HQ Hr1 E1) as (-> & i1 & x1' & Hd1 & (fc1 & Hk1) & _ & R1).
    destruct (SchemaSem.dec_object S OPS ATTRS OBJS F f st ot c_2) as [[[ob c_3] s_3]| | |] eqn:Eo; cbn [bind fst snd] in Hb; try discriminate.
    destruct (lib object_good _ _ _ _ _ _ _ HQ Eo) as (-> & n & w & io & Hlo & -> & (w' & fo' & Ho) & Ro).
    injection Hb as <- <- <-.
    assert (Hoen : exists f0', forall g, (f0' <= g)%nat ->
              enc_ty g st (TPtr (TNamed n)) (deftag_of S (TPtr (TNamed n))) (VPtr w) = Ok (io, st) /\ norm_ty g st (TPtr (TNamed n)) (VPtr w) = (VPtr w', st)).
    { exists fo'. intros g Hg. destruct (Ho g Hg) as (O1 & O2 & _). split; [exact O1 | exact O2]. }
    destruct (req_field_conf _ _ Hr0) as (Hp0 & Hno0 & Hl0). destruct (req_field_conf _ _ Hr1) as (Hp1 & Hno1 & Hl1).
    pose proof (lib tail_cons_pos _ _ _ _ _ _ _ _ _ _ Hp0 Hd0 (lib tail_cons_pos _ _ _ _ _ _ _ _ _ _ Hp1 Hd1
                  (lib tail_cons_obj _ _ _ _ _ _ _ _ _ _ _ Hot0 Hoen (lib tail_nil st)))) as (ft & Htl).
    exists [IStruct tag (i0 ++ i1 ++ io ++ [])].
    split.
    - exists (VStruct (t_name d) [VInt ot; x1'; VIface (TPtr (TNamed n)) (VPtr w')]), (Datatypes.S (Nat.max (Nat.max ft fo') (Nat.max fc0 fc1))).
      intros g Hge. destruct g as [|g]; [lia|].
      destruct (Htl g ltac:(lia)) as [T1 T2]. destruct (Ho (Datatypes.S g) ltac:(lia)) as (_ & _ & O3).
      rewrite enc_ty_eq, norm_ty_eq, EV, ES, Ed, Hce', Hfl, T1, T2. cbn [bind fst snd].
      split; [reflexivity|]. split; [reflexivity|]. eexists. split; [reflexivity|].
      unfold conf_typed_object. cbv zeta. cbn [firstn skipn]. rewrite Hfl. cbn [firstn].
      unfold nth_field. rewrite Hfl. cbn [nth]. rewrite Hce, Hot0, Hoty, Hf0. cbn [List.length Nat.eqb andb].
      cbn [conf_required]. rewrite Hp0, Hp1, Hno0, Hno1, Hl0, Hl1, (Hk0 (Datatypes.S g) ltac:(lia)), (Hk1 (Datatypes.S g) ltac:(lia)), O3. cbn [andb].
      cbn [object_tag deftag_of]. change (deftag_of S (TNamed n)) with (deftag_of S (TNamed n)).
      pose proof (obj_distinct _ _ _ Hdist Hlo) as Hd. cbn [deftag_of] in Hd. rewrite Hd. reflexivity.
    - intros Hc. destruct (Hw Hc) as (Hsub & Hc' & Ht). split; [exact Hc'|].
      destruct (R0 Hsub) as [Hc1 I0]. destruct (R1 Hc1) as [Hc2 I1]. destruct (Ro Hc2) as [_ Io].
      cbn [forallb item_ok]. unfold tag_rng in Ht. rewrite Ht. cbn [andb]. rewrite andb_true_r.
      rewrite !forallb_app, I0, I1, Io. reflexivity.
  Qed.
  (** three required fields, then the object (Export response) *)
  Lemma dc_typed3 f : DQ f -> forall st d tag (c : cur R) v c' st',
    find_tdef S (t_name d) = Some d -> t_custom_dec d = true ->
    String.eqb (t_name d) "ttlv.Value" = false -> String.eqb (t_name d) "ttlv.Struct" = false ->
    typed_object_ok S OBJS 3 d = true ->
    dec_export_response F (dec_ty f) (dec_object f) st d tag c = Ok (v, c', st') ->
    exists items, (exists v' f0, forall g, (f0 <= g)%nat ->
        enc_ty g st (TNamed (t_name d)) tag v = Ok (items, st') /\ norm_ty g st (TNamed (t_name d)) v = (v', st') /\
        exists fs', v' = VStruct (t_name d) fs' /\ conf_typed_object S OBJS (conf_ty g) 3 st d tag fs' = Some st') /\ Rng c c' items.
  Proof.
    intros HQ st d tag c v c' st' Ed Hcd EV ES Hok H.
    unfold typed_object_ok in Hok. cbv zeta in Hok. rewrite !andb_true_iff in Hok.
    destruct Hok as ((((((Hce & Hlen) & Hot0) & Hoty) & Hf0) & Hreq) & Hdist).
    destruct (t_fields d) as [|f0 [|f1 [|f2 [|fo [|? ?]]]]] eqn:Hfl; try discriminate.
    cbn [firstn] in Hf0, Hreq, Hdist. unfold nth_field in Hot0, Hoty. rewrite Hfl in Hot0, Hoty. cbn [nth] in Hot0, Hoty.
    pose proof Hce as Hce'. apply negb_true_iff in Hce'.
    cbn [req_fields_ok] in Hreq. rewrite !andb_true_iff in Hreq. destruct Hreq as (Hr0 & Hr1 & Hr2 & _).
    assert (Et0 : exists r0, f_ty f0 = TScalar (KEnum r0)) by (destruct (f_ty f0) as [[]| | | |]; try discriminate; eauto). destruct Et0 as [r0 Et0].
    assert (Hg0 : ftag d 0 = f_tag f0) by (unfold ftag, nth_field; rewrite Hfl; reflexivity).
    assert (Hg1 : ftag d 1 = f_tag f1) by (unfold ftag, nth_field; rewrite Hfl; reflexivity).
    assert (Hy0 : fty d 0 = f_ty f0) by (unfold fty, nth_field; rewrite Hfl; reflexivity).
    assert (Hy1 : fty d 1 = f_ty f1) by (unfold fty, nth_field; rewrite Hfl; reflexivity).
    assert (Hg2 : ftag d 2 = f_tag f2) by (unfold ftag, nth_field; rewrite Hfl; reflexivity).
    assert (Hy2 : fty d 2 = f_ty f2) by (unfold fty, nth_field; rewrite Hfl; reflexivity).
    unfold dec_export_response in H. rewrite Hg0, Hg1, Hg2, Hy0, Hy1, Hy2 in H.
    destruct (lib wrap_struct_inv _ _ _ _ _ _ _ H) as (sub & vals & c2 & Hb & -> & Hw). clear H.
    destruct (SchemaSem.dec_ty S OPS ATTRS OBJS F f st (f_ty f0) (f_tag f0) sub) as [[[x0 c_1] s_1]| | |] eqn:E0; cbn [bind fst snd] in Hb; try discriminate.
    destruct (req_field _ _ _ _ _ _ _ _ HQ Hr0 E0) as (-> & i0 & x0' & Hd0 & (fc0 & Hk0) & Hsc0 & R0).
    pose proof E0 as E0'. rewrite Et0 in E0'. destruct (lib dreq_enum_inv _ _ _ _ _ _ _ _ E0') as (_ & ot & -> & _).
    pose proof (Hsc0 _ _ Et0 eq_refl) as ->. cbn [int_of] in Hb.
    destruct (SchemaSem.dec_ty S OPS ATTRS OBJS F f st (f_ty f1) (f_tag f1) c_1) as [[[x1 c_2] s_2]| | |] eqn:E1; cbn [bind fst snd] in Hb; try discriminate.
    destruct (req_field _ _ _ _ _ _ _ _ HQ Hr1 E1) as (-> & i1 & x1' & Hd1 & (fc1 & Hk1) & _ & R1).
    destruct (SchemaSem.dec_ty S OPS ATTRS OBJS F f st (f_ty f2) (f_tag f2) c_2) as [[[x2 c_2'] s_2']| | |] eqn:E2; cbn [bind fst snd] in Hb; try discriminate.
    destruct (req_field _ _ _ _ _ _ _ _ HQ Hr2 E2) as (-> & i2 & x2' & Hd2 & (fc2 & Hk2) & _ & R2).
    destruct (SchemaSem.dec_object S OPS ATTRS OBJS F f st ot c_2') as [[[ob c_3] s_3]| | |] eqn:Eo; cbn [bind fst snd] in Hb; try discriminate.
    destruct (lib object_good _ _ _ _ _ _ _ HQ Eo) as (-> & n & w & io & Hlo & -> & (w' & fo' & Ho) & Ro).
    injection Hb as <- <- <-.
    assert (Hoen : exists f0', forall g, (f0' <= g)%nat ->
              enc_ty g st (TPtr (TNamed n)) (deftag_of S (TPtr (TNamed n))) (VPtr w) = Ok (io, st) /\ norm_ty g st (TPtr (TNamed n)) (VPtr w) = (VPtr w', st)).
    { exists fo'. intros g Hg. destruct (Ho g Hg) as (O1 & O2 & _). split; [exact O1 | exact O2]. }
    destruct (req_field_conf _ _ Hr0) as (Hp0 & Hno0 & Hl0). destruct (req_field_conf _ _ Hr1) as (Hp1 & Hno1 & Hl1). destruct (req_field_conf _ _ Hr2) as (Hp2 & Hno2 & Hl2).
    pose proof (lib tail_cons_pos _ _ _ _ _ _ _ _ _ _ Hp0 Hd0 (lib tail_cons_pos _ _ _ _ _ _ _ _ _ _ Hp1 Hd1 (lib tail_cons_pos _ _ _ _ _ _ _ _ _ _ Hp2 Hd2
                  (lib tail_cons_obj _ _ _ _ _ _ _ _ _ _ _ Hot0 Hoen (lib tail_nil st))))) as (ft & Htl).
    exists [IStruct tag (i0 ++ i1 ++ i2 ++ io ++ [])].
    split.
    - exists (VStruct (t_name d) [VInt ot; x1'; x2'; VIface (TPtr (TNamed n)) (VPtr w')]), (Datatypes.S (Nat.max (Nat.max ft fo') (Nat.max fc0 (Nat.max fc1 fc2)))).
      intros g Hge. destruct g as [|g]; [lia|].
      destruct (Htl g ltac:(lia)) as [T1 T2]. destruct (Ho (Datatypes.S g) ltac:(lia)) as (_ & _ & O3).
      rewrite enc_ty_eq, norm_ty_eq, EV, ES, Ed, Hce', Hfl, T1, T2. cbn [bind fst snd].
      split; [reflexivity|]. split; [reflexivity|]. eexists. split; [reflexivity|].
      unfold conf_typed_object. cbv zeta. cbn [firstn skipn]. rewrite Hfl. cbn [firstn].
      unfold nth_field. rewrite Hfl. cbn [nth]. rewrite Hce, Hot0, Hoty, Hf0. cbn [List.length Nat.eqb andb].
      cbn [conf_required]. rewrite Hp0, Hp1, Hp2, Hno0, Hno1, Hno2, Hl0, Hl1, Hl2, (Hk0 (Datatypes.S g) ltac:(lia)), (Hk1 (Datatypes.S g) ltac:(lia)), (Hk2 (Datatypes.S g) ltac:(lia)), O3. cbn [andb].
      cbn [object_tag deftag_of]. change (deftag_of S (TNamed n)) with (deftag_of S (TNamed n)).
      pose proof (obj_distinct _ _ _ Hdist Hlo) as Hd. cbn [deftag_of] in Hd. rewrite Hd. reflexivity.
    - intros Hc. destruct (Hw Hc) as (Hsub & Hc' & Ht). split; [exact Hc'|].
      destruct (R0 Hsub) as [Hc1 I0]. destruct (R1 Hc1) as [Hc2 I1]. destruct (R2 Hc2) as [Hc3 I2]. destruct (Ro Hc3) as [_ Io].
      cbn [forallb item_ok]. unfold tag_rng in Ht. rewrite Ht. cbn [andb]. rewrite andb_true_r.
      rewrite !forallb_app, I0, I1, I2, Io. reflexivity.
  Qed.

  (** from the conformance function of the codec to [conf_ty] at the structure *)
  Lemma typed_wrap nreq st d tag (c c' : cur R) v st' :
    find_tdef S (t_name d) = Some d -> t_custom_dec d = true ->
    String.eqb (t_name d) "ttlv.Value" = false -> String.eqb (t_name d) "ttlv.Struct" = false ->
    (forall cty fs, conf_custom_of S OPS ATTRS OBJS cty st d tag fs = conf_typed_object S OBJS cty nreq st d tag fs) ->
    (exists items, (exists v' f0, forall g, (f0 <= g)%nat ->
        enc_ty g st (TNamed (t_name d)) tag v = Ok (items, st') /\ norm_ty g st (TNamed (t_name d)) v = (v', st') /\
        exists fs', v' = VStruct (t_name d) fs' /\ conf_typed_object S OBJS (conf_ty g) nreq st d tag fs' = Some st') /\ Rng c c' items) ->
    exists items, Good st (TNamed (t_name d)) tag v st' items /\ Rng c c' items.
  Proof.
    intros Ed Hcd EV ES Hdisp (items & (v' & f0 & Hg) & Hr). exists items. split; [|exact Hr].
    exists v', (Datatypes.S f0). intros g Hge. destruct g as [|g]; [lia|].
    destruct (Hg (Datatypes.S g) ltac:(lia)) as (H1 & H2 & _). destruct (Hg g ltac:(lia)) as (_ & _ & fs' & Hv' & H3).
    split; [exact H1|]. split; [exact H2|]. subst v'.
    rewrite conf_ty_eq, EV, ES, Ed, String.eqb_refl, Hcd, Hdisp. rewrite andb_false_r. cbn [andb]. exact H3.
  Qed.

  Lemma dc_get_response f : DQ f -> forall st d tag (c : cur R) v c' st',
    find_tdef S (t_name d) = Some d -> t_custom_dec d = true ->
    t_name d = "payloads.GetResponsePayload"%string -> typed_object_ok S OBJS 2 d = true ->
    dec_get_response F (dec_ty f) (dec_object f) st d tag c = Ok (v, c', st') ->
    exists items, Good st (TNamed (t_name d)) tag v st' items /\ Rng c c' items.
  Proof.
    intros HQ st d tag c v c' st' Ed Hcd Hname Hok H.
    assert (EV : String.eqb (t_name d) "ttlv.Value" = false) by (rewrite Hname; reflexivity).
    assert (ES : String.eqb (t_name d) "ttlv.Struct" = false) by (rewrite Hname; reflexivity).
    apply (typed_wrap 2); try assumption.
    - intros cty fs. unfold conf_custom_of. cbv zeta. rewrite Hname. reflexivity.
    - exact (dc_typed2 f HQ st d tag c v c' st' Ed Hcd EV ES Hok H).
  Qed.

  Lemma dc_register_request f : DQ f -> forall st d tag (c : cur R) v c' st',
    find_tdef S (t_name d) = Some d -> t_custom_dec d = true ->
    t_name d = "payloads.RegisterRequestPayload"%string -> typed_object_ok S OBJS 2 d = true ->
    dec_register_request F (dec_ty f) (dec_object f) st d tag c = Ok (v, c', st') ->
    exists items, Good st (TNamed (t_name d)) tag v st' items /\ Rng c c' items.
  Proof.
    intros HQ st d tag c v c' st' Ed Hcd Hname Hok H.
    assert (EV : String.eqb (t_name d) "ttlv.Value" = false) by (rewrite Hname; reflexivity).
    assert (ES : String.eqb (t_name d) "ttlv.Struct" = false) by (rewrite Hname; reflexivity).
    apply (typed_wrap 2); try assumption.
    - intros cty fs. unfold conf_custom_of. cbv zeta. rewrite Hname. reflexivity.
    - exact (dc_typed2 f HQ st d tag c v c' st' Ed Hcd EV ES Hok H).
  Qed.

  Lemma dc_export_response f : DQ f -> forall st d tag (c : cur R) v c' st',
    find_tdef S (t_name d) = Some d -> t_custom_dec d = true ->
    t_name d = "payloads.ExportResponsePayload"%string -> typed_object_ok S OBJS 3 d = true ->
    dec_export_response F (dec_ty f) (dec_object f) st d tag c = Ok (v, c', st') ->
    exists items, Good st (TNamed (t_name d)) tag v st' items /\ Rng c c' items.
  Proof.
    intros HQ st d tag c v c' st' Ed Hcd Hname Hok H.
    assert (EV : String.eqb (t_name d) "ttlv.Value" = false) by (rewrite Hname; reflexivity).
    assert (ES : String.eqb (t_name d) "ttlv.Struct" = false) by (rewrite Hname; reflexivity).
    apply (typed_wrap 3); try assumption.
    - intros cty fs. unfold conf_custom_of. cbv zeta. rewrite Hname. reflexivity.
    - exact (dc_typed3 f HQ st d tag c v c' st' Ed Hcd EV ES Hok H).
  Qed.
End TO.
