(** Lemmas shared by the decoder-side proofs of the hand-written codecs (DecConf*.v): d.Struct
    around a body, elements read with d.TagAny / d.Opt, the operation payload and the managed
    object held in an interface, and the field-by-field assembly of a reflective encoding. *)
From Coq Require Import ZArith List Bool String Lia PeanoNat.
From KV Require Import Base BaseProofs Wire WireProofs Cursor CursorProofs Schema SchemaSem SchemaSemEq FaithfulProofs
  Roundtrip RoundtripEq RoundtripProofs RtCustomLib Normalize NormalizeEq DecConfDefs NormProofs DecConfLib DecConfProofs.
Import ListNotations.
Open Scope Z_scope.

Lemma vstate_eqb_refl st : vstate_eqb st st = true.
Proof. destruct st as [[a b]|]; cbn [vstate_eqb]; [unfold ver_eqb; cbn [fst snd]; rewrite !Z.eqb_refl|]; reflexivity. Qed.

Lemma keeps_of_conf cty st t tag v : cty st t tag v = Some st -> keeps cty st t tag v = true.
Proof. unfold keeps. intros ->. apply vstate_eqb_refl. Qed.

Lemma bytes_of_vbytes s : bytes_of (vbytes s) = Some s.
Proof. destruct s; reflexivity. Qed.

Definition tag_rng (t : Z) : bool := (0 <=? t) && (t <? 2 ^ 24).

Section CL.
  Variable S : schema.
  Variables (OPS : op_table) (ATTRS : attr_table) (OBJS : obj_table).
  Context {R : Type}.
  Variable F : rawfmt R.
  Variable eok : relem R -> bool.
  Hypothesis HR : fmt_ranged F eok.
  Hypothesis HS : schema_ok S OPS ATTRS OBJS = true.
  (* every lemma of this section takes the same prefix: S OPS ATTRS OBJS F eok HR HS *)
  Set Default Proof Using "All".

  Local Notation enc_ty := (enc_ty S).
  Local Notation enc_fields := (enc_fields S).
  Local Notation norm_ty := (norm_ty S).
  Local Notation norm_fields := (norm_fields S).
  Local Notation dec_ty := (dec_ty S OPS ATTRS OBJS F).
  Local Notation dec_opt := (dec_opt S OPS ATTRS OBJS F).
  Local Notation dec_object := (dec_object S OPS ATTRS OBJS F).
  Local Notation conf_ty := (conf_ty S OPS ATTRS OBJS).
  Local Notation c_ok := (c_ok eok).
  Local Notation Good := (Good S OPS ATTRS OBJS).
  Local Notation Rng := (Rng eok).
  Local Notation DQ := (DQ S OPS ATTRS OBJS F eok).

  (** a ResponseBatchItem aside, a type is decodable under any tag *)
  Lemma ty_ok_any t : ty_ok S t 0 = true -> forall tag, ty_ok S t tag = true.
  Proof.
    induction t as [k|t IH|t IH|n|n]; cbn [ty_ok]; intros H tag; try assumption.
    - apply andb_true_iff in H. destruct H as [H1 H2]. rewrite H1, (IH H2). reflexivity.
    - apply andb_true_iff in H. destruct H as [H1 H2]. rewrite H1, (IH H2). reflexivity.
    - destruct (String.eqb n "ttlv.Value"); [reflexivity|]. destruct (String.eqb n "ttlv.Struct"); [reflexivity|].
      destruct (find_tdef S n); [|discriminate]. apply andb_true_iff in H. destruct H as [H1 H2]. rewrite H1.
      destruct (String.eqb n "kmip.ResponseBatchItem"); [discriminate | reflexivity].
  Qed.

  Lemma elem_ok_facts t : elem_ok S t = true -> (forall tag, ty_ok S t tag = true) /\ quiet_ty S QN t = true.
  Proof. unfold elem_ok. intros H. apply andb_true_iff in H. destruct H as [H1 H2]. split; [apply ty_ok_any, H1 | exact H2]. Qed.

  (** d.Struct(tag, body) *)
  Lemma wrap_struct_inv n tag (c : cur R) body v c' st' :
    wrap_struct F n tag c body = Ok (v, c', st') ->
    exists sub vals c2, body sub = Ok (vals, c2, st') /\ v = VStruct n vals /\
      (c_ok c -> c_ok sub /\ c_ok c' /\ tag_rng tag = true).
  Proof.
    intros H. unfold wrap_struct in H.
    match type of H with bind ?m _ = _ => destruct m as [[[vals s2] c2]| | |] eqn:E; cbn [bind fst snd] in H; try discriminate end.
    injection H as <- <- <-.
    destruct (c_struct_ok F eok HR _ _ _ _ _ E) as (sub & r & Ef & Hok).
    destruct (body sub) as [[[vals' c3] s3]| | |] eqn:Eb; cbn [bind fst snd] in Ef; try discriminate.
    injection Ef as <- <- <-. exists sub, vals', c3. split; [exact Eb|]. split; [reflexivity|]. exact Hok.
  Qed.

  (** an element read with d.TagAny by a hand-written decoder: state kept *)
  Lemma elem_good f st t tag (c : cur R) x c1 s1 :
    DQ f -> elem_ok S t = true -> dec_ty f st t tag c = Ok (x, c1, s1) ->
    s1 = st /\ exists items, Good st t tag x st items /\ Rng c c1 items.
  Proof.
    intros HQ Hel H. destruct (elem_ok_facts t Hel) as [Hty Hq].
    pose proof (quiet_dec S OPS ATTRS OBJS F _ _ _ _ _ _ _ _ _ Hq H). subst s1. split; [reflexivity|].
    exact (HQ f (Nat.le_refl f) _ _ _ _ _ _ _ (Hty tag) H).
  Qed.

  (** d.Opt *)
  Lemma dec_opt_inv f st t tag (c : cur R) x c1 s1 :
    dec_opt f st t tag c = Ok (x, c1, s1) ->
    (x = zero_of S 8 t /\ c1 = c /\ s1 = st) \/
    (exists f', f = Datatypes.S f' /\ dec_ty f' st t tag c = Ok (x, c1, s1)).
  Proof.
    destruct f as [|f']; [discriminate|]. rewrite dec_opt_eq. destruct (c_tag c =? tag).
    - intros H. right. eauto.
    - intros H. injection H as <- <- <-. left. auto.
  Qed.

  (** scalars read by the hand-written decoders *)
  Lemma dty_scalar_inv f st k tag (c : cur R) x c1 s1 :
    dec_ty f st (TScalar k) tag c = Ok (x, c1, s1) -> s1 = st /\ dec_scalar F k tag c = Ok (x, c1).
  Proof.
    destruct f as [|f']; [discriminate|]. rewrite dec_ty_eq.
    destruct (dec_scalar F k tag c) as [[y cy]| | |]; cbn [bind fst snd]; try discriminate.
    intros H. injection H as <- <- <-. auto.
  Qed.

  Lemma dec_enum_inv r tag (c : cur R) x c1 :
    dec_scalar F (KEnum r) tag c = Ok (x, c1) ->
    exists z, x = VInt z /\ (c_ok c -> c_ok c1 /\ item_ok (IEnum tag r z) = true).
  Proof.
    intros H. destruct (dec_scalar_good F eok HR _ _ _ _ _ H eq_refl) as (i & He & _ & Hr).
    cbn [dec_scalar] in H. destruct (c_enum F r tag c) as [[z cz]| | |]; cbn [bind fst snd] in H; try discriminate.
    injection H as <- <-. exists z. split; [reflexivity|]. cbn [enc_scalar] in He. injection He as <-. exact Hr.
  Qed.

  Lemma dreq_enum_inv f st r tag (c : cur R) x c1 s1 :
    dec_ty f st (TScalar (KEnum r)) tag c = Ok (x, c1, s1) ->
    s1 = st /\ exists z, x = VInt z /\ (c_ok c -> c_ok c1 /\ item_ok (IEnum tag r z) = true).
  Proof. intros H. destruct (dty_scalar_inv _ _ _ _ _ _ _ _ H) as [-> Hs]. split; [reflexivity|]. eapply dec_enum_inv, Hs. Qed.

  Lemma dopt_enum_inv f st r tag (c : cur R) x c1 s1 :
    dec_opt f st (TScalar (KEnum r)) tag c = Ok (x, c1, s1) ->
    s1 = st /\ exists z, x = VInt z /\ (c_ok c -> c_ok c1 /\ (tag_rng tag = true -> item_ok (IEnum tag r z) = true)).
  Proof.
    intros H. destruct (dec_opt_inv _ _ _ _ _ _ _ _ H) as [(-> & -> & ->)|(f' & -> & H')].
    - split; [reflexivity|]. exists 0. split; [reflexivity|]. intros Hc. split; [exact Hc|]. intros Ht. cbn [item_ok]. unfold tag_rng in Ht. rewrite Ht. reflexivity.
    - destruct (dreq_enum_inv _ _ _ _ _ _ _ _ H') as (-> & z & -> & Hr). split; [reflexivity|]. exists z. split; [reflexivity|].
      intros Hc. destruct (Hr Hc) as [H1 H2]. auto.
  Qed.

  Lemma dopt_bytes_inv f st tag (c : cur R) x c1 s1 :
    dec_opt f st (TScalar KBytes) tag c = Ok (x, c1, s1) ->
    s1 = st /\ exists s, bytes_of x = Some s /\
      (c_ok c -> c_ok c1 /\ forallb item_ok (match s with [] => [] | _ => [IBytes tag s] end) = true).
  Proof.
    intros H. destruct (dec_opt_inv _ _ _ _ _ _ _ _ H) as [(-> & -> & ->)|(f' & -> & H')].
    - split; [reflexivity|]. exists []. split; [reflexivity|]. intros Hc. split; [exact Hc | reflexivity].
    - destruct (dty_scalar_inv _ _ _ _ _ _ _ _ H') as [-> Hs]. split; [reflexivity|].
      destruct (dec_scalar_good F eok HR _ _ _ _ _ Hs eq_refl) as (i & He & _ & Hr).
      cbn [dec_scalar] in Hs. destruct (c_bytes F tag c) as [[s cs]| | |]; cbn [bind fst snd] in Hs; try discriminate.
      injection Hs as <- <-. exists s. split; [apply bytes_of_vbytes|].
      intros Hc. destruct (Hr Hc) as [H1 H2]. split; [exact H1|].
      destruct s as [|b s']; [reflexivity|]. cbn [vbytes enc_scalar] in He. injection He as <-. cbn [forallb]. rewrite H2. reflexivity.
  Qed.

  Lemma dopt_text_inv f st tag (c : cur R) x c1 s1 :
    dec_opt f st (TScalar KString) tag c = Ok (x, c1, s1) ->
    s1 = st /\ exists s, x = VStr s /\
      (c_ok c -> c_ok c1 /\ forallb item_ok (match s with [] => [] | _ => [IText tag s] end) = true).
  Proof.
    intros H. destruct (dec_opt_inv _ _ _ _ _ _ _ _ H) as [(-> & -> & ->)|(f' & -> & H')].
    - split; [reflexivity|]. exists []. split; [reflexivity|]. intros Hc. split; [exact Hc | reflexivity].
    - destruct (dty_scalar_inv _ _ _ _ _ _ _ _ H') as [-> Hs]. split; [reflexivity|].
      destruct (dec_scalar_good F eok HR _ _ _ _ _ Hs eq_refl) as (i & He & _ & Hr).
      cbn [dec_scalar] in Hs. destruct (c_text F tag c) as [[s cs]| | |]; cbn [bind fst snd] in Hs; try discriminate.
      injection Hs as <- <-. exists s. split; [reflexivity|].
      intros Hc. destruct (Hr Hc) as [H1 H2]. split; [exact H1|].
      destruct s as [|b s']; [reflexivity|]. cbn [enc_scalar] in He. injection He as <-. cbn [forallb]. rewrite H2. reflexivity.
  Qed.

  (** d.Opt on a pointer element (message extension, wrapping data ...) *)
  Lemma good_nil_ptr st t' tag : Good st (TPtr t') tag VNil st [].
  Proof.
    exists VNil, 1%nat. intros g Hg. destruct g as [|g]; [lia|]. rewrite enc_ty_eq, norm_ty_eq, conf_ty_eq. repeat split.
  Qed.

  Lemma dopt_ptr_good f st t tag (c : cur R) x c1 s1 :
    DQ f -> ext_ok S t = true -> dec_opt f st t tag c = Ok (x, c1, s1) ->
    s1 = st /\ exists t', t = TPtr t' /\ one_item t' = true /\ exists items, Good st t tag x st items /\ Rng c c1 items.
  Proof.
    intros HQ Hext H. unfold ext_ok in Hext. destruct t as [|t'| | |]; try discriminate.
    pose proof Hext as Hel'.
    assert (Hone : one_item t' = true).
    { unfold elem_ok in Hext. apply andb_true_iff in Hext. destruct Hext as [H1 _]. cbn [ty_ok] in H1. apply andb_true_iff in H1. apply H1. }
    destruct (dec_opt_inv _ _ _ _ _ _ _ _ H) as [(-> & -> & ->)|(f' & -> & H')].
    - split; [reflexivity|]. exists t'. split; [reflexivity|]. split; [exact Hone|]. exists []. split; [apply good_nil_ptr|].
      intros Hc. split; [exact Hc | reflexivity].
    - assert (HQ' : DQ f') by (intros g Hg; apply HQ; lia).
      destruct (elem_good _ _ _ _ _ _ _ _ HQ' Hel' H') as (-> & items & Hg & Hr).
      split; [reflexivity|]. exists t'. split; [reflexivity|]. split; [exact Hone|]. exists items. split; assumption.
  Qed.

  (** ** table lookups *)
  Lemma lookup_op_in op p : lookup_op OPS op = Some p -> exists k, In (k, p) OPS.
  Proof.
    unfold lookup_op. destruct (find (fun e => fst e =? op) OPS) as [[k q]|] eqn:E; [|discriminate].
    intros H. injection H as <-. apply find_some in E. exists k. apply E.
  Qed.
  Lemma lookup_obj_in ot n : lookup_obj OBJS ot = Some n -> exists k, In (k, n) OBJS.
  Proof.
    unfold lookup_obj. destruct (find (fun e => fst e =? ot) OBJS) as [[k q]|] eqn:E; [|discriminate].
    intros H. injection H as <-. apply find_some in E. exists k. apply E.
  Qed.

  Lemma schema_ops : ops_ok S OPS = true.
  Proof. unfold schema_ok in HS. rewrite !andb_true_iff in HS. apply HS. Qed.
  Lemma schema_objs : objs_ok S OBJS = true.
  Proof. unfold schema_ok in HS. rewrite !andb_true_iff in HS. apply HS. Qed.

  (** ** the operation payload held in the OperationPayload interface *)
  Definition GoodPayload (st : vstate) (nm : string) (side : bool) (op tag : Z) (v : value) (items : list item) : Prop :=
    exists v' f0, forall g, (f0 <= g)%nat ->
      enc_ty g st (TIface nm) tag v = Ok (items, st) /\ norm_ty g st (TIface nm) v = (v', st) /\
      conf_payload S OPS (conf_ty g) st side op tag v' = true.

  Lemma payload_good f st side op tag (c : cur R) v c1 s1 nm :
    DQ f -> dec_payload OPS F (dec_ty f) (dec_fields F f) st side op tag c = Ok (v, c1, s1) ->
    exists items, GoodPayload st nm side op tag v items /\ Rng c c1 items.
  Proof.
    intros HQ H. unfold dec_payload in H. pose proof schema_ops as Hops. unfold ops_ok in Hops.
    apply andb_true_iff in Hops. destruct Hops as [Hops Hunk].
    destruct (lookup_op OPS op) as [[rq rs]|] eqn:Eop.
    - (* a registered payload type *)
      set (n := if side then rs else rq) in *.
      destruct (SchemaSem.dec_ty S OPS ATTRS OBJS F f st (TNamed n) tag c) as [[[w cw] sw]| | |] eqn:E; cbn [bind fst snd] in H; try discriminate.
      injection H as <- <- <-.
      assert (Hn : payload_name_ok S n = true).
      { destruct (lookup_op_in _ _ Eop) as [k Hin]. rewrite forallb_forall in Hops. specialize (Hops _ Hin). cbn [fst snd] in Hops.
        apply andb_true_iff in Hops. subst n. destruct side; apply Hops. }
      unfold payload_name_ok in Hn. apply andb_true_iff in Hn. destruct Hn as [Hme Hel].
      destruct (elem_good _ _ _ _ _ _ _ _ HQ Hel E) as (-> & items & (w' & f0 & Hg) & Hr).
      exists items. split; [|exact Hr].
      exists (VIface (TPtr (TNamed n)) (VPtr w')), (Datatypes.S (Datatypes.S f0)). intros g Hge.
      destruct g as [|[|g]]; try lia. destruct (Hg g ltac:(lia)) as (H1 & H2 & _). destruct (Hg (Datatypes.S (Datatypes.S g)) ltac:(lia)) as (_ & _ & H3).
      split; [rewrite enc_ty_eq, enc_ty_eq; exact H1|].
      split; [rewrite norm_ty_eq, norm_ty_eq, H2; reflexivity|].
      unfold conf_payload. rewrite Eop. fold n. rewrite String.eqb_refl, Hme, (keeps_of_conf _ _ _ _ _ H3). reflexivity.
    - (* an operation without registered payload: UnknownPayload *)
      destruct (c_struct F tag (dec_fields F f) c) as [[is ci]| | |] eqn:Ev; cbn [bind fst snd] in H; try discriminate. injection H as <- <- <-.
      destruct (c_struct_ok F eok HR _ _ _ _ _ Ev) as (sub & r & Ef & Hcs).
      destruct (dec_value_good F eok HR f) as [_ Hfs]. destruct (Hfs _ _ _ Ef) as (Hsh & Htags & Hr).
      destruct (find_tdef S "kmip.UnknownPayload") as [d'|] eqn:Ed; [|discriminate].
      pose proof (find_tdef_name S _ _ Ed) as Hnm.
      exists [IStruct tag is]. split.
      + exists (VIface (TPtr (TNamed "kmip.UnknownPayload")) (VPtr (VStruct "kmip.UnknownPayload" [VInt op; VList (map VTree is)]))), 4%nat.
        intros g Hge. destruct g as [|[|[|[|g]]]]; try lia.
        split.
        { rewrite enc_ty_eq, enc_ty_eq, enc_ty_eq.
          change (String.eqb "kmip.UnknownPayload" "ttlv.Value") with false.
          change (String.eqb "kmip.UnknownPayload" "ttlv.Struct") with false. cbv iota.
          rewrite Ed, Hunk, enc_custom_eq. cbv zeta. rewrite Hnm.
          change (String.eqb "kmip.UnknownPayload" "kmip.RequestBatchItem") with false.
          change (String.eqb "kmip.UnknownPayload" "kmip.ResponseBatchItem") with false.
          change (String.eqb "kmip.UnknownPayload" "kmip.UnknownPayload") with true. cbv iota.
          rewrite trees_of_map. reflexivity. }
        split.
        { rewrite norm_ty_eq, norm_ty_eq, norm_ty_eq.
          change (String.eqb "kmip.UnknownPayload" "ttlv.Value") with false.
          change (String.eqb "kmip.UnknownPayload" "ttlv.Struct") with false. cbv iota.
          rewrite Ed, Hunk, norm_custom_eq. cbv zeta. rewrite Hnm.
          change (String.eqb "kmip.UnknownPayload" "kmip.RequestBatchItem") with false.
          change (String.eqb "kmip.UnknownPayload" "kmip.ResponseBatchItem") with false.
          change (String.eqb "kmip.UnknownPayload" "kmip.UnknownPayload") with true. cbv iota.
          reflexivity. }
        unfold conf_payload. rewrite Eop, Ed, Hunk, Z.eqb_refl.
        change (String.eqb "kmip.UnknownPayload" "kmip.UnknownPayload") with true.
        unfold shaped_trees. rewrite trees_of_map, Hsh, Htags. reflexivity.
      + intros Hc. destruct (Hcs Hc) as (Hsub & Hc' & Ht). destruct (Hr Hsub) as [_ Hl]. split; [exact Hc'|].
        cbn [forallb item_ok]. rewrite Ht, Hl. reflexivity.
  Qed.

  (** ** the managed object held in the Object interface (a field without tag) *)
  Lemma object_good f st ot (c : cur R) v c1 s1 :
    DQ f -> dec_object f st ot c = Ok (v, c1, s1) ->
    s1 = st /\ exists n w items, lookup_obj OBJS ot = Some n /\ v = VIface (TPtr (TNamed n)) (VPtr w) /\
      (exists w' f0, forall g, (f0 <= g)%nat ->
         enc_ty g st (TPtr (TNamed n)) (deftag_of S (TNamed n)) (VPtr w) = Ok (items, st) /\
         norm_ty g st (TPtr (TNamed n)) (VPtr w) = (VPtr w', st) /\
         conf_object S OBJS (conf_ty g) st ot (VIface (TPtr (TNamed n)) (VPtr w')) = true) /\
      Rng c c1 items.
  Proof.
    intros HQ H. destruct f as [|f']; [discriminate|]. rewrite dec_object_eq in H.
    destruct (lookup_obj OBJS ot) as [n|] eqn:Eo; [|discriminate].
    destruct (SchemaSem.dec_ty S OPS ATTRS OBJS F f' st (TNamed n) (deftag_of S (TNamed n)) c) as [[[w cw] sw]| | |] eqn:E; cbn [bind fst snd] in H; try discriminate.
    injection H as <- <- <-.
    assert (Hn : object_name_ok S n = true).
    { destruct (lookup_obj_in _ _ Eo) as [k Hin]. pose proof schema_objs as Ho. unfold objs_ok in Ho. rewrite forallb_forall in Ho. exact (Ho _ Hin). }
    unfold object_name_ok in Hn. rewrite !andb_true_iff in Hn. destruct Hn as ((Hme & Hdt) & Hel).
    assert (HQ' : DQ f') by (intros g Hg; apply HQ; lia).
    destruct (elem_good _ _ _ _ _ _ _ _ HQ' Hel E) as (-> & items & (w' & f0 & Hg) & Hr).
    split; [reflexivity|]. exists n, w, items. split; [reflexivity|]. split; [reflexivity|]. split; [|exact Hr].
    exists w', (Datatypes.S f0). intros g Hge. destruct g as [|g]; [lia|].
    destruct (Hg g ltac:(lia)) as (H1 & H2 & _). destruct (Hg (Datatypes.S g) ltac:(lia)) as (_ & _ & H3).
    split; [rewrite enc_ty_eq; exact H1|]. split; [rewrite norm_ty_eq, H2; reflexivity|].
    unfold conf_object. rewrite Eo, String.eqb_refl, Hme, Hdt, (keeps_of_conf _ _ _ _ _ H3). reflexivity.
  Qed.

  (** ** field-by-field assembly of a reflective encoding and its normal form *)
  Definition TailEN (st : vstate) (fl : list field) (vl : list value) (items : list item) (vl' : list value) (st' : vstate) : Prop :=
    exists f0, forall g, (f0 <= g)%nat -> enc_fields g st fl vl = Ok (items, st') /\ norm_fields g st fl vl = (vl', st').

  Lemma tail_nil st : TailEN st [] [] [] [] st.
  Proof. exists 1%nat. intros g Hg. destruct g as [|g]; [lia|]. rewrite enc_fields_eq, norm_fields_eq. split; reflexivity. Qed.

  Lemma pos_facts fd : pos_field fd = true -> (f_tag fd =? 0) = false /\ f_setver fd = false /\ f_range fd = None.
  Proof.
    unfold pos_field. rewrite !andb_true_iff. intros ((H1 & H2) & H3). apply negb_true_iff in H1, H2.
    destruct (f_range fd); [discriminate|]. auto.
  Qed.

  (** what the encoder and the normalisation do with a positional field *)
  Definition HeadEN (st : vstate) (fd : field) (x : value) (ia : list item) (x' : value) : Prop :=
    exists f0, forall g, (f0 <= g)%nat ->
      (if f_omit fd && is_zero x then Ok ([], st) else enc_ty g st (f_ty fd) (f_tag fd) x) = Ok (ia, st) /\
      (if f_omit fd && is_zero x then (zero_of S 8 (f_ty fd), st) else norm_ty g st (f_ty fd) x) = (x', st).

  Lemma tail_cons_pos st fd fl' x vl' ia x' ib vl'' st' :
    pos_field fd = true -> HeadEN st fd x ia x' -> TailEN st fl' vl' ib vl'' st' ->
    TailEN st (fd :: fl') (x :: vl') (ia ++ ib) (x' :: vl'') st'.
  Proof.
    intros Hpos (fa & Ha) (fb & Hb). destruct (pos_facts fd Hpos) as (Ht0 & Hsv & Hr).
    exists (Datatypes.S (Nat.max fa fb)). intros g Hge. destruct g as [|g]; [lia|].
    destruct (Ha g ltac:(lia)) as [A1 A2]. destruct (Hb g ltac:(lia)) as [B1 B2].
    rewrite enc_fields_eq, norm_fields_eq. cbv zeta. rewrite Ht0, Hsv, Hr, version_in_none. cbn [negb].
    rewrite A1, A2. cbn [bind fst snd]. rewrite B1, B2. split; reflexivity.
  Qed.

  Lemma head_of_good st fd x ia :
    f_omit fd = false -> Good st (f_ty fd) (f_tag fd) x st ia ->
    exists x', HeadEN st fd x ia x' /\ exists f0, forall g, (f0 <= g)%nat -> conf_ty g st (f_ty fd) (f_tag fd) x' = Some st.
  Proof.
    intros Ho (x' & f0 & Hg). exists x'. split.
    - exists f0. intros g Hge. rewrite Ho. cbn [andb]. destruct (Hg g Hge) as (H1 & H2 & _). auto.
    - exists f0. intros g Hge. apply (Hg g Hge).
  Qed.

  (** the object field (no tag) *)
  Lemma tail_cons_obj st fd fl' dyn w vl' ia w' ib vl'' st' :
    (f_tag fd =? 0) = true ->
    (exists f0, forall g, (f0 <= g)%nat -> enc_ty g st dyn (deftag_of S dyn) w = Ok (ia, st) /\ norm_ty g st dyn w = (w', st)) ->
    TailEN st fl' vl' ib vl'' st' ->
    TailEN st (fd :: fl') (VIface dyn w :: vl') (ia ++ ib) (VIface dyn w' :: vl'') st'.
  Proof.
    intros Ht0 (fa & Ha) (fb & Hb).
    exists (Datatypes.S (Nat.max fa fb)). intros g Hge. destruct g as [|g]; [lia|].
    destruct (Ha g ltac:(lia)) as [A1 A2]. destruct (Hb g ltac:(lia)) as [B1 B2].
    rewrite enc_fields_eq, norm_fields_eq. cbv zeta. rewrite Ht0, A1, A2. cbn [bind fst snd]. rewrite B1, B2. split; reflexivity.
  Qed.

  (** an omitempty scalar read with d.Opt and written reflectively *)
  Lemma dopt_omit_scalar f st fd tag (c : cur R) x c1 s1 :
    omit_scalar_ok S (f_ty fd) = true -> f_omit fd = true -> tag = f_tag fd ->
    dec_opt f st (f_ty fd) tag c = Ok (x, c1, s1) ->
    s1 = st /\ exists ia x', HeadEN st fd x ia x' /\
      (forall g, (1 <= g)%nat -> conf_ty g st (f_ty fd) tag x' = Some st) /\
      omit_zero S fd x' = true /\ Rng c c1 ia.
  Proof.
    intros Hos Ho -> H. unfold omit_scalar_ok in Hos. destruct (f_ty fd) as [k| | | |] eqn:Et; try discriminate.
    rewrite !andb_true_iff in Hos. destruct Hos as ((Hk & Hot) & Hz).
    assert (Hzero : forall ia, ia = [] -> HeadEN st fd (zero_of S 8 (TScalar k)) ia (zero_of S 8 (TScalar k))).
    { intros ia ->. exists 0%nat. intros g _. rewrite Ho, Et, (omit_zero_of S _ Hot). cbn [andb]. split; reflexivity. }
    assert (Hcz : forall g, (1 <= g)%nat -> conf_ty g st (TScalar k) (f_tag fd) (zero_of S 8 (TScalar k)) = Some st).
    { intros g Hg. destruct g as [|g]; [lia|]. rewrite conf_ty_eq, Hz. reflexivity. }
    assert (Hoz : omit_zero S fd (zero_of S 8 (TScalar k)) = true).
    { unfold omit_zero. rewrite Et, (omit_zero_of S _ Hot). apply value_eqb_refl. }
    destruct (dec_opt_inv _ _ _ _ _ _ _ _ H) as [(-> & -> & ->)|(f' & -> & H')].
    - split; [reflexivity|]. exists [], (zero_of S 8 (TScalar k)). split; [apply Hzero; reflexivity|]. split; [exact Hcz|].
      split; [exact Hoz|]. intros Hc. split; [exact Hc | reflexivity].
    - destruct (dty_scalar_inv _ _ _ _ _ _ _ _ H') as [-> Hs]. split; [reflexivity|].
      destruct (dec_scalar_good F eok HR _ _ _ _ _ Hs Hk) as (i & He & Hsc & Hr).
      destruct (is_zero x) eqn:Ez.
      + exists [], (zero_of S 8 (TScalar k)). split.
        { exists 0%nat. intros g _. rewrite Ho, Ez, Et. cbn [andb]. split; reflexivity. }
        split; [exact Hcz|]. split; [exact Hoz|]. intros Hc. destruct (Hr Hc) as [H1 _]. split; [exact H1 | reflexivity].
      + exists [i], x. split.
        { exists 1%nat. intros g Hg. destruct g as [|g]; [lia|]. rewrite Ho, Ez, Et. cbn [andb]. rewrite enc_ty_eq, norm_ty_eq, He. split; reflexivity. }
        split; [intros g Hg; destruct g as [|g]; [lia|]; rewrite conf_ty_eq, Hsc; reflexivity|].
        split; [unfold omit_zero; rewrite Ez; reflexivity|].
        intros Hc. destruct (Hr Hc) as [H1 H2]. split; [exact H1|]. cbn [forallb]. rewrite H2. reflexivity.
  Qed.
  (** ** CredentialValue, KeyValue, KeyMaterial: alternatives written under one tag *)
  Definition SameEN (st : vstate) (fl : list field) (tag : Z) (vl : list value) (items : list item) (vl' : list value) : Prop :=
    exists f0, forall g, (f0 <= g)%nat ->
      enc_same_tag S g st fl tag vl = Ok (items, st) /\ norm_same_tag S g st fl vl = (vl', st).

  Lemma same_nil st tag : SameEN st [] tag [] [] [].
  Proof. exists 1%nat. intros g Hg. destruct g as [|g]; [lia|]. rewrite enc_same_tag_eq, norm_same_tag_eq. split; reflexivity. Qed.

  Lemma same_cons st fd fl' tag x vl' ia x' ib vl'' :
    (exists f0, forall g, (f0 <= g)%nat -> enc_ty g st (f_ty fd) tag x = Ok (ia, st) /\ norm_ty g st (f_ty fd) x = (x', st)) ->
    SameEN st fl' tag vl' ib vl'' -> SameEN st (fd :: fl') tag (x :: vl') (ia ++ ib) (x' :: vl'').
  Proof.
    intros (fa & Ha) (fb & Hb). exists (Datatypes.S (Nat.max fa fb)). intros g Hge. destruct g as [|g]; [lia|].
    destruct (Ha g ltac:(lia)) as [A1 A2]. destruct (Hb g ltac:(lia)) as [B1 B2].
    rewrite enc_same_tag_eq, norm_same_tag_eq, A1. cbn [bind fst snd]. rewrite B1. cbv zeta. rewrite A2. cbn [fst snd]. rewrite B2. split; reflexivity.
  Qed.

  Lemma same_cons_nil st fd fl' tag vl' ib vl'' t' :
    f_ty fd = TPtr t' -> SameEN st fl' tag vl' ib vl'' -> SameEN st (fd :: fl') tag (VNil :: vl') ib (VNil :: vl'').
  Proof.
    intros Et Hb. change ib with ([] ++ ib)%list. apply same_cons; [|exact Hb].
    exists 1%nat. intros g Hg. destruct g as [|g]; [lia|]. rewrite Et, enc_ty_eq, norm_ty_eq. split; reflexivity.
  Qed.

  Lemma good_en st t tag x ia : Good st t tag x st ia ->
    exists x', (exists f0, forall g, (f0 <= g)%nat -> enc_ty g st t tag x = Ok (ia, st) /\ norm_ty g st t x = (x', st)) /\
               (exists f0, forall g, (f0 <= g)%nat -> conf_ty g st t tag x' = Some st).
  Proof.
    intros (x' & f0 & Hg). exists x'. split; exists f0; intros g Hge; destruct (Hg g Hge) as (H1 & H2 & H3); auto.
  Qed.
  (** a structure whose encoder writes every alternative under the tag it is given *)
  Lemma same_named st n d n' tag vl items vl' :
    find_tdef S n = Some d -> t_custom_enc d = true ->
    String.eqb n "ttlv.Value" = false -> String.eqb n "ttlv.Struct" = false ->
    String.eqb n "kmip.RequestBatchItem" = false -> String.eqb n "kmip.ResponseBatchItem" = false ->
    String.eqb n "kmip.UnknownPayload" = false ->
    SameEN st (t_fields d) tag vl items vl' ->
    exists f0, forall g, (f0 <= g)%nat ->
      enc_ty g st (TNamed n) tag (VStruct n' vl) = Ok (items, st) /\
      norm_ty g st (TNamed n) (VStruct n' vl) = (VStruct n' vl', st).
  Proof.
    intros Ed Hce EV ES E1 E2 E3 (f0 & Hs). pose proof (find_tdef_name S _ _ Ed) as Hnm.
    exists (Datatypes.S (Datatypes.S f0)). intros g Hge. destruct g as [|[|g]]; try lia.
    destruct (Hs g ltac:(lia)) as [S1 S2].
    rewrite enc_ty_eq, norm_ty_eq, EV, ES, Ed, Hce, enc_custom_eq, norm_custom_eq. cbv zeta. rewrite Hnm, E1, E2, E3, S1, S2. split; reflexivity.
  Qed.
  (** a reflectively encoded structure from the assembly of its fields *)
  Lemma refl_named st n d n' tag vl items vl' st' :
    find_tdef S n = Some d -> t_custom_enc d = false ->
    String.eqb n "ttlv.Value" = false -> String.eqb n "ttlv.Struct" = false ->
    TailEN st (t_fields d) vl items vl' st' ->
    exists f0, forall g, (f0 <= g)%nat ->
      enc_ty g st (TNamed n) tag (VStruct n' vl) = Ok ([IStruct tag items], st') /\
      norm_ty g st (TNamed n) (VStruct n' vl) = (VStruct n' vl', st').
  Proof.
    intros Ed Hce EV ES (f0 & Ht). exists (Datatypes.S f0). intros g Hge. destruct g as [|g]; [lia|].
    destruct (Ht g ltac:(lia)) as [T1 T2]. rewrite enc_ty_eq, norm_ty_eq, EV, ES, Ed, Hce, T1, T2. split; reflexivity.
  Qed.

  (** a pointer to something *)
  Lemma ptr_en st t' tag w iw w' :
    (exists f0, forall g, (f0 <= g)%nat -> enc_ty g st t' tag w = Ok (iw, st) /\ norm_ty g st t' w = (w', st)) ->
    exists f0, forall g, (f0 <= g)%nat -> enc_ty g st (TPtr t') tag (VPtr w) = Ok (iw, st) /\ norm_ty g st (TPtr t') (VPtr w) = (VPtr w', st).
  Proof.
    intros (f0 & H). exists (Datatypes.S f0). intros g Hge. destruct g as [|g]; [lia|]. destruct (H g ltac:(lia)) as [H1 H2].
    rewrite enc_ty_eq, norm_ty_eq, H1, H2. split; reflexivity.
  Qed.
End CL.
