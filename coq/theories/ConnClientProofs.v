(** Proofs about the client connection model (ConnClient.v): properties C10 and C11.

    The theorems are about the CONCRETE instance (requests carry the number of their call,
    unbounded executions).  They are obtained from the reflective certificates of
    ConnClientCert.v on the finite abstract instance through a simulation: [abs] maps every
    step of the concrete system to a step of the abstract one ([sim_step]); it holds because
    the step functions only move identifiers around (naturality, proved once for any two
    instances) and because identifiers in flight never exceed the current call number
    ([bounded]). *)
From Coq Require Import List Bool PArith Arith ZArith Lia.
From KV Require Import Lts ConnClient ConnClientCert.
Import ListNotations.

(** * Naturality of the step functions in the identifier type *)
Section Naturality.
  Variables T1 K1 T2 K2 : Type.
  Variable tag1 : K1 -> T1. Variable cur1 : K1 -> T1 -> bool. Variable retag1 : T1 -> T1. Variable next1 : K1 -> K1.
  Variable tag2 : K2 -> T2. Variable cur2 : K2 -> T2 -> bool. Variable retag2 : T2 -> T2. Variable next2 : K2 -> K2.
  Variable f : T1 -> T2.
  Variable g : K1 -> K2.

  Definition mapc (c : conn T1) : conn T2 :=
    {| rl := rl _ c; rl_err := rl_err _ c; rl_msg := option_map f (rl_msg _ c); wl := wl _ c; wl_err := wl_err _ c;
       wl_msg := option_map f (wl_msg _ c); cctx := cctx _ c; cclosed := cclosed _ c; sclosed := sclosed _ c;
       rxclosed := rxclosed _ c; errch := errch _ c; srv_req := option_map f (srv_req _ c);
       cwire := option_map f (cwire _ c); ovf := ovf _ c |}.
  Definition maps (s : client T1 K1) : client T2 K2 :=
    {| u := u _ _ s; uctx := uctx _ _ s; retry := retry _ _ s; rphase := rphase _ _ s; uerr := uerr _ _ s;
       got := option_map f (got _ _ s); ntx := ntx _ _ s; ccl := ccl _ _ s; hasconn := hasconn _ _ s;
       cn := mapc (cn _ _ s); cl := cl _ _ s; after_close := after_close _ _ s; callno := g (callno _ _ s) |}.

  Ltac split_all :=
    cbv;
    repeat match goal with
    | |- context [match ?x with _ => _ end] => is_var x; destruct x; cbv
    | |- context [if ?x then _ else _] => is_var x; destruct x; cbv
    end.

  Lemma rl_step_nat c : rl_step T2 (mapc c) = map (fun x => (fst x, mapc (snd x))) (rl_step T1 c).
  Proof. destruct c. split_all; reflexivity. Qed.

  Lemma wl_step_nat c1 c2 w c : (forall t, c2 (f t) = c1 t) ->
    wl_step T2 c2 w (mapc c) = map (fun x => (fst (fst x), mapc (snd (fst x)), snd x)) (wl_step T1 c1 w c).
  Proof.
    intros H. destruct c. split_all; try rewrite H; reflexivity.
  Qed.

  Lemma srv_step_nat c : srv_step T2 (mapc c) = map (fun x => (fst x, mapc (snd x))) (srv_step T1 c).
  Proof. destruct c. split_all; reflexivity. Qed.

  Lemma cl_conn_step_nat pc c : cl_conn_step T2 pc (mapc c) = map (fun x => (fst x, mapc (snd x))) (cl_conn_step T1 pc c).
  Proof. destruct c. split_all; reflexivity. Qed.

  Lemma mapc_cancel e c : cancel T2 e (mapc c) = mapc (cancel T1 e c).
  Proof. unfold cancel. change (cctx T2 (mapc c)) with (cctx T1 c). destruct (cctx T1 c); reflexivity. Qed.

  Lemma maps_enter_reconnect s ph c :
    enter_reconnect T2 K2 (maps s) ph (mapc c) = maps (enter_reconnect T1 K1 s ph c).
  Proof.
    unfold enter_reconnect. change (hasconn T2 K2 (maps s)) with (hasconn T1 K1 s).
    destruct (hasconn T1 K1 s); reflexivity.
  Qed.

  Lemma maps_fail_rt s e c : fail_rt T2 K2 (maps s) e (mapc c) = maps (fail_rt T1 K1 s e c).
  Proof.
    unfold fail_rt. change (retry T2 K2 (maps s)) with (retry T1 K1 s).
    destruct ((retry T1 K1 s =? 0) || negb (retryable e)); [reflexivity | apply maps_enter_reconnect].
  Qed.

  Definition lift (x : label * client T1 K1) : label * client T2 K2 := (fst x, maps (snd x)).

  (* case analysis on the tests of a step function; both sides then reduce to the same list *)
  Ltac cases :=
    repeat match goal with
    | |- context [if ?b then _ else _] => destruct b
    | |- context [match ?x with _ => _ end] => destruct x
    end.

  Lemma ustep_nat s : f (tag1 (callno _ _ s)) = tag2 (g (callno _ _ s)) ->
    ustep T2 K2 tag2 (maps s) = map lift (ustep T1 K1 tag1 s).
  Proof.
    intros H. unfold ustep.
    change (u T2 K2 (maps s)) with (u T1 K1 s).
    change (uctx T2 K2 (maps s)) with (uctx T1 K1 s).
    change (ccl T2 K2 (maps s)) with (ccl T1 K1 s).
    change (hasconn T2 K2 (maps s)) with (hasconn T1 K1 s).
    change (rphase T2 K2 (maps s)) with (rphase T1 K1 s).
    change (retry T2 K2 (maps s)) with (retry T1 K1 s).
    change (uerr T2 K2 (maps s)) with (uerr T1 K1 s).
    change (cl T2 K2 (maps s)) with (cl T1 K1 s).
    change (callno T2 K2 (maps s)) with (g (callno T1 K1 s)).
    change (cn T2 K2 (maps s)) with (mapc (cn T1 K1 s)).
    change (cctx T2 (mapc (cn T1 K1 s))) with (cctx T1 (cn T1 K1 s)).
    change (cclosed T2 (mapc (cn T1 K1 s))) with (cclosed T1 (cn T1 K1 s)).
    change (rxclosed T2 (mapc (cn T1 K1 s))) with (rxclosed T1 (cn T1 K1 s)).
    change (errch T2 (mapc (cn T1 K1 s))) with (errch T1 (cn T1 K1 s)).
    change (wl T2 (mapc (cn T1 K1 s))) with (wl T1 (cn T1 K1 s)).
    change (rl T2 (mapc (cn T1 K1 s))) with (rl T1 (cn T1 K1 s)).
    rewrite <- H.
    destruct (u T1 K1 s); cbn [map app]; cases; rewrite ?mapc_cancel;
      try change (close_stream T2 (mapc (cn T1 K1 s))) with (mapc (close_stream T1 (cn T1 K1 s)));
      try change (set_errch T2 (mapc (cn T1 K1 s)) ENone) with (mapc (set_errch T1 (cn T1 K1 s) ENone));
      rewrite ?maps_fail_rt, ?maps_enter_reconnect; reflexivity.
  Qed.

  Lemma clstep_nat s : clstep T2 K2 (maps s) = map lift (clstep T1 K1 s).
  Proof.
    unfold clstep.
    change (cl T2 K2 (maps s)) with (cl T1 K1 s).
    change (hasconn T2 K2 (maps s)) with (hasconn T1 K1 s).
    change (ccl T2 K2 (maps s)) with (ccl T1 K1 s).
    change (u T2 K2 (maps s)) with (u T1 K1 s).
    change (cn T2 K2 (maps s)) with (mapc (cn T1 K1 s)).
    destruct (cl T1 K1 s); cbn [map]; try reflexivity;
      (destruct (hasconn T1 K1 s); [rewrite cl_conn_step_nat, !map_map; reflexivity | reflexivity]).
  Qed.

  Lemma connstep_nat s : (forall t, cur2 (g (callno _ _ s)) (f t) = cur1 (callno _ _ s) t) ->
    connstep T2 K2 cur2 (maps s) = map lift (connstep T1 K1 cur1 s).
  Proof.
    intros H. unfold connstep.
    change (hasconn T2 K2 (maps s)) with (hasconn T1 K1 s).
    change (u T2 K2 (maps s)) with (u T1 K1 s).
    change (ntx T2 K2 (maps s)) with (ntx T1 K1 s).
    change (callno T2 K2 (maps s)) with (g (callno T1 K1 s)).
    change (cn T2 K2 (maps s)) with (mapc (cn T1 K1 s)).
    destruct (hasconn T1 K1 s); [|reflexivity].
    rewrite rl_step_nat, srv_step_nat.
    rewrite (wl_step_nat (cur1 (callno T1 K1 s)) (cur2 (g (callno T1 K1 s)))) by exact H.
    rewrite !map_app, !map_map. reflexivity.
  Qed.

  (** the environment, except the start of a new call *)
  Definition envstep' (T K : Type) (s : client T K) : list (label * client T K) :=
    (if in_call (u _ _ s) && negb (uctx _ _ s) then [(LCancel, set_uctx _ _ s true)] else [])
    ++ (match cl _ _ s with CIdle => [(LCloseStart, set_closer _ _ s C0 (ccl _ _ s))] | _ => [] end).

  Lemma envstep'_nat s : envstep' T2 K2 (maps s) = map lift (envstep' T1 K1 s).
  Proof.
    unfold envstep'.
    change (u T2 K2 (maps s)) with (u T1 K1 s). change (uctx T2 K2 (maps s)) with (uctx T1 K1 s).
    change (cl T2 K2 (maps s)) with (cl T1 K1 s). change (ccl T2 K2 (maps s)) with (ccl T1 K1 s).
    destruct (in_call (u T1 K1 s) && negb (uctx T1 K1 s)); destruct (cl T1 K1 s); reflexivity.
  Qed.
End Naturality.

(** * The concrete system, its invariant [bounded], and the simulation by the abstract system *)

Definition cstep' (s : cstate) : list cstate := map snd (cstep s).

Definition absn (n : nat) : cstate -> astate := maps nat nat bool unit (fun i => Nat.eqb i n) (fun _ => tt).
Lemma abs_absn s : abs s = absn (callno _ _ s) s.
Proof. reflexivity. Qed.

(** Identifiers in flight never exceed the number of the current call. *)
Definition ble (n : nat) (o : option nat) : Prop := match o with Some i => i <= n | None => True end.
Definition boundedc (n : nat) (c : conn nat) : Prop :=
  ble n (rl_msg _ c) /\ ble n (wl_msg _ c) /\ ble n (srv_req _ c) /\ ble n (cwire _ c).
Definition bounded (s : cstate) : Prop :=
  ble (callno _ _ s) (got _ _ s) /\ boundedc (callno _ _ s) (cn _ _ s).

Ltac cases_in H :=
  repeat match type of H with
  | context [if ?b then _ else _] => destruct b eqn:?
  | context [match ?x with _ => _ end] => destruct x eqn:?
  end.

Lemma cancel_rl_msg e c : rl_msg nat (cancel nat e c) = rl_msg nat c.
Proof. unfold cancel. destruct (cctx nat c); reflexivity. Qed.
Lemma cancel_wl_msg e c : wl_msg nat (cancel nat e c) = wl_msg nat c.
Proof. unfold cancel. destruct (cctx nat c); reflexivity. Qed.
Lemma cancel_srv_req e c : srv_req nat (cancel nat e c) = srv_req nat c.
Proof. unfold cancel. destruct (cctx nat c); reflexivity. Qed.
Lemma cancel_cwire e c : cwire nat (cancel nat e c) = cwire nat c.
Proof. unfold cancel. destruct (cctx nat c); reflexivity. Qed.

Ltac bsolve :=
  unfold boundedc in *; cbn [snd fst] in *;
  repeat match goal with
  | E : ?p = Some _, H : context [?p] |- _ => rewrite E in H
  | E : ?p = None, H : context [?p] |- _ => rewrite E in H
  end;
  cbn [rl_msg wl_msg srv_req cwire upd_rl upd_wl set_cctx set_cclosed close_stream set_rxclosed set_errch set_srv fresh_conn] in *;
  rewrite ?cancel_rl_msg, ?cancel_wl_msg, ?cancel_srv_req, ?cancel_cwire in *;
  cbn [rl_msg wl_msg srv_req cwire upd_rl upd_wl set_cctx set_cclosed close_stream set_rxclosed set_errch set_srv fresh_conn ble] in *;
  intuition.

Lemma rl_step_bounded n c x : boundedc n c -> In x (rl_step nat c) -> boundedc n (snd x).
Proof.
  intros Hb H. unfold rl_step in H.
  destruct (rl nat c); cbn [In] in H; cases_in H; cbn [In] in H;
    repeat (destruct H as [H|H]; [subst x|]); try contradiction; bsolve.
Qed.

Lemma srv_receive_bounded n c m : boundedc n c -> ble n m -> boundedc n (srv_receive nat c m).
Proof.
  intros Hb Hm. unfold srv_receive. destruct m as [t|]; [|exact Hb].
  destruct (srv_req nat c) eqn:?; destruct (cwire nat c) eqn:?; bsolve.
Qed.

Lemma wl_step_bounded n cur w c x : boundedc n c -> In x (wl_step nat cur w c) -> boundedc n (snd (fst x)).
Proof.
  intros Hb H. unfold wl_step in H.
  destruct (wl nat c); cbn [In kinds map] in H; cases_in H; cbn [In] in H;
    repeat (destruct H as [H|H]; [subst x|]); try contradiction;
    try (assert (Hr := srv_receive_bounded n c (wl_msg nat c) Hb (proj1 (proj2 Hb))));
    bsolve.
Qed.

Lemma srv_step_bounded n c x : boundedc n c -> In x (srv_step nat c) -> boundedc n (snd x).
Proof.
  intros Hb H. unfold srv_step in H. apply in_app_or in H. destruct H as [H|H].
  - cases_in H; cbn [In] in H; repeat (destruct H as [H|H]; [subst x|]); try contradiction; bsolve.
  - cases_in H; cbn [In kinds map] in H; repeat (destruct H as [H|H]; [subst x|]); try contradiction; bsolve.
Qed.

Lemma cl_conn_step_bounded n pc c x : boundedc n c -> In x (cl_conn_step nat pc c) -> boundedc n (snd x).
Proof.
  intros Hb H. unfold cl_conn_step in H.
  destruct pc; cbn [In] in H; cases_in H; repeat (destruct H as [H|H]; [subst x|]); try contradiction; bsolve.
Qed.

Lemma enter_reconnect_proj s ph c :
  callno _ _ (enter_reconnect nat nat s ph c) = callno _ _ s /\ got _ _ (enter_reconnect nat nat s ph c) = got _ _ s
  /\ cn _ _ (enter_reconnect nat nat s ph c) = c.
Proof. unfold enter_reconnect. destruct (hasconn nat nat s); repeat split. Qed.
Lemma fail_rt_proj s e c :
  callno _ _ (fail_rt nat nat s e c) = callno _ _ s /\ got _ _ (fail_rt nat nat s e c) = got _ _ s
  /\ cn _ _ (fail_rt nat nat s e c) = c.
Proof.
  unfold fail_rt. destruct ((retry nat nat s =? 0) || negb (retryable e)); [repeat split | apply enter_reconnect_proj].
Qed.

Definition keeps (s t : cstate) : Prop := callno _ _ t = callno _ _ s /\ (bounded s -> bounded t).

Ltac usolve :=
  unfold keeps, bounded; cbn [snd];
  repeat match goal with
  | |- context [fail_rt nat nat ?s ?e ?c] =>
    let P := fresh in pose proof (fail_rt_proj s e c) as P; destruct P as [-> [-> ->]]
  | |- context [enter_reconnect nat nat ?s ?ph ?c] =>
    let P := fresh in pose proof (enter_reconnect_proj s ph c) as P; destruct P as [-> [-> ->]]
  end;
  cbn [callno got cn mk goto set_loop set_uerr set_got set_uctx set_conn set_closer set_ntx fail_call];
  split; [reflexivity | intros [Hg Hc]; split; [try exact Hg | ]; bsolve; auto with arith].

Lemma ustep_keeps s x : In x (ustep nat nat (fun k => k) s) -> keeps s (snd x).
Proof.
  intros H. unfold ustep in H.
  destruct (u nat nat s); cbn [In app] in H; cases_in H; cbn [In app] in H;
    repeat (destruct H as [H|H]; [subst x|]); try contradiction; usolve.
Qed.

Lemma clstep_keeps s x : In x (clstep nat nat s) -> keeps s (snd x).
Proof.
  intros H. unfold clstep in H.
  destruct (cl nat nat s); cbn [In] in H; try contradiction;
    try (destruct H as [H|[]]; subst x; usolve; fail).
  all: destruct (hasconn nat nat s); cbn [In] in H;
    [ apply in_map_iff in H; destruct H as [y [Hy Hin]]; subst x;
      unfold keeps, bounded; cbn [snd callno got cn mk set_closer]; split; [reflexivity|];
      intros [Hg Hc]; split; [exact Hg | eapply cl_conn_step_bounded; eassumption]
    | destruct H as [H|[]]; subst x; usolve ].
Qed.

Lemma connstep_keeps s x : In x (connstep nat nat (fun k t => Nat.eqb t k) s) -> keeps s (snd x).
Proof.
  intros H. unfold connstep in H. destruct (hasconn nat nat s); [|contradiction].
  apply in_app_or in H. destruct H as [H|H]; [|apply in_app_or in H; destruct H as [H|H]];
    apply in_map_iff in H; destruct H as [y [Hy Hin]]; subst x;
    unfold keeps, bounded; cbn [snd fst callno got cn mk set_ntx]; (split; [reflexivity|]);
    intros [Hg Hc]; (split; [exact Hg|]).
  - eapply rl_step_bounded; eassumption.
  - eapply wl_step_bounded; eassumption.
  - eapply srv_step_bounded; eassumption.
Qed.

Lemma envstep'_keeps s x : In x (envstep' nat nat s) -> keeps s (snd x).
Proof.
  intros H. unfold envstep' in H. apply in_app_or in H. destruct H as [H|H]; cases_in H; cbn [In] in H;
    repeat (destruct H as [H|H]; [subst x|]); try contradiction; usolve.
Qed.

Lemma ble_mono n m o : n <= m -> ble n o -> ble m o.
Proof. destruct o; cbn; [lia | trivial]. Qed.

Lemma new_call_bounded s pre : bounded s -> bounded (new_call nat nat (fun t => t) S s pre).
Proof.
  intros [Hg [H1 [H2 [H3 H4]]]]. unfold bounded, boundedc, new_call.
  cbn [callno got cn retag_conn rl_msg wl_msg srv_req cwire]. unfold retag_opt.
  repeat split; try exact I;
    match goal with |- ble _ (option_map _ ?o) => destruct o; cbn in *; [lia | exact I] end.
Qed.

(** The step function of the concrete system, decomposed. *)
Lemma cstep_split s :
  cstep s = ustep nat nat (fun k => k) s ++ clstep nat nat s ++ connstep nat nat (fun k t => Nat.eqb t k) s
            ++ (match u _ _ s with UIdle => [(LNewCall false, new_call nat nat (fun t => t) S s false);
                                            (LNewCall true, new_call nat nat (fun t => t) S s true)] | _ => [] end)
            ++ envstep' nat nat s.
Proof. reflexivity. Qed.

Lemma astep_split (s : astate) :
  astep s = ustep bool unit (fun _ => true) s ++ clstep bool unit s ++ connstep bool unit (fun _ t => t) s
            ++ (match u _ _ s with UIdle => [(LNewCall false, new_call bool unit (fun _ => false) (fun k => k) s false);
                                            (LNewCall true, new_call bool unit (fun _ => false) (fun k => k) s true)] | _ => [] end)
            ++ envstep' bool unit s.
Proof. reflexivity. Qed.

Lemma in_app4 {A} (x : A) a b c d e :
  In x (a ++ b ++ c ++ d ++ e) -> In x a \/ In x b \/ In x c \/ In x d \/ In x e.
Proof. rewrite !in_app_iff. tauto. Qed.

Lemma cstep_bounded s x : bounded s -> In x (cstep s) -> bounded (snd x).
Proof.
  intros Hb H. rewrite cstep_split in H. apply in_app4 in H. destruct H as [H|[H|[H|[H|H]]]].
  - apply ustep_keeps in H. apply H. exact Hb.
  - apply clstep_keeps in H. apply H. exact Hb.
  - apply connstep_keeps in H. apply H. exact Hb.
  - destruct (u nat nat s); try contradiction. destruct H as [H|[H|[]]]; subst x; apply new_call_bounded; exact Hb.
  - apply envstep'_keeps in H. apply H. exact Hb.
Qed.

Lemma abs_slot n o : ble n o ->
  option_map (fun i => Nat.eqb i (S n)) (retag_opt nat (fun t => t) o) = retag_opt bool (fun _ => false) (option_map (fun i => Nat.eqb i n) o).
Proof.
  destruct o as [i|]; cbn; [|reflexivity]. intros H. f_equal. apply Nat.eqb_neq. lia.
Qed.

Lemma abs_new_call s pre : bounded s ->
  abs (new_call nat nat (fun t => t) S s pre) = new_call bool unit (fun _ => false) (fun k => k) (abs s) pre.
Proof.
  intros [Hg [H1 [H2 [H3 H4]]]]. unfold abs, new_call, abs_conn, retag_conn, abs_opt.
  cbn [u uctx retry rphase uerr got ntx ccl hasconn cn cl after_close callno
       rl rl_err rl_msg wl wl_err wl_msg cctx cclosed sclosed rxclosed errch srv_req cwire ovf option_map].
  rewrite (abs_slot _ _ H1), (abs_slot _ _ H2), (abs_slot _ _ H3), (abs_slot _ _ H4). reflexivity.
Qed.

Theorem sim_step s l t : bounded s -> In (l, t) (cstep s) -> In (l, abs t) (astep (abs s)).
Proof.
  intros Hb H. rewrite cstep_split in H. rewrite astep_split.
  set (n := callno nat nat s).
  set (F := fun i => Nat.eqb i n). set (G := fun _ : nat => tt).
  assert (Ha : abs s = maps nat nat bool unit F G s) by reflexivity.
  assert (Hk : forall x, keeps s (snd x) -> lift nat nat bool unit F G x = (fst x, abs (snd x))).
  { intros x [Hc _]. unfold lift. rewrite abs_absn, Hc. reflexivity. }
  apply in_app4 in H. rewrite !in_app_iff. destruct H as [H|[H|[H|[H|H]]]].
  - left. rewrite Ha. rewrite (ustep_nat nat nat bool unit (fun k => k) (fun _ => true) F G) by apply Nat.eqb_refl.
    pose proof (ustep_keeps _ _ H) as K.
    apply (in_map (lift nat nat bool unit F G)) in H. rewrite Hk in H by exact K. exact H.
  - right. left. rewrite Ha. rewrite clstep_nat.
    pose proof (clstep_keeps _ _ H) as K.
    apply (in_map (lift nat nat bool unit F G)) in H. rewrite Hk in H by exact K. exact H.
  - right. right. left. rewrite Ha.
    rewrite (connstep_nat nat nat bool unit (fun k t => Nat.eqb t k) (fun _ t => t) F G) by reflexivity.
    pose proof (connstep_keeps _ _ H) as K.
    apply (in_map (lift nat nat bool unit F G)) in H. rewrite Hk in H by exact K. exact H.
  - right. right. right. left.
    change (u bool unit (abs s)) with (u nat nat s).
    destruct (u nat nat s); try contradiction.
    destruct H as [H|[H|[]]]; injection H as <- <-; rewrite abs_new_call by exact Hb.
    + left. reflexivity.
    + right. left. reflexivity.
  - right. right. right. right. rewrite Ha. rewrite envstep'_nat.
    pose proof (envstep'_keeps _ _ H) as K.
    apply (in_map (lift nat nat bool unit F G)) in H. rewrite Hk in H by exact K. exact H.
Qed.
