(** Proofs about the client connection model (ConnClient.v): properties C10 and C11.

    The theorems are about the CONCRETE instance (requests carry the number of their call,
    unbounded executions).  They are obtained from the reflective certificates of
    ConnClientCert.v on the finite abstract instance through a simulation: [abs] maps every
    step of the concrete system to a step of the abstract one ([sim_step]); it holds because
    the step functions only move identifiers around (naturality, proved once for any two
    instances) and because identifiers in flight never exceed the current call number
    ([bounded]). *)
From Coq Require Import List Bool PArith Arith ZArith Lia.
From KV Require Import Lts ConnClient ConnClientCert.
Import ListNotations.
Set Default Timeout 100.

(** * Naturality of the step functions in the identifier type *)
Section Naturality.
  Variables T1 K1 T2 K2 : Type.
  Variable tag1 : K1 -> T1. Variable cur1 : K1 -> T1 -> bool. Variable retag1 : T1 -> T1. Variable next1 : K1 -> K1.
  Variable tag2 : K2 -> T2. Variable cur2 : K2 -> T2 -> bool. Variable retag2 : T2 -> T2. Variable next2 : K2 -> K2.
  Variable f : T1 -> T2.
  Variable g : K1 -> K2.

  Definition mapc (c : conn T1) : conn T2 :=
    {| rl := rl _ c; rl_err := rl_err _ c; rl_msg := option_map f (rl_msg _ c); wl := wl _ c; wl_err := wl_err _ c;
       wl_msg := option_map f (wl_msg _ c); cctx := cctx _ c; cclosed := cclosed _ c; sclosed := sclosed _ c;
       rxclosed := rxclosed _ c; errch := errch _ c; srv_req := option_map f (srv_req _ c);
       cwire := option_map f (cwire _ c); ovf := ovf _ c |}.
  Definition maps (s : client T1 K1) : client T2 K2 :=
    {| u := u _ _ s; uctx := uctx _ _ s; retry := retry _ _ s; rphase := rphase _ _ s; uerr := uerr _ _ s;
       got := option_map f (got _ _ s); ntx := ntx _ _ s; ccl := ccl _ _ s; hasconn := hasconn _ _ s;
       cn := mapc (cn _ _ s); cl := cl _ _ s; after_close := after_close _ _ s; callno := g (callno _ _ s) |}.

  Ltac split_all :=
    cbv;
    repeat match goal with
    | |- context [match ?x with _ => _ end] => is_var x; destruct x; cbv
    | |- context [if ?x then _ else _] => is_var x; destruct x; cbv
    end.

  Lemma rl_step_nat c : rl_step T2 (mapc c) = map (fun x => (fst x, mapc (snd x))) (rl_step T1 c).
  Proof. destruct c. split_all; reflexivity. Qed.

  Lemma wl_step_nat c1 c2 w c : (forall t, c2 (f t) = c1 t) ->
    wl_step T2 c2 w (mapc c) = map (fun x => (fst (fst x), mapc (snd (fst x)), snd x)) (wl_step T1 c1 w c).
  Proof.
    intros H. destruct c. split_all; try rewrite H; reflexivity.
  Qed.

  Lemma srv_step_nat c : srv_step T2 (mapc c) = map (fun x => (fst x, mapc (snd x))) (srv_step T1 c).
  Proof. destruct c. split_all; reflexivity. Qed.

  Lemma cl_conn_step_nat pc c : cl_conn_step T2 pc (mapc c) = map (fun x => (fst x, mapc (snd x))) (cl_conn_step T1 pc c).
  Proof. destruct c. split_all; reflexivity. Qed.

  Lemma mapc_cancel e c : cancel T2 e (mapc c) = mapc (cancel T1 e c).
  Proof. unfold cancel. change (cctx T2 (mapc c)) with (cctx T1 c). destruct (cctx T1 c); reflexivity. Qed.

  Lemma maps_enter_reconnect s ph c :
    enter_reconnect T2 K2 (maps s) ph (mapc c) = maps (enter_reconnect T1 K1 s ph c).
  Proof.
    unfold enter_reconnect. change (hasconn T2 K2 (maps s)) with (hasconn T1 K1 s).
    destruct (hasconn T1 K1 s); reflexivity.
  Qed.

  Lemma maps_fail_rt s e c : fail_rt T2 K2 (maps s) e (mapc c) = maps (fail_rt T1 K1 s e c).
  Proof.
    unfold fail_rt. change (retry T2 K2 (maps s)) with (retry T1 K1 s).
    destruct ((retry T1 K1 s =? 0) || negb (retryable e)); [reflexivity | apply maps_enter_reconnect].
  Qed.

  Definition lift (x : label * client T1 K1) : label * client T2 K2 := (fst x, maps (snd x)).

  (* case analysis on the tests of a step function; both sides then reduce to the same list *)
  Ltac cases :=
    repeat match goal with
    | |- context [if ?b then _ else _] => destruct b
    | |- context [match ?x with _ => _ end] => destruct x
    end.

  Lemma ustep_nat s : f (tag1 (callno _ _ s)) = tag2 (g (callno _ _ s)) ->
    ustep T2 K2 tag2 (maps s) = map lift (ustep T1 K1 tag1 s).
  Proof.
    intros H. unfold ustep.
    change (u T2 K2 (maps s)) with (u T1 K1 s).
    change (uctx T2 K2 (maps s)) with (uctx T1 K1 s).
    change (ccl T2 K2 (maps s)) with (ccl T1 K1 s).
    change (hasconn T2 K2 (maps s)) with (hasconn T1 K1 s).
    change (rphase T2 K2 (maps s)) with (rphase T1 K1 s).
    change (retry T2 K2 (maps s)) with (retry T1 K1 s).
    change (uerr T2 K2 (maps s)) with (uerr T1 K1 s).
    change (cl T2 K2 (maps s)) with (cl T1 K1 s).
    change (callno T2 K2 (maps s)) with (g (callno T1 K1 s)).
    change (cn T2 K2 (maps s)) with (mapc (cn T1 K1 s)).
    change (cctx T2 (mapc (cn T1 K1 s))) with (cctx T1 (cn T1 K1 s)).
    change (cclosed T2 (mapc (cn T1 K1 s))) with (cclosed T1 (cn T1 K1 s)).
    change (rxclosed T2 (mapc (cn T1 K1 s))) with (rxclosed T1 (cn T1 K1 s)).
    change (errch T2 (mapc (cn T1 K1 s))) with (errch T1 (cn T1 K1 s)).
    change (wl T2 (mapc (cn T1 K1 s))) with (wl T1 (cn T1 K1 s)).
    change (rl T2 (mapc (cn T1 K1 s))) with (rl T1 (cn T1 K1 s)).
    rewrite <- H.
    destruct (u T1 K1 s); cbn [map app]; cases; rewrite ?mapc_cancel;
      try change (close_stream T2 (mapc (cn T1 K1 s))) with (mapc (close_stream T1 (cn T1 K1 s)));
      try change (set_errch T2 (mapc (cn T1 K1 s)) ENone) with (mapc (set_errch T1 (cn T1 K1 s) ENone));
      rewrite ?maps_fail_rt, ?maps_enter_reconnect; reflexivity.
  Qed.

  Lemma clstep_nat s : clstep T2 K2 (maps s) = map lift (clstep T1 K1 s).
  Proof.
    unfold clstep.
    change (cl T2 K2 (maps s)) with (cl T1 K1 s).
    change (hasconn T2 K2 (maps s)) with (hasconn T1 K1 s).
    change (ccl T2 K2 (maps s)) with (ccl T1 K1 s).
    change (u T2 K2 (maps s)) with (u T1 K1 s).
    change (cn T2 K2 (maps s)) with (mapc (cn T1 K1 s)).
    destruct (cl T1 K1 s); cbn [map]; try reflexivity;
      (destruct (hasconn T1 K1 s); [rewrite cl_conn_step_nat, !map_map; reflexivity | reflexivity]).
  Qed.

  Lemma connstep_nat s : (forall t, cur2 (g (callno _ _ s)) (f t) = cur1 (callno _ _ s) t) ->
    connstep T2 K2 cur2 (maps s) = map lift (connstep T1 K1 cur1 s).
  Proof.
    intros H. unfold connstep.
    change (hasconn T2 K2 (maps s)) with (hasconn T1 K1 s).
    change (u T2 K2 (maps s)) with (u T1 K1 s).
    change (ntx T2 K2 (maps s)) with (ntx T1 K1 s).
    change (callno T2 K2 (maps s)) with (g (callno T1 K1 s)).
    change (cn T2 K2 (maps s)) with (mapc (cn T1 K1 s)).
    destruct (hasconn T1 K1 s); [|reflexivity].
    rewrite rl_step_nat, srv_step_nat.
    rewrite (wl_step_nat (cur1 (callno T1 K1 s)) (cur2 (g (callno T1 K1 s)))) by exact H.
    rewrite !map_app, !map_map. reflexivity.
  Qed.

  (** the environment, except the start of a new call *)
  Definition envstep' (T K : Type) (s : client T K) : list (label * client T K) :=
    (if in_call (u _ _ s) && negb (uctx _ _ s) then [(LCancel, set_uctx _ _ s true)] else [])
    ++ (match cl _ _ s with CIdle => [(LCloseStart, set_closer _ _ s C0 (ccl _ _ s))] | _ => [] end).

  Lemma envstep'_nat s : envstep' T2 K2 (maps s) = map lift (envstep' T1 K1 s).
  Proof.
    unfold envstep'.
    change (u T2 K2 (maps s)) with (u T1 K1 s). change (uctx T2 K2 (maps s)) with (uctx T1 K1 s).
    change (cl T2 K2 (maps s)) with (cl T1 K1 s). change (ccl T2 K2 (maps s)) with (ccl T1 K1 s).
    destruct (in_call (u T1 K1 s) && negb (uctx T1 K1 s)); destruct (cl T1 K1 s); reflexivity.
  Qed.
End Naturality.

(** * The concrete system, its invariant [bounded], and the simulation by the abstract system *)

Definition absn (n : nat) : cstate -> astate := maps nat nat bool unit (fun i => Nat.eqb i n) (fun _ => tt).
Lemma abs_absn s : abs s = absn (callno _ _ s) s.
Proof. reflexivity. Qed.

(** Identifiers in flight never exceed the number of the current call. *)
Definition ble (n : nat) (o : option nat) : Prop := match o with Some i => i <= n | None => True end.
Definition boundedc (n : nat) (c : conn nat) : Prop :=
  ble n (rl_msg _ c) /\ ble n (wl_msg _ c) /\ ble n (srv_req _ c) /\ ble n (cwire _ c).
Definition bounded (s : cstate) : Prop :=
  ble (callno _ _ s) (got _ _ s) /\ boundedc (callno _ _ s) (cn _ _ s).

Ltac cases_in H :=
  repeat match type of H with
  | context [if ?b then _ else _] => destruct b eqn:?
  | context [match ?x with _ => _ end] => destruct x eqn:?
  end.

Lemma cancel_rl_msg e c : rl_msg nat (cancel nat e c) = rl_msg nat c.
Proof. unfold cancel. destruct (cctx nat c); reflexivity. Qed.
Lemma cancel_wl_msg e c : wl_msg nat (cancel nat e c) = wl_msg nat c.
Proof. unfold cancel. destruct (cctx nat c); reflexivity. Qed.
Lemma cancel_srv_req e c : srv_req nat (cancel nat e c) = srv_req nat c.
Proof. unfold cancel. destruct (cctx nat c); reflexivity. Qed.
Lemma cancel_cwire e c : cwire nat (cancel nat e c) = cwire nat c.
Proof. unfold cancel. destruct (cctx nat c); reflexivity. Qed.

Ltac bsolve :=
  unfold boundedc in *; cbn [snd fst] in *;
  repeat match goal with
  | E : ?p = Some _, H : context [?p] |- _ => rewrite E in H
  | E : ?p = None, H : context [?p] |- _ => rewrite E in H
  end;
  cbn [rl_msg wl_msg srv_req cwire upd_rl upd_wl set_cctx set_cclosed close_stream set_rxclosed set_errch set_srv fresh_conn] in *;
  rewrite ?cancel_rl_msg, ?cancel_wl_msg, ?cancel_srv_req, ?cancel_cwire in *;
  cbn [rl_msg wl_msg srv_req cwire upd_rl upd_wl set_cctx set_cclosed close_stream set_rxclosed set_errch set_srv fresh_conn ble] in *;
  intuition.

Lemma rl_step_bounded n c x : boundedc n c -> In x (rl_step nat c) -> boundedc n (snd x).
Proof.
  intros Hb H. unfold rl_step in H.
  destruct (rl nat c); cbn [In] in H; cases_in H; cbn [In] in H;
    repeat (destruct H as [H|H]; [subst x|]); try contradiction; bsolve.
Qed.

Lemma srv_receive_bounded n c m : boundedc n c -> ble n m -> boundedc n (srv_receive nat c m).
Proof.
  intros Hb Hm. unfold srv_receive. destruct m as [t|]; [|exact Hb].
  destruct (srv_req nat c) eqn:?; destruct (cwire nat c) eqn:?; bsolve.
Qed.

Lemma wl_step_bounded n cur w c x : boundedc n c -> In x (wl_step nat cur w c) -> boundedc n (snd (fst x)).
Proof.
  intros Hb H. unfold wl_step in H.
  destruct (wl nat c); cbn [In kinds map] in H; cases_in H; cbn [In] in H;
    repeat (destruct H as [H|H]; [subst x|]); try contradiction;
    try (assert (Hr := srv_receive_bounded n c (wl_msg nat c) Hb (proj1 (proj2 Hb))));
    bsolve.
Qed.

Lemma srv_step_bounded n c x : boundedc n c -> In x (srv_step nat c) -> boundedc n (snd x).
Proof.
  intros Hb H. unfold srv_step in H. apply in_app_or in H. destruct H as [H|H].
  - cases_in H; cbn [In] in H; repeat (destruct H as [H|H]; [subst x|]); try contradiction; bsolve.
  - cases_in H; cbn [In kinds map] in H; repeat (destruct H as [H|H]; [subst x|]); try contradiction; bsolve.
Qed.

Lemma cl_conn_step_bounded n pc c x : boundedc n c -> In x (cl_conn_step nat pc c) -> boundedc n (snd x).
Proof.
  intros Hb H. unfold cl_conn_step in H.
  destruct pc; cbn [In] in H; cases_in H; repeat (destruct H as [H|H]; [subst x|]); try contradiction; bsolve.
Qed.

Lemma enter_reconnect_proj s ph c :
  callno _ _ (enter_reconnect nat nat s ph c) = callno _ _ s /\ got _ _ (enter_reconnect nat nat s ph c) = got _ _ s
  /\ cn _ _ (enter_reconnect nat nat s ph c) = c.
Proof. unfold enter_reconnect. destruct (hasconn nat nat s); repeat split. Qed.
Lemma fail_rt_proj s e c :
  callno _ _ (fail_rt nat nat s e c) = callno _ _ s /\ got _ _ (fail_rt nat nat s e c) = got _ _ s
  /\ cn _ _ (fail_rt nat nat s e c) = c.
Proof.
  unfold fail_rt. destruct ((retry nat nat s =? 0) || negb (retryable e)); [repeat split | apply enter_reconnect_proj].
Qed.

Definition keeps (s t : cstate) : Prop := callno _ _ t = callno _ _ s /\ (bounded s -> bounded t).

Ltac usolve :=
  unfold keeps, bounded; cbn [snd];
  repeat match goal with
  | |- context [fail_rt nat nat ?s ?e ?c] =>
    let P := fresh in pose proof (fail_rt_proj s e c) as P; destruct P as [-> [-> ->]]
  | |- context [enter_reconnect nat nat ?s ?ph ?c] =>
    let P := fresh in pose proof (enter_reconnect_proj s ph c) as P; destruct P as [-> [-> ->]]
  end;
  cbn [callno got cn mk goto set_loop set_uerr set_got set_uctx set_conn set_closer set_ntx fail_call];
  split; [reflexivity | intros [Hg Hc]; split; [try exact Hg | ]; bsolve; auto with arith].

Lemma ustep_keeps s x : In x (ustep nat nat (fun k => k) s) -> keeps s (snd x).
Proof.
  intros H. unfold ustep in H.
  destruct (u nat nat s); cbn [In app] in H; cases_in H; cbn [In app] in H;
    repeat (destruct H as [H|H]; [subst x|]); try contradiction; usolve.
Qed.

Lemma clstep_keeps s x : In x (clstep nat nat s) -> keeps s (snd x).
Proof.
  intros H. unfold clstep in H.
  destruct (cl nat nat s); cbn [In] in H; try contradiction;
    try (destruct H as [H|[]]; subst x; usolve; fail).
  all: destruct (hasconn nat nat s); cbn [In] in H;
    [ apply in_map_iff in H; destruct H as [y [Hy Hin]]; subst x;
      unfold keeps, bounded; cbn [snd callno got cn mk set_closer]; split; [reflexivity|];
      intros [Hg Hc]; split; [exact Hg | eapply cl_conn_step_bounded; eassumption]
    | destruct H as [H|[]]; subst x; usolve ].
Qed.

Lemma connstep_keeps s x : In x (connstep nat nat (fun k t => Nat.eqb t k) s) -> keeps s (snd x).
Proof.
  intros H. unfold connstep in H. destruct (hasconn nat nat s); [|contradiction].
  apply in_app_or in H. destruct H as [H|H]; [|apply in_app_or in H; destruct H as [H|H]];
    apply in_map_iff in H; destruct H as [y [Hy Hin]]; subst x;
    unfold keeps, bounded; cbn [snd fst callno got cn mk set_ntx]; (split; [reflexivity|]);
    intros [Hg Hc]; (split; [exact Hg|]).
  - eapply rl_step_bounded; eassumption.
  - eapply wl_step_bounded; eassumption.
  - eapply srv_step_bounded; eassumption.
Qed.

Lemma envstep'_keeps s x : In x (envstep' nat nat s) -> keeps s (snd x).
Proof.
  intros H. unfold envstep' in H. apply in_app_or in H. destruct H as [H|H]; cases_in H; cbn [In] in H;
    repeat (destruct H as [H|H]; [subst x|]); try contradiction; usolve.
Qed.

Lemma ble_mono n m o : n <= m -> ble n o -> ble m o.
Proof. destruct o; cbn; [lia | trivial]. Qed.

Lemma new_call_bounded s pre : bounded s -> bounded (new_call nat nat (fun t => t) S s pre).
Proof.
  intros [Hg [H1 [H2 [H3 H4]]]]. unfold bounded, boundedc, new_call.
  cbn [callno got cn retag_conn rl_msg wl_msg srv_req cwire]. unfold retag_opt.
  repeat split; try exact I;
    match goal with |- ble _ (option_map _ ?o) => destruct o; cbn in *; [lia | exact I] end.
Qed.

(** The step function of the concrete system, decomposed. *)
Lemma cstep_split s :
  cstep s = ustep nat nat (fun k => k) s ++ clstep nat nat s ++ connstep nat nat (fun k t => Nat.eqb t k) s
            ++ (match u _ _ s with UIdle => [(LNewCall false, new_call nat nat (fun t => t) S s false);
                                            (LNewCall true, new_call nat nat (fun t => t) S s true)] | _ => [] end)
            ++ envstep' nat nat s.
Proof. reflexivity. Qed.

Lemma astep_split (s : astate) :
  astep s = ustep bool unit (fun _ => true) s ++ clstep bool unit s ++ connstep bool unit (fun _ t => t) s
            ++ (match u _ _ s with UIdle => [(LNewCall false, new_call bool unit (fun _ => false) (fun k => k) s false);
                                            (LNewCall true, new_call bool unit (fun _ => false) (fun k => k) s true)] | _ => [] end)
            ++ envstep' bool unit s.
Proof. reflexivity. Qed.

Lemma in_app4 {A} (x : A) a b c d e :
  In x (a ++ b ++ c ++ d ++ e) -> In x a \/ In x b \/ In x c \/ In x d \/ In x e.
Proof. rewrite !in_app_iff. tauto. Qed.

Lemma cstep_bounded s x : bounded s -> In x (cstep s) -> bounded (snd x).
Proof.
  intros Hb H. rewrite cstep_split in H. apply in_app4 in H. destruct H as [H|[H|[H|[H|H]]]].
  - apply ustep_keeps in H. apply H. exact Hb.
  - apply clstep_keeps in H. apply H. exact Hb.
  - apply connstep_keeps in H. apply H. exact Hb.
  - destruct (u nat nat s); try contradiction. destruct H as [H|[H|[]]]; subst x; apply new_call_bounded; exact Hb.
  - apply envstep'_keeps in H. apply H. exact Hb.
Qed.

Lemma abs_slot n o : ble n o ->
  option_map (fun i => Nat.eqb i (S n)) (retag_opt nat (fun t => t) o) = retag_opt bool (fun _ => false) (option_map (fun i => Nat.eqb i n) o).
Proof.
  destruct o as [i|]; cbn; [|reflexivity]. intros H. f_equal. apply Nat.eqb_neq. lia.
Qed.

Lemma abs_new_call s pre : bounded s ->
  abs (new_call nat nat (fun t => t) S s pre) = new_call bool unit (fun _ => false) (fun k => k) (abs s) pre.
Proof.
  intros [Hg [H1 [H2 [H3 H4]]]]. unfold abs, new_call, abs_conn, retag_conn, abs_opt.
  cbn [u uctx retry rphase uerr got ntx ccl hasconn cn cl after_close callno
       rl rl_err rl_msg wl wl_err wl_msg cctx cclosed sclosed rxclosed errch srv_req cwire ovf option_map].
  rewrite (abs_slot _ _ H1), (abs_slot _ _ H2), (abs_slot _ _ H3), (abs_slot _ _ H4). reflexivity.
Qed.

Definition labs (x : label * cstate) : label * astate := (fst x, abs (snd x)).

(** The abstract system does, from [abs s], exactly what the concrete system does from [s]. *)
Theorem astep_abs s : bounded s -> astep (abs s) = map labs (cstep s).
Proof.
  intros Hb. rewrite cstep_split, astep_split, !map_app.
  set (n := callno nat nat s).
  set (F := fun i => Nat.eqb i n). set (G := fun _ : nat => tt).
  assert (Ha : abs s = maps nat nat bool unit F G s) by reflexivity.
  assert (Hk : forall x, keeps s (snd x) -> lift nat nat bool unit F G x = labs x).
  { intros x [Hc _]. unfold lift, labs. rewrite abs_absn, Hc. reflexivity. }
  f_equal; [|f_equal; [|f_equal; [|f_equal]]].
  - rewrite Ha. rewrite (ustep_nat nat nat bool unit (fun k => k) (fun _ => true) F G) by apply Nat.eqb_refl.
    apply map_ext_in. intros x Hx. apply Hk. apply ustep_keeps. exact Hx.
  - rewrite Ha. rewrite clstep_nat. apply map_ext_in. intros x Hx. apply Hk. apply clstep_keeps. exact Hx.
  - rewrite Ha. rewrite (connstep_nat nat nat bool unit (fun k t => Nat.eqb t k) (fun _ t => t) F G) by reflexivity.
    apply map_ext_in. intros x Hx. apply Hk. apply connstep_keeps. exact Hx.
  - change (u bool unit (abs s)) with (u nat nat s).
    destruct (u nat nat s); try reflexivity.
    cbn [map]. unfold labs. cbn [fst snd]. rewrite !abs_new_call by exact Hb. reflexivity.
  - rewrite Ha. rewrite envstep'_nat. apply map_ext_in. intros x Hx. apply Hk. apply envstep'_keeps. exact Hx.
Qed.

Lemma by_label_abs keep s : bounded s -> by_label keep (astep (abs s)) = map abs (by_label keep (cstep s)).
Proof.
  intros Hb. rewrite astep_abs by exact Hb. unfold by_label.
  induction (cstep s) as [|x l IH]; [reflexivity|].
  cbn [map filter]. change (fst (labs x)) with (fst x). destruct (keep (fst x)); cbn [map]; rewrite IH; reflexivity.
Qed.

Lemma astep'_abs s : bounded s -> astep' (abs s) = map abs (cstep' s).
Proof. intros Hb. unfold astep', cstep'. rewrite astep_abs by exact Hb. rewrite !map_map. reflexivity. Qed.

(** * Reachable concrete states are abstracted into the certified set *)

Lemma RA_init : In ainit RA.
Proof. exact (proj1 (inset_In astate enc enc_inj RA ainit) cert_init). Qed.

Lemma bounded_init : bounded cinit.
Proof. repeat split. Qed.

Lemma cstep'_bounded s t : bounded s -> In t (cstep' s) -> bounded t.
Proof.
  intros Hb H. unfold cstep' in H. apply in_map_iff in H. destruct H as [x [<- Hx]].
  eapply cstep_bounded; eassumption.
Qed.

Lemma reach_bounded s : reachable cstep' cinit s -> bounded s.
Proof. intros H. induction H as [|s t _ IH Ht]; [exact bounded_init | eapply cstep'_bounded; eassumption]. Qed.

Lemma reach_abs s : reachable cstep' cinit s -> reachable astep' ainit (abs s).
Proof.
  intros H. induction H as [|s t Hr IH Ht]; [apply reach_init|].
  eapply reach_step; [exact IH|]. rewrite astep'_abs by (apply reach_bounded; exact Hr).
  apply in_map. exact Ht.
Qed.

Lemma reach_RA s : reachable cstep' cinit s -> In (abs s) RA.
Proof.
  intros H. exact (closed_sound astep' enc enc_inj ainit RA RA_init cert_closed (abs s) (reach_abs s H)).
Qed.

Lemma reach_safe s : reachable cstep' cinit s -> safe_all (abs s) = true.
Proof.
  intros H. exact (proj1 (forallb_forall safe_all RA) cert_safe (abs s) (reach_RA s H)).
Qed.

Ltac safe_parts H :=
  unfold safe_all in H; repeat (apply andb_prop in H; let H' := fresh "Hs" in destruct H as [H H']).

(** * C10 *)

Theorem own_response s r : reachable cstep' cinit s -> got _ _ s = Some r -> r = callno _ _ s.
Proof.
  intros Hr Hg. pose proof (reach_safe s Hr) as H. safe_parts H.
  unfold safe_own in *. change (got bool unit (abs s)) with (abs_opt (callno _ _ s) (got _ _ s)) in *.
  rewrite Hg in *. cbn in *. destruct (Nat.eqb r (callno nat nat s)) eqn:E; [apply Nat.eqb_eq; exact E | discriminate].
Qed.

Theorem no_late_delivery s k : reachable cstep' cinit s -> k < callno _ _ s -> got _ _ s <> Some k.
Proof. intros Hr Hk Hg. apply (own_response s k Hr) in Hg. lia. Qed.

Theorem one_outstanding s : reachable cstep' cinit s -> ovf _ (cn _ _ s) = false.
Proof.
  intros Hr. pose proof (reach_safe s Hr) as H. safe_parts H.
  unfold safe_one_outstanding in *. change (ovf bool (cn bool unit (abs s))) with (ovf nat (cn _ _ s)) in *.
  destruct (ovf nat (cn nat nat s)); [discriminate | reflexivity].
Qed.

Lemma is_none_map {A B} (f : A -> B) o : is_none (option_map f o) = is_none o.
Proof. destruct o; reflexivity. Qed.

Theorem idle_conn_clean s : reachable cstep' cinit s ->
  u _ _ s = UIdle -> hasconn _ _ s = true -> conn_alive _ (cn _ _ s) = true ->
  srv_req _ (cn _ _ s) = None /\ cwire _ (cn _ _ s) = None /\ rl_msg _ (cn _ _ s) = None /\ wl_msg _ (cn _ _ s) = None.
Proof.
  intros Hr Hu Hh Ha. pose proof (reach_safe s Hr) as H. safe_parts H.
  unfold safe_idle_clean in *.
  change (u bool unit (abs s)) with (u nat nat s) in *. change (hasconn bool unit (abs s)) with (hasconn nat nat s) in *.
  change (cctx bool (cn bool unit (abs s))) with (cctx nat (cn nat nat s)) in *.
  change (cclosed bool (cn bool unit (abs s))) with (cclosed nat (cn nat nat s)) in *.
  unfold conn_alive in Ha. apply andb_prop in Ha. destruct Ha as [Ha Ha3]. apply andb_prop in Ha. destruct Ha as [Ha1 Ha2].
  rewrite Hu, Hh, Ha1, Ha2 in *. cbn [is_uidle andb] in *.
  change (srv_req bool (cn bool unit (abs s))) with (abs_opt (callno _ _ s) (srv_req nat (cn nat nat s))) in *.
  change (cwire bool (cn bool unit (abs s))) with (abs_opt (callno _ _ s) (cwire nat (cn nat nat s))) in *.
  change (rl_msg bool (cn bool unit (abs s))) with (abs_opt (callno _ _ s) (rl_msg nat (cn nat nat s))) in *.
  change (wl_msg bool (cn bool unit (abs s))) with (abs_opt (callno _ _ s) (wl_msg nat (cn nat nat s))) in *.
  unfold abs_opt in *. rewrite !is_none_map in *.
  repeat match goal with H : _ && _ = true |- _ => apply andb_prop in H; destruct H end.
  repeat split; match goal with |- ?o = None => destruct o; [discriminate | reflexivity] end.
Qed.

(** * C11: safety *)

Theorem cli_no_panic s : reachable cstep' cinit s -> u _ _ s <> UPanic /\ cl _ _ s <> CPanic.
Proof.
  intros Hr. pose proof (reach_safe s Hr) as H. safe_parts H.
  unfold safe_nopanic in *. change (u bool unit (abs s)) with (u nat nat s) in *. change (cl bool unit (abs s)) with (cl nat nat s) in *.
  split; intros E; rewrite E in *; discriminate.
Qed.

Theorem cli_retry_bound s : reachable cstep' cinit s -> ntx _ _ s <= 4.
Proof.
  intros Hr. pose proof (reach_safe s Hr) as H. safe_parts H.
  unfold safe_retry in *. change (ntx bool unit (abs s)) with (ntx nat nat s) in *. apply Nat.leb_le. assumption.
Qed.

Theorem cli_closed_fails s : reachable cstep' cinit s -> after_close _ _ s = true ->
  u _ _ s = U0 \/ u _ _ s = URetErr.
Proof.
  intros Hr Ha. pose proof (reach_safe s Hr) as H. safe_parts H.
  unfold safe_closed in *. change (after_close bool unit (abs s)) with (after_close nat nat s) in *.
  change (u bool unit (abs s)) with (u nat nat s) in *. rewrite Ha in *.
  destruct (u nat nat s); try discriminate; auto.
Qed.

(** * C11: termination, quiescence, recovery, abandoned connections *)

Lemma by_label_sub {S} keep (l : list (label * S)) t : In t (by_label keep l) -> In t (map snd l).
Proof.
  unfold by_label. intros H. apply in_map_iff in H. destruct H as [x [<- Hx]].
  apply filter_In in Hx. apply in_map. apply Hx.
Qed.

Lemma closed_sub {S} (step1 step2 : S -> list S) (e : S -> positive) (R : list S) :
  (forall s t, In t (step2 s) -> In t (step1 s)) -> closed step1 e R = true -> closed step2 e R = true.
Proof.
  intros Hsub H. unfold closed in *. rewrite forallb_forall in *. intros s Hs. specialize (H s Hs).
  rewrite forallb_forall in *. intros t Ht. apply H. apply Hsub. exact Ht.
Qed.

Lemma path_abs keep s p : bounded s -> path (fun s => by_label keep (cstep s)) s p ->
  path (fun a => by_label keep (astep a)) (abs s) (map abs p).
Proof.
  intros Hb H. revert Hb. induction H as [s|s t p Ht Hp IH]; intros Hb; [apply path_nil|].
  cbn [map]. apply path_cons.
  - rewrite by_label_abs by exact Hb. apply in_map. exact Ht.
  - apply IH. eapply cstep'_bounded; [exact Hb|]. apply by_label_sub in Ht. exact Ht.
Qed.

(** Without new calls and new Close invocations, no execution has more than 127 steps: a call
    in progress always comes to an end or to a point where it waits for the outside. *)
Theorem cli_terminates s p : reachable cstep' cinit s -> path cstepF s p -> length p <= 127.
Proof.
  intros Hr Hp. pose proof (reach_bounded s Hr) as Hb.
  apply (path_abs _ s p Hb) in Hp. fold astepF in Hp.
  assert (Hc : closed astepF enc RA = true).
  { apply (closed_sub astep'); [|exact cert_closed]. intros a t Ht. apply by_label_sub in Ht. exact Ht. }
  pose proof (ranked_sound astepF enc enc_inj (abs s) RA rankF (reach_RA s Hr) Hc cert_term_dec (abs s)
                (@reach_init _ astepF (abs s)) (map abs p) Hp) as H.
  rewrite map_length in H.
  pose proof (proj1 (forallb_forall _ RA) cert_term_bound (abs s) (reach_RA s Hr)) as Hk. cbn beta in Hk.
  apply Nat.leb_le in Hk. lia.
Qed.

Lemma quiescent_abs s : quiescent_ok bool unit (abs s) = quiescent_ok nat nat s.
Proof.
  unfold quiescent_ok, conn_parked, conn_gone, conn_alive.
  change (cl bool unit (abs s)) with (cl nat nat s). change (hasconn bool unit (abs s)) with (hasconn nat nat s).
  change (ccl bool unit (abs s)) with (ccl nat nat s). change (u bool unit (abs s)) with (u nat nat s).
  change (uctx bool unit (abs s)) with (uctx nat nat s).
  change (cn bool unit (abs s)) with (abs_conn (callno _ _ s) (cn nat nat s)).
  set (c := cn nat nat s). set (n := callno nat nat s).
  change (cctx bool (abs_conn n c)) with (cctx nat c). change (cclosed bool (abs_conn n c)) with (cclosed nat c).
  change (sclosed bool (abs_conn n c)) with (sclosed nat c). change (rxclosed bool (abs_conn n c)) with (rxclosed nat c).
  change (rl bool (abs_conn n c)) with (rl nat c). change (wl bool (abs_conn n c)) with (wl nat c).
  change (cwire bool (abs_conn n c)) with (abs_opt n (cwire nat c)). unfold abs_opt. rewrite !is_none_map. reflexivity.
Qed.

(** When no goroutine can move by itself, the Close callers have returned; a caller, if any, waits
    for its Write to complete or for its response on a connection in service (and its context is
    not done); a connection either is in service with both loops parked, or is terminated with both
    loops finished and its stream closed - always the latter once the client is closed. *)
Theorem cli_no_deadlock s : reachable cstep' cinit s -> cstepQ s = [] -> quiescent_ok nat nat s = true.
Proof.
  intros Hr Hq. pose proof (reach_bounded s Hr) as Hb.
  pose proof (proj1 (forallb_forall _ RA) cert_quiescent (abs s) (reach_RA s Hr)) as H. cbn beta in H.
  unfold astepQ in H. rewrite by_label_abs in H by exact Hb. fold (cstepQ s) in H. rewrite Hq in H. cbn [map] in H.
  rewrite quiescent_abs in H. exact H.
Qed.

Lemma last_default {A} (x : A) l d d' : last (x :: l) d = last (x :: l) d'.
Proof. revert x. induction l as [|y l IH]; intros x; [reflexivity|]. cbn [last] in *. apply IH. Qed.

Lemma path_abs_gen (sc : cstate -> list cstate) (sa : astate -> list astate) :
  (forall s, bounded s -> sa (abs s) = map abs (sc s)) -> (forall s t, In t (sc s) -> In t (cstep' s)) ->
  forall s p, bounded s -> path sc s p -> path sa (abs s) (map abs p) /\ bounded (last p s).
Proof.
  intros Heq Hsub s p Hb H. revert Hb. induction H as [s|s t p Ht Hp IH]; intros Hb.
  - split; [apply path_nil | exact Hb].
  - assert (Hbt : bounded t) by (eapply cstep'_bounded; [exact Hb | apply Hsub; exact Ht]).
    destruct (IH Hbt) as [IH1 IH2]. split.
    + cbn [map]. apply path_cons; [rewrite Heq by exact Hb; apply in_map; exact Ht | exact IH1].
    + destruct p as [|t' p']; [exact Hbt|]. change (last (t :: t' :: p') s) with (last (t' :: p') s).
      rewrite (last_default t' p' s t). exact IH2.
Qed.

Lemma path_reach {S} (step : S -> list S) s p : path step s p -> reachable step s (last p s).
Proof.
  intros H. induction H as [s|s t p Ht Hp IH]; [apply reach_init|].
  assert (Hr : forall q, reachable step t q -> reachable step s q).
  { intros q Hq. induction Hq as [|a b _ IHq Hb]; [eapply reach_step; [apply reach_init | exact Ht] | eapply reach_step; eassumption]. }
  destruct p as [|t' p']; [cbn; eapply reach_step; [apply reach_init | exact Ht]|].
  change (last (t :: t' :: p') s) with (last (t' :: p') s). rewrite (last_default t' p' s t). apply Hr; exact IH.
Qed.

Lemma last_map {A B} (f : A -> B) l d : last (map f l) (f d) = f (last l d).
Proof. induction l as [|x l IH]; [reflexivity|]. destruct l; [reflexivity | exact IH]. Qed.

Lemma astepG_abs s : bounded s -> astepG (abs s) = map abs (cstepG s).
Proof.
  intros Hb. unfold astepG, cstepG. change (u bool unit (abs s)) with (u nat nat s).
  destruct (returned (u nat nat s)); [reflexivity | apply by_label_abs; exact Hb].
Qed.

Lemma cstepG_sub s t : In t (cstepG s) -> In t (cstep' s).
Proof. unfold cstepG. destruct (returned (u nat nat s)); [contradiction | apply by_label_sub]. Qed.

(** A call that starts on a client at rest (no call in progress, no goroutine able to move by itself,
    not closed), whatever happened before, in a benign environment (dialer succeeds, no failure, no
    cancellation, no Close): every execution reaches the return of doRountrip in at most 24 steps,
    and it returns the response. *)
Theorem cli_recovers s0 p : reachable cstep' cinit s0 ->
  u _ _ s0 = UIdle -> ccl _ _ s0 = false -> cstepQ s0 = [] ->
  let s := new_call nat nat (fun t => t) S s0 false in
  path cstepG s p ->
  length p <= 24 /\ (cstepG (last p s) = [] -> u _ _ (last p s) = URetOk).
Proof.
  intros Hr Hu Hc Hq s Hp.
  pose proof (reach_bounded s0 Hr) as Hb0.
  assert (Hbs : bounded s) by (apply new_call_bounded; exact Hb0).
  assert (Habs : abs s = anew_call (abs s0)) by (apply abs_new_call; exact Hb0).
  assert (Hrest : at_rest (abs s0) = true).
  { unfold at_rest. change (u bool unit (abs s0)) with (u nat nat s0). change (ccl bool unit (abs s0)) with (ccl nat nat s0).
    rewrite Hu, Hc. unfold astepQ. rewrite by_label_abs by exact Hb0. fold (cstepQ s0). rewrite Hq. reflexivity. }
  assert (HGI : In (abs s) GI).
  { rewrite Habs. unfold GI. apply in_map. exact (proj2 (filter_In at_rest (abs s0) RA) (conj (reach_RA s0 Hr) Hrest)). }
  assert (HRG : In (abs s) RG).
  { exact (proj1 (inset_In astate enc enc_inj RG (abs s)) (proj1 (forallb_forall _ GI) cert_recover_init (abs s) HGI)). }
  destruct (path_abs_gen cstepG astepG astepG_abs cstepG_sub s p Hbs Hp) as [Hpa Hbl].
  split.
  - pose proof (ranked_sound astepG enc enc_inj (abs s) RG rankG HRG cert_recover_closed cert_recover_dec (abs s)
                  (@reach_init _ astepG (abs s)) (map abs p) Hpa) as H.
    rewrite map_length in H.
    pose proof (proj1 (forallb_forall _ RG) cert_recover_bound (abs s) HRG) as Hk. cbn beta in Hk.
    apply Nat.leb_le in Hk. lia.
  - intros Hend.
    pose proof (path_reach astepG (abs s) (map abs p) Hpa) as Hreach. rewrite last_map in Hreach.
    assert (Hend' : astepG (abs (last p s)) = []) by (rewrite astepG_abs by exact Hbl; rewrite Hend; reflexivity).
    pose proof (terminal_sound astepG enc enc_inj (abs s) RG (fun a => is_retok (u _ _ a)) HRG cert_recover_closed
                  cert_recover_final (abs (last p s)) Hreach Hend') as H.
    cbn beta in H. change (u bool unit (abs (last p s))) with (u nat nat (last p s)) in H.
    revert H. generalize (u nat nat (last p s)). clear. intros pc H. destruct pc; try discriminate. reflexivity.
Qed.

(** ** Abandoned connections *)

Definition abso (n : nat) (o : orphan nat) : orphan bool := (abs_conn n (fst o), snd o).

Lemma aostep_abso n o : aostep' (abso n o) = map (abso n) (costep' o).
Proof.
  unfold aostep', costep', aostep, ostep, abso. cbn [fst snd].
  change (abs_conn n (fst o)) with (mapc nat bool (fun i => Nat.eqb i n) (fst o)).
  rewrite rl_step_nat, srv_step_nat, cl_conn_step_nat.
  rewrite (wl_step_nat nat bool (fun i => Nat.eqb i n) (fun _ => false) (fun _ => false)) by reflexivity.
  rewrite !map_app, !map_map. reflexivity.
Qed.

Lemma reach_abso n o o' : reachable costep' o o' -> reachable aostep' (abso n o) (abso n o').
Proof.
  intros H. induction H as [|a b _ IH Hb]; [apply reach_init|].
  eapply reach_step; [exact IH|]. rewrite aostep_abso. apply in_map. exact Hb.
Qed.

Lemma path_abso n o p : path costep' o p -> path aostep' (abso n o) (map (abso n) p).
Proof.
  intros H. induction H as [o|o t p Ht Hp IH]; [apply path_nil|].
  cbn [map]. apply path_cons; [rewrite aostep_abso; apply in_map; exact Ht | exact IH].
Qed.

(** A connection abandoned by reconnect ([c.conn = nil] at R3) winds up by itself whatever its
    transport does: every execution of its goroutines (and of a Close still working on it) has at
    most 40 steps, and when nothing can move any more both loops have finished and the stream is closed. *)
Theorem cli_orphan_winds_up s o p : reachable cstep' cinit s -> u _ _ s = R3 ->
  reachable costep' (orphan_of _ _ s) o -> path costep' o p ->
  length p <= 40 /\ (costep' o = [] -> orphan_gone _ o = true).
Proof.
  intros Hr Hu Ho Hp. set (n := callno nat nat s).
  assert (Hinit : abso n (orphan_of _ _ s) = orphan_of _ _ (abs s)) by reflexivity.
  assert (HOI : In (orphan_of _ _ (abs s)) OI).
  { unfold OI. apply in_map.
    assert (H3 : is_R3 (u bool unit (abs s)) = true) by (change (u bool unit (abs s)) with (u nat nat s); rewrite Hu; reflexivity).
    exact (proj2 (filter_In (fun a => is_R3 (u bool unit a)) (abs s) RA) (conj (reach_RA s Hr) H3)). }
  assert (HRO : In (orphan_of _ _ (abs s)) RO).
  { exact (proj1 (inset_In _ oenc oenc_inj RO _) (proj1 (forallb_forall _ OI) cert_orphan_init _ HOI)). }
  pose proof (reach_abso n _ _ Ho) as Hra. rewrite Hinit in Hra.
  split.
  - pose proof (ranked_sound aostep' oenc oenc_inj _ RO rankO HRO cert_orphan_closed cert_orphan_dec _ Hra _ (path_abso n o p Hp)) as H.
    rewrite map_length in H.
    pose proof (closed_sound aostep' oenc oenc_inj _ RO HRO cert_orphan_closed _ Hra) as Hin.
    pose proof (proj1 (forallb_forall _ RO) cert_orphan_bound _ Hin) as Hk. cbn beta in Hk. apply Nat.leb_le in Hk. lia.
  - intros Hend.
    assert (Hend' : aostep' (abso n o) = []) by (rewrite aostep_abso, Hend; reflexivity).
    exact (terminal_sound aostep' oenc oenc_inj _ RO (orphan_gone bool) HRO cert_orphan_closed cert_orphan_final _ Hra Hend').
Qed.

(** * Concrete executions (for the non-vacuity examples) *)

(** Follow a script of labels: at each step, the first successor whose label satisfies the predicate. *)
Fixpoint follow (script : list (label -> bool)) (s : cstate) : option cstate :=
  match script with
  | [] => Some s
  | p :: rest =>
    match filter (fun x => p (fst x)) (cstep s) with
    | x :: _ => follow rest (snd x)
    | [] => None
    end
  end.

Lemma follow_reachable script : forall s t, reachable cstep' cinit s -> follow script s = Some t -> reachable cstep' cinit t.
Proof.
  induction script as [|p rest IH]; intros s t Hr H; cbn [follow] in H.
  - injection H as <-. exact Hr.
  - destruct (filter (fun x => p (fst x)) (cstep s)) as [|x l] eqn:E; [discriminate|].
    apply (IH (snd x)); [|exact H]. eapply reach_step; [exact Hr|].
    unfold cstep'. apply in_map. assert (Hin : In x (filter (fun x => p (fst x)) (cstep s))) by (rewrite E; left; reflexivity).
    apply filter_In in Hin. apply Hin.
Qed.

Definition l_new (l : label) := match l with LNewCall false => true | _ => false end.
Definition l_u (l : label) := match l with LTau CU | LHookLoaded | LHookSent | LDial true | LDrop => true | _ => false end.
Definition l_rl (l : label) := match l with LTau CRl | LRead => true | _ => false end.
Definition l_wl (l : label) := match l with LTau CWl | LWrite WrOk | LWrite WrClosed => true | _ => false end.
Definition l_cl (l : label) := match l with LTau CCl => true | _ => false end.
Definition l_reply (l : label) := match l with LSrv SReply => true | _ => false end.
Definition l_cancel (l : label) := match l with LCancel => true | _ => false end.
Definition l_close (l : label) := match l with LCloseStart => true | _ => false end.
Definition l_ret (l : label) := match l with LRet _ => true | _ => false end.
Definition l_idlefault (l : label) := match l with LSrv (SIdleFault KOther) => true | _ => false end.
