(** Row checkers for the one-hop fixed point on whole KMIP messages (C18, typed inputs): for a
    decode-only row (root type, input bytes - mutated / foreign / non-canonical -, observed
    outcome) whose bytes the model accepts, the normal form of the decoded message conforms,
    marshals to the same bytes as the decoded message, and is what the first re-encoding
    unmarshals to; a second re-encoding is byte-identical.  Definitions only (evaluated by
    vm_compute in the generated cases files). *)
From Coq Require Import ZArith List Bool String.
From KV Require Import Base Wire Cursor Schema SchemaSem Roundtrip Cases CodecRows KmipCodec Normalize.
From KVGen Require Import KmipSchema.
Import ListNotations.
Open Scope Z_scope.

Definition kmip_norm (root : string) (v : value) : value :=
  fst (norm_ty kmip_schema FUEL None (TNamed root) v).

(** conformance of the normal form and equality of the two encodings *)
Definition row_norm (r : string * list Z * obs (list Z)) : bool :=
  let '(root, bytes, _) := r in
  match kmip_unmarshal root bytes with
  | Ok v =>
    let v1 := kmip_norm root v in
    match find_tdef kmip_schema root with
    | Some d =>
      match conf_ty kmip_schema kmip_ops kmip_attrs kmip_objs FUEL None (TNamed root) (t_deftag d) v1 with
      | Some _ =>
        match kmip_marshal root v, kmip_marshal root v1 with
        | Ok a, Ok b => zlist_eqb a b
        | _, _ => false
        end
      | None => false
      end
    | None => false
    end
  | _ => true
  end.

(** the second hop: unmarshal (marshal v) = norm v and marshal (norm v) = marshal v *)
Definition row_hop (r : string * list Z * obs (list Z)) : bool :=
  let '(root, bytes, _) := r in
  match kmip_unmarshal root bytes with
  | Ok v =>
    match kmip_marshal root v with
    | Ok e1 =>
      match kmip_unmarshal root e1 with
      | Ok v1 => value_eqb v1 (kmip_norm root v) &&
                 match kmip_marshal root v1 with Ok e2 => zlist_eqb e1 e2 | _ => false end
      | _ => false
      end
    | _ => false
    end
  | _ => true
  end.
