(** Model of the server's batch executor and of the ID-placeholder store.

    Transcribes kmipserver/router.go ([HandleRequest], [handleRequest],
    [executeItemWithMiddleware], [executeItem], [handleDiscover] (re-used from Negotiate.v)),
    kmipserver/errors.go ([handleMessageError], [handleBatchItemError]) and
    kmipserver/context.go ([newBatchContext], [IdPlaceholder], [GetIdOrPlaceholder],
    [SetIdPlaceholder], [ClearIdPlaceholder]).

    The Go functions are written as programs of a small free monad [prog] whose
    operations are the effects the code has on the world that C09/C15 talk about:
      - [Alloc]  : [&batchData{...}]  (a fresh heap cell holding the empty placeholder)
      - [Load]/[Store] : reading / writing [bd.idPlaceholder] through the pointer
      - [Emit]   : ghost event (handler invoked / value a handler observed / ...)
      - [Throw]  : a Go panic (caught by [try_catch] where the code has a [recover])
    The same program is given a sequential semantics ([run], one request alone) and an
    interleaving semantics ([run_pool], any number of requests on one shared heap, any
    schedule).  No proofs in this file (BatchProofs.v). *)
From Coq Require Import ZArith List Bool.
From KV Require Import Negotiate.
Import ListNotations.
Open Scope Z_scope.

(** Strings and byte strings are lists of byte values. *)
Definition str := list Z.
Fixpoint str_eqb (a b : str) : bool :=
  match a, b with
  | [], [] => true
  | x :: xs, y :: ys => (x =? y) && str_eqb xs ys
  | _, _ => false
  end.
Definition str_is_empty (s : str) : bool := match s with [] => true | _ => false end.

(** ** Constants (enums.go) *)
Definition StatusSuccess : Z := 0.
Definition StatusFailed : Z := 1.                      (* ResultStatusOperationFailed *)
Definition ReasonInvalidMessage : Z := 4.
Definition ReasonOperationNotSupported : Z := 5.
Definition ReasonFeatureNotSupported : Z := 8.
Definition ReasonCanceledByRequester : Z := 9.         (* ResultReasonOperationCanceledByRequester *)
Definition ReasonGeneralFailure : Z := 256.
Definition OptContinue : Z := 1.                       (* BatchErrorContinuationOption* *)
Definition OptStop : Z := 2.
Definition OptUndo : Z := 3.

(** ** Go errors and panic values, as far as [errors.As(err, &Error{})] and the type switch of
    the [recover] block in [executeItem] distinguish them. *)
Inductive gerr :=
| EKmip (reason : Z)          (* a kmipserver.Error value *)
| EKmipPtr (reason : Z)       (* a *kmipserver.Error: not assignable to Error, errors.As misses it *)
| EWrap (e : gerr)            (* fmt.Errorf("...%w", e) *)
| EPlain.                     (* errors.New(...) *)

(* errors.As(err, &e) with e of type Error *)
Fixpoint err_as (e : gerr) : option Z :=
  match e with
  | EKmip r => Some r
  | EKmipPtr _ => None
  | EWrap e' => err_as e'
  | EPlain => None
  end.

Inductive panicval :=
| PvErr (e : gerr)            (* panic(err) *)
| PvStr                       (* panic("...") *)
| PvStringer                  (* panic(fmt.Stringer) *)
| PvOther                     (* any other value, e.g. panic(42) *)
| PvNilDeref.                 (* runtime error: nil pointer dereference (a runtime.Error, hence an error) *)

(* the type switch in executeItem's deferred function *)
Definition panic_to_err (pv : panicval) : gerr :=
  match pv with
  | PvErr e => e
  | PvStr => EPlain
  | PvStringer => EPlain
  | PvOther => EPlain          (* fmt.Errorf("Internal Server Error: %s", er): no %w *)
  | PvNilDeref => EPlain
  end.

(** ** Messages (requests.go, responses.go), reduced to what the executor looks at *)
Inductive payload :=
| PNil                                  (* RequestPayload == nil *)
| PDiscover (vs : list ver)             (* *payloads.DiscoverVersionsRequestPayload *)
| POther (key : Z).                     (* any other payload; [key] identifies its content *)

Inductive rpayload :=
| RNil
| RDiscover (vs : list ver)             (* built-in discovery answer *)
| RKey (key : Z).                       (* payload returned by a handler *)

Record item := {
  i_op : Z;                             (* Operation *)
  i_id : option (list Z);               (* UniqueBatchItemID (nil or bytes) *)
  i_ext : option bool;                  (* MessageExtension: nil, or its CriticalityIndicator *)
  i_pl : payload }.

Record header := {
  h_ver : ver;                          (* ProtocolVersion *)
  h_opt : Z;                            (* BatchErrorContinuationOption, 0 = absent (uint32) *)
  h_count : Z }.                        (* BatchCount (int32) *)

Record request := { r_hdr : header; r_items : list item }.

Record ritem := {
  o_op : Z;
  o_id : option (list Z);
  o_status : Z;
  o_reason : Z;
  o_pl : rpayload }.

Record response := { rs_ver : ver; rs_count : Z; rs_items : list ritem }.

(** ** Contexts (context.go).  A context is the chain of values attached to it, innermost
    first; [ctx.Value(ctxBatch{})] finds the innermost batch entry. *)
Inductive centry :=
| CConn (addr : Z)                      (* newConnContext *)
| CBatch (l : nat)                      (* newBatchContext: pointer to the batchData cell *)
| COther.                               (* any unrelated value *)
Definition ctx := list centry.

Fixpoint ctx_batch (c : ctx) : option nat :=
  match c with
  | [] => None
  | CBatch l :: _ => Some l
  | _ :: c' => ctx_batch c'
  end.

(** ** Handlers.  What a handler does is a program over the accessors of context.go, ending in
    what it returns (or panics with).  A handler may use the context it was given ([HOwn]) or
    some context of its own making that carries no batch data ([HBare], e.g.
    context.Background()).  [HRead]/[HGetOr] continue with the value obtained, so handlers that
    adapt to what they read are covered. *)
Inductive hctx := HOwn | HBare.

Inductive houtcome :=
| HOk (rp : rpayload)                   (* return rp, nil *)
| HErr (rp : rpayload) (e : gerr)       (* return rp, err *)
| HPanic (pv : panicval).               (* panic(pv) *)

Inductive hprog :=
| HRet (o : houtcome)
| HRead (c : hctx) (k : str -> hprog)                       (* IdPlaceholder(ctx) *)
| HGetOr (c : hctx) (reqid : str) (k : option str -> hprog) (* GetIdOrPlaceholder(ctx, reqid) *)
| HSet (c : hctx) (s : str) (k : hprog)                     (* SetIdPlaceholder(ctx, s) *)
| HClear (c : hctx) (k : hprog).                            (* ClearIdPlaceholder(ctx) *)

(** Ghost events; [idx] is the position of the batch item being executed. *)
Inductive event :=
| EvCall (idx : Z)                              (* route.HandleOperation invoked *)
| EvRead (idx : Z) (c : hctx) (v : str)         (* IdPlaceholder returned v *)
| EvGetOr (idx : Z) (c : hctx) (reqid : str) (r : option str)  (* GetIdOrPlaceholder returned r / an error *)
| EvSet (idx : Z) (c : hctx) (s : str)          (* SetIdPlaceholder returned normally *)
| EvClear (idx : Z) (c : hctx)                  (* ClearIdPlaceholder returned *)
| EvRet (idx : Z) (o : houtcome)                (* the handler returned / panicked *)
| EvFailClear.                                  (* handleBatchItemError cleared the placeholder *)

(** ** The effect monad *)
Inductive prog (R : Type) : Type :=
| Ret (r : R)
| Alloc (k : nat -> prog R)
| Load (l : nat) (k : str -> prog R)
| Store (l : nat) (v : str) (k : prog R)
| Emit (e : event) (k : prog R)
| Throw (pv : panicval).
Arguments Ret {R}. Arguments Alloc {R}. Arguments Load {R}. Arguments Store {R}.
Arguments Emit {R}. Arguments Throw {R}.

Fixpoint pbind {A B} (p : prog A) (f : A -> prog B) : prog B :=
  match p with
  | Ret a => f a
  | Alloc k => Alloc (fun l => pbind (k l) f)
  | Load l k => Load l (fun v => pbind (k v) f)
  | Store l v k => Store l v (pbind k f)
  | Emit e k => Emit e (pbind k f)
  | Throw pv => Throw pv
  end.
Notation "'dop' x <- p ;; k" := (pbind p (fun x => k)) (at level 200, x name, p at level 100, k at level 200, right associativity).

(* defer func() { if r := recover(); r != nil { h(r) } }() around p *)
Fixpoint try_catch {A} (p : prog A) (h : panicval -> prog A) : prog A :=
  match p with
  | Ret a => Ret a
  | Alloc k => Alloc (fun l => try_catch (k l) h)
  | Load l k => Load l (fun v => try_catch (k v) h)
  | Store l v k => Store l v (try_catch k h)
  | Emit e k => Emit e (try_catch k h)
  | Throw pv => h pv
  end.

(** ** context.go *)

(* newBatchContext: bdata := &batchData{header: hdr}; context.WithValue(parent, ctxBatch{}, bdata) *)
Definition new_batch_context (parent : ctx) : prog ctx :=
  Alloc (fun l => Ret (CBatch l :: parent)).

(* IdPlaceholder *)
Definition id_placeholder (c : ctx) : prog str :=
  match ctx_batch c with
  | None => Ret []                              (* bd == nil: return "" *)
  | Some l => Load l (fun v => Ret v)
  end.

(* GetIdOrPlaceholder: Some id, or None for the "ID Placeholder is empty" error *)
Definition get_id_or_placeholder (c : ctx) (reqid : str) : prog (option str) :=
  if negb (str_is_empty reqid) then Ret (Some reqid)
  else dop idp <- id_placeholder c ;;
       if negb (str_is_empty idp) then Ret (Some idp) else Ret None.

(* SetIdPlaceholder *)
Definition set_id_placeholder (c : ctx) (id : str) : prog unit :=
  match ctx_batch c with
  | None => Throw PvStr                         (* panic("not in a batch context") *)
  | Some l => Store l id (Ret tt)
  end.

(* ClearIdPlaceholder *)
Definition clear_id_placeholder (c : ctx) : prog unit :=
  match ctx_batch c with
  | None => Ret tt                              (* silently ignored *)
  | Some l => Store l [] (Ret tt)
  end.

(** ** errors.go *)

(* handleBatchItemError(ctx, bi, err) *)
Definition handle_batch_item_error (c : ctx) (bi : ritem) (err : option gerr) : prog ritem :=
  match err with
  | None => Ret bi
  | Some e =>
    dop u <- clear_id_placeholder c ;;
    Emit EvFailClear
      (Ret {| o_op := o_op bi; o_id := o_id bi; o_status := StatusFailed;
              o_reason := match err_as e with Some r => r | None => ReasonGeneralFailure end;
              o_pl := o_pl bi |})
  end.

Definition ver_zero : ver := (0, 0).
Definition zero_ritem : ritem :=
  {| o_op := 0; o_id := None; o_status := 0; o_reason := 0; o_pl := RNil |}.

(* handleMessageError(ctx, req, err) *)
Definition handle_message_error (c : ctx) (req : option request) (err : gerr) : prog response :=
  let v := match req with
           | Some r => if ver_eqb (h_ver (r_hdr r)) ver_zero then v1_0 else h_ver (r_hdr r)
           | None => v1_0
           end in
  dop bi <- handle_batch_item_error c zero_ritem (Some err) ;;
  Ret {| rs_ver := v; rs_count := 1; rs_items := [bi] |}.

(** ** router.go *)

Record config := {
  supported : list ver;                           (* exec.supportedVersions *)
  routed : Z -> bool;                             (* _, ok := exec.routes[op] *)
  handler : Z -> Z -> payload -> hprog }.         (* position, operation, payload -> behaviour *)

Definition resolve (c : ctx) (hc : hctx) : ctx := match hc with HOwn => c | HBare => [] end.

(* route.HandleOperation(ctx, pl): the handler's program run against the real accessors *)
Fixpoint run_hprog (c : ctx) (idx : Z) (hp : hprog) : prog (rpayload * option gerr) :=
  match hp with
  | HRet o =>
    Emit (EvRet idx o)
      match o with
      | HOk rp => Ret (rp, None)
      | HErr rp e => Ret (rp, Some e)
      | HPanic pv => Throw pv
      end
  | HRead hc k =>
    dop v <- id_placeholder (resolve c hc) ;; Emit (EvRead idx hc v) (run_hprog c idx (k v))
  | HGetOr hc reqid k =>
    dop r <- get_id_or_placeholder (resolve c hc) reqid ;; Emit (EvGetOr idx hc reqid r) (run_hprog c idx (k r))
  | HSet hc s k =>
    dop u <- set_id_placeholder (resolve c hc) s ;; Emit (EvSet idx hc s) (run_hprog c idx k)
  | HClear hc k =>
    dop u <- clear_id_placeholder (resolve c hc) ;; Emit (EvClear idx hc) (run_hprog c idx k)
  end.

Definition call_handler (cfg : config) (c : ctx) (idx : Z) (bi : item) : prog (rpayload * option gerr) :=
  Emit (EvCall idx) (run_hprog c idx (handler cfg idx (i_op bi) (i_pl bi))).

Definition set_pl (r : ritem) (rp : rpayload) : ritem :=
  {| o_op := o_op r; o_id := o_id r; o_status := o_status r; o_reason := o_reason r; o_pl := rp |}.

(* executeItem: returns (resp, err); resp is never nil *)
Definition execute_item (cfg : config) (c : ctx) (idx : Z) (bi : item) : prog (ritem * option gerr) :=
  let resp := {| o_op := i_op bi; o_id := i_id bi; o_status := 0; o_reason := 0; o_pl := RNil |} in
  try_catch
    (match i_ext bi with
     | Some true => Ret (resp, Some (EKmip ReasonFeatureNotSupported))
     | _ =>
       match i_pl bi with
       | PDiscover vs =>
         if routed cfg (i_op bi) then
           dop x <- call_handler cfg c idx bi ;; Ret (set_pl resp (fst x), snd x)
         else Ret (set_pl resp (RDiscover (handle_discover (supported cfg) vs)), None)
       | _ =>
         if routed cfg (i_op bi) then
           dop x <- call_handler cfg c idx bi ;; Ret (set_pl resp (fst x), snd x)
         else Ret (resp, Some (EKmip ReasonOperationNotSupported))    (* ErrOperationNotSupported *)
       end
     end)
    (* recovered panic: exec.handleBatchItemError(ctx, resp, e); the assignment of the
       handler's results never happened, the named results are (resp, nil) *)
    (fun pv => dop r <- handle_batch_item_error c resp (Some (panic_to_err pv)) ;; Ret (r, None)).

(* executeItemWithMiddleware with no batch-item middleware registered *)
Definition execute_item_mw (cfg : config) (c : ctx) (idx : Z) (bi : item) : prog ritem :=
  dop x <- execute_item cfg c idx bi ;;
  handle_batch_item_error c (fst x) (snd x).

Definition canceled (bi : item) : ritem :=
  {| o_op := i_op bi; o_id := i_id bi; o_status := StatusFailed;
     o_reason := ReasonCanceledByRequester; o_pl := RNil |}.

(* the item loop of handleRequest; [i] is the loop index *)
Fixpoint item_loop (cfg : config) (c : ctx) (eco : Z) (i : Z) (stopped : bool) (items : list item)
  : prog (list ritem) :=
  match items with
  | [] => Ret []
  | bi :: rest =>
    if stopped then
      dop rs <- item_loop cfg c eco (i + 1) true rest ;; Ret (canceled bi :: rs)
    else
      dop r <- execute_item_mw cfg c i bi ;;
      let stopped' := (o_status r =? StatusFailed) && (eco =? OptStop) in
      dop rs <- item_loop cfg c eco (i + 1) stopped' rest ;; Ret (r :: rs)
  end.

(* handleRequest: inl response, or inr err *)
Definition handle_request_inner (cfg : config) (c : ctx) (req : request) : prog (response + gerr) :=
  let hd := r_hdr req in
  if negb (vmem (h_ver hd) (supported cfg)) then Ret (inr (EKmip ReasonInvalidMessage))
  else
    let co := h_opt hd in
    if (co >? 0) && (co =? OptUndo) then Ret (inr (EKmip ReasonFeatureNotSupported))
    else
      let eco := if co >? 0 then co else OptContinue in
      if negb (h_count hd =? Z.of_nat (length (r_items req))) then Ret (inr (EKmip ReasonInvalidMessage))
      else
        dop rs <- item_loop cfg c eco 0 false (r_items req) ;;
        Ret (inl {| rs_ver := h_ver hd; rs_count := h_count hd; rs_items := rs |}).

(* HandleRequest with no message middleware registered; req == nil dereferences a nil pointer *)
Definition handle_request (cfg : config) (parent : ctx) (req : option request) : prog response :=
  match req with
  | None => Throw PvNilDeref
  | Some r =>
    dop c <- new_batch_context parent ;;
    dop x <- handle_request_inner cfg c r ;;
    match x with
    | inl resp => Ret resp
    | inr e => handle_message_error c (Some r) e
    end
  end.

(** ** Sequential semantics: one program alone on a heap of placeholder cells *)
Definition heap := list str.
Definition cell (h : heap) (l : nat) : str := nth l h [].
Fixpoint upd (h : heap) (l : nat) (v : str) : heap :=
  match h, l with
  | [], _ => []
  | _ :: t, O => v :: t
  | x :: t, S l' => x :: upd t l' v
  end.

Inductive outcome (R : Type) : Type :=
| Done (r : R) (h : heap) (log : list event)
| Panicked (pv : panicval) (h : heap) (log : list event).
Arguments Done {R}. Arguments Panicked {R}.

Definition prepend {R} (pre : list event) (o : outcome R) : outcome R :=
  match o with
  | Done r h log => Done r h (pre ++ log)
  | Panicked pv h log => Panicked pv h (pre ++ log)
  end.

Fixpoint run {R} (p : prog R) (h : heap) : outcome R :=
  match p with
  | Ret r => Done r h []
  | Alloc k => run (k (length h)) (h ++ [[]])
  | Load l k => run (k (cell h l)) h
  | Store l v k => run k (upd h l v)
  | Emit e k => prepend [e] (run k h)
  | Throw pv => Panicked pv h []
  end.

Definition out_log {R} (o : outcome R) : list event :=
  match o with Done _ _ log => log | Panicked _ _ log => log end.

(** ** Interleaving semantics: a pool of programs on one shared heap; one scheduled step
    executes one operation of the chosen thread.  [t_loc] is ghost (the cell the thread
    allocated), used by the proofs only. *)
Record thread (R : Type) := { t_prog : prog R; t_log : list event; t_loc : option nat }.
Arguments t_prog {R}. Arguments t_log {R}. Arguments t_loc {R}.

Definition step_thread {R} (h : heap) (t : thread R) : heap * thread R :=
  match t_prog t with
  | Ret _ => (h, t)
  | Throw _ => (h, t)
  | Alloc k => (h ++ [[]], {| t_prog := k (length h); t_log := t_log t; t_loc := Some (length h) |})
  | Load l k => (h, {| t_prog := k (cell h l); t_log := t_log t; t_loc := t_loc t |})
  | Store l v k => (upd h l v, {| t_prog := k; t_log := t_log t; t_loc := t_loc t |})
  | Emit e k => (h, {| t_prog := k; t_log := t_log t ++ [e]; t_loc := t_loc t |})
  end.

Fixpoint set_nth {A} (l : list A) (i : nat) (x : A) : list A :=
  match l, i with
  | [], _ => []
  | _ :: t, O => x :: t
  | y :: t, S i' => y :: set_nth t i' x
  end.

Definition step_pool {R} (i : nat) (st : heap * list (thread R)) : heap * list (thread R) :=
  match nth_error (snd st) i with
  | None => st                                   (* no such thread: the step is a no-op *)
  | Some t => let '(h', t') := step_thread (fst st) t in (h', set_nth (snd st) i t')
  end.

Definition run_pool {R} (sched : list nat) (st : heap * list (thread R)) : heap * list (thread R) :=
  fold_left (fun s i => step_pool i s) sched st.

Definition spawn {R} (p : prog R) : thread R := {| t_prog := p; t_log := []; t_loc := None |}.

(** ** Scripted handlers used by the correspondence check (straight-line scripts; [SCopy] reads
    the placeholder and stores it back with a suffix, i.e. adapts to what it read). *)
Inductive sact :=
| SRead (c : hctx)
| SGetOr (c : hctx) (reqid : str)
| SSet (c : hctx) (s : str)
| SClear (c : hctx)
| SCopy (suffix : str).

Fixpoint script_prog (acts : list sact) (o : houtcome) : hprog :=
  match acts with
  | [] => HRet o
  | SRead c :: t => HRead c (fun _ => script_prog t o)
  | SGetOr c r :: t => HGetOr c r (fun _ => script_prog t o)
  | SSet c s :: t => HSet c s (script_prog t o)
  | SClear c :: t => HClear c (script_prog t o)
  | SCopy suf :: t => HRead HOwn (fun v => HSet HOwn (v ++ suf) (script_prog t o))
  end.

Definition script := (list sact * houtcome)%type.

Fixpoint lookup_script (k : Z) (tbl : list (Z * script)) : option script :=
  match tbl with
  | [] => None
  | (k', s) :: t => if k =? k' then Some s else lookup_script k t
  end.

(* the scripted handler of the harness: behaviour is looked up by the payload's key; a payload
   it cannot identify is answered with a plain error (as HandleFunc does) *)
Definition scripted_handler (tbl : list (Z * script)) (idx op : Z) (pl : payload) : hprog :=
  match pl with
  | POther k =>
    match lookup_script k tbl with
    | Some (acts, o) => script_prog acts o
    | None => HRet (HErr RNil EPlain)
    end
  | _ => HRet (HErr RNil EPlain)
  end.

Definition scripted_config (sup : list ver) (routes : list Z) (tbl : list (Z * script)) : config :=
  {| supported := sup; routed := fun op => existsb (Z.eqb op) routes; handler := scripted_handler tbl |}.

(** ** Flat encodings of the observables compared with the implementation *)
Definition enc_str (s : str) : list Z := Z.of_nat (length s) :: s.
Definition enc_ostr (s : option str) : list Z := match s with None => [-1] | Some s => enc_str s end.
Definition enc_ver (v : ver) : list Z := [fst v; snd v].
Definition enc_vers (l : list ver) : list Z := Z.of_nat (length l) :: flat_map enc_ver l.
Definition enc_rpayload (p : rpayload) : list Z :=
  match p with RNil => [0] | RDiscover vs => 1 :: enc_vers vs | RKey k => [2; k] end.
Fixpoint enc_gerr (e : gerr) : list Z :=
  match e with
  | EKmip r => [1; r] | EKmipPtr r => [2; r] | EWrap e' => 3 :: enc_gerr e' | EPlain => [4]
  end.
Definition enc_pv (pv : panicval) : list Z :=
  match pv with
  | PvErr e => 1 :: enc_gerr e | PvStr => [2] | PvStringer => [3] | PvOther => [4] | PvNilDeref => [5]
  end.
Definition enc_houtcome (o : houtcome) : list Z :=
  match o with
  | HOk rp => 1 :: enc_rpayload rp
  | HErr rp e => 2 :: enc_rpayload rp ++ enc_gerr e
  | HPanic pv => 3 :: enc_pv pv
  end.
Definition enc_hctx (c : hctx) : Z := match c with HOwn => 0 | HBare => 1 end.
Definition enc_ritem (r : ritem) : list Z :=
  [o_op r] ++ enc_ostr (o_id r) ++ [o_status r; o_reason r] ++ enc_rpayload (o_pl r).
Definition enc_response (r : response) : list Z :=
  enc_ver (rs_ver r) ++ [rs_count r; Z.of_nat (length (rs_items r))] ++ flat_map enc_ritem (rs_items r).

(* handlers identify themselves by the key of the payload they were given *)
Definition pl_key (p : payload) : Z :=
  match p with PNil => -1 | PDiscover _ => -2 | POther k => k end.
Fixpoint nth_item (items : list item) (i : Z) : option item :=
  match items with
  | [] => None
  | x :: t => if i =? 0 then Some x else nth_item t (i - 1)
  end.
Definition key_at (items : list item) (i : Z) : Z :=
  match nth_item items i with Some bi => pl_key (i_pl bi) | None => -9 end.

(* events visible to the harness (EvFailClear is internal to the library) *)
Definition enc_event (items : list item) (e : event) : list Z :=
  match e with
  | EvCall i => [1; key_at items i]
  | EvRead i c v => [2; key_at items i; enc_hctx c] ++ enc_str v
  | EvGetOr i c q r => [3; key_at items i; enc_hctx c] ++ enc_str q ++ enc_ostr r
  | EvSet i c s => [4; key_at items i; enc_hctx c] ++ enc_str s
  | EvClear i c => [5; key_at items i; enc_hctx c]
  | EvRet i o => [6; key_at items i] ++ enc_houtcome o
  | EvFailClear => []
  end.
Definition enc_log (items : list item) (log : list event) : list Z := flat_map (enc_event items) log.

Definition req_items (req : option request) : list item :=
  match req with Some r => r_items r | None => [] end.

(* observation of one sequential run: 0 :: response ++ -7 :: log, or 1 :: log for a panic *)
Definition observe (req : option request) (o : outcome response) : list Z :=
  match o with
  | Done r _ log => 0 :: enc_response r ++ [-7] ++ enc_log (req_items req) log
  | Panicked _ _ log => 1 :: enc_log (req_items req) log
  end.

(** ** Vocabulary of the property statements (projections of the ghost log) *)

(* positions of the items whose handler was invoked, in invocation order *)
Definition calls (log : list event) : list Z :=
  flat_map (fun e => match e with EvCall i => [i] | _ => [] end) log.

(* what the invoked handlers returned, in order *)
Definition rets (log : list event) : list (Z * houtcome) :=
  flat_map (fun e => match e with EvRet i o => [(i, o)] | _ => [] end) log.

(* an item reaches a handler iff it carries no critical extension and its operation is routed *)
Definition dispatches (cfg : config) (bi : item) : bool :=
  match i_ext bi with Some true => false | _ => routed cfg (i_op bi) end.

Definition reason_of_err (e : gerr) : Z :=
  match err_as e with Some r => r | None => ReasonGeneralFailure end.

(* what an item must report given what its handler did *)
Definition status_of (o : houtcome) : Z := match o with HOk _ => StatusSuccess | _ => StatusFailed end.
Definition reason_of (o : houtcome) : Z :=
  match o with HOk _ => 0 | HErr _ e => reason_of_err e | HPanic pv => reason_of_err (panic_to_err pv) end.
Definition payload_of (o : houtcome) : rpayload :=
  match o with HOk rp => rp | HErr rp _ => rp | HPanic _ => RNil end.

(* the placeholder as one request sees it: replaying its own log from value [v] *)
Fixpoint flow (v : str) (log : list event) : option str :=
  match log with
  | [] => Some v
  | EvRead _ HOwn x :: t => if str_eqb x v then flow v t else None
  | EvRead _ HBare x :: t => if str_is_empty x then flow v t else None
  | EvGetOr _ hc q r :: t =>
    let seen := match hc with HOwn => v | HBare => [] end in
    let want := if negb (str_is_empty q) then Some q else if negb (str_is_empty seen) then Some seen else None in
    match r, want with
    | Some a, Some b => if str_eqb a b then flow v t else None
    | None, None => flow v t
    | _, _ => None
    end
  | EvSet _ HOwn s :: t => flow s t
  | EvClear _ HOwn :: t => flow [] t
  | EvFailClear :: t => flow [] t
  | _ :: t => flow v t
  end.
