(** Round trip of kmip.RequestBatchItem (hand-written encoder and decoder, requests.go). *)
From Coq Require Import ZArith List Bool String Lia PeanoNat.
From KV Require Import Base BaseProofs Wire WireProofs Cursor CursorProofs Schema SchemaSem SchemaSemEq FaithfulProofs
  Roundtrip RoundtripEq RoundtripProofs RtCustomLib.
Import ListNotations.
Open Scope Z_scope.

Section RI.
  Variable S : schema.
  Variables (OPS : op_table) (ATTRS : attr_table) (OBJS : obj_table).
  Context {R : Type}.
  Variable F : rawfmt R.

  Local Notation enc_ty := (enc_ty S).
  Local Notation dec_ty := (dec_ty S OPS ATTRS OBJS F).
  Local Notation dec_opt := (dec_opt S OPS ATTRS OBJS F).
  Local Notation conf_ty := (conf_ty S OPS ATTRS OBJS).
  Local Notation Q := (Q S OPS ATTRS OBJS F).
  Local Notation RT_concl := (RT_concl S OPS ATTRS OBJS F).

  Lemma rt_request_item f : Q f -> forall fc st d tag fs items st' sc,
    find_tdef S (t_name d) = Some d -> t_custom_dec d = true ->
    t_name d = "kmip.RequestBatchItem"%string ->
    enc_ty (Datatypes.S f) st (TNamed (t_name d)) tag (VStruct (t_name d) fs) = Ok (items, st') ->
    conf_request_item S OPS (conf_ty fc) st d tag fs = Some sc ->
    RT_concl (Datatypes.S f) st (TNamed (t_name d)) tag (VStruct (t_name d) fs) items st' sc.
  Proof.
    intros HQ fc st d tag fs items st' sc Ed Hcd Hname He Hc.
    assert (EV : String.eqb (t_name d) "ttlv.Value" = false) by (rewrite Hname; reflexivity).
    assert (ES : String.eqb (t_name d) "ttlv.Struct" = false) by (rewrite Hname; reflexivity).
    unfold conf_request_item in Hc.
    destruct fs as [|[op| | | | | | | | |] [|[| |id| | | | | | |] [|payload [|ext [|? ?]]]]]; try discriminate.
    match type of Hc with (if ?c then _ else _) = _ => destruct c eqn:Hcond; [|discriminate] end.
    injection Hc as <-.
    rewrite !andb_true_iff in Hcond.
    destruct Hcond as (((((((((((Hce & Ht0) & Ht1) & Ht2) & Ht3) & Hz0) & Hz1) & Hz2) & Hz3) & H12) & Hpl) & Hext).
    apply ty_eqb_eq in Ht0, Ht1. apply negb_true_iff in Hz0, Hz1, Hz2, Hz3, H12.
    apply Z.eqb_neq in Hz0, Hz1, Hz2, Hz3, H12.
    destruct (fty d 2) as [| | | |nm] eqn:Et2; try discriminate. clear Ht2.
    destruct (fty d 3) as [|t3| | |] eqn:Et3; try discriminate. clear Ht3.
    apply keeps_some in Hext.
    (* the encoder *)
    rewrite enc_ty_eq, EV, ES, Ed, Hce in He.
    destruct f as [|f1]; [discriminate|]. rewrite enc_custom_eq in He. cbv zeta in He. rewrite Hname in He.
    change (String.eqb "kmip.RequestBatchItem" "kmip.RequestBatchItem") with true in He. cbv iota in He.
    cbn [bytes_of] in He. rewrite Et2, Et3 in He.
    destruct (enc_ty f1 st (TIface nm) (ftag d 2) payload) as [[ip sp]| | |] eqn:Ep; cbn [bind fst snd] in He; try discriminate.
    destruct (enc_ty f1 sp (TPtr t3) (ftag d 3) ext) as [[ie se]| | |] eqn:Ee; cbn [bind fst snd] in He; try discriminate.
    injection He as <- <-.
    assert (HQ1 : Q f1) by (intros g Hg; apply HQ; lia).
    destruct (payload_rt S OPS ATTRS OBJS F f1 nm fc st false op (ftag d 2) payload ip sp HQ1 Hz2 Ep Hpl) as (-> & i & -> & Hi & Hdp).
    pose proof (Q_ty S OPS ATTRS OBJS F _ f1 HQ1 (Nat.le_refl _) _ _ _ _ _ _ _ _ Ee Hext) as Hce_ext.
    pose proof Hce_ext as (<- & _).
    split; [reflexivity|]. split; [constructor; [reflexivity | constructor]|]. split; [eauto|]. split; [intros; discriminate|].
    intros es rest fd Hf _ Hfd. apply faithful_one_inv in Hf. destruct Hf as (e & -> & He1).
    inversion He1 as [tag0 kids0 raw eks Hk| | | | | | | | | |]; subst.
    apply faithful_cons_inv in Hk. destruct Hk as (eop & ek1 & -> & Hfop & Hk).
    apply faithful_app_inv in Hk. destruct Hk as (eid & ek2 & -> & Hfid & Hk).
    apply faithful_cons_inv in Hk. destruct Hk as (ep & eext & -> & Hfp & Hfext).
    unfold items_size at 1 in Hfd. cbn [fold_right] in Hfd. rewrite item_size_struct in Hfd.
    change ([i] ++ ie) with (i :: ie) in Hfd. rewrite items_size_cons, items_size_app, items_size_cons in Hfd. cbn [item_size] in Hfd.
    destruct fd as [|fd1]; [lia|]. cbn [app].
    rewrite (dec_ty_custom S OPS ATTRS OBJS F fd1 st d tag _ Ed Hcd EV ES).
    unfold dec_custom_of. rewrite Hname.
    change (String.eqb "kmip.RequestBatchItem" "kmip.RequestBatchItem") with true. cbv iota.
    unfold dec_request_item. rewrite Hname.
    apply wrap_struct_ok with (l := []).
    rewrite Ht0, Ht1, Et3.
    destruct fd1 as [|fd2]; [lia|]. destruct fd2 as [|fd3]; [lia|].
    cbn [app].
    rewrite (dreq_enum S OPS ATTRS OBJS F _ st (ftag d 0) op eop _ Hfop). cbn [bind fst snd int_of].
    assert (Hnext_id : c_tag (ep :: eext, false) <> ftag d 1).
    { rewrite (faithful1_tag F _ _ _ _ Hfp), Hi. congruence. }
    rewrite (dopt_bytes S OPS ATTRS OBJS F fd3 st (ftag d 1) id eid (ep :: eext) Hfid Hnext_id). cbn [bind fst snd].
    rewrite (Hdp ep eext _ Hfp) by lia. cbn [bind fst snd].
    assert (Hnext_ext : c_tag (@nil (relem R), false) <> ftag d 3) by (rewrite c_tag_nil; congruence).
    pose proof (dopt_ptr S OPS ATTRS OBJS F f1 st t3 (ftag d 3) ext ie st st eext [] (Datatypes.S fd3) Hce_ext Hfext Hnext_ext) as Hde.
    rewrite app_nil_r in Hde. rewrite Hde by lia. reflexivity.
  Qed.
End RI.
