(** Version gating of the struct-level codec (C05): unfolding lemmas that state, for ANY
    schema, what the per-field wrappers of the encoder and decoder do, and the instances at
    the regenerated KMIP schema. *)
From Coq Require Import ZArith List Bool String Lia.
From KV Require Import Base Wire Cursor Schema SchemaSem Versions PinnedVersions.
From KVGen Require Import KmipSchema.
Import ListNotations.
Open Scope Z_scope.

Section Gate.
  Variable S : schema.

  (** the state under which a field's own gate and encoding run *)
  Definition field_state (st : vstate) (fd : field) (x : value) : vstate :=
    if f_setver fd then ver_of_value x else st.

  (** one-step unfolding of the field loop of the encoder (definitional) *)
  Lemma enc_fields_step f st fd fl x vl :
    enc_fields S (Datatypes.S f) st (fd :: fl) (x :: vl) =
      (do a <-
         (if f_tag fd =? 0 then
            match x with
            | VNil => Ok ([], st)
            | VIface dyn w => enc_ty S f st dyn (deftag_of S dyn) w
            | _ => Panic
            end
          else
            let st1 := if f_setver fd then ver_of_value x else st in
            if negb (version_in st1 (f_range fd)) then Ok ([], st1)
            else if f_omit fd && is_zero x then Ok ([], st1)
            else enc_ty S f st1 (f_ty fd) (f_tag fd) x) ;;
       do b <- enc_fields S f (snd a) fl vl ;;
       Ok ((fst a ++ fst b)%list, snd b)).
  Proof. reflexivity. Qed.

  (** sound: a field whose range excludes the current version contributes NOTHING *)
  Lemma gate_sound f st fd fl x vl items st2 :
    f_tag fd <> 0 ->
    version_in (field_state st fd x) (f_range fd) = false ->
    enc_fields S f (field_state st fd x) fl vl = Ok (items, st2) ->
    enc_fields S (Datatypes.S f) st (fd :: fl) (x :: vl) = Ok (items, st2).
  Proof.
    intros Ht Hv He. rewrite enc_fields_step. destruct (Z.eqb_spec (f_tag fd) 0); [contradiction|].
    unfold field_state in *. cbv zeta. rewrite Hv. cbn [negb bind fst snd app]. rewrite He. reflexivity.
  Qed.

  (** complete: a populated field valid at the current version contributes exactly the
      encoding of its value under its own tag *)
  Lemma gate_complete f st fd fl x vl a sa b sb :
    f_tag fd <> 0 ->
    version_in (field_state st fd x) (f_range fd) = true ->
    f_omit fd && is_zero x = false ->
    enc_ty S f (field_state st fd x) (f_ty fd) (f_tag fd) x = Ok (a, sa) ->
    enc_fields S f sa fl vl = Ok (b, sb) ->
    enc_fields S (Datatypes.S f) st (fd :: fl) (x :: vl) = Ok ((a ++ b)%list, sb).
  Proof.
    intros Ht Hv Hz Ha Hb. rewrite enc_fields_step. destruct (Z.eqb_spec (f_tag fd) 0); [contradiction|].
    unfold field_state in *. cbv zeta. rewrite Hv, Hz. cbn [negb]. rewrite Ha. cbn [bind fst snd]. rewrite Hb. reflexivity.
  Qed.

  (** omitted only when empty: an omitempty field holding its zero value contributes nothing *)
  Lemma omit_zero f st fd fl x vl items st2 :
    f_tag fd <> 0 -> f_omit fd = true -> is_zero x = true ->
    enc_fields S f (field_state st fd x) fl vl = Ok (items, st2) ->
    enc_fields S (Datatypes.S f) st (fd :: fl) (x :: vl) = Ok (items, st2).
  Proof.
    intros Ht Ho Hz He. rewrite enc_fields_step. destruct (Z.eqb_spec (f_tag fd) 0); [contradiction|].
    unfold field_state in *. cbv zeta. rewrite Ho, Hz. destruct (negb _); cbn [bind andb fst snd app]; rewrite He; reflexivity.
  Qed.

  Context {R : Type}.
  Variables (OPS : op_table) (ATTRS : attr_table) (OBJS : obj_table) (F : rawfmt R).

  Lemma dec_fields_step f st fd fl (c : cur R) :
    dec_fields_s S OPS ATTRS OBJS F (Datatypes.S f) st (fd :: fl) c =
      (do a <-
         (if f_tag fd =? 0 then Panic
          else if negb (version_in st (f_range fd)) && negb (c_tag c =? f_tag fd) then Ok (zero_of S 8 (f_ty fd), c, st)
          else if f_omit fd && negb (c_tag c =? f_tag fd) then Ok (zero_of S 8 (f_ty fd), c, st)
          else dec_ty S OPS ATTRS OBJS F f st (f_ty fd) (f_tag fd) c) ;;
       let st1 := if f_setver fd then ver_of_value (fst (fst a)) else snd a in
       do b <- dec_fields_s S OPS ATTRS OBJS F f st1 fl (snd (fst a)) ;;
       Ok (fst (fst a) :: fst (fst b), snd (fst b), snd b)).
  Proof. reflexivity. Qed.

  (** decoding accepts a later-version element that is present on the wire, whatever the
      version: when the current tag is the field's tag the field is decoded *)
  Lemma dec_accepts_present f st fd fl (c : cur R) :
    f_tag fd <> 0 -> c_tag c = f_tag fd ->
    dec_fields_s S OPS ATTRS OBJS F (Datatypes.S f) st (fd :: fl) c =
      (do a <- dec_ty S OPS ATTRS OBJS F f st (f_ty fd) (f_tag fd) c ;;
       let st1 := if f_setver fd then ver_of_value (fst (fst a)) else snd a in
       do b <- dec_fields_s S OPS ATTRS OBJS F f st1 fl (snd (fst a)) ;;
       Ok (fst (fst a) :: fst (fst b), snd (fst b), snd b)).
  Proof.
    intros Ht Hc. rewrite dec_fields_step. destruct (Z.eqb_spec (f_tag fd) 0); [contradiction|].
    rewrite Hc, Z.eqb_refl. cbn [negb]. rewrite !andb_false_r. reflexivity.
  Qed.

  (** an absent element outside its version range is skipped (zero value), not an error *)
  Lemma dec_skips_absent_gated f st fd fl (c : cur R) :
    f_tag fd <> 0 -> c_tag c <> f_tag fd -> version_in st (f_range fd) = false ->
    dec_fields_s S OPS ATTRS OBJS F (Datatypes.S f) st (fd :: fl) c =
      (let st1 := if f_setver fd then ver_of_value (zero_of S 8 (f_ty fd)) else st in
       do b <- dec_fields_s S OPS ATTRS OBJS F f st1 fl c ;;
       Ok (zero_of S 8 (f_ty fd) :: fst (fst b), snd (fst b), snd b)).
  Proof.
    intros Ht Hc Hv. rewrite dec_fields_step. destruct (Z.eqb_spec (f_tag fd) 0); [contradiction|].
    rewrite Hv. destruct (Z.eqb_spec (c_tag c) (f_tag fd)); [contradiction|]. cbn [negb andb bind fst snd]. reflexivity.
  Qed.
End Gate.

(** the regenerated schema carries exactly the pinned version annotations *)
Lemma kmip_versions_pinned : version_view kmip_schema = pinned_versions.
Proof. vm_compute. reflexivity. Qed.

Lemma kmip_setver_pinned : setver_view kmip_schema = pinned_setver.
Proof. vm_compute. reflexivity. Qed.

Lemma kmip_header_first :
  header_first kmip_schema "kmip.RequestMessage" = true /\ header_first kmip_schema "kmip.ResponseMessage" = true.
Proof. vm_compute. split; reflexivity. Qed.
