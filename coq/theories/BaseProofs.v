From Coq Require Import ZArith List Bool Lia.
From KV Require Import Base.
Import ListNotations.
Open Scope Z_scope.

Lemma len_app {A} (a b : list A) : len (a ++ b) = len a + len b.
Proof. unfold len. rewrite app_length. lia. Qed.
Lemma len_nonneg {A} (l : list A) : 0 <= len l.
Proof. unfold len. lia. Qed.
Lemma len_cons {A} (x : A) l : len (x :: l) = 1 + len l.
Proof. unfold len. cbn [length]. lia. Qed.
Lemma len_nil {A} : len (@nil A) = 0.
Proof. reflexivity. Qed.

Lemma pow256_succ k : 256 ^ Z.of_nat (S k) = 256 * 256 ^ Z.of_nat k.
Proof. rewrite Nat2Z.inj_succ. rewrite Z.pow_succ_r by lia. reflexivity. Qed.

Lemma pow256_pos k : 0 < 256 ^ Z.of_nat k.
Proof. apply Z.pow_pos_nonneg; lia. Qed.

Lemma be_length_s n v : length (be_spec n v) = n.
Proof. induction n as [|k IH]; cbn [be_spec length]; [reflexivity | rewrite IH; reflexivity]. Qed.

Lemma len_be_s n v : len (be_spec n v) = Z.of_nat n.
Proof. unfold len. rewrite be_length_s. reflexivity. Qed.

Lemma be_bytes_ok_s n v : bytes_ok (be_spec n v) = true.
Proof.
  induction n as [|k IH]; cbn [be_spec bytes_ok forallb]; [reflexivity|].
  fold (bytes_ok (be_spec k v)). rewrite IH, andb_true_r. unfold byte_ok.
  pose proof (Z.mod_pos_bound (v / 256 ^ Z.of_nat k) 256 ltac:(lia)). 
  apply andb_true_iff; split; [apply Z.leb_le | apply Z.ltb_lt]; lia.
Qed.

Lemma fold_unbe_be_s n : forall v acc,
  fold_left (fun a b => a * 256 + b) (be_spec n v) acc = acc * 256 ^ Z.of_nat n + v mod 256 ^ Z.of_nat n.
Proof.
  induction n as [|k IH]; intros v acc.
  - cbn [be_spec fold_left]. change (256 ^ Z.of_nat 0) with 1. rewrite Z.mod_1_r. lia.
  - cbn [be_spec fold_left]. rewrite IH. rewrite pow256_succ.
    pose proof (pow256_pos k) as Hp. set (p := 256 ^ Z.of_nat k) in *.
    rewrite (Z.mul_comm 256 p). rewrite Z.rem_mul_r by lia.
    lia.
Qed.

Lemma unbe_be_s n v : unbe (be_spec n v) = v mod 256 ^ Z.of_nat n.
Proof. unfold unbe. rewrite fold_unbe_be_s. lia. Qed.

Lemma unbe_be_id_s n v : 0 <= v < 256 ^ Z.of_nat n -> unbe (be_spec n v) = v.
Proof. intros H. rewrite unbe_be_s. apply Z.mod_small. exact H. Qed.

Lemma fold_unbe_bound l : bytes_ok l = true -> forall acc, 0 <= acc ->
  0 <= fold_left (fun a b => a * 256 + b) l acc < (acc + 1) * 256 ^ len l.
Proof.
  induction l as [|b l IH]; intros Hb acc Hacc.
  - cbn [fold_left]. change (256 ^ len []) with 1. lia.
  - cbn [fold_left]. cbn [bytes_ok forallb] in Hb. apply andb_true_iff in Hb. destruct Hb as [Hb1 Hb2].
    unfold byte_ok in Hb1. apply andb_true_iff in Hb1. destruct Hb1 as [H0 H1].
    apply Z.leb_le in H0. apply Z.ltb_lt in H1.
    specialize (IH Hb2 (acc * 256 + b) ltac:(lia)).
    rewrite len_cons. rewrite Z.pow_add_r by (pose proof (len_nonneg l); lia).
    change (256 ^ 1) with 256.
    assert (0 < 256 ^ len l) by (apply Z.pow_pos_nonneg; [lia | apply len_nonneg]).
    nia.
Qed.

Lemma unbe_bound l : bytes_ok l = true -> 0 <= unbe l < 256 ^ len l.
Proof. intros H. pose proof (fold_unbe_bound l H 0 ltac:(lia)). unfold unbe. lia. Qed.

Lemma fold_unbe_app a b acc :
  fold_left (fun x y => x * 256 + y) (a ++ b) acc =
  fold_left (fun x y => x * 256 + y) b (fold_left (fun x y => x * 256 + y) a acc).
Proof. apply fold_left_app. Qed.

Lemma fold_unbe_shift l : forall acc,
  fold_left (fun a b => a * 256 + b) l acc = acc * 256 ^ len l + fold_left (fun a b => a * 256 + b) l 0.
Proof.
  induction l as [|b l IH]; intros acc.
  - cbn [fold_left]. change (256 ^ len []) with 1. lia.
  - cbn [fold_left]. rewrite IH. rewrite (IH (0 * 256 + b)). rewrite len_cons.
    rewrite Z.pow_add_r by (pose proof (len_nonneg l); lia). change (256 ^ 1) with 256. lia.
Qed.

Lemma unbe_app a b : unbe (a ++ b) = unbe a * 256 ^ len b + unbe b.
Proof. unfold unbe. rewrite fold_unbe_app. rewrite fold_unbe_shift. reflexivity. Qed.

Lemma unbe_cons x l : unbe (x :: l) = x * 256 ^ len l + unbe l.
Proof. change (x :: l) with ([x] ++ l). rewrite unbe_app. unfold unbe at 1. cbn [fold_left]. lia. Qed.

(** [be_spec k] only depends on the value modulo 256^k *)
Lemma be_drop_high_s m k : forall v w, Z.of_nat k <= m -> be_spec k (w * 256 ^ m + v) = be_spec k v.
Proof.
  induction k as [|k IHk]; intros v w Hm; [reflexivity|]. cbn [be_spec].
  rewrite IHk by lia. f_equal.
  replace (256 ^ m) with (256 ^ (m - Z.of_nat k) * 256 ^ Z.of_nat k) by (rewrite <- Z.pow_add_r by lia; f_equal; lia).
  rewrite Z.mul_assoc. rewrite Z.div_add_l by (pose proof (pow256_pos k); lia).
  replace (256 ^ (m - Z.of_nat k)) with (256 * 256 ^ (m - Z.of_nat k - 1)).
  2:{ rewrite <- Z.pow_succ_r by lia. f_equal. lia. }
  rewrite Z.mul_assoc. rewrite (Z.mul_comm w 256). rewrite <- Z.mul_assoc.
  rewrite Z.add_comm. rewrite Z.mul_comm. rewrite Z_mod_plus_full. reflexivity.
Qed.

Lemma be_mod_s k v : be_spec k (v mod 256 ^ Z.of_nat k) = be_spec k v.
Proof.
  pose proof (pow256_pos k) as Hp.
  rewrite (Z.div_mod v (256 ^ Z.of_nat k)) at 2 by lia.
  rewrite (Z.mul_comm (256 ^ Z.of_nat k)). rewrite be_drop_high_s by lia. reflexivity.
Qed.

(** be_spec is the inverse of unbe on byte strings of the right length *)
Lemma be_unbe_s l : bytes_ok l = true -> be_spec (length l) (unbe l) = l.
Proof.
  induction l as [|x l IH]; intros Hb; [reflexivity|].
  cbn [bytes_ok forallb] in Hb. apply andb_true_iff in Hb. destruct Hb as [Hx Hl].
  unfold byte_ok in Hx. apply andb_true_iff in Hx. destruct Hx as [H0 H1]. apply Z.leb_le in H0. apply Z.ltb_lt in H1.
  cbn [length be_spec]. rewrite unbe_cons. fold (len l).
  pose proof (unbe_bound l Hl) as Hbd.
  assert (Hp : 0 < 256 ^ len l) by (apply Z.pow_pos_nonneg; [lia | apply len_nonneg]).
  f_equal.
  - rewrite Z.div_add_l by lia. rewrite (Z.div_small (unbe l)) by lia. rewrite Z.add_0_r. apply Z.mod_small; lia.
  - rewrite be_drop_high_s by (unfold len; lia). apply IH. exact Hl.
Qed.


(** the fast [be] equals its defining equation *)
Lemma be_spec_snoc k : forall v, be_spec (S k) v = be_spec k (v / 256) ++ [v mod 256].
Proof.
  induction k as [|k IH]; intros v.
  - cbn [be_spec app]. change (256 ^ Z.of_nat 0) with 1. rewrite Z.div_1_r. reflexivity.
  - change (be_spec (S (S k)) v) with ((v / 256 ^ Z.of_nat (S k)) mod 256 :: be_spec (S k) v).
    rewrite IH. change (be_spec (S k) (v / 256)) with (((v / 256) / 256 ^ Z.of_nat k) mod 256 :: be_spec k (v / 256)).
    cbn [app]. f_equal. rewrite Z.div_div by (try lia; apply pow256_pos). rewrite pow256_succ. reflexivity.
Qed.

Lemma be_go_spec n : forall v acc, be_go n v acc = be_spec n v ++ acc.
Proof.
  induction n as [|k IH]; intros v acc; [reflexivity|].
  cbn [be_go]. rewrite IH. rewrite be_spec_snoc. rewrite <- app_assoc. reflexivity.
Qed.

Lemma be_eq n v : be n v = be_spec n v.
Proof. unfold be. rewrite be_go_spec. apply app_nil_r. Qed.

Lemma be_S k v : be (S k) v = (v / 256 ^ Z.of_nat k) mod 256 :: be k v.
Proof. rewrite !be_eq. reflexivity. Qed.
Lemma be_O v : be 0 v = [].
Proof. reflexivity. Qed.

Lemma be_length n v : length (be n v) = n.
Proof. rewrite be_eq. apply be_length_s. Qed.
Lemma len_be n v : len (be n v) = Z.of_nat n.
Proof. rewrite be_eq. apply len_be_s. Qed.
Lemma be_bytes_ok n v : bytes_ok (be n v) = true.
Proof. rewrite be_eq. apply be_bytes_ok_s. Qed.
Lemma unbe_be n v : unbe (be n v) = v mod 256 ^ Z.of_nat n.
Proof. rewrite be_eq. apply unbe_be_s. Qed.
Lemma unbe_be_id n v : 0 <= v < 256 ^ Z.of_nat n -> unbe (be n v) = v.
Proof. rewrite be_eq. apply unbe_be_id_s. Qed.
Lemma be_drop_high m k : forall v w, Z.of_nat k <= m -> be k (w * 256 ^ m + v) = be k v.
Proof. intros v w H. rewrite !be_eq. apply be_drop_high_s. exact H. Qed.
Lemma be_mod k v : be k (v mod 256 ^ Z.of_nat k) = be k v.
Proof. rewrite !be_eq. apply be_mod_s. Qed.
Lemma be_unbe l : bytes_ok l = true -> be (length l) (unbe l) = l.
Proof. intros H. rewrite be_eq. apply be_unbe_s. exact H. Qed.

Lemma bytes_ok_app a b : bytes_ok (a ++ b) = bytes_ok a && bytes_ok b.
Proof. unfold bytes_ok. apply forallb_app. Qed.

Lemma bytes_ok_zeros n : bytes_ok (zeros n) = true.
Proof. unfold zeros, bytes_ok. induction (Z.to_nat n) as [|k IH]; cbn [repeat forallb]; [reflexivity | rewrite IH; reflexivity]. Qed.

Lemma len_zeros n : 0 <= n -> len (zeros n) = n.
Proof. intros H. unfold len, zeros. rewrite repeat_length. lia. Qed.

Lemma take_app_exact {A} (a b : list A) : take (len a) (a ++ b) = a.
Proof. unfold take, len. rewrite Nat2Z.id. rewrite firstn_app. rewrite Nat.sub_diag. cbn [firstn]. rewrite firstn_all. apply app_nil_r. Qed.

Lemma drop_app_exact {A} (a b : list A) : drop (len a) (a ++ b) = b.
Proof. unfold drop, len. rewrite Nat2Z.id. rewrite skipn_app. rewrite Nat.sub_diag. rewrite skipn_all. reflexivity. Qed.

Lemma pad8_range l : 0 <= pad8 l < 8.
Proof. unfold pad8. apply Z.mod_pos_bound. lia. Qed.

Lemma pad8_sum l : (l + pad8 l) mod 8 = 0.
Proof. unfold pad8. pose proof (Z.mod_pos_bound l 8 ltac:(lia)) as H. pose proof (Z.div_mod l 8 ltac:(lia)) as E.
  destruct (Z.eq_dec (l mod 8) 0) as [Hz|Hz].
  - rewrite Hz. change ((8 - 0) mod 8) with 0. rewrite Z.add_0_r. exact Hz.
  - rewrite (Z.mod_small (8 - l mod 8)) by lia. rewrite E at 1. replace (8 * (l / 8) + l mod 8 + (8 - l mod 8)) with ((l / 8 + 1) * 8) by lia. apply Z_mod_mult. Qed.
