(** Byte-level transcription of ttlvReader (ttlv/encoding_ttlv.go, after fix: commits e1c3f87,
    c54cbb0, 4fc19c4).  Every Go slice expression and index is made through [slice] / [idx],
    which return [Panic] exactly when Go would panic (index out of range / slice bounds out
    of range against the LENGTH of the slice - stricter than Go, which checks slice upper
    bounds against the capacity: so "no Panic" here also means "never reaches into the
    capacity beyond the length", i.e. never outside the declared extent).  That the guards
    of the code exclude every panic is a theorem (ReaderProofs.v), not a definition.
    No proofs here. *)
From Coq Require Import ZArith List Bool.
From KV Require Import Base Wire.
Import ListNotations.
Open Scope Z_scope.

(** buf[i] *)
Definition idx (buf : list Z) (i : Z) : res Z :=
  if (i <? 0) || (len buf <=? i) then Panic else Ok (nth (Z.to_nat i) buf 0).
(** buf[lo:hi] *)
Definition slice (buf : list Z) (lo hi : Z) : res (list Z) :=
  if (lo <? 0) || (hi <? lo) || (len buf <? hi) then Panic else Ok (take (hi - lo) (drop lo buf)).

(** ttlvReader.Tag *)
Definition r_tag (buf : list Z) : res Z :=
  match buf with
  | [] => Ok 0
  | _ => do b0 <- idx buf 0 ;; do b1 <- idx buf 1 ;; do b2 <- idx buf 2 ;; Ok (unbe [0; b0; b1; b2])
  end.
(** ttlvReader.Type *)
Definition r_type (buf : list Z) : res Z :=
  match buf with [] => Ok 0 | _ => idx buf 3 end.
(** ttlvReader.len *)
Definition r_len (buf : list Z) : res Z :=
  match buf with [] => Ok 0 | _ => do s <- slice buf 4 8 ;; Ok (unbe s) end.
(** ttlvReader.paddedLen *)
Definition r_padded (buf : list Z) : res Z := do l <- r_len buf ;; Ok (l + pad8 l).
(** ttlvReader.value *)
Definition r_value (buf : list Z) : res (list Z) :=
  match buf with [] => Ok [] | _ => do l <- r_len buf ;; slice buf 8 (8 + l) end.

(** ttlvReader.validate: Ok true = nil error, Ok false = error returned *)
Definition r_validate (buf : list Z) : res bool :=
  if len buf =? 0 then Ok true else
  if len buf <? 8 then Ok false else
  do tail <- slice buf 8 (len buf) ;;
  do pl <- r_padded buf ;;
  if len tail <? pl then Ok false else
  do ty <- r_type buf ;;
  if (10 <? ty) || (ty =? 0) then Ok false else
  do l <- r_len buf ;;
  if ((ty =? T_INT) || (ty =? T_ENUM) || (ty =? T_INTV)) && negb (l =? 4) then Ok false else
  if ((ty =? T_LONG) || (ty =? T_BOOL) || (ty =? T_DATE)) && negb (l =? 8) then Ok false else
  if (ty =? T_BIG) && (l =? 0) then Ok false else
  Ok true.

(** newTTLVReader *)
Definition r_new (buf : list Z) : res (list Z) :=
  do ok <- r_validate buf ;; if ok then Ok buf else Err.

(** ttlvReader.Next *)
Definition r_next (buf : list Z) : res (list Z) :=
  if len buf =? 0 then Err else
  do pl <- r_padded buf ;;
  do rest <- slice buf (8 + pl) (len buf) ;;
  do ok <- r_validate rest ;; if ok then Ok rest else Err.

(** ttlvReader.assertType: Ok true = nil *)
Definition r_assert (ty tag : Z) (buf : list Z) : res bool :=
  if len buf =? 0 then Ok false else
  do t <- r_tag buf ;;
  if negb (t =? tag) then Ok false else
  do y <- r_type buf ;;
  Ok (y =? ty).

(** a typed read: assertType, read the value through [get], then Next *)
Definition r_read {A} (ty : Z) (get : list Z -> res A) (tag : Z) (buf : list Z) : res (A * list Z) :=
  do ok <- r_assert ty tag buf ;;
  if negb ok then Err else
  do raw <- r_value buf ;;
  do v <- get raw ;;
  do buf' <- r_next buf ;;
  Ok (v, buf').

(** binary.BigEndian.Uint32(v) / Uint64(v): panic when the slice is shorter *)
Definition be_u32 (v : list Z) : res Z := do _ <- idx v 3 ;; Ok (unbe (take 4 v)).
Definition be_u64 (v : list Z) : res Z := do _ <- idx v 7 ;; Ok (unbe (take 8 v)).

(** bytesToBigInt (ttlv/utils.go): empty = 0, v[0] decides the sign; the negation is computed
    on a clone, so the returned buffer is the argument *)
Definition r_big_of (v : list Z) : res Z :=
  if len v =? 0 then Ok 0 else
  do b0 <- idx v 0 ;;
  if b0 <? 128 then Ok (unbe v) else Ok (unbe v - 256 ^ len v).

Definition r_integer := r_read T_INT (fun v => do u <- be_u32 v ;; Ok (to_i32 u)).
Definition r_long := r_read T_LONG (fun v => do u <- be_u64 v ;; Ok (to_i64 u)).
Definition r_big := r_read T_BIG r_big_of.
Definition r_enum := r_read T_ENUM be_u32.
Definition r_bool := r_read T_BOOL (fun v => do b <- idx v 7 ;; Ok (negb (b =? 0))).
Definition r_text := r_read T_TEXT (fun v => Ok v).
Definition r_bytes := r_read T_BYTES (fun v => Ok v).
Definition r_date := r_read T_DATE (fun v => do u <- be_u64 v ;; Ok (to_i64 u)).
Definition r_intv := r_read T_INTV be_u32.
Definition r_mask := r_integer.

(** ttlvReader.Struct *)
Definition r_struct {A} (tag : Z) (f : list Z -> res (A * list Z)) (buf : list Z) : res (A * list Z) :=
  do ok <- r_assert T_STRUCT tag buf ;;
  if negb ok then Err else
  do v <- r_value buf ;;
  do sub <- r_new v ;;
  do r <- f sub ;;
  do buf' <- r_next buf ;;
  Ok (fst r, buf').

(** Scripts of reader operations as issued through the public ttlv.Decoder API; used by the
    operation-level correspondence.  A script stops at the first error. *)
Inductive rop : Type :=
| OTag | OType | ONext
| OInt (tag : Z) | OLong (tag : Z) | OBig (tag : Z) | OEnum (tag : Z) | OBool (tag : Z)
| OText (tag : Z) | OBytes (tag : Z) | ODate (tag : Z) | OIntv (tag : Z)
| OStruct (tag : Z) (body : list rop).

Inductive rout : Type :=
| RNum (z : Z) | RBool (b : bool) | RStr (s : list Z) | RUnit | ROpen | RClose | RErr | RPanic.

Definition emit {A} (r : res (A * list Z)) (mk : A -> rout) : list rout * option (list Z) :=
  match r with
  | Ok (v, b) => ([mk v], Some b)
  | Panic => ([RPanic], None)
  | _ => ([RErr], None)
  end.

Fixpoint run_ops (fuel : nat) (ops : list rop) (buf : list Z) : list rout * option (list Z) :=
  match fuel with
  | O => ([], None)
  | S f =>
    match ops with
    | [] => ([], Some buf)
    | op :: rest =>
      let step : list rout * option (list Z) :=
        match op with
        | OTag => emit (do t <- r_tag buf ;; Ok (t, buf)) RNum
        | OType => emit (do t <- r_type buf ;; Ok (t, buf)) RNum
        | ONext => emit (do b <- r_next buf ;; Ok (tt, b)) (fun _ => RUnit)
        | OInt tag => emit (r_integer tag buf) RNum
        | OLong tag => emit (r_long tag buf) RNum
        | OBig tag => emit (r_big tag buf) RNum
        | OEnum tag => emit (r_enum tag buf) RNum
        | OBool tag => emit (r_bool tag buf) RBool
        | OText tag => emit (r_text tag buf) RStr
        | OBytes tag => emit (r_bytes tag buf) RStr
        | ODate tag => emit (r_date tag buf) RNum
        | OIntv tag => emit (r_intv tag buf) RNum
        | OStruct tag body =>
            (* outputs of the body are collected through the callback *)
            match r_assert T_STRUCT tag buf with
            | Panic => ([RPanic], None)
            | Ok true =>
              match (do v <- r_value buf ;; r_new v) with
              | Panic => ([RPanic], None)
              | Ok sub =>
                let inner := run_ops f body sub in
                match snd inner with
                | None => (ROpen :: fst inner, None)
                | Some _ =>
                  match r_next buf with
                  | Ok b => (ROpen :: fst inner ++ [RClose], Some b)
                  | Panic => (ROpen :: fst inner ++ [RPanic], None)
                  | _ => (ROpen :: fst inner ++ [RErr], None)
                  end
                end
              | _ => ([RErr], None)
              end
            | _ => ([RErr], None)
            end
        end in
      match snd step with
      | None => step
      | Some b => let more := run_ops f rest b in (fst step ++ fst more, snd more)
      end
    end
  end.

(** NewTTLVDecoder(bytes) then the script *)
Definition run_script (fuel : Z) (ops : list rop) (bs : list Z) : list rout :=
  match r_new bs with
  | Ok b => fst (run_ops (Z.to_nat fuel) ops b)
  | Panic => [RPanic]
  | _ => [RErr]
  end.
