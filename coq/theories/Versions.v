(** Version gating (C05): the view of a schema that matters for gating, and the decidable
    structural condition that the protocol version is known before any gate is consulted. *)
From Coq Require Import ZArith List Bool String.
From KV Require Import Base Wire Schema SchemaSem.
Import ListNotations.
Open Scope Z_scope.

(** (struct name, field name, range) of every version-gated field *)
Definition version_view (S : schema) : list (string * string * (option ver * option ver)) :=
  flat_map (fun d => flat_map (fun fd => match f_range fd with
                                         | Some r => [(t_name d, f_name fd, r)]
                                         | None => []
                                         end) (t_fields d)) S.

Definition setver_view (S : schema) : list (string * string) :=
  flat_map (fun d => flat_map (fun fd => if f_setver fd then [(t_name d, f_name fd)] else []) (t_fields d)) S.

(** In a root message type the first field is the header structure, whose first field carries
    set-version and no range: the version is set before any gated field is reached. *)
Definition header_first (S : schema) (root : string) : bool :=
  match find_tdef S root with
  | Some d =>
    match t_fields d with
    | hd :: _ =>
      match f_ty hd, f_range hd with
      | TNamed hn, None =>
        match find_tdef S hn with
        | Some h =>
          match t_fields h with
          | pv :: _ => f_setver pv && match f_range pv with None => true | Some _ => false end && negb (f_omit pv)
          | [] => false
          end
        | None => false
        end
      | _, _ => false
      end
    | [] => false
    end
  | None => false
  end.
