(** The one-hop fixed point (C18, typed inputs) at the schema REGENERATED from /repo: the
    decidable schema conditions hold by computation, so every KMIP message the library's
    unmarshal accepts re-encodes to a byte string E1 that unmarshals to the normal form v1 of
    the decoded message, and v1 marshals to E1 again. *)
From Coq Require Import ZArith List Bool String Lia PeanoNat.
From KV Require Import Base BaseProofs Wire WireProofs Cursor CursorProofs BinCursorProofs Schema SchemaSem FaithfulProofs
  Roundtrip RoundtripProofs RoundtripCustoms FixpointProofs Normalize DecConfDefs DecConfLib OneHop KmipCodec.
From KVGen Require Import KmipSchema.
Import ListNotations.
Open Scope Z_scope.

(** the hypotheses on the schema, discharged by computation *)
Lemma kmip_schema_ok : schema_ok kmip_schema kmip_ops kmip_attrs kmip_objs = true.
Proof. vm_compute. reflexivity. Qed.

Lemma kmip_enc_schema_ok : enc_schema_ok kmip_schema = true.
Proof. vm_compute. reflexivity. Qed.

(** the message types: decodable under their default tag *)
Definition root_ok (root : string) : bool :=
  match find_tdef kmip_schema root with
  | Some d => ty_ok kmip_schema (TNamed root) (t_deftag d)
  | None => false
  end.

Lemma kmip_roots_ok : forallb root_ok ["kmip.RequestMessage"; "kmip.ResponseMessage"]%string = true.
Proof. vm_compute. reflexivity. Qed.

(** every structure of the schema but the four reached only from inside a hand-written codec
    (kmip.CredentialValue, KeyValue, KeyMaterial, PlainKeyValue) and the ResponseBatchItem
    (always under TagBatchItem) may be the root, under any tag *)
Definition inner_only : list string :=
  ["kmip.CredentialValue"; "kmip.KeyValue"; "kmip.KeyMaterial"; "kmip.PlainKeyValue"; "kmip.ResponseBatchItem"; "kmip.UnknownPayload"]%string.
Lemma kmip_all_roots : forallb (fun d => existsb (String.eqb (t_name d)) inner_only || ty_ok kmip_schema (TNamed (t_name d)) 0) kmip_schema = true.
Proof. vm_compute. reflexivity. Qed.

(** typed value level, any reader format *)
Theorem kmip_decoded_one_hop {R} (F : rawfmt R) : forall fd st t tag (c : cur R) v c' st',
  ty_ok kmip_schema t tag = true ->
  dec_ty kmip_schema kmip_ops kmip_attrs kmip_objs F fd st t tag c = Ok (v, c', st') ->
  exists fe items st1 v1 fc sc,
    enc_ty kmip_schema fe st t tag v  = Ok (items, st1) /\
    enc_ty kmip_schema fe st t tag v1 = Ok (items, st1) /\
    conf_ty kmip_schema kmip_ops kmip_attrs kmip_objs fc st t tag v1 = Some sc.
Proof. exact (decoded_one_hop kmip_schema kmip_ops kmip_attrs kmip_objs kmip_schema_ok kmip_enc_schema_ok F). Qed.

(** whole messages in binary, with the executable marshal / unmarshal of the correspondence
    (both run with fuel [FUEL]): for accepted bytes [bs], E1 = marshal (unmarshal bs) is defined,
    unmarshal E1 = v1 and marshal v1 = E1.  [fe] is the fuel the encoder needs for this
    message; [item_small] (every length below 2^32) remains a hypothesis. *)
Theorem kmip_message_one_hop root d bs v :
  find_tdef kmip_schema root = Some d -> ty_ok kmip_schema (TNamed root) (t_deftag d) = true ->
  bytes_ok bs = true -> kmip_unmarshal root bs = Ok v ->
  exists items v1 fe st',
    (forall g, (fe <= g)%nat ->
       enc_ty kmip_schema g None (TNamed root) (t_deftag d) v = Ok (items, st') /\
       enc_ty kmip_schema g None (TNamed root) (t_deftag d) v1 = Ok (items, st') /\
       conf_ty kmip_schema kmip_ops kmip_attrs kmip_objs g None (TNamed root) (t_deftag d) v1 = Some st') /\
    forallb item_ok items = true /\ existsb enc_panics items = false /\
    ((fe <= FUEL)%nat ->
       kmip_marshal root v = Ok (wire_enc_list items) /\ kmip_marshal root v1 = Ok (wire_enc_list items)) /\
    (forallb item_small items = true -> (fe + 2 * items_size items + 2 <= FUEL)%nat ->
       kmip_unmarshal root (wire_enc_list items) = Ok v1).
Proof.
  intros Ed Hok Hb Hu. unfold kmip_unmarshal in Hu.
  destruct (bin_cursor bs) as [c| | |] eqn:Ec; cbn [bind] in Hu; try discriminate.
  unfold kmip_dec in Hu. rewrite Ed in Hu.
  destruct (dec_ty kmip_schema kmip_ops kmip_attrs kmip_objs bin_fmt FUEL None (TNamed root) (t_deftag d) c) as [[[v0 c'] st']| | |] eqn:Edec; cbn [bind fst] in Hu; try discriminate.
  injection Hu as ->.
  destruct (bin_one_hop kmip_schema kmip_ops kmip_attrs kmip_objs kmip_schema_ok kmip_enc_schema_ok _ _ _ _ _ _ _ _ _ Hb Ec Hok eq_refl Edec)
    as (items & v1 & fe & Hg & Hio & Hnp & Hrt).
  exists items, v1, fe, st'. split; [exact Hg|]. split; [exact Hio|]. split; [exact Hnp|]. split.
  - intros Hfe. destruct (Hg FUEL Hfe) as (H1 & H3 & _).
    unfold kmip_marshal, kmip_items. rewrite Ed, H1, H3. cbn [bind fst]. rewrite Hnp. split; reflexivity.
  - intros Hsm Hfd. destruct (Hrt Hsm) as (c2 & Hc2 & Hdec).
    unfold kmip_unmarshal. rewrite Hc2. cbn [bind]. unfold kmip_dec. rewrite Ed, (Hdec FUEL Hfd). reflexivity.
Qed.
