(** Scenarios: the labelled transition system of ConnClient.v run under a SCRIPTED
    environment, as imposed on the real client by harness/cmd/drive/cconn.go over the
    in-memory transport harness/internal/clisim.

    A scenario fixes what the environment does (which dial attempts fail, the fate of each
    request written on each connection, when the caller's context is cancelled, when
    Client.Close is called); the interleaving of the goroutines stays free.  [outcomes]
    explores every interleaving and returns the set of observable outcomes; the
    correspondence check asks that the outcome observed on the real client is a member.
    The exploration is only used to validate the model, no theorem depends on it.
    No proofs in this file. *)
From Coq Require Import List Bool PArith Arith ZArith MSets.MSetPositive.
From KV Require Import ConnClient.
Import ListNotations.

Module PS := PositiveSet.

(** * Scenario language (mirrors ccScenario in cconn.go) *)

Inductive wplan := PWOk | PWFail (k : kind).               (* fate of the Write of a request *)
Inductive rplan := PRNow | PRFail (k : kind) | PRThenFail (k : kind) | PRSilent.  (* what the server does with it *)
Record cplan := { dialfail : bool; reqs : list (wplan * rplan) }.

Inductive trig := TNone | TPre | TLoaded | TWriteHeld | TSent | TReplyHeld | TDial.
Inductive act := ANone | ACancel | AClose.
Inductive sstep :=
| SCall (t : trig) (a : act)   (* a call, started once everything has settled; at trigger point t the harness performs a *)
| SCallNow (t : trig) (a : act)(* a call started right after the previous step, whatever the goroutines are doing *)
| SClose.                      (* Client.Close() between two calls *)

Record scenario := { negotiate : bool; plans : list cplan; steps : list sstep }.

(** * Observations *)
(* result of a step: 0 ok (own response), 1 error, 2 response of another request, 4 hang;
   for a Close step: 0 *)
Record obs := { o_res : Z; o_ntx : Z; o_dials : Z }.
Record outcome := { dial_ok : bool; o_steps : list obs; o_clean : bool }.

(** * Run states *)
Record run := {
  r_st : astate;
  r_orph : bool;                 (* every connection abandoned so far winds up cleanly by itself *)
  r_steps : list sstep;
  r_neg : bool;                  (* the current call is the negotiation of DialContext *)
  r_trig : trig; r_act : act;    (* armed for the current call *)
  r_parked : bool;               (* the caller is parked in a hook / in the dialer while Close runs *)
  r_wheld : bool;                (* the current Write is held by the transport *)
  r_rheld : bool;                (* the reply to the outstanding request is held *)
  r_dial : nat;                  (* dial attempts so far *)
  r_req : nat;                   (* Writes attempted on the current connection *)
  r_srv : rplan;                 (* what the server will do with the outstanding request *)
  r_pend : option kind;          (* failure to deliver at the next idle read ("then fail") *)
  r_final : bool;                (* the final Close has been issued *)
  r_dialok : bool;
  r_log : list obs               (* reversed *)
}.

Definition upd (r : run) (s : astate) : run :=
  {| r_st := s; r_orph := r_orph r; r_steps := r_steps r; r_neg := r_neg r; r_trig := r_trig r; r_act := r_act r;
     r_parked := r_parked r; r_wheld := r_wheld r; r_rheld := r_rheld r; r_dial := r_dial r; r_req := r_req r;
     r_srv := r_srv r; r_pend := r_pend r; r_final := r_final r; r_dialok := r_dialok r; r_log := r_log r |}.

Definition trig_eqb (a b : trig) : bool :=
  match a, b with
  | TNone, TNone | TPre, TPre | TLoaded, TLoaded | TWriteHeld, TWriteHeld | TSent, TSent
  | TReplyHeld, TReplyHeld | TDial, TDial => true
  | _, _ => false
  end.

Definition cur_plan (sc : scenario) (r : run) : cplan :=
  nth (pred (r_dial r)) (plans sc) {| dialfail := false; reqs := [] |}.
Definition cur_req (sc : scenario) (r : run) : wplan * rplan :=
  nth (r_req r) (reqs (cur_plan sc r)) (PWOk, PRNow).
Definition next_dial_fails (sc : scenario) (r : run) : bool :=
  dialfail (nth (r_dial r) (plans sc) {| dialfail := false; reqs := [] |}).

Definition kind_eqb (a b : kind) : bool :=
  match a, b with KRetry, KRetry | KNetClosed, KNetClosed | KOther, KOther => true | _, _ => false end.

(** A connection abandoned by reconnect goes on by itself (its stream has been, or is being,
    closed: only local steps and forced failures); nothing it does is observable by the client.
    [orphan_ok]: all its executions end with both goroutines finished and the stream closed. *)
Definition orphan_done (o : orphan bool) : bool :=
  match rl _ (fst o), wl _ (fst o), snd o with RlDone, WlDone, CIdle => sclosed _ (fst o) | _, _, _ => false end.

Definition ostep_script (o : orphan bool) : list (orphan bool) :=
  flat_map (fun x : label * orphan bool =>
    match fst x with
    | LTau _ | LRead | LWrite WrClosed => [snd x]
    | _ => []
    end) (aostep o).

Fixpoint orphan_ok (fuel : nat) (frontier : list (orphan bool)) (seen : PS.t) : bool :=
  match fuel with
  | O => match frontier with [] => true | _ => false end
  | S fuel' =>
    match frontier with
    | [] => true
    | _ =>
      let '(next, seen', ok) :=
        fold_left (fun '(nx, sn, ok) o =>
          match ostep_script o with
          | [] => (nx, sn, ok && orphan_done o)
          | succs =>
            fold_left (fun '(nx, sn, ok) t =>
              let e := oenc t in
              if PS.mem e sn then (nx, sn, ok) else (t :: nx, PS.add e sn, ok)) succs (nx, sn, ok)
          end) frontier ([], seen, true) in
      ok && orphan_ok fuel' next seen'
    end
  end.

(** The harness performs the armed action: cancel the caller's context, or call Client.Close()
    from another goroutine ([park]: the caller waits, inside a hook or the dialer, until that
    Close has returned). *)
Definition do_act (r : run) (s : astate) (park : bool) : run :=
  let r0 := {| r_st := s; r_orph := r_orph r; r_steps := r_steps r; r_neg := r_neg r; r_trig := TNone; r_act := ANone;
               r_parked := r_parked r; r_wheld := r_wheld r; r_rheld := r_rheld r; r_dial := r_dial r; r_req := r_req r;
               r_srv := r_srv r; r_pend := r_pend r; r_final := r_final r; r_dialok := r_dialok r; r_log := r_log r |} in
  match r_act r with
  | ANone => r0
  | ACancel => upd r0 (set_uctx _ _ s true)
  | AClose =>
    match cl _ _ s with
    | CIdle =>
      {| r_st := set_closer _ _ s C0 (ccl _ _ s); r_orph := r_orph r; r_steps := r_steps r; r_neg := r_neg r;
         r_trig := TNone; r_act := ANone; r_parked := park; r_wheld := r_wheld r; r_rheld := r_rheld r;
         r_dial := r_dial r; r_req := r_req r; r_srv := r_srv r; r_pend := r_pend r; r_final := r_final r;
         r_dialok := r_dialok r; r_log := r_log r |}
    | _ => r0
    end
  end.

Definition res_of (s : astate) (ok : bool) : Z :=
  if ok then match got _ _ s with Some true => 0%Z | _ => 2%Z end else 1%Z.

(** One step of the scripted system: each labelled step of the model is kept, dropped or
    decorated according to the script. *)
Definition rstep_main (sc : scenario) (r : run) : list run :=
  let s := r_st r in
  flat_map (fun x : label * astate =>
    let t := snd x in
    match fst x with
    | LTau CU => if r_parked r then [] else [upd r t]
    | LTau _ =>
      (* a parked caller resumes when the Close it waits for has returned *)
      let r' := upd r t in
      if r_parked r && match cl _ _ t with CIdle => true | _ => false end
      then [{| r_st := t; r_orph := r_orph r; r_steps := r_steps r; r_neg := r_neg r; r_trig := r_trig r; r_act := r_act r;
               r_parked := false; r_wheld := r_wheld r; r_rheld := r_rheld r; r_dial := r_dial r; r_req := r_req r;
               r_srv := r_srv r; r_pend := r_pend r; r_final := r_final r; r_dialok := r_dialok r; r_log := r_log r |}]
      else [r']
    | LHookLoaded =>
      if r_parked r then [] else if trig_eqb (r_trig r) TLoaded then [do_act r t true] else [upd r t]
    | LHookSent =>
      if r_parked r then [] else if trig_eqb (r_trig r) TSent then [do_act r t true] else [upd r t]
    | LDial ok =>
      if r_parked r then []
      else if trig_eqb (r_trig r) TDial then [] (* the action comes first: see [rstep_act] *)
      else if Bool.eqb ok (negb (next_dial_fails sc r)) then
        [{| r_st := t; r_orph := r_orph r; r_steps := r_steps r; r_neg := r_neg r; r_trig := r_trig r; r_act := r_act r;
            r_parked := false; r_wheld := false; r_rheld := false; r_dial := S (r_dial r); r_req := 0;
            r_srv := PRNow; r_pend := None; r_final := r_final r; r_dialok := r_dialok r; r_log := r_log r |}]
      else []
    | LDrop =>
      if r_parked r then []
      else [{| r_st := t; r_orph := r_orph r && orphan_ok 40 [orphan_of _ _ s] PS.empty; r_steps := r_steps r; r_neg := r_neg r;
               r_trig := r_trig r; r_act := r_act r; r_parked := false; r_wheld := false; r_rheld := false;
               r_dial := r_dial r; r_req := r_req r; r_srv := PRSilent; r_pend := None; r_final := r_final r;
               r_dialok := r_dialok r; r_log := r_log r |}]
    | LRet ok =>
      if r_parked r then []
      else
        let o := {| o_res := res_of s ok; o_ntx := Z.of_nat (ntx _ _ s); o_dials := Z.of_nat (r_dial r) |} in
        let failed_neg := r_neg r && negb ok in
        [{| r_st := t; r_orph := r_orph r; r_steps := if failed_neg then [] else r_steps r; r_neg := false;
            r_trig := TNone; r_act := ANone; r_parked := false; r_wheld := false; r_rheld := false;
            r_dial := r_dial r; r_req := r_req r; r_srv := r_srv r; r_pend := r_pend r; r_final := r_final r;
            r_dialok := if r_neg r then ok else r_dialok r; r_log := o :: r_log r |}]
    | LWrite WrClosed => [upd r t]
    | LWrite w =>
      let '(wp, rp) := cur_req sc r in
      let held := match wp with PWOk => r_wheld r || trig_eqb (r_trig r) TWriteHeld | _ => false end in
      if held then []
      else
        match w, wp with
        | WrOk, PWOk =>
          [{| r_st := t; r_orph := r_orph r; r_steps := r_steps r; r_neg := r_neg r; r_trig := r_trig r; r_act := r_act r;
              r_parked := r_parked r; r_wheld := false; r_rheld := trig_eqb (r_trig r) TReplyHeld;
              r_dial := r_dial r; r_req := S (r_req r); r_srv := rp; r_pend := r_pend r; r_final := r_final r;
              r_dialok := r_dialok r; r_log := r_log r |}]
        | WrFail k, PWFail k' =>
          if kind_eqb k k' then
            [{| r_st := t; r_orph := r_orph r; r_steps := r_steps r; r_neg := r_neg r; r_trig := r_trig r; r_act := r_act r;
                r_parked := r_parked r; r_wheld := false; r_rheld := r_rheld r;
                r_dial := r_dial r; r_req := S (r_req r); r_srv := r_srv r; r_pend := r_pend r; r_final := r_final r;
                r_dialok := r_dialok r; r_log := r_log r |}]
          else []
        | _, _ => []
        end
    | LSrv SReply =>
      if r_rheld r then []
      else match r_srv r with
           | PRNow => [upd r t]
           | PRThenFail k =>
             [{| r_st := t; r_orph := r_orph r; r_steps := r_steps r; r_neg := r_neg r; r_trig := r_trig r; r_act := r_act r;
                 r_parked := r_parked r; r_wheld := r_wheld r; r_rheld := r_rheld r; r_dial := r_dial r; r_req := r_req r;
                 r_srv := PRNow; r_pend := Some k; r_final := r_final r; r_dialok := r_dialok r; r_log := r_log r |}]
           | _ => []
           end
    | LSrv (SFault k) =>
      if r_rheld r then []
      else match r_srv r with PRFail k' => if kind_eqb k k' then [upd r t] else [] | _ => [] end
    | LSrv (SIdleFault k) =>
      match r_pend r with
      | Some k' =>
        if kind_eqb k k' then
          [{| r_st := t; r_orph := r_orph r; r_steps := r_steps r; r_neg := r_neg r; r_trig := r_trig r; r_act := r_act r;
              r_parked := r_parked r; r_wheld := r_wheld r; r_rheld := r_rheld r; r_dial := r_dial r; r_req := r_req r;
              r_srv := r_srv r; r_pend := None; r_final := r_final r; r_dialok := r_dialok r; r_log := r_log r |}]
        else []
      | None => []
      end
    | LRead => [upd r t]
    | LNewCall _ | LCancel | LCloseStart => []   (* only as directed by the script: see below *)
    end) (astep s).

(** The armed action of a "held" trigger becomes possible once its hold is in place. *)
Definition rstep_act (sc : scenario) (r : run) : list run :=
  let s := r_st r in
  let c := cn _ _ s in
  match r_trig r with
  | TWriteHeld =>
    match wl _ c, hasconn _ _ s, sclosed _ c, fst (cur_req sc r) with
    | WlSend, true, false, PWOk =>
      [let r' := do_act r s false in
       {| r_st := r_st r'; r_orph := r_orph r'; r_steps := r_steps r'; r_neg := r_neg r'; r_trig := TNone; r_act := ANone;
          r_parked := r_parked r'; r_wheld := true; r_rheld := r_rheld r'; r_dial := r_dial r'; r_req := r_req r';
          r_srv := r_srv r'; r_pend := r_pend r'; r_final := r_final r'; r_dialok := r_dialok r'; r_log := r_log r' |}]
    | _, _, _, _ => []
    end
  | TReplyHeld => if r_rheld r then [do_act r s false] else []
  | TDial =>
    match u _ _ s with
    | R5 => if r_parked r then [] else [do_act r s true]
    | _ => []
    end
  | _ => []
  end.

Definition rstep_busy (sc : scenario) (r : run) : list run :=
  rstep_main sc r ++ rstep_act sc r.

(** When nothing else can move (the harness waits for that: World.Settle), the script goes on. *)
Definition rstep_script (sc : scenario) (r : run) : list run :=
  let s := r_st r in
  match u _ _ s, cl _ _ s with
  | UIdle, CIdle =>
    match r_steps r with
    | SCall t a :: rest | SCallNow t a :: rest =>
      let pre := match t, a with TPre, ACancel => true | _, _ => false end in
      [{| r_st := new_call _ _ (fun _ => false) (fun k => k) s pre; r_orph := r_orph r; r_steps := rest; r_neg := false;
          r_trig := match t with TPre => TNone | _ => t end; r_act := match t with TPre => ANone | _ => a end;
          r_parked := false; r_wheld := false; r_rheld := false; r_dial := r_dial r; r_req := r_req r;
          r_srv := r_srv r; r_pend := r_pend r; r_final := false; r_dialok := r_dialok r; r_log := r_log r |}]
    | SClose :: rest =>
      [{| r_st := set_closer _ _ s C0 (ccl _ _ s); r_orph := r_orph r; r_steps := rest; r_neg := false;
          r_trig := TNone; r_act := ANone; r_parked := false; r_wheld := false; r_rheld := false;
          r_dial := r_dial r; r_req := r_req r; r_srv := r_srv r; r_pend := r_pend r; r_final := false;
          r_dialok := r_dialok r;
          r_log := {| o_res := 0; o_ntx := 0; o_dials := Z.of_nat (r_dial r) |} :: r_log r |}]
    | [] =>
      if r_final r then []
      else if ccl _ _ s then
        (* the scenario has closed the client already: it must be clean without a further Close *)
        [{| r_st := s; r_orph := r_orph r; r_steps := []; r_neg := false;
            r_trig := TNone; r_act := ANone; r_parked := false; r_wheld := false; r_rheld := false;
            r_dial := r_dial r; r_req := r_req r; r_srv := r_srv r; r_pend := r_pend r; r_final := true;
            r_dialok := r_dialok r; r_log := r_log r |}]
      else
        [{| r_st := set_closer _ _ s C0 (ccl _ _ s); r_orph := r_orph r; r_steps := []; r_neg := false;
            r_trig := TNone; r_act := ANone; r_parked := false; r_wheld := false; r_rheld := false;
            r_dial := r_dial r; r_req := r_req r; r_srv := r_srv r; r_pend := r_pend r; r_final := true;
            r_dialok := r_dialok r; r_log := r_log r |}]
    end
  | _, _ => []
  end.

Definition rstep (sc : scenario) (r : run) : list run :=
  match rstep_busy sc r with
  | [] => rstep_script sc r
  | l => match r_steps r with
         | SCallNow _ _ :: _ => l ++ rstep_script sc r
         | _ => l
         end
  end.

(** * Outcomes *)

Definition conn_clean (s : astate) : bool :=
  negb (hasconn _ _ s)
  || match rl _ (cn _ _ s), wl _ (cn _ _ s) with RlDone, WlDone => sclosed _ (cn _ _ s) | _, _ => false end.

Definition outcome_of (r : run) (stuck : bool) : outcome :=
  {| dial_ok := r_dialok r;
     o_steps := rev (if stuck then {| o_res := 4; o_ntx := 0; o_dials := Z.of_nat (r_dial r) |} :: r_log r else r_log r);
     o_clean := conn_clean (r_st r) && r_orph r |}.

Definition run_nats (r : run) : list nat :=
  to_nats (r_st r)
  ++ [n_bool (r_orph r)]
  ++ [10; length (r_steps r); n_bool (r_neg r);
      match r_trig r with TNone => 0 | TPre => 1 | TLoaded => 2 | TWriteHeld => 3 | TSent => 4 | TReplyHeld => 5 | TDial => 6 end;
      match r_act r with ANone => 0 | ACancel => 1 | AClose => 2 end;
      n_bool (r_parked r); n_bool (r_wheld r); n_bool (r_rheld r); r_dial r; r_req r;
      match r_srv r with PRNow => 0 | PRFail k => 1 + n_kind k | PRThenFail k => 4 + n_kind k | PRSilent => 7 end;
      match r_pend r with None => 0 | Some k => 1 + n_kind k end; n_bool (r_final r); n_bool (r_dialok r)]
  ++ flat_map (fun o => [Z.to_nat (o_res o); Z.to_nat (o_ntx o); Z.to_nat (o_dials o)]) (r_log r).
Definition renc (r : run) : positive := enc_l (run_nats r).

Definition is_terminal (r : run) : bool :=
  match r_steps r with [] => r_final r | _ => false end.

(** Breadth-first exploration of all interleavings; returns the final runs. *)
Fixpoint rexplore (sc : scenario) (fuel : nat) (frontier : list run) (seen : PS.t) (acc : list outcome) : list outcome :=
  match fuel with
  | O => {| dial_ok := false; o_steps := [{| o_res := 9; o_ntx := 0; o_dials := 0 |}]; o_clean := false |} :: acc
  | S fuel' =>
    match frontier with
    | [] => acc
    | _ =>
      let '(next, seen', acc') :=
        fold_left (fun '(nx, sn, ac) r =>
          match rstep sc r with
          | [] => (nx, sn, outcome_of r (negb (is_terminal r)) :: ac)
          | succs =>
            fold_left (fun '(nx, sn, ac) t =>
              let e := renc t in
              if PS.mem e sn then (nx, sn, ac) else (t :: nx, PS.add e sn, ac)) succs (nx, sn, ac)
          end) frontier ([], seen, acc) in
      rexplore sc fuel' next seen' acc'
    end
  end.

Definition init_run (sc : scenario) : run :=
  {| r_st := if negotiate sc then new_call _ _ (fun _ => false) (fun k => k) ainit false else ainit;
     r_orph := true; r_steps := steps sc; r_neg := negotiate sc; r_trig := TNone; r_act := ANone;
     r_parked := false; r_wheld := false; r_rheld := false; r_dial := 1; r_req := 0; r_srv := PRNow; r_pend := None;
     r_final := false; r_dialok := true; r_log := [] |}.

Definition obs_eqb (a b : obs) : bool :=
  Z.eqb (o_res a) (o_res b) && Z.eqb (o_ntx a) (o_ntx b) && Z.eqb (o_dials a) (o_dials b).
Fixpoint obsl_eqb (a b : list obs) : bool :=
  match a, b with
  | [], [] => true
  | x :: xs, y :: ys => obs_eqb x y && obsl_eqb xs ys
  | _, _ => false
  end.
Definition outcome_eqb (a b : outcome) : bool :=
  Bool.eqb (dial_ok a) (dial_ok b) && obsl_eqb (o_steps a) (o_steps b) && Bool.eqb (o_clean a) (o_clean b).

Fixpoint dedup (l : list outcome) (acc : list outcome) : list outcome :=
  match l with
  | [] => acc
  | x :: r => if existsb (outcome_eqb x) acc then dedup r acc else dedup r (x :: acc)
  end.

Definition outcomes (sc : scenario) : list outcome :=
  dedup (rexplore sc 4000 [init_run sc] (PS.add (renc (init_run sc)) PS.empty) []) [].

(** Row of the correspondence table: the outcome observed on the implementation must be one
    the model allows. *)
Definition row_ok (row : scenario * outcome) : bool :=
  existsb (outcome_eqb (snd row)) (outcomes (fst row)).
