(** Model of the client's handling of server responses (property C12).
    Transcribes kmipclient/client.go [BatchOpt], [Batch], [Request], [Executor.ExecContext],
    [BatchExec.ExecContext], [BatchResult.Unwrap], [negotiateVersion] and responses.go
    [ResponseBatchItem.Err] over abstract response messages.  Every point where the Go code
    can panic (method call on a nil interface, unchecked type assertion, slice index) is an
    explicit [RPanic] outcome.  No proofs in this file (ClientRespProofs.v). *)
From Coq Require Import ZArith List Bool.
From KV Require Import Base Cases Negotiate.
Import ListNotations.
Open Scope Z_scope.

(** ** Abstract responses *)

Definition str := list Z.                      (* a Go string as bytes *)
Definition str_eqb : str -> str -> bool := list_eqb Z.eqb.

(** Dynamic Go type of a payload value: the request or the response struct registered for an
    operation ([kmip.RegisterOperationPayload]) or [*kmip.UnknownPayload]. *)
Inductive ptype := TReq (op : Z) | TResp (op : Z) | TUnknown.

Definition ptype_eqb (a b : ptype) : bool :=
  match a, b with
  | TReq x, TReq y => x =? y
  | TResp x, TResp y => x =? y
  | TUnknown, TUnknown => true
  | _, _ => false
  end.

(** A non-nil payload value.  [p_uop] is the [opType] field of an UnknownPayload (ignored for the
    registered types); [p_versions] is the ProtocolVersion list of a DiscoverVersions response
    (ignored elsewhere); [p_id] identifies the Go object (which pointer it is). *)
Record pval := { p_type : ptype; p_uop : Z; p_versions : list ver; p_id : Z }.

(** [OperationPayload.Operation()] of a non-nil payload. *)
Definition pval_operation (p : pval) : Z :=
  match p_type p with
  | TReq o => o
  | TResp o => o
  | TUnknown => p_uop p
  end.

(** An interface value of type [kmip.OperationPayload]: [None] is the nil interface. *)
Definition payload := option pval.

(** [kmip.ResponseBatchItem] (fields the client looks at) and [kmip.ResponseMessage]
    ([r_count] = Header.BatchCount, an int32 that need not agree with the item list). *)
Record item := { i_op : Z; i_status : Z; i_reason : Z; i_msg : str; i_payload : payload }.
Record response := { r_count : Z; r_items : list item }.

(** What [Client.Roundtrip] hands back: an error (connection fault, undecodable message) or a
    decoded response message. *)
Inductive transport := TFail | TMsg (r : response).

(** ** Errors and results *)

(** The server-side failure an error value reports: operation, status, reason, message
    (the four things [ResponseBatchItem.Err] formats). *)
Definition failure := (Z * Z * Z * str)%type.

Inductive ekind :=
| KTransport      (* error returned by Roundtrip *)
| KBuild          (* "Request initialization failed" *)
| KCount          (* "Batch count mismatch" / "Unexpected batch item count" *)
| KPayload        (* missing payload or payload of another operation in a successful item *)
| KType           (* payload is not of the response type the executor expects *)
| KItem           (* failure(s) reported by the server *)
| KNoCommon.      (* negotiation: no common version *)

(** An error: what kind of complaint, and the server failures it carries (errors.Join keeps
    every joined error's text). *)
Record err := { e_kind : ekind; e_failures : list failure }.

Inductive result (A : Type) :=
| ROk (a : A)
| RErr (e : err)
| RPanic.
Arguments ROk {A}. Arguments RErr {A}. Arguments RPanic {A}.

Definition success : Z := 0.                    (* kmip.ResultStatusSuccess *)
Definition status_failed : Z := 1.              (* kmip.ResultStatusOperationFailed *)
Definition reason_not_supported : Z := 5.       (* kmip.ResultReasonOperationNotSupported *)
Definition op_discover : Z := 30.               (* kmip.OperationDiscoverVersions = 0x1E *)

Definition failure_of (it : item) : failure := (i_op it, i_status it, i_reason it, i_msg it).

(** responses.go [ResponseBatchItem.Err]: nil iff ResultStatus is Success. *)
Definition item_err (it : item) : option err :=
  if i_status it =? success then None
  else Some {| e_kind := KItem; e_failures := [failure_of it] |}.

(** The failures of the items of a batch, in order: what the loop of [Unwrap] collects. *)
Fixpoint failures_of (l : list item) : list failure :=
  match l with
  | [] => []
  | it :: rest =>
    match item_err it with
    | Some e => e_failures e ++ failures_of rest
    | None => failures_of rest
    end
  end.

(** client.go [BatchResult.Unwrap]: the payload of every item (nil where there is none) and
    errors.Join of the items' errors (nil when there is none). *)
Definition unwrap (br : list item) : list payload * option err :=
  (map i_payload br,
   match failures_of br with
   | [] => None
   | fs => Some {| e_kind := KItem; e_failures := fs |}
   end).

(** client.go [withItemErrors] = errors.Join(err, failures reported in items). *)
Definition with_item_errors (k : ekind) (items : list item) : err :=
  {| e_kind := k; e_failures := failures_of items |}.

(** Calling [Operation()] through the interface: a nil interface value panics. *)
Definition payload_operation (p : payload) : result Z :=
  match p with
  | None => RPanic
  | Some v => ROk (pval_operation v)
  end.

Definition is_nil (p : payload) : bool := match p with None => true | Some _ => false end.

(** Go slice index [l[i]]: panics when out of range. *)
Definition index {A} (l : list A) (i : Z) : result A :=
  if i <? 0 then RPanic
  else match nth_error l (Z.to_nat i) with
       | Some a => ROk a
       | None => RPanic
       end.

(** ** client.go BatchOpt *)

(** The loop of [BatchOpt] over the response items (after the count check): a successful item
    must carry a payload, and that payload must be for the operation requested at the same
    position ([payloads[i].Operation()]).  [all] is the whole item list (for the error). *)
Fixpoint check_items (reqs : list Z) (all rest : list item) (i : Z) : result unit :=
  match rest with
  | [] => ROk tt
  | bi :: rest' =>
    if negb (i_status bi =? success) then check_items reqs all rest' (i + 1)
    else
      if is_nil (i_payload bi) then RErr (with_item_errors KPayload all)   (* bi.ResponsePayload == nil || *)
      else
        match payload_operation (i_payload bi) with            (* bi.ResponsePayload.Operation() *)
        | RPanic => RPanic
        | RErr e => RErr e
        | ROk o =>
          match index reqs i with                              (* payloads[i].Operation() *)
          | RPanic => RPanic
          | RErr e => RErr e
          | ROk want =>
            if o =? want then check_items reqs all rest' (i + 1)
            else RErr (with_item_errors KPayload all)
          end
        end
  end.

(** [Client.BatchOpt] (= [Client.Batch], [BatchExec.ExecContext] without build error).
    [reqs] are the operations of the request payloads, in order. *)
Definition batch_opt (reqs : list Z) (t : transport) : result (list item) :=
  match t with
  | TFail => RErr {| e_kind := KTransport; e_failures := [] |}
  | TMsg r =>
    if negb (r_count r =? len (r_items r)) || negb (len (r_items r) =? len reqs)
    then RErr (with_item_errors KCount (r_items r))
    else
      match check_items reqs (r_items r) (r_items r) 0 with
      | ROk _ => ROk (r_items r)
      | RErr e => RErr e
      | RPanic => RPanic
      end
  end.

(** [BatchExec.ExecContext]: the batch built by [Then] may carry a build error. *)
Definition batch_exec (build_ok : bool) (reqs : list Z) (t : transport) : result (list item) :=
  if negb build_ok then RErr {| e_kind := KBuild; e_failures := [] |}
  else batch_opt reqs t.

(** ** client.go Request *)
Definition request (op : Z) (t : transport) : result payload :=
  match batch_opt [op] t with
  | RErr e => RErr e
  | RPanic => RPanic
  | ROk resp =>
    match index resp 0 with                                    (* bi := resp[0] *)
    | RPanic => RPanic
    | RErr e => RErr e
    | ROk bi =>
      match item_err bi with
      | Some e => RErr e
      | None => ROk (i_payload bi)
      end
    end
  end.

(** ** client.go Executor.ExecContext
    [rty] is the type argument [Resp] of the executor; [r, ok := resp.(Resp)] fails on a nil
    interface and on any other dynamic type. *)
Definition exec_context (build_ok : bool) (op : Z) (rty : ptype) (t : transport) : result pval :=
  if negb build_ok then RErr {| e_kind := KBuild; e_failures := [] |}
  else
    match request op t with
    | RErr e => RErr e
    | RPanic => RPanic
    | ROk p =>
      match p with
      | Some v => if ptype_eqb (p_type v) rty then ROk v
                  else RErr {| e_kind := KType; e_failures := [] |}
      | None => RErr {| e_kind := KType; e_failures := [] |}
      end
    end.

(** ** client.go negotiateVersion (response handling; the choice of the version is
    [Negotiate.best], property C13) *)
Definition negotiate_version (enforced : option ver) (client : list ver) (t : transport) : result ver :=
  match enforced with
  | Some e => ROk e
  | None =>
    match t with
    | TFail => RErr {| e_kind := KTransport; e_failures := [] |}
    | TMsg r =>
      if negb (r_count r =? 1) || negb (len (r_items r) =? 1)
      then RErr (with_item_errors KCount (r_items r))
      else
        match index (r_items r) 0 with                         (* bi := resp.BatchItem[0] *)
        | RPanic => RPanic
        | RErr e => RErr e
        | ROk bi =>
          if (i_status bi =? status_failed) && (i_reason bi =? reason_not_supported) then
            if vmem v1_0 client then ROk v1_0
            else RErr {| e_kind := KNoCommon; e_failures := [] |}
          else
            match item_err bi with
            | Some e => RErr e
            | None =>
              match i_payload bi with                          (* pl, ok := ...; !ok || pl == nil *)
              | None => RErr {| e_kind := KType; e_failures := [] |}
              | Some v =>
                if ptype_eqb (p_type v) (TResp op_discover) then
                  match best client (p_versions v) with
                  | Some b => ROk b
                  | None => RErr {| e_kind := KNoCommon; e_failures := [] |}
                  end
                else RErr {| e_kind := KType; e_failures := [] |}
              end
            end
        end
    end
  end.

(** ** Observables compared with the implementation *)

(** Does the error report this item's status, reason and message? *)
Definition failure_eqb (a b : failure) : bool :=
  match a, b with
  | (o1, s1, r1, m1), (o2, s2, r2, m2) => (o1 =? o2) && (s1 =? s2) && (r1 =? r2) && str_eqb m1 m2
  end.
Definition carries (e : err) (it : item) : bool := existsb (failure_eqb (failure_of it)) (e_failures e).

Definition failed_items (r : list item) : list item := filter (fun it => negb (i_status it =? success)) r.

Definition items_of (t : transport) : list item :=
  match t with TFail => [] | TMsg r => r_items r end.

(** For every failed item of the response, in order: is it reported by the error? *)
Definition carried (e : err) (t : transport) : list bool := map (carries e) (failed_items (items_of t)).

Definition payload_id (p : payload) : Z := match p with None => -1 | Some v => p_id v end.

Inductive call :=
| CRequest (op : Z)                                   (* Client.Request *)
| CExec (build_ok : bool) (op : Z) (rty : ptype)      (* Executor.ExecContext *)
| CBatch (build_ok : bool) (ops : list Z)             (* BatchExec.ExecContext / Client.Batch, then Unwrap *)
| CDial (enforced : option ver) (client : list ver).  (* DialContext -> negotiateVersion *)

Inductive obs :=
| OPanic
| OErr (c : list bool)                                (* error; which failed items it reports *)
| OPayload (id : Z)                                   (* Request / ExecContext returned this payload (-1: nil) *)
| OBatch (ids : list Z) (u : option (list bool))      (* Batch returned these items; Unwrap: nil error or reported failures *)
| OAdopt (v : ver).

Definition run (c : call) (t : transport) : obs :=
  match c with
  | CRequest op =>
    match request op t with
    | ROk p => OPayload (payload_id p)
    | RErr e => OErr (carried e t)
    | RPanic => OPanic
    end
  | CExec b op rty =>
    match exec_context b op rty t with
    | ROk v => OPayload (p_id v)
    | RErr e => OErr (carried e t)
    | RPanic => OPanic
    end
  | CBatch b ops =>
    match batch_exec b ops t with
    | ROk items =>
      let (pls, e) := unwrap items in
      OBatch (map payload_id pls) (match e with None => None | Some e => Some (carried e t) end)
    | RErr e => OErr (carried e t)
    | RPanic => OPanic
    end
  | CDial enf client =>
    match negotiate_version enf client t with
    | ROk v => OAdopt v
    | RErr e => OErr (carried e t)
    | RPanic => OPanic
    end
  end.

Definition blist_eqb := list_eqb Bool.eqb.

Definition obs_eqb (a b : obs) : bool :=
  match a, b with
  | OPanic, OPanic => true
  | OErr x, OErr y => blist_eqb x y
  | OPayload x, OPayload y => x =? y
  | OBatch x u, OBatch y w => zlist_eqb x y && option_eqb blist_eqb u w
  | OAdopt x, OAdopt y => ver_eqb x y
  | _, _ => false
  end.

Definition row_ok (r : call * transport * obs) : bool :=
  match r with (c, t, o) => obs_eqb (run c t) o end.

(** ** Link with the negotiation model of C13: what [negotiateVersion] makes of a reply,
    expressed as a [Negotiate.reply] (specification-level; used in theorem statements). *)
Definition classify (t : transport) : reply :=
  match t with
  | TFail => RTransportErr
  | TMsg r =>
    match r_items r with
    | [bi] =>
      if negb (r_count r =? 1) then RBadCount
      else if (i_status bi =? status_failed) && (i_reason bi =? reason_not_supported) then RNotSupported
      else if negb (i_status bi =? success) then RFailed
      else match i_payload bi with
           | None => RNoPayload
           | Some v => if ptype_eqb (p_type v) (TResp op_discover) then RVersions (p_versions v)
                       else RForeignPayload
           end
    | _ => RBadCount
    end
  end.
