(** The struct-level round trip composed with the binary cursor law, and its instance at the
    schema regenerated from /repo. *)
From Coq Require Import ZArith List Bool String Lia.
From KV Require Import Base BaseProofs Wire WireProofs Cursor CursorProofs BinCursorProofs Schema SchemaSem
  FaithfulProofs Roundtrip RoundtripProofs RoundtripCustoms KmipCodec.
From KVGen Require Import KmipSchema.
Import ListNotations.
Open Scope Z_scope.

Section Bin.
  Variable S : schema.
  Variables (OPS : op_table) (ATTRS : attr_table) (OBJS : obj_table).

  (** encode, lay out in binary TTLV, read with the binary reader, decode: the value comes back,
      every byte is consumed, the version state ends where the encoder's did *)
  Theorem bin_roundtrip fe fc st t tag v items st' sc :
    enc_ty S fe st t tag v = Ok (items, st') ->
    conf_ty S OPS ATTRS OBJS fc st t tag v = Some sc ->
    forallb item_ok items = true -> forallb item_small items = true ->
    lookahead t = false ->
    exists c, bin_cursor (wire_enc_list items) = Ok c /\
      forall fd, (fe + 2 * items_size items + 2 <= fd)%nat ->
        dec_ty S OPS ATTRS OBJS bin_fmt fd st t tag c = Ok (v, ([], false), st').
  Proof.
    intros He Hc Hok Hsm Hla.
    destruct (bin_faithful items Hok Hsm) as (forest & Hcur & Hf).
    exists (forest, false). split; [exact Hcur|]. intros fd Hfd.
    destruct (rt_all S OPS ATTRS OBJS bin_fmt fe) as (Pt & _ & _).
    destruct (Pt _ _ _ _ _ _ _ _ He Hc) as (_ & _ & _ & _ & Hdec).
    specialize (Hdec forest [] fd Hf). rewrite app_nil_r in Hdec. apply Hdec; [rewrite Hla; discriminate | exact Hfd].
  Qed.
End Bin.

(** whole KMIP messages at the schema regenerated from /repo: the executable unmarshal of the
    correspondence ([kmip_unmarshal], decoder fuel [FUEL]) returns the message that was encoded *)
Theorem kmip_message_roundtrip root d v fe fc items st' sc :
  find_tdef kmip_schema root = Some d ->
  enc_ty kmip_schema fe None (TNamed root) (t_deftag d) v = Ok (items, st') ->
  conf_ty kmip_schema kmip_ops kmip_attrs kmip_objs fc None (TNamed root) (t_deftag d) v = Some sc ->
  forallb item_ok items = true -> forallb item_small items = true ->
  (fe + 2 * items_size items + 2 <= FUEL)%nat ->
  kmip_unmarshal root (wire_enc_list items) = Ok v.
Proof.
  intros Ed He Hc Hok Hsm Hfd.
  destruct (bin_roundtrip kmip_schema kmip_ops kmip_attrs kmip_objs fe fc None (TNamed root) (t_deftag d) v items st' sc He Hc Hok Hsm eq_refl)
    as (c & Hcur & Hdec).
  unfold kmip_unmarshal. rewrite Hcur. cbn [bind]. unfold kmip_dec. rewrite Ed. rewrite (Hdec FUEL Hfd). reflexivity.
Qed.

(** every structure of the regenerated schema that the reflective decoder handles is
    unambiguous: an element that may be absent never shares its tag with a later element *)
Definition reflective_unambiguous (S : schema) : bool :=
  forallb (fun d => t_custom_dec d || t_custom_enc d || wf_fields (t_fields d)) S.

Lemma kmip_reflective_unambiguous : reflective_unambiguous kmip_schema = true.
Proof. vm_compute. reflexivity. Qed.

(** structures decoded by hand-written code: their field lists are not required to satisfy
    [wf_fields] (the hand-written decoder knows more; their conformance is [conf_custom_of]) *)
Definition custom_decoded (S : schema) : list string :=
  map t_name (filter (fun d => t_custom_dec d || t_custom_enc d) S).
