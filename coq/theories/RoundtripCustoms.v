(** The hand-written codecs discharged: [P_custom] at every fuel level from the per-codec
    lemmas, and with it the struct-level round trip [rt_all] for the whole model. *)
From Coq Require Import ZArith List Bool String Lia PeanoNat.
From KV Require Import Base BaseProofs Wire WireProofs Cursor CursorProofs Schema SchemaSem SchemaSemEq FaithfulProofs
  Roundtrip RoundtripEq RoundtripProofs RtCustomLib RtRequestItem RtResponseItem RtAttribute.
Import ListNotations.
Open Scope Z_scope.

Section All.
  Variable S : schema.
  Variables (OPS : op_table) (ATTRS : attr_table) (OBJS : obj_table).
  Context {R : Type}.
  Variable F : rawfmt R.

  Lemma customs_all f : Q S OPS ATTRS OBJS F f -> P_custom S OPS ATTRS OBJS F (Datatypes.S f).
  Proof.
    intros HQ fc st d tag fs items st' sc Ed Hcd EV ES He Hc.
    unfold conf_custom_of in Hc. cbv zeta in Hc.
    destruct (String.eqb (t_name d) "kmip.RequestBatchItem") eqn:E1.
    { apply String.eqb_eq in E1. exact (rt_request_item S OPS ATTRS OBJS F f HQ fc st d tag fs items st' sc Ed Hcd E1 He Hc). }
    destruct (String.eqb (t_name d) "kmip.ResponseBatchItem") eqn:E2.
    { apply String.eqb_eq in E2. exact (rt_response_item S OPS ATTRS OBJS F f HQ fc st d tag fs items st' sc Ed Hcd E2 He Hc). }
    destruct (String.eqb (t_name d) "kmip.Attribute") eqn:E3.
    { apply String.eqb_eq in E3. exact (rt_attribute S OPS ATTRS OBJS F f HQ fc st d tag fs items st' sc Ed Hcd E3 He Hc). }
    discriminate.
  Qed.

  (** the struct-level round trip, for every encoder fuel and every conformance fuel *)
  Theorem rt_all fe : P_ty S OPS ATTRS OBJS F fe /\ P_list S OPS ATTRS OBJS F fe /\ P_fields S OPS ATTRS OBJS F fe.
  Proof. apply rt_all_with. exact customs_all. Qed.
End All.
