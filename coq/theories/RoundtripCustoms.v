(** The hand-written codecs discharged: [P_custom] at every fuel level from the per-codec
    lemmas, and with it the struct-level round trip [rt_all] for the whole model. *)
From Coq Require Import ZArith List Bool String Lia PeanoNat.
From KV Require Import Base BaseProofs Wire WireProofs Cursor CursorProofs Schema SchemaSem SchemaSemEq FaithfulProofs
  Roundtrip RoundtripEq RoundtripProofs RtCustomLib RtRequestItem RtResponseItem RtAttribute RtCredential RtKeyBlock RtObject RtTypedObject RtImportRequest.
Import ListNotations.
Open Scope Z_scope.

Section All.
  Variable S : schema.
  Variables (OPS : op_table) (ATTRS : attr_table) (OBJS : obj_table).
  Context {R : Type}.
  Variable F : rawfmt R.

  Lemma customs_all f : Q S OPS ATTRS OBJS F f -> P_custom S OPS ATTRS OBJS F (Datatypes.S f).
  Proof.
    intros HQ fc st d tag fs items st' sc Ed Hcd EV ES He Hc.
    unfold conf_custom_of in Hc. cbv zeta in Hc.
    destruct (String.eqb (t_name d) "kmip.RequestBatchItem") eqn:E1.
    { apply String.eqb_eq in E1. exact (rt_request_item S OPS ATTRS OBJS F f HQ fc st d tag fs items st' sc Ed Hcd E1 He Hc). }
    destruct (String.eqb (t_name d) "kmip.ResponseBatchItem") eqn:E2.
    { apply String.eqb_eq in E2. exact (rt_response_item S OPS ATTRS OBJS F f HQ fc st d tag fs items st' sc Ed Hcd E2 He Hc). }
    destruct (String.eqb (t_name d) "kmip.Attribute") eqn:E3.
    { apply String.eqb_eq in E3. exact (rt_attribute S OPS ATTRS OBJS F f HQ fc st d tag fs items st' sc Ed Hcd E3 He Hc). }
    destruct (String.eqb (t_name d) "kmip.Credential") eqn:E4.
    { apply String.eqb_eq in E4. exact (rt_credential S OPS ATTRS OBJS F f HQ fc st d tag fs items st' sc Ed Hcd E4 He Hc). }
    destruct (String.eqb (t_name d) "kmip.KeyBlock") eqn:E5.
    { apply String.eqb_eq in E5. exact (rt_key_block S OPS ATTRS OBJS F f HQ fc st d tag fs items st' sc Ed Hcd E5 He Hc). }
    destruct (String.eqb (t_name d) "payloads.GetResponsePayload") eqn:E6.
    { apply String.eqb_eq in E6. exact (rt_get_response S OPS ATTRS OBJS F f HQ fc st d tag fs items st' sc Ed Hcd E6 He Hc). }
    destruct (String.eqb (t_name d) "payloads.RegisterRequestPayload") eqn:E7.
    { apply String.eqb_eq in E7. exact (rt_register_request S OPS ATTRS OBJS F f HQ fc st d tag fs items st' sc Ed Hcd E7 He Hc). }
    destruct (String.eqb (t_name d) "payloads.ExportResponsePayload") eqn:E8.
    { apply String.eqb_eq in E8. exact (rt_export_response S OPS ATTRS OBJS F f HQ fc st d tag fs items st' sc Ed Hcd E8 He Hc). }
    destruct (String.eqb (t_name d) "payloads.ImportRequestPayload") eqn:E9.
    { apply String.eqb_eq in E9. exact (rt_import_request S OPS ATTRS OBJS F f HQ fc st d tag fs items st' sc Ed Hcd E9 He Hc). }
    discriminate.
  Qed.

  (** the struct-level round trip, for every encoder fuel and every conformance fuel *)
  Theorem rt_all fe : P_ty S OPS ATTRS OBJS F fe /\ P_list S OPS ATTRS OBJS F fe /\ P_fields S OPS ATTRS OBJS F fe.
  Proof. apply rt_all_with. exact customs_all. Qed.
End All.
