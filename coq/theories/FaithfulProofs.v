(** Reading back from a faithful forest (any format): typed reads and the generic-tree
    decoder return what the writer calls carried. *)
From Coq Require Import ZArith List Bool Lia.
From KV Require Import Base BaseProofs Wire Cursor CursorProofs.
Import ListNotations.
Open Scope Z_scope.

Section Faithful.
  Context {R : Type}.
  Variable F : rawfmt R.

  Lemma c_open_good (l : list (relem R)) : c_open l false = Ok (l, false).
  Proof. destruct l; reflexivity. Qed.

  Lemma c_next_cons (e : relem R) rest : c_next (e :: rest, false) = Ok (rest, false).
  Proof. cbn [c_next fst snd]. apply c_open_good. Qed.

  Lemma c_expect_hit tag ty raw kids kb (rest : list (relem R)) :
    c_expect ty tag (RE tag ty raw kids kb :: rest, false) = Ok (RE tag ty raw kids kb).
  Proof. cbn [c_expect fst]. rewrite !Z.eqb_refl. reflexivity. Qed.

  Lemma c_scalar_hit {A} ty (parse : R -> res A) tag raw kids kb rest v :
    parse raw = Ok v ->
    c_scalar ty parse tag (RE tag ty raw kids kb :: rest, false) = Ok (v, (rest, false)).
  Proof. intros H. unfold c_scalar. rewrite c_expect_hit. cbn [bind]. rewrite H. cbn [bind]. rewrite c_next_cons. reflexivity. Qed.

  (** generic trees as ttlv.Value holds them: enumerations without real tag, no bit masks *)
  Fixpoint tree_shaped (i : item) : bool :=
    match i with
    | IStruct tag kids => forallb tree_shaped kids && forallb (fun k => negb (itag k =? 0)) kids
    | IEnum tag r _ => (r =? 0)
    | IMask _ _ _ => false
    | _ => true
    end.

  Fixpoint item_size (i : item) : nat :=
    match i with
    | IStruct _ kids => Datatypes.S (fold_right (fun k n => item_size k + n)%nat O kids)
    | _ => 1%nat
    end.
  Definition items_size (l : list item) : nat := fold_right (fun k n => item_size k + n)%nat O l.

  Lemma c_type_head tag ty raw kids kb (rest : list (relem R)) b : c_type (RE tag ty raw kids kb :: rest, b) = ty.
  Proof. reflexivity. Qed.
  Lemma c_tag_head tag ty raw kids kb (rest : list (relem R)) b : c_tag (RE tag ty raw kids kb :: rest, b) = tag.
  Proof. reflexivity. Qed.
  Lemma c_tag_nil b : c_tag (@nil (relem R), b) = 0.
  Proof. reflexivity. Qed.

  (** the tag the reader sees first in a faithful forest is the tag of the first call *)
  Definition hd_tag (l : list item) : Z := match l with [] => 0 | i :: _ => itag i end.
  Lemma faithful_hd_tag l es : faithful F l es -> c_tag (es, false) = hd_tag l.
  Proof. intros H. destruct H as [|i e il el H1 H2]; [reflexivity|]. destruct H1; reflexivity. Qed.

  Lemma faithful_app_inv l1 l2 es : faithful F (l1 ++ l2) es ->
    exists e1 e2, es = e1 ++ e2 /\ faithful F l1 e1 /\ faithful F l2 e2.
  Proof.
    revert es. induction l1 as [|i l1 IH]; intros es H.
    - exists [], es. repeat split; [constructor | exact H].
    - cbn [app] in H. inversion H as [|i' e il el H1 H2]; subst. destruct (IH _ H2) as (e1 & e2 & -> & Ha & Hb).
      exists (e :: e1), e2. repeat split; [constructor; assumption | assumption].
  Qed.

  Lemma faithful_length l es : faithful F l es -> length l = length es.
  Proof. induction 1; cbn [length]; congruence. Qed.

  Lemma item_size_pos i : (1 <= item_size i)%nat.
  Proof. destruct i; cbn [item_size]; lia. Qed.

  (** Value.TagDecodeTTLV / Struct.TagDecodeTTLV read a faithful forest back exactly *)
  Lemma dec_value_faithful fuel :
    (forall i e rest, tree_shaped i = true -> faithful1 F i e -> (2 * item_size i <= fuel)%nat ->
       dec_value F fuel (itag i) (e :: rest, false) = Ok (i, (rest, false))) /\
    (forall kids es, forallb tree_shaped kids = true -> forallb (fun k => negb (itag k =? 0)) kids = true ->
       faithful F kids es -> (2 * items_size kids + 1 <= fuel)%nat ->
       dec_fields F fuel (es, false) = Ok (kids, ([], false))).
  Proof.
    induction fuel as [|f [IHv IHf]].
    { split; [intros i e rest _ _ H; pose proof (item_size_pos i); lia | intros; lia]. }
    split.
    - intros i e rest Hsh Hf Hsz.
      destruct Hf as [tag kids raw es Hk|tag v raw kb Hp|tag v raw kb Hp|tag v raw kb Hp|tag r v raw kb Hp|tag b raw kb Hp
                      |tag s raw kb Hp|tag s raw kb Hp|tag v raw kb Hp|tag v raw kb Hp|tag r v raw kb Hp];
        cbn [itag dec_value]; rewrite c_type_head;
        unfold c_integer, c_long, c_big, c_enum, c_bool, c_text, c_bytes, c_date, c_intv;
        try (unfold T_INT, T_LONG, T_BIG, T_ENUM, T_BOOL, T_TEXT, T_BYTES, T_DATE, T_INTV, T_STRUCT; cbn [Z.eqb Pos.eqb];
             erewrite c_scalar_hit by eassumption; reflexivity).
      + (* struct *)
        unfold T_INT, T_LONG, T_BIG, T_ENUM, T_BOOL, T_TEXT, T_BYTES, T_DATE, T_INTV. cbn [Z.eqb Pos.eqb].
        change (T_STRUCT =? T_STRUCT) with true. cbv iota.
        cbn [tree_shaped] in Hsh. apply andb_true_iff in Hsh. destruct Hsh as [Hsh Htags].
        unfold c_struct. rewrite c_expect_hit. cbn [bind]. rewrite c_open_good. cbn [bind].
        cbn [item_size] in Hsz. fold (items_size kids) in Hsz.
        assert (Hdf : dec_fields F f (es, false) = Ok (kids, ([], false))) by (apply IHf; try assumption; lia).
        change ((fix dec_value (fuel : nat) (tag : Z) (c : cur R) {struct fuel} : res (item * cur R) := _
                 with dec_fields (fuel : nat) (c : cur R) {struct fuel} : res (list item * cur R) := _ for dec_fields) f (es, false))
          with (dec_fields F f (es, false)).
        rewrite Hdf. cbn [bind fst snd]. rewrite andb_false_r. rewrite c_next_cons. reflexivity.
      + (* enum: real tag 0 *)
        cbn [tree_shaped] in Hsh. apply Z.eqb_eq in Hsh. subst r.
        unfold T_INT, T_LONG, T_BIG, T_ENUM, T_BOOL, T_TEXT, T_BYTES, T_DATE, T_INTV, T_STRUCT. cbn [Z.eqb Pos.eqb].
        erewrite c_scalar_hit by eassumption. reflexivity.
      + (* mask: not tree shaped *) discriminate Hsh.
    - intros kids es Hsh Htags Hf Hsz. cbn [dec_fields].
      destruct Hf as [|k e ks el Hk Hks].
      + rewrite c_tag_nil. reflexivity.
      + cbn [forallb] in Hsh, Htags. apply andb_true_iff in Hsh, Htags. destruct Hsh as [Hs1 Hs2], Htags as [Ht1 Ht2].
        assert (Etag : c_tag (e :: el, false) = itag k) by (destruct Hk; reflexivity).
        rewrite Etag. apply negb_true_iff in Ht1. rewrite Ht1.
        cbn [items_size fold_right] in Hsz. fold (items_size ks) in Hsz.
        assert (Hv : dec_value F f (itag k) (e :: el, false) = Ok (k, (el, false))) by (apply IHv; try assumption; lia).
        change ((fix dec_value (fuel : nat) (tag : Z) (c : cur R) {struct fuel} : res (item * cur R) := _
                 with dec_fields (fuel : nat) (c : cur R) {struct fuel} : res (list item * cur R) := _ for dec_value) f (itag k) (e :: el, false))
          with (dec_value F f (itag k) (e :: el, false)).
        rewrite Hv. cbn [bind fst snd].
        assert (Hr : dec_fields F f (el, false) = Ok (ks, ([], false))) by (apply IHf; try assumption; pose proof (item_size_pos k); lia).
        change ((fix dec_value (fuel : nat) (tag : Z) (c : cur R) {struct fuel} : res (item * cur R) := _
                 with dec_fields (fuel : nat) (c : cur R) {struct fuel} : res (list item * cur R) := _ for dec_fields) f (el, false))
          with (dec_fields F f (el, false)).
        rewrite Hr. reflexivity.
  Qed.
End Faithful.
