(** Decidable conditions on a schema under which EVERY value the decoder returns is, after
    normalisation (Normalize.v), a conforming value (Roundtrip.conf_ty) with the same encoding:
    the hypotheses of the one-hop fixed point theorem for typed inputs (C18).  They hold of the
    schema regenerated from /repo by computation (KmipOneHop.v).  Definitions only. *)
From Coq Require Import ZArith List Bool String.
From KV Require Import Base Wire Cursor Schema SchemaSem FaithfulProofs Roundtrip.
Import ListNotations.
Open Scope Z_scope.

(** kinds the encoder handles (encodeFunc has no case for uint64; the decoder has) *)
Definition enc_kind_ok (k : kind) : bool := match k with KUint64 => false | _ => true end.

(** types of omitempty fields for which "is the zero value" is not changed by normalisation
    and holds of the value left when the element is absent *)
Definition omit_ty_ok (t : ty) : bool :=
  match t with
  | TScalar KTime => false
  | TScalar _ | TPtr _ | TSlice _ => true
  | _ => false
  end.

Definition has_range (fd : field) : bool := match f_range fd with Some _ => true | None => false end.

Definition QN : nat := 12%nat.

Section Ok.
  Variable S : schema.
  Variable OPS : op_table.
  Variable ATTRS : attr_table.
  Variable OBJS : obj_table.

  (** decoding a value of the type never changes the protocol version state: no set-version
      field below it (hand-written decoders hand the state they got to every element and
      return it) *)
  Fixpoint quiet_ty (n : nat) (t : ty) {struct n} : bool :=
    match n with
    | O => false
    | Datatypes.S n' =>
      match t with
      | TScalar _ => true
      | TPtr t' | TSlice t' => quiet_ty n' t'
      | TIface _ => true
      | TNamed nm =>
        if String.eqb nm "ttlv.Value" then true
        else if String.eqb nm "ttlv.Struct" then true
        else
          match find_tdef S nm with
          | Some d => t_custom_dec d || forallb (fun fd => negb (f_setver fd) && quiet_ty n' (f_ty fd)) (t_fields d)
          | None => true
          end
      end
    end.

  (** a structure the reflective decoder cannot be asked for mentions, as a field type, a
      structure with a hand-written ENCODER only (kmip.PlainKeyValue holds a KeyMaterial): it
      is reached from inside a hand-written decoder only *)
  Definition shallow_ty (t : ty) : bool :=
    match t with
    | TNamed n | TPtr (TNamed n) | TSlice (TNamed n) =>
      if String.eqb n "ttlv.Value" then true
      else if String.eqb n "ttlv.Struct" then true
      else match find_tdef S n with Some d => t_custom_dec d || negb (t_custom_enc d) | None => false end
    | _ => true
    end.
  Definition shallow_ok (d : tdef) : bool := forallb (fun fd => shallow_ty (f_ty fd)) (t_fields d).

  (** types the reflective decoder may be asked for under a tag: every kind encodable,
      pointers and slices of single-item things, no bare interface, structures that are either
      decoded by hand or coded reflectively on both sides; a ResponseBatchItem only under
      TagBatchItem (its encoder ignores the tag it is given) *)
  Fixpoint ty_ok (t : ty) (tag : Z) : bool :=
    match t with
    | TScalar k => enc_kind_ok k
    | TPtr t' | TSlice t' => one_item t' && ty_ok t' tag
    | TIface _ => false
    | TNamed n =>
      if String.eqb n "ttlv.Value" then true
      else if String.eqb n "ttlv.Struct" then true
      else
        match find_tdef S n with
        | Some d => (t_custom_dec d || (negb (t_custom_enc d) && shallow_ok d)) &&
                    (if String.eqb n "kmip.ResponseBatchItem" then tag =? TAG_BATCH_ITEM else true)
        | None => false
        end
    end.

  (** an element read by a hand-written decoder: any tag, state kept *)
  Definition elem_ok (t : ty) : bool := ty_ok t 0 && quiet_ty QN t.

  Definition field_ok (fd : field) : bool :=
    negb (f_tag fd =? 0) && ty_ok (f_ty fd) (f_tag fd) &&
    (if f_setver fd then plain_struct S (f_ty fd) && negb (f_omit fd) && negb (has_range fd) else true) &&
    (if f_omit fd then omit_ty_ok (f_ty fd) && quiet_ty QN (f_ty fd) else true) &&
    (if has_range fd then quiet_ty QN (f_ty fd) else true).

  (** an omitempty scalar read with d.Opt by a hand-written decoder and written reflectively:
      the value left when it is absent must itself be a conforming scalar (not so for []byte) *)
  Definition omit_scalar_ok (t : ty) : bool :=
    match t with
    | TScalar k => enc_kind_ok k && omit_ty_ok t && scalar_ok k (zero_of S 8 t)
    | _ => false
    end.

  (** ---- the shapes the hand-written decoders rely on (the static part of the conf functions) *)
  Definition ext_ok (t : ty) : bool :=
    match t with TPtr _ => elem_ok t | _ => false end.

  Definition payload_name_ok (n : string) : bool :=
    negb (multi_enc n) && elem_ok (TNamed n).

  Definition ops_ok : bool :=
    forallb (fun e => payload_name_ok (fst (snd e)) && payload_name_ok (snd (snd e))) OPS &&
    match find_tdef S "kmip.UnknownPayload" with Some d' => t_custom_enc d' | None => false end.

  Definition request_item_ok (d : tdef) : bool :=
    t_custom_enc d &&
    ty_eqb (fty d 0) (TScalar (KEnum (ftag d 0))) && ty_eqb (fty d 1) (TScalar KBytes) &&
    (match fty d 2 with TIface _ => true | _ => false end) &&
    ext_ok (fty d 3) &&
    negb (ftag d 0 =? 0) && negb (ftag d 1 =? 0) && negb (ftag d 2 =? 0) && negb (ftag d 3 =? 0) &&
    negb (ftag d 1 =? ftag d 2) && (List.length (t_fields d) =? 4)%nat.

  Definition response_item_ok (d : tdef) : bool :=
    t_custom_enc d &&
    (match fty d 6 with TIface _ => true | _ => false end) &&
    ty_eqb (fty d 0) (TScalar (KEnum (ftag d 0))) && ty_eqb (fty d 1) (TScalar KBytes) &&
    ty_eqb (fty d 2) (TScalar (KEnum (ftag d 2))) && ty_eqb (fty d 3) (TScalar (KEnum (ftag d 3))) &&
    ty_eqb (fty d 4) (TScalar KString) && ty_eqb (fty d 5) (TScalar KBytes) &&
    ext_ok (fty d 7) && ((0 <=? ftag d 0) && (ftag d 0 <? 2 ^ 24)) && ((0 <=? ftag d 3) && (ftag d 3 <? 2 ^ 24)) &&
    tags_distinct [ftag d 0; ftag d 1; ftag d 2; ftag d 3; ftag d 4; ftag d 5; ftag d 6; ftag d 7].

  Definition attr_value_ok (t : ty) : bool := one_item t && elem_ok t.

  Definition attribute_ok (d : tdef) : bool :=
    match t_fields d with
    | [f0; f1; f2] =>
      negb (t_custom_enc d) &&
      pos_field f0 && pos_field f1 && pos_field f2 && negb (f_omit f0) && negb (f_omit f1) && negb (f_omit f2) &&
      ty_eqb (f_ty f0) (TScalar KString) && ty_eqb (f_ty f1) (TPtr (TScalar KInt32)) &&
      (match f_ty f2 with TIface _ => true | _ => false end) &&
      negb (f_tag f1 =? f_tag f2) &&
      forallb (fun e => attr_value_ok (snd e)) ATTRS && attr_value_ok (TNamed "ttlv.Value")
    | _ => false
    end.

  (** an alternative of CredentialValue / KeyMaterial: a pointer to a single-item thing *)
  Definition alt_ok (t : ty) : bool :=
    match t with TPtr _ => elem_ok t | _ => false end.

  Definition credential_ok (d : tdef) : bool :=
    match t_fields d, find_tdef S "kmip.CredentialValue" with
    | [f0; f1], Some cv =>
      negb (t_custom_enc d) && pos_field f0 && pos_field f1 && negb (f_omit f0) && negb (f_omit f1) &&
      (match f_ty f0 with TScalar (KEnum _) => true | _ => false end) &&
      ty_eqb (f_ty f1) (TNamed "kmip.CredentialValue") &&
      t_custom_enc cv && (List.length (t_fields cv) =? 3)%nat &&
      forallb (fun g => alt_ok (f_ty g)) (t_fields cv)
    | _, _ => false
    end.

  Definition key_block_ok (d : tdef) : bool :=
    match t_fields d, find_tdef S "kmip.KeyValue", find_tdef S "kmip.PlainKeyValue", find_tdef S "kmip.KeyMaterial" with
    | [f0; f1; f2; f3; f4; f5], Some kvd, Some pkv, Some km =>
      negb (t_custom_enc d) && forallb pos_field (t_fields d) &&
      negb (f_omit f0) && f_omit f1 && negb (f_omit f2) && f_omit f3 && f_omit f4 && negb (f_omit f5) &&
      (match f_ty f0 with TScalar (KEnum _) => true | _ => false end) &&
      (match f_ty f1, f_ty f3, f_ty f4 with
       | TScalar _, TScalar _, TScalar _ => omit_scalar_ok (f_ty f1) && omit_scalar_ok (f_ty f3) && omit_scalar_ok (f_ty f4)
       | _, _, _ => false end) &&
      ty_eqb (f_ty f2) (TPtr (TNamed "kmip.KeyValue")) &&
      ext_ok (f_ty f5) &&
      tags_distinct (map f_tag (t_fields d)) &&
      t_custom_enc kvd && (List.length (t_fields kvd) =? 2)%nat &&
      ty_eqb (fty kvd 0) (TPtr (TScalar KBytes)) && ty_eqb (fty kvd 1) (TPtr (TNamed "kmip.PlainKeyValue")) &&
      (* PlainKeyValue / KeyMaterial *)
      negb (t_custom_enc pkv) && negb (t_custom_dec pkv) && t_custom_enc km &&
      (List.length (t_fields pkv) =? 2)%nat && (List.length (t_fields km) =? 8)%nat &&
      forallb pos_field (t_fields pkv) && forallb (fun g => negb (f_omit g)) (t_fields pkv) &&
      ty_eqb (fty pkv 0) (TNamed "kmip.KeyMaterial") &&
      (match fty pkv 1 with TSlice _ => elem_ok (fty pkv 1) | _ => false end) &&
      negb (ftag pkv 0 =? ftag pkv 1) &&
      forallb (fun g => alt_ok (f_ty g)) (t_fields km)
    | _, _, _, _ => false
    end.

  (** a managed object type *)
  Definition object_name_ok (n : string) : bool :=
    negb (multi_enc n) && negb (deftag_of S (TNamed n) =? 0) && elem_ok (TNamed n).

  Definition objs_ok : bool := forallb (fun e => object_name_ok (snd e)) OBJS.

  (** a field read with d.TagAny / decoded as a required element by a hand-written decoder *)
  Definition req_field_ok (fl' : list field) (fd : field) : bool :=
    pos_field fd && negb (f_omit fd) && elem_ok (f_ty fd) && wf_ty (f_ty fd) &&
    (if lookahead (f_ty fd) then forallb (fun g => negb (f_tag g =? f_tag fd)) fl' else true).

  Fixpoint req_fields_ok (fl : list field) : bool :=
    match fl with
    | [] => true
    | fd :: fl' => req_field_ok fl' fd && req_fields_ok fl'
    end.

  Definition typed_object_ok (nreq : nat) (d : tdef) : bool :=
    let fl := firstn nreq (t_fields d) in
    let ofd := nth_field d nreq in
    negb (t_custom_enc d) && (List.length (t_fields d) =? Datatypes.S nreq)%nat &&
    (f_tag ofd =? 0) && (match f_ty ofd with TIface _ => true | _ => false end) &&
    (match fl with f0 :: _ => match f_ty f0 with TScalar (KEnum _) => true | _ => false end | [] => false end) &&
    req_fields_ok fl &&
    forallb (fun e => forallb (fun g => negb (f_tag g =? deftag_of S (TNamed (snd e)))) fl) OBJS.

  Definition import_request_ok (d : tdef) : bool :=
    match t_fields d, find_tdef S "kmip.Attribute" with
    | [f0; f1; f2; f3; f4], Some da =>
      attribute_ok da && ty_eqb (f_ty f3) (TSlice (TNamed "kmip.Attribute")) &&
      negb (t_custom_enc d) && pos_field f0 && pos_field f1 && pos_field f2 && pos_field f3 &&
      negb (f_omit f0) && f_omit f1 && f_omit f2 && negb (f_omit f3) &&
      (f_tag f4 =? 0) && (match f_ty f4 with TIface _ => true | _ => false end) &&
      (match f_ty f0, f_ty f1, f_ty f2, f_ty f3 with
       | TScalar k0, TScalar k1, TScalar k2, TSlice t3 =>
         enc_kind_ok k0 && omit_scalar_ok (f_ty f1) && omit_scalar_ok (f_ty f2) && elem_ok (f_ty f3)
       | _, _, _, _ => false end) &&
      forallb (fun e => tags_distinct [f_tag f0; f_tag f1; f_tag f2; f_tag f3; deftag_of S (TNamed (snd e))]) OBJS
    | _, _ => false
    end.

  (** which shape a hand-written decoder demands *)
  Definition custom_ok (d : tdef) : bool :=
    let n := t_name d in
    if String.eqb n "kmip.RequestBatchItem" then request_item_ok d
    else if String.eqb n "kmip.ResponseBatchItem" then response_item_ok d
    else if String.eqb n "kmip.Credential" then credential_ok d
    else if String.eqb n "kmip.KeyBlock" then key_block_ok d
    else if String.eqb n "kmip.Attribute" then attribute_ok d
    else if String.eqb n "payloads.GetResponsePayload" then typed_object_ok 2 d
    else if String.eqb n "payloads.RegisterRequestPayload" then typed_object_ok 2 d
    else if String.eqb n "payloads.ExportResponsePayload" then typed_object_ok 3 d
    else if String.eqb n "payloads.ImportRequestPayload" then import_request_ok d
    else true.   (* no hand-written decoder is dispatched: decoding panics *)

  Definition tdef_ok (d : tdef) : bool :=
    if t_custom_dec d then custom_ok d
    else if t_custom_enc d then true    (* reached only from inside a hand-written codec *)
    else negb (shallow_ok d) || (wf_fields (t_fields d) && forallb field_ok (t_fields d)).

  Definition schema_ok : bool := forallb tdef_ok S && ops_ok && objs_ok.

  (** what the ENCODER side of the normalisation needs (NormProofs.v): in a reflectively
      encoded structure an omitempty field has a type whose emptiness normalisation keeps, a
      set-version field is a plain structure *)
  Definition enc_field_ok (fd : field) : bool :=
    (if f_omit fd then omit_ty_ok (f_ty fd) else true) &&
    (if f_setver fd then plain_struct S (f_ty fd) && negb (f_omit fd) && negb (has_range fd) else true).
  Definition enc_schema_ok : bool :=
    forallb (fun d => t_custom_enc d || forallb enc_field_ok (t_fields d)) S.
End Ok.
