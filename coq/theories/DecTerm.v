(** C02, typed targets, "decoders never hang": the STATIC DEPTH of a type and the fuel bound
    under which the typed decoder of SchemaSem.v (dec_ty and its mutual companions, the
    hand-written decoders of Section Customs) cannot exhaust its fuel.  Definitions only; the
    proofs are in DecTermProofs.v, the statements in Props/C02Term.v.

    How the model spends fuel: every recursive call receives one unit less and SIBLING calls
    receive the same amount (the element of a slice and the rest of the slice, a field and the
    remaining fields), so the fuel a call needs is the length of the longest CHAIN of nested
    calls it starts:
      - the static nesting of the type ([ty_depth]: 1 for a scalar, +1 for a pointer, +2 for a
        slice, number of fields + 2 for a reflectively decoded struct, +2 for a hand-written
        decoder, over the maximum of the types the decoder of the definition may start dec_ty /
        dec_opt / dec_object on - [callees]: its fields, the auxiliary definitions of
        Credential / KeyBlock, and, through the tables, every payload type for the batch items,
        every attribute value type for Attribute, every object type for the Get / Export
        responses and the Register / Import requests);
      - plus the number of sibling elements a slice loop walks and what the generic-tree
        decoder (ttlv.Value / ttlv.Struct) needs, both bounded by the number of raw elements
        under the cursor ([csize]): 2 * csize in total.
    [ty_depth S OPS ATTRS OBJS n t] is computed with a recursion budget [n] and is [None] when
    the budget is exhausted (a cycle among the definitions, or [n] too small) or when a
    definition declares a hand-written decoder the model does not know. *)
From Coq Require Import ZArith List Bool String.
From KV Require Import Base Wire Cursor Schema SchemaSem KmipCodec DecSafe.
Import ListNotations.
Open Scope Z_scope.

Section DecTerm.
  Variable S : schema.
  Variable OPS : op_table.
  Variable ATTRS : attr_table.
  Variable OBJS : obj_table.

  (** maximum of [g] over [l]; None as soon as [g] is undefined somewhere *)
  Definition dmax (g : ty -> option nat) (l : list ty) : option nat :=
    fold_right (fun t acc => match g t, acc with Some x, Some y => Some (Nat.max x y) | _, _ => None end)
      (Some 0%nat) l.

  (** the types the tables name: payloads by operation, attribute values by name (a custom
      or unknown attribute is decoded as a generic tree), objects by object type *)
  Definition op_types : list ty := flat_map (fun e => [TNamed (fst (snd e)); TNamed (snd (snd e))]) OPS.
  Definition attr_types : list ty := TNamed "ttlv.Value" :: map snd ATTRS.
  Definition obj_types : list ty := map (fun e => TNamed (snd e)) OBJS.

  (** which table the hand-written decoder of a definition consults *)
  Definition table_types (n : string) : list ty :=
    if String.eqb n "kmip.RequestBatchItem" then op_types
    else if String.eqb n "kmip.ResponseBatchItem" then op_types
    else if String.eqb n "kmip.Attribute" then attr_types
    else if String.eqb n "payloads.GetResponsePayload" then obj_types
    else if String.eqb n "payloads.RegisterRequestPayload" then obj_types
    else if String.eqb n "payloads.ExportResponsePayload" then obj_types
    else if String.eqb n "payloads.ImportRequestPayload" then obj_types
    else [].

  (** every type the decoder of [d] may start the typed decoder on; None: a hand-written
      decoder the model does not know (or whose auxiliary definitions are missing) *)
  Definition callees (d : tdef) : option (list ty) :=
    if t_custom_dec d then
      match custom_types S d with
      | Some l => Some (l ++ table_types (t_name d))%list
      | None => None
      end
    else Some (map f_ty (t_fields d)).

  (** what the decoder of [d] adds to the deepest of its callees *)
  Definition own_cost (d : tdef) : nat :=
    if t_custom_dec d then 2%nat else (List.length (t_fields d) + 2)%nat.

  Fixpoint ty_depth (n : nat) (t : ty) : option nat :=
    match n with
    | O => None
    | Datatypes.S n' =>
      match t with
      | TScalar _ => Some 1%nat
      | TIface _ => Some 1%nat
      | TPtr t' => option_map Datatypes.S (ty_depth n' t')
      | TSlice t' => option_map (fun d => Datatypes.S (Datatypes.S d)) (ty_depth n' t')
      | TNamed name =>
        if String.eqb name "ttlv.Value" then Some 2%nat
        else if String.eqb name "ttlv.Struct" then Some 2%nat
        else
          match find_tdef S name with
          | None => Some 1%nat
          | Some d =>
            match callees d with
            | None => None
            | Some l => option_map (fun m => (m + own_cost d)%nat) (dmax (ty_depth n') l)
            end
          end
      end
    end.

  (** the budget the depth is computed with: no chain of distinct definitions, each reached
      through at most a few pointer / slice constructors, is longer *)
  Definition depth_budget : nat := (4 * List.length S + 4)%nat.

  Definition is_some {A} (o : option A) : bool := match o with Some _ => true | None => false end.

  (** the decidable ACYCLICITY check: every definition the decoder can be started on (all but
      the five read only by un-exported decode methods) has a depth within the budget *)
  Definition acyclic_schema : bool :=
    forallb (fun d => is_hand_only (t_name d) || is_some (ty_depth depth_budget (TNamed (t_name d)))) S.

  (** the static part of the fuel bound of a type: pointers and slices are peeled off
      structurally, a name is looked up with the budget *)
  Fixpoint bound (t : ty) : nat :=
    match t with
    | TPtr t' => Datatypes.S (bound t')
    | TSlice t' => Datatypes.S (Datatypes.S (bound t'))
    | TNamed n => match ty_depth depth_budget (TNamed n) with Some d => d | None => 0%nat end
    | _ => 1%nat
    end.

  (** the definitions without a depth (informative) *)
  Definition cyclic_names : list string :=
    map t_name (filter (fun d => negb (is_hand_only (t_name d) || is_some (ty_depth depth_budget (TNamed (t_name d))))) S).

End DecTerm.

(** fuel per raw element under the cursor *)
Definition K_ELEM : nat := 2%nat.
