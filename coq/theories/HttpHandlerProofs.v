From Coq Require Import ZArith List Bool Lia.
From KV Require Import HttpHandler.
Import ListNotations.
Local Open Scope Z_scope.

Lemma admitted_spec : forall q,
  admitted q = true <->
  h_post q = true /\ h_ctype q <> CtOther /\ exists n, h_clen q = Some n /\ 0 < n <= max_body /\ n <= h_avail q.
Proof.
  intros q. unfold admitted. split.
  - intros H. apply andb_true_iff in H as [H Hl]. apply andb_true_iff in H as [Hp Hc].
    split; [exact Hp|]. split.
    + destruct (h_ctype q); try discriminate; intro E; discriminate.
    + destruct (h_clen q) as [n|]; [|discriminate]. exists n. split; [reflexivity|].
      apply andb_true_iff in Hl as [Hl H3]. apply andb_true_iff in Hl as [H1 H2].
      apply Z.ltb_lt in H1. apply Z.leb_le in H2. apply Z.leb_le in H3. lia.
  - intros (Hp & Hc & n & Hn & Hr & Ha). rewrite Hp, Hn.
    destruct (h_ctype q); try (exfalso; apply Hc; reflexivity); cbn [andb];
      (replace (0 <? n) with true by (symmetry; apply Z.ltb_lt; lia));
      (replace (n <=? max_body) with true by (symmetry; apply Z.leb_le; lia));
      (replace (n <=? h_avail q) with true by (symmetry; apply Z.leb_le; lia)); reflexivity.
Qed.

(** the decoding step is reached exactly by admitted requests, and then the outcome is decided by
    the decoder alone *)
Lemma serve_admitted : forall q, admitted q = true ->
  serve q = if h_decodable q then (HResp RHandler, 1) else (HResp RInvalidMessage, 0).
Proof.
  intros q H. apply admitted_spec in H as (Hp & Hc & n & Hn & Hr & Ha).
  unfold serve. rewrite Hp, Hn. cbn [negb].
  replace (n <=? 0) with false by (symmetry; apply Z.leb_gt; lia).
  replace (max_body <? n) with false by (symmetry; apply Z.ltb_ge; lia).
  replace (h_avail q <? n) with false by (symmetry; apply Z.ltb_ge; lia).
  destruct (h_ctype q); try (exfalso; apply Hc; reflexivity); reflexivity.
Qed.

Lemma serve_not_admitted : forall q, admitted q = false ->
  exists code, serve q = (HStatus code, 0).
Proof.
  intros q H. unfold serve. destruct (h_post q) eqn:Hp; cbn [negb]; [|eexists; reflexivity].
  destruct (h_ctype q) eqn:Hc; try (eexists; reflexivity);
    (destruct (h_clen q) as [n|] eqn:Hn; [|eexists; reflexivity];
     destruct (n <=? 0) eqn:E1; [eexists; reflexivity|];
     destruct (max_body <? n) eqn:E2; [eexists; reflexivity|];
     destruct (h_avail q <? n) eqn:E3; [eexists; reflexivity|];
     exfalso; unfold admitted in H; rewrite Hp, Hc, Hn in H; cbn [andb] in H;
     apply Z.leb_gt in E1; apply Z.ltb_ge in E2; apply Z.ltb_ge in E3;
     (replace (0 <? n) with true in H by (symmetry; apply Z.ltb_lt; lia));
     (replace (n <=? max_body) with true in H by (symmetry; apply Z.leb_le; lia));
     (replace (n <=? h_avail q) with true in H by (symmetry; apply Z.leb_le; lia)); discriminate).
Qed.

(** exactly one response message for an admitted request, none otherwise: never two *)
Theorem one_response : forall q,
  messages (fst (serve q)) = if admitted q then 1 else 0.
Proof.
  intros q. destruct (admitted q) eqn:H.
  - rewrite (serve_admitted q H). destruct (h_decodable q); reflexivity.
  - destruct (serve_not_admitted q H) as [c E]. rewrite E. reflexivity.
Qed.

(** the request handler is invoked exactly once for an admitted, decodable request and never otherwise *)
Theorem handler_calls : forall q,
  snd (serve q) = if admitted q && h_decodable q then 1 else 0.
Proof.
  intros q. destruct (admitted q) eqn:H.
  - rewrite (serve_admitted q H). destruct (h_decodable q); reflexivity.
  - destruct (serve_not_admitted q H) as [c E]. rewrite E. reflexivity.
Qed.

(** a correctly framed request that cannot be decoded is answered with the single invalid-message
    response and does not reach the handler *)
Theorem undecodable_answered : forall q,
  admitted q = true -> h_decodable q = false -> serve q = (HResp RInvalidMessage, 0).
Proof. intros q H D. rewrite (serve_admitted q H), D. reflexivity. Qed.

Theorem decodable_answered : forall q,
  admitted q = true -> h_decodable q = true -> serve q = (HResp RHandler, 1).
Proof. intros q H D. rewrite (serve_admitted q H), D. reflexivity. Qed.

(** any sequence of exchanges: one outcome per request, in order; the handler ran once per admitted
    decodable request - whatever came before (undecodable, oversize, truncated ... requests) *)
Theorem serve_all_shape : forall l,
  length (fst (serve_all l)) = length l /\
  snd (serve_all l) = Z.of_nat (length (filter (fun q => admitted q && h_decodable q) l)).
Proof.
  intros l. unfold serve_all. cbn [fst snd]. split; [apply map_length|].
  induction l as [|q l IH]; [reflexivity|].
  cbn [fold_right filter]. rewrite IH, handler_calls.
  destruct (admitted q && h_decodable q); cbn [length]; lia.
Qed.

Theorem serve_all_nth : forall l i q,
  nth_error l i = Some q -> nth_error (fst (serve_all l)) i = Some (fst (serve q)).
Proof. intros l i q H. unfold serve_all. cbn [fst]. rewrite nth_error_map, H. reflexivity. Qed.

(** non-vacuity *)
Example http_examples :
  serve (mkHreq true CtTtlv (Some 64) 64 true) = (HResp RHandler, 1) /\
  serve (mkHreq true CtXml (Some 64) 64 false) = (HResp RInvalidMessage, 0) /\
  serve (mkHreq true CtJson (Some 64) 10 true) = (HStatus 400, 0) /\
  serve (mkHreq false CtJson (Some 64) 64 true) = (HStatus 405, 0) /\
  serve (mkHreq true CtOther (Some 64) 64 true) = (HStatus 406, 0) /\
  serve (mkHreq true CtTtlv None 64 true) = (HStatus 411, 0) /\
  serve (mkHreq true CtTtlv (Some 1048577) 2000000 true) = (HStatus 400, 0).
Proof. repeat split; reflexivity. Qed.
