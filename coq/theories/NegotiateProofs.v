From Coq Require Import ZArith List Bool Lia Sorting.Sorted.
From KV Require Import Negotiate.
Import ListNotations.
Open Scope Z_scope.

Lemma ver_eqb_eq a b : ver_eqb a b = true <-> a = b.
Proof.
  destruct a as [a1 a2], b as [b1 b2]; unfold ver_eqb; cbn [fst snd].
  rewrite andb_true_iff, !Z.eqb_eq. split; [intros [-> ->]; reflexivity | intros H; inversion H; auto].
Qed.

Lemma vmem_In v l : vmem v l = true <-> In v l.
Proof.
  unfold vmem. rewrite existsb_exists. split.
  - intros [x [Hx He]]. apply ver_eqb_eq in He. subst; exact Hx.
  - intros H. exists v. split; [exact H | apply ver_eqb_eq; reflexivity].
Qed.

Lemma ver_cmp_spec a b : CompareSpec (a = b) (ver_ltb a b = true) (ver_ltb b a = true) (ver_cmp a b).
Proof.
  destruct a as [a1 a2], b as [b1 b2]. unfold ver_ltb, ver_cmp; cbn [fst snd].
  destruct (Z.compare_spec a1 b1) as [H|H|H].
  - subst. destruct (Z.compare_spec a2 b2) as [H2|H2|H2].
    + subst; constructor; reflexivity.
    + constructor. reflexivity.
    + constructor. rewrite Z.compare_refl. apply Z.compare_lt_iff in H2. rewrite H2. reflexivity.
  - constructor. reflexivity.
  - constructor. apply Z.compare_lt_iff in H. rewrite H. reflexivity.
Qed.

Definition ver_le (a b : ver) : Prop := ver_leb a b = true.

Lemma ver_leb_refl a : ver_leb a a = true.
Proof. unfold ver_leb. destruct (ver_cmp_spec a a) as [_|H|H]; try reflexivity.
  unfold ver_ltb in H. destruct (ver_cmp a a) eqn:E; try discriminate.
  destruct a as [a1 a2]; unfold ver_cmp in E; cbn [fst snd] in E. rewrite !Z.compare_refl in E. discriminate. Qed.

Lemma ver_ltb_lt a b : ver_ltb a b = true <-> (fst a < fst b \/ (fst a = fst b /\ snd a < snd b)).
Proof.
  destruct a as [a1 a2], b as [b1 b2]. unfold ver_ltb, ver_cmp; cbn [fst snd].
  destruct (Z.compare_spec a1 b1) as [H|H|H]; subst.
  - destruct (Z.compare_spec a2 b2) as [H2|H2|H2]; subst; split; intros; try discriminate; try lia; reflexivity.
  - split; intros; [lia | reflexivity].
  - split; intros; [discriminate | lia].
Qed.

Lemma ver_leb_le a b : ver_leb a b = true <-> (fst a < fst b \/ (fst a = fst b /\ snd a <= snd b)).
Proof.
  destruct a as [a1 a2], b as [b1 b2]. unfold ver_leb, ver_cmp; cbn [fst snd].
  destruct (Z.compare_spec a1 b1) as [H|H|H]; subst.
  - destruct (Z.compare_spec a2 b2) as [H2|H2|H2]; subst; split; intros; try discriminate; try lia; reflexivity.
  - split; intros; [lia | reflexivity].
  - split; intros; [discriminate | lia].
Qed.

(** [v] is the highest common version of [client] and [server]. *)
Definition highest_common (client server : list ver) (v : ver) : Prop :=
  In v client /\ In v server /\ forall w, In w client -> In w server -> ver_le w v.

Lemma highest_common_unique c s v w : highest_common c s v -> highest_common c s w -> v = w.
Proof.
  intros (Hv1 & Hv2 & Hv3) (Hw1 & Hw2 & Hw3).
  specialize (Hv3 w Hw1 Hw2). specialize (Hw3 v Hv1 Hv2).
  unfold ver_le in *. rewrite ver_leb_le in *.
  destruct v as [v1 v2], w as [w1 w2]; cbn [fst snd] in *. f_equal; lia.
Qed.

(** Invariant of the client loop. *)
Definition acc_ok (seen server : list ver) (acc : option ver) : Prop :=
  match acc with
  | None => forall w, In w seen -> ~ In w server
  | Some v => highest_common seen server v
  end.

Lemma pick_ok seen server acc v :
  acc_ok seen server acc -> acc_ok (seen ++ [v]) server (pick acc server v).
Proof.
  unfold pick. intros H. destruct (vmem v server) eqn:Hm.
  - apply vmem_In in Hm. destruct acc as [b|]; cbn [acc_ok] in *.
    + destruct H as (Hb1 & Hb2 & Hb3). destruct (ver_ltb b v) eqn:Hlt; cbn [acc_ok].
      * split; [apply in_or_app; right; left; reflexivity|]. split; [exact Hm|].
        intros w Hw Hws. apply in_app_or in Hw. destruct Hw as [Hw|[->|[]]].
        -- specialize (Hb3 w Hw Hws). unfold ver_le in *. rewrite ver_leb_le in *. rewrite ver_ltb_lt in Hlt. lia.
        -- apply ver_leb_refl.
      * split; [apply in_or_app; left; exact Hb1|]. split; [exact Hb2|].
        intros w Hw Hws. apply in_app_or in Hw. destruct Hw as [Hw|[->|[]]].
        -- apply Hb3; assumption.
        -- unfold ver_le. rewrite ver_leb_le.
           assert (Hn : ~ (fst b < fst w \/ fst b = fst w /\ snd b < snd w)).
           { intro Hc. apply ver_ltb_lt in Hc. congruence. }
           lia.
    + cbn [acc_ok]. split; [apply in_or_app; right; left; reflexivity|]. split; [exact Hm|].
      intros w Hw Hws. apply in_app_or in Hw. destruct Hw as [Hw|[->|[]]].
      * exfalso. exact (H w Hw Hws).
      * apply ver_leb_refl.
  - assert (Hn : ~ In v server) by (intro Hc; apply vmem_In in Hc; congruence).
    destruct acc as [b|]; cbn [acc_ok] in *.
    + destruct H as (Hb1 & Hb2 & Hb3). split; [apply in_or_app; left; exact Hb1|]. split; [exact Hb2|].
      intros w Hw Hws. apply in_app_or in Hw. destruct Hw as [Hw|[->|[]]]; [apply Hb3; assumption | contradiction].
    + intros w Hw. apply in_app_or in Hw. destruct Hw as [Hw|[->|[]]]; [apply H; exact Hw | exact Hn].
Qed.

Lemma fold_pick_ok server : forall rest seen acc,
  acc_ok seen server acc ->
  acc_ok (seen ++ rest) server (fold_left (fun a v => pick a server v) rest acc).
Proof.
  induction rest as [|v rest IH]; intros seen acc H; cbn [fold_left].
  - rewrite app_nil_r. exact H.
  - replace (seen ++ v :: rest) with ((seen ++ [v]) ++ rest) by (rewrite <- app_assoc; reflexivity).
    apply IH. apply pick_ok. exact H.
Qed.

Lemma best_ok client server : acc_ok client server (best client server).
Proof.
  unfold best. change client with ([] ++ client) at 1. apply fold_pick_ok. cbn. intros w [].
Qed.

Lemma best_some client server v : best client server = Some v <-> highest_common client server v.
Proof.
  pose proof (best_ok client server) as H. split.
  - intros E. rewrite E in H. exact H.
  - intros Hv. destruct (best client server) as [b|]; cbn [acc_ok] in H.
    + f_equal. eapply highest_common_unique; eassumption.
    + destruct Hv as (H1 & H2 & _). exfalso. exact (H v H1 H2).
Qed.

Lemma best_none client server : best client server = None <-> (forall w, In w client -> ~ In w server).
Proof.
  pose proof (best_ok client server) as H. split.
  - intros E. rewrite E in H. exact H.
  - intros Hn. destruct (best client server) as [b|]; cbn [acc_ok] in H; [|reflexivity].
    destruct H as (H1 & H2 & _). exfalso. exact (Hn b H1 H2).
Qed.

(** * Property theorems *)

Theorem adopt_highest client l v :
  negotiate None client (RVersions l) = Adopt v <-> highest_common client l v.
Proof.
  cbn [negotiate]. rewrite <- best_some. destruct (best client l) as [b|]; split; intros H; try discriminate.
  - inversion H; reflexivity.
  - inversion H; reflexivity.
Qed.

Theorem adopt_none client l :
  negotiate None client (RVersions l) = Fail <-> (forall w, In w client -> ~ In w l).
Proof.
  cbn [negotiate]. rewrite <- best_none. destruct (best client l) as [b|]; split; intros H; try discriminate; reflexivity.
Qed.

Theorem adopt_fallback client v :
  negotiate None client RNotSupported = Adopt v <-> (v = v1_0 /\ In v1_0 client).
Proof.
  cbn [negotiate]. destruct (vmem v1_0 client) eqn:E.
  - apply vmem_In in E. split; [intros H; inversion H; auto | intros [-> _]; reflexivity].
  - split; [discriminate | intros [_ H]; apply vmem_In in H; congruence].
Qed.

Theorem adopt_fallback_fail client :
  negotiate None client RNotSupported = Fail <-> ~ In v1_0 client.
Proof.
  cbn [negotiate]. destruct (vmem v1_0 client) eqn:E.
  - apply vmem_In in E. split; [discriminate | contradiction].
  - split; [intros _ H; apply vmem_In in H; congruence | reflexivity].
Qed.

Theorem adopt_member enforced client r v :
  negotiate enforced client r = Adopt v -> In v client \/ enforced = Some v.
Proof.
  destruct enforced as [e|]; cbn [negotiate].
  - intros H; inversion H; right; reflexivity.
  - destruct r; try discriminate.
    + destruct (vmem v1_0 client) eqn:E; [|discriminate]. intros H; inversion H; subst. left. apply vmem_In; exact E.
    + destruct (best client l) as [b|] eqn:E; [|discriminate]. intros H; inversion H; subst.
      apply best_some in E. left. apply E.
Qed.

Theorem adopt_enforced e client r : negotiate (Some e) client r = Adopt e.
Proof. reflexivity. Qed.

Theorem adopt_other_replies_fail client r :
  (r = RTransportErr \/ r = RBadCount \/ r = RFailed \/ r = RNoPayload \/ r = RForeignPayload) ->
  negotiate None client r = Fail.
Proof. intros [->|[->|[->|[->| ->]]]]; reflexivity. Qed.

(** Every later request, and every clone, carries the adopted version. *)
Theorem stamped enforced client r v n :
  negotiate enforced client r = Adopt v ->
  let c := {| c_version := v; c_supported := client |} in
  request_version c n = v /\ request_version (clone c) n = v.
Proof. intros _; split; reflexivity. Qed.

(** The adopted version does not depend on the order in which either side lists versions. *)
Theorem adopt_order_independent client client' l l' :
  (forall v, In v client <-> In v client') -> (forall v, In v l <-> In v l') ->
  negotiate None client (RVersions l) = negotiate None client' (RVersions l').
Proof.
  intros Hc Hl.
  assert (Hh : forall v, highest_common client l v <-> highest_common client' l' v).
  { intros v. unfold highest_common. rewrite Hc, Hl. split; intros (A & B & C).
    - split; [exact A|]. split; [exact B|]. intros w Hw1 Hw2. apply C; [apply Hc|apply Hl]; assumption.
    - split; [exact A|]. split; [exact B|]. intros w Hw1 Hw2. apply C; [apply Hc|apply Hl]; assumption. }
  destruct (negotiate None client' (RVersions l')) as [v|] eqn:E.
  - apply adopt_highest. apply Hh. apply adopt_highest. exact E.
  - apply adopt_none. intros w Hw1 Hw2. apply adopt_none with (w := w) in E; [|apply Hc; exact Hw1].
    apply E. apply Hl. exact Hw2.
Qed.

(** * Server side *)

Lemma handle_discover_spec server offered v :
  offered <> [] -> (In v (handle_discover server offered) <-> In v server /\ In v offered).
Proof.
  intros Hne. unfold handle_discover. destruct offered as [|o os]; [congruence|].
  rewrite filter_In, vmem_In. reflexivity.
Qed.

Definition desc_sorted (l : list ver) : Prop := StronglySorted (fun a b => ver_ltb b a = true) l.

Lemma filter_desc_sorted f l : desc_sorted l -> desc_sorted (filter f l).
Proof.
  unfold desc_sorted. induction 1 as [|a l Hs IH Hall]; cbn [filter]; [constructor|].
  destruct (f a); [|exact IH]. constructor; [exact IH|].
  rewrite Forall_forall in *. intros x Hx. apply filter_In in Hx. apply Hall. apply Hx.
Qed.

Theorem server_list_desc server offered :
  desc_sorted server -> desc_sorted (handle_discover server offered).
Proof. intros H. unfold handle_discover. destruct offered; [exact H | apply filter_desc_sorted; exact H]. Qed.

Lemma insert_desc_In v x l : In x (insert_desc v l) <-> x = v \/ In x l.
Proof.
  induction l as [|y ys IH]; cbn [insert_desc].
  - cbn. intuition.
  - destruct (ver_ltb v y); cbn [In]; [rewrite IH|]; intuition.
Qed.

Lemma sort_desc_In x l : In x (sort_desc l) <-> In x l.
Proof.
  unfold sort_desc. induction l as [|y ys IH]; cbn [fold_right]; [reflexivity|].
  rewrite insert_desc_In, IH. cbn. intuition.
Qed.

Definition desc_sorted_weak (l : list ver) : Prop := StronglySorted (fun a b => ver_leb b a = true) l.

Lemma ver_ltb_false_leb a b : ver_ltb a b = false -> ver_leb b a = true.
Proof.
  intros H. apply ver_leb_le.
  assert (Hn : ~ (fst a < fst b \/ fst a = fst b /\ snd a < snd b)) by (intro Hc; apply ver_ltb_lt in Hc; congruence).
  lia.
Qed.

Lemma ver_leb_trans a b c : ver_leb a b = true -> ver_leb b c = true -> ver_leb a c = true.
Proof. rewrite !ver_leb_le. lia. Qed.

Lemma insert_desc_sorted v l : desc_sorted_weak l -> desc_sorted_weak (insert_desc v l).
Proof.
  unfold desc_sorted_weak. induction 1 as [|a l Hs IH Hall]; cbn [insert_desc].
  - constructor; constructor.
  - destruct (ver_ltb v a) eqn:E.
    + constructor; [exact IH|]. rewrite Forall_forall in *. intros x Hx. apply insert_desc_In in Hx.
      destruct Hx as [->|Hx]; [|apply Hall; exact Hx].
      apply ver_leb_le. apply ver_ltb_lt in E. lia.
    + constructor; [constructor; assumption|]. constructor; [apply ver_ltb_false_leb; exact E|].
      rewrite Forall_forall in *. intros x Hx. eapply ver_leb_trans; [apply Hall; exact Hx|].
      apply ver_ltb_false_leb; exact E.
Qed.

Lemma sort_desc_sorted l : desc_sorted_weak (sort_desc l).
Proof. unfold sort_desc. induction l as [|x xs IH]; cbn [fold_right]; [constructor | apply insert_desc_sorted; exact IH]. Qed.

Lemma compact_In x l : In x (compact l) <-> In x l.
Proof.
  induction l as [|a l IH]; [reflexivity|]. cbn [compact]. destruct l as [|b l'].
  - reflexivity.
  - destruct (ver_eqb a b) eqn:E.
    + apply ver_eqb_eq in E. subst b. rewrite IH. cbn. intuition.
    + cbn [In]. rewrite IH. reflexivity.
Qed.

Lemma compact_hd_le a l x : desc_sorted_weak (a :: l) -> In x (compact (a :: l)) -> ver_leb x a = true.
Proof.
  intros Hs Hx. apply (proj1 (compact_In x (a :: l))) in Hx. unfold desc_sorted_weak in Hs. inversion Hs as [|? ? _ Hall]; subst.
  destruct Hx as [->|Hx]; [apply ver_leb_refl|]. rewrite Forall_forall in Hall. apply Hall; exact Hx.
Qed.

Lemma compact_sorted l : desc_sorted_weak l -> desc_sorted (compact l).
Proof.
  unfold desc_sorted, desc_sorted_weak. induction l as [|a l IH]; intros Hs; [constructor|].
  cbn [compact]. destruct l as [|b l'].
  - constructor; constructor.
  - inversion Hs as [|? ? Hs' Hall]; subst. specialize (IH Hs').
    destruct (ver_eqb a b) eqn:E; [exact IH|].
    constructor; [exact IH|]. rewrite Forall_forall. intros x Hx.
    assert (Hxa : ver_leb x b = true) by (eapply compact_hd_le; eassumption).
    assert (Hba : ver_leb b a = true) by (rewrite Forall_forall in Hall; apply Hall; left; reflexivity).
    assert (Hne : a <> b) by (intro Hc; apply ver_eqb_eq in Hc; congruence).
    apply ver_ltb_lt. rewrite ver_leb_le in *. destruct a, b, x; cbn [fst snd] in *.
    assert (~ (z = z1 /\ z0 = z2)) by (intros [-> ->]; apply Hne; reflexivity). lia.
Qed.

Theorem set_supported_sorted l : desc_sorted (set_supported l).
Proof.
  unfold set_supported. destruct l as [|x xs].
  - unfold default_versions, desc_sorted. repeat (constructor; [|repeat constructor]). constructor.
  - apply compact_sorted. apply sort_desc_sorted.
Qed.

Theorem set_supported_In l v : l <> [] -> (In v (set_supported l) <-> In v l).
Proof.
  intros H. unfold set_supported. destruct l as [|x xs]; [congruence|]. rewrite compact_In, sort_desc_In. reflexivity.
Qed.

(** Library client against library server: the adopted version is the highest common one. *)
Theorem lib_client_lib_server client server v :
  client <> [] -> server <> [] ->
  (negotiate None client (RVersions (handle_discover (set_supported server) client)) = Adopt v
   <-> highest_common client server v).
Proof.
  intros Hc Hs. rewrite adopt_highest. unfold highest_common.
  assert (E : forall w, In w (handle_discover (set_supported server) client) <-> In w server /\ In w client).
  { intros w. rewrite handle_discover_spec by exact Hc. rewrite set_supported_In by exact Hs. reflexivity. }
  split; intros (A & B & C).
  - apply E in B. destruct B as [B _]. repeat split; auto. intros w Hw1 Hw2. apply C; [exact Hw1 | apply E; auto].
  - repeat split; auto; [apply E; auto|]. intros w Hw1 Hw2. apply E in Hw2. apply C; tauto.
Qed.

(** Non-vacuity: a concrete configuration in which the highest common version is not the first listed. *)
Example negotiate_example :
  negotiate None [(1,2); (1,1); (1,0)] (RVersions [(1,0); (1,1); (1,4)]) = Adopt (1,1)
  /\ highest_common [(1,2); (1,1); (1,0)] [(1,0); (1,1); (1,4)] (1,1).
Proof. split; [reflexivity | apply adopt_highest; reflexivity]. Qed.
