(** How much fuel the typed encoder (SchemaSem.enc_ty) needs for a value, and which values it
    turns into writer calls the wire can carry: the two decidable hypotheses ON THE MESSAGE
    under which the whole-message round trip is stated on the executable marshal / unmarshal
    (Props/C01Exec.v).  Definitions only; proofs in EncFuelProofs.v.

    FUEL.  Every recursive call of the encoder runs on one unit less, siblings on the same
    amount; so what matters is the longest chain of calls: one step per pointer / interface /
    slice / structure level, one step per position in a slice or in a field list (element i
    of a list is encoded i+1 calls below the call that received the list).  [vdepth] bounds
    that chain from the value alone (no type needed): scalars, nil, generic trees 1;
    pointer / interface 1 + content; slice 1 + [ldepth]; structure 2 + [ldepth] (the second
    unit pays the hand-written encoders' own call), where
    [ldepth [x0; ...; xn-1] = max (n + 1) (max_i (i + 1 + vdepth xi))].

    RANGES.  [val_ranged S t v]: every integer lies in the range of the TTLV item its kind is
    written as (Integer / Bit mask: int32; Long Integer, Date-Time: int64; Enumeration,
    Interval: uint32, so never negative - the writer's only panic; Big Integer: any), every
    string holds bytes, every generic tree is [item_ok], and a value held in an interface
    field without a tag is written under a 24-bit tag.  [schema_rng_ok] is the static part:
    every tag of the schema fits 24 bits and the two batch-item encoders, which write three of
    their fields as Enumerations themselves, do so for fields declared as enumerations. *)
From Coq Require Import ZArith List Bool String.
From KV Require Import Base Wire Schema SchemaSem.
Import ListNotations.
Open Scope Z_scope.

(** ---- fuel *)
Fixpoint vdepth (v : value) : nat :=
  let ld := (fix ld (l : list value) : nat :=
               match l with
               | [] => 1%nat
               | x :: r => Datatypes.S (Nat.max (vdepth x) (ld r))
               end) in
  match v with
  | VInt _ | VBool _ | VStr _ | VEmptyBytes | VNil | VTree _ => 1%nat
  | VPtr w => Datatypes.S (vdepth w)
  | VIface _ w => Datatypes.S (vdepth w)
  | VList l => Datatypes.S (ld l)
  | VStruct _ fs => Datatypes.S (Datatypes.S (ld fs))
  end.

Fixpoint ldepth (l : list value) : nat :=
  match l with
  | [] => 1%nat
  | x :: r => Datatypes.S (Nat.max (vdepth x) (ldepth r))
  end.

(** the size hypothesis of the executable round trip: encoder chain, plus what the decoder
    spends (two units per item, every item at least 8 bytes), within the fixed fuel [fuel]:
    vdepth v + 2 * (bytes / 8) + 2 <= fuel, written without division *)
Definition fits (fuel : nat) (v : value) (nbytes : nat) : bool :=
  (4 * vdepth v + nbytes + 8 <=? 4 * fuel)%nat.

(** ---- ranges *)
Definition tag_ok (t : Z) : bool := (0 <=? t) && (t <? 2 ^ 24).

Definition kind_ranged (k : kind) (z : Z) : bool :=
  match k with
  | KInt8 | KInt16 | KInt32 | KUint8 | KUint16 | KMask _ => in_i32 z
  | KInt64 | KUint32 | KTime => in_i64 z
  | KDuration | KEnum _ => in_u32 z
  | KBigInt => true
  | KUint64 => true          (* the encoder has no case for it *)
  | KBool | KString | KBytes => true
  end.

Section Ranged.
  Variable S : schema.

  Fixpoint val_ranged (t : ty) (v : value) {struct v} : bool :=
    match v with
    | VInt z => match t with TScalar k => kind_ranged k z | _ => true end
    | VBool _ | VEmptyBytes | VNil => true
    | VStr s => bytes_ok s
    | VPtr w => match t with TPtr t' => val_ranged t' w | _ => true end
    | VList l =>
      let t' := match t with TSlice t' => t' | _ => t end in
      forallb (val_ranged t') l
    | VStruct _ fs =>
      match t with
      | TNamed n =>
        match find_tdef S n with
        | Some d =>
          (fix go (fl : list field) (vl : list value) {struct vl} : bool :=
             match vl, fl with
             | x :: vl', fd :: fl' =>
               (if f_tag fd =? 0 then match x with VIface dyn _ => tag_ok (deftag_of S dyn) | _ => true end else true) &&
               val_ranged (f_ty fd) x && go fl' vl'
             | _, _ => true
             end) (t_fields d) fs &&
          (* the opaque payload [VInt op; VList trees] has no declared field for its trees *)
          (if String.eqb (t_name d) "kmip.UnknownPayload" then forallb (val_ranged (TNamed "ttlv.Struct")) fs else true)
        | None => true
        end
      | _ => true
      end
    | VIface dyn w => val_ranged dyn w
    | VTree i => item_ok i
    end.

  (** the same, over a field list (the inner loop of [val_ranged] on a structure) *)
  Fixpoint fields_ranged (fl : list field) (vl : list value) {struct vl} : bool :=
    match vl, fl with
    | x :: vl', fd :: fl' =>
      (if f_tag fd =? 0 then match x with VIface dyn _ => tag_ok (deftag_of S dyn) | _ => true end else true) &&
      val_ranged (f_ty fd) x && fields_ranged fl' vl'
    | _, _ => true
    end.

  Definition struct_ranged (d : tdef) (fs : list value) : bool :=
    fields_ranged (t_fields d) fs &&
    (if String.eqb (t_name d) "kmip.UnknownPayload" then forallb (val_ranged (TNamed "ttlv.Struct")) fs else true).

  Definition is_enum_ty (t : ty) : bool := match t with TScalar (KEnum _) => true | _ => false end.

  Definition tdef_rng_ok (d : tdef) : bool :=
    tag_ok (t_deftag d) && forallb (fun fd => tag_ok (f_tag fd)) (t_fields d) &&
    (if String.eqb (t_name d) "kmip.RequestBatchItem"
     then (List.length (t_fields d) =? 4)%nat && is_enum_ty (fty d 0) else true) &&
    (if String.eqb (t_name d) "kmip.ResponseBatchItem"
     then (List.length (t_fields d) =? 8)%nat && is_enum_ty (fty d 0) && is_enum_ty (fty d 2) && is_enum_ty (fty d 3) else true).

  Definition schema_rng_ok : bool := forallb tdef_rng_ok S.
End Ranged.
