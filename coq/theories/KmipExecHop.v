(** C18, one hop on the EXECUTABLE marshal / unmarshal with computable hypotheses: the fuel the
    encoder needs, existential in KmipOneHop.kmip_message_one_hop, is [vdepth] of the value
    (EncFuelProofs.v); the decoder side needs no fuel hypothesis beyond the length of the
    re-encoding (DecFuelProofs.v + DecTermProofs.v). *)
From Coq Require Import ZArith List Bool String Lia PeanoNat.
From KV Require Import Base BaseProofs Wire WireProofs Cursor Schema SchemaSem FaithfulProofs Roundtrip
  DecConfDefs KmipCodec KmipOneHop DecTermProofs EncFuel EncFuelProofs EncRangeProofs KmipExec.
From KVGen Require Import KmipSchema.
Import ListNotations.
Open Scope Z_scope.

Theorem kmip_one_hop_exec root d bs v :
  (root = "kmip.RequestMessage" \/ root = "kmip.ResponseMessage")%string ->
  find_tdef kmip_schema root = Some d -> ty_ok kmip_schema (TNamed root) (t_deftag d) = true ->
  bytes_ok bs = true -> kmip_unmarshal root bs = Ok v ->
  (vdepth v <= FUEL)%nat ->
  exists e1 v1,
    kmip_marshal root v = Ok e1 /\
    (exists fc sc, conf_ty kmip_schema kmip_ops kmip_attrs kmip_objs fc None (TNamed root) (t_deftag d) v1 = Some sc) /\
    (len e1 <= 11775 -> kmip_unmarshal root e1 = Ok v1) /\
    ((vdepth v1 <= FUEL)%nat -> kmip_marshal root v1 = Ok e1).
Proof.
  intros Hroot Ed Hok Hb Hu Hd.
  destruct (kmip_message_one_hop root d bs v Ed Hok Hb Hu) as (items & v1 & fe & st' & Hg & Hio & Hnp & _ & _).
  set (g0 := Nat.max fe (Nat.max FUEL (vdepth v1))).
  destruct (Hg g0 ltac:(lia)) as (H1 & H3 & H4).
  assert (Hm : forall w, enc_ty kmip_schema g0 None (TNamed root) (t_deftag d) w = Ok (items, st') -> (vdepth w <= FUEL)%nat ->
                         kmip_marshal root w = Ok (wire_enc_list items)).
  { intros w Hw Hdw. unfold kmip_marshal, kmip_items. rewrite Ed.
    rewrite enc_ty_at_depth by exact Hdw. rewrite <- (enc_ty_at_depth kmip_schema g0) by lia. rewrite Hw.
    cbn [bind fst]. rewrite Hnp. reflexivity. }
  exists (wire_enc_list items), v1.
  split; [apply Hm; assumption|]. split; [exists g0, st'; exact H4|].
  split.
  - intros Hlen. eapply kmip_items_roundtrip_unless_fuel; [exact Ed | exact H3 | exact H4 | exact Hio | lia |].
    apply kmip_unmarshal_terminates_11k; [exact Hroot | apply items_bytes_ok, Hio | exact Hlen].
  - intros Hd1. apply Hm; assumption.
Qed.
