(** Finite syntax of middleware programs and the concrete instance of Chain.v used by the
    correspondence check (harness/cmd/drive/c19.go interprets the same syntax as real
    kmipclient.Middleware / kmipserver.Middleware / kmipserver.BatchItemMiddleware values).
    The theorems of ChainProofs.v are about arbitrary [prog]; this syntax only names the
    programs that the generated cases use.  No proofs in this file. *)
From Coq Require Import ZArith List Bool Arith Uint63.
From KV Require Import Base Chain.
Import ListNotations.
Open Scope Z_scope.

(** Observables.  A context is seen through the tags added with context.WithValue and,
    on the server, the request header stored by newBatchContext (its correlation id).
    A message / batch item is an id.  A response is (id, status): id of its payload, or
    -(1 + correlation id) when it carries none; status 0 = success, else the result reason.
    An error is a code. *)
Definition cctx : Type := (list Z * option Z)%type.
Definition cmsg : Type := Z.
Definition cresp : Type := (Z * Z)%type.
Definition cres : Type := gores cresp Z.
(** State: number of answers given by the innermost handler; positions entered so far. *)
Definition cstate : Type := (Z * list nat)%type.
Definition cprog : Type := prog cctx cmsg cres cstate.
Definition cstage : Type := stage cctx cmsg cres cstate.
Definition cevent : Type := event cctx cmsg cres.

Inductive mop := MKeep | MSet (id : Z).                 (* pass on the message received / another one *)
Inductive cop := CKeep | CTag (t : Z) | CFresh.         (* pass on the context received / a child with a tag / context.Background() *)
Inductive rrule :=
| RLast                                                 (* return what the last call returned *)
| RFirst                                                (* return what the first call returned *)
| RMk (resp : option Z) (err : option Z)                (* return this pair: a fresh response or nil, an error or nil *)
| RPanic.                                               (* panic *)

Record sprog := {
  sp_once : bool;                      (* short-circuit when this position was entered before in the request *)
  sp_until_ok : bool;                  (* stop calling after the first call that succeeded (retry) *)
  sp_calls : list (mop * cop);         (* the continuation calls, in order *)
  sp_ret : rrule;
  sp_own : Z                           (* id of the response returned when there is nothing to forward *)
}.

Definition apply_mop (o : mop) (m : cmsg) : cmsg := match o with MKeep => m | MSet id => id end.
Definition apply_cop (o : cop) (c : cctx) : cctx :=
  match o with
  | CKeep => c
  | CTag t => (fst c ++ [t], snd c)
  | CFresh => ([], None)
  end.

Definition is_ok (r : cres) : bool :=
  match r with
  | (Some (_, st), None) => st =? 0
  | _ => false
  end.

Definition own_result (sp : sprog) : cres := (Some (sp_own sp, 0), None).

Definition finish (sp : sprog) (first last : option cres) : cprog :=
  match sp_ret sp with
  | RLast => Ret (match last with Some r => r | None => own_result sp end)
  | RFirst => Ret (match first with Some r => r | None => own_result sp end)
  | RMk resp err => Ret (match resp with Some id => Some (id, 0) | None => None end, err)
  | RPanic => Crash
  end.

Fixpoint do_calls (sp : sprog) (c : cctx) (m : cmsg) (calls : list (mop * cop)) (first last : option cres) : cprog :=
  match calls with
  | [] => finish sp first last
  | (mo, co) :: rest =>
      Call (apply_cop co c) (apply_mop mo m)
           (fun r =>
              let first' := match first with None => Some r | Some _ => first end in
              if sp_until_ok sp && is_ok r then finish sp first' (Some r)
              else do_calls sp c m rest first' (Some r))
  end.

Definition compile (idx : nat) (sp : sprog) : cstage :=
  fun c m =>
    let body := do_calls sp c m (sp_calls sp) None None in
    if sp_once sp then
      Get (fun s => if existsb (Nat.eqb idx) (snd s) then Ret (own_result sp)
                    else Put (fst s, idx :: snd s) body)
    else body.

Fixpoint compile_all (i : nat) (l : list sprog) : list cstage :=
  match l with
  | [] => []
  | sp :: rest => compile i sp :: compile_all (S i) rest
  end.

(** The scripted innermost handlers. *)
Inductive kind := KClient | KServer | KItem.

(** Message ids >= 500 make the transport fail (client: the scripted server closes the
    connection) / make handleRequest reject the message (server: batch count mismatch) /
    make executeItem reject the item before any handler is looked up (batch item: it carries
    a critical message extension; reason 8 = Feature Not Supported). *)
Definition poison (m : Z) : bool := 500 <=? m.

Definition reason_of (e : Z) : Z := if e <? 100 then e else 256.   (* kmipserver.Error reason, else General Failure *)

Definition scripted (script : list (option Z)) (n : Z) : option Z :=
  match nth_error script (Z.to_nat n) with
  | Some (Some e) => Some e
  | _ => None
  end.

Definition ccore (k : kind) (script : list (option Z)) (c : cctx) (m : cmsg) (s : cstate) : res cres * cstate :=
  let '(n, ent) := s in
  match k with
  | KClient =>
      (* doRountrip against the scripted server: the n-th answer to message m *)
      if poison m then (Ok (None, Some 1), s)
      else (Ok (Some (n * 1000 + m, 0), None), (n + 1, ent))
  | KServer =>
      (* handleRequest: one batch item, handler scripted by the answer number *)
      if poison m then (Ok (None, Some 4), s)
      else match scripted script n with
           | Some e => (Ok (Some (- (1 + m), reason_of e), None), (n + 1, ent))
           | None => (Ok (Some (n * 1000 + m, 0), None), (n + 1, ent))
           end
  | KItem =>
      (* executeItem: handler scripted by the answer number; an error comes with the empty item *)
      if poison m then (Ok (Some (- (1 + m), 0), Some 8), s) else
      match scripted script n with
      | Some e => (Ok (Some (- (1 + m), 0), Some e), (n + 1, ent))
      | None => (Ok (Some (n * 1000 + m, 0), None), (n + 1, ent))
      end
  end.

(** newBatchContext: the header of the outer request becomes readable from the context. *)
Definition c_new_batch_ctx (c : cctx) (m : cmsg) : cctx := (fst c, Some m).
(** handleMessageError: payload-less response for the outer request. *)
Definition c_message_error (c : cctx) (m : cmsg) (e : Z) : cresp := (- (1 + m), reason_of e).
Definition c_item_for (m : cmsg) : cresp := (- (1 + m), 0).
Definition c_item_error (p : cresp) (e : Z) : cresp := (fst p, reason_of e).
Definition c_err_no_response : Z := 100.

Definition cstate0 : cstate := (0, []).

(** What the harness can see of a trace: the transport does not see the context, and a
    rejected (poisoned) message never reaches the scripted handler. *)
Definition obs_event (k : kind) (e : cevent) : list cevent :=
  match e with
  | EvCore c m =>
      match k with
      | KClient => if poison m then [] else [EvCore ([], None) m]
      | KServer => if poison m then [] else [e]
      | KItem => if poison m then [] else [e]
      end
  | _ => [e]
  end.
Definition obs_trace (k : kind) (t : list cevent) : list cevent := flat_map (obs_event k) t.

(** The three chains on the concrete instance.  [impl = true]: the code; [false]: the
    reference semantics. *)
Definition c_run_client (impl : bool) (chain : list sprog) (c : cctx) (m : cmsg) :=
  (if impl then run_impl_client else run_spec) (compile_all 0 chain) (ccore KClient []) c m cstate0.

Definition c_run_server (impl : bool) (chain : list sprog) (script : list (option Z)) (c : cctx) (m : cmsg) :=
  (if impl then run_impl_server else run_spec_server) c_new_batch_ctx c_message_error
    (compile_all 0 chain) (ccore KServer script) c m cstate0.

Definition c_run_items (impl : bool) (chain : list sprog) (script : list (option Z)) (c : cctx) (items : list cmsg) :=
  run_items ((if impl then run_impl_item else run_spec_item) c_item_for c_item_error c_err_no_response
               (compile_all 0 chain) (ccore KItem script))
            c items cstate0.

(** Nested: the server message chain whose innermost handler, handleRequest, runs the
    batch-item chain for the (single) batch item.  Batch-item positions are logged as
    100, 101, ... *)
Definition shift_ev (d : nat) (e : cevent) : cevent :=
  match e with
  | EvEnter i c m => EvEnter (d + i) c m
  | EvBack i r => EvBack (d + i) r
  | EvRet i r => EvRet (d + i) r
  | EvPanic i => EvPanic (d + i)
  | EvCore c m => EvCore c m
  end.

Definition nested_core (impl : bool) (ichain : list sprog) (script : list (option Z)) : kont cctx cmsg cres cstate :=
  fun c m s =>
    if poison m then (Ok (None, Some 4), s, [])
    else
      match (if impl then run_impl_item else run_spec_item) c_item_for c_item_error c_err_no_response
              (compile_all 100 ichain) (ccore KItem script) c m s with
      | (Ok p, s', t) => (Ok (Some p, None), s', map (shift_ev 100) t)
      | (Err, s', t) => (Err, s', map (shift_ev 100) t)
      | (Panic, s', t) => (Panic, s', map (shift_ev 100) t)
      | (OutOfFuel, s', t) => (OutOfFuel, s', map (shift_ev 100) t)
      end.

Definition c_run_nested (impl : bool) (mchain ichain : list sprog) (script : list (option Z)) (c : cctx) (m : cmsg) :=
  let c' := c_new_batch_ctx c m in
  let mws := compile_all 0 mchain in
  match (if impl then server_chain (S (length mws)) mws (nested_core impl ichain script) 0
         else spec_from 0 mws (nested_core impl ichain script)) c' m cstate0 with
  | (o, s', t) => (handle_request_result c_message_error c' m o, s', t)
  end.

(** The code before the fix: commits. *)
Definition c_cursor_client (chain : list sprog) (c : cctx) (m : cmsg) :=
  run_cursor true (compile_all 0 chain) (ccore KClient []) c m cstate0.
Definition c_cursor_server (chain : list sprog) (script : list (option Z)) (c : cctx) (m : cmsg) :=
  run_cursor_server c_new_batch_ctx c_message_error (compile_all 0 chain) (ccore KServer script) c m cstate0.
Definition c_cursor_items (chain : list sprog) (script : list (option Z)) (c : cctx) (items : list cmsg) :=
  run_items (run_cursor_item c_item_error (compile_all 0 chain) (ccore KItem script)) c items cstate0.

(** Boolean equalities for the comparison. *)
Definition oz_eqb (a b : option Z) : bool :=
  match a, b with Some x, Some y => x =? y | None, None => true | _, _ => false end.
Definition cresp_eqb (a b : cresp) : bool := (fst a =? fst b) && (snd a =? snd b).
Definition ocresp_eqb (a b : option cresp) : bool :=
  match a, b with Some x, Some y => cresp_eqb x y | None, None => true | _, _ => false end.
Definition cres_eqb (a b : cres) : bool := ocresp_eqb (fst a) (fst b) && oz_eqb (snd a) (snd b).
Fixpoint zl_eqb (a b : list Z) : bool :=
  match a, b with
  | [], [] => true
  | x :: xs, y :: ys => (x =? y) && zl_eqb xs ys
  | _, _ => false
  end.
Definition cctx_eqb (a b : cctx) : bool := zl_eqb (fst a) (fst b) && oz_eqb (snd a) (snd b).
Definition cevent_eqb (a b : cevent) : bool :=
  match a, b with
  | EvEnter i c m, EvEnter j d n => Nat.eqb i j && cctx_eqb c d && (m =? n)
  | EvBack i r, EvBack j q => Nat.eqb i j && cres_eqb r q
  | EvRet i r, EvRet j q => Nat.eqb i j && cres_eqb r q
  | EvPanic i, EvPanic j => Nat.eqb i j
  | EvCore c m, EvCore d n => cctx_eqb c d && (m =? n)
  | _, _ => false
  end.
Fixpoint trace_eqb (a b : list cevent) : bool :=
  match a, b with
  | [], [] => true
  | x :: xs, y :: ys => cevent_eqb x y && trace_eqb xs ys
  | _, _ => false
  end.
Definition res_eqb {A} (eqb : A -> A -> bool) (a b : res A) : bool :=
  match a, b with
  | Ok x, Ok y => eqb x y
  | Err, Err => true
  | Panic, Panic => true
  | OutOfFuel, OutOfFuel => true
  | _, _ => false
  end.
Fixpoint cresps_eqb (a b : list cresp) : bool :=
  match a, b with
  | [], [] => true
  | x :: xs, y :: ys => cresp_eqb x y && cresps_eqb xs ys
  | _, _ => false
  end.

(** Digest of a trace: its length and two polynomial hashes (mod 2^63, machine integers) of a flat
    integer encoding of the events; the harness computes the same digest of the observed
    trace.  Rows carry the digest always and the full trace for short traces and a sample. *)
Definition enc_oz (o : option Z) : list Z := match o with Some x => [1; x] | None => [0; 0] end.
Definition enc_ctx (c : cctx) : list Z := enc_oz (snd c) ++ len (fst c) :: fst c.
Definition enc_res (r : cres) : list Z :=
  match fst r with Some (id, st) => [1; id; st] | None => [0; 0; 0] end ++ enc_oz (snd r).
Definition enc_event (e : cevent) : list Z :=
  match e with
  | EvEnter i c m => 1 :: Z.of_nat i :: m :: enc_ctx c
  | EvBack i r => 2 :: Z.of_nat i :: enc_res r
  | EvRet i r => 3 :: Z.of_nat i :: enc_res r
  | EvPanic i => [4; Z.of_nat i]
  | EvCore c m => 5 :: m :: enc_ctx c
  end.
Definition hash_step (mult h : int) (x : Z) : int := (h * mult + Uint63.of_Z x + 7)%uint63.
Definition trace_hash (mult : int) (t : list cevent) : int :=
  fold_left (fun h e => fold_left (hash_step mult) (enc_event e) h) t 1%uint63.
Definition digest : Type := (Z * int * int)%type.
Definition trace_digest (t : list cevent) : digest :=
  (len t, trace_hash 1000003%uint63 t, trace_hash 998244353%uint63 t).
Definition digest_eqb (a b : digest) : bool :=
  match a, b with (l1, x1, y1), (l2, x2, y2) => (l1 =? l2) && Uint63.eqb x1 x2 && Uint63.eqb y1 y2 end.
Definition trace_ok (t : list cevent) (d : digest) (full : option (list cevent)) : bool :=
  digest_eqb (trace_digest t) d && match full with Some ot => trace_eqb t ot | None => true end.

(** One row of the cases file: the chain, the handler script, the initial context tags,
    the request(s), and what the implementation was observed to do:
    outcome, number of handler answers, trace digest, optionally the trace. *)
Definition row_client : Type := (list sprog * list Z * Z * (res cres * Z * digest * option (list cevent)))%type.
Definition row_server : Type := (list sprog * list (option Z) * list Z * Z * (res (option cresp) * Z * digest * option (list cevent)))%type.
Definition row_items : Type := (list sprog * list (option Z) * list Z * list Z * (res (list cresp) * Z * digest * option (list cevent)))%type.

Definition row_nested : Type := (list sprog * list sprog * list (option Z) * list Z * Z * (res (option cresp) * Z * digest * option (list cevent)))%type.

Definition row_nested_ok (mode : nat) (r : row_nested) : bool :=
  match r with
  | (mchain, ichain, script, tags, m, (oo, on, od, ot)) =>
      match c_run_nested (match mode with 1%nat => false | _ => true end) mchain ichain script (tags, None) m with
      | (o, (n, _), t) => res_eqb ocresp_eqb o oo && (n =? on) && trace_ok (obs_trace KItem t) od ot
      end
  end.

Definition row_client_ok (mode : nat) (r : row_client) : bool :=
  match r with
  | (chain, tags, m, (oo, on, od, ot)) =>
      match (match mode with O => c_run_client true chain | 1%nat => c_run_client false chain | _ => c_cursor_client chain end)
              (tags, None) m with
      | (o, (n, _), t) => res_eqb cres_eqb o oo && (n =? on) && trace_ok (obs_trace KClient t) od ot
      end
  end.

Definition row_server_ok (mode : nat) (r : row_server) : bool :=
  match r with
  | (chain, script, tags, m, (oo, on, od, ot)) =>
      match (match mode with O => c_run_server true chain | 1%nat => c_run_server false chain | _ => c_cursor_server chain end)
              script (tags, None) m with
      | (o, (n, _), t) => res_eqb ocresp_eqb o oo && (n =? on) && trace_ok (obs_trace KServer t) od ot
      end
  end.

Definition row_items_ok (mode : nat) (r : row_items) : bool :=
  match r with
  | (chain, script, tags, items, (oo, on, od, ot)) =>
      match (match mode with O => c_run_items true chain | 1%nat => c_run_items false chain | _ => c_cursor_items chain end)
              script (tags, Some 0) items with
      | (o, (n, _), t) => res_eqb cresps_eqb o oo && (n =? on) && trace_ok (obs_trace KItem t) od ot
      end
  end.
