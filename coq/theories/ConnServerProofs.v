(** Proofs about the connection model ConnServer.v (property C08, and the per-connection
    part of C16).

    Structure:
      1. generic lemmas on transition systems that Lts.v does not have (sub-relation ranking,
         soundness of the exploration, lifting along a projection);
      2. injectivity of the state encoding;
      3. the control certificates: closure of the explored set, no panic, ranking of the
         internal steps, classification of the states without internal successor;
      4. the abstraction of control states used by the ghost layer, checked on every transition;
      5. the ghost invariant (one response per request, in order) by induction on executions;
      6. refutation lemmas for the pinned tree's code. *)
From Coq Require Import List Bool PArith ZArith Lia Arith FMapPositive.
From KV Require Import Lts ConnServer.
Import ListNotations.

(** * 1. Generic lemmas *)
Section Generic.
  Variable S : Type.
  Variable step : S -> list S.
  Variable enc : S -> positive.
  Hypothesis enc_inj : forall a b, enc a = enc b -> a = b.

  Lemma closed_step states s t :
    Lts.closed step enc states = true -> In s states -> In t (step s) -> In t states.
  Proof.
    intros Hc Hs Ht. unfold Lts.closed in Hc. rewrite forallb_forall in Hc.
    specialize (Hc s Hs). rewrite forallb_forall in Hc.
    apply (inset_In S enc enc_inj). apply Hc. exact Ht.
  Qed.

  (** membership test by encoding *)
  Definition mem_states (states : list S) (s : S) : bool := existsb (fun t => Pos.eqb (enc t) (enc s)) states.
  Lemma mem_states_In states s : mem_states states s = true -> In s states.
  Proof.
    unfold mem_states. rewrite existsb_exists. intros [t [Ht He]].
    apply Pos.eqb_eq in He. apply enc_inj in He. subst. exact Ht.
  Qed.

  (** a second relation [sub] contained in [step] (the internal steps), ranked on a closed set *)
  Variable sub : S -> list S.
  Hypothesis sub_incl : forall s t, In t (sub s) -> In t (step s).

  Definition decreasing_on (rank : S -> nat) (states : list S) : bool :=
    forallb (fun s => forallb (fun t => Nat.ltb (rank t) (rank s)) (sub s)) states.

  Theorem ranked_sub states rank :
    Lts.closed step enc states = true -> decreasing_on rank states = true ->
    forall s, In s states -> forall p, path sub s p -> length p <= rank s.
  Proof.
    intros Hc Hd s Hs p Hp. revert Hs. induction Hp as [s|s t p Ht Hp IH]; intros Hs; cbn [length]; [lia|].
    unfold decreasing_on in Hd. rewrite forallb_forall in Hd. pose proof (Hd s Hs) as Hds.
    rewrite forallb_forall in Hds. specialize (Hds t Ht). apply Nat.ltb_lt in Hds.
    assert (Hin : In t states) by (eapply closed_step; eauto).
    specialize (IH Hin). lia.
  Qed.

  (** states reached along [sub] stay in a set closed under [step] *)
  Lemma reachable_sub_in states :
    Lts.closed step enc states = true ->
    forall s t, In s states -> reachable sub s t -> In t states.
  Proof.
    intros Hc s t Hs Hr. induction Hr as [|u v Hr IH Hv]; [exact Hs|].
    eapply closed_step; eauto.
  Qed.

  (** everything the (untrusted) exploration returns is reachable *)
  Lemma explore_sound init : forall fuel frontier seen acc,
    (forall s, In s frontier -> reachable step init s) ->
    (forall s, In s acc -> reachable step init s) ->
    forall s, In s (fst (explore S step enc fuel frontier seen acc)) -> reachable step init s.
  Proof.
    induction fuel as [|fuel IH]; intros frontier seen acc Hf Ha s Hs; cbn [explore] in Hs.
    - cbn [fst] in Hs. apply Ha. exact Hs.
    - destruct frontier as [|f0 fr].
      + cbn [fst] in Hs. apply Ha. exact Hs.
      + set (inner := fun (st : list S * PS.t * list S) (u : S) =>
               fold_left (fun '(nx, sn, ac) t =>
                 if PS.mem (enc t) sn then (nx, sn, ac) else (t :: nx, PS.add (enc t) sn, t :: ac)) (step u) st) in *.
        assert (Hinner : forall succ st,
                   (forall t, In t succ -> reachable step init t) ->
                   (forall t, In t (fst (fst st)) -> reachable step init t) ->
                   (forall t, In t (snd st) -> reachable step init t) ->
                   let r := fold_left (fun '(nx, sn, ac) t =>
                              if PS.mem (enc t) sn then (nx, sn, ac) else (t :: nx, PS.add (enc t) sn, t :: ac)) succ st in
                   (forall t, In t (fst (fst r)) -> reachable step init t) /\
                   (forall t, In t (snd r) -> reachable step init t)).
        { induction succ as [|t0 succ IHs]; intros st Hsucc H1 H2; cbn [fold_left].
          - split; assumption.
          - destruct st as [[nx sn] ac]. destruct (PS.mem (enc t0) sn).
            + apply IHs; [intros; apply Hsucc; right; assumption | exact H1 | exact H2].
            + apply IHs; [intros; apply Hsucc; right; assumption | |]; cbn [fst snd].
              * intros t [<-|Ht]; [apply Hsucc; left; reflexivity | apply H1; exact Ht].
              * intros t [<-|Ht]; [apply Hsucc; left; reflexivity | apply H2; exact Ht]. }
        assert (Houter : forall fr' st,
                   (forall u, In u fr' -> reachable step init u) ->
                   (forall t, In t (fst (fst st)) -> reachable step init t) ->
                   (forall t, In t (snd st) -> reachable step init t) ->
                   let r := fold_left (fun '(nx, sn, ac) u =>
                              fold_left (fun '(nx, sn, ac) t =>
                                if PS.mem (enc t) sn then (nx, sn, ac) else (t :: nx, PS.add (enc t) sn, t :: ac)) (step u) (nx, sn, ac)) fr' st in
                   (forall t, In t (fst (fst r)) -> reachable step init t) /\
                   (forall t, In t (snd r) -> reachable step init t)).
        { induction fr' as [|u fr' IHf]; intros st Hfr H1 H2; cbn [fold_left].
          - split; assumption.
          - destruct st as [[nx sn] ac].
            destruct (Hinner (step u) (nx, sn, ac)) as [G1 G2].
            + intros t Ht. eapply reach_step; [apply Hfr; left; reflexivity | exact Ht].
            + exact H1.
            + exact H2.
            + apply IHf; [intros; apply Hfr; right; assumption | exact G1 | exact G2]. }
        destruct (Houter (f0 :: fr) ([], seen, acc) Hf) as [G1 G2].
        { cbn. intros t []. }
        { exact Ha. }
        revert Hs G1 G2.
        destruct (fold_left _ (f0 :: fr) ([], seen, acc)) as [[next seen'] acc'] eqn:E.
        cbn [fst snd]. intros Hs G1 G2. eapply IH; [exact G1 | exact G2 | exact Hs].
  Qed.

  Lemma reach_set_sound fuel init s :
    In s (fst (reach_set step enc fuel init)) -> reachable step init s.
  Proof.
    unfold reach_set. apply explore_sound.
    - intros t [<-|[]]. apply reach_init.
    - intros t [<-|[]]. apply reach_init.
  Qed.

  Lemma reachable_trans a b c : reachable step a b -> reachable step b c -> reachable step a c.
  Proof. intros Hab Hbc. induction Hbc; [exact Hab | eapply reach_step; eauto]. Qed.
End Generic.

Arguments mem_states {S}.
Arguments decreasing_on {S}.

(** * 2. The encoding of control states is injective *)
Lemma ppair_inj : forall a b c d, ppair a b = ppair c d -> a = c /\ b = d.
Proof.
  induction a as [a IH|a IH|]; intros b c d H; destruct c as [c|c|]; cbn [ppair] in H; try discriminate.
  - injection H as H. apply IH in H. destruct H; subst; auto.
  - injection H as H. apply IH in H. destruct H; subst; auto.
  - injection H as H. subst; auto.
Qed.

Ltac enum_inj :=
  let a := fresh in let b := fresh in let H := fresh in
  intros a b; destruct a, b; cbn; intros H; try reflexivity; try discriminate;
  repeat match goal with
         | k : hcont |- _ => destruct k
         | t : tstage |- _ => destruct t
         | t : bool |- _ => destruct t
         end; cbn in H; try reflexivity; try discriminate.
Lemma enc_bool_inj : forall a b, enc_bool a = enc_bool b -> a = b. Proof. enum_inj. Qed.
Lemma enc_chanv_inj : forall a b, enc_chanv a = enc_chanv b -> a = b. Proof. enum_inj. Qed.
Lemma enc_peer_inj : forall a b, enc_peer a = enc_peer b -> a = b. Proof. enum_inj. Qed.
Lemma enc_errch_inj : forall a b, enc_errch a = enc_errch b -> a = b. Proof. enum_inj. Qed.
Lemma enc_rpc_inj : forall a b, enc_rpc a = enc_rpc b -> a = b. Proof. enum_inj. Qed.
Lemma enc_wpc_inj : forall a b, enc_wpc a = enc_wpc b -> a = b. Proof. enum_inj. Qed.
Lemma enc_hpc_inj : forall a b, enc_hpc a = enc_hpc b -> a = b. Proof. enum_inj. Qed.

Lemma enc_cstate_inj : forall a b, enc_cstate a = enc_cstate b -> a = b.
Proof.
  intros a b H. unfold enc_cstate in H.
  repeat match type of H with
         | ppair _ _ = ppair _ _ => apply ppair_inj in H; let H1 := fresh "E" in destruct H as [H1 H]
         end.
  apply enc_rpc_inj in E. apply enc_wpc_inj in E0. apply enc_hpc_inj in E1.
  apply enc_bool_inj in E2. apply enc_bool_inj in E3. apply enc_bool_inj in E4. apply enc_bool_inj in E5.
  apply enc_chanv_inj in E6. apply enc_bool_inj in E7. apply enc_bool_inj in E8.
  apply enc_chanv_inj in E9. apply enc_chanv_inj in E10. apply enc_errch_inj in E11.
  apply enc_bool_inj in E12. apply enc_bool_inj in E13. apply enc_peer_inj in E14.
  apply enc_bool_inj in E15. apply enc_bool_inj in H.
  destruct a, b; cbn in *; subst; reflexivity.
Qed.

(** * 3. Control certificates for the repository's code *)

(** (untrusted) longest-path computation used as ranking function *)
Module PM := PositiveMap.
Section Rank.
  Variable S : Type.
  Variable sub : S -> list S.
  Variable enc : S -> positive.
  Fixpoint dfs (fuel : nat) (s : S) (memo : PM.t nat) : PM.t nat * nat :=
    match PM.find (enc s) memo with
    | Some r => (memo, r)
    | None =>
      match fuel with
      | O => (memo, O)
      | Datatypes.S f =>
        let '(memo', m) :=
          fold_left (fun '(mm, mx) t => let '(mm', r) := dfs f t mm in (mm', Nat.max mx (Datatypes.S r))) (sub s) (memo, O) in
        (PM.add (enc s) m memo', m)
      end
    end.
  Definition rank_table (fuel : nat) (states : list S) : PM.t nat :=
    fold_left (fun mm s => fst (dfs fuel s mm)) states (PM.empty nat).
  Definition rank_of (tbl : PM.t nat) (s : S) : nat :=
    match PM.find (enc s) tbl with Some r => r | None => O end.
End Rank.
Arguments rank_table {S}.
Arguments rank_of {S}.

Definition Rset : list cstate := fst (reach_set (cstep cfg_repo) enc_cstate 400 (cinit true)).
Definition itable : PM.t nat := rank_table (istep cfg_repo) enc_cstate 4000 Rset.
Definition irank : cstate -> nat := rank_of enc_cstate itable.

(** the whole certificate as one boolean, so that the exploration runs once *)
Definition safe_state (s : cstate) : bool := negb (panicked s).
Definition iterminal_ok (s : cstate) : bool :=
  match istep cfg_repo s with [] => all_done s || idle s || write_blocked s | _ => true end.
Definition terminal_ok (s : cstate) : bool :=
  match cstep cfg_repo s with [] => all_done s | _ => true end.
Definition over_stable (s : cstate) : bool :=
  negb (conn_over s) || (forallb conn_over (cstep cfg_repo s) && negb (idle s) && negb (write_blocked s)).

Definition control_cert : bool :=
  mem_states enc_cstate Rset (cinit true)
  && Lts.closed (cstep cfg_repo) enc_cstate Rset
  && forallb safe_state Rset
  && forallb terminal_ok Rset
  && forallb iterminal_ok Rset
  && forallb over_stable Rset
  && decreasing_on (istep cfg_repo) irank Rset.

Lemma control_cert_ok : control_cert = true.
Proof. vm_compute. reflexivity. Qed.

Global Opaque Rset itable.

Lemma and7 (a b c d e f g : bool) :
  a && b && c && d && e && f && g = true ->
  a = true /\ b = true /\ c = true /\ d = true /\ e = true /\ f = true /\ g = true.
Proof. destruct a, b, c, d, e, f, g; cbn; intros H; try discriminate; repeat split. Qed.

Lemma cert_parts :
  In (cinit true) Rset
  /\ Lts.closed (cstep cfg_repo) enc_cstate Rset = true
  /\ forallb safe_state Rset = true
  /\ forallb terminal_ok Rset = true
  /\ forallb iterminal_ok Rset = true
  /\ forallb over_stable Rset = true
  /\ decreasing_on (istep cfg_repo) irank Rset = true.
Proof.
  destruct (and7 _ _ _ _ _ _ _ control_cert_ok) as [H1 [H2 [H3 [H4 [H5 [H6 H7]]]]]].
  split; [exact (mem_states_In _ enc_cstate enc_cstate_inj _ _ H1)|].
  split; [exact H2|]. split; [exact H3|]. split; [exact H4|]. split; [exact H5|]. split; [exact H6|exact H7].
Qed.

Lemma istep_incl C s t : In t (istep C s) -> In t (cstep C s).
Proof.
  unfold istep, cstep, istep_lbl. intros H. apply in_map_iff in H. destruct H as [x [<- Hx]].
  apply filter_In in Hx. destruct Hx as [Hx _]. apply in_map. exact Hx.
Qed.

(** a plain (non-TLS) connection starts in a state that a TLS connection reaches after its handshake *)
Lemma cinit_false_reachable : reachable (cstep cfg_repo) (cinit true) (cinit false).
Proof.
  eapply reach_step; [apply reach_init|]. vm_compute. left. reflexivity.
Qed.

Lemma reachable_in_Rset tls s : reachable (cstep cfg_repo) (cinit tls) s -> In s Rset.
Proof.
  intros H. destruct cert_parts as [Hi [Hc _]].
  apply (closed_sound (cstep cfg_repo) enc_cstate enc_cstate_inj (cinit true) Rset Hi Hc).
  destruct tls; [exact H|].
  eapply reachable_trans; [apply cinit_false_reachable | exact H].
Qed.

(** C08 (control): no reachable state has panicked - no send on a closed channel, no close of a
    closed channel, in any number of steps, for any behaviour of the peer, the handlers, the
    hooks, Shutdown and the root context. *)
Theorem conn_no_panic : forall tls s, reachable (cstep cfg_repo) (cinit tls) s -> panicked s = false.
Proof.
  intros tls s H. apply reachable_in_Rset in H.
  destruct cert_parts as [_ [_ [Hs _]]]. rewrite forallb_forall in Hs.
  specialize (Hs s H). unfold safe_state in Hs. destruct (panicked s); [discriminate|reflexivity].
Qed.

(** no deadlock: a reachable state in which nothing at all can happen (not even a move of the
    peer or of Shutdown) has all three goroutines finished *)
Theorem conn_no_deadlock : forall tls s,
  reachable (cstep cfg_repo) (cinit tls) s -> cstep cfg_repo s = [] -> all_done s = true.
Proof.
  intros tls s H Hn. apply reachable_in_Rset in H.
  destruct cert_parts as [_ [_ [_ [Ht _]]]]. rewrite forallb_forall in Ht.
  specialize (Ht s H). unfold terminal_ok in Ht. rewrite Hn in Ht. exact Ht.
Qed.

(** progress: from any reachable state, internal steps alone (no new message, no move of the
    peer, of Shutdown or of the root context) can go on for at most [irank s] steps, whatever
    the schedule ... *)
Theorem conn_internal_terminates : forall tls s,
  reachable (cstep cfg_repo) (cinit tls) s ->
  forall p, path (istep cfg_repo) s p -> length p <= irank s.
Proof.
  intros tls s H p Hp. apply reachable_in_Rset in H.
  destruct cert_parts as [_ [Hc [_ [_ [_ [_ Hd]]]]]].
  exact (ranked_sub cstate (cstep cfg_repo) enc_cstate enc_cstate_inj (istep cfg_repo) (istep_incl cfg_repo)
           Rset irank Hc Hd s H p Hp).
Qed.

(** ... and where they stop, either everything has ended, or the connection is idle waiting
    for the peer's next message, or writeloop waits for the peer to read *)
Theorem conn_internal_quiescent : forall tls s,
  reachable (cstep cfg_repo) (cinit tls) s -> istep cfg_repo s = [] ->
  all_done s = true \/ idle s = true \/ write_blocked s = true.
Proof.
  intros tls s H Hn. apply reachable_in_Rset in H.
  destruct cert_parts as [_ [_ [_ [_ [Ht _]]]]]. rewrite forallb_forall in Ht.
  specialize (Ht s H). unfold iterminal_ok in Ht. rewrite Hn in Ht.
  apply orb_true_iff in Ht. destruct Ht as [Ht|Ht]; [|right; right; exact Ht].
  apply orb_true_iff in Ht. destruct Ht; [left|right; left]; assumption.
Qed.

(** no leak: once the connection is over (peer gone or half-closed, or socket closed by the
    server) every execution of internal steps is finite (previous theorem) and can only stop in
    a state where readloop, writeloop and handleConn have all returned *)
Theorem conn_no_leak : forall tls s,
  reachable (cstep cfg_repo) (cinit tls) s -> conn_over s = true ->
  forall t, reachable (istep cfg_repo) s t -> istep cfg_repo t = [] -> all_done t = true.
Proof.
  intros tls s H Ho t Ht Hn. apply reachable_in_Rset in H.
  destruct cert_parts as [_ [Hc [_ [_ [Hq [Hst _]]]]]].
  rewrite forallb_forall in Hst, Hq.
  assert (Hinv : In t Rset /\ conn_over t = true).
  { clear Hn. induction Ht as [|u v Hu IH Hv]; [split; assumption|].
    destruct IH as [Hin Hov].
    apply istep_incl in Hv. split.
    - exact (closed_step cstate (cstep cfg_repo) enc_cstate enc_cstate_inj Rset u v Hc Hin Hv).
    - specialize (Hst u Hin). unfold over_stable in Hst. rewrite Hov in Hst. cbn [negb orb] in Hst.
      apply andb_true_iff in Hst. destruct Hst as [Hst _]. apply andb_true_iff in Hst. destruct Hst as [Hst _].
      rewrite forallb_forall in Hst. apply Hst. exact Hv. }
  destruct Hinv as [Hin Hov].
  specialize (Hq t Hin). unfold iterminal_ok in Hq. rewrite Hn in Hq.
  specialize (Hst t Hin). unfold over_stable in Hst. rewrite Hov in Hst. cbn [negb orb] in Hst.
  apply andb_true_iff in Hst. destruct Hst as [Hst Hw]. apply andb_true_iff in Hst. destruct Hst as [_ Hi].
  apply negb_true_iff in Hi. apply negb_true_iff in Hw. rewrite Hi, Hw in Hq.
  rewrite !orb_false_r in Hq. exact Hq.
Qed.

(** non-vacuity: the idle state (all three goroutines waiting for the peer) and the fully
    terminated state are reachable, and so is a state in which a handler runs *)
Lemma reachable_by_exploration C init fuel s :
  mem_states enc_cstate (fst (reach_set (cstep C) enc_cstate fuel init)) s = true ->
  reachable (cstep C) init s.
Proof.
  intros H. apply (mem_states_In _ enc_cstate enc_cstate_inj) in H.
  exact (reach_set_sound cstate (cstep C) enc_cstate fuel init s H).
Qed.

(** * 4. The abstraction is respected by every transition of every reachable control state *)
Definition trans_cert : bool :=
  forallb (fun s => forallb (fun lc : label * cstate => trans_ok (fst lc) (abs s) (abs (snd lc))) (cstep_lbl cfg_repo s)) Rset.
Lemma trans_cert_ok : trans_cert = true.
Proof. vm_compute. reflexivity. Qed.

Lemma trans_ok_reachable tls c l c' :
  reachable (cstep cfg_repo) (cinit tls) c -> In (l, c') (cstep_lbl cfg_repo c) ->
  trans_ok l (abs c) (abs c') = true.
Proof.
  intros H Hin. apply reachable_in_Rset in H.
  pose proof trans_cert_ok as Hc. unfold trans_cert in Hc. rewrite forallb_forall in Hc.
  specialize (Hc c H). rewrite forallb_forall in Hc. exact (Hc (l, c') Hin).
Qed.

(** the ghost-augmented system projects onto the control skeleton *)
Lemma gstep_control C A x y : In y (gstep C A x) -> In (fst y) (cstep C (fst x)).
Proof.
  unfold gstep, cstep. intros H. apply in_flat_map in H. destruct H as [[l c'] [Hin Hy]].
  apply in_map_iff. exists (l, c'). split; [|exact Hin].
  destruct (is_recv l).
  - apply in_map_iff in Hy. destruct Hy as [m [<- _]]. reflexivity.
  - destruct Hy as [<-|[]]. reflexivity.
Qed.

Lemma greachable_control C A x0 x :
  reachable (gstep C A) x0 x -> reachable (cstep C) (fst x0) (fst x).
Proof.
  intros H. induction H as [|x y Hx IH Hy]; [apply reach_init|].
  eapply reach_step; [exact IH|]. eapply gstep_control; eauto.
Qed.

(** a ghost step is a labelled control step plus the ghost update for that label *)
Lemma gstep_inv C A x y :
  In y (gstep C A x) ->
  exists l c' m, In (l, c') (cstep_lbl C (fst x)) /\ y = (c', gupd l m (snd x)) /\
                 (is_recv l = true -> msg_fits l m = true).
Proof.
  unfold gstep. intros H. apply in_flat_map in H. destruct H as [[l c'] [Hin Hy]].
  destruct (is_recv l) eqn:Er.
  - apply in_map_iff in Hy. destruct Hy as [m [<- Hm]]. apply filter_In in Hm. destruct Hm as [_ Hm].
    exists l, c', m. repeat split; auto.
  - destruct Hy as [<-|[]]. exists l, c', MResp. repeat split; auto. intros E. rewrite Er in E. discriminate E.
Qed.

(** * 5. Ghost invariant *)
Definition olen {A} (o : option A) : nat := match o with Some _ => 1 | None => 0 end.

Record Inv (a : absst) (g : ghost) : Prop := {
  i_r : match a_rfull a, rslot g with
        | Some e, Some x => is_bad (snd x) = e
        | None, None => True
        | _, _ => False
        end;
  i_h : match a_hst a with
        | HNone => hslot g = None /\ hresp g = None
        | HMsg => hslot g <> None /\ hresp g = None
        | HResp => hslot g = None /\ hresp g <> None
        end;
  i_w : (wslot g = None <-> a_wfull a = false);
  i_next : nextid g = Z.of_nat (length (reads g));
  i_writes : writes g = map resp_entry (firstn (length (writes g)) (reads g));
  i_le1 : length (writes g) + olen (wslot g) <= enq g;
  i_le2 : enq g + (olen (hslot g) + olen (hresp g)) <= handed g;
  i_le3 : handed g + olen (rslot g) <= length (reads g);
  i_rpos : a_rdead a = false ->
           length (reads g) = handed g + olen (rslot g) /\
           forall x, rslot g = Some x -> nth_error (reads g) (handed g) = Some x;
  i_hpos : forall x, hslot g = Some x -> nth_error (reads g) (handed g - 1) = Some x;
  i_hrpos : forall y, hresp g = Some y -> exists x, nth_error (reads g) (handed g - 1) = Some x /\ y = resp_entry x;
  i_hcnt : a_hexit a = false -> enq g + (olen (hslot g) + olen (hresp g)) = handed g;
  i_wpos : forall y, wslot g = Some y -> exists x, nth_error (reads g) (enq g - 1) = Some x /\ y = resp_entry x;
  i_wcnt : a_wdead a = false -> length (writes g) + olen (wslot g) = enq g;
  i_bad : forall i x, nth_error (reads g) i = Some x -> is_bad (snd x) = true -> i < handed g ->
          a_herr a = true /\ S i = handed g;
  i_ids : forall i x, nth_error (reads g) i = Some x -> fst x = Z.of_nat i
}.

Lemma inv_init tls : Inv (abs (cinit tls)) ginit.
Proof.
  destruct tls; constructor; cbn; auto; try lia; try (intros; discriminate).
  all: try (split; [reflexivity | intros; discriminate]).
  all: try (intros i x H; destruct i; discriminate H).
  all: try (split; auto).
Qed.

(** decomposition of the boolean transition check *)
Ltac split_andb H :=
  repeat match type of H with
         | _ && _ = true => let H' := fresh "T" in apply andb_true_iff in H; destruct H as [H H']
         end.
Ltac break_trans H :=
  unfold trans_ok, mono, same_r, same_h, same_w in H;
  repeat match goal with
         | T : _ && _ = true |- _ => let T' := fresh "T" in apply andb_true_iff in T; destruct T as [T T']
         end.

Lemma implb_false a b : implb a b = true -> b = false -> a = false.
Proof. destruct a, b; cbn; congruence. Qed.

(** labels that leave every slot alone *)
Lemma inv_frame a a' g g' :
  mono a a' = true -> same_r a a' = true -> same_h a a' = true -> same_w a a' = true ->
  nextid g' = nextid g -> reads g' = reads g -> rslot g' = rslot g -> hslot g' = hslot g ->
  hresp g' = hresp g -> wslot g' = wslot g -> writes g' = writes g -> handed g' = handed g -> enq g' = enq g ->
  Inv a g -> Inv a' g'.
Proof.
  intros Hm Hr Hh Hw E1 E2 E3 E4 E5 E6 E7 E8 E9 [].
  unfold mono in Hm. apply andb_true_iff in Hm. destruct Hm as [Hm M3]. apply andb_true_iff in Hm. destruct Hm as [M1 M2].
  unfold same_r in Hr. unfold same_h in Hh. apply andb_true_iff in Hh. destruct Hh as [Hh1 Hh2].
  unfold same_w in Hw. apply eqb_prop in Hw. apply eqb_prop in Hh2.
  assert (Er : a_rfull a' = a_rfull a).
  { destruct (a_rfull a) as [[]|], (a_rfull a') as [[]|]; cbn in Hr; try discriminate Hr; reflexivity. }
  assert (Eh : a_hst a' = a_hst a).
  { destruct (a_hst a), (a_hst a'); cbn in Hh1; try discriminate Hh1; reflexivity. }
  constructor; rewrite ?E1, ?E2, ?E3, ?E4, ?E5, ?E6, ?E7, ?E8, ?E9, ?Er, ?Eh, <- ?Hw, <- ?Hh2; auto.
  - intros D. apply i_rpos0. eapply implb_false; eauto.
  - intros D. apply i_hcnt0. eapply implb_false; eauto.
  - intros D. apply i_wcnt0. eapply implb_false; eauto.
Qed.

Lemma nth_error_app_l {A} (l l' : list A) i x : nth_error l i = Some x -> nth_error (l ++ l') i = Some x.
Proof. intros H. rewrite nth_error_app1; [exact H|]. apply nth_error_Some. rewrite H. discriminate. Qed.

Lemma firstn_app_le {A} (l l' : list A) n : n <= length l -> firstn n (l ++ l') = firstn n l.
Proof.
  intros H. rewrite firstn_app. replace (n - length l) with 0 by lia. cbn. apply app_nil_r.
Qed.

Lemma firstn_S_nth_error {A} (l : list A) n x : nth_error l n = Some x -> firstn (S n) l = firstn n l ++ [x].
Proof.
  revert n. induction l as [|a l IH]; intros n H; destruct n; cbn in *; try discriminate H.
  - injection H as ->. reflexivity.
  - f_equal. apply IH. exact H.
Qed.

Lemma obool_eqb_eq x y : obool_eqb x y = true -> x = y.
Proof. destruct x as [[]|], y as [[]|]; cbn; intros H; try discriminate H; reflexivity. Qed.
Lemma hstage_eqb_eq x y : hstage_eqb x y = true -> x = y.
Proof. destruct x, y; cbn; intros H; try discriminate H; reflexivity. Qed.
Lemma is_none_eq {A} (x : option A) : is_none x = true -> x = None.
Proof. destruct x; cbn; intros H; [discriminate H|reflexivity]. Qed.

(** turn the boolean facts produced by [break_trans] into equations *)
Ltac norm_bools :=
  repeat match goal with
         | H : obool_eqb _ _ = true |- _ => apply obool_eqb_eq in H
         | H : hstage_eqb _ _ = true |- _ => apply hstage_eqb_eq in H
         | H : is_none _ = true |- _ => apply is_none_eq in H
         | H : negb _ = true |- _ => apply negb_true_iff in H
         | H : Bool.eqb _ _ = true |- _ => apply eqb_prop in H
         end.

Ltac mono_parts Hm M1 M2 M3 :=
  unfold mono in Hm; apply andb_true_iff in Hm; destruct Hm as [Hm M3];
  apply andb_true_iff in Hm; destruct Hm as [M1 M2].

Lemma inv_recv l m a a' g :
  (l = LRecvReq \/ l = LRecvEnc \/ l = LRecvPlain) -> msg_fits l m = true ->
  trans_ok l a a' = true -> Inv a g -> Inv a' (gupd l m g).
Proof.
  intros Hl Hfit T [].
  assert (Hg : gupd l m g =
    {| nextid := nextid g + 1; reads := reads g ++ [(nextid g, m)]; rslot := Some (nextid g, m);
       hslot := hslot g; hresp := hresp g; wslot := wslot g; writes := writes g;
       handed := handed g; enq := enq g; events := events g |}).
  { destruct Hl as [->|[->| ->]]; reflexivity. }
  rewrite Hg. clear Hg.
  assert (Hspec : exists e, is_bad m = e /\ implb (a_hexit a) (a_hexit a') = true /\ implb (a_wdead a) (a_wdead a') = true
                 /\ a_rfull a = None /\ a_rdead a = false /\ a_rfull a' = Some e /\ a_rdead a' = false
                 /\ a_hst a = a_hst a' /\ a_herr a = a_herr a' /\ a_wfull a = a_wfull a').
  { destruct Hl as [->|[->| ->]]; destruct m; try discriminate Hfit; break_trans T; norm_bools;
    eexists; repeat split; eauto. }
  destruct Hspec as [e [Hbad [M2 [M3 [R1 [R2 [R3 [R4 [Eh [Ee Ew]]]]]]]]]].
  pose proof (i_rpos0 R2) as [Hlen _].
  rewrite R1 in i_r0. destruct (rslot g) eqn:Ers; [destruct i_r0|]. cbn [olen] in *.
  constructor; cbn [nextid reads rslot hslot hresp wslot writes handed enq olen]; rewrite ?R3, <- ?Eh, <- ?Ee, <- ?Ew; auto.
  - rewrite app_length. cbn. lia.
  - rewrite firstn_app_le by lia. exact i_writes0.
  - rewrite app_length. cbn. lia.
  - intros _. rewrite app_length. cbn. split; [lia|]. intros x Hx. injection Hx as <-.
    rewrite nth_error_app2 by lia. replace (handed g - length (reads g)) with 0 by lia. reflexivity.
  - intros x Hx. apply nth_error_app_l. auto.
  - intros y Hy. destruct (i_hrpos0 y Hy) as [x [Hx E]]. exists x. split; [apply nth_error_app_l|]; auto.
  - intros D. apply i_hcnt0. eapply implb_false; eauto.
  - intros y Hy. destruct (i_wpos0 y Hy) as [x [Hx E]]. exists x. split; [apply nth_error_app_l|]; auto.
  - intros D. apply i_wcnt0. eapply implb_false; eauto.
  - intros i x Hx Hb Hi. apply (i_bad0 i x); auto.
    rewrite nth_error_app1 in Hx by lia. exact Hx.
  - intros i x Hx. destruct (Nat.lt_ge_cases i (length (reads g))) as [Hlt|Hge].
    + rewrite nth_error_app1 in Hx by lia. eauto.
    + rewrite nth_error_app2 in Hx by lia. destruct (i - length (reads g)) as [|k] eqn:Ek.
      * cbn in Hx. injection Hx as <-. cbn [fst]. rewrite i_next0. f_equal. lia.
      * destruct k; discriminate Hx.
Qed.

Ltac trans_spec := let T := fresh "T" in intros T; break_trans T; norm_bools; repeat split; try assumption; try (symmetry; assumption).

Lemma spec_fatal l a a' : (l = LRecvPlainFatal \/ l = LRecvFail) -> trans_ok l a a' = true ->
  a_rfull a = None /\ a_rdead a = false /\ a_rfull a' = None /\ a_rdead a' = true /\
  a_hst a' = a_hst a /\ a_herr a' = a_herr a /\ a_wfull a' = a_wfull a /\
  implb (a_hexit a) (a_hexit a') = true /\ implb (a_wdead a) (a_wdead a') = true.
Proof. intros [->| ->]; trans_spec. Qed.

Lemma spec_rdrop a a' : trans_ok LRDrop a a' = true ->
  a_rfull a' = None /\ a_rdead a' = true /\
  a_hst a' = a_hst a /\ a_herr a' = a_herr a /\ a_wfull a' = a_wfull a /\
  implb (a_hexit a) (a_hexit a') = true /\ implb (a_wdead a) (a_wdead a') = true.
Proof. trans_spec. Qed.

Lemma spec_handoff a a' : trans_ok LHandoff a a' = true ->
  exists e, a_rfull a = Some e /\ a_herr a' = e /\
  a_rdead a = false /\ a_hexit a = false /\ a_herr a = false /\ a_hst a = HNone /\
  a_rfull a' = None /\ a_rdead a' = false /\ a_hst a' = HMsg /\ a_hexit a' = false /\ a_wfull a' = a_wfull a /\
  implb (a_wdead a) (a_wdead a') = true.
Proof.
  intros T. break_trans T. destruct (a_rfull a) as [e|]; [|discriminate]. norm_bools.
  exists e. repeat split; try assumption; try (symmetry; assumption).
Qed.

Lemma spec_hend l a a' : (l = LHEnd \/ l = LMkErrResp) -> trans_ok l a a' = true ->
  a_hst a = HMsg /\ a_hst a' = HResp /\ a_herr a' = a_herr a /\ a_rfull a' = a_rfull a /\ a_wfull a' = a_wfull a /\
  implb (a_rdead a) (a_rdead a') = true /\ implb (a_hexit a) (a_hexit a') = true /\ implb (a_wdead a) (a_wdead a') = true.
Proof. intros [->| ->]; trans_spec. Qed.

Lemma spec_hdrop a a' : trans_ok LHDrop a a' = true ->
  a_hst a' = HNone /\ a_hexit a' = true /\ a_herr a' = a_herr a /\ a_rfull a' = a_rfull a /\ a_wfull a' = a_wfull a /\
  implb (a_rdead a) (a_rdead a') = true /\ implb (a_wdead a) (a_wdead a') = true.
Proof. trans_spec. Qed.

Lemma spec_enqueue a a' : trans_ok LEnqueue a a' = true ->
  a_hst a = HResp /\ a_hexit a = false /\ a_wfull a = false /\ a_wdead a = false /\
  a_hst a' = HNone /\ a_hexit a' = false /\ a_wfull a' = true /\ a_wdead a' = false /\
  a_herr a' = a_herr a /\ a_rfull a' = a_rfull a /\ implb (a_rdead a) (a_rdead a') = true.
Proof. trans_spec. Qed.

Lemma spec_writeok a a' : trans_ok LWriteOk a a' = true ->
  a_wfull a = true /\ a_wdead a = false /\ a_wfull a' = false /\ a_wdead a' = false /\
  a_rfull a' = a_rfull a /\ a_hst a' = a_hst a /\ a_herr a' = a_herr a /\
  implb (a_rdead a) (a_rdead a') = true /\ implb (a_hexit a) (a_hexit a') = true.
Proof. trans_spec. Qed.

Lemma spec_writefail a a' : trans_ok LWriteFail a a' = true ->
  a_wfull a = true /\ a_wfull a' = false /\ a_wdead a' = true /\
  a_rfull a' = a_rfull a /\ a_hst a' = a_hst a /\ a_herr a' = a_herr a /\
  implb (a_rdead a) (a_rdead a') = true /\ implb (a_hexit a) (a_hexit a') = true.
Proof. trans_spec. Qed.

Ltac dead_prem H := let D := fresh "D" in intros D; apply H; eapply implb_false; eauto.
Ltac absurd_prem R := let D := fresh "D" in intros D; rewrite D in R; discriminate R.
Ltac nodisc := let z := fresh in let Hz := fresh in intros z Hz; discriminate Hz.
Ltac lift_h H := let y := fresh in let Hy := fresh in let x := fresh in let Hx := fresh in let E := fresh in
  intros y Hy; destruct (H y Hy) as [x [Hx E]]; exists x; split; [apply nth_error_app_l|]; auto.
Ltac gsimp := cbn [gupd nextid reads rslot hslot hresp wslot writes handed enq olen opt_list option_map].

Lemma inv_fatal l m a a' g :
  (l = LRecvPlainFatal \/ l = LRecvFail) ->
  trans_ok l a a' = true -> Inv a g -> Inv a' (gupd l m g).
Proof.
  intros Hl T []. destruct (spec_fatal l a a' Hl T) as [R1 [R2 [R3 [R4 [Eh [Ee [Ew [M2 M3]]]]]]]].
  pose proof (i_rpos0 R2) as [Hlen _].
  rewrite R1 in i_r0. destruct (rslot g) eqn:Ers; [destruct i_r0|]. cbn [olen] in *.
  destruct Hl as [->| ->].
  - constructor; gsimp; rewrite ?R3, ?Eh, ?Ee, ?Ew.
    + exact I.
    + exact i_h0.
    + exact i_w0.
    + rewrite app_length. cbn. lia.
    + rewrite firstn_app_le by lia. exact i_writes0.
    + exact i_le4.
    + exact i_le5.
    + rewrite app_length. cbn. lia.
    + absurd_prem R4.
    + intros x Hx. apply nth_error_app_l. auto.
    + lift_h i_hrpos0.
    + dead_prem i_hcnt0.
    + lift_h i_wpos0.
    + dead_prem i_wcnt0.
    + intros i x Hx Hb Hi. apply (i_bad0 i x); auto.
      rewrite nth_error_app1 in Hx by lia. exact Hx.
    + intros i x Hx. destruct (Nat.lt_ge_cases i (length (reads g))) as [Hlt|Hge].
      * rewrite nth_error_app1 in Hx by lia. eauto.
      * rewrite nth_error_app2 in Hx by lia. destruct (i - length (reads g)) as [|k] eqn:Ek.
        -- cbn in Hx. injection Hx as <-. cbn [fst]. rewrite i_next0. f_equal. lia.
        -- destruct k; discriminate Hx.
  - constructor; cbn [gupd]; rewrite ?R3, ?Eh, ?Ee, ?Ew, ?Ers; auto;
      first [absurd_prem R4 | dead_prem i_hcnt0 | dead_prem i_wcnt0].
Qed.

Lemma inv_rdrop m a a' g :
  trans_ok LRDrop a a' = true -> Inv a g -> Inv a' (gupd LRDrop m g).
Proof.
  intros T []. destruct (spec_rdrop a a' T) as [R3 [R4 [Eh [Ee [Ew [M2 M3]]]]]].
  constructor; gsimp; rewrite ?R3, ?Eh, ?Ee, ?Ew.
  - exact I.
  - exact i_h0.
  - exact i_w0.
  - exact i_next0.
  - exact i_writes0.
  - exact i_le4.
  - exact i_le5.
  - lia.
  - absurd_prem R4.
  - exact i_hpos0.
  - exact i_hrpos0.
  - dead_prem i_hcnt0.
  - exact i_wpos0.
  - dead_prem i_wcnt0.
  - exact i_bad0.
  - exact i_ids0.
Qed.

Lemma inv_handoff m a a' g :
  trans_ok LHandoff a a' = true -> Inv a g -> Inv a' (gupd LHandoff m g).
Proof.
  intros T []. destruct (spec_handoff a a' T) as [e [R1 [Ee [R2 [H2 [He [Hh [R3 [R4 [Hh' [H2' [Ew M3]]]]]]]]]]]].
  rewrite R1 in i_r0. destruct (rslot g) as [x|] eqn:Ers; [|destruct i_r0].
  rewrite Hh in i_h0. destruct i_h0 as [Hhs Hhr].
  pose proof (i_rpos0 R2) as [Hlen Hpos]. specialize (Hpos x eq_refl).
  pose proof (i_hcnt0 H2) as Hcnt. rewrite Hhs, Hhr in *. cbn [olen] in *.
  constructor; gsimp; rewrite ?R3, ?Hh', ?Ew, ?Ers, ?Hhs, ?Hhr; cbn [olen].
  - exact I.
  - split; [discriminate|reflexivity].
  - exact i_w0.
  - exact i_next0.
  - exact i_writes0.
  - exact i_le4.
  - lia.
  - lia.
  - intros _. split; [lia|]. nodisc.
  - intros y Hy. injection Hy as <-. replace (S (handed g) - 1) with (handed g) by lia. exact Hpos.
  - nodisc.
  - intros _. lia.
  - exact i_wpos0.
  - dead_prem i_wcnt0.
  - intros i y Hy Hb Hi.
    destruct (Nat.eq_dec i (handed g)) as [->|Hne].
    + split; [|reflexivity]. rewrite Hpos in Hy. injection Hy as <-. rewrite Ee. rewrite <- i_r0. exact Hb.
    + assert (Hlt : i < handed g) by lia. destruct (i_bad0 i y Hy Hb Hlt) as [Hc _].
      rewrite Hc in He. discriminate He.
  - exact i_ids0.
Qed.

Lemma inv_hend l m a a' g :
  (l = LHEnd \/ l = LMkErrResp) ->
  trans_ok l a a' = true -> Inv a g -> Inv a' (gupd l m g).
Proof.
  intros Hl T []. destruct (spec_hend l a a' Hl T) as [Hh [Hh' [Ee [Er [Ew [M1 [M2 M3]]]]]]].
  rewrite Hh in i_h0. destruct i_h0 as [Hhs Hhr].
  destruct (hslot g) as [x|] eqn:Ehs; [|contradiction Hhs; reflexivity].
  rewrite Hhr in *. cbn [olen] in *.
  assert (Hg : forall ev, Inv a'
    {| nextid := nextid g; reads := reads g; rslot := rslot g; hslot := None; hresp := option_map resp_entry (Some x);
       wslot := wslot g; writes := writes g; handed := handed g; enq := enq g; events := ev |}).
  { intros ev. constructor; gsimp; rewrite ?Hh', ?Ee, ?Er, ?Ew.
    - exact i_r0.
    - split; [reflexivity|discriminate].
    - exact i_w0.
    - exact i_next0.
    - exact i_writes0.
    - exact i_le4.
    - lia.
    - exact i_le6.
    - dead_prem i_rpos0.
    - nodisc.
    - intros y Hy. injection Hy as <-. exists x. split; auto.
    - intros D. rewrite <- i_hcnt0; [lia|]. eapply implb_false; eauto.
    - exact i_wpos0.
    - dead_prem i_wcnt0.
    - exact i_bad0.
    - exact i_ids0. }
  destruct Hl as [->| ->]; cbn [gupd]; rewrite Ehs; apply Hg.
Qed.

Lemma inv_hdrop m a a' g :
  trans_ok LHDrop a a' = true -> Inv a g -> Inv a' (gupd LHDrop m g).
Proof.
  intros T []. destruct (spec_hdrop a a' T) as [Hh' [H2' [Ee [Er [Ew [M1 M3]]]]]].
  constructor; gsimp; rewrite ?Hh', ?Ee, ?Er, ?Ew.
  - exact i_r0.
  - split; reflexivity.
  - exact i_w0.
  - exact i_next0.
  - exact i_writes0.
  - exact i_le4.
  - lia.
  - exact i_le6.
  - dead_prem i_rpos0.
  - nodisc.
  - nodisc.
  - absurd_prem H2'.
  - exact i_wpos0.
  - dead_prem i_wcnt0.
  - exact i_bad0.
  - exact i_ids0.
Qed.

Lemma inv_enqueue m a a' g :
  trans_ok LEnqueue a a' = true -> Inv a g -> Inv a' (gupd LEnqueue m g).
Proof.
  intros T []. destruct (spec_enqueue a a' T) as [Hh [H2 [W1 [W2 [Hh' [H2' [W1' [W2' [Ee [Er M1]]]]]]]]]].
  rewrite Hh in i_h0. destruct i_h0 as [Hhs Hhr].
  destruct (hresp g) as [y|] eqn:Ehr; [|contradiction Hhr; reflexivity].
  assert (Hw : wslot g = None) by (apply i_w0; exact W1).
  pose proof (i_hcnt0 H2) as Hcnt. pose proof (i_wcnt0 W2) as Wcnt.
  rewrite Hhs, Hw in *. cbn [olen] in *.
  destruct (i_hrpos0 y eq_refl) as [x [Hx Hy]].
  constructor; gsimp; rewrite ?Hh', ?Ee, ?Er, ?Ehr, ?Hw, ?Hhs; cbn [olen].
  - exact i_r0.
  - split; reflexivity.
  - split; [intros D; discriminate D | intros D; rewrite D in W1'; discriminate W1'].
  - exact i_next0.
  - exact i_writes0.
  - lia.
  - lia.
  - exact i_le6.
  - dead_prem i_rpos0.
  - nodisc.
  - nodisc.
  - intros _. lia.
  - intros z Hz. injection Hz as <-. exists x. split; [|exact Hy].
    replace (S (enq g) - 1) with (handed g - 1) by lia. exact Hx.
  - intros _. lia.
  - exact i_bad0.
  - exact i_ids0.
Qed.

Lemma inv_writeok m a a' g :
  trans_ok LWriteOk a a' = true -> Inv a g -> Inv a' (gupd LWriteOk m g).
Proof.
  intros T []. destruct (spec_writeok a a' T) as [W1 [W2 [W1' [W2' [Er [Eh [Ee [M1 M2]]]]]]]].
  destruct (wslot g) as [y|] eqn:Ews.
  2:{ assert (a_wfull a = false) by (apply i_w0; reflexivity). congruence. }
  pose proof (i_wcnt0 W2) as Wcnt. cbn [olen] in *.
  destruct (i_wpos0 y eq_refl) as [x [Hx Hy]].
  assert (Hlen : length (writes g) < length (reads g)).
  { apply nth_error_Some. replace (length (writes g)) with (enq g - 1) by lia. rewrite Hx. discriminate. }
  constructor; gsimp; rewrite ?Er, ?Eh, ?Ee, ?Ews; cbn [olen opt_list].
  - exact i_r0.
  - exact i_h0.
  - split; [intros _; exact W1' | reflexivity].
  - exact i_next0.
  - rewrite app_length. cbn [length].
    replace (length (writes g) + 1) with (S (length (writes g))) by lia.
    rewrite (firstn_S_nth_error _ _ x) by (replace (length (writes g)) with (enq g - 1) by lia; exact Hx).
    rewrite map_app. cbn [map]. rewrite <- Hy. f_equal. exact i_writes0.
  - rewrite app_length. cbn. lia.
  - exact i_le5.
  - exact i_le6.
  - dead_prem i_rpos0.
  - exact i_hpos0.
  - exact i_hrpos0.
  - dead_prem i_hcnt0.
  - nodisc.
  - intros _. rewrite app_length. cbn. lia.
  - exact i_bad0.
  - exact i_ids0.
Qed.

Lemma inv_writefail m a a' g :
  trans_ok LWriteFail a a' = true -> Inv a g -> Inv a' (gupd LWriteFail m g).
Proof.
  intros T []. destruct (spec_writefail a a' T) as [W1 [W1' [W2' [Er [Eh [Ee [M1 M2]]]]]]].
  constructor; gsimp; rewrite ?Er, ?Eh, ?Ee.
  - exact i_r0.
  - exact i_h0.
  - split; [intros _; exact W1' | reflexivity].
  - exact i_next0.
  - exact i_writes0.
  - lia.
  - exact i_le5.
  - exact i_le6.
  - dead_prem i_rpos0.
  - exact i_hpos0.
  - exact i_hrpos0.
  - dead_prem i_hcnt0.
  - nodisc.
  - absurd_prem W2'.
  - exact i_bad0.
  - exact i_ids0.
Qed.

(** all remaining labels move no data *)
Lemma inv_other l m a a' g :
  match l with
  | LRecvReq | LRecvEnc | LRecvPlain | LRecvPlainFatal | LRecvFail | LRDrop | LHandoff | LHEnd | LMkErrResp
  | LHDrop | LEnqueue | LWriteOk | LWriteFail => False
  | _ => True
  end ->
  trans_ok l a a' = true -> Inv a g -> Inv a' (gupd l m g).
Proof.
  intros Hl T HI.
  destruct l; try contradiction Hl;
    (unfold trans_ok in T; apply andb_true_iff in T; destruct T as [Tm T];
     repeat match type of T with _ && _ = true => let T' := fresh "T" in apply andb_true_iff in T; destruct T as [T T'] end;
     eapply inv_frame; try exact HI; try exact Tm; try reflexivity;
     try assumption).
Qed.

Lemma inv_step l m a a' g :
  (is_recv l = true -> msg_fits l m = true) ->
  trans_ok l a a' = true -> Inv a g -> Inv a' (gupd l m g).
Proof.
  intros Hfit T HI.
  destruct l;
    match goal with
    | |- Inv _ (gupd ?l _ _) =>
      first [ exact (inv_other l m a a' g I T HI)
            | exact (inv_recv l m a a' g ltac:(tauto) (Hfit eq_refl) T HI)
            | exact (inv_fatal l m a a' g ltac:(tauto) T HI)
            | exact (inv_rdrop m a a' g T HI)
            | exact (inv_handoff m a a' g T HI)
            | exact (inv_hend l m a a' g ltac:(tauto) T HI)
            | exact (inv_hdrop m a a' g T HI)
            | exact (inv_enqueue m a a' g T HI)
            | exact (inv_writeok m a a' g T HI)
            | exact (inv_writefail m a a' g T HI) ]
    end.
Qed.

(** The invariant holds in every reachable state of the ghost-augmented system, whatever
    messages the peer sends (alphabet [A]) and whatever the schedule. *)
Theorem ghost_inv : forall A tls x,
  reachable (gstep cfg_repo A) (ginit_state tls) x -> Inv (abs (fst x)) (snd x).
Proof.
  intros A tls x H. induction H as [|x y Hx IH Hy]; [apply inv_init|].
  pose proof (greachable_control _ _ _ _ Hx) as Hc. cbn [fst ginit_state] in Hc.
  destruct (gstep_inv _ _ _ _ Hy) as [l [c' [m [Hin [-> Hfit]]]]].
  cbn [fst snd]. apply (inv_step l m (abs (fst x)) (abs c') (snd x)); [exact Hfit | | exact IH].
  eapply trans_ok_reachable; eauto.
Qed.

(** * Consequences of the invariant: the history statements of C08 *)

(** responses are written in request order, each once, and each is the response the code
    computes for its request: the written responses are exactly the responses of a prefix of
    the messages read *)
Theorem conn_responses_in_order : forall A tls x,
  reachable (gstep cfg_repo A) (ginit_state tls) x ->
  writes (snd x) = map resp_entry (firstn (length (writes (snd x))) (reads (snd x))).
Proof. intros A tls x H. apply (i_writes _ _ (ghost_inv A tls x H)). Qed.

(** messages are numbered in arrival order *)
Theorem conn_reads_numbered : forall A tls x i e,
  reachable (gstep cfg_repo A) (ginit_state tls) x ->
  nth_error (reads (snd x)) i = Some e -> fst e = Z.of_nat i.
Proof. intros A tls x i e H. apply (i_ids _ _ (ghost_inv A tls x H)). Qed.

(** every request on a live connection is answered: whenever the connection is idle (all three
    goroutines wait for the peer's next message) every message read so far has been answered *)
Theorem conn_idle_all_answered : forall A tls x,
  reachable (gstep cfg_repo A) (ginit_state tls) x -> idle (fst x) = true ->
  writes (snd x) = map resp_entry (reads (snd x)).
Proof.
  intros A tls [c g] H Hidle. cbn [fst snd] in *.
  pose proof (ghost_inv A tls _ H) as HI. cbn [fst snd] in HI. destruct HI.
  unfold idle in Hidle.
  destruct (rp c) eqn:Er; try discriminate Hidle.
  destruct (wp c) eqn:Ew; try discriminate Hidle.
  destruct (hp c) eqn:Eh; try discriminate Hidle.
  unfold abs in *. cbn [a_rfull a_hst a_wfull a_rdead a_hexit a_wdead a_herr] in *.
  rewrite Er in *. rewrite Ew in *. rewrite Eh in *.
  destruct (rslot g) eqn:Ers; [destruct i_r0|].
  destruct i_h0 as [Hhs Hhr].
  assert (Hw : wslot g = None) by (apply i_w0; reflexivity).
  pose proof (i_rpos0 eq_refl) as [Hlen _]. pose proof (i_hcnt0 eq_refl) as Hc. pose proof (i_wcnt0 eq_refl) as Wc.
  rewrite Hhs, Hhr in Hc. rewrite Hw in Wc. cbn [olen] in *.
  rewrite i_writes0 at 1. f_equal. apply firstn_all2. lia.
Qed.

(** a correctly framed message that cannot be decoded is answered by the invalid-message
    response (definition of [resp_of]) and nothing after it is answered: the connection is
    closed after that single reply *)
Theorem conn_invalid_reply_is_last : forall A tls x i e,
  reachable (gstep cfg_repo A) (ginit_state tls) x ->
  nth_error (reads (snd x)) i = Some e -> is_bad (snd e) = true ->
  length (writes (snd x)) <= S i.
Proof.
  intros A tls x i e H Hn Hb. destruct (ghost_inv A tls x H).
  cbn [olen] in *.
  destruct (Nat.lt_ge_cases i (handed (snd x))) as [Hlt|Hge].
  - destruct (i_bad0 i e Hn Hb Hlt) as [_ E]. lia.
  - lia.
Qed.

Lemma resp_of_bad m : is_bad m = true -> resp_of m = RInvalid.
Proof. destruct m; cbn; intros H; try discriminate H; reflexivity. Qed.

(** * The batch executor never lets a handler panic escape *)
Theorem execute_items_total : forall l, execute_items true l = GRet (map item_result l).
Proof.
  induction l as [|b l IH]; [reflexivity|].
  cbn [execute_items map]. rewrite IH. destruct b; reflexivity.
Qed.

Theorem resp_of_request : forall items, resp_of (MReq items) = RItems (map item_result items).
Proof. intros items. unfold resp_of. rewrite execute_items_total. reflexivity. Qed.

(** it is the deferred recover of executeItem that does it *)
Lemma execute_item_without_recover_panics :
  execute_items false [BOk; BPanicStr] = GPanic.
Proof. reflexivity. Qed.

(** * 6. The pinned tree's code (before the fix: commits) really had the defects *)

Definition pick (f : cstate -> bool) (C : cfg) : cstate :=
  match find f (fst (reach_set (cstep C) enc_cstate 400 (cinit false))) with Some s => s | None => cinit false end.

(** terminate closed tx while send had already loaded it: send on closed channel *)
Definition w_panic : cstate := Eval vm_compute in pick panicked cfg_pinned.
Theorem pinned_conn_can_panic :
  exists s, reachable (cstep cfg_pinned) (cinit false) s /\ panicked s = true.
Proof.
  exists w_panic. split; [|reflexivity].
  apply (reachable_by_exploration cfg_pinned (cinit false) 400). vm_compute. reflexivity.
Qed.

(** writeloop blocked forever on the unbuffered errCh after send left through ctx.Done():
    a state with the peer gone, nothing enabled, not panicked, and writeloop not finished *)
Definition leaked (s : cstate) : bool :=
  negb (panicked s) && conn_over s && negb (all_done s)
  && match cstep cfg_pinned s with [] => true | _ => false end
  && match wp s with W_SendErr => true | _ => false end.
Definition w_leak : cstate := Eval vm_compute in pick leaked cfg_pinned.
Theorem pinned_conn_can_leak :
  exists s, reachable (cstep cfg_pinned) (cinit false) s /\ panicked s = false /\ conn_over s = true
            /\ cstep cfg_pinned s = [] /\ all_done s = false /\ wp s = W_SendErr.
Proof.
  exists w_leak. split; [|repeat split; reflexivity].
  apply (reachable_by_exploration cfg_pinned (cinit false) 400). vm_compute. reflexivity.
Qed.

(** * Non-vacuity: the states the theorems talk about are reachable *)
Definition w_idle : cstate := Eval vm_compute in pick idle cfg_repo.
Example idle_reachable : exists s, reachable (cstep cfg_repo) (cinit false) s /\ idle s = true.
Proof.
  exists w_idle. split; [|reflexivity].
  apply (reachable_by_exploration cfg_repo (cinit false) 400). vm_compute. reflexivity.
Qed.

Definition w_hgone : cstate := Eval vm_compute in pick (fun s => in_handler s && conn_over s) cfg_repo.
Example handler_and_gone_reachable :
  exists s, reachable (cstep cfg_repo) (cinit false) s /\ in_handler s = true /\ conn_over s = true.
Proof.
  exists w_hgone. split; [|split; reflexivity].
  apply (reachable_by_exploration cfg_repo (cinit false) 400). vm_compute. reflexivity.
Qed.

Lemma label_eq_dec (a b : label) : {a = b} + {a <> b}.
Proof. decide equality. Defined.

(** * 7. Hook pairing (C16, per connection): the monitor never rejects *)
Lemma enc_hookst_inj : forall a b, enc_hookst a = enc_hookst b -> a = b. Proof. enum_inj. Qed.
Lemma enc_mon_inj : forall a b, enc_mon a = enc_mon b -> a = b.
Proof.
  intros a b H. unfold enc_mon in H.
  repeat match type of H with
         | ppair _ _ = ppair _ _ => apply ppair_inj in H; let H1 := fresh "E" in destruct H as [H1 H]
         end.
  apply enc_hookst_inj in E. apply enc_bool_inj in E0. apply enc_bool_inj in E1. apply enc_bool_inj in E2. apply enc_bool_inj in H.
  destruct a, b; cbn in *; subst; reflexivity.
Qed.
Lemma enc_mstate_inj : forall a b, enc_mstate a = enc_mstate b -> a = b.
Proof.
  intros [c q] [c' q'] H. unfold enc_mstate in H. apply ppair_inj in H. destruct H as [H1 H2].
  cbn [fst snd] in *. apply enc_cstate_inj in H1. apply enc_mon_inj in H2. subst. reflexivity.
Qed.

Definition Mset : list mstate := fst (reach_set (mstep cfg_repo) enc_mstate 500 (cinit true, mon0)).
Definition mon_cert : bool :=
  mem_states enc_mstate Mset (cinit true, mon0)
  && Lts.closed (mstep cfg_repo) enc_mstate Mset
  && forallb (fun x => negb (m_bad (snd x))) Mset.
Lemma mon_cert_ok : mon_cert = true.
Proof. vm_compute. reflexivity. Qed.
Global Opaque Mset.

Lemma mon_never_bad tls x : reachable (mstep cfg_repo) (cinit tls, mon0) x -> m_bad (snd x) = false.
Proof.
  intros H. pose proof mon_cert_ok as Hc. unfold mon_cert in Hc.
  apply andb_true_iff in Hc. destruct Hc as [Hc H3]. apply andb_true_iff in Hc. destruct Hc as [H1 H2].
  apply (mem_states_In _ enc_mstate enc_mstate_inj) in H1.
  assert (Hin : In x Mset).
  { apply (closed_sound (mstep cfg_repo) enc_mstate enc_mstate_inj (cinit true, mon0) Mset H1 H2).
    destruct tls; [exact H|].
    eapply reachable_trans; [|exact H].
    eapply reach_step; [apply reach_init|]. vm_compute. left. reflexivity. }
  rewrite forallb_forall in H3. specialize (H3 x Hin). apply negb_true_iff in H3. exact H3.
Qed.

(** the ghost's event list drives the monitor exactly as the labels do *)
Lemma mon_of_gupd l m g : mon_of (events (gupd l m g)) = mon_upd l (mon_of (events g)).
Proof. destruct l; reflexivity. Qed.

Lemma greachable_monitor A tls x :
  reachable (gstep cfg_repo A) (ginit_state tls) x ->
  reachable (mstep cfg_repo) (cinit tls, mon0) (fst x, mon_of (events (snd x))).
Proof.
  intros H. induction H as [|x y Hx IH Hy]; [apply reach_init|].
  destruct (gstep_inv _ _ _ _ Hy) as [l [c' [m [Hin [-> _]]]]]. cbn [fst snd].
  eapply reach_step; [exact IH|]. unfold mstep. cbn [fst snd].
  rewrite mon_of_gupd. apply in_map_iff. exists (l, c'). split; [reflexivity|exact Hin].
Qed.

(** C16, per connection: the hook / handler / wg events of any execution satisfy the pairing
    discipline checked by [trace_ok] *)
Theorem hook_pairing : forall A tls x,
  reachable (gstep cfg_repo A) (ginit_state tls) x -> trace_ok (rev (events (snd x))) = true.
Proof.
  intros A tls x H. unfold trace_ok. rewrite rev_involutive.
  apply negb_true_iff. apply (mon_never_bad tls _ (greachable_monitor A tls x H)).
Qed.

(** what an accepted trace looks like: facts read off the monitor *)
Lemma mon_term_once ev : m_bad (mon_of ev) = false -> count_occ label_eq_dec ev LTermHook <= 1.
Proof.
  assert (G : forall ev, m_bad (mon_of ev) = false ->
              count_occ label_eq_dec ev LTermHook <= 1 /\
              (m_term (mon_of ev) = false -> count_occ label_eq_dec ev LTermHook = 0)).
  { clear ev. induction ev as [|l ev IH]; [cbn; split; [lia|reflexivity]|].
    intros Hb. cbn [mon_of fold_right] in Hb. fold (mon_of ev) in Hb.
    assert (Hb' : m_bad (mon_of ev) = false).
    { destruct l; cbn in Hb; try exact Hb; repeat (apply orb_false_iff in Hb; destruct Hb as [Hb _]); exact Hb. }
    destruct (IH Hb') as [I1 I2].
    cbn [mon_of fold_right]. fold (mon_of ev).
    destruct (label_eq_dec l LTermHook) as [->|Hne].
    - cbn [count_occ]. destruct (label_eq_dec LTermHook LTermHook) as [_|N]; [|contradiction N; reflexivity].
      cbn in Hb. repeat (apply orb_false_iff in Hb; destruct Hb as [Hb ?]).
      split; [rewrite I2 by assumption; lia | cbn; intros D; discriminate D].
    - rewrite count_occ_cons_neq by exact Hne.
      split; [exact I1|]. intros D. apply I2. destruct l; cbn in D; try exact D. contradiction Hne; reflexivity. }
  intros Hb. apply (G ev Hb).
Qed.
