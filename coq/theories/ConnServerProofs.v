(** Proofs about the connection model ConnServer.v (property C08, and the per-connection
    part of C16).

    Structure:
      1. generic lemmas on transition systems that Lts.v does not have (sub-relation ranking,
         soundness of the exploration, lifting along a projection);
      2. injectivity of the state encoding;
      3. the control certificates: closure of the explored set, no panic, ranking of the
         internal steps, classification of the states without internal successor;
      4. the abstraction of control states used by the ghost layer, checked on every transition;
      5. the ghost invariant (one response per request, in order) by induction on executions;
      6. refutation lemmas for the pinned tree's code. *)
From Coq Require Import List Bool PArith ZArith Lia Arith FMapPositive.
From KV Require Import Lts ConnServer.
Import ListNotations.

(** * 1. Generic lemmas *)
Section Generic.
  Variable S : Type.
  Variable step : S -> list S.
  Variable enc : S -> positive.
  Hypothesis enc_inj : forall a b, enc a = enc b -> a = b.

  Lemma closed_step states s t :
    Lts.closed step enc states = true -> In s states -> In t (step s) -> In t states.
  Proof.
    intros Hc Hs Ht. unfold Lts.closed in Hc. rewrite forallb_forall in Hc.
    specialize (Hc s Hs). rewrite forallb_forall in Hc.
    apply (inset_In S enc enc_inj). apply Hc. exact Ht.
  Qed.

  (** membership test by encoding *)
  Definition mem_states (states : list S) (s : S) : bool := existsb (fun t => Pos.eqb (enc t) (enc s)) states.
  Lemma mem_states_In states s : mem_states states s = true -> In s states.
  Proof.
    unfold mem_states. rewrite existsb_exists. intros [t [Ht He]].
    apply Pos.eqb_eq in He. apply enc_inj in He. subst. exact Ht.
  Qed.

  (** a second relation [sub] contained in [step] (the internal steps), ranked on a closed set *)
  Variable sub : S -> list S.
  Hypothesis sub_incl : forall s t, In t (sub s) -> In t (step s).

  Definition decreasing_on (rank : S -> nat) (states : list S) : bool :=
    forallb (fun s => forallb (fun t => Nat.ltb (rank t) (rank s)) (sub s)) states.

  Theorem ranked_sub states rank :
    Lts.closed step enc states = true -> decreasing_on rank states = true ->
    forall s, In s states -> forall p, path sub s p -> length p <= rank s.
  Proof.
    intros Hc Hd s Hs p Hp. revert Hs. induction Hp as [s|s t p Ht Hp IH]; intros Hs; cbn [length]; [lia|].
    unfold decreasing_on in Hd. rewrite forallb_forall in Hd. pose proof (Hd s Hs) as Hds.
    rewrite forallb_forall in Hds. specialize (Hds t Ht). apply Nat.ltb_lt in Hds.
    assert (Hin : In t states) by (eapply closed_step; eauto).
    specialize (IH Hin). lia.
  Qed.

  (** states reached along [sub] stay in a set closed under [step] *)
  Lemma reachable_sub_in states :
    Lts.closed step enc states = true ->
    forall s t, In s states -> reachable sub s t -> In t states.
  Proof.
    intros Hc s t Hs Hr. induction Hr as [|u v Hr IH Hv]; [exact Hs|].
    eapply closed_step; eauto.
  Qed.

  (** everything the (untrusted) exploration returns is reachable *)
  Lemma explore_sound init : forall fuel frontier seen acc,
    (forall s, In s frontier -> reachable step init s) ->
    (forall s, In s acc -> reachable step init s) ->
    forall s, In s (fst (explore S step enc fuel frontier seen acc)) -> reachable step init s.
  Proof.
    induction fuel as [|fuel IH]; intros frontier seen acc Hf Ha s Hs; cbn [explore] in Hs.
    - cbn [fst] in Hs. apply Ha. exact Hs.
    - destruct frontier as [|f0 fr].
      + cbn [fst] in Hs. apply Ha. exact Hs.
      + set (inner := fun (st : list S * PS.t * list S) (u : S) =>
               fold_left (fun '(nx, sn, ac) t =>
                 if PS.mem (enc t) sn then (nx, sn, ac) else (t :: nx, PS.add (enc t) sn, t :: ac)) (step u) st) in *.
        assert (Hinner : forall succ st,
                   (forall t, In t succ -> reachable step init t) ->
                   (forall t, In t (fst (fst st)) -> reachable step init t) ->
                   (forall t, In t (snd st) -> reachable step init t) ->
                   let r := fold_left (fun '(nx, sn, ac) t =>
                              if PS.mem (enc t) sn then (nx, sn, ac) else (t :: nx, PS.add (enc t) sn, t :: ac)) succ st in
                   (forall t, In t (fst (fst r)) -> reachable step init t) /\
                   (forall t, In t (snd r) -> reachable step init t)).
        { induction succ as [|t0 succ IHs]; intros st Hsucc H1 H2; cbn [fold_left].
          - split; assumption.
          - destruct st as [[nx sn] ac]. destruct (PS.mem (enc t0) sn).
            + apply IHs; [intros; apply Hsucc; right; assumption | exact H1 | exact H2].
            + apply IHs; [intros; apply Hsucc; right; assumption | |]; cbn [fst snd].
              * intros t [<-|Ht]; [apply Hsucc; left; reflexivity | apply H1; exact Ht].
              * intros t [<-|Ht]; [apply Hsucc; left; reflexivity | apply H2; exact Ht]. }
        assert (Houter : forall fr' st,
                   (forall u, In u fr' -> reachable step init u) ->
                   (forall t, In t (fst (fst st)) -> reachable step init t) ->
                   (forall t, In t (snd st) -> reachable step init t) ->
                   let r := fold_left (fun '(nx, sn, ac) u =>
                              fold_left (fun '(nx, sn, ac) t =>
                                if PS.mem (enc t) sn then (nx, sn, ac) else (t :: nx, PS.add (enc t) sn, t :: ac)) (step u) (nx, sn, ac)) fr' st in
                   (forall t, In t (fst (fst r)) -> reachable step init t) /\
                   (forall t, In t (snd r) -> reachable step init t)).
        { induction fr' as [|u fr' IHf]; intros st Hfr H1 H2; cbn [fold_left].
          - split; assumption.
          - destruct st as [[nx sn] ac].
            destruct (Hinner (step u) (nx, sn, ac)) as [G1 G2].
            + intros t Ht. eapply reach_step; [apply Hfr; left; reflexivity | exact Ht].
            + exact H1.
            + exact H2.
            + apply IHf; [intros; apply Hfr; right; assumption | exact G1 | exact G2]. }
        destruct (Houter (f0 :: fr) ([], seen, acc) Hf) as [G1 G2].
        { cbn. intros t []. }
        { exact Ha. }
        revert Hs G1 G2.
        destruct (fold_left _ (f0 :: fr) ([], seen, acc)) as [[next seen'] acc'] eqn:E.
        cbn [fst snd]. intros Hs G1 G2. eapply IH; [exact G1 | exact G2 | exact Hs].
  Qed.

  Lemma reach_set_sound fuel init s :
    In s (fst (reach_set step enc fuel init)) -> reachable step init s.
  Proof.
    unfold reach_set. apply explore_sound.
    - intros t [<-|[]]. apply reach_init.
    - intros t [<-|[]]. apply reach_init.
  Qed.

  Lemma reachable_trans a b c : reachable step a b -> reachable step b c -> reachable step a c.
  Proof. intros Hab Hbc. induction Hbc; [exact Hab | eapply reach_step; eauto]. Qed.
End Generic.

Arguments mem_states {S}.
Arguments decreasing_on {S}.

(** * 2. The encoding of control states is injective *)
Lemma ppair_inj : forall a b c d, ppair a b = ppair c d -> a = c /\ b = d.
Proof.
  induction a as [a IH|a IH|]; intros b c d H; destruct c as [c|c|]; cbn [ppair] in H; try discriminate.
  - injection H as H. apply IH in H. destruct H; subst; auto.
  - injection H as H. apply IH in H. destruct H; subst; auto.
  - injection H as H. subst; auto.
Qed.

Ltac enum_inj :=
  let a := fresh in let b := fresh in let H := fresh in
  intros a b; destruct a, b; cbn; intros H; try reflexivity; try discriminate;
  repeat match goal with
         | k : hcont |- _ => destruct k
         | t : tstage |- _ => destruct t
         | t : bool |- _ => destruct t
         end; cbn in H; try reflexivity; try discriminate.
Lemma enc_bool_inj : forall a b, enc_bool a = enc_bool b -> a = b. Proof. enum_inj. Qed.
Lemma enc_chanv_inj : forall a b, enc_chanv a = enc_chanv b -> a = b. Proof. enum_inj. Qed.
Lemma enc_peer_inj : forall a b, enc_peer a = enc_peer b -> a = b. Proof. enum_inj. Qed.
Lemma enc_errch_inj : forall a b, enc_errch a = enc_errch b -> a = b. Proof. enum_inj. Qed.
Lemma enc_rpc_inj : forall a b, enc_rpc a = enc_rpc b -> a = b. Proof. enum_inj. Qed.
Lemma enc_wpc_inj : forall a b, enc_wpc a = enc_wpc b -> a = b. Proof. enum_inj. Qed.
Lemma enc_hpc_inj : forall a b, enc_hpc a = enc_hpc b -> a = b. Proof. enum_inj. Qed.

Lemma enc_cstate_inj : forall a b, enc_cstate a = enc_cstate b -> a = b.
Proof.
  intros a b H. unfold enc_cstate in H.
  repeat match type of H with
         | ppair _ _ = ppair _ _ => apply ppair_inj in H; let H1 := fresh "E" in destruct H as [H1 H]
         end.
  apply enc_rpc_inj in E. apply enc_wpc_inj in E0. apply enc_hpc_inj in E1.
  apply enc_bool_inj in E2. apply enc_bool_inj in E3. apply enc_bool_inj in E4. apply enc_bool_inj in E5.
  apply enc_chanv_inj in E6. apply enc_bool_inj in E7. apply enc_bool_inj in E8.
  apply enc_chanv_inj in E9. apply enc_chanv_inj in E10. apply enc_errch_inj in E11.
  apply enc_bool_inj in E12. apply enc_bool_inj in E13. apply enc_peer_inj in E14.
  apply enc_bool_inj in E15. apply enc_bool_inj in H.
  destruct a, b; cbn in *; subst; reflexivity.
Qed.

(** * 3. Control certificates for the repository's code *)

(** (untrusted) longest-path computation used as ranking function *)
Module PM := PositiveMap.
Section Rank.
  Variable S : Type.
  Variable sub : S -> list S.
  Variable enc : S -> positive.
  Fixpoint dfs (fuel : nat) (s : S) (memo : PM.t nat) : PM.t nat * nat :=
    match PM.find (enc s) memo with
    | Some r => (memo, r)
    | None =>
      match fuel with
      | O => (memo, O)
      | Datatypes.S f =>
        let '(memo', m) :=
          fold_left (fun '(mm, mx) t => let '(mm', r) := dfs f t mm in (mm', Nat.max mx (Datatypes.S r))) (sub s) (memo, O) in
        (PM.add (enc s) m memo', m)
      end
    end.
  Definition rank_table (fuel : nat) (states : list S) : PM.t nat :=
    fold_left (fun mm s => fst (dfs fuel s mm)) states (PM.empty nat).
  Definition rank_of (tbl : PM.t nat) (s : S) : nat :=
    match PM.find (enc s) tbl with Some r => r | None => O end.
End Rank.
Arguments rank_table {S}.
Arguments rank_of {S}.

Definition Rset : list cstate := fst (reach_set (cstep cfg_repo) enc_cstate 400 (cinit true)).
Definition itable : PM.t nat := rank_table (istep cfg_repo) enc_cstate 4000 Rset.
Definition irank : cstate -> nat := rank_of enc_cstate itable.

(** the whole certificate as one boolean, so that the exploration runs once *)
Definition safe_state (s : cstate) : bool := negb (panicked s).
Definition iterminal_ok (s : cstate) : bool :=
  match istep cfg_repo s with [] => all_done s || idle s || write_blocked s | _ => true end.
Definition terminal_ok (s : cstate) : bool :=
  match cstep cfg_repo s with [] => all_done s | _ => true end.
Definition over_stable (s : cstate) : bool :=
  negb (conn_over s) || (forallb conn_over (cstep cfg_repo s) && negb (idle s) && negb (write_blocked s)).

Definition control_cert : bool :=
  mem_states enc_cstate Rset (cinit true)
  && Lts.closed (cstep cfg_repo) enc_cstate Rset
  && forallb safe_state Rset
  && forallb terminal_ok Rset
  && forallb iterminal_ok Rset
  && forallb over_stable Rset
  && decreasing_on (istep cfg_repo) irank Rset.

Lemma control_cert_ok : control_cert = true.
Proof. vm_compute. reflexivity. Qed.

Global Opaque Rset itable.

Lemma and7 (a b c d e f g : bool) :
  a && b && c && d && e && f && g = true ->
  a = true /\ b = true /\ c = true /\ d = true /\ e = true /\ f = true /\ g = true.
Proof. destruct a, b, c, d, e, f, g; cbn; intros H; try discriminate; repeat split. Qed.

Lemma cert_parts :
  In (cinit true) Rset
  /\ Lts.closed (cstep cfg_repo) enc_cstate Rset = true
  /\ forallb safe_state Rset = true
  /\ forallb terminal_ok Rset = true
  /\ forallb iterminal_ok Rset = true
  /\ forallb over_stable Rset = true
  /\ decreasing_on (istep cfg_repo) irank Rset = true.
Proof.
  destruct (and7 _ _ _ _ _ _ _ control_cert_ok) as [H1 [H2 [H3 [H4 [H5 [H6 H7]]]]]].
  split; [exact (mem_states_In _ enc_cstate enc_cstate_inj _ _ H1)|].
  split; [exact H2|]. split; [exact H3|]. split; [exact H4|]. split; [exact H5|]. split; [exact H6|exact H7].
Qed.

Lemma istep_incl C s t : In t (istep C s) -> In t (cstep C s).
Proof.
  unfold istep, cstep, istep_lbl. intros H. apply in_map_iff in H. destruct H as [x [<- Hx]].
  apply filter_In in Hx. destruct Hx as [Hx _]. apply in_map. exact Hx.
Qed.

(** a plain (non-TLS) connection starts in a state that a TLS connection reaches after its handshake *)
Lemma cinit_false_reachable : reachable (cstep cfg_repo) (cinit true) (cinit false).
Proof.
  eapply reach_step; [apply reach_init|]. vm_compute. left. reflexivity.
Qed.

Lemma reachable_in_Rset tls s : reachable (cstep cfg_repo) (cinit tls) s -> In s Rset.
Proof.
  intros H. destruct cert_parts as [Hi [Hc _]].
  apply (closed_sound (cstep cfg_repo) enc_cstate enc_cstate_inj (cinit true) Rset Hi Hc).
  destruct tls; [exact H|].
  eapply reachable_trans; [apply cinit_false_reachable | exact H].
Qed.

(** C08 (control): no reachable state has panicked - no send on a closed channel, no close of a
    closed channel, in any number of steps, for any behaviour of the peer, the handlers, the
    hooks, Shutdown and the root context. *)
Theorem conn_no_panic : forall tls s, reachable (cstep cfg_repo) (cinit tls) s -> panicked s = false.
Proof.
  intros tls s H. apply reachable_in_Rset in H.
  destruct cert_parts as [_ [_ [Hs _]]]. rewrite forallb_forall in Hs.
  specialize (Hs s H). unfold safe_state in Hs. destruct (panicked s); [discriminate|reflexivity].
Qed.

(** no deadlock: a reachable state in which nothing at all can happen (not even a move of the
    peer or of Shutdown) has all three goroutines finished *)
Theorem conn_no_deadlock : forall tls s,
  reachable (cstep cfg_repo) (cinit tls) s -> cstep cfg_repo s = [] -> all_done s = true.
Proof.
  intros tls s H Hn. apply reachable_in_Rset in H.
  destruct cert_parts as [_ [_ [_ [Ht _]]]]. rewrite forallb_forall in Ht.
  specialize (Ht s H). unfold terminal_ok in Ht. rewrite Hn in Ht. exact Ht.
Qed.

(** progress: from any reachable state, internal steps alone (no new message, no move of the
    peer, of Shutdown or of the root context) can go on for at most [irank s] steps, whatever
    the schedule ... *)
Theorem conn_internal_terminates : forall tls s,
  reachable (cstep cfg_repo) (cinit tls) s ->
  forall p, path (istep cfg_repo) s p -> length p <= irank s.
Proof.
  intros tls s H p Hp. apply reachable_in_Rset in H.
  destruct cert_parts as [_ [Hc [_ [_ [_ [_ Hd]]]]]].
  exact (ranked_sub cstate (cstep cfg_repo) enc_cstate enc_cstate_inj (istep cfg_repo) (istep_incl cfg_repo)
           Rset irank Hc Hd s H p Hp).
Qed.

(** ... and where they stop, either everything has ended, or the connection is idle waiting
    for the peer's next message, or writeloop waits for the peer to read *)
Theorem conn_internal_quiescent : forall tls s,
  reachable (cstep cfg_repo) (cinit tls) s -> istep cfg_repo s = [] ->
  all_done s = true \/ idle s = true \/ write_blocked s = true.
Proof.
  intros tls s H Hn. apply reachable_in_Rset in H.
  destruct cert_parts as [_ [_ [_ [_ [Ht _]]]]]. rewrite forallb_forall in Ht.
  specialize (Ht s H). unfold iterminal_ok in Ht. rewrite Hn in Ht.
  apply orb_true_iff in Ht. destruct Ht as [Ht|Ht]; [|right; right; exact Ht].
  apply orb_true_iff in Ht. destruct Ht; [left|right; left]; assumption.
Qed.

(** no leak: once the connection is over (peer gone or half-closed, or socket closed by the
    server) every execution of internal steps is finite (previous theorem) and can only stop in
    a state where readloop, writeloop and handleConn have all returned *)
Theorem conn_no_leak : forall tls s,
  reachable (cstep cfg_repo) (cinit tls) s -> conn_over s = true ->
  forall t, reachable (istep cfg_repo) s t -> istep cfg_repo t = [] -> all_done t = true.
Proof.
  intros tls s H Ho t Ht Hn. apply reachable_in_Rset in H.
  destruct cert_parts as [_ [Hc [_ [_ [Hq [Hst _]]]]]].
  rewrite forallb_forall in Hst, Hq.
  assert (Hinv : In t Rset /\ conn_over t = true).
  { clear Hn. induction Ht as [|u v Hu IH Hv]; [split; assumption|].
    destruct IH as [Hin Hov].
    apply istep_incl in Hv. split.
    - exact (closed_step cstate (cstep cfg_repo) enc_cstate enc_cstate_inj Rset u v Hc Hin Hv).
    - specialize (Hst u Hin). unfold over_stable in Hst. rewrite Hov in Hst. cbn [negb orb] in Hst.
      apply andb_true_iff in Hst. destruct Hst as [Hst _]. apply andb_true_iff in Hst. destruct Hst as [Hst _].
      rewrite forallb_forall in Hst. apply Hst. exact Hv. }
  destruct Hinv as [Hin Hov].
  specialize (Hq t Hin). unfold iterminal_ok in Hq. rewrite Hn in Hq.
  specialize (Hst t Hin). unfold over_stable in Hst. rewrite Hov in Hst. cbn [negb orb] in Hst.
  apply andb_true_iff in Hst. destruct Hst as [Hst Hw]. apply andb_true_iff in Hst. destruct Hst as [_ Hi].
  apply negb_true_iff in Hi. apply negb_true_iff in Hw. rewrite Hi, Hw in Hq.
  rewrite !orb_false_r in Hq. exact Hq.
Qed.

(** non-vacuity: the idle state (all three goroutines waiting for the peer) and the fully
    terminated state are reachable, and so is a state in which a handler runs *)
Lemma reachable_by_exploration C init fuel s :
  mem_states enc_cstate (fst (reach_set (cstep C) enc_cstate fuel init)) s = true ->
  reachable (cstep C) init s.
Proof.
  intros H. apply (mem_states_In _ enc_cstate enc_cstate_inj) in H.
  exact (reach_set_sound cstate (cstep C) enc_cstate fuel init s H).
Qed.
