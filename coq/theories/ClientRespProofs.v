From Coq Require Import ZArith List Bool Lia.
From KV Require Import Base Cases Negotiate NegotiateProofs ClientResp.
Import ListNotations.
Open Scope Z_scope.

Lemma item_err_none it : item_err it = None <-> i_status it = success.
Proof.
  unfold item_err. destruct (i_status it =? success) eqn:E.
  - apply Z.eqb_eq in E. split; auto.
  - apply Z.eqb_neq in E. split; [discriminate | contradiction].
Qed.
